(** M-SCHEMA (C02), round 5: views in sql/internal/sqlx/diff.go -- the two view loops of
    [Diff.schemaDiff] (DropView / viewDiff, AddView), [viewDiff] (ModifyView when the index /
    column changes are not empty or the definition changed), [indexDiffV], [columnDiffV],
    [viewDefChanged] = [BodyDefChanged] (no community driver overrides it), [findView] (by
    name and kind: a view and a materialized view of one name are different objects).
    ViewAttrChanges returns nothing in the three community drivers; triggers of views are the
    no-op of the community build.

    [schema_v] wraps [schema] (Diff/Schema.v stays as it is) with the list of views.

    indexDiffV keeps an [exists] set of desired indexes by pointer; an index gets into it only
    through [to.Index(idx1.Name)], so a desired index in the set has a namesake on the current
    side and the second loop would skip it through [from.Index(idx.Name)] anyway: the set never
    changes the answer and the model looks indexes up by name only.
    No proofs in this file. *)
From Coq Require Import List NArith Bool Arith.
From Atlas Require Import Base.Bytes Diff.Schema Diff.DiffModel Diff.DiffSqlite Diff.DiffDialects Diff.DiffMysqlVariants.
Import ListNotations.

Record view := mkView {
  v_name : str;
  v_def  : str;
  v_mat  : bool;                        (* schema.Materialized attribute *)
  v_cols : list (str * option str);     (* column name, schema.Comment.Text *)
  v_idx  : list index
}.

Record schema_v := mkSchemaV { sv_schema : schema; sv_views : list view }.

Inductive vchange :=
| AddView (n : str) (m : bool)
| DropView (n : str) (m : bool)
| ModifyView (n : str) (m : bool) (cs : list change).

Inductive svchange := ST (c : schange) | SV (c : vchange).

Inductive vtag := VtAddView | VtDropView | VtModifyView | VtTag (t : tag).
Definition vtag_of (c : vchange) : vtag :=
  match c with AddView _ _ => VtAddView | DropView _ _ => VtDropView | ModifyView _ _ _ => VtModifyView end.

(** ** BodyDefChanged *)
(** the cut set of TrimViewExtra: " \r\n\t;" *)
Definition is_extra (c : N) : bool :=
  N.eqb c 32 || N.eqb c 13 || N.eqb c 10 || N.eqb c 9 || N.eqb c 59.

Fixpoint trim_left (s : str) : str :=
  match s with
  | c :: s' => if is_extra c then trim_left s' else s
  | [] => []
  end.

(** [sqlx.TrimViewExtra] = strings.Trim(s, " \r\n\t;") *)
Definition trim_view_extra (s : str) : str := rev (trim_left (rev (trim_left s))).

(** strings.Split(v, "\n") *)
Fixpoint split_nl_acc (cur : str) (s : str) : list str :=
  match s with
  | [] => [rev cur]
  | c :: s' => if N.eqb c 10 then rev cur :: split_nl_acc [] s' else split_nl_acc (c :: cur) s'
  end.
Definition split_nl (s : str) : list str := split_nl_acc [] s.

(** the closure [noident] of BodyDefChanged *)
Definition noident (v : str) : str :=
  match split_nl v with
  | [] => []
  | l0 :: rest =>
      trim_view_extra l0
      ++ flat_map (fun s => match trim_view_extra s with [] => [] | t => 32%N :: t end) rest
  end.

(** [sqlx.BodyDefChanged] *)
Definition body_def_changed (from to : str) : bool :=
  if str_eqb from to then false
  else if str_eqb (trim_view_extra from) (trim_view_extra to) then false
  else negb (str_eqb (noident (trim_view_extra from)) (noident (trim_view_extra to))).

Section Views.
Variable D : DiffDriver.
Variable vskip : vtag -> bool.

Definition skip_v (t : tag) : bool := vskip (VtTag t).
Definition add_or_skip_v (cs : list vchange) : list vchange :=
  filter (fun c => negb (vskip (vtag_of c))) cs.

(** [Diff.indexDiffV] (see the header for the [exists] set) *)
Definition index_diff_v (from to : view) : list change :=
  add_or_skip skip_v (
    flat_map (fun idx1 =>
      match find_idx (i_name idx1) (v_idx to) with
      | Some (_, idx2) => let ch := index_change D idx1 idx2 in
                          if N.eqb ch 0 then [] else [ModifyIndex (i_name idx1) ch]
      | None => [DropIndex (i_name idx1)]
      end) (v_idx from)
    ++
    flat_map (fun idx =>
      match find_idx (i_name idx) (v_idx from) with
      | None => [AddIndex (i_name idx)]
      | Some _ => []
      end) (v_idx to)).

(** [Diff.columnDiffV]: comments only *)
Definition column_diff_v (from to : view) : list change :=
  add_or_skip skip_v (
    flat_map (fun c1 =>
      match find (fun c2 => str_eqb (fst c2) (fst c1)) (v_cols to) with
      | None => []
      | Some c2 => let ch := comment_change (snd c1) (snd c2) in
                   if N.eqb ch 0 then [] else [ModifyColumn (fst c1) ch]
      end) (v_cols from)).

(** [Diff.viewDiff] *)
Definition view_diff (from to : view) : list vchange :=
  let vs := index_diff_v from to ++ column_diff_v from to in
  match vs with
  | _ :: _ => add_or_skip_v [ModifyView (v_name to) (v_mat to) vs]
  | [] => if body_def_changed (v_def from) (v_def to)
          then add_or_skip_v [ModifyView (v_name to) (v_mat to) []] else []
  end.

(** [findView] *)
Definition find_view (n : str) (m : bool) (l : list view) : option view :=
  find (fun v => str_eqb (v_name v) n && Bool.eqb (v_mat v) m) l.

(** the view loops of [Diff.schemaDiff] *)
Definition views_diff (from to : list view) : list vchange :=
  flat_map (fun v1 =>
    match find_view (v_name v1) (v_mat v1) to with
    | None => add_or_skip_v [DropView (v_name v1) (v_mat v1)]
    | Some v2 => view_diff v1 v2
    end) from
  ++
  flat_map (fun v1 =>
    match find_view (v_name v1) (v_mat v1) from with
    | None => add_or_skip_v [AddView (v_name v1) (v_mat v1)]
    | Some _ => []
    end) to.

(** [Diff.SchemaDiff]: tables, then views *)
Definition SchemaDiffV (from to : schema_v) : option (list svchange) :=
  match SchemaDiff D skip_v (sv_schema from) (sv_schema to) with
  | None => None
  | Some ts => Some (map ST ts ++ map SV (views_diff (sv_views from) (sv_views to)))
  end.

End Views.

Definition sqlite_schema_diff_v := SchemaDiffV sqlite_driver.
Definition mysql_schema_diff_v_v (v : mysql_variant) := SchemaDiffV (mysql_driver_v v).
Definition pg_schema_diff_v_ns (ns : str) := SchemaDiffV (pg_driver_ns ns).
