(** M-SCHEMA (C02), round 5: the realm level of sql/internal/sqlx/diff.go --
    [Diff.RealmDiff] (DropSchema / ModifySchema / AddSchema, the tables of an added
    schema) and the schema-attribute part of [Diff.schemaDiff] (SchemaAttrDiff ->
    ModifySchema) -- with the SchemaAttrDiff callbacks of the three community drivers:
      sql/sqlite/diff.go: SchemaAttrDiff        (nothing)
      sql/mysql/diff_oss.go: SchemaAttrDiff, charsetChange, collationChange
      sql/postgres/diff_oss.go: SchemaAttrDiff, skipDefaultComment; sqlx.CommentDiff

    [Diff/Schema.v] is shared with other properties and stays as it is: the schema
    attributes ride in a wrapper record [schema_x] around [schema]; a [realm] is a list
    of them plus the realm's own charset / collation ([Realm.Attrs], read by MySQL's
    SchemaAttrDiff as the "top" attributes when [from.Realm != nil]).

    - RealmObjectDiff and SchemaObjectDiff return nothing in the community build for the
      graphs of the model domain (no enum objects listed in Schema.Objects), no driver
      implements DropSchemaChanger, AnnotateChanges does nothing without DiffOptions.Extra;
    - the skip filter is a predicate over [rtag] = the three schema-level change types +
      the tags of DiffModel.v (one reflect.Type each, as DiffOptions.Skipped sees them);
    - [None] = the Go function returns an error.

    This file contains no proofs. *)
From Coq Require Import List NArith Bool Arith.
From Atlas Require Import Base.Bytes Diff.Schema Diff.DiffModel Diff.DiffSqlite Diff.DiffDialects Diff.DiffMysqlVariants.
Import ListNotations.

(** ** graph *)
Record schema_x := mkSchemaX {
  sx_schema  : schema;
  sx_charset : option str;   (* schema.Charset.V  *)
  sx_collate : option str;   (* schema.Collation.V *)
  sx_comment : option str    (* schema.Comment.Text *)
}.
Definition sx_name (s : schema_x) : str := s_name (sx_schema s).

Record realm := mkRealm {
  r_charset : option str;
  r_collate : option str;
  r_schemas : list schema_x
}.

(** [Realm.Schema]: first match by name *)
Definition find_schema (n : str) (l : list schema_x) : option schema_x :=
  find (fun s => str_eqb (sx_name s) n) l.

(** ** changes *)
(** attribute identifiers (harness/cmd/diff/obs.go: attrID) *)
Definition ATTR_COMMENT : N := 3.
Definition ATTR_CHARSET : N := 4.
Definition ATTR_COLLATE : N := 5.

(** the members of ModifySchema.Changes: AddAttr{A}, ModifyAttr{From, To} with the values *)
Inductive sattr :=
| SAddAttr (a : N) (v : str)
| SModifyAttr (a : N) (v1 v2 : str).

Inductive rchange :=
| AddSchema (n : str)
| DropSchema (n : str)
| ModifySchema (n : str) (cs : list sattr)
| InSchema (n : str) (c : schange).     (* a table-level change of schemaDiff; n = T.Schema.Name *)

Inductive rtag := RtAddSchema | RtDropSchema | RtModifySchema | RtTag (t : tag).

Definition rtag_of (c : rchange) : rtag :=
  match c with
  | AddSchema _ => RtAddSchema | DropSchema _ => RtDropSchema | ModifySchema _ _ => RtModifySchema
  | InSchema _ c => RtTag (stag_of c)
  end.

(** ** SchemaAttrDiff of the drivers *)

(** mysql: [charsetChange] / [collationChange] (the same switch over two attribute types) *)
Definition mysql_attr_change (a : N) (from top to : option str) : list sattr :=
  match from, to with
  | None, None => []
  | None, Some t => [SAddAttr a t]
  | Some f, None =>
      match top with
      | Some p => if negb (str_eqb f p) then [SModifyAttr a f p] else []
      | None => []
      end
  | Some f, Some t => if negb (str_eqb f t) then [SModifyAttr a f t] else []
  end.

(** mysql: [SchemaAttrDiff]; [r] = from.Realm (a nil Realm = no top attributes) *)
Definition mysql_schema_attr_diff (r : realm) (from to : schema_x) : list sattr :=
  mysql_attr_change ATTR_CHARSET (sx_charset from) (r_charset r) (sx_charset to)
  ++ mysql_attr_change ATTR_COLLATE (sx_collate from) (r_collate r) (sx_collate to).

(** [sqlx.CommentDiff] *)
Definition comment_diff (from to : option str) : list sattr :=
  match from, to with
  | None, None => []
  | None, Some t =>
      if negb (str_eqb t []) then [SAddAttr ATTR_COMMENT t]
      else []      (* default arm: Unquote("") = Unquote("") *)
  | Some f, None => [SModifyAttr ATTR_COMMENT f []]
  | Some f, Some t =>
      match unquote f, unquote t with
      | Some v1, Some v2 => if negb (str_eqb v1 v2) then [SModifyAttr ATTR_COMMENT f t] else []
      | _, _ => []
      end
  end.

(** "standard public schema" *)
Definition STD_PUBLIC_COMMENT : str :=
  [115;116;97;110;100;97;114;100;32;112;117;98;108;105;99;32;115;99;104;101;109;97]%N.

(** postgres: [skipDefaultComment(s, public)] *)
Definition skip_default_comment (s : schema_x) (public : str) : option str :=
  match sx_comment s with
  | Some c =>
      if str_eqb c STD_PUBLIC_COMMENT && (str_eqb (sx_name s) [] || str_eqb (sx_name s) public)
      then None else Some c
  | None => None
  end.

(** postgres: [SchemaAttrDiff]; [ns] = conn.schema *)
Definition pg_schema_attr_diff (ns : str) (_ : realm) (from to : schema_x) : list sattr :=
  if negb (str_eqb ns [])
  then comment_diff (skip_default_comment from (sx_name from)) (skip_default_comment to (sx_name to))
  else comment_diff (skip_default_comment from PUBLIC) (skip_default_comment to PUBLIC).

Definition sqlite_schema_attr_diff (_ : realm) (_ _ : schema_x) : list sattr := [].

(** ** the generic part *)
Section Realm.
Variable D : DiffDriver.
Variable A : realm -> schema_x -> schema_x -> list sattr.   (* SchemaAttrDiff *)
Variable rskip : rtag -> bool.

Definition skip_t (t : tag) : bool := rskip (RtTag t).

(** [opts.AddOrSkip(nil, cs...)] on schema-level changes *)
Definition add_or_skip_r (cs : list rchange) : list rchange :=
  filter (fun c => negb (rskip (rtag_of c))) cs.

(** [Diff.schemaDiff] with the schema attributes: name check, ModifySchema when
    SchemaAttrDiff returns something, then the table loops of DiffModel.v.
    [r] = from.Realm. *)
Definition schema_diff_x (r : realm) (from to : schema_x) : option (list rchange) :=
  match SchemaDiff D skip_t (sx_schema from) (sx_schema to) with
  | None => None
  | Some ts =>
      Some ((match A r from to with
             | [] => []
             | (_ :: _) as ch => add_or_skip_r [ModifySchema (sx_name to) ch]
             end) ++ map (InSchema (sx_name to)) ts)
  end.

(** [Diff.RealmDiff], first loop: drop or modify schemas *)
Fixpoint realm_diff_from (from to : realm) (l : list schema_x) : option (list rchange) :=
  match l with
  | [] => Some []
  | s1 :: l' =>
      match find_schema (sx_name s1) (r_schemas to) with
      | None =>
          match realm_diff_from from to l' with
          | Some r => Some (add_or_skip_r [DropSchema (sx_name s1)] ++ r)
          | None => None
          end
      | Some s2 =>
          match schema_diff_x from s1 s2 with
          | None => None
          | Some ch =>
              match realm_diff_from from to l' with
              | Some r => Some (ch ++ r)
              | None => None
              end
          end
      end
  end.

(** what the second loop appends for one desired schema that is new *)
Definition add_schema_changes (s1 : schema_x) : list rchange :=
  add_or_skip_r (AddSchema (sx_name s1)
                 :: map (fun t => InSchema (sx_name s1) (AddTable (t_name t))) (s_tables (sx_schema s1))).

(** second loop: add schemas (AddSchema, then one AddTable per table) *)
Definition realm_diff_add (from to : realm) : list rchange :=
  flat_map (fun s1 =>
    match find_schema (sx_name s1) (r_schemas from) with
    | Some _ => []
    | None => add_schema_changes s1
    end) (r_schemas to).

Definition RealmDiff (from to : realm) : option (list rchange) :=
  match realm_diff_from from to (r_schemas from) with
  | None => None
  | Some r => Some (r ++ realm_diff_add from to)
  end.

End Realm.

(** ** instances *)
Definition sqlite_realm_diff := RealmDiff sqlite_driver sqlite_schema_attr_diff.
Definition sqlite_schema_diff_x := schema_diff_x sqlite_driver sqlite_schema_attr_diff.
Definition mysql_realm_diff_v (v : mysql_variant) := RealmDiff (mysql_driver_v v) mysql_schema_attr_diff.
Definition mysql_schema_diff_x_v (v : mysql_variant) := schema_diff_x (mysql_driver_v v) mysql_schema_attr_diff.
Definition pg_realm_diff_ns (ns : str) := RealmDiff (pg_driver_ns ns) (pg_schema_attr_diff ns).
Definition pg_schema_diff_x_ns (ns : str) := schema_diff_x (pg_driver_ns ns) (pg_schema_attr_diff ns).
