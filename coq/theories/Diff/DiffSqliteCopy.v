(** SQLite: the diff of a schema with a (field-wise equal) copy is empty, also when tables
    carry inspected autoindexes of UNIQUE constraints that Normalize renames on the desired
    side -- the case sqlite_dwf excludes.  Follows sql/sqlite/diff.go after the fixes
    99ad7b6 (FindGeneratedIndex) and 5832478 (Normalize). *)
From Coq Require Import List NArith Bool Arith Lia Permutation.
From Atlas Require Import Base.Bytes Diff.Schema Diff.DiffModel Diff.DiffSqlite Diff.DiffProofs Diff.DiffSqliteProofs.
Import ListNotations.

(** an index normalizeIdxName renames *)
Definition is_auto (i : index) : bool :=
  match has_prefix SQLITE_AUTOINDEX (i_name i) with
  | None => false
  | Some _ => negb (ostr_eqb (i_origin i) (Some ORIGIN_P))
  end.

Lemma normalize_idx_name_cases i t :
  normalize_idx_name i t =
  if is_auto i then match part_col_names (i_parts i) with
                    | None => None
                    | Some names => Some (set_i_name i (join_us (t_name t :: names)))
                    end
  else Some i.
Proof.
  unfold normalize_idx_name, is_auto. destruct (has_prefix SQLITE_AUTOINDEX (i_name i)); [|reflexivity].
  destruct (ostr_eqb (i_origin i) (Some ORIGIN_P)); reflexivity.
Qed.

(** what a table must satisfy: the autoindexes have column parts only and names generated for
    this table, and after renaming no two indexes share a name nor does a renamed-away name survive *)
Definition sqlite_copy_ok (t : table) : Prop :=
  exists l', normalize_idxs t (t_idx t) = Some l' /\
    NoDup (map i_name l') /\
    (forall i, In i (t_idx t) -> is_auto i = true ->
       sqlite_is_generated_index_name t i = true /\ (forall j, In j l' -> i_name j <> i_name i)).

Lemma normalize_idxs_forall2 t l l' :
  normalize_idxs t l = Some l' -> Forall2 (fun i i' => normalize_idx_name i t = Some i') l l'.
Proof.
  revert l'. induction l as [|i l IH]; simpl; intros l' H.
  - inversion H. constructor.
  - destruct (normalize_idx_name i t) as [i'|] eqn:E; [|discriminate].
    destruct (normalize_idxs t l) as [r|]; [|discriminate]. inversion H; subst. constructor; auto.
Qed.

Lemma find_idx_from_at k0 l k x :
  NoDup (map i_name l) -> nth_error l k = Some x -> find_idx_from k0 (i_name x) l = Some (k0 + k, x).
Proof.
  revert k0 k. induction l as [|a l IH]; intros k0 k ND H; [destruct k; discriminate|].
  simpl. destruct k as [|k]; simpl in H.
  - inversion H; subst. rewrite str_eqb_refl. rewrite Nat.add_0_r. reflexivity.
  - inversion ND as [|? ? Hnotin ND']; subst.
    assert (N : str_eqb (i_name a) (i_name x) = false).
    { apply str_eqb_neq. intros E. apply Hnotin. rewrite E. apply in_map. eapply nth_error_In; eauto. }
    rewrite N. rewrite (IH (S k0) k ND' H). f_equal. f_equal. lia.
Qed.

Lemma find_idx_absent n l : (forall j, In j l -> i_name j <> n) -> find_idx n l = None.
Proof. intros H. apply find_idx_none. apply kfind_none. exact H. Qed.

(** parts: the SQLite driver has no per-part attributes, so partsChange looks at the parts only *)
Lemma sqlite_part_changed_same a b k p : part_ok p -> part_changed sqlite_driver a b k p p = false.
Proof.
  intros [H|H]; unfold part_changed; rewrite eqb_reflx; simpl.
  - destruct (p_col p) as [n|]; [|congruence]. rewrite str_eqb_refl. reflexivity.
  - destruct (p_col p) as [n|]; [rewrite str_eqb_refl; reflexivity|].
    destruct (p_expr p) as [x|]; [|congruence]. rewrite str_eqb_refl. reflexivity.
Qed.

Lemma sqlite_parts_loop_same a b k l : Forall part_ok l -> parts_loop sqlite_driver a b k l l = false.
Proof.
  intros H. revert k. induction H as [|p l Hp Hl IH]; simpl; intros k; [reflexivity|].
  rewrite (sqlite_part_changed_same a b k p Hp). apply IH.
Qed.

Lemma sqlite_parts_change_same a b : i_parts a = i_parts b -> index_ok a -> parts_change sqlite_driver a b = 0%N.
Proof.
  intros E H. unfold parts_change. rewrite <- E, Nat.eqb_refl. simpl.
  rewrite sqlite_parts_loop_same; [reflexivity|]. apply sort_parts_ok. exact H.
Qed.

Section Copy.
Variable skip : tag -> bool.
Variable t : table.
Variable l' : list index.
Hypothesis WF : wf_table t.
Hypothesis NL : normalize_idxs t (t_idx t) = Some l'.
Hypothesis ND : NoDup (map i_name l').
Hypothesis AU : forall i, In i (t_idx t) -> is_auto i = true ->
       sqlite_is_generated_index_name t i = true /\ (forall j, In j l' -> i_name j <> i_name i).

Let to' := set_t_idx t l'.

Lemma to'_name : t_name to' = t_name t. Proof. reflexivity. Qed.
Lemma to'_idx : t_idx to' = l'. Proof. reflexivity. Qed.

(** first loop of indexDiffT: nothing is reported and every position gets into [exists] *)
Lemma index_from_copy suf suf' :
  Forall2 (fun i i' => normalize_idx_name i t = Some i') suf suf' ->
  forall pre pre', t_idx t = pre ++ suf -> l' = pre' ++ suf' -> length pre = length pre' ->
  forall ex,
  fst (index_diff_from sqlite_driver t to' suf ex) = [] /\
  (forall k, In k ex -> In k (snd (index_diff_from sqlite_driver t to' suf ex))) /\
  (forall k, length pre <= k < length pre + length suf -> In k (snd (index_diff_from sqlite_driver t to' suf ex))).
Proof.
  induction 1 as [|i i' suf suf' Hi Hs IH]; intros pre pre' E1 E2 EL ex.
  - simpl. repeat split; auto. intros k Hk. lia.
  - assert (Hin : In i (t_idx t)) by (rewrite E1; apply in_or_app; right; left; reflexivity).
    assert (Hnth : nth_error l' (length pre) = Some i').
    { rewrite E2, EL. rewrite nth_error_app2 by lia. rewrite Nat.sub_diag. reflexivity. }
    assert (Hok : index_ok i) by (apply (wf_idx_ok t WF); exact Hin).
    specialize (IH (pre ++ [i]) (pre' ++ [i'])).
    assert (IH' : forall ex0,
      fst (index_diff_from sqlite_driver t to' suf ex0) = [] /\
      (forall k, In k ex0 -> In k (snd (index_diff_from sqlite_driver t to' suf ex0))) /\
      (forall k, S (length pre) <= k < S (length pre) + length suf ->
                 In k (snd (index_diff_from sqlite_driver t to' suf ex0)))).
    { intros ex0. destruct (IH) with (ex := ex0) as [A [B C]].
      - rewrite <- app_assoc. exact E1.
      - rewrite <- app_assoc. exact E2.
      - rewrite !app_length. simpl. lia.
      - repeat split; auto. intros k Hk. apply C. rewrite app_length. simpl. lia. }
    clear IH.
    assert (Found : find_idx (i_name i') l' = Some (length pre, i')).
    { unfold find_idx. rewrite (find_idx_from_at 0 l' (length pre) i' ND Hnth). reflexivity. }
    rewrite normalize_idx_name_cases in Hi.
    simpl index_diff_from.
    destruct (is_auto i) eqn:A.
    + (* renamed on the desired side: found through FindGeneratedIndex *)
      destruct (part_col_names (i_parts i)) as [names|] eqn:PN; [|discriminate].
      inversion Hi as [Hi']. clear Hi.
      destruct (AU i Hin A) as [G NN].
      assert (Abs : find_idx (i_name i) l' = None).
      { apply find_idx_absent. exact NN. }
      rewrite Abs. rewrite G.
      assert (Sim : similar_unnamed_index sqlite_driver to' i = Some (length pre)).
      { unfold similar_unnamed_index. simpl dd_find_generated_index.
        unfold sqlite_find_generated_index.
        rewrite normalize_idx_name_cases.
        assert (A2 : is_auto (mkIndex (i_name i) false (i_parts i) (i_pred i) (i_comment i) (i_origin i)) = true) by exact A.
        rewrite A2. simpl i_parts. rewrite PN.
        change (t_name to') with (t_name t).
        assert (Nm : i_name i' = join_us (t_name t :: names)) by (rewrite <- Hi'; reflexivity).
        remember (join_us (t_name t :: names)) as NN0.
        simpl i_name. change (t_idx to') with l'. rewrite <- Nm, Found.
        unfold idx_match. rewrite <- Hi'. simpl i_unique. rewrite eqb_reflx. simpl.
        rewrite sqlite_parts_change_same; [reflexivity|reflexivity|exact Hok]. }
      rewrite Sim.
      destruct (IH' (length pre :: ex)) as [R1 [R2 R3]].
      repeat split; auto.
      * intros k Hk. apply R2. right. exact Hk.
      * intros k Hk. simpl in Hk. destruct (Nat.eq_dec k (length pre)) as [->|Ne].
        -- apply R2. left. reflexivity.
        -- apply R3. lia.
    + (* unchanged: found by name *)
      inversion Hi; subst i'. rewrite Found.
      rewrite (index_change_refl sqlite_driver sqlite_refl_laws i Hok). simpl.
      destruct (IH' (length pre :: ex)) as [R1 [R2 R3]].
      destruct (index_diff_from sqlite_driver t to' suf (length pre :: ex)) as [r ex2]. simpl in *.
      repeat split; auto.
      intros k Hk. destruct (Nat.eq_dec k (length pre)) as [->|Ne].
      * apply R2. left. reflexivity.
      * apply R3. lia.
Qed.

Lemma index_add_none from0 l2 k0 ex :
  (forall k, k0 <= k < k0 + length l2 -> In k ex) -> index_diff_add from0 k0 l2 ex = [].
Proof.
  revert k0. induction l2 as [|i l2 IH]; intros k0 H; simpl; [reflexivity|].
  assert (E : existsb (Nat.eqb k0) ex = true).
  { apply existsb_exists. exists k0. split; [apply H; simpl; lia|apply Nat.eqb_refl]. }
  rewrite E. simpl. apply IH. intros k Hk. apply H. simpl. lia.
Qed.

Lemma index_diff_copy : index_diff_t sqlite_driver skip t to' = [].
Proof.
  unfold index_diff_t.
  pose proof (normalize_idxs_forall2 t _ _ NL) as F.
  assert (LEN : length (t_idx t) = length l').
  { clear - F. induction F; simpl; congruence. }
  destruct (index_from_copy (t_idx t) l' F [] [] eq_refl eq_refl eq_refl []) as [R1 [_ R3]].
  destruct (index_diff_from sqlite_driver t to' (t_idx t) []) as [r ex]. simpl in R1, R3. subst r.
  rewrite to'_idx. rewrite index_add_none; [reflexivity|].
  intros k Hk. apply R3. lia.
Qed.
End Copy.

(** Normalize, foreign keys: against the same list in the same order every foreign key is paired
    with itself (all earlier ones are used up), so nothing is renamed *)
Lemma same_fk_refl n f : same_fk n n f f = true.
Proof. unfold same_fk. rewrite !str_eqb_refl, !Nat.eqb_refl, !names_differ_refl. reflexivity. Qed.

Lemma normalize_fk_inner_self n fk1 pre suf :
  normalize_fk_inner n n fk1 (pre ++ fk1 :: suf) (map (fun _ => true) pre ++ false :: map (fun _ => false) suf)
  = (fk1, map (fun _ => true) pre ++ true :: map (fun _ => false) suf).
Proof.
  induction pre as [|p pre IH]; simpl.
  - rewrite same_fk_refl, orb_true_r, set_f_symbol_id. reflexivity.
  - rewrite IH. reflexivity.
Qed.

Lemma normalize_fks_self n suf : forall pre,
  normalize_fks n n suf (pre ++ suf) (map (fun _ => true) pre ++ map (fun _ => false) suf) = suf.
Proof.
  induction suf as [|f suf IH]; intros pre; simpl; [reflexivity|].
  rewrite normalize_fk_inner_self. f_equal.
  specialize (IH (pre ++ [f])). rewrite <- app_assoc, map_app, <- app_assoc in IH. exact IH.
Qed.

Lemma sqlite_normalize_copy t l' :
  normalize_idxs t (t_idx t) = Some l' -> sqlite_normalize t t = Some (t, set_t_idx t l').
Proof.
  intros NL. unfold sqlite_normalize. rewrite NL.
  pose proof (normalize_fks_self (t_name t) (t_fks t) []) as X. simpl in X. rewrite X.
  rewrite set_t_fks_id. reflexivity.
Qed.

(** tableDiff of a table with its copy *)
Theorem sqlite_table_diff_copy skip t :
  wf_table t -> (forall c, In c (t_cols t) -> c_class c <> 0%N) -> named_unique (t_checks t) ->
  sqlite_copy_ok t -> table_diff sqlite_driver skip t t = Some [].
Proof.
  intros WF TY NU [l' [NL [ND AU]]].
  unfold table_diff. rewrite set_t_name_id. simpl dd_normalize. rewrite (sqlite_normalize_copy t l' NL).
  set (to' := set_t_idx t l').
  (* attributes and checks *)
  assert (A : dd_table_attr_diff sqlite_driver t to' = Some []).
  { simpl. unfold sqlite_table_attr_diff. simpl.
    rewrite (checks_diff_sim (check_compare None) (t_checks t) (t_checks t)).
    - destruct (t_without_rowid t), (t_strict t); reflexivity.
    - apply check_compare_none_refl.
    - exact NU.
    - apply incl_refl.
    - apply incl_refl. }
  rewrite A.
  (* columns *)
  destruct (column_diff_exact sqlite_driver skip t to' (idscript (t_cols t)) []) as [a1 [P1 E1]].
  { symmetry; apply idscript_fst. } { apply idscript_ok. apply (wf_cols t WF). }
  { rewrite idscript_kept, app_nil_r. apply Permutation_refl. }
  { intros c c' H. apply idscript_in in H. destruct H as [E Hc]. inversion E; subst.
    simpl. rewrite (sqlite_column_change_refl t c (TY c Hc)). discriminate. }
  apply Permutation_nil in P1. subst a1. rewrite E1.
  assert (X1 : col_expected sqlite_driver t (idscript (t_cols t)) = []).
  { unfold col_expected. apply flat_map_nil. intros [c o] H. apply idscript_in in H. destruct H as [-> Hc].
    simpl. rewrite (sqlite_column_change_refl t c (TY c Hc)). reflexivity. }
  rewrite X1. simpl app.
  (* primary key *)
  rewrite (pk_diff_same sqlite_driver skip sqlite_refl_laws t to' eq_refl (wf_pk_ok t WF)).
  (* indexes *)
  pose proof (index_diff_copy skip t l' WF NL ND AU) as XI. fold to' in XI. rewrite XI.
  (* foreign keys *)
  destruct (fk_diff_exact sqlite_driver skip t to' (idscript (t_fks t)) []) as [a3 [P3 E3]].
  { symmetry; apply idscript_fst. } { apply idscript_ok. apply (wf_fks t WF). }
  { rewrite idscript_kept, app_nil_r. apply Permutation_refl. }
  apply Permutation_nil in P3. subst a3. rewrite E3.
  assert (X3 : fk_expected sqlite_driver (idscript (t_fks t)) = []).
  { unfold fk_expected. apply flat_map_nil. intros [c o] H. apply idscript_in in H. destruct H as [-> Hc].
    simpl. rewrite (fk_change_refl sqlite_driver sqlite_refl_laws c). reflexivity. }
  rewrite X3. reflexivity.
Qed.

(** schemaDiff of a schema with its copy *)
Definition sqlite_copy_wf (s : schema) : Prop :=
  NoDup (map t_name (s_tables s)) /\
  forall t, In t (s_tables s) ->
    wf_table t /\ (forall c, In c (t_cols t) -> c_class c <> 0%N) /\ named_unique (t_checks t) /\ sqlite_copy_ok t.

Theorem sqlite_schema_diff_copy skip s :
  sqlite_copy_wf s -> SchemaDiff sqlite_driver skip s s = Some [].
Proof.
  intros [ND H].
  destruct (schema_diff_exact sqlite_driver skip s s (idscript (s_tables s)) []) as [a [P E]].
  - reflexivity.
  - symmetry; apply idscript_fst.
  - apply idscript_ok. exact ND.
  - rewrite idscript_kept, app_nil_r. apply Permutation_refl.
  - intros t t' Hin. apply idscript_in in Hin. destruct Hin as [Eq Ht]. inversion Eq; subst.
    destruct (H t Ht) as [W [TY [NU OK]]]. rewrite (sqlite_table_diff_copy skip t W TY NU OK). discriminate.
  - apply Permutation_nil in P. subst a. rewrite E.
    assert (X : tbl_expected sqlite_driver skip (idscript (s_tables s)) = []).
    { unfold tbl_expected. apply flat_map_nil. intros [t o] Hin. apply idscript_in in Hin. destruct Hin as [-> Ht].
      simpl. destruct (H t Ht) as [W [TY [NU OK]]]. rewrite (sqlite_table_diff_copy skip t W TY NU OK). reflexivity. }
    rewrite X. reflexivity.
Qed.

(** the old well-formedness is a special case: nothing to rename *)
Lemma sqlite_dwf_copy_ok t : wf_table t -> sqlite_dwf t -> sqlite_copy_ok t.
Proof.
  intros WF [_ [_ [_ IS]]]. exists (t_idx t). split; [apply normalize_idxs_stable; exact IS|]. split.
  - apply (wf_idx t WF).
  - intros i Hi A. exfalso. unfold is_auto in A. destruct (IS i Hi) as [E|E].
    + rewrite E in A. discriminate.
    + rewrite E in A. destruct (has_prefix SQLITE_AUTOINDEX (i_name i)); [|discriminate].
      simpl in A. discriminate.
Qed.

(** the inspected autoindex of a UNIQUE column (the former witness 1) satisfies it *)
Lemma w_table1_copy_ok : sqlite_copy_ok w_table1.
Proof.
  exists [set_i_name w_autoindex [116;95;99]%N]. split; [vm_compute; reflexivity|]. split.
  - repeat constructor; simpl; tauto.
  - intros i [<-|[]] _. split; [vm_compute; reflexivity|]. intros j [<-|[]]. discriminate.
Qed.
