(** C02, round 5: proofs about flagged checks (DiffCheckFlags.v). *)
From Coq Require Import List NArith Bool Arith Permutation.
From Atlas Require Import Base.Bytes Diff.Schema Diff.DiffModel Diff.DiffSqlite Diff.DiffDialects
  Diff.DiffMysqlVariants Diff.DiffProofs Diff.DiffRealm Diff.DiffTableAttrs Diff.DiffCheckFlags.
Import ListNotations.

Definition chk_expected_x (ps : script (A:=check_x)) : list change :=
  flat_map (fun p => match snd p with
    | None => [DropCheck (kx_name (fst p)) (kx_expr (fst p))]
    | Some c2 => if negb (check_compare_x (fst p) c2)
                 then [ModifyCheck (kx_name (fst p)) (kx_expr (fst p)) (kx_name c2) (kx_expr c2)] else []
    end) ps.

(** ChecksDiff over flagged checks follows the script (as 2d) *)
Lemma checks_diff_x_exact fromC toC ps adds :
  fromC = map fst ps -> Permutation toC (kept ps ++ adds) ->
  (forall c o, In (c, o) ps -> forall c2, In c2 toC -> check_compare_to_x c c2 = true -> o = Some c2) ->
  (forall c c2, In (c, Some c2) ps -> check_compare_to_x c c2 = true) ->
  (forall c2, In c2 (kept ps) -> existsb (check_compare_to_x c2) (map fst ps) = true) ->
  (forall a, In a adds -> existsb (check_compare_to_x a) (map fst ps) = false) ->
  exists adds', Permutation adds adds' /\
    checks_diff_x fromC toC =
    chk_expected_x ps ++ map (fun c => AddCheck (kx_name c) (kx_expr c)) adds'.
Proof.
  intros Hf P M1 M2 M3 M4. subst fromC.
  exists (filter (fun x => negb (existsb (check_compare_to_x x) (map fst ps))) toC). split.
  - apply (filter_perm_adds _ toC (kept ps) adds P).
    + intros x Hx. rewrite (M3 x Hx). reflexivity.
    + intros x Hx. rewrite (M4 x Hx). reflexivity.
  - unfold checks_diff_x. f_equal.
    + apply flat_map_map_fst. intros [c o] Hin. simpl.
      destruct (find (check_compare_to_x c) toC) as [c2|] eqn:F.
      * apply find_some in F. destruct F as [H2 M]. rewrite (M1 c o Hin c2 H2 M). reflexivity.
      * destruct o as [c2|]; [|reflexivity]. exfalso.
        assert (H2 : In c2 toC).
        { apply (Permutation_in _ (Permutation_sym P)). apply in_or_app. left. apply in_kept. eauto. }
        apply (find_none _ _ F) in H2. rewrite (M2 c c2 Hin) in H2. discriminate.
    + apply (flat_map_filter (fun x => existsb (check_compare_to_x x) (map fst ps))
                             (fun c => AddCheck (kx_name c) (kx_expr c))).
Qed.

(** the flag alone: a named check whose flag was flipped is one ModifyCheck (same name, same
    expression); an unnamed one is dropped and added (nothing else identifies it) *)
Lemma check_compare_x_flag c : check_compare_x c (mkCheckX (kx_name c) (kx_expr c) (negb (kx_flag c))) = false.
Proof. unfold check_compare_x. simpl. destruct (kx_flag c); reflexivity. Qed.

Lemma check_compare_x_refl c : check_compare_x c c = true.
Proof. unfold check_compare_x. rewrite eqb_reflx. simpl. rewrite str_eqb_refl. reflexivity. Qed.

Lemma checks_diff_x_flag_named c :
  kx_name c <> [] ->
  checks_diff_x [c] [mkCheckX (kx_name c) (kx_expr c) (negb (kx_flag c))] =
  [ModifyCheck (kx_name c) (kx_expr c) (kx_name c) (kx_expr c)].
Proof.
  intros H. apply str_eqb_neq in H. unfold checks_diff_x, check_compare_to_x. simpl.
  rewrite H. simpl. rewrite str_eqb_refl. rewrite check_compare_x_flag. simpl. reflexivity.
Qed.

Lemma checks_diff_x_flag_unnamed c :
  kx_name c = [] ->
  checks_diff_x [c] [mkCheckX (kx_name c) (kx_expr c) (negb (kx_flag c))] =
  [DropCheck [] (kx_expr c); AddCheck [] (kx_expr c)].
Proof.
  intros H. unfold checks_diff_x, check_compare_to_x. simpl. rewrite H. simpl.
  pose proof (check_compare_x_flag c) as X. rewrite H in X. rewrite X.
  assert (Y : check_compare_x (mkCheckX [] (kx_expr c) (negb (kx_flag c))) c = false).
  { unfold check_compare_x. simpl. destruct (kx_flag c); reflexivity. }
  rewrite Y. simpl. reflexivity.
Qed.

Lemma checks_diff_x_same l :
  NoDup (map kx_name l) -> (forall c, In c l -> kx_name c <> []) ->
  checks_diff_x l l = [].
Proof.
  intros ND NN. unfold checks_diff_x.
  assert (G : forall c y, In c l -> In y l -> check_compare_to_x c y = str_eqb (kx_name c) (kx_name y)).
  { intros c y Hc Hy. unfold check_compare_to_x.
    assert (str_eqb (kx_name c) [] = false) as -> by (apply str_eqb_neq; apply NN; exact Hc).
    assert (str_eqb (kx_name y) [] = false) as -> by (apply str_eqb_neq; apply NN; exact Hy).
    reflexivity. }
  assert (F : forall c, In c l -> find (check_compare_to_x c) l = Some c).
  { intros c Hc.
    assert (G' : forall y, In y l -> check_compare_to_x c y = str_eqb (kx_name c) (kx_name y))
      by (intros y Hy; apply G; assumption).
    clear G NN. revert ND Hc G'. induction l as [|a l IH]; intros ND Hc G'; [contradiction|]. simpl.
    rewrite (G' a (or_introl eq_refl)). inversion ND as [|? ? Hn ND']; subst.
    destruct Hc as [->|Hc]; [rewrite str_eqb_refl; reflexivity|].
    destruct (str_eqb (kx_name c) (kx_name a)) eqn:E.
    - exfalso. apply str_eqb_eq in E. apply Hn. rewrite <- E. apply in_map. exact Hc.
    - apply IH; auto. intros y Hy. apply G'. right; exact Hy. }
  rewrite (flat_map_nil _ l), (flat_map_nil _ l); [reflexivity| |].
  - intros c Hc. assert (X : existsb (check_compare_to_x c) l = true).
    { apply existsb_exists. exists c. split; [exact Hc|]. pose proof (F c Hc) as Y. apply find_some in Y. tauto. }
    rewrite X. reflexivity.
  - intros c Hc. rewrite (F c Hc), check_compare_x_refl. reflexivity.
Qed.

Section XKGeneric.
Variable D : DiffDriver.
Variable TA : option str -> option str -> table_x -> table_x -> option (list change).
Variable KD : table_xk -> table_xk -> option (list change).
Variable skip : tag -> bool.

Lemma table_diff_xk_exact pcs pco from to a k r :
  TA pcs pco (xk_table from) (xk_table to) = Some a -> KD from to = Some k ->
  table_diff D skip (tx_table (xk_table from)) (tx_table (xk_table to)) = Some r ->
  table_diff_xk D TA KD skip pcs pco from to = Some (a ++ k ++ r).
Proof. intros H1 H2 H3. unfold table_diff_xk. rewrite H1, H2, H3. reflexivity. Qed.
End XKGeneric.

Lemma mysql_checks_x_no_support v from to :
  mv_check v = false -> xk_checks to <> [] -> mysql_checks_x v from to = None.
Proof.
  intros H1 H2. unfold mysql_checks_x. rewrite H1. destruct (xk_checks to); [congruence|reflexivity].
Qed.
