(** The laws of the generic theorems for the MySQL differ of *every* server variant
    (DiffMysqlVariants.v), the relation to the instance of DiffDialects.v, and the locality of
    the charset tables: the answer reads the two tables at the desired column's own charset /
    collation only. *)
From Coq Require Import List NArith Bool Arith Lia Permutation.
From Atlas Require Import Base.Bytes Diff.Schema Diff.DiffModel Diff.DiffSqlite Diff.DiffDialects
  Diff.DiffProofs Diff.DiffSqliteProofs Diff.DiffDialectsProofs Diff.DiffMysqlVariants.
Import ListNotations.

(** a column carries charset and collation together (what an inspection returns) *)
Definition cs_together (c : column) : Prop := fld 1 (c_T c) = [] <-> fld 2 (c_T c) = [].

Lemma mysql_fill_together v T : (fld 1 T = [] <-> fld 2 T = []) -> mysql_fill v T = (fld 1 T, fld 2 T).
Proof.
  unfold mysql_fill, fill_pair. destruct (fld 1 T) as [|a x], (fld 2 T) as [|b y]; intros [A B]; try reflexivity.
  - discriminate (A eq_refl).
  - discriminate (B eq_refl).
Qed.

Lemma mysql_cs_changed_v_together v k from to :
  k = 1 \/ k = 2 -> cs_together to -> mysql_cs_changed_v v k from to = mysql_cs_changed k from to.
Proof.
  intros K T. unfold mysql_cs_changed_v, mysql_cs_changed. rewrite (mysql_fill_together v _ T).
  destruct K as [->| ->]; reflexivity.
Qed.

Lemma mysql_column_change_v_together v t from to :
  cs_together to -> mysql_column_change_v v t from to = mysql_column_change t from to.
Proof.
  intros T. unfold mysql_column_change_v, mysql_column_change.
  rewrite !(mysql_cs_changed_v_together v _ from to) by auto. reflexivity.
Qed.

Lemma mysql_refl_laws_v v : refl_laws (mysql_driver_v v).
Proof.
  constructor; simpl.
  - intros i. unfold mysql_index_attr_changed. rewrite str_eqb_refl. reflexivity.
  - intros i k. unfold mysql_index_part_attr_changed. rewrite ostr_eqb_refl. reflexivity.
  - intros a. unfold mysql_reference_changed. rewrite str_eqb_refl. reflexivity.
  - reflexivity.
Qed.

(** what the instance of a variant needs of a table on top of [wf_table] *)
Definition mysql_dwf_v (v : mysql_variant) (t : table) : Prop :=
  mysql_dwf t /\ (forall c, In c (t_cols t) -> cs_together c) /\ (mv_check v = true \/ t_checks t = []).

Lemma mysql_sim_laws_v v : sim_laws (mysql_driver_v v) (mysql_dwf_v v).
Proof.
  constructor; simpl.
  - intros t c [DW [TG _]] Hc. rewrite mysql_column_change_v_together by (apply TG; exact Hc).
    exact (sl_col _ _ mysql_sim_laws t c DW Hc).
  - intros t t' [DW [_ CK]] TP. unfold mysql_table_attr_diff_v.
    assert (E : negb (mv_check v) && negb (Nat.eqb (length (t_checks t')) 0) = false).
    { destruct CK as [-> | N]; [reflexivity|].
      destruct TP as [_ [_ [_ [_ [_ [_ [_ Pk]]]]]]]. rewrite N in Pk. apply Permutation_nil in Pk. rewrite Pk.
      simpl. apply andb_false_r. }
    rewrite E. exact (sl_attr _ _ mysql_sim_laws t t' DW TP).
  - reflexivity.
Qed.

(** mysql.DefaultDiff (8.0.31: CHECKs and functional indexes supported) on columns that carry
    charset and collation together is the instance of DiffDialects.v, whatever the tables say *)
Lemma mysql_driver_v_default v t from to :
  mv_check v = true -> mv_index_expr v = true -> cs_together to ->
  dd_column_change (mysql_driver_v v) t from to = dd_column_change mysql_driver t from to /\
  (forall i, dd_is_generated_index_name (mysql_driver_v v) t i = dd_is_generated_index_name mysql_driver t i) /\
  (forall t', dd_table_attr_diff (mysql_driver_v v) t t' = dd_table_attr_diff mysql_driver t t').
Proof.
  intros C I T. simpl. split; [apply mysql_column_change_v_together; exact T|]. split.
  - intros i. unfold mysql_is_generated_index_name_v. rewrite I. reflexivity.
  - intros t'. unfold mysql_table_attr_diff_v. rewrite C. reflexivity.
Qed.

(** locality: two differs whose tables agree at the desired column's own lone charset / lone
    collation give the same ColumnChange -- entries another server added for other names,
    or overrode for other names, are never read *)
Lemma mysql_fill_local v v' T :
  assoc (fld 1 T) (mv_ch2co v) = assoc (fld 1 T) (mv_ch2co v') ->
  assoc (fld 2 T) (mv_co2ch v) = assoc (fld 2 T) (mv_co2ch v') ->
  mysql_fill v T = mysql_fill v' T.
Proof. intros A B. unfold mysql_fill, fill_pair. rewrite A, B. reflexivity. Qed.

Lemma mysql_column_change_local v v' t from to :
  assoc (fld 1 (c_T to)) (mv_ch2co v) = assoc (fld 1 (c_T to)) (mv_ch2co v') ->
  assoc (fld 2 (c_T to)) (mv_co2ch v) = assoc (fld 2 (c_T to)) (mv_co2ch v') ->
  mysql_column_change_v v t from to = mysql_column_change_v v' t from to.
Proof.
  intros A B. unfold mysql_column_change_v, mysql_cs_changed_v. rewrite (mysql_fill_local v v' _ A B). reflexivity.
Qed.

(** a lone charset is compared together with its default collation, a lone collation with its charset *)
Lemma mysql_fill_lone_charset v T d :
  fld 1 T <> [] -> fld 2 T = [] -> assoc (fld 1 T) (mv_ch2co v) = Some d -> mysql_fill v T = (fld 1 T, d).
Proof. intros A B C. unfold mysql_fill, fill_pair. rewrite B, C. destruct (fld 1 T); [contradiction|reflexivity]. Qed.
Lemma mysql_fill_lone_collation v T d :
  fld 1 T = [] -> fld 2 T <> [] -> assoc (fld 2 T) (mv_co2ch v) = Some d -> mysql_fill v T = (d, fld 2 T).
Proof. intros A B C. unfold mysql_fill, fill_pair. rewrite A, C. destruct (fld 2 T); [contradiction|reflexivity]. Qed.

(** exact bits of ColumnChange for every variant *)
Lemma mysql_column_bits_v v t c c' :
  c_class c <> 0%N -> c_class c' <> 0%N ->
  mysql_supported_class (c_class c) = true ->
  mysql_column_change_v v t c c' =
  Some (N.lor (N.lor (N.lor (N.lor (N.lor (N.lor
          (comment_change (c_comment c) (c_comment c'))
          (bit (negb (Bool.eqb (c_null c) (c_null c'))) ChangeNull))
          (bit (negb (N.eqb (c_class c) (c_class c')) || negb (str_eqb (fld 0 (c_T c)) (fld 0 (c_T c')))) ChangeType))
          (bit (mysql_default_changed c c') ChangeDefault))
          (bit (mysql_generated_changed c c') ChangeGenerated))
          (bit (mysql_cs_changed_v v 1 c c') ChangeCharset))
          (bit (mysql_cs_changed_v v 2 c c') ChangeCollate)).
Proof.
  intros H H' S. unfold mysql_column_change_v, mysql_type_changed.
  apply N.eqb_neq in H, H'. rewrite H, H'. simpl.
  destruct (N.eqb (c_class c) (c_class c')) eqn:E; simpl; [rewrite S|]; reflexivity.
Qed.

(** a server without CHECK support refuses a desired table with a CHECK *)
Lemma mysql_no_check_error v from to :
  mv_check v = false -> t_checks to <> [] -> mysql_table_attr_diff_v v from to = None.
Proof.
  intros C N. unfold mysql_table_attr_diff_v. rewrite C. destruct (t_checks to); [contradiction|reflexivity].
Qed.

(** ** history through the desired graph: defaultCharset / defaultCollate append what they found to
    the attributes of the desired column, so a later diff sees the completed pair *)
Lemma fill_pair_idempotent v p : fill_pair v (fill_pair v p) = fill_pair v p.
Proof.
  destruct p as [cs co]. destruct cs as [|a cs], co as [|b co]; try reflexivity.
  - simpl. destruct (assoc (b :: co) (mv_co2ch v)) as [x|] eqn:E; simpl.
    + destruct x as [|c x]; simpl; try rewrite E; reflexivity.
    + try rewrite E. reflexivity.
  - simpl. destruct (assoc (a :: cs) (mv_ch2co v)) as [x|] eqn:E; simpl.
    + destruct x as [|c x]; simpl; try rewrite E; reflexivity.
    + try rewrite E. reflexivity.
Qed.

Definition w_v57 : mysql_variant := mkMyVariant false false [([117;116;102;56;109;98;52]%N, [117;116;102;56;109;98;52;95;103;101;110;101;114;97;108;95;99;105]%N)] [].
Definition w_v80 : mysql_variant := mkMyVariant true true [([117;116;102;56;109;98;52]%N, [117;116;102;56;109;98;52;95;48;57;48;48;95;97;105;95;99;105]%N)] [].
Lemma fill_pair_other_server :
  fill_pair w_v80 (fill_pair w_v57 ([117;116;102;56;109;98;52]%N, [])) <> fill_pair w_v80 ([117;116;102;56;109;98;52]%N, []).
Proof. vm_compute. discriminate. Qed.
