(** C02, round 5: proofs about views (DiffViews.v). *)
From Coq Require Import List NArith Bool Arith Permutation.
From Atlas Require Import Base.Bytes Diff.Schema Diff.DiffModel Diff.DiffProofs Diff.DiffRealmProofs Diff.DiffViews.
Import ListNotations.

(** ** BodyDefChanged *)
Lemma body_def_changed_spec a b :
  body_def_changed a b = false <->
  a = b \/ trim_view_extra a = trim_view_extra b \/
  noident (trim_view_extra a) = noident (trim_view_extra b).
Proof.
  unfold body_def_changed.
  destruct (str_eqb a b) eqn:E1.
  - apply str_eqb_eq in E1. split; auto.
  - destruct (str_eqb (trim_view_extra a) (trim_view_extra b)) eqn:E2.
    + apply str_eqb_eq in E2. split; auto.
    + destruct (str_eqb (noident (trim_view_extra a)) (noident (trim_view_extra b))) eqn:E3; simpl.
      * apply str_eqb_eq in E3. split; auto.
      * apply str_eqb_neq in E1, E2, E3. split; [discriminate|]. intros [H|[H|H]]; contradiction.
Qed.

Lemma body_def_changed_refl a : body_def_changed a a = false.
Proof. apply body_def_changed_spec. left. reflexivity. Qed.

(** ** the view loops on a script of views; a view and a materialized view of one name are
    different objects: the key is the kind followed by the name *)
Definition vkey (v : view) : str := (if v_mat v then 1%N else 0%N) :: v_name v.

Lemma vkey_eqb a b : str_eqb (vkey a) (vkey b) = str_eqb (v_name a) (v_name b) && Bool.eqb (v_mat a) (v_mat b).
Proof.
  unfold vkey, str_eqb. simpl. destruct (v_mat a), (v_mat b); simpl;
    try rewrite andb_true_r; try rewrite andb_false_r; reflexivity.
Qed.

Lemma find_view_kfind v1 l : find_view (v_name v1) (v_mat v1) l = kfind vkey (vkey v1) l.
Proof.
  unfold find_view, kfind. induction l as [|a l IH]; [reflexivity|]. cbn [find].
  rewrite vkey_eqb, IH. reflexivity.
Qed.

Section ViewsGeneric.
Variable D : DiffDriver.
Variable vskip : vtag -> bool.

Definition vw_expected (ps : script (A:=view)) : list vchange :=
  flat_map (fun p => match snd p with
    | None => add_or_skip_v vskip [DropView (v_name (fst p)) (v_mat (fst p))]
    | Some v2 => view_diff D vskip (fst p) v2
    end) ps.

Theorem views_diff_exact from to ps adds :
  from = map fst ps -> script_ok vkey ps adds -> Permutation to (kept ps ++ adds) ->
  exists adds', Permutation adds adds' /\
    views_diff D vskip from to =
    vw_expected ps ++ flat_map (fun v => add_or_skip_v vskip [AddView (v_name v) (v_mat v)]) adds'.
Proof.
  intros Hf OK P. subst from.
  destruct (script_add_loop vkey ps adds to (fun v => add_or_skip_v vskip [AddView (v_name v) (v_mat v)]) OK P)
    as [adds' [PA EA]].
  exists adds'. split; [exact PA|]. unfold views_diff. f_equal.
  - unfold vw_expected. apply flat_map_map_fst. intros [c o] Hin. cbn [fst snd].
    rewrite find_view_kfind. rewrite (script_find_to vkey ps adds to c o OK P Hin). reflexivity.
  - transitivity (concat (flat_map (fun c1 => match kfind vkey (vkey c1) (map fst ps) with
                                              | None => [add_or_skip_v vskip [AddView (v_name c1) (v_mat c1)]]
                                              | Some _ => [] end) to)).
    + rewrite concat_flat_map. apply flat_map_ext. intros a. rewrite find_view_kfind.
      destruct (kfind vkey (vkey a) (map fst ps)); simpl; [reflexivity|]. rewrite app_nil_r. reflexivity.
    + rewrite EA. rewrite <- flat_map_concat_map. reflexivity.
Qed.

(** ** a view diffed with itself *)
Definition wf_view (v : view) : Prop :=
  NoDup (map fst (v_cols v)) /\ NoDup (map i_name (v_idx v)) /\ forall i, In i (v_idx v) -> index_ok i.

Lemma comment_change_refl c : comment_change c c = 0%N.
Proof. unfold comment_change. destruct c as [x|]; simpl; [rewrite str_eqb_refl|]; reflexivity. Qed.

Lemma view_diff_self v : refl_laws D -> wf_view v -> view_diff D vskip v v = [].
Proof.
  intros RL [NC [NI OKI]]. unfold view_diff.
  assert (I : index_diff_v D vskip v v = []).
  { unfold index_diff_v. rewrite (flat_map_nil _ (v_idx v)), (flat_map_nil _ (v_idx v)); [reflexivity| |].
    - intros i Hi. assert (K : kfind i_name (i_name i) (v_idx v) = Some i).
      { apply kfind_unique; [exact Hi|]. intros y Hy E. revert NI Hi Hy E. clear. induction (v_idx v) as [|a l IH]; simpl; intros ND Hi Hy E; [contradiction|].
        inversion ND as [|? ? Hn ND']; subst. destruct Hi as [->|Hi], Hy as [->|Hy]; auto.
        - exfalso. apply Hn. rewrite <- E. apply in_map. exact Hy.
        - exfalso. apply Hn. rewrite E. apply in_map. exact Hi. }
      destruct (find_idx_some _ _ _ K) as [k ->]. reflexivity.
    - intros i Hi. assert (K : kfind i_name (i_name i) (v_idx v) = Some i).
      { apply kfind_unique; [exact Hi|]. intros y Hy E. revert NI Hi Hy E. clear. induction (v_idx v) as [|a l IH]; simpl; intros ND Hi Hy E; [contradiction|].
        inversion ND as [|? ? Hn ND']; subst. destruct Hi as [->|Hi], Hy as [->|Hy]; auto.
        - exfalso. apply Hn. rewrite <- E. apply in_map. exact Hy.
        - exfalso. apply Hn. rewrite E. apply in_map. exact Hi. }
      destruct (find_idx_some _ _ _ K) as [k ->]. rewrite (index_change_refl D RL i (OKI i Hi)). reflexivity. }
  assert (C : column_diff_v vskip v v = []).
  { unfold column_diff_v. rewrite (flat_map_nil _ (v_cols v)); [reflexivity|].
    intros c Hc.
    assert (F : find (fun c2 => str_eqb (fst c2) (fst c)) (v_cols v) = Some c).
    { revert NC Hc. clear. induction (v_cols v) as [|a l IH]; simpl; intros ND Hc; [contradiction|].
      inversion ND as [|? ? Hn ND']; subst. destruct Hc as [->|Hc]; [rewrite str_eqb_refl; reflexivity|].
      destruct (str_eqb (fst a) (fst c)) eqn:E.
      - exfalso. apply str_eqb_eq in E. apply Hn. rewrite E. apply in_map. exact Hc.
      - apply IH; assumption. }
    rewrite F, comment_change_refl. reflexivity. }
  rewrite I, C. simpl. rewrite body_def_changed_refl. reflexivity.
Qed.

Theorem views_diff_self l :
  refl_laws D -> NoDup (map vkey l) -> (forall v, In v l -> wf_view v) -> views_diff D vskip l l = [].
Proof.
  intros RL ND WF.
  assert (F : forall v, In v l -> find_view (v_name v) (v_mat v) l = Some v).
  { intros v Hv. rewrite find_view_kfind. apply kfind_unique; [exact Hv|].
    intros y Hy E. revert ND Hv Hy E. clear. induction l as [|a l IH]; simpl; intros ND Hv Hy E; [contradiction|].
    inversion ND as [|? ? Hn ND']; subst. destruct Hv as [->|Hv], Hy as [->|Hy]; auto.
    - exfalso. apply Hn. rewrite <- E. apply in_map. exact Hy.
    - exfalso. apply Hn. rewrite E. apply in_map. exact Hv. }
  unfold views_diff. rewrite (flat_map_nil _ l), (flat_map_nil _ l); [reflexivity| |].
  - intros v Hv. rewrite (F v Hv). reflexivity.
  - intros v Hv. rewrite (F v Hv). apply view_diff_self; [exact RL|apply WF; exact Hv].
Qed.

End ViewsGeneric.
