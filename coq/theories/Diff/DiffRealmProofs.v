(** C02, round 5: proofs about the realm level (DiffRealm.v). *)
From Coq Require Import List NArith Bool Arith Permutation.
From Atlas Require Import Base.Bytes Diff.Schema Diff.DiffModel Diff.DiffSqlite Diff.DiffDialects
  Diff.DiffMysqlVariants Diff.DiffProofs Diff.DiffRealm.
Import ListNotations.

Lemma concat_flat_map {X Y} (h : X -> list (list Y)) l :
  concat (flat_map h l) = flat_map (fun c => concat (h c)) l.
Proof. induction l as [|a l IH]; simpl; [reflexivity|]. rewrite concat_app, IH. reflexivity. Qed.

Section RealmGeneric.
Variable D : DiffDriver.
Variable A : realm -> schema_x -> schema_x -> list sattr.
Variable rskip : rtag -> bool.

(** what the first loop of RealmDiff must return for a script of schemas *)
Definition rs_expected (from : realm) (ps : script (A:=schema_x)) : list rchange :=
  flat_map (fun p => match snd p with
    | None => add_or_skip_r rskip [DropSchema (sx_name (fst p))]
    | Some s2 => match schema_diff_x D A rskip from (fst p) s2 with Some ch => ch | None => [] end
    end) ps.

Lemma realm_diff_from_exact from to ps adds :
  script_ok sx_name ps adds -> Permutation (r_schemas to) (kept ps ++ adds) ->
  (forall s s', In (s, Some s') ps -> schema_diff_x D A rskip from s s' <> None) ->
  forall ps', incl ps' ps ->
  realm_diff_from D A rskip from to (map fst ps') = Some (rs_expected from ps').
Proof.
  intros OK P NE. induction ps' as [|[c o] ps' IH]; intros Hincl; [reflexivity|].
  assert (Hin : In (c, o) ps) by (apply Hincl; left; reflexivity).
  assert (Hincl' : incl ps' ps) by (intros x Hx; apply Hincl; right; exact Hx).
  cbn [map fst realm_diff_from].
  change (find_schema (sx_name c) (r_schemas to)) with (kfind sx_name (sx_name c) (r_schemas to)).
  rewrite (script_find_to sx_name ps adds (r_schemas to) c o OK P Hin).
  rewrite (IH Hincl'). unfold rs_expected. cbn [flat_map snd fst].
  destruct o as [c'|]; [|reflexivity].
  destruct (schema_diff_x D A rskip from c c') as [ch|] eqn:E; [reflexivity|].
  exfalso. exact (NE c c' Hin E).
Qed.

Theorem realm_diff_exact from to ps adds :
  r_schemas from = map fst ps -> script_ok sx_name ps adds ->
  Permutation (r_schemas to) (kept ps ++ adds) ->
  (forall s s', In (s, Some s') ps -> schema_diff_x D A rskip from s s' <> None) ->
  exists adds', Permutation adds adds' /\
    RealmDiff D A rskip from to =
    Some (rs_expected from ps ++ flat_map (add_schema_changes rskip) adds').
Proof.
  intros Hf OK P NE.
  destruct (script_add_loop sx_name ps adds (r_schemas to) (add_schema_changes rskip) OK P) as [adds' [PA EA]].
  exists adds'. split; [exact PA|].
  unfold RealmDiff. rewrite Hf.
  rewrite (realm_diff_from_exact from to ps adds OK P NE ps (incl_refl _)).
  f_equal. f_equal. unfold realm_diff_add. rewrite Hf.
  transitivity (concat (flat_map (fun c1 => match kfind sx_name (sx_name c1) (map fst ps) with
                                            | None => [add_schema_changes rskip c1] | Some _ => [] end) (r_schemas to))).
  - rewrite concat_flat_map. apply flat_map_ext. intros a.
    change (find_schema (sx_name a) (map fst ps)) with (kfind sx_name (sx_name a) (map fst ps)).
    destruct (kfind sx_name (sx_name a) (map fst ps)); simpl; [reflexivity|]. rewrite app_nil_r. reflexivity.
  - rewrite EA. rewrite <- flat_map_concat_map. reflexivity.
Qed.

(** schemaDiff with attributes on a script of tables *)
Definition modify_schema_expected (r : realm) (from to : schema_x) : list rchange :=
  match A r from to with
  | [] => []
  | (_ :: _) as ch => add_or_skip_r rskip [ModifySchema (sx_name to) ch]
  end.

Theorem schema_diff_x_exact r from to ps adds :
  sx_name from = sx_name to -> s_tables (sx_schema from) = map fst ps -> script_ok t_name ps adds ->
  Permutation (s_tables (sx_schema to)) (kept ps ++ adds) ->
  (forall t t', In (t, Some t') ps -> table_diff D (skip_t rskip) t t' <> None) ->
  exists adds', Permutation adds adds' /\
    schema_diff_x D A rskip r from to =
    Some (modify_schema_expected r from to
          ++ map (InSchema (sx_name to))
               (tbl_expected D (skip_t rskip) ps
                ++ add_or_skip_s (skip_t rskip) (map (fun t => AddTable (t_name t)) adds'))).
Proof.
  intros Hn Hf OK P NE.
  destruct (schema_diff_exact D (skip_t rskip) (sx_schema from) (sx_schema to) ps adds Hn Hf OK P NE) as [adds' [PA E]].
  exists adds'. split; [exact PA|]. unfold schema_diff_x. rewrite E. reflexivity.
Qed.

Lemma schema_diff_x_names r from to :
  sx_name from <> sx_name to -> schema_diff_x D A rskip r from to = None.
Proof.
  intros H. unfold schema_diff_x, SchemaDiff. apply str_eqb_neq in H. unfold sx_name in H. rewrite H. reflexivity.
Qed.

(** *** equal / permuted realms *)
Definition attr_refl_law : Prop :=
  forall r s s', sx_name s = sx_name s' -> sx_charset s = sx_charset s' -> sx_collate s = sx_collate s' ->
                 sx_comment s = sx_comment s' -> A r s s' = [].

Definition sx_perm (s s' : schema_x) : Prop :=
  schema_perm (sx_schema s) (sx_schema s') /\ sx_charset s = sx_charset s' /\
  sx_collate s = sx_collate s' /\ sx_comment s = sx_comment s'.

Definition wf_realm (dwf : table -> Prop) (r : realm) : Prop :=
  NoDup (map sx_name (r_schemas r)) /\ forall s, In s (r_schemas r) -> wf_schema dwf (sx_schema s).

(** the schemas of [r'] are those of [r] in any order, each with its tables, columns, indexes,
    foreign keys, checks in any order; the realm attributes of [r'] are free *)
Definition realm_perm (r r' : realm) : Prop :=
  exists l, Forall2 sx_perm (r_schemas r) l /\ Permutation (r_schemas r') l.

Lemma sx_perm_refl s : sx_perm s s.
Proof. split; [apply schema_perm_refl|]. repeat split. Qed.

Lemma realm_perm_refl r : realm_perm r r.
Proof.
  exists (r_schemas r). split; [|apply Permutation_refl].
  induction (r_schemas r); constructor; auto. apply sx_perm_refl.
Qed.

Theorem realm_diff_perm (dwf : table -> Prop) r r' :
  refl_laws D -> sim_laws D dwf -> attr_refl_law ->
  wf_realm dwf r -> realm_perm r r' -> RealmDiff D A rskip r r' = Some [].
Proof.
  intros RL SL AL [ND WF] [l [F2 P]].
  destruct (combine_some_fst sx_perm (r_schemas r) l F2) as [I1 [I2 I3]].
  set (ps := combine (r_schemas r) (map Some l)) in *.
  assert (OK : script_ok sx_name ps []).
  { split.
    - rewrite I1. simpl. rewrite app_nil_r. exact ND.
    - intros c c' H. destruct (I3 c (Some c') H) as [c2 [E [[[Hname _] _] _]]]. inversion E; subst c2.
      symmetry; exact Hname. }
  assert (SD : forall s s', In (s, Some s') ps -> schema_diff_x D A rskip r s s' = Some []).
  { intros s s' H. destruct (I3 s (Some s') H) as [c2 [E [[Hp [H1 [H2 H3]]] Hc]]]. inversion E; subst c2.
    unfold schema_diff_x.
    rewrite (schema_diff_perm D (skip_t rskip) dwf RL SL _ _ (WF s Hc) Hp).
    rewrite (AL r s s' (proj1 Hp) H1 H2 H3). reflexivity. }
  destruct (realm_diff_exact r r' ps [] (eq_sym I1) OK) as [adds' [PA E]].
  - rewrite I2, app_nil_r. exact P.
  - intros s s' H. rewrite (SD s s' H). discriminate.
  - apply Permutation_nil in PA. subst adds'. rewrite E. simpl. rewrite app_nil_r. f_equal.
    unfold rs_expected. apply flat_map_nil. intros [c o] H. simpl.
    destruct (I3 c o H) as [c2 [-> _]]. rewrite (SD c c2 H). reflexivity.
Qed.

Theorem realm_diff_self (dwf : table -> Prop) r :
  refl_laws D -> sim_laws D dwf -> attr_refl_law -> wf_realm dwf r -> RealmDiff D A rskip r r = Some [].
Proof. intros RL SL AL WF. apply (realm_diff_perm dwf); auto. apply realm_perm_refl. Qed.

(** a schema whose three schema-level kinds are skipped contributes its table changes only *)
Lemma add_schema_changes_skipped s :
  rskip RtAddSchema = true ->
  add_schema_changes rskip s =
  map (InSchema (sx_name s)) (add_or_skip_s (skip_t rskip) (map (fun t => AddTable (t_name t)) (s_tables (sx_schema s)))).
Proof.
  intros H. unfold add_schema_changes, add_or_skip_r. cbn [filter rtag_of]. rewrite H. cbn [negb].
  unfold add_or_skip_s. induction (s_tables (sx_schema s)) as [|t l IH]; [reflexivity|].
  cbn [map filter rtag_of stag_of]. unfold skip_t at 1.
  destruct (rskip (RtTag TgAddTable)); cbn [negb map]; rewrite IH; reflexivity.
Qed.

Lemma add_schema_changes_kept s :
  rskip RtAddSchema = false ->
  add_schema_changes rskip s =
  AddSchema (sx_name s)
  :: map (InSchema (sx_name s)) (add_or_skip_s (skip_t rskip) (map (fun t => AddTable (t_name t)) (s_tables (sx_schema s)))).
Proof.
  intros H. unfold add_schema_changes, add_or_skip_r. cbn [filter rtag_of]. rewrite H. cbn [negb]. f_equal.
  unfold add_or_skip_s. induction (s_tables (sx_schema s)) as [|t l IH]; [reflexivity|].
  cbn [map filter rtag_of stag_of]. unfold skip_t at 1.
  destruct (rskip (RtTag TgAddTable)); cbn [negb map]; rewrite IH; reflexivity.
Qed.

End RealmGeneric.

(** ** SchemaAttrDiff of the three drivers *)

Lemma mysql_attr_change_exact a from top to :
  match from, to with
  | None, None => mysql_attr_change a from top to = []
  | None, Some t => mysql_attr_change a from top to = [SAddAttr a t]
  | Some f, Some t => (f = t -> mysql_attr_change a from top to = []) /\
                      (f <> t -> mysql_attr_change a from top to = [SModifyAttr a f t])
  | Some f, None =>
      match top with
      | None => mysql_attr_change a from top to = []
      | Some p => (f = p -> mysql_attr_change a from top to = []) /\
                  (f <> p -> mysql_attr_change a from top to = [SModifyAttr a f p])
      end
  end.
Proof.
  destruct from as [f|], to as [t|]; simpl; try reflexivity.
  - split; intros H.
    + subst. rewrite str_eqb_refl. reflexivity.
    + apply str_eqb_neq in H. rewrite H. reflexivity.
  - destruct top as [p|]; [|reflexivity]. split; intros H.
    + subst. rewrite str_eqb_refl. reflexivity.
    + apply str_eqb_neq in H. rewrite H. reflexivity.
Qed.

Lemma mysql_attr_change_same a f top : mysql_attr_change a f top f = [].
Proof. destruct f as [f|]; simpl; [rewrite str_eqb_refl|]; reflexivity. Qed.

Lemma mysql_attr_refl : attr_refl_law mysql_schema_attr_diff.
Proof.
  intros r s s' _ H1 H2 _. unfold mysql_schema_attr_diff. rewrite <- H1, <- H2.
  rewrite !mysql_attr_change_same. reflexivity.
Qed.

Lemma sqlite_attr_refl : attr_refl_law sqlite_schema_attr_diff.
Proof. intros r s s' _ _ _ _. reflexivity. Qed.

Lemma comment_diff_same c : comment_diff c c = [].
Proof.
  destruct c as [c|]; simpl; [|reflexivity].
  destruct (unquote c); [rewrite str_eqb_refl|]; reflexivity.
Qed.

Lemma comment_diff_exact from to :
  match from, to with
  | None, None => comment_diff from to = []
  | None, Some t => (t = [] -> comment_diff from to = []) /\
                    (t <> [] -> comment_diff from to = [SAddAttr ATTR_COMMENT t])
  | Some f, None => comment_diff from to = [SModifyAttr ATTR_COMMENT f []]
  | Some f, Some t =>
      forall v1 v2, unquote f = Some v1 -> unquote t = Some v2 ->
      (v1 = v2 -> comment_diff from to = []) /\
      (v1 <> v2 -> comment_diff from to = [SModifyAttr ATTR_COMMENT f t])
  end.
Proof.
  destruct from as [f|], to as [t|]; simpl; try reflexivity.
  - intros v1 v2 -> ->. split; intros H.
    + subst. rewrite str_eqb_refl. reflexivity.
    + apply str_eqb_neq in H. rewrite H. reflexivity.
  - split; intros H.
    + subst. reflexivity.
    + apply str_eqb_neq in H. rewrite H. reflexivity.
Qed.

Lemma pg_attr_refl ns : attr_refl_law (pg_schema_attr_diff ns).
Proof.
  intros r s s' Hn _ _ Hc. unfold pg_schema_attr_diff, skip_default_comment.
  rewrite <- Hn, <- Hc. destruct (negb (str_eqb ns [])); apply comment_diff_same.
Qed.

(** the auto-created comment of "public" is no difference (connection-less differ: by the
    name "public"; with a schema scope: for the schema itself whatever it is called) *)
Lemma pg_default_comment_ignored r from to :
  sx_name from = PUBLIC -> sx_name to = PUBLIC ->
  sx_comment from = Some STD_PUBLIC_COMMENT -> sx_comment to = None ->
  pg_schema_attr_diff [] r from to = [].
Proof.
  intros H1 H2 H3 H4. unfold pg_schema_attr_diff, skip_default_comment. rewrite H1, H2, H3, H4.
  vm_compute. reflexivity.
Qed.
