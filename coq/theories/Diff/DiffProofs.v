(** Lemmas about the generic differ (DiffModel.v): edit scripts, exactness of
    every loop of tableDiff/schemaDiff, and the empty diff on equal / permuted
    inputs as the all-keep script. *)
From Coq Require Import List NArith Bool Arith Lia Permutation.
From Atlas Require Import Base.Bytes Diff.Schema Diff.DiffModel.
Import ListNotations.

Lemma str_eqb_refl a : str_eqb a a = true.
Proof. apply bytes_eqb_refl. Qed.
Lemma str_eqb_eq a b : str_eqb a b = true <-> a = b.
Proof. apply bytes_eqb_eq. Qed.
Lemma str_eqb_neq a b : str_eqb a b = false <-> a <> b.
Proof. apply bytes_eqb_neq. Qed.

Lemma flat_map_nil {A B} (f : A -> list B) l :
  (forall x, In x l -> f x = []) -> flat_map f l = [].
Proof.
  induction l as [|a l IH]; simpl; intros H; [reflexivity|].
  rewrite (H a (or_introl eq_refl)). simpl. apply IH. intros x Hx. apply H. right; exact Hx.
Qed.

Lemma flat_map_ext_in {A B} (f g : A -> list B) l :
  (forall x, In x l -> f x = g x) -> flat_map f l = flat_map g l.
Proof.
  induction l as [|a l IH]; simpl; intros H; [reflexivity|].
  rewrite (H a (or_introl eq_refl)). f_equal. apply IH. intros x Hx. apply H. right; exact Hx.
Qed.

Lemma NoDup_map_inj {A B} (f : A -> B) l a b :
  NoDup (map f l) -> In a l -> In b l -> f a = f b -> a = b.
Proof.
  induction l as [|x l IH]; simpl; intros ND Ha Hb E; [contradiction|].
  inversion ND as [|? ? Hnin ND']; subst.
  destruct Ha as [->|Ha], Hb as [->|Hb]; auto.
  - exfalso. apply Hnin. rewrite E. apply in_map. exact Hb.
  - exfalso. apply Hnin. rewrite <- E. apply in_map. exact Ha.
Qed.

Lemma NoDup_app_l {A} (l1 l2 : list A) : NoDup (l1 ++ l2) -> NoDup l1.
Proof.
  induction l1 as [|a l1 IH]; simpl; intros H; [constructor|].
  inversion H as [|? ? Hn H']; subst. constructor.
  - intros Hin. apply Hn. apply in_or_app. left; exact Hin.
  - apply IH. exact H'.
Qed.
Lemma NoDup_app_r {A} (l1 l2 : list A) : NoDup (l1 ++ l2) -> NoDup l2.
Proof.
  induction l1 as [|a l1 IH]; simpl; intros H; [exact H|].
  inversion H; subst. apply IH. assumption.
Qed.
Lemma NoDup_app_disj {A} (l1 l2 : list A) x : NoDup (l1 ++ l2) -> In x l1 -> In x l2 -> False.
Proof.
  induction l1 as [|a l1 IH]; simpl; intros H H1 H2; [contradiction|].
  inversion H as [|? ? Hn H']; subst. destruct H1 as [->|H1].
  - apply Hn. apply in_or_app. right; exact H2.
  - apply IH; assumption.
Qed.

(** ** first-match lookup by a key *)
Section Keyed.
Context {A : Type}.
Variable key : A -> str.

Definition kfind (n : str) (l : list A) : option A := find (fun y => str_eqb (key y) n) l.

Lemma kfind_unique l x :
  In x l -> (forall y, In y l -> key y = key x -> y = x) -> kfind (key x) l = Some x.
Proof.
  unfold kfind. induction l as [|a l IH]; simpl; intros Hin Hu; [contradiction|].
  destruct (str_eqb (key a) (key x)) eqn:E.
  - apply str_eqb_eq in E. rewrite (Hu a (or_introl eq_refl) E). reflexivity.
  - destruct Hin as [->|Hin]; [rewrite str_eqb_refl in E; discriminate|].
    apply IH; [exact Hin|]. intros y Hy. apply Hu. right; exact Hy.
Qed.

Lemma kfind_none l n : (forall y, In y l -> key y <> n) -> kfind n l = None.
Proof.
  unfold kfind. induction l as [|a l IH]; simpl; intros H; [reflexivity|].
  destruct (str_eqb (key a) n) eqn:E.
  - apply str_eqb_eq in E. exfalso. exact (H a (or_introl eq_refl) E).
  - apply IH. intros y Hy. apply H. right; exact Hy.
Qed.

Lemma kfind_some_in l n x : kfind n l = Some x -> In x l /\ key x = n.
Proof.
  unfold kfind. intros H. apply find_some in H. destruct H as [H1 H2].
  split; [exact H1|]. apply str_eqb_eq. exact H2.
Qed.

(** *** edit scripts: every element of [from] paired with what it becomes
    ([None] = dropped, [Some c'] = kept or modified, same key), plus additions *)
Definition script := list (A * option A).

Definition kept (ps : script) : list A :=
  flat_map (fun p => match snd p with Some c => [c] | None => [] end) ps.

Definition script_ok (ps : script) (adds : list A) : Prop :=
  NoDup (map key (map fst ps) ++ map key adds) /\
  (forall c c', In (c, Some c') ps -> key c' = key c).

Lemma in_kept ps c' : In c' (kept ps) <-> exists c, In (c, Some c') ps.
Proof.
  unfold kept. rewrite in_flat_map. split.
  - intros [[c o] [Hin Hc]]. simpl in Hc. destruct o as [d|]; simpl in Hc; [|contradiction].
    destruct Hc as [->|[]]. exists c. exact Hin.
  - intros [c Hin]. exists (c, Some c'). split; [exact Hin|]. simpl. left; reflexivity.
Qed.

Lemma script_pair_unique ps adds c o c2 o2 :
  script_ok ps adds -> In (c, o) ps -> In (c2, o2) ps -> key c = key c2 -> (c, o) = (c2, o2).
Proof.
  intros [ND _] H1 H2 E. apply NoDup_app_l in ND. rewrite map_map in ND.
  apply (NoDup_map_inj (fun p => key (fst p)) ps); auto.
Qed.

Lemma script_find_to ps adds to c o :
  script_ok ps adds -> Permutation to (kept ps ++ adds) -> In (c, o) ps ->
  kfind (key c) to = o.
Proof.
  intros OK P Hin. destruct o as [c'|].
  - assert (Kc : key c' = key c) by (apply (proj2 OK); exact Hin).
    rewrite <- Kc. apply kfind_unique.
    + apply (Permutation_in _ (Permutation_sym P)). apply in_or_app. left. apply in_kept. eauto.
    + intros y Hy Ey. apply (Permutation_in _ P) in Hy. apply in_app_or in Hy. destruct Hy as [Hy|Hy].
      * apply in_kept in Hy. destruct Hy as [d Hd].
        assert (Kd : key y = key d) by (apply (proj2 OK); exact Hd).
        assert (E : (d, Some y) = (c, Some c')).
        { eapply script_pair_unique; eauto. congruence. }
        congruence.
      * exfalso. destruct OK as [ND _]. eapply (NoDup_app_disj _ _ (key c) ND).
        -- rewrite map_map. apply (in_map (fun p => key (fst p)) ps (c, Some c')). exact Hin.
        -- rewrite <- Kc, <- Ey. apply in_map. exact Hy.
  - apply kfind_none. intros y Hy Ey. apply (Permutation_in _ P) in Hy. apply in_app_or in Hy.
    destruct Hy as [Hy|Hy].
    + apply in_kept in Hy. destruct Hy as [d Hd].
      assert (Kd : key y = key d) by (apply (proj2 OK); exact Hd).
      assert (E : (d, Some y) = (c, None)).
      { eapply script_pair_unique; eauto. congruence. }
      discriminate.
    + destruct OK as [ND _]. eapply (NoDup_app_disj _ _ (key c) ND).
      * rewrite map_map. apply (in_map (fun p => key (fst p)) ps (c, None)). exact Hin.
      * rewrite <- Ey. apply in_map. exact Hy.
Qed.

Lemma script_find_from_kept ps adds c' :
  script_ok ps adds -> In c' (kept ps) -> exists c, kfind (key c') (map fst ps) = Some c.
Proof.
  intros OK Hin. apply in_kept in Hin. destruct Hin as [c Hc].
  exists c. rewrite (proj2 OK _ _ Hc). apply kfind_unique.
  - apply (in_map fst ps (c, Some c')). exact Hc.
  - intros y Hy Ey. apply in_map_iff in Hy. destruct Hy as [[y' o] [E Hy]]. simpl in E; subst y'.
    assert (X : (y, o) = (c, Some c')) by (eapply script_pair_unique; eauto). congruence.
Qed.

Lemma script_find_from_add ps adds a :
  script_ok ps adds -> In a adds -> kfind (key a) (map fst ps) = None.
Proof.
  intros [ND _] Hin. apply kfind_none. intros y Hy Ey.
  eapply (NoDup_app_disj _ _ (key a) ND).
  - rewrite <- Ey. apply in_map. exact Hy.
  - apply in_map. exact Hin.
Qed.

(** the "add" loop over a permutation of [kept ps ++ adds] emits exactly the additions *)
Lemma script_add_loop {B} ps adds to (g : A -> B) :
  script_ok ps adds -> Permutation to (kept ps ++ adds) ->
  exists adds', Permutation adds adds' /\
    flat_map (fun c1 => match kfind (key c1) (map fst ps) with None => [g c1] | Some _ => [] end) to
    = map g adds'.
Proof.
  intros OK P.
  set (f := fun c1 => match kfind (key c1) (map fst ps) with None => [g c1] | Some _ => [] end).
  set (isadd := fun c1 => match kfind (key c1) (map fst ps) with None => true | Some _ => false end).
  exists (filter isadd to). split.
  - (* filter isadd over a permutation of kept ++ adds is a permutation of adds *)
    assert (F : filter isadd (kept ps ++ adds) = adds).
    { rewrite filter_app.
      assert (F1 : filter isadd (kept ps) = []).
      { clear P. assert (G : forall x, In x (kept ps) -> isadd x = false).
        { intros x Hx. unfold isadd. destruct (script_find_from_kept ps adds x OK Hx) as [c ->]. reflexivity. }
        induction (kept ps) as [|a l IH]; simpl; [reflexivity|].
        rewrite (G a (or_introl eq_refl)). apply IH. intros x Hx. apply G. right; exact Hx. }
      rewrite F1. simpl.
      assert (G : forall x, In x adds -> isadd x = true).
      { intros x Hx. unfold isadd. rewrite (script_find_from_add ps adds x OK Hx). reflexivity. }
      clear P F1. induction adds as [|a l IH]; simpl; [reflexivity|].
      rewrite (G a (or_introl eq_refl)). f_equal. apply IH.
      - destruct OK as [ND K]. split; [|exact K].
        rewrite map_cons in ND. apply NoDup_remove_1 in ND. exact ND.
      - intros x Hx. apply G. right; exact Hx. }
    rewrite <- F at 1. apply Permutation_sym.
    clear F. induction P; simpl.
    + constructor.
    + destruct (isadd x); [constructor|]; assumption.
    + destruct (isadd x), (isadd y); first [apply perm_swap | apply Permutation_refl].
    + eapply Permutation_trans; eauto.
  - clear P. induction to as [|a l IH]; simpl; [reflexivity|].
    unfold f at 1, isadd at 1. destruct (kfind (key a) (map fst ps)); simpl; rewrite IH; reflexivity.
Qed.

End Keyed.

Lemma flat_map_map_fst {A B C} (f : A -> list C) (g : A * B -> list C) (ps : list (A * B)) :
  (forall p, In p ps -> f (fst p) = g p) -> flat_map f (map fst ps) = flat_map g ps.
Proof.
  induction ps as [|p ps IH]; simpl; intros H; [reflexivity|].
  rewrite (H p (or_introl eq_refl)). f_equal. apply IH. intros q Hq. apply H. right; exact Hq.
Qed.

Lemma find_idx_from_kfind k0 n l :
  match find_idx_from k0 n l with
  | Some (_, i) => kfind i_name n l = Some i
  | None => kfind i_name n l = None
  end.
Proof.
  revert k0. unfold kfind. induction l as [|a l IH]; simpl; intros k0; [reflexivity|].
  destruct (str_eqb (i_name a) n); [reflexivity|]. apply IH.
Qed.

Lemma find_idx_some n l i : kfind i_name n l = Some i -> exists k, find_idx n l = Some (k, i).
Proof.
  intros H. unfold find_idx. pose proof (find_idx_from_kfind 0 n l) as X.
  destruct (find_idx_from 0 n l) as [[k j]|]; [|congruence].
  exists k. congruence.
Qed.
Lemma find_idx_none n l : kfind i_name n l = None -> find_idx n l = None.
Proof.
  intros H. unfold find_idx. pose proof (find_idx_from_kfind 0 n l) as X.
  destruct (find_idx_from 0 n l) as [[k j]|]; [congruence|reflexivity].
Qed.

(** ** the loops of the generic differ *)
Section Generic.
Variable D : DiffDriver.
Variable skip : tag -> bool.

(** laws of the callbacks on identical arguments *)
Record refl_laws : Prop := {
  rl_iattr : forall i, dd_index_attr_changed D i i = false;
  rl_ipart : forall i k, dd_index_part_attr_changed D i i k = false;
  rl_ref   : forall a, dd_reference_changed D a a = false;
  rl_fkattr : forall f, dd_fk_attr_changed D f f = false
}.
Hypothesis RL : refl_laws.

Definition part_ok (p : part) : Prop := p_col p <> None \/ p_expr p <> None.
Definition index_ok (i : index) : Prop := Forall part_ok (i_parts i).

Lemma insert_part_ok p l : part_ok p -> Forall part_ok l -> Forall part_ok (insert_part p l).
Proof.
  intros Hp Hl. induction Hl as [|q l Hq Hl IH]; simpl.
  - constructor; [exact Hp|constructor].
  - destruct (N.ltb (p_seq p) (p_seq q)); constructor; auto.
Qed.
Lemma sort_parts_ok l : Forall part_ok l -> Forall part_ok (sort_parts l).
Proof.
  intros H. induction H as [|p l Hp Hl IH]; simpl; [constructor|]. apply insert_part_ok; assumption.
Qed.

Lemma part_changed_refl i k p : part_ok p -> part_changed D i i k p p = false.
Proof.
  intros [H|H]; unfold part_changed; rewrite eqb_reflx, (rl_ipart RL); simpl.
  - destruct (p_col p) as [n|]; [|congruence]. rewrite str_eqb_refl. reflexivity.
  - destruct (p_col p) as [n|]; [rewrite str_eqb_refl; reflexivity|].
    destruct (p_expr p) as [x|]; [|congruence]. rewrite str_eqb_refl. reflexivity.
Qed.

Lemma parts_loop_refl i k l : Forall part_ok l -> parts_loop D i i k l l = false.
Proof.
  intros H. revert k. induction H as [|p l Hp Hl IH]; simpl; intros k; [reflexivity|].
  rewrite (part_changed_refl i k p Hp). apply IH.
Qed.

Lemma parts_change_refl i : index_ok i -> parts_change D i i = 0%N.
Proof.
  intros H. unfold parts_change. rewrite Nat.eqb_refl. simpl.
  rewrite parts_loop_refl; [reflexivity|]. apply sort_parts_ok. exact H.
Qed.

Lemma comment_change_refl a : comment_change a a = 0%N.
Proof. unfold comment_change. rewrite eqb_reflx, str_eqb_refl. reflexivity. Qed.

Lemma index_change_refl i : index_ok i -> index_change D i i = 0%N.
Proof.
  intros H. unfold index_change.
  rewrite eqb_reflx, (rl_iattr RL), (parts_change_refl i H), comment_change_refl. reflexivity.
Qed.

Lemma names_differ_refl l : names_differ l l = false.
Proof. induction l as [|a l IH]; simpl; [reflexivity|]. rewrite str_eqb_refl. exact IH. Qed.

Lemma fk_change_refl f : fk_change D f f = 0%N.
Proof.
  unfold fk_change. rewrite str_eqb_refl, !Nat.eqb_refl, !names_differ_refl, !(rl_ref RL), (rl_fkattr RL).
  reflexivity.
Qed.

(** *** columnDiff is exact on every edit script *)
Definition col_expected (from : table) (ps : script (A:=column)) : list change :=
  flat_map (fun p => match snd p with
    | None => [DropColumn (c_name (fst p))]
    | Some c' => match dd_column_change D from (fst p) c' with
                 | Some k => if N.eqb k 0 then [] else [ModifyColumn (c_name (fst p)) k]
                 | None => []
                 end
    end) ps.

Lemma column_drop_modify_exact from to ps adds :
  script_ok c_name ps adds -> Permutation (t_cols to) (kept ps ++ adds) ->
  (forall c c', In (c, Some c') ps -> dd_column_change D from c c' <> None) ->
  forall ps', incl ps' ps ->
  column_diff_drop_modify D from to (map fst ps') = Some (col_expected from ps').
Proof.
  intros OK P NE. induction ps' as [|[c o] ps' IH]; intros Hincl; simpl; [reflexivity|].
  assert (Hin : In (c, o) ps) by (apply Hincl; left; reflexivity).
  assert (Hincl' : incl ps' ps) by (intros x Hx; apply Hincl; right; exact Hx).
  change (find_col (c_name c) (t_cols to)) with (kfind c_name (c_name c) (t_cols to)).
  rewrite (script_find_to c_name ps adds (t_cols to) c o OK P Hin).
  rewrite (IH Hincl'). destruct o as [c'|]; [|reflexivity].
  destruct (dd_column_change D from c c') as [k|] eqn:E; [|exfalso; exact (NE c c' Hin E)].
  destruct (N.eqb k 0); reflexivity.
Qed.

Lemma column_diff_exact from to ps adds :
  t_cols from = map fst ps -> script_ok c_name ps adds ->
  Permutation (t_cols to) (kept ps ++ adds) ->
  (forall c c', In (c, Some c') ps -> dd_column_change D from c c' <> None) ->
  exists adds', Permutation adds adds' /\
    column_diff D skip from to =
    Some (add_or_skip skip (col_expected from ps ++ map (fun c => AddColumn (c_name c)) adds')).
Proof.
  intros Hf OK P NE.
  destruct (script_add_loop c_name ps adds (t_cols to) (fun c => AddColumn (c_name c)) OK P) as [adds' [PA EA]].
  exists adds'. split; [exact PA|].
  unfold column_diff. rewrite Hf.
  rewrite (column_drop_modify_exact from to ps adds OK P NE ps (incl_refl _)).
  unfold column_diff_add. rewrite Hf.
  change (fun c1 : column => match find_col (c_name c1) (map fst ps) with
                             | Some _ => [] | None => [AddColumn (c_name c1)] end)
    with (fun c1 : column => match kfind c_name (c_name c1) (map fst ps) with
                             | None => [AddColumn (c_name c1)] | Some _ => [] end).
  rewrite EA. reflexivity.
Qed.

(** *** the foreign-key loops are exact on every edit script *)
Definition fk_expected (ps : script (A:=fkey)) : list change :=
  flat_map (fun p => match snd p with
    | None => [DropForeignKey (f_symbol (fst p))]
    | Some f' => let ch := fk_change D (fst p) f' in
                 if N.eqb ch 0 then [] else [ModifyForeignKey (f_symbol (fst p)) ch]
    end) ps.

Lemma fk_diff_exact from to ps adds :
  t_fks from = map fst ps -> script_ok f_symbol ps adds ->
  Permutation (t_fks to) (kept ps ++ adds) ->
  exists adds', Permutation adds adds' /\
    fk_diff D skip from to =
    add_or_skip skip (fk_expected ps ++ map (fun f => AddForeignKey (f_symbol f)) adds').
Proof.
  intros Hf OK P.
  destruct (script_add_loop f_symbol ps adds (t_fks to) (fun f => AddForeignKey (f_symbol f)) OK P) as [adds' [PA EA]].
  exists adds'. split; [exact PA|].
  unfold fk_diff. rewrite Hf. f_equal. f_equal.
  - apply flat_map_map_fst. intros [c o] Hin. simpl.
    change (find_fk (f_symbol c) (t_fks to)) with (kfind f_symbol (f_symbol c) (t_fks to)).
    rewrite (script_find_to f_symbol ps adds (t_fks to) c o OK P Hin). reflexivity.
  - change (fun fk1 : fkey => match find_fk (f_symbol fk1) (map fst ps) with
                              | Some _ => [] | None => [AddForeignKey (f_symbol fk1)] end)
      with (fun c1 : fkey => match kfind f_symbol (f_symbol c1) (map fst ps) with
                             | None => [AddForeignKey (f_symbol c1)] | Some _ => [] end).
    exact EA.
Qed.

End Generic.

Lemma find_idx_from_nth k0 n l k i :
  find_idx_from k0 n l = Some (k, i) -> k0 <= k /\ nth_error l (k - k0) = Some i /\ i_name i = n.
Proof.
  revert k0. induction l as [|a l IH]; simpl; intros k0 H; [discriminate|].
  destruct (str_eqb (i_name a) n) eqn:E.
  - inversion H; subst. rewrite Nat.sub_diag. simpl. repeat split; auto. apply str_eqb_eq. exact E.
  - apply IH in H. destruct H as [H1 [H2 H3]]. repeat split; auto; [lia|].
    replace (k - k0) with (S (k - S k0)) by lia. simpl. exact H2.
Qed.

Lemma kfind_in_not_none {A} (key : A -> str) l x : In x l -> kfind key (key x) l <> None.
Proof.
  unfold kfind. intros Hin H. apply (find_none _ _ H) in Hin. rewrite str_eqb_refl in Hin. discriminate.
Qed.

Section GenericIdx.
Variable D : DiffDriver.
Variable skip : tag -> bool.

Definition idx_expected (ps : script (A:=index)) : list change :=
  flat_map (fun p => match snd p with
    | None => [DropIndex (i_name (fst p))]
    | Some i' => let ch := index_change D (fst p) i' in
                 if N.eqb ch 0 then [] else [ModifyIndex (i_name (fst p)) ch]
    end) ps.

Definition ex_inv (from to : table) (ex : list nat) : Prop :=
  forall k, In k ex -> exists i, nth_error (t_idx to) k = Some i /\ kfind i_name (i_name i) (t_idx from) <> None.

Lemma index_diff_from_exact from to ps adds :
  t_idx from = map fst ps -> script_ok i_name ps adds ->
  Permutation (t_idx to) (kept ps ++ adds) ->
  (forall c, In (c, None) ps -> dd_is_generated_index_name D from c = false \/ similar_unnamed_index D to c = None) ->
  forall ps', incl ps' ps -> forall ex, ex_inv from to ex ->
  fst (index_diff_from D from to (map fst ps') ex) = idx_expected ps' /\
  ex_inv from to (snd (index_diff_from D from to (map fst ps') ex)).
Proof.
  intros Hf OK P HG. induction ps' as [|[c o] ps' IH]; intros Hincl ex Hex; simpl; [split; [reflexivity|exact Hex]|].
  assert (Hin : In (c, o) ps) by (apply Hincl; left; reflexivity).
  assert (Hincl' : incl ps' ps) by (intros x Hx; apply Hincl; right; exact Hx).
  pose proof (script_find_to i_name ps adds (t_idx to) c o OK P Hin) as KF.
  destruct o as [c'|].
  - destruct (find_idx_some _ _ _ KF) as [k Hk]. rewrite Hk.
    assert (Hex' : ex_inv from to (k :: ex)).
    { intros j [<-|Hj]; [|apply Hex; exact Hj].
      unfold find_idx in Hk. apply find_idx_from_nth in Hk. destruct Hk as [_ [Hn Hname]].
      rewrite Nat.sub_0_r in Hn. exists c'. split; [exact Hn|].
      rewrite Hname. apply kfind_in_not_none. rewrite Hf. apply (in_map fst ps (c, Some c')). exact Hin. }
    destruct (IH Hincl' (k :: ex) Hex') as [E1 E2].
    destruct (index_diff_from D from to (map fst ps') (k :: ex)) as [r ex2]. simpl in *.
    split; [|exact E2]. rewrite E1. destruct (N.eqb (index_change D c c') 0); reflexivity.
  - rewrite (find_idx_none _ _ KF).
    assert (FN : (if dd_is_generated_index_name D from c then similar_unnamed_index D to c else None) = None).
    { destruct (HG c Hin) as [G|G]; rewrite G; [reflexivity|].
      destruct (dd_is_generated_index_name D from c); reflexivity. }
    rewrite FN.
    destruct (IH Hincl' ex Hex) as [E1 E2].
    destruct (index_diff_from D from to (map fst ps') ex) as [r ex2]. simpl in *.
    split; [|exact E2]. rewrite E1. reflexivity.
Qed.

Lemma first_unnamed_match_none k idx1 l :
  (forall i, In i l -> i_name i <> []) -> first_unnamed_match D k idx1 l = None.
Proof.
  revert k. induction l as [|i l IH]; intros k H; simpl; [reflexivity|].
  assert (N : str_eqb (i_name i) [] = false) by (apply str_eqb_neq; apply H; left; reflexivity).
  rewrite N. simpl. apply IH. intros j Hj. apply H. right. exact Hj.
Qed.

(** a driver without FindGeneratedIndex finds no similar index in a table whose indexes are all named *)
Lemma similar_unnamed_none to idx1 :
  dd_find_generated_index D = None -> (forall i, In i (t_idx to) -> i_name i <> []) ->
  similar_unnamed_index D to idx1 = None.
Proof.
  intros F H. unfold similar_unnamed_index. rewrite F. apply first_unnamed_match_none. exact H.
Qed.

Lemma index_diff_add_exact from to ex :
  ex_inv from to ex ->
  forall l pre, t_idx to = pre ++ l ->
  index_diff_add from (length pre) l ex =
  flat_map (fun idx => match kfind i_name (i_name idx) (t_idx from) with
                       | None => [AddIndex (i_name idx)] | Some _ => [] end) l.
Proof.
  intros Hex. induction l as [|idx l IH]; intros pre Hto; simpl; [reflexivity|].
  assert (Hnth : nth_error (t_idx to) (length pre) = Some idx).
  { rewrite Hto. rewrite nth_error_app2 by lia. rewrite Nat.sub_diag. reflexivity. }
  assert (IH' : index_diff_add from (S (length pre)) l ex =
                flat_map (fun idx => match kfind i_name (i_name idx) (t_idx from) with
                                     | None => [AddIndex (i_name idx)] | Some _ => [] end) l).
  { specialize (IH (pre ++ [idx])). rewrite app_length in IH. simpl in IH.
    rewrite Nat.add_1_r in IH. apply IH. rewrite <- app_assoc. exact Hto. }
  rewrite IH'. f_equal.
  destruct (existsb (Nat.eqb (length pre)) ex) eqn:E.
  - apply existsb_exists in E. destruct E as [k [Hk Ek]]. apply Nat.eqb_eq in Ek. subst k.
    destruct (Hex _ Hk) as [i [Hi Hne]]. rewrite Hnth in Hi. inversion Hi; subst i.
    destruct (kfind i_name (i_name idx) (t_idx from)); [reflexivity|congruence].
  - pose proof (find_idx_from_kfind 0 (i_name idx) (t_idx from)) as X. unfold find_idx.
    destruct (find_idx_from 0 (i_name idx) (t_idx from)) as [[k j]|]; rewrite X; reflexivity.
Qed.

Lemma index_diff_exact from to ps adds :
  t_idx from = map fst ps -> script_ok i_name ps adds ->
  Permutation (t_idx to) (kept ps ++ adds) ->
  (forall c, In (c, None) ps -> dd_is_generated_index_name D from c = false \/ similar_unnamed_index D to c = None) ->
  exists adds', Permutation adds adds' /\
    index_diff_t D skip from to =
    add_or_skip skip (idx_expected ps ++ map (fun i => AddIndex (i_name i)) adds').
Proof.
  intros Hf OK P HG.
  destruct (script_add_loop i_name ps adds (t_idx to) (fun i => AddIndex (i_name i)) OK P) as [adds' [PA EA]].
  exists adds'. split; [exact PA|].
  unfold index_diff_t. rewrite Hf.
  assert (Hex0 : ex_inv from to []) by (intros k []).
  destruct (index_diff_from_exact from to ps adds Hf OK P HG ps (incl_refl _) [] Hex0) as [E1 E2].
  destruct (index_diff_from D from to (map fst ps) []) as [dm ex]. simpl in E1, E2.
  rewrite E1. change 0 with (length (@nil index)).
  rewrite (index_diff_add_exact from to ex E2 (t_idx to) [] eq_refl).
  rewrite Hf. rewrite EA. reflexivity.
Qed.

End GenericIdx.

(** ** ChecksDiff *)
Lemma filter_perm_adds {A} (f : A -> bool) to kp adds :
  Permutation to (kp ++ adds) ->
  (forall x, In x kp -> f x = false) -> (forall x, In x adds -> f x = true) ->
  Permutation adds (filter f to).
Proof.
  intros P H1 H2.
  assert (F : filter f (kp ++ adds) = adds).
  { rewrite filter_app.
    assert (F1 : filter f kp = []).
    { clear - H1. induction kp as [|a l IH]; simpl; [reflexivity|].
      rewrite (H1 a (or_introl eq_refl)). apply IH. intros x Hx. apply H1. right; exact Hx. }
    rewrite F1. simpl. clear - H2.
    induction adds as [|a l IH]; simpl; [reflexivity|].
    rewrite (H2 a (or_introl eq_refl)). f_equal. apply IH. intros x Hx. apply H2. right; exact Hx. }
  rewrite <- F at 1. apply Permutation_sym. clear F H1 H2.
  induction P; simpl.
  - constructor.
  - destruct (f x); [constructor|]; assumption.
  - destruct (f x), (f y); first [apply perm_swap | apply Permutation_refl].
  - eapply Permutation_trans; eauto.
Qed.

Lemma flat_map_filter {A B} (f : A -> bool) (g : A -> B) l :
  flat_map (fun x => if f x then [] else [g x]) l = map g (filter (fun x => negb (f x)) l).
Proof.
  induction l as [|a l IH]; simpl; [reflexivity|]. destruct (f a); simpl; rewrite IH; reflexivity.
Qed.

Definition named_unique (l : list check) : Prop :=
  forall c c', In c l -> In c' l -> k_name c <> [] -> k_name c = k_name c' -> c = c'.

Lemma check_compare_to_refl compare c : compare c c = true -> check_compare_to compare c c = true.
Proof.
  intros H. unfold check_compare_to. destruct (negb (str_eqb (k_name c) []) && negb (str_eqb (k_name c) [])).
  - apply str_eqb_refl. - exact H.
Qed.

Lemma checks_diff_sim compare fromC toC :
  (forall c, compare c c = true) -> named_unique toC ->
  incl fromC toC -> incl toC fromC ->
  checks_diff compare fromC toC = [].
Proof.
  intros CR NU I1 I2. unfold checks_diff.
  rewrite flat_map_nil, flat_map_nil; [reflexivity| |].
  - intros c1 H1.
    assert (E : existsb (check_compare_to compare c1) fromC = true).
    { apply existsb_exists. exists c1. split; [apply I2; exact H1|]. apply check_compare_to_refl. apply CR. }
    rewrite E. reflexivity.
  - intros c1 H1. destruct (find (check_compare_to compare c1) toC) as [c2|] eqn:F.
    + apply find_some in F. destruct F as [H2 M]. unfold check_compare_to in M.
      destruct (negb (str_eqb (k_name c1) [])) eqn:N1; simpl in M.
      * destruct (negb (str_eqb (k_name c2) [])) eqn:N2; simpl in M.
        -- apply str_eqb_eq in M. assert (c1 = c2).
           { apply NU; auto. apply negb_true_iff in N1. apply str_eqb_neq in N1. exact N1. }
           subst c2. rewrite CR. reflexivity.
        -- rewrite M. reflexivity.
      * rewrite M. reflexivity.
    + exfalso. pose proof (find_none _ _ F c1 (I1 _ H1)) as X.
      rewrite check_compare_to_refl in X; [discriminate|apply CR].
Qed.

Definition chk_expected (compare : check -> check -> bool) (ps : script (A:=check)) : list change :=
  flat_map (fun p => match snd p with
    | None => [DropCheck (k_name (fst p)) (k_expr (fst p))]
    | Some c2 => if negb (compare (fst p) c2)
                 then [ModifyCheck (k_name (fst p)) (k_expr (fst p)) (k_name c2) (k_expr c2)] else []
    end) ps.

(** the matching of ChecksDiff follows the script: the premises say that a
    check of [from] is matched (by name, else by expression) by its own image only *)
Lemma checks_diff_exact compare fromC toC ps adds :
  fromC = map fst ps -> Permutation toC (kept ps ++ adds) ->
  (forall c o, In (c, o) ps -> forall c2, In c2 toC -> check_compare_to compare c c2 = true -> o = Some c2) ->
  (forall c c2, In (c, Some c2) ps -> check_compare_to compare c c2 = true) ->
  (forall c2, In c2 (kept ps) -> existsb (check_compare_to compare c2) (map fst ps) = true) ->
  (forall a, In a adds -> existsb (check_compare_to compare a) (map fst ps) = false) ->
  exists adds', Permutation adds adds' /\
    checks_diff compare fromC toC =
    chk_expected compare ps ++ map (fun c => AddCheck (k_name c) (k_expr c)) adds'.
Proof.
  intros Hf P M1 M2 M3 M4. subst fromC.
  exists (filter (fun x => negb (existsb (check_compare_to compare x) (map fst ps))) toC). split.
  - apply (filter_perm_adds _ toC (kept ps) adds P).
    + intros x Hx. rewrite (M3 x Hx). reflexivity.
    + intros x Hx. rewrite (M4 x Hx). reflexivity.
  - unfold checks_diff. f_equal.
    + apply flat_map_map_fst. intros [c o] Hin. simpl.
      destruct (find (check_compare_to compare c) toC) as [c2|] eqn:F.
      * apply find_some in F. destruct F as [H2 M]. rewrite (M1 c o Hin c2 H2 M). reflexivity.
      * destruct o as [c2|]; [|reflexivity]. exfalso.
        assert (H2 : In c2 toC).
        { apply (Permutation_in _ (Permutation_sym P)). apply in_or_app. left. apply in_kept. eauto. }
        apply (find_none _ _ F) in H2. rewrite (M2 c c2 Hin) in H2. discriminate.
    + apply (flat_map_filter (fun x => existsb (check_compare_to compare x) (map fst ps))
                             (fun c => AddCheck (k_name c) (k_expr c))).
Qed.

(** ** the all-keep script *)
Definition idscript {A} (l : list A) : script (A:=A) := map (fun c => (c, Some c)) l.
Lemma idscript_fst {A} (l : list A) : map fst (idscript l) = l.
Proof. unfold idscript. rewrite map_map. simpl. apply map_id. Qed.
Lemma idscript_kept {A} (l : list A) : kept (idscript l) = l.
Proof. unfold kept, idscript. induction l as [|a l IH]; simpl; [reflexivity|]. f_equal. exact IH. Qed.
Lemma idscript_in {A} (l : list A) c o : In (c, o) (idscript l) -> o = Some c /\ In c l.
Proof.
  unfold idscript. intros H. apply in_map_iff in H. destruct H as [x [E Hx]]. inversion E; subst. auto.
Qed.
Lemma idscript_ok {A} (key : A -> str) (l : list A) : NoDup (map key l) -> script_ok key (idscript l) [].
Proof.
  intros ND. split.
  - rewrite idscript_fst. simpl. rewrite app_nil_r. exact ND.
  - intros c c' H. apply idscript_in in H. destruct H as [E _]. inversion E. reflexivity.
Qed.

Lemma set_t_name_id t : set_t_name t (t_name t) = t.
Proof. destruct t; reflexivity. Qed.

Record wf_table (t : table) : Prop := {
  wf_cols : NoDup (map c_name (t_cols t));
  wf_idx : NoDup (map i_name (t_idx t));
  wf_idx_ok : forall i, In i (t_idx t) -> index_ok i;
  wf_pk_ok : forall pk, t_pk t = Some pk -> index_ok pk;
  wf_fks : NoDup (map f_symbol (t_fks t))
}.

Definition table_perm (t t' : table) : Prop :=
  t_name t = t_name t' /\ t_without_rowid t = t_without_rowid t' /\ t_strict t = t_strict t' /\
  t_pk t = t_pk t' /\ Permutation (t_cols t) (t_cols t') /\ Permutation (t_idx t) (t_idx t') /\
  Permutation (t_fks t) (t_fks t') /\ Permutation (t_checks t) (t_checks t').

Lemma table_perm_refl t : table_perm t t.
Proof. repeat split; apply Permutation_refl. Qed.

Section GenericTable.
Variable D : DiffDriver.
Variable skip : tag -> bool.
Variable dwf : table -> Prop.   (* what the driver needs of a table on top of [wf_table] *)

Record sim_laws : Prop := {
  sl_col  : forall t c, dwf t -> In c (t_cols t) -> dd_column_change D t c c = Some 0%N;
  sl_attr : forall t t', dwf t -> table_perm t t' -> dd_table_attr_diff D t t' = Some [];
  sl_norm : forall t t', dwf t -> table_perm t t' -> dd_normalize D t t' = Some (t, t')
}.
Hypothesis RL : refl_laws D.
Hypothesis SL : sim_laws.

Lemma pk_diff_same from to :
  t_pk from = t_pk to -> (forall pk, t_pk from = Some pk -> index_ok pk) -> pk_diff D skip from to = [].
Proof.
  intros E OK. unfold pk_diff. rewrite <- E. destruct (t_pk from) as [pk|]; [|reflexivity].
  rewrite (index_change_refl D RL pk (OK pk eq_refl)). simpl.
  rewrite str_eqb_refl. simpl. rewrite !andb_false_r. reflexivity.
Qed.

Lemma table_diff_perm t t' :
  wf_table t -> dwf t -> table_perm t t' -> table_diff D skip t t' = Some [].
Proof.
  intros WF DW TP. pose proof TP as [Hn [_ [_ [Hpk [Pc [Pi [Pf _]]]]]]].
  unfold table_diff. rewrite <- Hn, set_t_name_id. rewrite (sl_norm SL t t' DW TP), (sl_attr SL t t' DW TP).
  (* columns *)
  destruct (column_diff_exact D skip t t' (idscript (t_cols t)) []) as [a1 [P1 E1]].
  { symmetry; apply idscript_fst. } { apply idscript_ok. apply (wf_cols t WF). }
  { rewrite idscript_kept, app_nil_r. apply Permutation_sym. exact Pc. }
  { intros c c' H. apply idscript_in in H. destruct H as [E Hc]. inversion E; subst.
    rewrite (sl_col SL t c DW Hc). discriminate. }
  apply Permutation_nil in P1. subst a1. rewrite E1.
  assert (X1 : col_expected D t (idscript (t_cols t)) = []).
  { unfold col_expected. apply flat_map_nil. intros [c o] H. apply idscript_in in H. destruct H as [-> Hc].
    simpl. rewrite (sl_col SL t c DW Hc). reflexivity. }
  rewrite X1. simpl.
  (* pk *)
  rewrite (pk_diff_same t t' Hpk (wf_pk_ok t WF)).
  (* indexes *)
  destruct (index_diff_exact D skip t t' (idscript (t_idx t)) []) as [a2 [P2 E2]].
  { symmetry; apply idscript_fst. } { apply idscript_ok. apply (wf_idx t WF). }
  { rewrite idscript_kept, app_nil_r. apply Permutation_sym. exact Pi. }
  { intros c H. apply idscript_in in H. destruct H as [E _]. discriminate. }
  apply Permutation_nil in P2. subst a2. rewrite E2.
  assert (X2 : idx_expected D (idscript (t_idx t)) = []).
  { unfold idx_expected. apply flat_map_nil. intros [c o] H. apply idscript_in in H. destruct H as [-> Hc].
    simpl. rewrite (index_change_refl D RL c (wf_idx_ok t WF c Hc)). reflexivity. }
  rewrite X2. simpl.
  (* foreign keys *)
  destruct (fk_diff_exact D skip t t' (idscript (t_fks t)) []) as [a3 [P3 E3]].
  { symmetry; apply idscript_fst. } { apply idscript_ok. apply (wf_fks t WF). }
  { rewrite idscript_kept, app_nil_r. apply Permutation_sym. exact Pf. }
  apply Permutation_nil in P3. subst a3. rewrite E3.
  assert (X3 : fk_expected D (idscript (t_fks t)) = []).
  { unfold fk_expected. apply flat_map_nil. intros [c o] H. apply idscript_in in H. destruct H as [-> Hc].
    simpl. rewrite (fk_change_refl D RL c). reflexivity. }
  rewrite X3. reflexivity.
Qed.

(** *** schemaDiff on a script of tables *)
Definition tbl_expected (ps : script (A:=table)) : list schange :=
  flat_map (fun p => match snd p with
    | None => add_or_skip_s skip [DropTable (t_name (fst p))]
    | Some t2 => match table_diff D skip (fst p) t2 with
                 | Some ((_ :: _) as ch) => add_or_skip_s skip [ModifyTable (t_name t2) ch]
                 | _ => []
                 end
    end) ps.

Lemma schema_diff_from_exact to ps adds :
  script_ok t_name ps adds -> Permutation (s_tables to) (kept ps ++ adds) ->
  (forall t t', In (t, Some t') ps -> table_diff D skip t t' <> None) ->
  forall ps', incl ps' ps ->
  schema_diff_from D skip to (map fst ps') = Some (tbl_expected ps').
Proof.
  intros OK P NE. induction ps' as [|[c o] ps' IH]; intros Hincl; simpl; [reflexivity|].
  assert (Hin : In (c, o) ps) by (apply Hincl; left; reflexivity).
  assert (Hincl' : incl ps' ps) by (intros x Hx; apply Hincl; right; exact Hx).
  change (find_table (t_name c) (s_tables to)) with (kfind t_name (t_name c) (s_tables to)).
  rewrite (script_find_to t_name ps adds (s_tables to) c o OK P Hin).
  rewrite (IH Hincl'). destruct o as [c'|]; [|reflexivity].
  destruct (table_diff D skip c c') as [ch|] eqn:E; [|exfalso; exact (NE c c' Hin E)].
  destruct ch; reflexivity.
Qed.

Lemma schema_diff_exact from to ps adds :
  s_name from = s_name to -> s_tables from = map fst ps -> script_ok t_name ps adds ->
  Permutation (s_tables to) (kept ps ++ adds) ->
  (forall t t', In (t, Some t') ps -> table_diff D skip t t' <> None) ->
  exists adds', Permutation adds adds' /\
    SchemaDiff D skip from to =
    Some (tbl_expected ps ++ add_or_skip_s skip (map (fun t => AddTable (t_name t)) adds')).
Proof.
  intros Hn Hf OK P NE.
  destruct (script_add_loop t_name ps adds (s_tables to) (fun t => AddTable (t_name t)) OK P) as [adds' [PA EA]].
  exists adds'. split; [exact PA|].
  unfold SchemaDiff. rewrite Hn, str_eqb_refl. simpl. rewrite Hf.
  rewrite (schema_diff_from_exact to ps adds OK P NE ps (incl_refl _)).
  unfold schema_diff_add. rewrite Hf.
  change (fun t1 : table => match find_table (t_name t1) (map fst ps) with
                            | Some _ => [] | None => [AddTable (t_name t1)] end)
    with (fun c1 : table => match kfind t_name (t_name c1) (map fst ps) with
                            | None => [AddTable (t_name c1)] | Some _ => [] end).
  rewrite EA. reflexivity.
Qed.

(** *** equal / permuted schemas *)
Definition wf_schema (s : schema) : Prop :=
  NoDup (map t_name (s_tables s)) /\ forall t, In t (s_tables s) -> wf_table t /\ dwf t.

Definition schema_perm (s s' : schema) : Prop :=
  s_name s = s_name s' /\
  exists l, Forall2 table_perm (s_tables s) l /\ Permutation (s_tables s') l.

Lemma combine_some_fst {A} (R : A -> A -> Prop) l1 l2 :
  Forall2 R l1 l2 -> map fst (combine l1 (map Some l2)) = l1 /\ kept (combine l1 (map Some l2)) = l2 /\
  (forall c o, In (c, o) (combine l1 (map Some l2)) -> exists c', o = Some c' /\ R c c' /\ In c l1).
Proof.
  intros H. induction H as [|a b l1 l2 Hab H IH]; simpl.
  - repeat split; auto. intros c o [].
  - destruct IH as [I1 [I2 I3]]. repeat split.
    + f_equal. exact I1.
    + unfold kept in *. simpl. f_equal. exact I2.
    + intros c o [E|Hin].
      * inversion E; subst. exists b. auto.
      * destruct (I3 c o Hin) as [c' [E [Hr Hc]]]. exists c'. auto.
Qed.

Theorem schema_diff_perm s s' :
  wf_schema s -> schema_perm s s' -> SchemaDiff D skip s s' = Some [].
Proof.
  intros [ND WF] [Hn [l [F2 P]]].
  destruct (combine_some_fst table_perm (s_tables s) l F2) as [I1 [I2 I3]].
  set (ps := combine (s_tables s) (map Some l)) in *.
  assert (OK : script_ok t_name ps []).
  { split.
    - rewrite I1. simpl. rewrite app_nil_r. exact ND.
    - intros c c' H. destruct (I3 c (Some c') H) as [c2 [E [[Hname _] _]]]. inversion E; subst c2. symmetry; exact Hname. }
  assert (TD : forall t t', In (t, Some t') ps -> table_diff D skip t t' = Some []).
  { intros t t' H. destruct (I3 t (Some t') H) as [c2 [E [Hr Hc]]]. inversion E; subst c2.
    destruct (WF t Hc) as [W1 W2]. apply table_diff_perm; assumption. }
  destruct (schema_diff_exact s s' ps [] Hn (eq_sym I1) OK) as [a [Pa E]].
  { rewrite I2, app_nil_r. exact P. }
  { intros t t' H. rewrite (TD t t' H). discriminate. }
  apply Permutation_nil in Pa. subst a. rewrite E. simpl.
  assert (X : tbl_expected ps = []).
  { unfold tbl_expected. apply flat_map_nil. intros [c o] H.
    destruct (I3 c o H) as [c2 [-> _]]. simpl. rewrite (TD c c2 H). reflexivity. }
  rewrite X. reflexivity.
Qed.

Lemma schema_perm_refl s : schema_perm s s.
Proof.
  split; [reflexivity|]. exists (s_tables s). split; [|apply Permutation_refl].
  induction (s_tables s); constructor; auto. apply table_perm_refl.
Qed.

Theorem schema_diff_self s : wf_schema s -> SchemaDiff D skip s s = Some [].
Proof. intros WF. apply schema_diff_perm; [exact WF|apply schema_perm_refl]. Qed.

End GenericTable.

(** ** tableDiff on independent scripts of columns, indexes and foreign keys *)
Section GenericExact.
Variable D : DiffDriver.
Variable skip : tag -> bool.

Theorem table_diff_exact from to attrs cps cadds ips iadds fps fadds :
  let from1 := set_t_name from (t_name to) in
  dd_normalize D from1 to = Some (from1, to) ->
  dd_table_attr_diff D from1 to = Some attrs ->
  t_cols from = map fst cps -> script_ok c_name cps cadds ->
  Permutation (t_cols to) (kept cps ++ cadds) ->
  (forall c c', In (c, Some c') cps -> dd_column_change D from1 c c' <> None) ->
  t_idx from = map fst ips -> script_ok i_name ips iadds ->
  Permutation (t_idx to) (kept ips ++ iadds) ->
  (forall c, In (c, None) ips -> dd_is_generated_index_name D from1 c = false \/ similar_unnamed_index D to c = None) ->
  t_fks from = map fst fps -> script_ok f_symbol fps fadds ->
  Permutation (t_fks to) (kept fps ++ fadds) ->
  exists cadds' iadds' fadds',
    Permutation cadds cadds' /\ Permutation iadds iadds' /\ Permutation fadds fadds' /\
    table_diff D skip from to =
    Some (attrs
          ++ add_or_skip skip (col_expected D from1 cps ++ map (fun c => AddColumn (c_name c)) cadds')
          ++ pk_diff D skip from1 to
          ++ add_or_skip skip (idx_expected D ips ++ map (fun i => AddIndex (i_name i)) iadds')
          ++ add_or_skip skip (fk_expected D fps ++ map (fun f => AddForeignKey (f_symbol f)) fadds')).
Proof.
  intros from1 HN HA C1 C2 C3 C4 I1 I2 I3 I4 F1 F2 F3.
  destruct (column_diff_exact D skip from1 to cps cadds C1 C2 C3 C4) as [ca [PC EC]].
  destruct (index_diff_exact D skip from1 to ips iadds I1 I2 I3 I4) as [ia [PI EI]].
  destruct (fk_diff_exact D skip from1 to fps fadds F1 F2 F3) as [fa [PF EF]].
  exists ca, ia, fa. repeat split; auto.
  unfold table_diff. fold from1. rewrite HN, HA, EC, EI, EF. reflexivity.
Qed.

(** primary key: the four elementary edits *)
Lemma pk_diff_add from to p :
  t_pk from = None -> t_pk to = Some p -> pk_diff D skip from to = add_or_skip skip [AddPrimaryKey].
Proof. intros H1 H2. unfold pk_diff. rewrite H1, H2. reflexivity. Qed.

Lemma pk_diff_drop from to p :
  t_pk from = Some p -> t_pk to = None -> pk_diff D skip from to = add_or_skip skip [DropPrimaryKey].
Proof. intros H1 H2. unfold pk_diff. rewrite H1, H2. reflexivity. Qed.

Lemma pk_diff_modify from to p1 p2 k :
  t_pk from = Some p1 -> t_pk to = Some p2 ->
  N.land (index_change D p1 p2) (N.lxor 32767 ChangeUnique) = k -> k <> 0%N ->
  pk_diff D skip from to = add_or_skip skip [ModifyPrimaryKey k].
Proof.
  intros H1 H2 Hk Hn. unfold pk_diff. rewrite H1, H2, Hk.
  apply N.eqb_neq in Hn. rewrite Hn. reflexivity.
Qed.

Lemma pk_diff_rename from to p1 p2 :
  t_pk from = Some p1 -> t_pk to = Some p2 ->
  N.land (index_change D p1 p2) (N.lxor 32767 ChangeUnique) = 0%N ->
  dd_support_rename_constraint D = true ->
  i_name p1 <> [] -> i_name p2 <> [] -> i_name p1 <> i_name p2 ->
  pk_diff D skip from to = add_or_skip skip [RenameConstraint (i_name p1) (i_name p2)].
Proof.
  intros H1 H2 Hk Hs N1 N2 N3. unfold pk_diff. rewrite H1, H2, Hk, Hs.
  apply str_eqb_neq in N1, N2, N3. rewrite N1, N2, N3. reflexivity.
Qed.

(** the skip filter is applied uniformly: filtering commutes with every loop *)
Lemma add_or_skip_app a b : add_or_skip skip (a ++ b) = add_or_skip skip a ++ add_or_skip skip b.
Proof. apply filter_app. Qed.

Lemma add_or_skip_in c cs : In c (add_or_skip skip cs) <-> In c cs /\ skip (tag_of c) = false.
Proof. unfold add_or_skip. rewrite filter_In. rewrite negb_true_iff. reflexivity. Qed.

End GenericExact.
