(** C02 round 3, gap 1: indexDiffT when the desired table has unnamed indexes.

    Every current index decides on its own -- by its namesake, or, under a generated name, by
    the first similar unnamed desired index ([partner_pos]) -- whether it is modified, left
    alone or dropped, *without looking at the [exists] set*; every desired index is added unless
    its position is claimed by some current index or it has a namesake.  [index_diff_t_unnamed]
    is that characterisation for all tables and all drivers; it is exact when [partner_pos] is
    injective on the current indexes, and it shows what goes wrong when it is not (two current
    indexes with generated names similar to the same unnamed one: [w_group_*]). *)
From Coq Require Import List NArith Bool Arith Lia Permutation.
From Atlas Require Import Base.Bytes Diff.Schema Diff.DiffModel Diff.DiffSqlite Diff.DiffDialects Diff.DiffProofs.
Import ListNotations.

Section Unnamed.
Variable D : DiffDriver.
Variable skip : tag -> bool.

(** the position in [to.Indexes] a current index is paired with *)
Definition partner_pos (from to : table) (c : index) : option nat :=
  match find_idx (i_name c) (t_idx to) with
  | Some (k, _) => Some k
  | None => if dd_is_generated_index_name D from c then similar_unnamed_index D to c else None
  end.

(** what the first loop reports for one current index *)
Definition from_step (from to : table) (c : index) : list change :=
  match find_idx (i_name c) (t_idx to) with
  | Some (_, i2) => let ch := index_change D c i2 in if N.eqb ch 0 then [] else [ModifyIndex (i_name c) ch]
  | None => match partner_pos from to c with Some _ => [] | None => [DropIndex (i_name c)] end
  end.

(** position [k] of the desired list is the partner of some current index *)
Definition claimed (from to : table) (k : nat) : bool :=
  existsb (fun c => match partner_pos from to c with Some j => Nat.eqb k j | None => false end) (t_idx from).

(** what the second loop reports for the desired indexes [l], the first of which sits at position [k] *)
Fixpoint add_step (from to : table) (k : nat) (l : list index) : list change :=
  match l with
  | [] => []
  | i :: l' =>
      (if claimed from to k then []
       else match find_idx (i_name i) (t_idx from) with None => [AddIndex (i_name i)] | Some _ => [] end)
      ++ add_step from to (S k) l'
  end.

Definition positions (from to : table) (l : list index) : list nat :=
  flat_map (fun c => match partner_pos from to c with Some k => [k] | None => [] end) l.

Lemma positions_cons from to c l :
  positions from to (c :: l) =
  (match partner_pos from to c with Some k => [k] | None => [] end) ++ positions from to l.
Proof. reflexivity. Qed.

Lemma index_diff_from_steps from to l : forall ex,
  index_diff_from D from to l ex = (flat_map (from_step from to) l, rev (positions from to l) ++ ex).
Proof.
  induction l as [|c l IH]; intros ex; [reflexivity|].
  rewrite positions_cons. cbn [index_diff_from flat_map].
  unfold from_step at 1. unfold partner_pos.
  destruct (find_idx (i_name c) (t_idx to)) as [[k i2]|] eqn:F.
  - rewrite IH. cbn [app rev]. rewrite <- app_assoc. cbn [app].
    destruct (N.eqb (index_change D c i2) 0); reflexivity.
  - destruct (dd_is_generated_index_name D from c) eqn:G.
    + destruct (similar_unnamed_index D to c) as [k|] eqn:S.
      * rewrite IH. cbn [app rev]. rewrite <- app_assoc. reflexivity.
      * rewrite IH. reflexivity.
    + rewrite IH. reflexivity.
Qed.

Lemma existsb_positions from to k l :
  existsb (Nat.eqb k) (rev (positions from to l) ++ []) =
  existsb (fun c => match partner_pos from to c with Some j => Nat.eqb k j | None => false end) l.
Proof.
  rewrite app_nil_r.
  apply eq_true_iff_eq. rewrite !existsb_exists. split.
  - intros [j [Hj E]]. apply in_rev in Hj. unfold positions in Hj. apply in_flat_map in Hj.
    destruct Hj as [c [Hc Hk]]. exists c. split; [exact Hc|].
    destruct (partner_pos from to c) as [j'|]; simpl in Hk; [|contradiction].
    destruct Hk as [->|[]]. exact E.
  - intros [c [Hc E]]. destruct (partner_pos from to c) as [j|] eqn:P; [|discriminate].
    exists j. split; [|exact E]. apply -> in_rev. unfold positions. apply in_flat_map.
    exists c. split; [exact Hc|]. rewrite P. left; reflexivity.
Qed.

Lemma index_diff_add_steps from to l : forall k,
  index_diff_add from k l (rev (positions from to (t_idx from)) ++ []) = add_step from to k l.
Proof.
  induction l as [|i l IH]; intros k; simpl; [reflexivity|].
  rewrite IH. rewrite existsb_positions. reflexivity.
Qed.

(** indexDiffT, for every pair of tables *)
Lemma index_diff_t_unnamed from to :
  index_diff_t D skip from to =
  add_or_skip skip (flat_map (from_step from to) (t_idx from) ++ add_step from to 0 (t_idx to)).
Proof.
  unfold index_diff_t. rewrite index_diff_from_steps. rewrite index_diff_add_steps. reflexivity.
Qed.

(** a current index is exempt from DropIndex as soon as *some* similar unnamed desired index
    exists -- also one that is already the partner of another current index *)
Lemma from_step_drop from to c :
  from_step from to c = [DropIndex (i_name c)] <->
  find_idx (i_name c) (t_idx to) = None /\
  (dd_is_generated_index_name D from c = false \/ similar_unnamed_index D to c = None).
Proof.
  unfold from_step, partner_pos. destruct (find_idx (i_name c) (t_idx to)) as [[k i2]|].
  - split; [|intros [H _]; discriminate]. destruct (N.eqb (index_change D c i2) 0); discriminate.
  - destruct (dd_is_generated_index_name D from c).
    + destruct (similar_unnamed_index D to c).
      * split; [discriminate|]. intros [_ [H|H]]; discriminate.
      * split; auto.
    + split; auto.
Qed.

End Unnamed.

(** ** counting the pairs *)
Section Count.
Variable D : DiffDriver.
Variables from to : table.

Definition has_partner (c : index) : bool :=
  match partner_pos D from to c with Some _ => true | None => false end.

Lemma positions_length l :
  length (positions D from to l) = length (filter has_partner l).
Proof.
  induction l as [|c l IH]; [reflexivity|]. rewrite positions_cons. cbn [filter]. unfold has_partner at 1.
  destruct (partner_pos D from to c); simpl; rewrite IH; reflexivity.
Qed.

Lemma claimed_in k : claimed D from to k = true <-> In k (positions D from to (t_idx from)).
Proof.
  unfold claimed. rewrite existsb_exists. unfold positions. rewrite in_flat_map. split.
  - intros [c [Hc E]]. exists c. split; [exact Hc|]. destruct (partner_pos D from to c) as [j|]; [|discriminate].
    apply Nat.eqb_eq in E. subst. left; reflexivity.
  - intros [c [Hc E]]. exists c. split; [exact Hc|]. destruct (partner_pos D from to c) as [j|]; [|contradiction].
    destruct E as [->|[]]. apply Nat.eqb_refl.
Qed.

(** when no two current indexes share a partner, and partners are positions of the desired
    list, as many desired indexes are exempt from AddIndex by a partner as current indexes have one *)
Lemma pairing_count :
  NoDup (positions D from to (t_idx from)) ->
  (forall k, In k (positions D from to (t_idx from)) -> k < length (t_idx to)) ->
  length (filter (claimed D from to) (seq 0 (length (t_idx to)))) = length (filter has_partner (t_idx from)).
Proof.
  intros ND B. rewrite <- positions_length. apply Permutation_length. apply NoDup_Permutation.
  - apply NoDup_filter. apply seq_NoDup.
  - exact ND.
  - intros k. rewrite filter_In, in_seq, claimed_in. split.
    + intros [_ H]. exact H.
    + intros H. split; [|exact H]. specialize (B k H). lia.
Qed.
End Count.

(** ** witnesses (MySQL names) *)
Definition s_age : str := [97;103;101]%N.
Definition s_age_2 : str := [97;103;101;95;50]%N.
Definition w_uq (name : str) : index := mkIndex name true [mkPart 0 false (Some s_age) None] None None (Some []).
Definition w_grp_col : column := mkColumn s_age MY_INT [105;110;116]%N true None None None.
Definition w_grp_from : table := mkTable [116]%N false false [w_grp_col] None [w_uq s_age; w_uq s_age_2] [] [].
Definition w_grp_to1 : table := mkTable [116]%N false false [w_grp_col] None [w_uq []] [] [].
Definition w_grp_to2 : table := mkTable [116]%N false false [w_grp_col] None [w_uq []; w_uq []] [] [].
Definition no_skip_t (_ : tag) : bool := false.

(* two current UNIQUE (age) with generated names, one unnamed desired: the surplus one is not dropped *)
Lemma w_group_no_drop : index_diff_t mysql_driver no_skip_t w_grp_from w_grp_to1 = [].
Proof. vm_compute. reflexivity. Qed.
(* two against two: nothing differs, yet one AddIndex *)
Lemma w_group_spurious_add : index_diff_t mysql_driver no_skip_t w_grp_from w_grp_to2 = [AddIndex []].
Proof. vm_compute. reflexivity. Qed.
Lemma w_group_generated :
  mysql_is_generated_index_name w_grp_from (w_uq s_age) = true /\
  mysql_is_generated_index_name w_grp_from (w_uq s_age_2) = true /\
  idx_match mysql_driver (w_uq s_age) (w_uq []) = true /\ idx_match mysql_driver (w_uq s_age_2) (w_uq []) = true.
Proof. repeat split; vm_compute; reflexivity. Qed.

(* MySQL functional index names: functional_index, functional_index_2, ... are recognised (since fix
   C02-mysql-functional-index-suffix; before, only the first was) *)
Definition s_fi2 : str := FUNCTIONAL_INDEX ++ [95;50]%N.
Definition w_fi (name : str) : index := mkIndex name false [mkPart 0 false None (Some [40;97;41]%N)] None None (Some []).
Lemma w_functional_index :
  mysql_is_generated_index_name w_grp_from (w_fi FUNCTIONAL_INDEX) = true /\
  mysql_is_generated_index_name w_grp_from (w_fi s_fi2) = true.
Proof. split; vm_compute; reflexivity. Qed.
(** functional_index_<rest> is a generated name exactly when <rest> is a number > 1 *)
Lemma mysql_functional_suffix t idx rest :
  i_name idx = FUNCTIONAL_INDEX ++ ch_us :: rest -> mysql_is_generated_index_name t idx = parse_int_gt 1 rest.
Proof.
  intros E. unfold mysql_is_generated_index_name. rewrite E.
  assert (N1 : str_eqb (FUNCTIONAL_INDEX ++ ch_us :: rest) FUNCTIONAL_INDEX = false).
  { apply str_eqb_neq. intros H. apply (f_equal (@length N)) in H. rewrite app_length in H. simpl in H. lia. }
  rewrite N1.
  assert (P : exists r, has_prefix FUNCTIONAL_INDEX ((FUNCTIONAL_INDEX ++ ch_us :: rest) ++ [ch_us]) = Some r).
  { rewrite <- app_assoc. generalize ((ch_us :: rest) ++ [ch_us]). intros l. unfold FUNCTIONAL_INDEX. simpl. eexists. reflexivity. }
  destruct P as [r ->].
  assert (Q : has_prefix (FUNCTIONAL_INDEX ++ [ch_us]) (FUNCTIONAL_INDEX ++ ch_us :: rest) = Some rest).
  { unfold FUNCTIONAL_INDEX. simpl. reflexivity. }
  rewrite Q. reflexivity.
Qed.
