(** C02, round 5: proofs about the table attributes of MySQL / PostgreSQL (DiffTableAttrs.v). *)
From Coq Require Import List NArith Bool Arith Permutation.
From Atlas Require Import Base.Bytes Diff.Schema Diff.DiffModel Diff.DiffSqlite Diff.DiffDialects
  Diff.DiffMysqlVariants Diff.DiffProofs Diff.DiffRealm Diff.DiffRealmProofs Diff.DiffTableAttrs.
Import ListNotations.

(** ** each attribute on its own *)

(** AUTO_INCREMENT: reported only when the desired value is > 1 and greater than the current
    one (an absent current value counts as 0); never when the desired table has none *)
Lemma mysql_autoinc_exact from to :
  mysql_autoinc_change from to =
  match to with
  | Some t => if N.ltb 1 t && N.ltb (match from with Some f => f | None => 0%N end) t
              then [ModifyAttr ATTR_AUTOINC] else []
  | None => []
  end.
Proof. destruct from as [f|], to as [t|]; reflexivity. Qed.

(** ENGINE: compared case-insensitively; removed from the desired table = InnoDB unless the
    current one is flagged as the default; added to a table that had none: reported unless it is
    flagged as the default *)
Lemma mysql_engine_exact from to :
  match from, to with
  | Some (fv, fd), Some (tv, td) =>
      (to_lower fv = to_lower tv -> mysql_engine_change from to = []) /\
      (to_lower fv <> to_lower tv -> mysql_engine_change from to = [ModifyAttr ATTR_ENGINE])
  | Some (fv, fd), None =>
      (fd = true \/ to_lower fv = INNODB_LOWER -> mysql_engine_change from to = []) /\
      (fd = false /\ to_lower fv <> INNODB_LOWER -> mysql_engine_change from to = [ModifyAttr ATTR_ENGINE])
  | None, Some (tv, td) =>
      mysql_engine_change from to = if td then [] else [ModifyAttr ATTR_ENGINE]
  | None, None => mysql_engine_change from to = []
  end.
Proof.
  destruct from as [[fv fd]|], to as [[tv td]|]; simpl.
  - split; intros H.
    + rewrite H, str_eqb_refl. reflexivity.
    + apply str_eqb_neq in H. rewrite H. reflexivity.
  - split.
    + intros [->|H]; [reflexivity|]. rewrite H, str_eqb_refl. destruct fd; reflexivity.
    + intros [-> H]. apply str_eqb_neq in H. rewrite H. reflexivity.
  - destruct td; reflexivity.
  - reflexivity.
Qed.

Lemma mysql_sysver_exact from to :
  mysql_sysver_change from to =
  match from, to with
  | true, false => [DropAttr ATTR_SYSVER]
  | false, true => [AddAttr ATTR_SYSVER]
  | _, _ => []
  end.
Proof. destruct from, to; reflexivity. Qed.

(** the attribute part of MySQL's TableAttrDiff is the concatenation of the six independent
    parts, in the order of the Go code *)
Lemma mysql_table_attrs_parts pcs pco from to :
  mysql_table_attrs_x pcs pco from to =
  Some (mysql_autoinc_change (tx_autoinc from) (tx_autoinc to)
        ++ map sattr_change (comment_diff (tx_comment from) (tx_comment to))
        ++ map sattr_change (mysql_attr_change ATTR_CHARSET (tx_charset from) pcs (tx_charset to))
        ++ map sattr_change (mysql_attr_change ATTR_COLLATE (tx_collate from) pco (tx_collate to))
        ++ mysql_engine_change (tx_engine from) (tx_engine to)
        ++ mysql_sysver_change (tx_sysver from) (tx_sysver to)).
Proof. reflexivity. Qed.

(** ** equal attributes: nothing *)
Definition attrs_eq (t t' : table_x) : Prop :=
  tx_comment t = tx_comment t' /\ tx_charset t = tx_charset t' /\ tx_collate t = tx_collate t' /\
  tx_engine t = tx_engine t' /\ tx_autoinc t = tx_autoinc t' /\ tx_sysver t = tx_sysver t' /\
  tx_partition t = tx_partition t'.

Definition ta_refl_law (TA : option str -> option str -> table_x -> table_x -> option (list change)) : Prop :=
  forall pcs pco t t', attrs_eq t t' -> TA pcs pco t t' = Some [].

Lemma mysql_autoinc_same a : mysql_autoinc_change a a = [].
Proof. destruct a as [v|]; simpl; [|reflexivity]. rewrite N.ltb_irrefl, andb_false_r. reflexivity. Qed.

Lemma mysql_engine_same e : mysql_engine_change e e = [].
Proof. destruct e as [[v d]|]; simpl; [rewrite str_eqb_refl|]; reflexivity. Qed.

Lemma mysql_ta_refl : ta_refl_law mysql_table_attrs_x.
Proof.
  intros pcs pco t t' [H1 [H2 [H3 [H4 [H5 [H6 _]]]]]]. unfold mysql_table_attrs_x.
  rewrite <- H1, <- H2, <- H3, <- H4, <- H5, <- H6.
  rewrite mysql_autoinc_same, comment_diff_same, !mysql_attr_change_same, mysql_engine_same.
  destruct (tx_sysver t); reflexivity.
Qed.

Lemma pg_ta_refl : ta_refl_law pg_table_attrs_x.
Proof.
  intros pcs pco t t' [H1 [_ [_ [_ [_ [_ H7]]]]]]. unfold pg_table_attrs_x, pg_partition_changed.
  rewrite <- H1, <- H7, comment_diff_same.
  destruct (tx_partition t); [rewrite str_eqb_refl|]; reflexivity.
Qed.

(** PostgreSQL: a partition key that differs (added, dropped, changed) is an error of the diff,
    never a change *)
Lemma pg_partition_error pcs pco from to :
  tx_partition from <> tx_partition to -> pg_table_attrs_x pcs pco from to = None.
Proof.
  intros H. unfold pg_table_attrs_x, pg_partition_changed.
  destruct (tx_partition from) as [a|], (tx_partition to) as [b|]; try reflexivity.
  - assert (a <> b) by congruence. apply str_eqb_neq in H0. rewrite H0. reflexivity.
  - congruence.
Qed.

Lemma kept_idpairs {X} (l : list X) : kept (map (fun t => (t, Some t)) l) = l.
Proof. unfold kept. induction l as [|a l IH]; simpl; [reflexivity|]. f_equal. exact IH. Qed.

Section TableXGeneric.
Variable D : DiffDriver.
Variable TA : option str -> option str -> table_x -> table_x -> option (list change).
Variable skip : tag -> bool.

(** tableDiff with attributes = the attribute changes, then tableDiff's list (2f) *)
Lemma table_diff_x_exact pcs pco from to a r :
  TA pcs pco from to = Some a -> table_diff D skip (tx_table from) (tx_table to) = Some r ->
  table_diff_x D TA skip pcs pco from to = Some (a ++ r).
Proof. intros H1 H2. unfold table_diff_x. rewrite H1, H2. reflexivity. Qed.

(** *** the schema loops on a script of tables with attributes *)
Definition tbl_expected_x (pcs pco : option str) (ps : script (A:=table_x)) : list schange :=
  flat_map (fun p => match snd p with
    | None => add_or_skip_s skip [DropTable (tx_name (fst p))]
    | Some t2 => match table_diff_x D TA skip pcs pco (fst p) t2 with
                 | Some ((_ :: _) as ch) => add_or_skip_s skip [ModifyTable (tx_name t2) ch]
                 | _ => []
                 end
    end) ps.

Lemma schema_diff_from_x_exact pcs pco to ps adds :
  script_ok tx_name ps adds -> Permutation to (kept ps ++ adds) ->
  (forall t t', In (t, Some t') ps -> table_diff_x D TA skip pcs pco t t' <> None) ->
  forall ps', incl ps' ps ->
  schema_diff_from_x D TA skip pcs pco to (map fst ps') = Some (tbl_expected_x pcs pco ps').
Proof.
  intros OK P NE. induction ps' as [|[c o] ps' IH]; intros Hincl; [reflexivity|].
  assert (Hin : In (c, o) ps) by (apply Hincl; left; reflexivity).
  assert (Hincl' : incl ps' ps) by (intros x Hx; apply Hincl; right; exact Hx).
  cbn [map fst schema_diff_from_x].
  change (find_table_x (tx_name c) to) with (kfind tx_name (tx_name c) to).
  rewrite (script_find_to tx_name ps adds to c o OK P Hin).
  rewrite (IH Hincl'). unfold tbl_expected_x. cbn [flat_map snd fst].
  destruct o as [c'|]; [|reflexivity].
  destruct (table_diff_x D TA skip pcs pco c c') as [ch|] eqn:E; [|exfalso; exact (NE c c' Hin E)].
  destruct ch; reflexivity.
Qed.

Theorem schema_diff_tx_exact from to ps adds :
  stx_name from = stx_name to -> stx_tables from = map fst ps -> script_ok tx_name ps adds ->
  Permutation (stx_tables to) (kept ps ++ adds) ->
  (forall t t', In (t, Some t') ps -> table_diff_x D TA skip (stx_charset from) (stx_collate from) t t' <> None) ->
  exists adds', Permutation adds adds' /\
    SchemaDiffX D TA skip from to =
    Some (tbl_expected_x (stx_charset from) (stx_collate from) ps
          ++ add_or_skip_s skip (map (fun t => AddTable (tx_name t)) adds')).
Proof.
  intros Hn Hf OK P NE.
  destruct (script_add_loop tx_name ps adds (stx_tables to) (fun t => AddTable (tx_name t)) OK P) as [adds' [PA EA]].
  exists adds'. split; [exact PA|].
  unfold SchemaDiffX. rewrite Hn, str_eqb_refl. cbn [negb]. rewrite Hf.
  rewrite (schema_diff_from_x_exact _ _ (stx_tables to) ps adds OK P NE ps (incl_refl _)).
  unfold schema_diff_add_x.
  change (fun t1 : table_x => match find_table_x (tx_name t1) (map fst ps) with
                              | Some _ => [] | None => [AddTable (tx_name t1)] end)
    with (fun c1 : table_x => match kfind tx_name (tx_name c1) (map fst ps) with
                              | None => [AddTable (tx_name c1)] | Some _ => [] end).
  rewrite EA. reflexivity.
Qed.

(** *** a schema with a copy of itself *)
Definition wf_schema_tx (dwf : table -> Prop) (s : schema_tx) : Prop :=
  NoDup (map tx_name (stx_tables s)) /\
  forall t, In t (stx_tables s) -> wf_table (tx_table t) /\ dwf (tx_table t).

Theorem schema_diff_tx_self (dwf : table -> Prop) s :
  refl_laws D -> sim_laws D dwf -> ta_refl_law TA -> wf_schema_tx dwf s ->
  SchemaDiffX D TA skip s s = Some [].
Proof.
  intros RL SL AL [ND WF].
  set (ps := map (fun t => (t, Some t)) (stx_tables s)).
  assert (I1 : map fst ps = stx_tables s).
  { unfold ps. rewrite map_map. simpl. apply map_id. }
  assert (I2 : kept ps = stx_tables s).
  { unfold ps. apply kept_idpairs. }
  assert (I3 : forall c o, In (c, o) ps -> o = Some c /\ In c (stx_tables s)).
  { unfold ps. intros c o H. apply in_map_iff in H. destruct H as [x [E Hx]]. inversion E; subst. split; auto. }
  assert (OK : script_ok tx_name ps []).
  { split.
    - rewrite I1. simpl. rewrite app_nil_r. exact ND.
    - intros c c' H. destruct (I3 c (Some c') H) as [E _]. inversion E. reflexivity. }
  assert (TD : forall t t', In (t, Some t') ps ->
               table_diff_x D TA skip (stx_charset s) (stx_collate s) t t' = Some []).
  { intros t t' H. destruct (I3 t (Some t') H) as [E Hc]. inversion E; subst t'.
    destruct (WF t Hc) as [W1 W2].
    apply (table_diff_x_exact _ _ t t [] []).
    - apply AL. repeat split.
    - apply (table_diff_perm D skip dwf RL SL); [exact W1|exact W2|apply table_perm_refl]. }
  destruct (schema_diff_tx_exact s s ps [] eq_refl (eq_sym I1) OK) as [adds' [PA E]].
  - rewrite I2, app_nil_r. apply Permutation_refl.
  - intros t t' H. rewrite (TD t t' H). discriminate.
  - apply Permutation_nil in PA. subst adds'. rewrite E. simpl. rewrite app_nil_r. f_equal.
    unfold tbl_expected_x. apply flat_map_nil. intros [c o] H. simpl.
    destruct (I3 c o H) as [-> _]. rewrite (TD c c H). reflexivity.
Qed.

End TableXGeneric.
