(** The laws the generic theorems need, proved for the SQLite driver, and the
    ChangeKind bits of the SQLite ColumnChange per attribute edit. *)
From Coq Require Import List NArith Bool Arith Lia Permutation.
From Atlas Require Import Base.Bytes Diff.Schema Diff.DiffModel Diff.DiffSqlite Diff.DiffProofs.
Import ListNotations.

Lemma sqlite_refl_laws : refl_laws sqlite_driver.
Proof.
  constructor; simpl.
  - intros i. unfold sqlite_index_attr_changed. rewrite eqb_reflx, str_eqb_refl. reflexivity.
  - reflexivity.
  - intros a. unfold sqlite_reference_changed. rewrite str_eqb_refl. reflexivity.
  - reflexivity.
Qed.

(** what SQLite's Normalize must not touch *)
Definition fk_stable (n1 n2 : str) (fromfks tofks : list fkey) : Prop :=
  forall fk1 fk2, In fk1 fromfks -> In fk2 tofks -> same_fk n1 n2 fk1 fk2 = true -> f_symbol fk2 = f_symbol fk1.

Definition idx_norm_stable (l : list index) : Prop :=
  forall i, In i l -> has_prefix SQLITE_AUTOINDEX (i_name i) = None \/ i_origin i = Some ORIGIN_P.

Definition sqlite_dwf (t : table) : Prop :=
  (forall c, In c (t_cols t) -> c_class c <> 0%N) /\
  named_unique (t_checks t) /\
  fk_stable (t_name t) (t_name t) (t_fks t) (t_fks t) /\
  idx_norm_stable (t_idx t).

Lemma set_f_symbol_id f : set_f_symbol f (f_symbol f) = f.
Proof. destruct f; reflexivity. Qed.
Lemma set_t_fks_id t : set_t_fks t (t_fks t) = t.
Proof. destruct t; reflexivity. Qed.
Lemma set_t_idx_id t : set_t_idx t (t_idx t) = t.
Proof. destruct t; reflexivity. Qed.

Lemma normalize_fk_inner_stable n1 n2 fk1 tofks used :
  (forall fk2, In fk2 tofks -> same_fk n1 n2 fk1 fk2 = true -> f_symbol fk2 = f_symbol fk1) ->
  fst (normalize_fk_inner n1 n2 fk1 tofks used) = fk1.
Proof.
  revert used. induction tofks as [|fk2 l IH]; intros used H; simpl; [destruct used; reflexivity|].
  destruct used as [|u used]; [reflexivity|].
  assert (H' : forall fk2, In fk2 l -> same_fk n1 n2 fk1 fk2 = true -> f_symbol fk2 = f_symbol fk1)
    by (intros x Hx; apply H; right; exact Hx).
  destruct u.
  - specialize (IH used H'). destruct (normalize_fk_inner n1 n2 fk1 l used). exact IH.
  - destruct ((str_eqb (f_symbol fk2) (f_symbol fk1) && negb (is_uint (f_symbol fk1))) || same_fk n1 n2 fk1 fk2) eqn:M.
    + assert (E : f_symbol fk2 = f_symbol fk1).
      { apply orb_true_iff in M. destruct M as [M|M].
        - apply andb_true_iff in M. destruct M as [M _]. apply str_eqb_eq. exact M.
        - apply H; [left; reflexivity|exact M]. }
      rewrite E, set_f_symbol_id. reflexivity.
    + specialize (IH used H'). destruct (normalize_fk_inner n1 n2 fk1 l used). exact IH.
Qed.

Lemma normalize_fks_stable n1 n2 tofks fromfks used :
  fk_stable n1 n2 fromfks tofks -> normalize_fks n1 n2 fromfks tofks used = fromfks.
Proof.
  revert used. induction fromfks as [|fk1 l IH]; intros used H; simpl; [reflexivity|].
  pose proof (normalize_fk_inner_stable n1 n2 fk1 tofks used
                (fun fk2 H2 => H fk1 fk2 (or_introl eq_refl) H2)) as X.
  destruct (normalize_fk_inner n1 n2 fk1 tofks used) as [fk1' used']. simpl in X. subst fk1'.
  f_equal. apply IH. intros a b Ha Hb. apply H; [right; exact Ha|exact Hb].
Qed.

Lemma normalize_idx_name_stable i t :
  has_prefix SQLITE_AUTOINDEX (i_name i) = None \/ i_origin i = Some ORIGIN_P ->
  normalize_idx_name i t = Some i.
Proof.
  intros [H|H]; unfold normalize_idx_name.
  - rewrite H. reflexivity.
  - destruct (has_prefix SQLITE_AUTOINDEX (i_name i)); [|reflexivity]. rewrite H. reflexivity.
Qed.

Lemma normalize_idxs_stable t l : idx_norm_stable l -> normalize_idxs t l = Some l.
Proof.
  induction l as [|i l IH]; intros H; simpl; [reflexivity|].
  rewrite (normalize_idx_name_stable i t (H i (or_introl eq_refl))).
  rewrite IH; [reflexivity|]. intros x Hx. apply H. right; exact Hx.
Qed.

(** Normalize is the identity on a pair whose FK shapes and index names are stable *)
Lemma sqlite_normalize_stable from to :
  fk_stable (t_name from) (t_name to) (t_fks from) (t_fks to) -> idx_norm_stable (t_idx to) ->
  sqlite_normalize from to = Some (from, to).
Proof.
  intros H1 H2. unfold sqlite_normalize.
  rewrite (normalize_fks_stable _ _ _ _ _ H1), (normalize_idxs_stable to _ H2).
  rewrite set_t_fks_id, set_t_idx_id. reflexivity.
Qed.

Lemma sqlite_column_change_refl t c : c_class c <> 0%N -> sqlite_column_change t c c = Some 0%N.
Proof.
  intros H. unfold sqlite_column_change, sqlite_type_changed.
  apply N.eqb_neq in H. rewrite H. simpl.
  assert (TD : (if N.eqb (c_class c) UDT_CLASS
                then Some (negb (N.eqb (c_class c) UDT_CLASS) || negb (str_eqb (c_T c) (c_T c)))
                else Some (negb (N.eqb (c_class c) (c_class c)))) = Some false).
  { destruct (N.eqb (c_class c) UDT_CLASS) eqn:E.
    - rewrite str_eqb_refl. reflexivity.
    - rewrite N.eqb_refl. reflexivity. }
  rewrite TD. rewrite eqb_reflx.
  assert (DD : sqlite_default_changed c c = false).
  { unfold sqlite_default_changed. destruct (default_value c); [rewrite str_eqb_refl|]; reflexivity. }
  assert (GD : sqlite_generated_changed c c = false).
  { unfold sqlite_generated_changed. destruct (c_gen c) as [[x ty]|]; [rewrite !str_eqb_refl|]; reflexivity. }
  rewrite DD, GD. reflexivity.
Qed.

Lemma check_compare_none_refl c : check_compare None c c = true.
Proof. unfold check_compare. rewrite str_eqb_refl. reflexivity. Qed.

Lemma named_unique_perm l l' : Permutation l l' -> named_unique l -> named_unique l'.
Proof.
  intros P H c c' H1 H2. apply H; eapply Permutation_in; try apply Permutation_sym; eauto.
Qed.

Lemma sqlite_sim_laws : sim_laws sqlite_driver sqlite_dwf.
Proof.
  constructor; simpl.
  - intros t c [H _] Hc. apply sqlite_column_change_refl. apply H. exact Hc.
  - intros t t' [_ [NU _]] [_ [Hw [Hs [_ [_ [_ [_ Pk]]]]]]].
    unfold sqlite_table_attr_diff. rewrite <- Hw, <- Hs.
    rewrite (checks_diff_sim (check_compare None) (t_checks t) (t_checks t')).
    + destruct (t_without_rowid t), (t_strict t); reflexivity.
    + apply check_compare_none_refl.
    + eapply named_unique_perm; eauto.
    + intros x Hx. eapply Permutation_in; eauto.
    + intros x Hx. eapply Permutation_in; [apply Permutation_sym|]; eauto.
  - intros t t' [_ [_ [FS IS]]] [Hn [_ [_ [_ [_ [Pi [Pf _]]]]]]].
    apply sqlite_normalize_stable.
    + rewrite <- Hn. intros a b Ha Hb. apply FS; [exact Ha|].
      eapply Permutation_in; [apply Permutation_sym|]; eauto.
    + intros i Hi. apply IS. eapply Permutation_in; [apply Permutation_sym|]; eauto.
Qed.

(** ** ChangeKind bits of ColumnChange, one catalogue attribute at a time *)
Definition with_null (c : column) (b : bool) : column :=
  mkColumn (c_name c) (c_class c) (c_T c) b (c_default c) (c_gen c) (c_comment c).
Definition with_type (c : column) (k : N) (T : str) : column :=
  mkColumn (c_name c) k T (c_null c) (c_default c) (c_gen c) (c_comment c).
Definition with_default (c : column) (d : option dflt) : column :=
  mkColumn (c_name c) (c_class c) (c_T c) (c_null c) d (c_gen c) (c_comment c).
Definition with_gen (c : column) (g : option (str * str)) : column :=
  mkColumn (c_name c) (c_class c) (c_T c) (c_null c) (c_default c) g (c_comment c).
Definition with_comment (c : column) (x : option str) : column :=
  mkColumn (c_name c) (c_class c) (c_T c) (c_null c) (c_default c) (c_gen c) x.

(** the exact bit set, for all pairs of typed columns *)
Lemma sqlite_column_bits t c c' tc :
  sqlite_type_changed c c' = Some tc ->
  sqlite_column_change t c c' =
  Some (N.lor (N.lor (N.lor (bit (negb (Bool.eqb (c_null c) (c_null c'))) ChangeNull) (bit tc ChangeType))
                     (bit (sqlite_default_changed c c') ChangeDefault))
              (bit (sqlite_generated_changed c c') ChangeGenerated)).
Proof. intros H. unfold sqlite_column_change. rewrite H. reflexivity. Qed.

Lemma type_same c c' :
  c_class c <> 0%N -> c_class c' = c_class c -> c_T c' = c_T c -> sqlite_type_changed c c' = Some false.
Proof.
  intros H E1 E2. unfold sqlite_type_changed. rewrite E1, E2. apply N.eqb_neq in H. rewrite H. simpl.
  destruct (N.eqb (c_class c) UDT_CLASS); [rewrite str_eqb_refl|rewrite N.eqb_refl]; reflexivity.
Qed.
Lemma default_same c c' : c_default c' = c_default c -> sqlite_default_changed c c' = false.
Proof.
  intros E. unfold sqlite_default_changed, default_value. rewrite E.
  destruct (c_default c) as [[v|x]|]; [rewrite str_eqb_refl| rewrite str_eqb_refl|]; reflexivity.
Qed.
Lemma gen_same c c' : c_gen c' = c_gen c -> sqlite_generated_changed c c' = false.
Proof.
  intros E. unfold sqlite_generated_changed. rewrite E.
  destruct (c_gen c) as [[x ty]|]; [rewrite !str_eqb_refl|]; reflexivity.
Qed.

Lemma sqlite_edit_null t c :
  c_class c <> 0%N -> sqlite_column_change t c (with_null c (negb (c_null c))) = Some ChangeNull.
Proof.
  intros H. rewrite (sqlite_column_bits t c _ false); [|apply type_same; auto].
  rewrite default_same, gen_same by reflexivity. simpl. destruct (c_null c); reflexivity.
Qed.

Lemma sqlite_edit_class t c k T :
  c_class c <> 0%N -> k <> 0%N -> k <> c_class c ->
  sqlite_column_change t c (with_type c k T) = Some ChangeType.
Proof.
  intros H Hk Hd.
  assert (TC : sqlite_type_changed c (with_type c k T) = Some true).
  { unfold sqlite_type_changed. simpl. apply N.eqb_neq in H, Hk. rewrite H, Hk. simpl.
    destruct (N.eqb (c_class c) UDT_CLASS) eqn:E.
    - apply N.eqb_eq in E. assert (N.eqb k UDT_CLASS = false) as -> by (apply N.eqb_neq; congruence). reflexivity.
    - assert (N.eqb (c_class c) k = false) as -> by (apply N.eqb_neq; congruence). reflexivity. }
  rewrite (sqlite_column_bits t c _ true TC).
  rewrite default_same, gen_same by reflexivity. simpl. rewrite eqb_reflx. reflexivity.
Qed.

Lemma sqlite_edit_udt_name t c T :
  c_class c = UDT_CLASS -> T <> c_T c ->
  sqlite_column_change t c (with_type c UDT_CLASS T) = Some ChangeType.
Proof.
  intros H Hd.
  assert (TC : sqlite_type_changed c (with_type c UDT_CLASS T) = Some true).
  { unfold sqlite_type_changed. simpl. rewrite H. simpl.
    assert (str_eqb (c_T c) T = false) as -> by (apply str_eqb_neq; congruence). reflexivity. }
  rewrite (sqlite_column_bits t c _ true TC).
  rewrite default_same, gen_same by reflexivity. simpl. rewrite eqb_reflx. reflexivity.
Qed.

Lemma sqlite_edit_default t c d :
  c_class c <> 0%N -> sqlite_default_changed c (with_default c d) = true ->
  sqlite_column_change t c (with_default c d) = Some ChangeDefault.
Proof.
  intros H Hd. rewrite (sqlite_column_bits t c _ false); [|apply type_same; auto].
  rewrite Hd, gen_same by reflexivity. simpl. rewrite eqb_reflx. reflexivity.
Qed.

Lemma sqlite_edit_gen t c g :
  c_class c <> 0%N -> sqlite_generated_changed c (with_gen c g) = true ->
  sqlite_column_change t c (with_gen c g) = Some ChangeGenerated.
Proof.
  intros H Hd. rewrite (sqlite_column_bits t c _ false); [|apply type_same; auto].
  rewrite Hd, default_same by reflexivity. simpl. rewrite eqb_reflx. reflexivity.
Qed.

Lemma sqlite_edit_comment t c x :
  c_class c <> 0%N -> sqlite_column_change t c (with_comment c x) = Some 0%N.
Proof.
  intros H. rewrite (sqlite_column_bits t c _ false); [|apply type_same; auto].
  rewrite default_same, gen_same by reflexivity. simpl. rewrite eqb_reflx. reflexivity.
Qed.

(** edits of several attributes at once: the bits add up (null + type class + default + generated) *)
Lemma sqlite_edit_all t c k T d g :
  c_class c <> 0%N -> k <> 0%N -> k <> c_class c ->
  sqlite_default_changed c (with_default c d) = true ->
  sqlite_generated_changed c (with_gen c g) = true ->
  sqlite_column_change t c (mkColumn (c_name c) k T (negb (c_null c)) d g (c_comment c))
  = Some (N.lor (N.lor (N.lor ChangeNull ChangeType) ChangeDefault) ChangeGenerated).
Proof.
  intros H Hk Hd HD HG.
  assert (TC : sqlite_type_changed c (mkColumn (c_name c) k T (negb (c_null c)) d g (c_comment c)) = Some true).
  { unfold sqlite_type_changed. simpl. apply N.eqb_neq in H, Hk. rewrite H, Hk. simpl.
    destruct (N.eqb (c_class c) UDT_CLASS) eqn:E.
    - apply N.eqb_eq in E. assert (N.eqb k UDT_CLASS = false) as -> by (apply N.eqb_neq; congruence). reflexivity.
    - assert (N.eqb (c_class c) k = false) as -> by (apply N.eqb_neq; congruence). reflexivity. }
  rewrite (sqlite_column_bits t c _ true TC).
  change (sqlite_default_changed c (mkColumn (c_name c) k T (negb (c_null c)) d g (c_comment c)))
    with (sqlite_default_changed c (with_default c d)).
  change (sqlite_generated_changed c (mkColumn (c_name c) k T (negb (c_null c)) d g (c_comment c)))
    with (sqlite_generated_changed c (with_gen c g)).
  rewrite HD, HG. simpl. destruct (c_null c); reflexivity.
Qed.

(** ** tableDiff of the SQLite differ on independent scripts *)
Definition attr_flag (a : N) (f t : bool) : list change :=
  if f && negb t then [DropAttr a] else if negb f && t then [AddAttr a] else [].

Lemma sqlite_column_change_typed t c c' :
  c_class c <> 0%N -> c_class c' <> 0%N -> sqlite_column_change t c c' <> None.
Proof.
  intros H1 H2. unfold sqlite_column_change, sqlite_type_changed.
  apply N.eqb_neq in H1, H2. rewrite H1, H2. simpl.
  destruct (N.eqb (c_class c) UDT_CLASS); discriminate.
Qed.

Theorem sqlite_table_diff_exact skip from to cps cadds ips iadds fps fadds kps kadds :
  let from1 := set_t_name from (t_name to) in
  (* Normalize leaves both tables alone *)
  fk_stable (t_name to) (t_name to) (t_fks from) (t_fks to) -> idx_norm_stable (t_idx to) ->
  (* columns *)
  t_cols from = map fst cps -> script_ok c_name cps cadds ->
  Permutation (t_cols to) (kept cps ++ cadds) ->
  (forall c c', In (c, Some c') cps -> c_class c <> 0%N /\ c_class c' <> 0%N) ->
  (* indexes *)
  t_idx from = map fst ips -> script_ok i_name ips iadds ->
  Permutation (t_idx to) (kept ips ++ iadds) ->
  (forall c, In (c, None) ips -> sqlite_is_generated_index_name from1 c = false \/ similar_unnamed_index sqlite_driver to c = None) ->
  (* foreign keys *)
  t_fks from = map fst fps -> script_ok f_symbol fps fadds ->
  Permutation (t_fks to) (kept fps ++ fadds) ->
  (* checks: matched by the script only *)
  t_checks from = map fst kps -> Permutation (t_checks to) (kept kps ++ kadds) ->
  (forall c o, In (c, o) kps -> forall c2, In c2 (t_checks to) ->
     check_compare_to (check_compare None) c c2 = true -> o = Some c2) ->
  (forall c c2, In (c, Some c2) kps -> check_compare_to (check_compare None) c c2 = true) ->
  (forall c2, In c2 (kept kps) -> existsb (check_compare_to (check_compare None) c2) (map fst kps) = true) ->
  (forall a, In a kadds -> existsb (check_compare_to (check_compare None) a) (map fst kps) = false) ->
  exists cadds' iadds' fadds' kadds',
    Permutation cadds cadds' /\ Permutation iadds iadds' /\ Permutation fadds fadds' /\ Permutation kadds kadds' /\
    table_diff sqlite_driver skip from to =
    Some ((attr_flag ATTR_WITHOUT_ROWID (t_without_rowid from) (t_without_rowid to)
           ++ attr_flag ATTR_STRICT (t_strict from) (t_strict to)
           ++ chk_expected (check_compare None) kps ++ map (fun c => AddCheck (k_name c) (k_expr c)) kadds')
          ++ add_or_skip skip (col_expected sqlite_driver from1 cps ++ map (fun c => AddColumn (c_name c)) cadds')
          ++ pk_diff sqlite_driver skip from1 to
          ++ add_or_skip skip (idx_expected sqlite_driver ips ++ map (fun i => AddIndex (i_name i)) iadds')
          ++ add_or_skip skip (fk_expected sqlite_driver fps ++ map (fun f => AddForeignKey (f_symbol f)) fadds')).
Proof.
  intros from1 FS IS C1 C2 C3 C4 I1 I2 I3 I4 F1 F2 F3 K1 K2 K3 K4 K5 K6.
  destruct (checks_diff_exact (check_compare None) (t_checks from) (t_checks to) kps kadds K1 K2 K3 K4 K5 K6)
    as [ka [PK EK]].
  destruct (table_diff_exact sqlite_driver skip from to
              (attr_flag ATTR_WITHOUT_ROWID (t_without_rowid from) (t_without_rowid to)
               ++ attr_flag ATTR_STRICT (t_strict from) (t_strict to)
               ++ chk_expected (check_compare None) kps ++ map (fun c => AddCheck (k_name c) (k_expr c)) ka)
              cps cadds ips iadds fps fadds) as [ca [ia [fa [PC [PI [PF E]]]]]]; auto.
  - simpl. apply sqlite_normalize_stable; simpl; assumption.
  - simpl. unfold sqlite_table_attr_diff. simpl. rewrite EK. reflexivity.
  - intros c c' H. simpl. destruct (C4 c c' H). apply sqlite_column_change_typed; assumption.
  - exists ca, ia, fa, ka. repeat split; auto.
Qed.

(** ** witnesses: where "the diff of a schema with itself is empty" fails *)
Definition s_of (x : list N) : str := x.
Definition w_col : column := mkColumn [99]%N 2 [105;110;116]%N false None None None.
Definition w_autoindex : index :=
  mkIndex (SQLITE_AUTOINDEX ++ [95;116;95;49])%N true [mkPart 1 false (Some [99]%N) None] None None (Some [117]%N).
Definition w_table1 : table := mkTable [116]%N false false [w_col] None [w_autoindex] [] [].
Definition w_schema1 : schema := mkSchema [109]%N [w_table1].

Definition w_fk (sym : N) : fkey := mkFk [sym] [[99]%N] [116]%N [[99]%N] [] [].
Definition w_table2 : table := mkTable [116]%N false false [w_col] None [] [w_fk 97; w_fk 98] [].
Definition w_schema2 : schema := mkSchema [109]%N [w_table2].

Lemma w_table1_wf : wf_table w_table1.
Proof.
  constructor; simpl.
  - repeat constructor; simpl; tauto.
  - repeat constructor; simpl; tauto.
  - intros i [<-|[]]. constructor; [left; discriminate|constructor].
  - discriminate.
  - constructor.
Qed.

Lemma w_table2_wf : wf_table w_table2.
Proof.
  constructor; simpl.
  - repeat constructor; simpl; tauto.
  - constructor.
  - intros i [].
  - discriminate.
  - repeat constructor; simpl; intuition discriminate.
Qed.

(** since the fixes of FindGeneratedIndex (99ad7b6) and Normalize (5832478) both are empty *)
Lemma w_schema1_diff : SchemaDiff sqlite_driver no_skip w_schema1 w_schema1 = Some [].
Proof. vm_compute. reflexivity. Qed.

Lemma w_schema2_diff : SchemaDiff sqlite_driver no_skip w_schema2 w_schema2 = Some [].
Proof. vm_compute. reflexivity. Qed.

(** what still fails.  Witness 6: the autoindex of a UNIQUE column next to a user index that
    already carries the normalized name t_c: after Normalize the desired side has two indexes
    called t_c, and the user's one is compared with the renamed (unique) autoindex. *)
Definition w_user_idx : index := mkIndex [116;95;99]%N false [mkPart 1 false (Some [99]%N) None] None None None.
Definition w_table6 : table := mkTable [116]%N false false [w_col] None [w_autoindex; w_user_idx] [] [].
Definition w_schema6 : schema := mkSchema [109]%N [w_table6].

Lemma w_table6_wf : wf_table w_table6.
Proof.
  constructor; simpl.
  - repeat constructor; simpl; tauto.
  - repeat constructor; simpl; intuition discriminate.
  - intros i [<-|[<-|[]]]; (constructor; [left; discriminate|constructor]).
  - discriminate.
  - constructor.
Qed.

Lemma w_schema6_diff :
  SchemaDiff sqlite_driver no_skip w_schema6 w_schema6 =
  Some [ModifyTable [116]%N [ModifyIndex [116;95;99]%N ChangeUnique]].
Proof. vm_compute. reflexivity. Qed.

(** Witness 3: two foreign keys of the same shape with different ON DELETE, listed in the
    other order: Normalize pairs a with b (first unused match by shape). *)
Definition w_fk_act (sym : N) (act : str) : fkey := mkFk [sym] [[99]%N] [116]%N [[99]%N] [] act.
Definition CASCADE : str := [67;65;83;67;65;68;69]%N.
Definition SET_NULL : str := [83;69;84;32;78;85;76;76]%N.
Definition w_table3 : table := mkTable [116]%N false false [w_col] None [] [w_fk_act 97 CASCADE; w_fk_act 98 SET_NULL] [].
Definition w_table3p : table := mkTable [116]%N false false [w_col] None [] [w_fk_act 98 SET_NULL; w_fk_act 97 CASCADE] [].
Definition w_schema3 : schema := mkSchema [109]%N [w_table3].
Definition w_schema3p : schema := mkSchema [109]%N [w_table3p].

Lemma w_table3_wf : wf_table w_table3.
Proof.
  constructor; simpl.
  - repeat constructor; simpl; tauto.
  - constructor.
  - intros i [].
  - discriminate.
  - repeat constructor; simpl; intuition discriminate.
Qed.

Lemma w_schema3_perm : schema_perm w_schema3 w_schema3p.
Proof.
  split; [reflexivity|]. exists [w_table3p]. split; [|apply Permutation_refl].
  constructor; [|constructor]. repeat split; try apply Permutation_refl. simpl. apply perm_swap.
Qed.

Lemma w_schema3_diff :
  SchemaDiff sqlite_driver no_skip w_schema3 w_schema3p =
  Some [ModifyTable [116]%N [ModifyForeignKey [98]%N ChangeDeleteAction; ModifyForeignKey [97]%N ChangeDeleteAction]].
Proof. vm_compute. reflexivity. Qed.
