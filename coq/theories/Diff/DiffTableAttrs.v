(** M-SCHEMA (C02), round 5: table attributes of the MySQL and PostgreSQL differs.

    [Diff/Schema.v: table] (shared with other properties) has no field for them, so they ride in
    a wrapper [table_x] around [table]; [schema_tx] carries the schema's charset / collation,
    which MySQL's TableAttrDiff reads as the inherited ("top") attributes ([from.Schema.Attrs]).

      sql/mysql/diff_oss.go: TableAttrDiff = autoIncChange, sqlx.CommentDiff, charsetChange,
        collationChange, engineChange, systemVerChange, then the checks (DiffDialects.v /
        DiffMysqlVariants.v: mysql_table_attr_diff_v, unchanged)
      sql/postgres/diff_oss.go: TableAttrDiff = sqlx.CommentDiff, partitionChanged (an error
        when the partition key differs), tableAttrDiff (nothing in the community build), checks

    The generic part repeats the two table loops of Diff.schemaDiff over [table_x] ([tableDiff]
    itself is DiffModel.v's, the attribute changes are put in front of its list, where
    TableAttrDiff's result goes).  ENFORCED / NO INHERIT of checks stay outside (the model's
    [check] has no flag).  The partition key is compared as the text formatPartition prints
    (harness projection).  No proofs in this file. *)
From Coq Require Import List NArith Bool Arith.
From Atlas Require Import Base.Bytes Diff.Schema Diff.DiffModel Diff.DiffSqlite Diff.DiffDialects
  Diff.DiffMysqlVariants Diff.DiffRealm.
Import ListNotations.

Record table_x := mkTableX {
  tx_table     : table;
  tx_comment   : option str;            (* schema.Comment.Text *)
  tx_charset   : option str;            (* schema.Charset.V *)
  tx_collate   : option str;            (* schema.Collation.V *)
  tx_engine    : option (str * bool);   (* mysql.Engine{V, Default} *)
  tx_autoinc   : option N;              (* mysql.AutoIncrement.V (>= 0) *)
  tx_sysver    : bool;                  (* mysql.SystemVersioned *)
  tx_partition : option str             (* postgres.Partition, as formatPartition prints it *)
}.
Definition tx_name (t : table_x) : str := t_name (tx_table t).

Record schema_tx := mkSchemaTX {
  stx_name    : str;
  stx_charset : option str;
  stx_collate : option str;
  stx_tables  : list table_x
}.

Definition ATTR_ENGINE : N := 6.
Definition ATTR_AUTOINC : N := 7.
Definition ATTR_SYSVER : N := 8.

(** the projection of AddAttr / ModifyAttr the table-level change list carries (no values) *)
Definition sattr_change (c : sattr) : change :=
  match c with SAddAttr a _ => AddAttr a | SModifyAttr a _ _ => ModifyAttr a end.

(** mysql: [autoIncChange] *)
Definition mysql_autoinc_change (from to : option N) : list change :=
  match from, to with
  | Some _, None => []
  | _, _ =>
      let f := match from with Some v => v | None => 0%N end in
      let t := match to with Some v => v | None => 0%N end in
      if N.ltb 1 t && N.ltb f t then [ModifyAttr ATTR_AUTOINC] else []
  end.

Definition INNODB_LOWER : str := [105;110;110;111;100;98]%N.

(** mysql: [engineChange] *)
Definition mysql_engine_change (from to : option (str * bool)) : list change :=
  match from, to with
  | Some (fv, fd), Some (tv, _) =>
      if negb (str_eqb (to_lower fv) (to_lower tv)) then [ModifyAttr ATTR_ENGINE] else []
  | Some (fv, fd), None =>
      if negb fd && negb (str_eqb (to_lower fv) INNODB_LOWER) then [ModifyAttr ATTR_ENGINE] else []
  | None, Some (tv, td) =>
      (* strings.ToLower(fromE.V) != "innodb" with the zero fromE: always true *)
      if negb td && negb (str_eqb (to_lower []) INNODB_LOWER) then [ModifyAttr ATTR_ENGINE] else []
  | None, None => []
  end.

(** mysql: [systemVerChange] *)
Definition mysql_sysver_change (from to : bool) : list change :=
  if from && negb to then [DropAttr ATTR_SYSVER]
  else if negb from && to then [AddAttr ATTR_SYSVER] else [].

(** mysql: the attribute part of [TableAttrDiff] (before the checks); [pcs], [pco] =
    from.Schema.Attrs *)
Definition mysql_table_attrs_x (pcs pco : option str) (from to : table_x) : option (list change) :=
  Some (mysql_autoinc_change (tx_autoinc from) (tx_autoinc to)
        ++ map sattr_change (comment_diff (tx_comment from) (tx_comment to))
        ++ map sattr_change (mysql_attr_change ATTR_CHARSET (tx_charset from) pcs (tx_charset to))
        ++ map sattr_change (mysql_attr_change ATTR_COLLATE (tx_collate from) pco (tx_collate to))
        ++ mysql_engine_change (tx_engine from) (tx_engine to)
        ++ mysql_sysver_change (tx_sysver from) (tx_sysver to)).

(** postgres: [partitionChanged] = an error *)
Definition pg_partition_changed (from to : option str) : bool :=
  match from, to with
  | None, None => false
  | Some a, Some b => negb (str_eqb a b)
  | _, _ => true
  end.

(** postgres: the attribute part of [TableAttrDiff] *)
Definition pg_table_attrs_x (_ _ : option str) (from to : table_x) : option (list change) :=
  if pg_partition_changed (tx_partition from) (tx_partition to) then None
  else Some (map sattr_change (comment_diff (tx_comment from) (tx_comment to))).

Section TableX.
Variable D : DiffDriver.
Variable TA : option str -> option str -> table_x -> table_x -> option (list change).
Variable skip : tag -> bool.

(** [Diff.tableDiff] with the attribute part of TableAttrDiff in front *)
Definition table_diff_x (pcs pco : option str) (from to : table_x) : option (list change) :=
  match TA pcs pco from to, table_diff D skip (tx_table from) (tx_table to) with
  | Some a, Some r => Some (a ++ r)
  | _, _ => None
  end.

Definition TableDiffX (pcs pco : option str) (from to : table_x) : option (list change) :=
  if negb (str_eqb (tx_name from) (tx_name to)) then None else table_diff_x pcs pco from to.

Definition find_table_x (n : str) (l : list table_x) : option table_x :=
  find (fun t => str_eqb (tx_name t) n) l.

(** the table loops of [Diff.schemaDiff] over [table_x] *)
Fixpoint schema_diff_from_x (pcs pco : option str) (to : list table_x) (l : list table_x) : option (list schange) :=
  match l with
  | [] => Some []
  | t1 :: l' =>
      match find_table_x (tx_name t1) to with
      | None =>
          match schema_diff_from_x pcs pco to l' with
          | Some r => Some (add_or_skip_s skip [DropTable (tx_name t1)] ++ r) | None => None end
      | Some t2 =>
          match table_diff_x pcs pco t1 t2 with
          | None => None
          | Some ch =>
              match schema_diff_from_x pcs pco to l' with
              | Some r => Some ((match ch with
                                 | [] => []
                                 | _ :: _ => add_or_skip_s skip [ModifyTable (tx_name t2) ch]
                                 end) ++ r)
              | None => None
              end
          end
      end
  end.

Definition schema_diff_add_x (from to : list table_x) : list schange :=
  add_or_skip_s skip (flat_map (fun t1 =>
    match find_table_x (tx_name t1) from with
    | None => [AddTable (tx_name t1)]
    | Some _ => []
    end) to).

(** [Diff.SchemaDiff]; the inherited attributes are those of [from] (from.Schema.Attrs) *)
Definition SchemaDiffX (from to : schema_tx) : option (list schange) :=
  if negb (str_eqb (stx_name from) (stx_name to)) then None
  else match schema_diff_from_x (stx_charset from) (stx_collate from) (stx_tables to) (stx_tables from) with
       | None => None
       | Some r => Some (r ++ schema_diff_add_x (stx_tables from) (stx_tables to))
       end.

End TableX.

Definition mysql_schema_diff_tx (v : mysql_variant) := SchemaDiffX (mysql_driver_v v) mysql_table_attrs_x.
Definition mysql_table_diff_tx (v : mysql_variant) := TableDiffX (mysql_driver_v v) mysql_table_attrs_x.
Definition pg_schema_diff_tx (ns : str) := SchemaDiffX (pg_driver_ns ns) pg_table_attrs_x.
Definition pg_table_diff_tx (ns : str) := TableDiffX (pg_driver_ns ns) pg_table_attrs_x.
