(** M-SCHEMA (C02): the generic differ of sql/internal/sqlx/diff.go, function
    by function (Go names kept), parameterised by a [DiffDriver] record of the
    dialect callbacks and by the skip filter of [schema.DiffOptions]
    (sql/schema/migrate.go: Skipped / AddOrSkip).  Comparison mode: the one the
    CLI uses ([schema.DiffNormalized()], cmdapi_oss.go: diffOptions).

    - [None] = the Go function returns an error;
    - pointers of [to.Indexes] (the keys of the [exists] map of indexDiffT) are
      positions in the list;
    - [sort.Slice] by SeqNo in partsChange is a stable insertion sort (parts of
      one index have distinct SeqNo in every generated case);
    - triggers, views, functions, askForColumns/askForIndexes/fixRenames are
      the no-ops of the community build (sqlx_oss.go) and are left out.

    This file contains no proofs. *)
From Coq Require Import List NArith Bool Arith.
From Atlas Require Import Base.Bytes Diff.Schema.
Import ListNotations.

(** ** changes (sql/schema/migrate.go) -- the projection the property is about:
    kind, object name, ChangeKind bits *)
Inductive change :=
| AddColumn (c : str) | DropColumn (c : str) | ModifyColumn (c : str) (k : N)
| AddIndex (n : str) | DropIndex (n : str) | ModifyIndex (n : str) (k : N)
| AddPrimaryKey | DropPrimaryKey | ModifyPrimaryKey (k : N) | RenameConstraint (a b : str)
| AddForeignKey (s : str) | DropForeignKey (s : str) | ModifyForeignKey (s : str) (k : N)
| AddCheck (n e : str) | DropCheck (n e : str) | ModifyCheck (n e n2 e2 : str)
| AddAttr (a : N) | DropAttr (a : N) | ModifyAttr (a : N).

Inductive schange :=
| AddTable (n : str) | DropTable (n : str) | ModifyTable (n : str) (cs : list change).

(** reflect.TypeOf of a change, as far as [DiffOptions.Skipped] can tell them apart *)
Inductive tag :=
| TgAddTable | TgDropTable | TgModifyTable
| TgAddColumn | TgDropColumn | TgModifyColumn
| TgAddIndex | TgDropIndex | TgModifyIndex
| TgAddForeignKey | TgDropForeignKey | TgModifyForeignKey
| TgRenameConstraint | TgOther.

Definition tag_of (c : change) : tag :=
  match c with
  | AddColumn _ => TgAddColumn | DropColumn _ => TgDropColumn | ModifyColumn _ _ => TgModifyColumn
  | AddIndex _ => TgAddIndex | DropIndex _ => TgDropIndex | ModifyIndex _ _ => TgModifyIndex
  | AddForeignKey _ => TgAddForeignKey | DropForeignKey _ => TgDropForeignKey
  | ModifyForeignKey _ _ => TgModifyForeignKey
  | RenameConstraint _ _ => TgRenameConstraint
  | _ => TgOther
  end.
Definition stag_of (c : schange) : tag :=
  match c with AddTable _ => TgAddTable | DropTable _ => TgDropTable | ModifyTable _ _ => TgModifyTable end.

(** ** dialect callbacks (sqlx.DiffDriver + the optional interfaces the differ probes) *)
Record DiffDriver := mkDriver {
  (* ColumnChange: None = error, Some 0 = NoChange, Some k = ModifyColumn with bits k *)
  dd_column_change : table -> column -> column -> option N;
  dd_index_attr_changed : index -> index -> bool;
  dd_index_part_attr_changed : index -> index -> nat -> bool;
  dd_is_generated_index_name : table -> index -> bool;
  (* FindGeneratedIndex (optional interface): position+index in t.Indexes *)
  dd_find_generated_index : option (table -> index -> option (nat * index));
  dd_reference_changed : str -> str -> bool;
  dd_fk_attr_changed : fkey -> fkey -> bool;
  dd_table_attr_diff : table -> table -> option (list change);
  (* Normalizer (optional interface): rewrites both tables *)
  dd_normalize : table -> table -> option (table * table);
  (* not a ChangeSupporter, or SupportChange(RenameConstraint) *)
  dd_support_rename_constraint : bool
}.

(** ** pieces that do not depend on the driver *)

(** [sqlx.CommentChange] *)
Definition comment_change (a b : option str) : N :=
  bit (negb (Bool.eqb (match a with Some _ => true | None => false end)
                      (match b with Some _ => true | None => false end))
       || negb (str_eqb (match a with Some x => x | None => [] end)
                        (match b with Some x => x | None => [] end))) ChangeComment.

(** the compare function [CheckDiffMode] builds in normalized mode, given the
    driver's optional extra comparison *)
Definition check_compare (extra : option (check -> check -> bool)) (c1 c2 : check) : bool :=
  match extra with
  | Some f => if negb (f c1 c2) then false
              else str_eqb (k_expr c1) (k_expr c2) || str_eqb (may_wrap (k_expr c1)) (may_wrap (k_expr c2))
  | None => str_eqb (k_expr c1) (k_expr c2) || str_eqb (may_wrap (k_expr c1)) (may_wrap (k_expr c2))
  end.

(** [compareTo] of ChecksDiff *)
Definition check_compare_to (compare : check -> check -> bool) (c1 c2 : check) : bool :=
  if negb (str_eqb (k_name c1) []) && negb (str_eqb (k_name c2) [])
  then str_eqb (k_name c1) (k_name c2)
  else compare c1 c2.

(** [sqlx.ChecksDiff] *)
Definition checks_diff (compare : check -> check -> bool) (fromC toC : list check) : list change :=
  flat_map (fun c1 =>
    match find (check_compare_to compare c1) toC with
    | None => [DropCheck (k_name c1) (k_expr c1)]
    | Some c2 => if negb (compare c1 c2)
                 then [ModifyCheck (k_name c1) (k_expr c1) (k_name c2) (k_expr c2)] else []
    end) fromC
  ++
  flat_map (fun c1 =>
    if existsb (check_compare_to compare c1) fromC then [] else [AddCheck (k_name c1) (k_expr c1)]) toC.

(** stable insertion sort by SeqNo *)
Fixpoint insert_part (p : part) (l : list part) : list part :=
  match l with
  | [] => [p]
  | q :: l' => if N.ltb (p_seq p) (p_seq q) then p :: l else q :: insert_part p l'
  end.
Fixpoint sort_parts (l : list part) : list part :=
  match l with [] => [] | p :: l' => insert_part p (sort_parts l') end.

Section Diff.
Variable D : DiffDriver.
Variable skip : tag -> bool.

(** [opts.AddOrSkip(nil, cs...)] *)
Definition add_or_skip (cs : list change) : list change :=
  filter (fun c => negb (skip (tag_of c))) cs.
Definition add_or_skip_s (cs : list schange) : list schange :=
  filter (fun c => negb (skip (stag_of c))) cs.

(** one iteration of the loop of [partsChange] on the sorted parts *)
Definition part_changed (fromI toI : index) (i : nat) (p1 p2 : part) : bool :=
  if negb (Bool.eqb (p_desc p1) (p_desc p2)) || dd_index_part_attr_changed D fromI toI i then true
  else match p_col p1, p_col p2 with
       | Some n1, Some n2 =>
           (* from.C.Name != to.C.Name && renames[from.C.Name] != to.C.Name, renames == nil *)
           negb (str_eqb n1 n2) && negb (str_eqb [] n2)
       | _, _ =>
           match p_expr p1, p_expr p2 with
           | Some x1, Some x2 => negb (str_eqb x1 x2) && negb (str_eqb x1 (may_wrap x2))
           | _, _ => true
           end
       end.

Fixpoint parts_loop (fromI toI : index) (i : nat) (l1 l2 : list part) : bool :=
  match l1, l2 with
  | p1 :: l1', p2 :: l2' => if part_changed fromI toI i p1 p2 then true else parts_loop fromI toI (S i) l1' l2'
  | _, _ => false
  end.

(** [Diff.partsChange(fromI, toI, nil)] *)
Definition parts_change (fromI toI : index) : N :=
  if negb (Nat.eqb (length (i_parts fromI)) (length (i_parts toI))) then ChangeParts
  else bit (parts_loop fromI toI 0 (sort_parts (i_parts fromI)) (sort_parts (i_parts toI))) ChangeParts.

(** [Diff.indexChange] *)
Definition index_change (from to : index) : N :=
  N.lor (N.lor (N.lor (bit (negb (Bool.eqb (i_unique from) (i_unique to))) ChangeUnique)
                      (bit (dd_index_attr_changed D from to) ChangeAttr))
               (parts_change from to))
        (comment_change (i_comment from) (i_comment to)).

(** [Diff.fkChange] *)
Fixpoint names_differ (a b : list str) : bool :=   (* the loop over equal-length name lists *)
  match a, b with
  | x :: a', y :: b' => negb (str_eqb x y) || names_differ a' b'
  | _, _ => false
  end.

Definition fk_change (from to : fkey) : N :=
  let ref :=
    if negb (str_eqb (f_reftable from) (f_reftable to)) then N.lor ChangeRefTable ChangeRefColumn
    else if negb (Nat.eqb (length (f_refcols from)) (length (f_refcols to))) then ChangeRefColumn
    else bit (names_differ (f_refcols from) (f_refcols to)) ChangeRefColumn in
  let cols :=
    if negb (Nat.eqb (length (f_cols from)) (length (f_cols to))) then ChangeColumn
    else bit (names_differ (f_cols from) (f_cols to)) ChangeColumn in
  N.lor (N.lor (N.lor (N.lor ref cols)
    (bit (dd_reference_changed D (f_onupdate from) (f_onupdate to)) ChangeUpdateAction))
    (bit (dd_reference_changed D (f_ondelete from) (f_ondelete to)) ChangeDeleteAction))
    (bit (dd_fk_attr_changed D from to) ChangeAttr).

(** [Diff.columnDiff] *)
Fixpoint column_diff_drop_modify (from to : table) (cs : list column) : option (list change) :=
  match cs with
  | [] => Some []
  | c1 :: cs' =>
      match find_col (c_name c1) (t_cols to) with
      | None =>
          match column_diff_drop_modify from to cs' with
          | Some r => Some (DropColumn (c_name c1) :: r) | None => None end
      | Some c2 =>
          match dd_column_change D from c1 c2 with
          | None => None
          | Some k =>
              match column_diff_drop_modify from to cs' with
              | Some r => Some (if N.eqb k 0 then r else ModifyColumn (c_name c1) k :: r)
              | None => None
              end
          end
      end
  end.

Definition column_diff_add (from to : table) : list change :=
  flat_map (fun c1 => match find_col (c_name c1) (t_cols from) with
                      | None => [AddColumn (c_name c1)] | Some _ => [] end) (t_cols to).

Definition column_diff (from to : table) : option (list change) :=
  match column_diff_drop_modify from to (t_cols from) with
  | None => None
  | Some dm => Some (add_or_skip (dm ++ column_diff_add from to))
  end.

(** [Diff.pkDiff] *)
Definition pk_diff (from to : table) : list change :=
  match t_pk from, t_pk to with
  | None, Some _ => add_or_skip [AddPrimaryKey]
  | Some _, None => add_or_skip [DropPrimaryKey]
  | Some pk1, Some pk2 =>
      let change := N.land (index_change pk1 pk2) (N.lxor 32767 ChangeUnique) in
      if negb (N.eqb change 0) then add_or_skip [ModifyPrimaryKey change]
      else if dd_support_rename_constraint D && negb (str_eqb (i_name pk1) [])
              && negb (str_eqb (i_name pk2) []) && negb (str_eqb (i_name pk1) (i_name pk2))
      then add_or_skip [RenameConstraint (i_name pk1) (i_name pk2)]
      else []
  | None, None => []
  end.

(** [Diff.similarUnnamedIndex]: position in [t.Indexes] of the match *)
Definition idx_match (idx1 idx2 : index) : bool :=
  Bool.eqb (i_unique idx1) (i_unique idx2) && N.eqb (parts_change idx1 idx2) 0.

Fixpoint first_unnamed_match (k : nat) (idx1 : index) (l : list index) : option nat :=
  match l with
  | [] => None
  | idx2 :: l' => if str_eqb (i_name idx2) [] && idx_match idx1 idx2 then Some k
                  else first_unnamed_match (S k) idx1 l'
  end.

Definition similar_unnamed_index (t : table) (idx1 : index) : option nat :=
  let by_driver :=
    match dd_find_generated_index D with
    | Some f => match f t idx1 with
                | Some (k, idx2) => if idx_match idx1 idx2 then Some k else None
                | None => None
                end
    | None => None
    end in
  match by_driver with
  | Some k => Some k
  | None => first_unnamed_match 0 idx1 (t_idx t)
  end.

(** [Diff.indexDiffT], first loop: returns the changes and the [exists] set *)
Fixpoint index_diff_from (from to : table) (l : list index) (exists_ : list nat)
  : list change * list nat :=
  match l with
  | [] => ([], exists_)
  | idx1 :: l' =>
      match find_idx (i_name idx1) (t_idx to) with
      | Some (k, idx2) =>
          let ch := index_change idx1 idx2 in
          let '(r, ex) := index_diff_from from to l' (k :: exists_) in
          ((if N.eqb ch 0 then r else ModifyIndex (i_name idx1) ch :: r), ex)
      | None =>
          let found :=
            if dd_is_generated_index_name D from idx1 then similar_unnamed_index to idx1 else None in
          match found with
          | Some k => index_diff_from from to l' (k :: exists_)
          | None =>
              let '(r, ex) := index_diff_from from to l' exists_ in
              (DropIndex (i_name idx1) :: r, ex)
          end
      end
  end.

Fixpoint index_diff_add (from : table) (k : nat) (l : list index) (exists_ : list nat) : list change :=
  match l with
  | [] => []
  | idx :: l' =>
      (if existsb (Nat.eqb k) exists_ then []
       else match find_idx (i_name idx) (t_idx from) with
            | None => [AddIndex (i_name idx)]
            | Some _ => []
            end) ++ index_diff_add from (S k) l' exists_
  end.

Definition index_diff_t (from to : table) : list change :=
  let '(dm, ex) := index_diff_from from to (t_idx from) [] in
  add_or_skip (dm ++ index_diff_add from 0 (t_idx to) ex).

(** the two foreign-key loops of [Diff.tableDiff] *)
Definition fk_diff (from to : table) : list change :=
  add_or_skip (
    flat_map (fun fk1 =>
      match find_fk (f_symbol fk1) (t_fks to) with
      | None => [DropForeignKey (f_symbol fk1)]
      | Some fk2 => let ch := fk_change fk1 fk2 in
                    if N.eqb ch 0 then [] else [ModifyForeignKey (f_symbol fk1) ch]
      end) (t_fks from)
    ++
    flat_map (fun fk1 =>
      match find_fk (f_symbol fk1) (t_fks from) with
      | None => [AddForeignKey (f_symbol fk1)]
      | Some _ => []
      end) (t_fks to)).

(** [Diff.tableDiff] *)
Definition table_diff (from0 to0 : table) : option (list change) :=
  let from1 := set_t_name from0 (t_name to0) in
  match dd_normalize D from1 to0 with
  | None => None
  | Some (from, to) =>
      match dd_table_attr_diff D from to with
      | None => None
      | Some attrs =>
          match column_diff from to with
          | None => None
          | Some cols =>
              Some (attrs ++ cols ++ pk_diff from to ++ index_diff_t from to ++ fk_diff from to)
          end
      end
  end.

(** [Diff.TableDiff] *)
Definition TableDiff (from to : table) : option (list change) :=
  if negb (str_eqb (t_name from) (t_name to)) then None else table_diff from to.

(** [Diff.schemaDiff] / [Diff.SchemaDiff] (tables only) *)
Fixpoint schema_diff_from (to : schema) (l : list table) : option (list schange) :=
  match l with
  | [] => Some []
  | t1 :: l' =>
      match find_table (t_name t1) (s_tables to) with
      | None =>
          match schema_diff_from to l' with
          | Some r => Some (add_or_skip_s [DropTable (t_name t1)] ++ r) | None => None end
      | Some t2 =>
          match table_diff t1 t2 with
          | None => None
          | Some ch =>
              match schema_diff_from to l' with
              | Some r => Some ((match ch with
                                 | [] => []
                                 | _ :: _ => add_or_skip_s [ModifyTable (t_name t2) ch]
                                 end) ++ r)
              | None => None
              end
          end
      end
  end.

Definition schema_diff_add (from to : schema) : list schange :=
  add_or_skip_s (flat_map (fun t1 =>
    match find_table (t_name t1) (s_tables from) with
    | None => [AddTable (t_name t1)]
    | Some _ => []
    end) (s_tables to)).

Definition SchemaDiff (from to : schema) : option (list schange) :=
  if negb (str_eqb (s_name from) (s_name to)) then None
  else match schema_diff_from to (s_tables from) with
       | None => None
       | Some r => Some (r ++ schema_diff_add from to)
       end.

End Diff.
