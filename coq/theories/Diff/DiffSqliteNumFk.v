(** C02, round 5: SQLite foreign keys with numeric symbols ("0", "1", ...: the ordinals the
    inspector reports for unnamed constraints; sqlx.IsUint) in sql/sqlite/diff.go: Normalize.

    - [normalize_fk_inner_numeric]: a key of the current side whose symbol is numeric is never
      paired by its symbol, only by shape (sameFK): the [!sqlx.IsUint(fk1.Symbol)] guard.
    - the witnesses: a dropped key that is not the last one keeps its ordinal, which after the
      renumbering belongs to another key of the desired side; tableDiff then looks the dropped
      key up by that ordinal and reports ModifyForeignKey instead of DropForeignKey. *)
From Coq Require Import List NArith Bool Arith.
From Atlas Require Import Base.Bytes Diff.Schema Diff.DiffModel Diff.DiffSqlite Diff.DiffProofs.
Import ListNotations.

(** pairing by shape only: the loop of Normalize without the symbol clause *)
Fixpoint normalize_fk_inner_shape (n1 n2 : str) (fk1 : fkey) (tofks : list fkey) (used : list bool)
  : fkey * list bool :=
  match tofks, used with
  | fk2 :: tofks', u :: used' =>
      if u then let '(r, us) := normalize_fk_inner_shape n1 n2 fk1 tofks' used' in (r, u :: us)
      else if same_fk n1 n2 fk1 fk2 then (set_f_symbol fk1 (f_symbol fk2), true :: used')
      else let '(r, us) := normalize_fk_inner_shape n1 n2 fk1 tofks' used' in (r, u :: us)
  | _, _ => (fk1, used)
  end.

Lemma normalize_fk_inner_numeric n1 n2 fk1 tofks used :
  is_uint (f_symbol fk1) = true ->
  normalize_fk_inner n1 n2 fk1 tofks used = normalize_fk_inner_shape n1 n2 fk1 tofks used.
Proof.
  intros U. revert used. induction tofks as [|fk2 l IH]; intros used; [reflexivity|].
  destruct used as [|u used']; [reflexivity|]. cbn [normalize_fk_inner normalize_fk_inner_shape].
  rewrite U. cbn [negb]. rewrite andb_false_r. cbn [orb]. rewrite IH. reflexivity.
Qed.

Lemma normalize_fk_inner_shape_none n1 n2 fk1 tofks used :
  (forall fk2, In fk2 tofks -> same_fk n1 n2 fk1 fk2 = false) ->
  normalize_fk_inner_shape n1 n2 fk1 tofks used = (fk1, used).
Proof.
  revert used. induction tofks as [|fk2 l IH]; intros used H; [reflexivity|].
  destruct used as [|u used']; [reflexivity|]. cbn [normalize_fk_inner_shape].
  rewrite (H fk2 (or_introl eq_refl)).
  rewrite (IH used' (fun x Hx => H x (or_intror Hx))). destruct u; reflexivity.
Qed.

(** a numeric key without a partner of the same shape keeps its symbol and claims nothing --
    also when the desired side has a key that carries the same ordinal *)
Lemma normalize_fk_inner_numeric_unpaired n1 n2 fk1 tofks used :
  is_uint (f_symbol fk1) = true ->
  (forall fk2, In fk2 tofks -> same_fk n1 n2 fk1 fk2 = false) ->
  normalize_fk_inner n1 n2 fk1 tofks used = (fk1, used).
Proof.
  intros U H. rewrite (normalize_fk_inner_numeric n1 n2 fk1 tofks used U).
  apply normalize_fk_inner_shape_none. exact H.
Qed.

(** ** witnesses: table t(x, y, z) with three unnamed keys x -> a(id), y -> b(id), z -> c(id) *)
Definition n_col (c : N) : column := mkColumn [c] 2 [105;110;116]%N false None None None.
Definition n_fk (sym col reft : N) : fkey := mkFk [sym] [[col]] [reft] [[105;100]%N] [] [].
Definition n_table (fks : list fkey) : table :=
  mkTable [116]%N false false [n_col 120; n_col 121; n_col 122] None [] fks [].
(* current: 0: x->a, 1: y->b, 2: z->c *)
Definition n_from : schema := mkSchema [109]%N [n_table [n_fk 48 120 97; n_fk 49 121 98; n_fk 50 122 99]].
(* desired: the middle key dropped; another inspection numbers the rest 0: x->a, 1: z->c *)
Definition n_to_mid : schema := mkSchema [109]%N [n_table [n_fk 48 120 97; n_fk 49 122 99]].
(* desired: the first key dropped: 0: y->b, 1: z->c *)
Definition n_to_first : schema := mkSchema [109]%N [n_table [n_fk 48 121 98; n_fk 49 122 99]].
(* desired: the last key dropped: 0: x->a, 1: y->b *)
Definition n_to_last : schema := mkSchema [109]%N [n_table [n_fk 48 120 97; n_fk 49 121 98]].
(* desired: the same three keys listed z, x, y *)
Definition n_to_perm : schema := mkSchema [109]%N [n_table [n_fk 48 122 99; n_fk 49 120 97; n_fk 50 121 98]].
(* desired: a key w... (here: x -> c) added in front: 0: x->c, 1: x->a, 2: y->b, 3: z->c *)
Definition n_to_add : schema :=
  mkSchema [109]%N [n_table [n_fk 48 120 99; n_fk 49 120 97; n_fk 50 121 98; n_fk 51 122 99]].

Lemma n_diff_mid :
  SchemaDiff sqlite_driver no_skip n_from n_to_mid =
  Some [ModifyTable [116]%N [ModifyForeignKey [49]%N (N.lor (N.lor ChangeRefTable ChangeRefColumn) ChangeColumn)]].
Proof. vm_compute. reflexivity. Qed.

Lemma n_diff_first :
  SchemaDiff sqlite_driver no_skip n_from n_to_first =
  Some [ModifyTable [116]%N [ModifyForeignKey [48]%N (N.lor (N.lor ChangeRefTable ChangeRefColumn) ChangeColumn)]].
Proof. vm_compute. reflexivity. Qed.

Lemma n_diff_last :
  SchemaDiff sqlite_driver no_skip n_from n_to_last = Some [ModifyTable [116]%N [DropForeignKey [50]%N]].
Proof. vm_compute. reflexivity. Qed.

Lemma n_diff_perm : SchemaDiff sqlite_driver no_skip n_from n_to_perm = Some [].
Proof. vm_compute. reflexivity. Qed.

Lemma n_diff_add :
  SchemaDiff sqlite_driver no_skip n_from n_to_add = Some [ModifyTable [116]%N [AddForeignKey [48]%N]].
Proof. vm_compute. reflexivity. Qed.

Lemma n_all_numeric :
  forallb (fun f => is_uint (f_symbol f))
    (flat_map t_fks (s_tables n_from ++ s_tables n_to_mid ++ s_tables n_to_first)) = true.
Proof. vm_compute. reflexivity. Qed.
