(** M-SCHEMA (C02): the MySQL and PostgreSQL DiffDrivers (sql/mysql/diff_oss.go,
    sql/postgres/diff_oss.go) over the attributes of the edit catalogue, in the
    mode of the CLI (schema.DiffNormalized()) and with the connection-less
    differs mysql.DefaultDiff (version 8.0.31, lower_case_table_names 0) and
    postgres.DefaultDiff (no schema scope).  No proofs in this file.

    The records of Schema.v were designed for SQLite; the dialect attributes
    they have no field for are carried, by the harness, in the string fields
    the dialect does not use otherwise, separated by the byte 0x1F:

      c_T      MySQL   [type identity; charset; collation; table charset; table collation;
                        float64 text of the default literal; int64 of that float (see equal_int_values)]
               PG      [type identity; has identity ("1"/""); generation; start; increment]
      i_origin MySQL   Some [index type]          PG  Some [index type; "1" iff NULLS NOT DISTINCT; INCLUDE columns joined by ","]
      p_expr   MySQL   on a column part: Some (decimal prefix length) iff the part has a SubPart

    "type identity" is what typeChanged compares within one Go type class:
    FormatType(t) for the classes that use it, T (+" unsigned") for MySQL
    integers, the joined values for enum/set, T for PG enum/domain/composite,
    FormatType of the element type for PG arrays ("" if unknown); an absent
    attribute is the empty field.  c_class numbers the Go type (0 = nil).

    Outside the model (the harness ties only cases where these are equal on both
    sides; they are checked by the oracle alone): table attributes other than
    checks (comment, charset, collation, engine, auto_increment), ENFORCED /
    NO INHERIT of checks, MariaDB/TiDB flavours, display widths, partitions,
    operator classes, storage parameters, hex / exponent / non-decimal numeric
    default literals and numbers beyond int64 / float64 precision. *)
From Coq Require Import List NArith Bool Arith.
From Atlas Require Import Base.Bytes Diff.Schema Diff.DiffModel Diff.DiffSqlite.
Import ListNotations.

Definition US : N := 31.

Fixpoint split_us_aux (cur : list N) (s : str) : list str :=
  match s with
  | [] => [rev cur]
  | c :: s' => if N.eqb c US then rev cur :: split_us_aux [] s' else split_us_aux (c :: cur) s'
  end.
Definition fld (k : nat) (s : str) : str := nth k (split_us_aux [] s) [].
Definition has_fld (k : nat) (s : str) : bool := negb (str_eqb (fld k s) []).
Definition ofld (o : option str) (k : nat) : str := match o with Some s => fld k s | None => [] end.

(** strings.ToLower on ASCII *)
Definition to_lower (s : str) : str :=
  map (fun c => if N.leb 65 c && N.leb c 90 then (c + 32)%N else c) s.

(** strings.Trim(s, cutset) *)
Fixpoint trim_left (cut : list N) (s : str) : str :=
  match s with
  | c :: s' => if existsb (N.eqb c) cut then trim_left cut s' else s
  | [] => []
  end.
Definition trim (cut : list N) (s : str) : str := rev (trim_left cut (rev (trim_left cut s))).

Definition ch_space : N := 32.

(** *** MySQL *)

(* class numbers written by the harness (harness/cmd/diff/tok_dialect.go) *)
Definition MY_INT : N := 2.    Definition MY_STRING : N := 3.  Definition MY_FLOAT : N := 4.
Definition MY_BINARY : N := 5. Definition MY_DECIMAL : N := 6. Definition MY_BOOL : N := 7.
Definition MY_TIME : N := 8.   Definition MY_JSON : N := 9.    Definition MY_UUID : N := 10.
Definition MY_ENUM : N := 12.  Definition MY_SPATIAL : N := 13. Definition MY_BIT : N := 15.
Definition MY_SET : N := 16.   Definition MY_NETWORK : N := 17.

Definition mysql_supported_class (k : N) : bool :=
  existsb (N.eqb k) [MY_INT; MY_STRING; MY_FLOAT; MY_BINARY; MY_DECIMAL; MY_BOOL; MY_TIME; MY_JSON;
                     MY_UUID; MY_ENUM; MY_SPATIAL; MY_BIT; MY_SET; MY_NETWORK].

(** [diff.typeChanged]: None = error *)
Definition mysql_type_changed (from to : column) : option bool :=
  if N.eqb (c_class from) 0 || N.eqb (c_class to) 0 then None
  else if negb (N.eqb (c_class from) (c_class to)) then Some true
  else if mysql_supported_class (c_class from) then Some (negb (str_eqb (fld 0 (c_T from)) (fld 0 (c_T to))))
  else None.

(** [equalsStringValues] *)
Definition equals_string_values (x1 x2 : str) : bool :=
  match unquote x1, unquote x2 with
  | Some a, Some b => str_eqb a b
  | _, _ => false
  end.

(** decimal literals: [sign] digits [. digits] *)
Definition split_sign (s : str) : bool * str :=   (* (negative, rest) *)
  match s with
  | c :: s' => if N.eqb c 45 then (true, s') else if N.eqb c 43 then (false, s') else (false, s)
  | [] => (false, [])
  end.
Fixpoint split_dot (s : str) : str * option str :=
  match s with
  | [] => ([], None)
  | c :: s' => if N.eqb c 46 then ([], Some s')
               else let '(a, b) := split_dot s' in (c :: a, b)
  end.
Definition strip_zeros (s : str) : str := trim_left [48%N] s.
(** canonical form of a plain decimal literal: (negative, integer digits, fraction digits); None = not one *)
Definition canon (allow_frac : bool) (s : str) : option (bool * str * str) :=
  let '(neg, r) := split_sign s in
  let '(ip, fp) := split_dot r in
  let f := match fp with Some f => f | None => [] end in
  let ok := forallb is_digit ip && forallb is_digit f
            && negb (Nat.eqb (length ip + length f) 0)
            && (match fp with Some _ => allow_frac | None => true end) in
  if ok then
    let i' := strip_zeros ip in
    let f' := rev (strip_zeros (rev f)) in
    let zero := Nat.eqb (length i' + length f') 0 in
    Some (if zero then false else neg, i', f')
  else None.

Definition canon_eqb (a b : bool * str * str) : bool :=
  let '(n1, i1, f1) := a in let '(n2, i2, f2) := b in
  Bool.eqb n1 n2 && str_eqb i1 i2 && str_eqb f1 f2.

Definition quote_space : list N := [ch_squote; ch_space].

(** [strconv.ParseInt(s, 10, 64)]: [sign] digits, within int64; the value as (negative, magnitude) *)
Definition parse_int64 (s : str) : option (bool * N) :=
  let '(neg, r) := split_sign s in
  match r with
  | [] => None
  | _ => match digits_val 0 r with
         | Some v => if (if neg then N.leb v 9223372036854775808 else N.leb v 9223372036854775807)
                     then Some ((if N.eqb v 0 then false else neg), v) else None
         | None => None
         end
  end.

(** [equalIntValues].  [f1 t1] / [f2 t2] are the projections of the two literals the harness supplies
    (c_T fields 5, 6): the shortest text of strconv.ParseFloat(x, 64) ("" = error) and int64 of
    that float in decimal, x = ToLower(Trim(literal, "' ")); strconv itself is not modelled.
    The decision structure is the code's: ParseInt first (exact), else ParseFloat and int64(f). *)
Definition int_of_default (a f t : str) : option (bool * N) :=
  match parse_int64 a with
  | Some v => Some v
  | None => match f with [] => None | _ => parse_int64 t end
  end.
Definition equal_int_values (x1 x2 f1 t1 f2 t2 : str) : bool :=
  let a := to_lower (trim quote_space x1) in
  let b := to_lower (trim quote_space x2) in
  if str_eqb a b then true
  else match int_of_default a f1 t1, int_of_default b f2 t2 with
       | Some (n1, v1), Some (n2, v2) => Bool.eqb n1 n2 && N.eqb v1 v2
       | _, _ => false
       end.

(** [equalFloatValues]: both parse as float64 and the two float64 values are equal *)
Definition equal_float_values (x1 x2 f1 f2 : str) : bool :=
  let a := to_lower (trim quote_space x1) in
  let b := to_lower (trim quote_space x2) in
  if str_eqb a b then true
  else match f1, f2 with
       | _ :: _, _ :: _ => str_eqb f1 f2
       | _, _ => false
       end.

(** [boolValue]: Some b, or None = unknown *)
Definition bool_value (x : str) : option bool :=
  if existsb (str_eqb x) [[49]; [39;49;39]; [84;82;85;69]; [116;114;117;101]]%N then Some true
  else if existsb (str_eqb x) [[48]; [39;48;39]; [70;65;76;83;69]; [102;97;108;115;101]]%N then Some false
  else None.

Definition time_cut : list N := [ch_squote; ch_space; ch_lparen; ch_rparen].

(** [diff.defaultChanged] (never an error) *)
Definition mysql_default_changed (from to : column) : bool :=
  match default_value from, default_value to with
  | None, None => false
  | Some _, None | None, Some _ => true
  | Some d1, Some d2 =>
      if str_eqb d1 d2 then false
      else
        let k := c_class from in
        if N.eqb k MY_BINARY then negb (equals_string_values d1 d2)      (* non-hex literals *)
        else if N.eqb k MY_BOOL then
          match bool_value d1, bool_value d2 with
          | Some a, Some b => negb (Bool.eqb a b)
          | _, _ => true       (* fix C02-mysql-bool-default-unknown-value: a value boolValue does not know *)
          end
        else if N.eqb k MY_INT then
          negb (equal_int_values d1 d2 (fld 5 (c_T from)) (fld 6 (c_T from)) (fld 5 (c_T to)) (fld 6 (c_T to)))
        else if N.eqb k MY_FLOAT || N.eqb k MY_DECIMAL then negb (equal_float_values d1 d2 (fld 5 (c_T from)) (fld 5 (c_T to)))
        else if N.eqb k MY_ENUM || N.eqb k MY_SET || N.eqb k MY_STRING then negb (equals_string_values d1 d2)
        else if N.eqb k MY_TIME then
          negb (equals_string_values (to_lower (trim time_cut d1)) (to_lower (trim time_cut d2)))
        else negb (str_eqb (trim [ch_squote] d1) (trim [ch_squote] d2))
  end.

Definition STORED : str := [83;84;79;82;69;68]%N.
Definition PERSISTENT : str := [80;69;82;83;73;83;84;69;78;84]%N.

(** [storedOrVirtual] (sql/mysql/sqlspec_oss.go) *)
Definition mysql_stored_or_virtual (s : str) : str :=
  let u := to_upper s in
  match u with
  | [] => VIRTUAL
  | _ => if str_eqb u PERSISTENT then STORED else u
  end.

(** [diff.generatedChanged] *)
Definition mysql_generated_changed (from to : column) : bool :=
  match c_gen from, c_gen to with
  | None, None => false
  | Some (x1, t1), Some (x2, t2) =>
      negb (str_eqb (may_wrap x1) (may_wrap x2)
            && str_eqb (mysql_stored_or_virtual t1) (mysql_stored_or_virtual t2))
  | _, _ => true
  end.

(** [columnCharsetChanged] / [columnCollateChanged]; [k] = 1 charset, 2 collation
    (own value in field k, the table's in field k+2) *)
Definition mysql_cs_changed (k : nat) (from to : column) : bool :=
  let fromC := fld k (c_T from) in
  let toC := fld k (c_T to) in
  let topC := fld (k + 2) (c_T from) in
  let fromHas := negb (str_eqb fromC []) in
  let toHas := negb (str_eqb toC []) in
  let topHas := negb (str_eqb topC []) in
  (fromHas && negb toHas && topHas && negb (str_eqb fromC topC))
  || (negb fromHas && toHas && topHas && negb (str_eqb toC topC))
  || (fromHas && toHas && negb (str_eqb fromC toC)).

(** [diff.ColumnChange] *)
Definition mysql_column_change (_ : table) (from to : column) : option N :=
  match mysql_type_changed from to with
  | None => None
  | Some tc =>
      Some (N.lor (N.lor (N.lor (N.lor (N.lor (N.lor
              (comment_change (c_comment from) (c_comment to))
              (bit (negb (Bool.eqb (c_null from) (c_null to))) ChangeNull))
              (bit tc ChangeType))
              (bit (mysql_default_changed from to) ChangeDefault))
              (bit (mysql_generated_changed from to) ChangeGenerated))
              (bit (mysql_cs_changed 1 from to) ChangeCharset))
              (bit (mysql_cs_changed 2 from to) ChangeCollate))
  end.

Definition BTREE : str := [66;84;82;69;69]%N.

(** [indexType(attrs).T] *)
Definition index_type_of (i : index) : str :=
  if str_eqb (ofld (i_origin i) 0) [] then BTREE else to_upper (ofld (i_origin i) 0).

(** [diff.IndexAttrChanged] (no IndexParser in the catalogue) *)
Definition mysql_index_attr_changed (from to : index) : bool :=
  negb (str_eqb (index_type_of from) (index_type_of to)).

(** [diff.IndexPartAttrChanged]: SubPart presence and length *)
Definition sub_part (i : index) (k : nat) : option str :=
  match nth_error (sort_parts (i_parts i)) k with   (* partsChange sorts both part lists in place first *)
  | Some p => match p_col p with Some _ => p_expr p | None => None end
  | None => None
  end.
Definition mysql_index_part_attr_changed (from to : index) (k : nat) : bool :=
  negb (ostr_eqb (sub_part from k) (sub_part to k)).

Definition FUNCTIONAL_INDEX : str :=
  [102;117;110;99;116;105;111;110;97;108;95;105;110;100;101;120]%N.

Definition parse_int_gt (lim : N) (s : str) : bool :=   (* strconv.ParseInt ok and > lim, for non-negative decimal texts *)
  match s with
  | [] => false
  | _ => let body := match s with c :: s' => if N.eqb c 43 then s' else s | [] => [] end in
         match body with
         | [] => false
         | _ => match digits_val 0 body with
                | Some v => N.ltb lim v && N.leb v 9223372036854775807
                | None => false
                end
         end
  end.

(** [diff.IsGeneratedIndexName] (SupportsIndexExpr holds for 8.0.31) *)
Definition mysql_is_generated_index_name (_ : table) (idx : index) : bool :=
  if str_eqb (i_name idx) FUNCTIONAL_INDEX then true
  else match has_prefix FUNCTIONAL_INDEX (i_name idx ++ [ch_us]) with
       | Some _ =>            (* strings.TrimPrefix(name, f+"_"), ParseInt, i > 1 (fix C02-mysql-functional-index-suffix) *)
           match has_prefix (FUNCTIONAL_INDEX ++ [ch_us]) (i_name idx) with
           | Some rest => parse_int_gt 1 rest
           | None => false
           end
       | None =>
           match i_parts idx with
           | p :: _ =>
               match p_col p with
               | Some name =>
                   if str_eqb (i_name idx) name then true
                   else match has_prefix (name ++ [ch_us]) (i_name idx) with
                        | Some rest => parse_int_gt 1 rest
                        | None => false
                        end
               | None => false
               end
           | [] => false
           end
       end.

Definition RESTRICT : str := [82;69;83;84;82;73;67;84]%N.

(** [diff.ReferenceChanged] *)
Definition mysql_reference_changed (from to : str) : bool :=
  let norm (a : str) := match a with [] => NO_ACTION | _ => if str_eqb a RESTRICT then NO_ACTION else a end in
  negb (str_eqb (norm from) (norm to)).

Definition JSON_VALID : str := [106;115;111;110;95;118;97;108;105;100]%N.

(** [diff.TableAttrDiff], the part on checks (equal ENFORCED flags) *)
Definition mysql_table_attr_diff (from to : table) : option (list change) :=
  Some (filter (fun c =>
          match c with
          | DropCheck n e =>
              match has_prefix JSON_VALID e with
              | Some _ => match find_col n (t_cols to) with Some _ => false | None => true end
              | None => true
              end
          | _ => true
          end) (checks_diff (check_compare (Some (fun _ _ => true))) (t_checks from) (t_checks to))).

Definition mysql_driver : DiffDriver :=
  mkDriver mysql_column_change
           mysql_index_attr_changed
           mysql_index_part_attr_changed
           mysql_is_generated_index_name
           None                                  (* no FindGeneratedIndex *)
           mysql_reference_changed
           (fun _ _ => false)                    (* ForeignKeyAttrChanged *)
           mysql_table_attr_diff
           (fun from to => Some (from, to))      (* Normalize returns at once in normalized mode *)
           false.                                (* SupportChange(RenameConstraint) = false *)

Definition mysql_schema_diff (skip : tag -> bool) := SchemaDiff mysql_driver skip.
Definition mysql_table_diff (skip : tag -> bool) := TableDiff mysql_driver skip.

(** *** PostgreSQL *)

Definition PG_UDT : N := 1.       Definition PG_ENUM : N := 12.    Definition PG_ARRAY : N := 18.
Definition PG_COMPOSITE : N := 20. Definition PG_DOMAIN : N := 21.  Definition PG_CURRENCY : N := 22.
Definition PG_XML : N := 23.

(* classes compared through FormatType *)
Definition pg_format_class (k : N) : bool :=
  existsb (N.eqb k) [2; 3; 4; 5; 6; 7; 8; 9; 10; 13; 15; 17; 19; 24; 25; 26; 27; 28]%N.

(** [trimSchema(t, ns)] for a schema name that %q prints as "ns" (no escapes) *)
Definition trim_schema (ns t : str) : str :=
  let pre := match t with
             | c :: _ => if N.eqb c ch_dquote then ch_dquote :: ns ++ [ch_dquote; 46%N] else ns ++ [46%N]
             | [] => ns ++ [46%N]
             end in
  match has_prefix pre t with Some r => r | None => t end.

(** [typeChanged(from, to, ns)]: None = error; [ns] = conn.schema, "" for DefaultDiff *)
Definition pg_type_changed_ns (ns : str) (from to : column) : option bool :=
  if N.eqb (c_class from) 0 || N.eqb (c_class to) 0 then None
  else if negb (N.eqb (c_class from) (c_class to)) then Some true
  else
    let k := c_class from in
    let differ := negb (str_eqb (fld 0 (c_T from)) (fld 0 (c_T to))) in
    if pg_format_class k then Some differ
    else if N.eqb k PG_UDT then
      (* toT.T != fromT.T && (ns == "" || trimSchema(toT.T, ns) != trimSchema(fromT.T, ns))
         (fix C02-postgres-udt-type-without-scope) *)
      Some (differ && (str_eqb ns []
            || negb (str_eqb (trim_schema ns (fld 0 (c_T to))) (trim_schema ns (fld 0 (c_T from))))))
    else if N.eqb k PG_COMPOSITE || N.eqb k PG_DOMAIN || N.eqb k PG_ENUM
            || N.eqb k PG_CURRENCY || N.eqb k PG_XML then Some differ
    else if N.eqb k PG_ARRAY then
      Some (negb (str_eqb (fld 0 (c_T from)) []) && negb (str_eqb (fld 0 (c_T to)) []) && differ)
    else None.
Definition pg_type_changed := pg_type_changed_ns [].

Definition is_letter (c : N) : bool := (N.leb 65 c && N.leb c 90) || (N.leb 97 c && N.leb c 122).

(** strings.LastIndex(s, "::") as (prefix, suffix after "::") of the last occurrence *)
Fixpoint last_cast (s : str) : option (str * str) :=
  match s with
  | [] => None
  | c :: s' =>
      match last_cast s' with
      | Some (a, b) => Some (c :: a, b)
      | None => match s' with
                | d :: s'' => if N.eqb c 58 && N.eqb d 58 then Some ([], s'') else None
                | [] => None
                end
      end
  end.

(** [trimCast] (ASCII) *)
Definition trim_cast (s : str) : str :=
  match last_cast s with
  | None => s
  | Some (a, b) => if forallb (fun r => N.eqb r ch_space || is_letter r) b then a else s
  end.

Fixpoint double_sq (l : list N) : list N :=
  match l with
  | [] => []
  | c :: l' => if N.eqb c ch_squote then ch_squote :: ch_squote :: double_sq l' else c :: double_sq l'
  end.

(** [quote] (sql/postgres/migrate_oss.go) *)
Definition pg_quote (s : str) : str :=
  if is_quoted s ch_squote then s else ch_squote :: double_sq s ++ [ch_squote].

(** [diff.defaultChanged] without a connection *)
Definition pg_default_changed (from to : column) : bool :=
  match default_value from, default_value to with
  | None, None => false
  | Some _, None | None, Some _ => true
  | Some d1, Some d2 =>
      negb (str_eqb (trim_cast d1) (trim_cast d2) || str_eqb (pg_quote d1) (pg_quote d2))
  end.

(** [diff.generatedChanged]: None = error *)
Definition pg_generated_changed (from to : column) : option bool :=
  match c_gen from, c_gen to with
  | Some (x1, _), Some (x2, _) => if negb (str_eqb (may_wrap x1) (may_wrap x2)) then None else Some false
  | None, Some _ => None
  | Some _, None => Some true
  | None, None => Some false
  end.

Definition BY_DEFAULT : str := [66;89;32;68;69;70;65;85;76;84]%N.

(** [identity]: (generation, start, increment) with the defaults filled in *)
Definition pg_identity (c : column) : option (str * str * str) :=
  if has_fld 1 (c_T c) then
    let g := fld 2 (c_T c) in
    let s := fld 3 (c_T c) in
    let i := fld 4 (c_T c) in
    Some (match g with [] => BY_DEFAULT | _ => g end,
          (if str_eqb s [48%N] then [49%N] else s),
          (if str_eqb i [48%N] then [49%N] else i))
  else None.

(** [identityChanged] *)
Definition pg_identity_changed (from to : column) : bool :=
  match pg_identity from, pg_identity to with
  | None, None => false
  | Some (g1, s1, i1), Some (g2, s2, i2) =>
      negb (str_eqb g1 g2) || negb (str_eqb s1 s2) || negb (str_eqb i1 i2)
  | _, _ => true
  end.

(** [diff.ColumnChange] *)
Definition pg_column_change_ns (ns : str) (_ : table) (from to : column) : option N :=
  match pg_type_changed_ns ns from to with
  | None => None
  | Some tc =>
      match pg_generated_changed from to with
      | None => None
      | Some gc =>
          Some (N.lor (N.lor (N.lor (N.lor (N.lor
                  (comment_change (c_comment from) (c_comment to))
                  (bit (negb (Bool.eqb (c_null from) (c_null to))) ChangeNull))
                  (bit tc ChangeType))
                  (bit (pg_default_changed from to) ChangeDefault))
                  (bit (pg_identity_changed from to) ChangeAttr))
                  (bit gc ChangeGenerated))
      end
  end.
Definition pg_column_change := pg_column_change_ns [].

(** [diff.IndexAttrChanged] (no unique/exclude constraints, no storage parameters) *)
Definition pg_index_attr_changed (from to : index) : bool :=
  negb (str_eqb (index_type_of from) (index_type_of to))
  || negb (str_eqb (ofld (i_origin from) 1) (ofld (i_origin to) 1))
  || sqlite_index_attr_changed from to          (* the same predicate comparison *)
  || negb (str_eqb (ofld (i_origin from) 2) (ofld (i_origin to) 2)).

Definition KEY : str := [95;107;101;121]%N. (* "_key" *)

(** [diff.IsGeneratedIndexName] *)
Definition pg_is_generated_index_name (t : table) (idx : index) : bool :=
  match part_col_names (i_parts idx) with
  | None => false
  | Some names =>
      let p := t_name t ++ [ch_us] ++ join_us names ++ KEY in
      if str_eqb (i_name idx) p then true
      else match has_prefix p (i_name idx) with
           | Some rest => parse_int_pos rest
           | None => parse_int_pos (i_name idx)
           end
  end.

(** [diff.TableAttrDiff], the part on checks (equal NO INHERIT flags) *)
Definition pg_table_attr_diff (from to : table) : option (list change) :=
  Some (checks_diff (check_compare (Some (fun _ _ => true))) (t_checks from) (t_checks to)).

(** [ns] = conn.schema: "" for postgres.DefaultDiff; the search_path of the URL otherwise (with
    a connection the database decides the equality of default expressions -- the harness's
    fake connection answers "not equal", as the connection-less differ assumes) *)
Definition pg_driver_ns (ns : str) : DiffDriver :=
  mkDriver (pg_column_change_ns ns)
           pg_index_attr_changed
           (fun _ _ _ => false)                  (* IndexPartAttrChanged: NULLS FIRST/LAST follow DESC, no operator classes *)
           pg_is_generated_index_name
           None
           sqlite_reference_changed              (* the same function *)
           (fun _ _ => false)
           pg_table_attr_diff
           (fun from to => Some (from, to))      (* no Normalizer *)
           false.
Definition pg_driver : DiffDriver := pg_driver_ns [].

Definition pg_schema_diff (skip : tag -> bool) := SchemaDiff pg_driver skip.
Definition pg_table_diff (skip : tag -> bool) := TableDiff pg_driver skip.
Definition PUBLIC : str := [112;117;98;108;105;99]%N.
Definition pg_public_schema_diff (skip : tag -> bool) := SchemaDiff (pg_driver_ns PUBLIC) skip.
Definition pg_public_table_diff (skip : tag -> bool) := TableDiff (pg_driver_ns PUBLIC) skip.
