(** C02, round 5: one statement for SQLite's SchemaDiff over all tables of a schema at once.

    A [table_script] records, for one kept table, the edit scripts of its columns, foreign keys
    and checks.  The index part needs no script: [index_diff_t_unnamed] (DiffUnnamedProofs.v) is a
    closed form of indexDiffT for ALL pairs of index lists -- namesakes, dropped / added indexes
    and the positive similarUnnamedIndex / FindGeneratedIndex match of a generated name with an
    unnamed desired index included -- so it is used as it is ([from_step] / [add_step]).

    [sqlite_schema_diff_closed]: for a script of tables and one table script per kept table,
    SchemaDiff returns exactly DropTable per dropped table, ModifyTable carrying exactly
    [sqlite_table_expected] per kept table whose expected list is not empty, AddTable per added
    table.  Hypothesis left: Normalize has nothing to rewrite in the pair ([fk_stable],
    [idx_norm_stable]). *)
From Coq Require Import List NArith Bool Arith Permutation.
From Atlas Require Import Base.Bytes Diff.Schema Diff.DiffModel Diff.DiffSqlite Diff.DiffProofs
  Diff.DiffSqliteProofs Diff.DiffUnnamedProofs.
Import ListNotations.

Record table_script := mkTS {
  ts_cps : list (column * option column); ts_cadds : list column;
  ts_fps : list (fkey * option fkey);     ts_fadds : list fkey;
  ts_kps : list (check * option check);   ts_kadds : list check
}.

Definition cmp0 := check_compare None.

(** the scripts describe the pair (the hypotheses of 2a, 2c, 2d) and Normalize leaves it alone *)
Definition ts_ok (from to : table) (s : table_script) : Prop :=
  fk_stable (t_name to) (t_name to) (t_fks from) (t_fks to) /\ idx_norm_stable (t_idx to) /\
  (t_cols from = map fst (ts_cps s) /\ script_ok c_name (ts_cps s) (ts_cadds s) /\
   Permutation (t_cols to) (kept (ts_cps s) ++ ts_cadds s) /\
   (forall c c', In (c, Some c') (ts_cps s) -> c_class c <> 0%N /\ c_class c' <> 0%N)) /\
  (t_fks from = map fst (ts_fps s) /\ script_ok f_symbol (ts_fps s) (ts_fadds s) /\
   Permutation (t_fks to) (kept (ts_fps s) ++ ts_fadds s)) /\
  (t_checks from = map fst (ts_kps s) /\ Permutation (t_checks to) (kept (ts_kps s) ++ ts_kadds s) /\
   (forall c o, In (c, o) (ts_kps s) -> forall c2, In c2 (t_checks to) -> check_compare_to cmp0 c c2 = true -> o = Some c2) /\
   (forall c c2, In (c, Some c2) (ts_kps s) -> check_compare_to cmp0 c c2 = true) /\
   (forall c2, In c2 (kept (ts_kps s)) -> existsb (check_compare_to cmp0 c2) (map fst (ts_kps s)) = true) /\
   (forall a, In a (ts_kadds s) -> existsb (check_compare_to cmp0 a) (map fst (ts_kps s)) = false)).

(** the same scripts, additions listed in another order (the order of the desired lists) *)
Definition ts_perm (s s' : table_script) : Prop :=
  ts_cps s' = ts_cps s /\ ts_fps s' = ts_fps s /\ ts_kps s' = ts_kps s /\
  Permutation (ts_cadds s) (ts_cadds s') /\ Permutation (ts_fadds s) (ts_fadds s') /\
  Permutation (ts_kadds s) (ts_kadds s').

(** what tableDiff must return *)
Definition sqlite_table_expected (skip : tag -> bool) (from to : table) (s : table_script) : list change :=
  let from1 := set_t_name from (t_name to) in
  (attr_flag ATTR_WITHOUT_ROWID (t_without_rowid from) (t_without_rowid to)
   ++ attr_flag ATTR_STRICT (t_strict from) (t_strict to)
   ++ chk_expected cmp0 (ts_kps s) ++ map (fun c => AddCheck (k_name c) (k_expr c)) (ts_kadds s))
  ++ add_or_skip skip (col_expected sqlite_driver from1 (ts_cps s) ++ map (fun c => AddColumn (c_name c)) (ts_cadds s))
  ++ pk_diff sqlite_driver skip from1 to
  ++ add_or_skip skip (flat_map (from_step sqlite_driver from1 to) (t_idx from) ++ add_step sqlite_driver from1 to 0 (t_idx to))
  ++ add_or_skip skip (fk_expected sqlite_driver (ts_fps s) ++ map (fun f => AddForeignKey (f_symbol f)) (ts_fadds s)).

Lemma sqlite_table_diff_closed skip from to s :
  ts_ok from to s ->
  exists s', ts_perm s s' /\ table_diff sqlite_driver skip from to = Some (sqlite_table_expected skip from to s').
Proof.
  intros [FS [IS [[C1 [C2 [C3 C4]]] [[F1 [F2 F3]] [K1 [K2 [K3 [K4 [K5 K6]]]]]]]]].
  set (from1 := set_t_name from (t_name to)).
  destruct (checks_diff_exact cmp0 (t_checks from) (t_checks to) (ts_kps s) (ts_kadds s) K1 K2 K3 K4 K5 K6) as [ka [PK EK]].
  assert (C4' : forall c c', In (c, Some c') (ts_cps s) -> dd_column_change sqlite_driver from1 c c' <> None).
  { intros c c' H. simpl. destruct (C4 c c' H). apply sqlite_column_change_typed; assumption. }
  destruct (column_diff_exact sqlite_driver skip from1 to (ts_cps s) (ts_cadds s) C1 C2 C3 C4') as [ca [PC EC]].
  destruct (fk_diff_exact sqlite_driver skip from1 to (ts_fps s) (ts_fadds s) F1 F2 F3) as [fa [PF EF]].
  exists (mkTS (ts_cps s) ca (ts_fps s) fa (ts_kps s) ka). split.
  - repeat split; assumption.
  - unfold table_diff. fold from1.
    assert (HN : dd_normalize sqlite_driver from1 to = Some (from1, to)).
    { simpl. apply sqlite_normalize_stable; simpl; assumption. }
    rewrite HN.
    assert (HA : dd_table_attr_diff sqlite_driver from1 to =
                 Some (attr_flag ATTR_WITHOUT_ROWID (t_without_rowid from) (t_without_rowid to)
                       ++ attr_flag ATTR_STRICT (t_strict from) (t_strict to)
                       ++ chk_expected cmp0 (ts_kps s) ++ map (fun c => AddCheck (k_name c) (k_expr c)) ka)).
    { simpl. unfold sqlite_table_attr_diff. simpl. unfold cmp0 in EK. rewrite EK. reflexivity. }
    rewrite HA, EC, EF. rewrite (index_diff_t_unnamed sqlite_driver skip from1 to). reflexivity.
Qed.

(** *** all tables of a schema *)
Definition table_entry (skip : tag -> bool) (p : table * option table) (sc : table_script) : list schange :=
  match snd p with
  | None => add_or_skip_s skip [DropTable (t_name (fst p))]
  | Some t2 => match sqlite_table_expected skip (fst p) t2 sc with
               | (_ :: _) as ch => add_or_skip_s skip [ModifyTable (t_name t2) ch]
               | [] => []
               end
  end.

Fixpoint sqlite_schema_expected (skip : tag -> bool) (ps : list (table * option table)) (scripts : list table_script)
  : list schange :=
  match ps, scripts with
  | p :: ps', sc :: scripts' => table_entry skip p sc ++ sqlite_schema_expected skip ps' scripts'
  | _, _ => []
  end.

Definition entry_ok (p : table * option table) (sc : table_script) : Prop :=
  forall t', snd p = Some t' -> ts_ok (fst p) t' sc.

Lemma tbl_expected_closed skip ps scripts :
  Forall2 entry_ok ps scripts ->
  exists scripts', Forall2 ts_perm scripts scripts' /\
    tbl_expected sqlite_driver skip ps = sqlite_schema_expected skip ps scripts' /\
    (forall t t', In (t, Some t') ps -> table_diff sqlite_driver skip t t' <> None).
Proof.
  induction 1 as [|[t o] sc ps scripts H F IH].
  - exists []. split; [constructor|]. split; [reflexivity|]. intros t t' [].
  - destruct IH as [scripts' [FP [E NE]]]. destruct o as [t'|].
    + destruct (sqlite_table_diff_closed skip t t' sc (H t' eq_refl)) as [sc' [P ET]].
      exists (sc' :: scripts'). split; [constructor; assumption|]. split.
      * unfold tbl_expected in *. cbn [flat_map sqlite_schema_expected snd fst]. rewrite E.
        unfold table_entry. cbn [snd fst]. rewrite ET.
        destruct (sqlite_table_expected skip t t' sc'); reflexivity.
      * intros x x' [X|X]; [inversion X; subst; rewrite ET; discriminate|]. exact (NE x x' X).
    + exists (sc :: scripts'). split; [constructor; [repeat split; apply Permutation_refl|assumption]|]. split.
      * unfold tbl_expected in *. cbn [flat_map sqlite_schema_expected snd fst]. rewrite E. reflexivity.
      * intros x x' [X|X]; [discriminate|]. exact (NE x x' X).
Qed.

Theorem sqlite_schema_diff_closed skip from to ps adds scripts :
  s_name from = s_name to -> s_tables from = map fst ps -> script_ok t_name ps adds ->
  Permutation (s_tables to) (kept ps ++ adds) ->
  Forall2 entry_ok ps scripts ->
  exists adds' scripts', Permutation adds adds' /\ Forall2 ts_perm scripts scripts' /\
    SchemaDiff sqlite_driver skip from to =
    Some (sqlite_schema_expected skip ps scripts' ++ add_or_skip_s skip (map (fun t => AddTable (t_name t)) adds')).
Proof.
  intros Hn Hf OK P F.
  destruct (tbl_expected_closed skip ps scripts F) as [scripts' [FP [E NE]]].
  destruct (schema_diff_exact sqlite_driver skip from to ps adds Hn Hf OK P NE) as [adds' [PA ES]].
  exists adds', scripts'. split; [exact PA|]. split; [exact FP|]. rewrite ES, E. reflexivity.
Qed.

(** non-vacuity: a generated autoindex name (origin "u" -> renamed by Normalize? no: the pair below
    keeps [idx_norm_stable] by using a user index) -- see Props_C02.v, C02_ex_exact_sqlite. *)
