(** C02, round 5: proofs about schema objects (DiffObjects.v). *)
From Coq Require Import List NArith Bool Arith Permutation.
From Atlas Require Import Base.Bytes Diff.Schema Diff.DiffModel Diff.DiffProofs Diff.DiffObjects.
Import ListNotations.

Definition obj_expected (ps : script (A:=enum_o)) : list ochange :=
  flat_map (fun p => match snd p with
    | None => [DropObject (e_T (fst p))]
    | Some e2 => if negb (strs_eqb (e_values (fst p)) (e_values e2))
                 then [ModifyObject (e_T (fst p)) (e_values (fst p)) (e_values e2)] else []
    end) ps.

Theorem pg_schema_object_diff_exact from to ps adds :
  from = map fst ps -> script_ok e_T ps adds -> Permutation to (kept ps ++ adds) ->
  exists adds', Permutation adds adds' /\
    pg_schema_object_diff from to = obj_expected ps ++ map (fun e => AddObject (e_T e)) adds'.
Proof.
  intros Hf OK P. subst from.
  destruct (script_add_loop e_T ps adds to (fun e => AddObject (e_T e)) OK P) as [adds' [PA EA]].
  exists adds'. split; [exact PA|]. unfold pg_schema_object_diff. f_equal.
  - unfold obj_expected. apply flat_map_map_fst. intros [c o] Hin. cbn [fst snd].
    change (find_enum (e_T c) to) with (kfind e_T (e_T c) to).
    rewrite (script_find_to e_T ps adds to c o OK P Hin). reflexivity.
  - change (fun e1 : enum_o => match find_enum (e_T e1) (map fst ps) with
                               | Some _ => [] | None => [AddObject (e_T e1)] end)
      with (fun c1 : enum_o => match kfind e_T (e_T c1) (map fst ps) with
                               | None => [AddObject (e_T c1)] | Some _ => [] end).
    exact EA.
Qed.

Lemma strs_eqb_refl l : strs_eqb l l = true.
Proof. induction l as [|a l IH]; simpl; [reflexivity|]. rewrite str_eqb_refl, IH. reflexivity. Qed.

Lemma strs_eqb_eq a b : strs_eqb a b = true <-> a = b.
Proof.
  revert b. induction a as [|x a IH]; intros [|y b]; simpl; split; intros H; try reflexivity; try discriminate.
  - apply andb_true_iff in H. destruct H as [H1 H2]. apply str_eqb_eq in H1. apply IH in H2. subst. reflexivity.
  - inversion H; subst. rewrite str_eqb_refl. simpl. apply IH. reflexivity.
Qed.

Theorem pg_schema_object_diff_self l : NoDup (map e_T l) -> pg_schema_object_diff l l = [].
Proof.
  intros ND.
  assert (F : forall e, In e l -> find_enum (e_T e) l = Some e).
  { intros e He. change (find_enum (e_T e) l) with (kfind e_T (e_T e) l). apply kfind_unique; [exact He|].
    intros y Hy E. revert ND He Hy E. clear. induction l as [|a l IH]; simpl; intros ND He Hy E; [contradiction|].
    inversion ND as [|? ? Hn ND']; subst. destruct He as [->|He], Hy as [->|Hy]; auto.
    - exfalso. apply Hn. rewrite <- E. apply in_map. exact Hy.
    - exfalso. apply Hn. rewrite E. apply in_map. exact He. }
  unfold pg_schema_object_diff. rewrite (flat_map_nil _ l), (flat_map_nil _ l); [reflexivity| |].
  - intros e He. rewrite (F e He). reflexivity.
  - intros e He. rewrite (F e He), strs_eqb_refl. reflexivity.
Qed.

(** one ModifyObject exactly when the value lists differ (order and length included) *)
Lemma enum_modify_iff e1 e2 :
  e_T e2 = e_T e1 ->
  pg_schema_object_diff [e1] [e2] =
  if negb (strs_eqb (e_values e1) (e_values e2)) then [ModifyObject (e_T e1) (e_values e1) (e_values e2)] else [].
Proof.
  intros H. unfold pg_schema_object_diff, find_enum. cbn [flat_map find]. rewrite H, !str_eqb_refl.
  cbn [app]. rewrite !app_nil_r. reflexivity.
Qed.
