(** M-SCHEMA (C02), round 5: schema objects -- sql/postgres/driver_oss.go: SchemaObjectDiff (the
    community build diffs enum types listed in Schema.Objects: DropObject / ModifyObject when
    the values differ / AddObject; matched by the type name T) and its place in
    [Diff.schemaDiff] (through AddOrSkip, before the tables).  SQLite and MySQL return nothing.
    [schema_o] wraps [schema] with the enum objects.  No proofs in this file. *)
From Coq Require Import List NArith Bool Arith.
From Atlas Require Import Base.Bytes Diff.Schema Diff.DiffModel Diff.DiffDialects.
Import ListNotations.

Record enum_o := mkEnumO { e_T : str; e_values : list str }.
Record schema_o := mkSchemaO { so_schema : schema; so_enums : list enum_o }.

Inductive ochange :=
| AddObject (t : str)
| DropObject (t : str)
| ModifyObject (t : str) (v1 v2 : list str).

Inductive sochange := SO (c : ochange) | SOT (c : schange).

Inductive otag := OtAddObject | OtDropObject | OtModifyObject | OtTag (t : tag).
Definition otag_of (c : ochange) : otag :=
  match c with AddObject _ => OtAddObject | DropObject _ => OtDropObject | ModifyObject _ _ _ => OtModifyObject end.

(** [Schema.Object(f)] with f = "o is an EnumType and e1.T == o.T": first match *)
Definition find_enum (t : str) (l : list enum_o) : option enum_o :=
  find (fun e2 => str_eqb (e_T e2) t) l.

(** postgres: [SchemaObjectDiff]; [sqlx.ValuesEqual] = [strs_eqb] *)
Definition pg_schema_object_diff (from to : list enum_o) : list ochange :=
  flat_map (fun e1 =>
    match find_enum (e_T e1) to with
    | None => [DropObject (e_T e1)]
    | Some e2 => if negb (strs_eqb (e_values e1) (e_values e2))
                 then [ModifyObject (e_T e1) (e_values e1) (e_values e2)] else []
    end) from
  ++
  flat_map (fun e1 =>
    match find_enum (e_T e1) from with
    | None => [AddObject (e_T e1)]
    | Some _ => []
    end) to.

Section Objects.
Variable D : DiffDriver.
Variable OD : list enum_o -> list enum_o -> list ochange.   (* SchemaObjectDiff *)
Variable oskip : otag -> bool.

Definition skip_o (t : tag) : bool := oskip (OtTag t).
Definition add_or_skip_o (cs : list ochange) : list ochange :=
  filter (fun c => negb (oskip (otag_of c))) cs.

(** [Diff.schemaDiff]: objects (through AddOrSkip), then the tables *)
Definition SchemaDiffO (from to : schema_o) : option (list sochange) :=
  match SchemaDiff D skip_o (so_schema from) (so_schema to) with
  | None => None
  | Some ts => Some (map SO (add_or_skip_o (OD (so_enums from) (so_enums to))) ++ map SOT ts)
  end.
End Objects.

Definition pg_schema_diff_o (ns : str) := SchemaDiffO (pg_driver_ns ns) pg_schema_object_diff.
