(** M-GLOB/M-SCHEMA (C19, second sentence): the change kinds of sql/schema/migrate.go, which of
    them the diff policy can disable (generated: gen/Gen_SkipKinds.v, from
    cmd/atlas/internal/cmdapi/project.go), the skip function [schema.DiffSkipChanges(K...)]
    installs into the generic differ (Diff/DiffModel.v: [skip : tag -> bool] is
    [DiffOptions.Skipped]), and the reference the property asks for: the unfiltered change
    set minus exactly the disabled kinds, at both nesting levels of the model.
    No proofs in this file. *)
From Coq Require Import List NArith Bool Arith String.
From Atlas Require Import Base.Bytes Diff.Schema Diff.DiffModel gen.Gen_SkipKinds.
Import ListNotations.

(** every Go type implementing schema.Change (sql/schema/migrate.go) *)
Inductive kind :=
| KAddAttr
| KDropAttr
| KModifyAttr
| KAddSchema
| KDropSchema
| KModifySchema
| KAddTable
| KDropTable
| KModifyTable
| KRenameTable
| KAddView
| KDropView
| KModifyView
| KRenameView
| KAddFunc
| KDropFunc
| KModifyFunc
| KRenameFunc
| KAddProc
| KDropProc
| KModifyProc
| KRenameProc
| KAddObject
| KDropObject
| KModifyObject
| KRenameObject
| KAddTrigger
| KDropTrigger
| KModifyTrigger
| KRenameTrigger
| KAddIndex
| KDropIndex
| KModifyIndex
| KRenameIndex
| KAddPrimaryKey
| KDropPrimaryKey
| KModifyPrimaryKey
| KAddCheck
| KDropCheck
| KModifyCheck
| KAddColumn
| KDropColumn
| KModifyColumn
| KRenameColumn
| KAddForeignKey
| KDropForeignKey
| KModifyForeignKey
| KRenameConstraint.

Scheme Equality for kind.

Definition kind_name (k : kind) : string :=
  match k with
  | KAddAttr => "AddAttr"
  | KDropAttr => "DropAttr"
  | KModifyAttr => "ModifyAttr"
  | KAddSchema => "AddSchema"
  | KDropSchema => "DropSchema"
  | KModifySchema => "ModifySchema"
  | KAddTable => "AddTable"
  | KDropTable => "DropTable"
  | KModifyTable => "ModifyTable"
  | KRenameTable => "RenameTable"
  | KAddView => "AddView"
  | KDropView => "DropView"
  | KModifyView => "ModifyView"
  | KRenameView => "RenameView"
  | KAddFunc => "AddFunc"
  | KDropFunc => "DropFunc"
  | KModifyFunc => "ModifyFunc"
  | KRenameFunc => "RenameFunc"
  | KAddProc => "AddProc"
  | KDropProc => "DropProc"
  | KModifyProc => "ModifyProc"
  | KRenameProc => "RenameProc"
  | KAddObject => "AddObject"
  | KDropObject => "DropObject"
  | KModifyObject => "ModifyObject"
  | KRenameObject => "RenameObject"
  | KAddTrigger => "AddTrigger"
  | KDropTrigger => "DropTrigger"
  | KModifyTrigger => "ModifyTrigger"
  | KRenameTrigger => "RenameTrigger"
  | KAddIndex => "AddIndex"
  | KDropIndex => "DropIndex"
  | KModifyIndex => "ModifyIndex"
  | KRenameIndex => "RenameIndex"
  | KAddPrimaryKey => "AddPrimaryKey"
  | KDropPrimaryKey => "DropPrimaryKey"
  | KModifyPrimaryKey => "ModifyPrimaryKey"
  | KAddCheck => "AddCheck"
  | KDropCheck => "DropCheck"
  | KModifyCheck => "ModifyCheck"
  | KAddColumn => "AddColumn"
  | KDropColumn => "DropColumn"
  | KModifyColumn => "ModifyColumn"
  | KRenameColumn => "RenameColumn"
  | KAddForeignKey => "AddForeignKey"
  | KDropForeignKey => "DropForeignKey"
  | KModifyForeignKey => "ModifyForeignKey"
  | KRenameConstraint => "RenameConstraint"
  end%string.

Definition all_kinds : list kind :=
  [KAddAttr; KDropAttr; KModifyAttr; KAddSchema; KDropSchema; KModifySchema; KAddTable; KDropTable; KModifyTable; KRenameTable; KAddView; KDropView; KModifyView; KRenameView; KAddFunc; KDropFunc; KModifyFunc; KRenameFunc; KAddProc; KDropProc; KModifyProc; KRenameProc; KAddObject; KDropObject; KModifyObject; KRenameObject; KAddTrigger; KDropTrigger; KModifyTrigger; KRenameTrigger; KAddIndex; KDropIndex; KModifyIndex; KRenameIndex; KAddPrimaryKey; KDropPrimaryKey; KModifyPrimaryKey; KAddCheck; KDropCheck; KModifyCheck; KAddColumn; KDropColumn; KModifyColumn; KRenameColumn; KAddForeignKey; KDropForeignKey; KModifyForeignKey; KRenameConstraint].

(** the kinds [Diff.Options()] can put into [schema.DiffSkipChanges] *)
Definition skippable (k : kind) : bool := existsb (String.eqb (kind_name k)) gen_skip_kinds.

(** finite side condition tying the hand-written enumeration to the generated tables:
    the names of [all_kinds] are exactly [gen_all_changes] (same order), every generated
    skip kind is one of them, and every [SkipChanges] field names a kind [Diff.Options()] lists *)
Definition gen_names_known : bool :=
  (if list_eq_dec string_dec (map kind_name all_kinds) gen_all_changes then true else false)
  && forallb (fun n => existsb (String.eqb n) gen_all_changes) gen_skip_kinds
  && forallb (fun f => existsb (String.eqb (fst f)) gen_skip_kinds) gen_skip_fields
  && forallb (fun n => existsb (fun f => String.eqb (fst f) n) gen_skip_fields) gen_skip_kinds.

Definition kind_of_change (c : change) : kind :=
  match c with
  | AddColumn _ => KAddColumn | DropColumn _ => KDropColumn | ModifyColumn _ _ => KModifyColumn
  | AddIndex _ => KAddIndex | DropIndex _ => KDropIndex | ModifyIndex _ _ => KModifyIndex
  | AddPrimaryKey => KAddPrimaryKey | DropPrimaryKey => KDropPrimaryKey | ModifyPrimaryKey _ => KModifyPrimaryKey
  | RenameConstraint _ _ => KRenameConstraint
  | AddForeignKey _ => KAddForeignKey | DropForeignKey _ => KDropForeignKey | ModifyForeignKey _ _ => KModifyForeignKey
  | AddCheck _ _ => KAddCheck | DropCheck _ _ => KDropCheck | ModifyCheck _ _ _ _ => KModifyCheck
  | AddAttr _ => KAddAttr | DropAttr _ => KDropAttr | ModifyAttr _ => KModifyAttr
  end.

Definition kind_of_schange (c : schange) : kind :=
  match c with AddTable _ => KAddTable | DropTable _ => KDropTable | ModifyTable _ _ => KModifyTable end.

(** the kind a [tag] of the differ model stands for ([TgOther] lumps the kinds the model
    does not tell apart: primary-key, check and attribute changes) *)
Definition tag_kind (t : tag) : option kind :=
  match t with
  | TgAddTable => Some KAddTable | TgDropTable => Some KDropTable | TgModifyTable => Some KModifyTable
  | TgAddColumn => Some KAddColumn | TgDropColumn => Some KDropColumn | TgModifyColumn => Some KModifyColumn
  | TgAddIndex => Some KAddIndex | TgDropIndex => Some KDropIndex | TgModifyIndex => Some KModifyIndex
  | TgAddForeignKey => Some KAddForeignKey | TgDropForeignKey => Some KDropForeignKey
  | TgModifyForeignKey => Some KModifyForeignKey
  | TgRenameConstraint => Some KRenameConstraint
  | TgOther => None
  end.

Definition mem (k : kind) (K : list kind) : bool := existsb (kind_beq k) K.

(** [DiffOptions.Skipped] after [schema.DiffSkipChanges(K...)] *)
Definition skip_of (K : list kind) (t : tag) : bool :=
  match tag_kind t with Some k => mem k K | None => false end.

(** ** the reference: the change set minus exactly the kinds of K *)
Definition keep (K : list kind) (c : change) : bool := negb (mem (kind_of_change c) K).

Definition remove_kinds (K : list kind) (cs : list schange) : list schange :=
  flat_map (fun c =>
    if mem (kind_of_schange c) K then []
    else match c with
         | ModifyTable n ch =>
             match filter (keep K) ch with
             | [] => []                      (* nothing left to modify *)
             | ch' => [ModifyTable n ch']
             end
         | _ => [c]
         end) cs.

(** a change of kind k occurs in cs, at the top level or inside a ModifyTable *)
Definition occurs (k : kind) (cs : list schange) : Prop :=
  exists c, In c cs /\ (kind_of_schange c = k \/
    exists n ch x, c = ModifyTable n ch /\ In x ch /\ kind_of_change x = k).

(** sqlx.Diff.tableDiff appends the result of the driver's TableAttrDiff without AddOrSkip;
    this is harmless exactly when the driver returns no skippable kind there *)
Definition attr_changes_only (D : DiffDriver) : Prop :=
  forall from to l c, dd_table_attr_diff D from to = Some l -> In c l ->
    skippable (kind_of_change c) = false.
