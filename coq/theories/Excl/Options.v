(** M-SCHEMA (C19, second sentence, round 3): the functional options of the differ,
    sql/schema/migrate.go -- DiffOptions, DiffOption, NewDiffOptions, DiffSkipChanges,
    DiffNormalized, DiffOptions.Skipped -- over the kinds of Excl/Skip.v.

    Go: an option is a closure [func] on a pointer to [DiffOptions]; [NewDiffOptions(opts...)] starts from the
    zero [DiffOptions] and runs the options in order; [DiffSkipChanges(changes...)] appends its
    (closed-over) slice to [o.SkipChanges]; [DiffNormalized()] sets [o.Mode].  Every
    SchemaDiff/TableDiff/RealmDiff of sql/internal/sqlx/diff.go builds its own [DiffOptions]
    this way, so an option VALUE is an input of many diffs.  In the model an option is a
    function on the record: it cannot be rewritten by being applied.  That the Go closures
    behave like such functions (the closed-over slice is never written, [o] is fresh per diff)
    is what the "reuse" stage of the tie observes on the real code.

    [Mode] is carried but does not enter the differ model (Diff/DiffModel.v models the
    normalized mode, which is what the harness passes).
    No proofs in this file. *)
From Coq Require Import List NArith Bool.
From Atlas Require Import Base.Bytes Diff.Schema Diff.DiffModel Diff.DiffSqlite Excl.Skip.
Import ListNotations.

Inductive DiffMode := DiffModeUnset | DiffModeNotNormalized | DiffModeNormalized.

Record DiffOptions := mkDiffOptions { SkipChanges : list kind; Mode : DiffMode }.

Definition DiffOption := DiffOptions -> DiffOptions.

(** [NewDiffOptions(opts...)]: o := &DiffOptions{}; for _, opt := range opts { opt(o) } *)
Definition NewDiffOptions (opts : list DiffOption) : DiffOptions :=
  fold_left (fun o opt => opt o) opts (mkDiffOptions [] DiffModeUnset).

(** [DiffSkipChanges(changes...)]: o.SkipChanges = append(o.SkipChanges, changes...) *)
Definition DiffSkipChanges (changes : list kind) : DiffOption :=
  fun o => mkDiffOptions (SkipChanges o ++ changes) (Mode o).

(** [DiffNormalized()]: o.Mode = DiffModeNormalized *)
Definition DiffNormalized : DiffOption :=
  fun o => mkDiffOptions (SkipChanges o) DiffModeNormalized.

(** [DiffOptions.Skipped(c)]: some element of o.SkipChanges has the dynamic type of c *)
Definition Skipped (o : DiffOptions) (t : tag) : bool := skip_of (SkipChanges o) t.

(** first-order description of an option value (what the harness sends to the model) *)
Inductive optd := OSkip (K : list kind) | ONormalized.

Definition option_of (d : optd) : DiffOption :=
  match d with OSkip K => DiffSkipChanges K | ONormalized => DiffNormalized end.

(** the kinds a list of option values names, in application order, duplicates kept *)
Definition kinds_of (ds : list optd) : list kind :=
  flat_map (fun d => match d with OSkip K => K | ONormalized => [] end) ds.

(** every kind an option list names is one the policy can name (gen/Gen_SkipKinds.v) *)
Definition skippable_opts (ds : list optd) : Prop :=
  Forall (fun d => match d with OSkip K => Forall (fun k => skippable k = true) K | ONormalized => True end) ds.

(** [Differ.SchemaDiff(from, to, opts...)] of sqlx.Diff *)
Definition SchemaDiffOpts (D : DiffDriver) (opts : list DiffOption) (from to : schema) : option (list schange) :=
  SchemaDiff D (Skipped (NewDiffOptions opts)) from to.

(** a caller that keeps option values and passes sub-lists of them to a sequence of diffs *)
Definition diff_sequence (D : DiffDriver) (calls : list (list optd)) (from to : schema) : list (option (list schange)) :=
  map (fun ds => SchemaDiffOpts D (map option_of ds) from to) calls.

Definition sqlite_diff_sequence := diff_sequence sqlite_driver.
