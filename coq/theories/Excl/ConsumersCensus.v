(** C19 round 5: the census of the consumers of the exclude option (gen/Gen_ExcludeSites.v, rewritten from
    the Go sources on every run by harness/cmd/glob/gensites.go) against the model Excl/Consumers.v.
    Boolean checks only; the theorem is in Props_C19.v. *)
From Coq Require Import List String Bool.
From Atlas Require Import Excl.Consumers gen.Gen_ExcludeSites.
Import ListNotations.
Open Scope string_scope.

(** the constructor of the cobra command and its Run function (cmdapi) *)
Definition cmd_ctor (c : command) : string :=
  match c with
  | CInspect => "schemaInspectCmdWithFlags"
  | CApply => "schemaApplyCmd"
  | CDiff => "schemaDiffCmdWithFlags"
  | CMigrateDiff => "migrateDiffCmd"
  | CClean => "schemaCleanCmd"
  end.
Definition cmd_run (c : command) : string :=
  match c with
  | CInspect => "schemaInspectRun"
  | CApply => "schemaApplyRun"
  | CDiff => "schemaDiffRun"
  | CMigrateDiff => "migrateDiffRun"
  | CClean => "schemaCleanRun"
  end.
Definition all_commands : list command := [CInspect; CApply; CDiff; CMigrateDiff; CClean].

Definition mem_str (s : string) (l : list string) : bool := existsb (String.eqb s) l.

(** (1) addFlagExclude is called by the constructor of [c] iff the model says the command has the flag *)
Definition census_flags : bool :=
  forallb (fun c => Bool.eqb (mem_str (cmd_ctor c) gen_exclude_flag_funcs) (has_exclude_flag c)) all_commands
  && forallb (fun f => existsb (fun c => String.eqb f (cmd_ctor c)) all_commands) gen_exclude_flag_funcs.

(** (2) the stateReaderConfig literals of the Run function of [c]: the text of their exclude values *)
Definition readers_of (f : string) : list string :=
  map snd (filter (fun r => String.eqb (fst r) f) gen_state_readers).
(** how many states the command reads through stateReader *)
Definition n_readers (c : command) : nat :=
  match c with CInspect => 1 | CApply => 2 | CDiff => 2 | CMigrateDiff => 1 | CClean => 0 end.
Definition census_readers : bool :=
  forallb (fun c =>
    let want := if has_exclude_flag c then "flags.exclude" else "-" in
    Nat.eqb (List.length (readers_of (cmd_run c))) (n_readers c)
    && forallb (String.eqb want) (readers_of (cmd_run c))) all_commands
  && forallb (fun r => existsb (fun c => String.eqb (fst r) (cmd_run c)) all_commands) gen_state_readers.

(** (3) every read of an Exclude field has a known role; in the three drivers it is the second argument of
    schema.ExcludeRealm / schema.ExcludeSchema in the final return of InspectRealm / InspectSchema
    (exclusion is a post-filter of the inspected realm, never part of a catalogue query); the only other
    reader on the inspection path is the mode shortcut of sqlx.ModeInspectSchema/Realm. *)
Definition known_roles : list string :=
  ["forward"; "flag-target"; "accessor-return"; "join"; "len"; "post-filter"; "post-filter-final-return";
   "assign"; "mode-shortcut"; "method-call"].
Definition driver_files : list string :=
  ["sql/sqlite/driver_oss.go"; "sql/mysql/inspect_oss.go"; "sql/postgres/inspect_oss.go"].
Definition in_driver_dir (f : string) : bool :=
  String.prefix "sql/sqlite/" f || String.prefix "sql/mysql/" f || String.prefix "sql/postgres/" f.
Definition site_file (s : string * string * string) := fst (fst s).
Definition site_func (s : string * string * string) := snd (fst s).
Definition site_role (s : string * string * string) := snd s.
Definition driver_sites : list (string * string * string) :=
  filter (fun s => in_driver_dir (site_file s) && negb (String.eqb (site_role s) "method-call")) gen_exclude_sites.
Definition census_sites : bool :=
  forallb (fun s => mem_str (site_role s) known_roles) gen_exclude_sites
  && forallb (fun s => String.eqb (site_role s) "post-filter-final-return"
                       && (String.eqb (site_func s) "InspectRealm" || String.eqb (site_func s) "InspectSchema")) driver_sites
  && forallb (fun f => Nat.eqb (List.length (filter (fun s => String.eqb (site_file s) f) driver_sites)) 2) driver_files
  && Nat.eqb (List.length driver_sites) 6
  (* the env list has exactly one reader: setSchemaEnvFlags *)
  && Nat.eqb (List.length (filter (fun s => String.eqb (site_role s) "join") gen_exclude_sites)) 1
  && forallb (fun s => negb (String.eqb (site_role s) "join") || String.eqb (site_func s) "setSchemaEnvFlags") gen_exclude_sites.
