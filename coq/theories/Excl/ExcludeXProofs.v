(** Proofs about Excl/ExcludeX.v (C19 round 5): whenever ExcludeRealmX succeeds, the views, functions and
    procedures of every surviving schema are the original ones minus exactly those selected by a chain --
    as a [filter] of the original name lists (kept = unchanged and in order). *)
From Coq Require Import List NArith Bool Arith Lia.
From Atlas Require Import Base.Bytes Diff.Schema Excl.Glob Excl.Exclude Excl.ExcludeSpec Excl.ExcludeProofs Excl.ExcludeX.
Import ListNotations.

(** ** the reference: which chain selects a view / function / procedure of schema [sn] *)
(** a view is removed by a TWO-element chain (a three-element chain filters its children) *)
Definition view_hit (G : list (list bytes)) (sn n : bytes) : bool :=
  existsb (fun g => match g with [g0; g1] => sel typeS g0 sn && sel typeV g1 n | _ => false end) G.
(** a function / procedure is removed by a TWO-element chain whose second element selects it (after fix
    C19-exclude-routine-child-pattern; a three-element chain addresses a child of a table / view and leaves it alone) *)
Definition routine_hit (ty : bytes) (G : list (list bytes)) (sn n : bytes) : bool :=
  existsb (fun g => match g with [g0; g1] => sel typeS g0 sn && sel ty g1 n | _ => false end) G.
Definition routine_hit_strict := routine_hit.
(** before the fix: a chain of two OR MORE elements (the function and procedure filters of excludeS did not look at len(glob)) *)
Definition routine_hit_before_fix (ty : bytes) (G : list (list bytes)) (sn n : bytes) : bool :=
  existsb (fun g => match g with g0 :: g1 :: _ => sel typeS g0 sn && sel ty g1 n | _ => false end) G.
Definition xschema_hit (G : list (list bytes)) (sn : bytes) : bool :=
  existsb (fun g => match g with [g0] => sel typeS g0 sn | _ => false end) G.

Lemma gmatch_ok p n b : gmatch p n = EOk b -> gmb p n = b.
Proof.
  unfold gmatch, gmb. destruct (Match p n) as [[|]| | |]; intros H; inversion H; reflexivity.
Qed.

Lemma filterM_gmatch p : forall l l', filterM (fun n => gmatch p n) l = EOk l' ->
  l' = filter (fun n => negb (gmb p n)) l.
Proof.
  induction l as [|x l IH]; intros l' H; simpl in H.
  - inversion H; reflexivity.
  - destruct (gmatch p x) as [m|e] eqn:E; [|discriminate].
    destruct (filterM (fun n => gmatch p n) l) as [r|e] eqn:E2; [|discriminate].
    inversion H; subst. simpl. rewrite (gmatch_ok p x m E). rewrite (IH r eq_refl).
    destruct m; reflexivity.
Qed.

Lemma filter_names_ok ty g l l' : filter_names ty g l = EOk l' ->
  l' = filter (fun n => negb (sel ty g n)) l.
Proof.
  unfold filter_names, sel. rewrite excludeType_eq. destruct (admits ty g); simpl.
  - apply filterM_gmatch.
  - intros H. inversion H; subst. symmetry. apply filter_true.
Qed.

Lemma excludeV_name v g v' : excludeV v g = EOk v' -> v_name v' = v_name v.
Proof.
  unfold excludeV. destruct (filter_names typeC g (v_cols v)); [|discriminate].
  destruct (filter_names typeTg g (v_trigs v)); [|discriminate]. intros H. inversion H; reflexivity.
Qed.

(** the loop over views: names after = names before minus the matched ones when the glob has one element,
    all names when it has a child element *)
Lemma loopX_view_names p gtl : forall l l', loopX v_name excludeV p gtl l = EOk l' ->
  map v_name l' = match gtl with
                  | [] => filter (fun n => negb (gmb p n)) (map v_name l)
                  | _ :: _ => map v_name l
                  end.
Proof.
  induction l as [|x l IH]; intros l' H.
  - simpl in H. inversion H; subst. destruct gtl; reflexivity.
  - cbn [loopX] in H.
    destruct (gmatch p (v_name x)) as [m|e] eqn:E; [|discriminate].
    apply gmatch_ok in E.
    destruct (loopX v_name excludeV p gtl l) as [r|e] eqn:E2.
    2:{ destruct m; [destruct gtl as [|g1 ?]; [discriminate|destruct (excludeV x g1); discriminate]|discriminate]. }
    specialize (IH r eq_refl).
    destruct m.
    + destruct gtl as [|g1 gtl'].
      * inversion H; subst. simpl. rewrite E. simpl. exact IH.
      * destruct (excludeV x g1) as [x'|e] eqn:E3; [|discriminate].
        inversion H; subst. simpl. rewrite (excludeV_name x g1 x' E3). f_equal. exact IH.
    + inversion H; subst. simpl. destruct gtl as [|g1 gtl'].
      * simpl. rewrite E. simpl. f_equal. exact IH.
      * f_equal. exact IH.
Qed.

(** one application of excludeS to a schema: name, view names, functions, procedures *)
Lemma excludeSX_names link s g1 gtl s' : excludeSX link s (g1 :: gtl) = EOk s' ->
  xs_name s' = xs_name s
  /\ map v_name (xs_views s') = match gtl with
                                | [] => filter (fun n => negb (sel typeV g1 n)) (map v_name (xs_views s))
                                | _ :: _ => map v_name (xs_views s)
                                end
  /\ xs_funcs s' = match gtl with
                   | [] => filter (fun n => negb (sel typeFn g1 n)) (xs_funcs s)
                   | _ :: _ => xs_funcs s
                   end
  /\ xs_procs s' = match gtl with
                   | [] => filter (fun n => negb (sel typePr g1 n)) (xs_procs s)
                   | _ :: _ => xs_procs s
                   end.
Proof.
  unfold excludeSX. destruct (excludeObjects (xs_objects s) (g1 :: gtl)) as [objs|e]; [|discriminate].
  rewrite !excludeType_eq.
  destruct (if admits typeT g1 then loopX (fun t => t_name (xt_t t)) (excludeTX link) (glob_of g1) gtl (xs_tables s)
            else EOk (xs_tables s)) as [tabs|e]; [|discriminate].
  destruct (if admits typeV g1 then loopX v_name excludeV (glob_of g1) gtl (xs_views s) else EOk (xs_views s))
    as [views|e] eqn:EV; [|discriminate].
  assert (HV : map v_name views = match gtl with
                                  | [] => filter (fun n => negb (sel typeV g1 n)) (map v_name (xs_views s))
                                  | _ :: _ => map v_name (xs_views s)
                                  end).
  { unfold sel. destruct (admits typeV g1); simpl.
    - exact (loopX_view_names (glob_of g1) gtl (xs_views s) views EV).
    - inversion EV; subst. destruct gtl; [symmetry; apply filter_true|reflexivity]. }
  destruct gtl as [|g2 gtl'].
  - destruct (filter_names typeFn g1 (xs_funcs s)) as [funcs|e] eqn:EF; [|discriminate].
    destruct (filter_names typePr g1 (xs_procs s)) as [procs|e] eqn:EP; [|discriminate].
    intros H. inversion H; subst. simpl.
    split; [reflexivity|]. split; [exact HV|]. split; [exact (filter_names_ok _ _ _ _ EF)|exact (filter_names_ok _ _ _ _ EP)].
  - intros H. inversion H; subst. simpl. split; [reflexivity|]. split; [exact HV|]. split; reflexivity.
Qed.

Lemma filter_filter_neg {A} (p q : A -> bool) l :
  filter (fun x => negb (q x)) (filter (fun x => negb (p x)) l) = filter (fun x => negb (p x || q x)) l.
Proof.
  rewrite filter_filter. apply filter_ext. intros x. rewrite negb_orb. reflexivity.
Qed.

(** all globs, in order, on one schema *)
Lemma applyGlobsX_names link : forall G s o, applyGlobsX link s G = EOk o ->
  match o with
  | None => xschema_hit G (xs_name s) = true
  | Some s' =>
      xs_name s' = xs_name s
      /\ map v_name (xs_views s') = filter (fun n => negb (view_hit G (xs_name s) n)) (map v_name (xs_views s))
      /\ xs_funcs s' = filter (fun n => negb (routine_hit typeFn G (xs_name s) n)) (xs_funcs s)
      /\ xs_procs s' = filter (fun n => negb (routine_hit typePr G (xs_name s) n)) (xs_procs s)
  end.
Proof.
  induction G as [|g G IH]; intros s o H; simpl in H.
  - inversion H; subst. simpl. repeat split; symmetry; apply filter_true.
  - destruct (Nat.ltb 3 (length g)); [discriminate|].
    destruct g as [|g0 gtl]; [discriminate|].
    rewrite excludeType_eq in H.
    assert (SKIP : forall o, applyGlobsX link s G = EOk o ->
                   sel typeS g0 (xs_name s) = false \/ False -> False -> True) by (intros; exact I).
    clear SKIP.
    (* the case "this glob does not concern the schema" *)
    assert (NOHIT : sel typeS g0 (xs_name s) = false -> applyGlobsX link s G = EOk o ->
      match o with
      | None => xschema_hit (( g0 :: gtl) :: G) (xs_name s) = true
      | Some s' =>
          xs_name s' = xs_name s
          /\ map v_name (xs_views s') = filter (fun n => negb (view_hit ((g0 :: gtl) :: G) (xs_name s) n)) (map v_name (xs_views s))
          /\ xs_funcs s' = filter (fun n => negb (routine_hit typeFn ((g0 :: gtl) :: G) (xs_name s) n)) (xs_funcs s)
          /\ xs_procs s' = filter (fun n => negb (routine_hit typePr ((g0 :: gtl) :: G) (xs_name s) n)) (xs_procs s)
      end).
    { intros Hs H'. specialize (IH s o H'). destruct o as [s'|].
      - destruct IH as (A & B & C & D). split; [exact A|].
        unfold view_hit, routine_hit in *. simpl.
        split; [|split].
        + rewrite B. apply filter_ext. intros n. destruct gtl as [|g1 [|g2 gtl']]; try reflexivity. rewrite Hs. reflexivity.
        + rewrite C. apply filter_ext. intros n. destruct gtl as [|g1 [|g2 gtl']]; try reflexivity. rewrite Hs. reflexivity.
        + rewrite D. apply filter_ext. intros n. destruct gtl as [|g1 [|g2 gtl']]; try reflexivity. rewrite Hs. reflexivity.
      - unfold xschema_hit in *. simpl. rewrite IH. rewrite ?orb_true_r. reflexivity. }
    unfold sel in NOHIT. unfold sel.
    destruct (admits typeS g0) eqn:EA; simpl in *.
    + destruct (gmatch (glob_of g0) (xs_name s)) as [m|e] eqn:EM; [|discriminate].
      apply gmatch_ok in EM. destruct m.
      * destruct gtl as [|g1 gtl'].
        -- inversion H; subst. unfold xschema_hit. simpl. unfold sel. rewrite EA, EM. reflexivity.
        -- destruct (excludeSX link s (g1 :: gtl')) as [s1|e] eqn:ES; [|discriminate].
           destruct (excludeSX_names link s g1 gtl' s1 ES) as (N1 & V1 & F1 & P1).
           specialize (IH s1 o H). destruct o as [s'|].
           ++ destruct IH as (A & B & C & D). rewrite N1 in *. split; [exact A|].
              assert (HS : sel typeS g0 (xs_name s) = true) by (unfold sel; rewrite EA, EM; reflexivity).
              unfold view_hit, routine_hit in *. simpl.
              split; [|split].
              ** rewrite B, V1. destruct gtl' as [|g2 gtl''].
                 --- rewrite filter_filter_neg. apply filter_ext. intros n. rewrite HS. reflexivity.
                 --- apply filter_ext. intros n. reflexivity.
              ** rewrite C, F1. destruct gtl' as [|g2 gtl''].
                 --- rewrite filter_filter_neg. apply filter_ext. intros n. rewrite HS. reflexivity.
                 --- apply filter_ext. intros n. reflexivity.
              ** rewrite D, P1. destruct gtl' as [|g2 gtl''].
                 --- rewrite filter_filter_neg. apply filter_ext. intros n. rewrite HS. reflexivity.
                 --- apply filter_ext. intros n. reflexivity.
           ++ rewrite N1 in IH. unfold xschema_hit in *. simpl. rewrite IH. rewrite ?orb_true_r. reflexivity.
      * apply NOHIT; [rewrite EM; reflexivity|exact H].
    + apply NOHIT; [reflexivity|exact H].
Qed.

(** the schemas of the result, by name, with their view names, functions and procedures *)
Definition names_of (s : xschema) : bytes * list bytes * list bytes * list bytes :=
  (xs_name s, map v_name (xs_views s), xs_funcs s, xs_procs s).
Definition ref_names (G : list (list bytes)) (s : xschema) : bytes * list bytes * list bytes * list bytes :=
  (xs_name s,
   filter (fun n => negb (view_hit G (xs_name s) n)) (map v_name (xs_views s)),
   filter (fun n => negb (routine_hit typeFn G (xs_name s) n)) (xs_funcs s),
   filter (fun n => negb (routine_hit typePr G (xs_name s) n)) (xs_procs s)).

Lemma filterSchemasX_names link G : forall r r', filterSchemasX link r G = EOk r' ->
  map names_of r' = map (ref_names G) (filter (fun s => negb (xschema_hit G (xs_name s))) r).
Proof.
  induction r as [|s r IH]; intros r' H; simpl in H.
  - inversion H; reflexivity.
  - destruct (applyGlobsX link s G) as [o|e] eqn:E; [|discriminate].
    destruct (filterSchemasX link r G) as [k|e] eqn:E2; [|discriminate].
    inversion H; subst. pose proof (applyGlobsX_names link G s o E) as HN. simpl.
    destruct o as [s'|].
    + destruct HN as (A & B & C & D).
      destruct (xschema_hit G (xs_name s)) eqn:EH.
      * (* impossible: a hit schema is dropped -- but we only know the converse; show by the code path *)
        exfalso. revert E EH. clear. revert s s'.
        induction G as [|g G IHG]; intros s s' E EH; [discriminate|].
        simpl in E. destruct (Nat.ltb 3 (length g)); [discriminate|].
        destruct g as [|g0 gtl]; [discriminate|]. rewrite excludeType_eq in E.
        unfold xschema_hit in EH. simpl in EH.
        destruct (admits typeS g0) eqn:EA.
        -- destruct (gmatch (glob_of g0) (xs_name s)) as [m|e] eqn:EM; [|discriminate].
           apply gmatch_ok in EM. destruct m.
           ++ destruct gtl as [|g1 gtl']; [discriminate|].
              destruct (excludeSX link s (g1 :: gtl')) as [s1|e] eqn:ES; [|discriminate].
              destruct (excludeSX_names link s g1 gtl' s1 ES) as (N1 & _).
              simpl in EH. apply (IHG s1 s' E). unfold xschema_hit. rewrite N1. exact EH.
           ++ destruct gtl as [|g1 gtl'].
              ** unfold sel in EH. rewrite EA, EM in EH. simpl in EH. exact (IHG s s' E EH).
              ** simpl in EH. exact (IHG s s' E EH).
        -- destruct gtl as [|g1 gtl'].
           ++ unfold sel in EH. rewrite EA in EH. simpl in EH. exact (IHG s s' E EH).
           ++ simpl in EH. exact (IHG s s' E EH).
      * simpl. rewrite (IH k eq_refl). f_equal. unfold names_of, ref_names. rewrite A, B, C, D. reflexivity.
    + rewrite HN. simpl. exact (IH k eq_refl).
Qed.

Theorem ExcludeRealmX_names link r patterns G r' :
  patterns <> [] -> split patterns = EOk G -> ExcludeRealmX link r patterns = EOk r' ->
  map names_of (xr_schemas r') = map (ref_names G) (filter (fun s => negb (xschema_hit G (xs_name s))) (xr_schemas r)).
Proof.
  intros Hne Hs H. unfold ExcludeRealmX in H. destruct patterns as [|p ps]; [congruence|].
  rewrite Hs in H. destruct (realmObjects (xr_objects r) G) as [objs|e]; [|discriminate].
  destruct (filterSchemasX link (xr_schemas r) G) as [ss|e] eqn:E; [|discriminate].
  inversion H; subst. simpl. exact (filterSchemasX_names link G (xr_schemas r) ss E).
Qed.

(** ** the table part: ExcludeRealmX restricted to tables is ExcludeRealm of Excl/Exclude.v, so every
    theorem about tables, columns, indexes, foreign keys and checks carries over to realms that also
    hold views, functions, procedures, objects and triggers *)
Lemma excludeTX_proj link t p t' : excludeTX link t p = EOk t' -> excludeT link (xt_t t) p = EOk (xt_t t').
Proof.
  unfold excludeTX. destruct (excludeT link (xt_t t) p) as [t1|e]; [|discriminate].
  destruct (filter_names typeTg p (xt_trigs t)); [|discriminate]. intros H. inversion H; reflexivity.
Qed.

Lemma excludeSX_proj link s glob s' : excludeSX link s glob = EOk s' ->
  excludeS link (proj_schema s) glob = EOk (proj_schema s').
Proof.
  unfold excludeSX, excludeS. destruct glob as [|g0 gtl]; [discriminate|].
  destruct (excludeObjects (xs_objects s) (g0 :: gtl)) as [objs|e]; [|discriminate].
  destruct (excludeType typeT g0) as [globT exT] eqn:ET.
  destruct (excludeType typeV g0) as [globV exV] eqn:EV.
  destruct exT.
  - destruct (loopX (fun t => t_name (xt_t t)) (excludeTX link) globT gtl (xs_tables s)) as [tabs|e] eqn:EL; [|discriminate].
    intros H.
    assert (HT : xs_tables s' = tabs /\ xs_name s' = xs_name s).
    { destruct (if exV then loopX v_name excludeV globV gtl (xs_views s) else EOk (xs_views s)); [|discriminate].
      destruct (match gtl with [] => filter_names typeFn g0 (xs_funcs s) | _ :: _ => EOk (xs_funcs s) end); [|discriminate].
      destruct (match gtl with [] => filter_names typePr g0 (xs_procs s) | _ :: _ => EOk (xs_procs s) end); [|discriminate].
      inversion H; subst. split; reflexivity. }
    destruct HT as [HT HN]. clear H.
    assert (Hloop : forall l tabs, loopX (fun t => t_name (xt_t t)) (excludeTX link) globT gtl l = EOk tabs ->
      (fix loop (l : list table) : eres (list table) :=
         match l with
         | [] => EOk []
         | t :: l' =>
             match
               match gmatch globT (t_name t) with
               | EOk true => match gtl with
                             | [] => EOk []
                             | g2 :: _ => match excludeT link t g2 with EOk t' => EOk [t'] | EErr e => EErr e end
                             end
               | EOk false => EOk [t]
               | EErr e => EErr e
               end
             with
             | EOk a => match loop l' with EOk r => EOk (a ++ r) | EErr e => EErr e end
             | EErr e => EErr e
             end
         end) (map xt_t l) = EOk (map xt_t tabs)).
    { clear. induction l as [|x l IH]; intros tabs EL.
      - simpl in EL. inversion EL; subst. reflexivity.
      - cbn [loopX] in EL. cbn [map].
        destruct (gmatch globT (t_name (xt_t x))) as [m|e] eqn:EM; [|discriminate].
        destruct (loopX (fun t => t_name (xt_t t)) (excludeTX link) globT gtl l) as [r|e] eqn:ER.
        2:{ destruct m; [destruct gtl as [|g1 ?]; [discriminate|destruct (excludeTX link x g1); discriminate]|discriminate]. }
        specialize (IH r eq_refl).
        destruct m.
        + destruct gtl as [|g1 gtl'].
          * inversion EL; subst. rewrite IH. reflexivity.
          * destruct (excludeTX link x g1) as [x'|e] eqn:EX; [|discriminate].
            rewrite (excludeTX_proj link x g1 x' EX). rewrite IH. inversion EL; subst. reflexivity.
        + rewrite IH. inversion EL; subst. reflexivity. }
    cbv zeta. unfold proj_schema at 1. cbn [s_tables]. rewrite (Hloop _ _ EL).
    unfold set_s_tables, proj_schema. cbn [s_name]. rewrite HT, HN. reflexivity.
  - destruct (if exV then loopX v_name excludeV globV gtl (xs_views s) else EOk (xs_views s)); [|discriminate].
    destruct (match gtl with [] => filter_names typeFn g0 (xs_funcs s) | _ :: _ => EOk (xs_funcs s) end); [|discriminate].
    destruct (match gtl with [] => filter_names typePr g0 (xs_procs s) | _ :: _ => EOk (xs_procs s) end); [|discriminate].
    intros H. inversion H; subst. reflexivity.
Qed.

Lemma applyGlobsX_proj link : forall G s o, applyGlobsX link s G = EOk o ->
  applyGlobs link (proj_schema s) G = EOk (option_map proj_schema o).
Proof.
  induction G as [|g G IH]; intros s o H; simpl in H |- *.
  - inversion H; reflexivity.
  - destruct (Nat.ltb 3 (length g)); [discriminate|].
    destruct g as [|g0 gtl]; [discriminate|].
    destruct (excludeType typeS g0) as [globS ex]. destruct ex; [|exact (IH s o H)].
    change (s_name (proj_schema s)) with (xs_name s).
    destruct (gmatch globS (xs_name s)) as [[|]|e]; [| exact (IH s o H) | discriminate].
    destruct gtl as [|g1 gtl']; [inversion H; reflexivity|].
    destruct (excludeSX link s (g1 :: gtl')) as [s1|e] eqn:ES; [|discriminate].
    rewrite (excludeSX_proj link s (g1 :: gtl') s1 ES). exact (IH s1 o H).
Qed.

Lemma filterSchemasX_proj link G : forall r r', filterSchemasX link r G = EOk r' ->
  filterSchemas link (map proj_schema r) G = EOk (map proj_schema r').
Proof.
  induction r as [|s r IH]; intros r' H; simpl in H |- *.
  - inversion H; reflexivity.
  - destruct (applyGlobsX link s G) as [o|e] eqn:E; [|discriminate].
    destruct (filterSchemasX link r G) as [k|e] eqn:E2; [|discriminate].
    rewrite (applyGlobsX_proj link G s o E), (IH k eq_refl). inversion H; subst.
    destruct o; reflexivity.
Qed.

Theorem ExcludeRealmX_proj link r patterns r' : ExcludeRealmX link r patterns = EOk r' ->
  ExcludeRealm link (proj_realm r) patterns = EOk (proj_realm r').
Proof.
  unfold ExcludeRealmX, ExcludeRealm. destruct patterns as [|p ps]; [intros H; inversion H; reflexivity|].
  destruct (split (p :: ps)) as [G|e]; [|discriminate].
  destruct (realmObjects (xr_objects r) G) as [objs|e]; [|discriminate].
  destruct (filterSchemasX link (xr_schemas r) G) as [ss|e] eqn:E; [|discriminate].
  intros H. inversion H; subst. unfold proj_realm. simpl.
  exact (filterSchemasX_proj link G (xr_schemas r) ss E).
Qed.

(** ** the call succeeds when every glob is answered for every name ([chains_ok]) *)
Lemma filterM_total {A} (f : A -> eres bool) : (forall x, exists b, f x = EOk b) ->
  forall l, exists l', filterM f l = EOk l'.
Proof.
  intros Hf. induction l as [|x l [l' IH]]; [exists []; reflexivity|].
  destruct (Hf x) as [b Hb]. simpl. rewrite Hb, IH. eexists; reflexivity.
Qed.

Lemma filter_names_total ty g l : total_glob (glob_of g) -> exists l', filter_names ty g l = EOk l'.
Proof.
  intros H. unfold filter_names. rewrite excludeType_eq. destruct (admits ty g); [|eexists; reflexivity].
  apply filterM_total. intros n. exists (gmb (glob_of g) n). apply gmatch_total. exact H.
Qed.

Lemma excludeObjects_total all g0 gtl : total_glob (glob_of g0) -> exists l', excludeObjects all (g0 :: gtl) = EOk l'.
Proof.
  intros H. unfold excludeObjects. apply filterM_total. intros o.
  destruct (o_spec o) as [[t n]|]; [|eexists; reflexivity].
  rewrite excludeType_eq. destruct (admits t g0); [|eexists; reflexivity].
  rewrite (gmatch_total _ n H). eexists; reflexivity.
Qed.

Lemma excludeTX_total link t g : total_glob (glob_of g) -> exists t', excludeTX link t g = EOk t'.
Proof.
  intros H. unfold excludeTX. rewrite (excludeT_ok link (xt_t t) g H).
  destruct (filter_names_total typeTg g (xt_trigs t) H) as [l' E]. rewrite E. eexists; reflexivity.
Qed.

Lemma excludeV_total v g : total_glob (glob_of g) -> exists v', excludeV v g = EOk v'.
Proof.
  intros H. unfold excludeV.
  destruct (filter_names_total typeC g (v_cols v) H) as [c E1]. rewrite E1.
  destruct (filter_names_total typeTg g (v_trigs v) H) as [t E2]. rewrite E2. eexists; reflexivity.
Qed.

Lemma loopX_total {A} (name : A -> str) (child : A -> bytes -> eres A) p gtl :
  total_glob p -> (forall x g1, hd_error gtl = Some g1 -> exists x', child x g1 = EOk x') ->
  forall l, exists l', loopX name child p gtl l = EOk l'.
Proof.
  intros Hp Hc. induction l as [|x l [l' IH]]; [exists []; reflexivity|].
  cbn [loopX]. rewrite (gmatch_total p (name x) Hp). rewrite IH.
  destruct (gmb p (name x)); [|eexists; reflexivity].
  destruct gtl as [|g1 gtl']; [eexists; reflexivity|].
  destruct (Hc x g1 eq_refl) as [x' E]. rewrite E. eexists; reflexivity.
Qed.

Lemma excludeSX_total link s g1 gtl : total_glob (glob_of g1) -> Forall (fun v => total_glob (glob_of v)) gtl ->
  exists s', excludeSX link s (g1 :: gtl) = EOk s'.
Proof.
  intros H1 Htl. unfold excludeSX.
  destruct (excludeObjects_total (xs_objects s) g1 gtl H1) as [o E]. rewrite E. rewrite !excludeType_eq.
  assert (Hhd : forall g, hd_error gtl = Some g -> total_glob (glob_of g)).
  { intros g Hg. destruct gtl as [|g' ?]; [discriminate|]. inversion Hg; subst. inversion Htl; assumption. }
  assert (ET : exists tabs, (if admits typeT g1 then loopX (fun t => t_name (xt_t t)) (excludeTX link) (glob_of g1) gtl (xs_tables s)
                             else EOk (xs_tables s)) = EOk tabs).
  { destruct (admits typeT g1); [|eexists; reflexivity].
    apply loopX_total; [exact H1|]. intros x g Hg. apply excludeTX_total. exact (Hhd g Hg). }
  destruct ET as [tabs ET]. rewrite ET.
  assert (EV : exists vs, (if admits typeV g1 then loopX v_name excludeV (glob_of g1) gtl (xs_views s) else EOk (xs_views s)) = EOk vs).
  { destruct (admits typeV g1); [|eexists; reflexivity].
    apply loopX_total; [exact H1|]. intros x g Hg. apply excludeV_total. exact (Hhd g Hg). }
  destruct EV as [vs EV]. rewrite EV.
  destruct gtl as [|g2 gtl'].
  - destruct (filter_names_total typeFn g1 (xs_funcs s) H1) as [fs EF]. rewrite EF.
    destruct (filter_names_total typePr g1 (xs_procs s) H1) as [ps EP]. rewrite EP. eexists; reflexivity.
  - eexists; reflexivity.
Qed.

Lemma applyGlobsX_total link : forall G, chains_ok G -> forall s, exists o, applyGlobsX link s G = EOk o.
Proof.
  induction G as [|g G IH]; intros HG s; [eexists; reflexivity|].
  inversion HG as [|g' G' (Hne & Hlen & Hall) HG']; subst. simpl.
  replace (Nat.ltb 3 (length g)) with false by (symmetry; apply Nat.ltb_ge; exact Hlen).
  destruct g as [|g0 gtl]; [congruence|]. inversion Hall as [|? ? H0 Htl]; subst.
  rewrite excludeType_eq. destruct (admits typeS g0); [|exact (IH HG' s)].
  rewrite (gmatch_total _ (xs_name s) H0). destruct (gmb (glob_of g0) (xs_name s)); [|exact (IH HG' s)].
  destruct gtl as [|g1 gtl']; [eexists; reflexivity|].
  inversion Htl as [|? ? H1 Htl']; subst.
  destruct (excludeSX_total link s g1 gtl' H1 Htl') as [s1 E]. rewrite E. exact (IH HG' s1).
Qed.

Lemma filterSchemasX_total link G : chains_ok G -> forall r, exists r', filterSchemasX link r G = EOk r'.
Proof.
  intros HG. induction r as [|s r [r' IH]]; [eexists; reflexivity|].
  simpl. destruct (applyGlobsX_total link G HG s) as [o E]. rewrite E, IH. eexists; reflexivity.
Qed.

Lemma realmObjects_total : forall G, chains_ok G -> forall objs, exists o, realmObjects objs G = EOk o.
Proof.
  induction G as [|g G IH]; intros HG objs; [eexists; reflexivity|].
  inversion HG as [|g' G' (Hne & Hlen & Hall) HG']; subst. simpl.
  destruct g as [|g0 [|g1 gtl]]; [exact (IH HG' objs)| |exact (IH HG' objs)].
  inversion Hall as [|? ? H0 ?]; subst.
  destruct (excludeObjects_total objs g0 [] H0) as [o E]. rewrite E. exact (IH HG' o).
Qed.

Theorem ExcludeRealmX_total link r patterns G :
  split patterns = EOk G -> chains_ok G -> exists r', ExcludeRealmX link r patterns = EOk r'.
Proof.
  intros Hs HG. unfold ExcludeRealmX. destruct patterns as [|p ps]; [eexists; reflexivity|].
  rewrite Hs. destruct (realmObjects_total G HG (xr_objects r)) as [o E]. rewrite E.
  destruct (filterSchemasX_total link G HG (xr_schemas r)) as [ss E2]. rewrite E2. eexists; reflexivity.
Qed.

(** ** after fix C19-exclude-routine-child-pattern: patterns that address children leave functions and procedures alone *)
Lemma three_chains_no_hit ty G sn n : Forall (fun g => length g = 3%nat) G ->
  routine_hit ty G sn n = false /\ xschema_hit G sn = false.
Proof.
  induction G as [|g G IH]; intros H; [split; reflexivity|].
  inversion H as [|g' G' Hg HG]; subst. destruct (IH HG) as [A B].
  unfold routine_hit, xschema_hit in *. simpl. rewrite A, B.
  destruct g as [|a [|b [|c [|d l]]]]; simpl in Hg; try discriminate; split; reflexivity.
Qed.

Theorem child_patterns_keep_routines link r patterns G r' :
  patterns <> [] -> split patterns = EOk G -> Forall (fun g => length g = 3%nat) G ->
  ExcludeRealmX link r patterns = EOk r' ->
  map (fun s => (xs_name s, xs_funcs s, xs_procs s)) (xr_schemas r')
  = map (fun s => (xs_name s, xs_funcs s, xs_procs s)) (xr_schemas r).
Proof.
  intros Hne Hs H3 H. pose proof (ExcludeRealmX_names link r patterns G r' Hne Hs H) as N.
  set (P := fun t : bytes * list bytes * list bytes * list bytes => (fst (fst (fst t)), snd (fst t), snd t)).
  assert (HP : forall l, map P (map names_of l) = map (fun s => (xs_name s, xs_funcs s, xs_procs s)) l)
    by (intros l0; rewrite map_map; reflexivity).
  rewrite <- (HP (xr_schemas r')). rewrite N. rewrite map_map. clear N HP H.
  induction (xr_schemas r) as [|s l IH]; [reflexivity|].
  simpl. destruct (three_chains_no_hit typeFn G (xs_name s) [] H3) as [_ B]. rewrite B. simpl.
  rewrite IH. f_equal. unfold P, ref_names. simpl. f_equal; [f_equal|].
  - rewrite <- (filter_true (xs_funcs s)) at 2. apply filter_ext. intros n.
    destruct (three_chains_no_hit typeFn G (xs_name s) n H3) as [A _]. rewrite A. reflexivity.
  - rewrite <- (filter_true (xs_procs s)) at 2. apply filter_ext. intros n.
    destruct (three_chains_no_hit typePr G (xs_name s) n H3) as [A _]. rewrite A. reflexivity.
Qed.
