(** C19 round 5 (goal 3): census of the places where the differ makes a schema.Change
    (gen/Gen_ChangeSites.v, rewritten from sql/internal/sqlx/diff.go and the three dialect differs on every
    run by harness/cmd/glob/genchanges.go) against the policy kinds (gen/Gen_SkipKinds.v).  Boolean checks
    only; the theorem is in Props_C19.v. *)
From Coq Require Import List String Bool.
From Atlas Require Import gen.Gen_SkipKinds gen.Gen_ChangeSites.
Import ListNotations.
Open Scope string_scope.

Definition in_strs (s : string) (l : list string) : bool := existsb (String.eqb s) l.

(** the diff policy can name the kind (cmdapi Diff.Options) *)
Definition policy_kind (k : string) : bool := in_strs k gen_skip_kinds.

(** the literal is appended to a slice that the same function then feeds element by element to AddOrSkip *)
Definition loop_guarded (f ctx : string) : bool :=
  existsb (fun l => String.eqb (fst l) f && String.eqb ctx ("append:" ++ snd l)) gen_addorskip_loops.
Definition func_has_loop (f : string) : bool := existsb (fun l => String.eqb (fst l) f) gen_addorskip_loops.

(** every call of the function is an argument of AddOrSkip, or sits in a function that feeds what it
    collects to AddOrSkip (columnDiff for the dialects' ColumnChange) -- and there is at least one call *)
Definition calls_of (f : string) : list (string * string * string) :=
  filter (fun c => String.eqb (fst (fst c)) f) gen_collector_calls.
Definition calls_guarded (f : string) : bool :=
  match calls_of f with
  | [] => false
  | cs => forallb (fun c => String.eqb (snd c) "addorskip-arg" || func_has_loop (snd (fst c))) cs
  end.

Definition site_kind (s : string * string * string * string) : string := snd (fst s).
Definition site_fn (s : string * string * string * string) : string := snd (fst (fst s)).
Definition site_ctx (s : string * string * string * string) : string := snd s.

(** a literal that is not itself an argument of AddOrSkip *)
Definition bypasses (s : string * string * string * string) : bool := negb (String.eqb (site_ctx s) "addorskip").

Definition site_ok (s : string * string * string * string) : bool :=
  negb (bypasses s)
  || negb (policy_kind (site_kind s))
  || loop_guarded (site_fn s) (site_ctx s)
  || calls_guarded (site_fn s).

Definition census_changes : bool := forallb site_ok gen_change_literals.

(** the kinds made outside every AddOrSkip route (not loop-guarded, not call-guarded) *)
Definition unguarded_kinds : list string :=
  map site_kind (filter (fun s => bypasses s && negb (loop_guarded (site_fn s) (site_ctx s)) && negb (calls_guarded (site_fn s)))
                        gen_change_literals).
