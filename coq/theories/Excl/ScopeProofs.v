(** C19, round 3: [ExcludeSchema] obeys the scope rule of Excl/ScopeSpec.v for every realm, every
    pattern list and every plain schema name -- in particular when tables, columns, indexes are
    called like the schema. *)
From Coq Require Import List NArith Bool Arith Lia.
From Atlas Require Import Base.Bytes Diff.Schema Excl.Glob Excl.Exclude Excl.ExcludeSpec Excl.ExcludeProofs Excl.ScopeSpec.
Import ListNotations.
Local Open Scope N_scope.

(** ** encoding/csv: a plain first field *)
Lemma csv_acc_last l : forall st cur acc x,
  csv l st cur (acc ++ [x]) = option_map (cons x) (csv l st cur acc).
Proof.
  induction l as [|c t IH]; intros st cur acc x.
  - destruct st; simpl; try reflexivity; rewrite rev_app_distr; reflexivity.
  - destruct st; simpl.
    + destruct (c =? ch_dq); [apply IH|]. destruct (c =? ch_dot); [|apply IH].
      change ([] :: acc ++ [x]) with (([] :: acc) ++ [x]). apply IH.
    + destruct (c =? ch_dot).
      * change (rev cur :: acc ++ [x]) with ((rev cur :: acc) ++ [x]). apply IH.
      * destruct (c =? ch_dq); [reflexivity | apply IH].
    + destruct (c =? ch_dq); apply IH.
    + destruct (c =? ch_dq); [apply IH|]. destruct (c =? ch_dot); [|reflexivity].
      change (rev cur :: acc ++ [x]) with ((rev cur :: acc) ++ [x]). apply IH.
Qed.

Lemma plain_cons c n : plain_schema_name (c :: n) -> plain_byte c = true /\ plain_schema_name n.
Proof. unfold plain_schema_name. simpl. intros H. apply andb_prop in H. exact H. Qed.

Lemma plain_byte_neq c : plain_byte c = true ->
  (c =? ch_dot) = false /\ (c =? ch_dq) = false /\ (c =? 10) = false /\ (c =? 13) = false /\
  (c =? ch_star) = false /\ (c =? ch_qm) = false /\ (c =? ch_lbr) = false /\ (c =? ch_rbr) = false /\ (c =? ch_bsl) = false.
Proof.
  unfold plain_byte. intros H. apply negb_true_iff in H.
  repeat (apply orb_false_elim in H; destruct H as [H ?]). repeat split; assumption.
Qed.

Lemma csv_unq_plain n p : plain_schema_name n -> forall cur acc,
  csv (n ++ ch_dot :: p) SUnq cur acc = csv p SStart [] ((rev cur ++ n) :: acc).
Proof.
  induction n as [|c n IH]; intros Hn cur acc; simpl.
  - rewrite app_nil_r. reflexivity.
  - apply plain_cons in Hn. destruct Hn as [Hc Hn]. apply plain_byte_neq in Hc.
    destruct Hc as (Hd & Hq & _). rewrite Hd, Hq. rewrite (IH Hn). simpl. rewrite <- app_assoc. reflexivity.
Qed.

Lemma csv_plain_prefix n p : plain_schema_name n ->
  csv (n ++ ch_dot :: p) SStart [] [] = option_map (cons n) (csv p SStart [] []).
Proof.
  intros Hn. destruct n as [|c n]; simpl.
  - exact (csv_acc_last p SStart [] [] []).
  - pose proof Hn as Hn'. apply plain_cons in Hn'. destruct Hn' as [Hc Hn']. apply plain_byte_neq in Hc.
    destruct Hc as (Hd & Hq & _). rewrite Hq, Hd. rewrite (csv_unq_plain n p Hn'). simpl.
    exact (csv_acc_last p SStart [] [] (c :: n)).
Qed.

Lemma has_crlf_plain n p : plain_schema_name n -> has_crlf (n ++ ch_dot :: p) = has_crlf p.
Proof.
  intros Hn. unfold has_crlf. rewrite existsb_app. simpl.
  replace (existsb (fun c => (c =? 10) || (c =? 13)) n) with false; [reflexivity|].
  symmetry. induction n as [|c n IH]; [reflexivity|]. simpl.
  apply plain_cons in Hn. destruct Hn as [Hc Hn]. apply plain_byte_neq in Hc.
  destruct Hc as (_ & _ & H10 & H13 & _). rewrite H10, H13. simpl. exact (IH Hn).
Qed.

Definition qualify (n p : bytes) : bytes := n ++ ch_dot :: p.

Lemma split1_qualify n p g : plain_schema_name n -> split1 p = EOk g -> split1 (qualify n p) = EOk (n :: g).
Proof.
  intros Hn Hp. unfold split1, qualify in *. rewrite (has_crlf_plain n p Hn).
  destruct (has_crlf p); [discriminate|].
  destruct p as [|c p]; [discriminate|].
  rewrite (csv_plain_prefix n (c :: p) Hn).
  destruct (csv (c :: p) SStart [] []) as [[|g0 gs]|]; try discriminate.
  inversion Hp; subst. simpl. destruct n; reflexivity.
Qed.

Lemma split_qualify n pats G : plain_schema_name n -> split pats = EOk G ->
  split (map (qualify n) pats) = EOk (map (cons n) G).
Proof.
  intros Hn. revert G. induction pats as [|p ps IH]; intros G H; simpl in *.
  - inversion H; subst. reflexivity.
  - destruct (split1 p) as [g|e] eqn:E1; [|discriminate].
    destruct (split ps) as [gs|e] eqn:E2; [|discriminate]. inversion H; subst.
    rewrite (split1_qualify n p g Hn E1), (IH gs eq_refl). reflexivity.
Qed.

(** ** filepath.Match with a pattern without meta characters is equality *)
Fixpoint lit (chunk s : bytes) (failed : bool) : option bytes :=
  match chunk with
  | [] => if failed then None else Some s
  | c :: t =>
    let failed := if negb failed && is_nil s then true else failed in
    if failed then lit t s true
    else match s with s0 :: s' => lit t s' (negb (c =? s0)) | [] => None end
  end.

Lemma matchChunkLoop_plain chunk : plain_schema_name chunk -> forall fuel s failed,
  (length chunk < fuel)%nat -> matchChunkLoop fuel chunk s failed = Ok (lit chunk s failed).
Proof.
  induction chunk as [|c t IH]; intros Hp fuel s failed Hf.
  - destruct fuel; [simpl in Hf; lia|]. simpl. destruct failed; reflexivity.
  - destruct fuel; [simpl in Hf; lia|]. simpl in Hf.
    apply plain_cons in Hp. destruct Hp as [Hc Hp]. apply plain_byte_neq in Hc.
    destruct Hc as (_ & _ & _ & _ & _ & Hqm & Hlbr & _ & Hbsl).
    cbn [matchChunkLoop lit]. rewrite Hlbr, Hqm, Hbsl.
    destruct (if negb failed && is_nil s then true else failed) eqn:Ef.
    + apply IH; [exact Hp | lia].
    + destruct s as [|s0 s'].
      * destruct failed; simpl in Ef; discriminate.
      * apply IH; [exact Hp | lia].
Qed.

Lemma lit_failed chunk : forall s, lit chunk s true = None.
Proof. induction chunk as [|c t IH]; intros s; simpl; [reflexivity | apply IH]. Qed.

Lemma lit_prefix chunk : forall s rest, lit chunk s false = Some rest <-> s = chunk ++ rest.
Proof.
  induction chunk as [|c t IH]; intros s rest; simpl.
  - split; intros H; [inversion H; reflexivity | subst; reflexivity].
  - destruct s as [|s0 s']; simpl.
    + rewrite lit_failed. split; intros H; discriminate.
    + destruct (c =? s0) eqn:E; simpl.
      * apply N.eqb_eq in E. subst. rewrite IH. split; intros H; [subst; reflexivity | inversion H; reflexivity].
      * rewrite lit_failed. apply N.eqb_neq in E. split; intros H; [discriminate | inversion H; congruence].
Qed.

Lemma strip_stars_plain c n : (c =? ch_star) = false -> strip_stars (c :: n) = (false, c :: n).
Proof. intros H. simpl. rewrite H. reflexivity. Qed.

Lemma scan_plain n : plain_schema_name n -> scan n false = (n, []).
Proof.
  induction n as [|c n IH]; intros Hp; [reflexivity|].
  apply plain_cons in Hp. destruct Hp as [Hc Hp]. apply plain_byte_neq in Hc.
  destruct Hc as (_ & _ & _ & _ & Hst & _ & Hlbr & Hrbr & Hbsl).
  simpl. rewrite Hbsl, Hlbr, Hrbr, Hst. simpl. rewrite (IH Hp). reflexivity.
Qed.

Theorem Match_plain n m : plain_schema_name n -> Match n m = Ok (bytes_eqb n m).
Proof.
  intros Hp. unfold Match. destruct n as [|c n].
  - simpl. destruct m; reflexivity.
  - pose proof Hp as Hp'. apply plain_cons in Hp'. destruct Hp' as [Hc _]. apply plain_byte_neq in Hc.
    destruct Hc as (_ & _ & _ & _ & Hst & _).
    cbn [MatchLoop]. unfold scanChunk. rewrite (strip_stars_plain c n Hst), (scan_plain (c :: n) Hp).
    cbn [andb is_nil]. unfold matchChunk. rewrite (matchChunkLoop_plain (c :: n) Hp); [|lia].
    destruct (lit (c :: n) m false) as [t|] eqn:E.
    + apply lit_prefix in E. destruct t as [|t0 t].
      * rewrite app_nil_r in E. subst m. simpl. rewrite N.eqb_refl, bytes_eqb_refl. reflexivity.
      * cbn [is_nil orb negb]. replace (bytes_eqb (c :: n) m) with false; [reflexivity|].
        symmetry. apply bytes_eqb_neq. intros H. subst m.
        apply (f_equal (@length N)) in H. rewrite app_length in H. simpl in H. lia.
    + replace (bytes_eqb (c :: n) m) with false; [reflexivity|].
      symmetry. apply bytes_eqb_neq. intros H. subst m.
      assert (X : lit (c :: n) (c :: n) false = Some []) by (apply lit_prefix; rewrite app_nil_r; reflexivity).
      congruence.
Qed.

(** ** a plain name as a chain element: no selector, selects exactly the resources of that name *)
Lemma plain_rev n : plain_schema_name n -> plain_schema_name (rev n).
Proof.
  unfold plain_schema_name. rewrite !forallb_forall. intros H x Hx. apply H. apply in_rev. exact Hx.
Qed.

Lemma find_selector_plain n : plain_schema_name n -> find_selector n = None.
Proof.
  intros Hp. unfold find_selector. apply plain_rev in Hp. destruct (rev n) as [|c r1]; [reflexivity|].
  apply plain_cons in Hp. destruct Hp as [Hc _]. apply plain_byte_neq in Hc.
  destruct Hc as (_ & _ & _ & _ & _ & _ & _ & Hrbr & _). rewrite Hrbr. reflexivity.
Qed.

Lemma glob_of_plain n : plain_schema_name n -> glob_of n = n.
Proof. intros Hp. unfold glob_of, excludeType. rewrite (find_selector_plain n Hp). reflexivity. Qed.

Lemma admits_plain ty n : plain_schema_name n -> admits ty n = true.
Proof. intros Hp. unfold admits, excludeType. rewrite (find_selector_plain n Hp). reflexivity. Qed.

Lemma total_glob_plain n : plain_schema_name n -> total_glob (glob_of n).
Proof. intros Hp m. rewrite (glob_of_plain n Hp). exists (bytes_eqb n m). exact (Match_plain n m Hp). Qed.

Lemma sel_plain ty n m : plain_schema_name n -> sel ty n m = bytes_eqb n m.
Proof.
  intros Hp. unfold sel, gmb. rewrite (admits_plain ty n Hp), (glob_of_plain n Hp), (Match_plain n m Hp).
  destruct (bytes_eqb n m); reflexivity.
Qed.

(** ** the chains of the qualified patterns against the scope reference *)
Section Scope.
Variable n : bytes.
Hypothesis Hn : plain_schema_name n.
Variable G : list (list bytes).
Hypothesis HG : scope_chains_ok G.

Lemma qualified_chains_ok : chains_ok (map (cons n) G).
Proof.
  unfold chains_ok, scope_chains_ok in *. rewrite Forall_map. eapply Forall_impl; [|exact HG].
  intros g (H1 & H2 & H3). split; [discriminate|]. split; [simpl; lia|].
  constructor; [exact (total_glob_plain n Hn) | exact H3].
Qed.

Lemma schema_hit_qualified s : schema_hit (map (cons n) G) s = false.
Proof.
  unfold schema_hit. unfold scope_chains_ok in HG. induction G as [|g G' IH]; [reflexivity|].
  inversion HG as [|? ? (H1 & _) HG']; subst. simpl.
  destruct g as [|g1 g]; [congruence|]. simpl. exact (IH HG').
Qed.

Lemma table_hit_qualified s t :
  table_hit (map (cons n) G) s t = bytes_eqb n (s_name s) && scope_table_hit G t.
Proof.
  unfold table_hit, scope_table_hit. clear HG. induction G as [|g G' IH]; simpl.
  - rewrite andb_false_r. reflexivity.
  - rewrite IH. rewrite andb_orb_distrib_r. f_equal.
    destruct g as [|g1 [|g2 g]]; simpl; try (rewrite andb_false_r; reflexivity).
    rewrite (sel_plain typeS n (s_name s) Hn). reflexivity.
Qed.

Lemma child_globs_qualified s t :
  child_globs (map (cons n) G) s t = if bytes_eqb n (s_name s) then scope_child_globs G t else [].
Proof.
  unfold child_globs, scope_child_globs. clear HG.
  pose proof (sel_plain typeS n (s_name s) Hn) as Hsel.
  destruct (bytes_eqb n (s_name s)); induction G as [|g G' IH]; simpl; try reflexivity;
    rewrite IH; destruct g as [|g1 [|g2 [|g3 g]]]; simpl; try reflexivity; rewrite Hsel; reflexivity.
Qed.

Lemma ref_table_nil link t : ref_table link [] t = t.
Proof.
  unfold ref_table, col_hit, check_hit. simpl. rewrite !filter_true. apply set_t_children_id.
Qed.

Lemma map_id_ext {A} (f : A -> A) l : (forall x, f x = x) -> map f l = l.
Proof. intros H. induction l as [|x l IH]; simpl; [reflexivity | rewrite H, IH; reflexivity]. Qed.

Lemma ref_schema_qualified link s :
  ref_schema link (map (cons n) G) s = if bytes_eqb n (s_name s) then scope_schema link G s else s.
Proof.
  unfold ref_schema, scope_schema.
  rewrite (filter_ext _ (fun t => negb (bytes_eqb n (s_name s) && scope_table_hit G t)))
    by (intros t; rewrite table_hit_qualified; reflexivity).
  rewrite (map_ext _ (fun t => ref_table link (if bytes_eqb n (s_name s) then scope_child_globs G t else []) t))
    by (intros t; rewrite child_globs_qualified; reflexivity).
  destruct (bytes_eqb n (s_name s)); simpl; [reflexivity|].
  rewrite filter_true, (map_id_ext _ _ (ref_table_nil link)). destruct s; reflexivity.
Qed.

Lemma ref_realm_qualified link r : ref_realm link (map (cons n) G) r = scope_realm link n G r.
Proof.
  unfold ref_realm, scope_realm.
  rewrite (filter_ext _ (fun _ => true)) by (intros s; rewrite schema_hit_qualified; reflexivity).
  rewrite filter_true. apply map_ext. intros s. apply ref_schema_qualified.
Qed.

End Scope.

Lemma scope_schema_nil link s : scope_schema link [] s = s.
Proof.
  unfold scope_schema, scope_table_hit, scope_child_globs. simpl. rewrite filter_true.
  rewrite (map_id_ext _ _ (ref_table_nil link)). destruct s; reflexivity.
Qed.

(** [ExcludeSchema] = the scope reference, for every realm (so: whatever the tables, columns,
    indexes of any schema are called), every pattern list that splits, every plain schema name *)
Theorem ExcludeSchema_scope link r s pats G :
  plain_schema_name (s_name s) -> split pats = EOk G -> scope_chains_ok G ->
  ExcludeSchema link r s pats = EOk (scope_realm link (s_name s) G r).
Proof.
  intros Hn Hs HG. unfold ExcludeSchema. destruct pats as [|p ps].
  - simpl in Hs. inversion Hs; subst. f_equal. unfold scope_realm. symmetry. apply map_id_ext.
    intros x. rewrite scope_schema_nil. destruct (bytes_eqb _ _); reflexivity.
  - change (map (fun p0 => s_name s ++ ch_dot :: p0) (p :: ps)) with (map (qualify (s_name s)) (p :: ps)).
    rewrite (ExcludeRealm_ref link r _ (map (cons (s_name s)) G)
               (split_qualify (s_name s) (p :: ps) G Hn Hs) (qualified_chains_ok (s_name s) Hn G HG)).
    rewrite (ref_realm_qualified (s_name s) Hn G HG). reflexivity.
Qed.
