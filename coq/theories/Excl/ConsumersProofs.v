(** Proofs about Excl/Consumers.v (C19 round 5): the csv reader of pflag on a comma-joined list of
    plain patterns is the list; the three routes of an exclude list (env block, one flag value,
    one flag occurrence per pattern) give the same [flags.exclude]; a flag given on the command
    line hides the env list; both states of a command are filtered by that one list. *)
From Coq Require Import List NArith Bool Arith Lia.
From Atlas Require Import Base.Bytes Diff.Schema Diff.DiffModel Diff.DiffSqlite Excl.Glob Excl.Exclude Excl.Consumers.
Import ListNotations.
Local Open Scope N_scope.

(** a byte that the csv reader of pflag copies: no comma, no double quote, no CR/LF *)
Definition plain_byteb (c : N) : bool :=
  negb (c =? ch_comma) && negb (c =? ch_dq) && negb (c =? 10) && negb (c =? 13).
Definition plain_pat (p : bytes) : Prop := forallb plain_byteb p = true.
Definition plain_pats (ps : list bytes) : Prop := Forall plain_pat ps.

Lemma plain_byte_inv c : plain_byteb c = true ->
  (c =? ch_comma) = false /\ (c =? ch_dq) = false /\ (c =? 10) = false /\ (c =? 13) = false.
Proof.
  unfold plain_byteb. intros H.
  apply andb_true_iff in H as [H H4]. apply andb_true_iff in H as [H H3]. apply andb_true_iff in H as [H1 H2].
  apply negb_true_iff in H1, H2, H3, H4. auto.
Qed.

Lemma plain_cons c p : plain_pat (c :: p) -> plain_byteb c = true /\ plain_pat p.
Proof. unfold plain_pat. simpl. intros H. apply andb_true_iff in H. exact H. Qed.

Lemma comma_not_dq : (ch_comma =? ch_dq) = false.
Proof. reflexivity. Qed.

Lemma csvc_unq_plain p : plain_pat p -> forall rest cur acc,
  csvc ch_comma (p ++ ch_comma :: rest) SUnq cur acc = csvc ch_comma rest SStart [] (rev (rev p ++ cur) :: acc).
Proof.
  induction p as [|c p IH]; intros Hp rest cur acc.
  - simpl. try rewrite N.eqb_refl. reflexivity.
  - apply plain_cons in Hp. destruct Hp as [Hc Hp]. apply plain_byte_inv in Hc. destruct Hc as (Hk & Hq & _).
    simpl. rewrite Hk, Hq. rewrite (IH Hp). simpl. rewrite <- app_assoc. reflexivity.
Qed.

Lemma csvc_unq_plain_end p : plain_pat p -> forall cur acc,
  csvc ch_comma p SUnq cur acc = Some (rev (rev (rev p ++ cur) :: acc)).
Proof.
  induction p as [|c p IH]; intros Hp cur acc.
  - reflexivity.
  - apply plain_cons in Hp. destruct Hp as [Hc Hp]. apply plain_byte_inv in Hc. destruct Hc as (Hk & Hq & _).
    simpl. rewrite Hk, Hq. rewrite (IH Hp). simpl. rewrite <- app_assoc. reflexivity.
Qed.

Lemma rev_rev_single (c : N) p : rev (rev p ++ [c]) = c :: p.
Proof. rewrite rev_app_distr, rev_involutive. reflexivity. Qed.

Lemma csvc_field p : plain_pat p -> forall rest acc,
  csvc ch_comma (p ++ ch_comma :: rest) SStart [] acc = csvc ch_comma rest SStart [] (p :: acc).
Proof.
  intros Hp rest acc. destruct p as [|c p].
  - simpl. try rewrite comma_not_dq. try rewrite N.eqb_refl. reflexivity.
  - apply plain_cons in Hp. destruct Hp as [Hc Hp]. apply plain_byte_inv in Hc. destruct Hc as (Hk & Hq & _).
    simpl. rewrite Hq, Hk. rewrite (csvc_unq_plain p Hp). rewrite rev_rev_single. reflexivity.
Qed.

Lemma csvc_field_end p : plain_pat p -> forall acc,
  csvc ch_comma p SStart [] acc = Some (rev (p :: acc)).
Proof.
  intros Hp acc. destruct p as [|c p].
  - reflexivity.
  - apply plain_cons in Hp. destruct Hp as [Hc Hp]. apply plain_byte_inv in Hc. destruct Hc as (Hk & Hq & _).
    simpl. rewrite Hq, Hk. rewrite (csvc_unq_plain_end p Hp). rewrite rev_rev_single. reflexivity.
Qed.

Lemma csvc_join ps : plain_pats ps -> ps <> [] -> forall acc,
  csvc ch_comma (join_comma ps) SStart [] acc = Some (rev acc ++ ps).
Proof.
  induction ps as [|p ps IH]; intros Hps Hne acc; [congruence|].
  inversion Hps as [|p' ps' Hp Hps']; subst.
  destruct ps as [|q ps].
  - simpl. rewrite (csvc_field_end p Hp). reflexivity.
  - change (join_comma (p :: q :: ps)) with (p ++ ch_comma :: join_comma (q :: ps)).
    rewrite (csvc_field p Hp). rewrite (IH Hps' ltac:(discriminate)). simpl. rewrite <- app_assoc. reflexivity.
Qed.

Lemma has_crlf_app a b : has_crlf (a ++ b) = has_crlf a || has_crlf b.
Proof. unfold has_crlf. apply existsb_app. Qed.

Lemma has_crlf_plain p : plain_pat p -> has_crlf p = false.
Proof.
  induction p as [|c p IH]; intros Hp; [reflexivity|].
  apply plain_cons in Hp. destruct Hp as [Hc Hp]. apply plain_byte_inv in Hc. destruct Hc as (_ & _ & H10 & H13).
  unfold has_crlf in *. simpl. rewrite H10, H13. simpl. exact (IH Hp).
Qed.

Lemma has_crlf_join ps : plain_pats ps -> has_crlf (join_comma ps) = false.
Proof.
  induction ps as [|p ps IH]; intros Hps; [reflexivity|].
  inversion Hps as [|p' ps' Hp Hps']; subst. destruct ps as [|q ps].
  - simpl. exact (has_crlf_plain p Hp).
  - change (join_comma (p :: q :: ps)) with (p ++ ch_comma :: join_comma (q :: ps)).
    rewrite has_crlf_app, (has_crlf_plain p Hp). simpl.
    change (existsb (fun c => (c =? 10) || (c =? 13)) (join_comma (q :: ps))) with (has_crlf (join_comma (q :: ps))).
    exact (IH Hps').
Qed.

(** the csv reader of pflag gives back a comma-joined list of plain patterns *)
Lemma readAsCSV_join ps : plain_pats ps -> join_comma ps <> [] -> readAsCSV (join_comma ps) = EOk ps.
Proof.
  intros Hps Hne. unfold readAsCSV. destruct (join_comma ps) as [|c l] eqn:E; [congruence|].
  rewrite <- E. rewrite (has_crlf_join ps Hps).
  assert (Hn : ps <> []) by (intros ->; simpl in E; discriminate).
  rewrite (csvc_join ps Hps Hn []). reflexivity.
Qed.

Lemma readAsCSV_single p : plain_pat p -> p <> [] -> readAsCSV p = EOk [p].
Proof.
  intros Hp Hne. apply (readAsCSV_join [p]); [constructor; [exact Hp|constructor]|exact Hne].
Qed.

Lemma parse_flags_changed ps : plain_pats ps -> Forall (fun p => p <> []) ps -> forall v,
  parse_flags (mkSV v true) ps = EOk (mkSV (v ++ ps) true).
Proof.
  induction ps as [|p ps IH]; intros Hps Hne v.
  - simpl. rewrite app_nil_r. reflexivity.
  - inversion Hps as [|p' ps' Hp Hps']; subst. inversion Hne as [|p'' ps'' Hp0 Hne']; subst.
    simpl. unfold ss_set. rewrite (readAsCSV_single p Hp Hp0). simpl.
    rewrite (IH Hps' Hne'). rewrite <- app_assoc. reflexivity.
Qed.

Lemma parse_flags_each ps : plain_pats ps -> Forall (fun p => p <> []) ps -> ps <> [] ->
  parse_flags sv_zero ps = EOk (mkSV ps true).
Proof.
  intros Hps Hne Hn. destruct ps as [|p ps]; [congruence|].
  inversion Hps as [|p' ps' Hp Hps']; subst. inversion Hne as [|p'' ps'' Hp0 Hne']; subst.
  simpl. unfold ss_set. rewrite (readAsCSV_single p Hp Hp0). simpl.
  exact (parse_flags_changed ps Hps' Hne' [p]).
Qed.

Lemma ss_set_changed s v s' : ss_set s v = EOk s' -> sv_changed s' = true.
Proof. unfold ss_set. destruct (readAsCSV v); [|discriminate]. intros H. inversion H; subst. reflexivity. Qed.

Lemma parse_flags_keeps_changed occ : forall s s', sv_changed s = true -> parse_flags s occ = EOk s' -> sv_changed s' = true.
Proof.
  induction occ as [|v occ IH]; intros s s' Hs H; simpl in H.
  - inversion H; subst. exact Hs.
  - destruct (ss_set s v) as [s1|e] eqn:E; [|discriminate]. exact (IH s1 s' (ss_set_changed s v s1 E) H).
Qed.

Lemma parse_flags_nonempty_changed v occ s s' : parse_flags s (v :: occ) = EOk s' -> sv_changed s' = true.
Proof.
  simpl. destruct (ss_set s v) as [s1|e] eqn:E; [|discriminate]. intros H.
  exact (parse_flags_keeps_changed occ s1 s' (ss_set_changed s v s1 E) H).
Qed.

(** ** the CSV record written by joinCSV (fix C19-env-exclude-csv) is read back field by field, whatever the
    fields hold (commas, quotes, leading spaces); CR / LF are outside the one-line reader *)
Lemma csvc_quoted_body f : forall tail cur acc,
  csvc ch_comma (csv_escape f ++ tail) SQuo cur acc = csvc ch_comma tail SQuo (rev f ++ cur) acc.
Proof.
  induction f as [|c f IH]; intros tail cur acc; [reflexivity|].
  simpl. destruct (c =? ch_dq) eqn:E.
  - apply N.eqb_eq in E. subst c. simpl. rewrite IH. rewrite <- app_assoc. reflexivity.
  - simpl. rewrite E. rewrite IH. rewrite <- app_assoc. reflexivity.
Qed.

Lemma csvc_qfield_mid f rest acc :
  csvc ch_comma (ch_dq :: csv_escape f ++ [ch_dq] ++ ch_comma :: rest) SStart [] acc = csvc ch_comma rest SStart [] (f :: acc).
Proof.
  simpl. rewrite csvc_quoted_body. simpl. rewrite app_nil_r, rev_involutive. reflexivity.
Qed.

Lemma csvc_qfield_end f acc :
  csvc ch_comma (ch_dq :: csv_escape f ++ [ch_dq]) SStart [] acc = Some (rev (f :: acc)).
Proof.
  simpl. rewrite csvc_quoted_body. simpl. rewrite app_nil_r, rev_involutive. reflexivity.
Qed.

Lemma no_special_plain f : existsb csv_special f = false -> plain_pat f.
Proof.
  unfold plain_pat. induction f as [|c f IH]; intros H; [reflexivity|].
  simpl in H. apply orb_false_iff in H. destruct H as [Hc Hf]. simpl. rewrite (IH Hf), andb_true_r.
  unfold csv_special in Hc. unfold plain_byteb.
  apply orb_false_iff in Hc. destruct Hc as [Hc H13]. apply orb_false_iff in Hc. destruct Hc as [Hc H10].
  apply orb_false_iff in Hc. destruct Hc as [Hk Hq]. rewrite Hk, Hq, H10, H13. reflexivity.
Qed.

Lemma unquoted_plain f : fieldNeedsQuotes f = false -> plain_pat f.
Proof.
  destruct f as [|c f]; [reflexivity|]. unfold fieldNeedsQuotes. intros H.
  apply orb_false_iff in H. destruct H as [H _]. apply orb_false_iff in H. destruct H as [_ H].
  exact (no_special_plain (c :: f) H).
Qed.

Lemma csvc_wfield_mid f rest acc :
  csvc ch_comma (csv_field f ++ ch_comma :: rest) SStart [] acc = csvc ch_comma rest SStart [] (f :: acc).
Proof.
  unfold csv_field. destruct (fieldNeedsQuotes f) eqn:E.
  - change ((ch_dq :: csv_escape f ++ [ch_dq]) ++ ch_comma :: rest)
      with (ch_dq :: (csv_escape f ++ [ch_dq]) ++ ch_comma :: rest).
    rewrite <- app_assoc. exact (csvc_qfield_mid f rest acc).
  - exact (csvc_field f (unquoted_plain f E) rest acc).
Qed.

Lemma csvc_wfield_end f acc : csvc ch_comma (csv_field f) SStart [] acc = Some (rev (f :: acc)).
Proof.
  unfold csv_field. destruct (fieldNeedsQuotes f) eqn:E.
  - exact (csvc_qfield_end f acc).
  - exact (csvc_field_end f (unquoted_plain f E) acc).
Qed.

Lemma csvc_record ps : ps <> [] -> forall acc,
  csvc ch_comma (csv_record ps) SStart [] acc = Some (rev acc ++ ps).
Proof.
  induction ps as [|p ps IH]; intros Hne acc; [congruence|].
  destruct ps as [|q ps].
  - simpl. rewrite csvc_wfield_end. reflexivity.
  - change (csv_record (p :: q :: ps)) with (csv_field p ++ ch_comma :: csv_record (q :: ps)).
    rewrite csvc_wfield_mid. rewrite (IH ltac:(discriminate)). simpl. rewrite <- app_assoc. reflexivity.
Qed.

Definition no_crlf (ps : list bytes) : Prop := Forall (fun p => has_crlf p = false) ps.

Lemma has_crlf_escape f : has_crlf (csv_escape f) = has_crlf f.
Proof.
  unfold has_crlf. induction f as [|c f IH]; [reflexivity|].
  simpl. destruct (c =? ch_dq) eqn:E.
  - apply N.eqb_eq in E. subst c. simpl. exact IH.
  - simpl. rewrite IH. reflexivity.
Qed.

Lemma has_crlf_field f : has_crlf (csv_field f) = has_crlf f.
Proof.
  unfold csv_field. destruct (fieldNeedsQuotes f); [|reflexivity].
  change (ch_dq :: csv_escape f ++ [ch_dq]) with ([ch_dq] ++ csv_escape f ++ [ch_dq]).
  rewrite !has_crlf_app, has_crlf_escape. unfold has_crlf at 1 3. simpl. rewrite orb_false_r. reflexivity.
Qed.

Lemma has_crlf_record ps : no_crlf ps -> has_crlf (csv_record ps) = false.
Proof.
  induction ps as [|p ps IH]; intros H; [reflexivity|].
  inversion H as [|p' ps' Hp Hps]; subst. destruct ps as [|q ps].
  - simpl. rewrite has_crlf_field. exact Hp.
  - change (csv_record (p :: q :: ps)) with (csv_field p ++ [ch_comma] ++ csv_record (q :: ps)).
    rewrite !has_crlf_app, has_crlf_field, Hp, (IH Hps). reflexivity.
Qed.

(** the csv reader of pflag gives back every list written by joinCSV *)
Lemma readAsCSV_joinCSV ps : no_crlf ps -> ps <> [] -> ps <> [[]] -> readAsCSV (joinCSV ps) = EOk ps.
Proof.
  intros Hc Hne Hne1.
  assert (J : joinCSV ps = csv_record ps).
  { destruct ps as [|p [|q l]]; [congruence| |destruct p; reflexivity]. destruct p; reflexivity. }
  rewrite J. unfold readAsCSV. pose proof (csvc_record ps Hne []) as R. simpl in R.
  destruct (csv_record ps) as [|c l] eqn:E.
  - simpl in R. inversion R as [R']. congruence.
  - rewrite <- E. rewrite (has_crlf_record ps Hc). rewrite E, R. reflexivity.
Qed.

Lemma joinCSV_nonempty ps : ps <> [] -> ps <> [[]] -> joinCSV ps <> [].
Proof.
  intros Hne Hne1 E.
  assert (J : joinCSV ps = csv_record ps).
  { destruct ps as [|p [|q l]]; [congruence| |destruct p; reflexivity]. destruct p; reflexivity. }
  rewrite J in E. pose proof (csvc_record ps Hne []) as R. rewrite E in R. simpl in R. inversion R. congruence.
Qed.

(** ** the routes *)
Lemma effective_env_exact c ps : has_exclude_flag c = true -> no_crlf ps -> ps <> [] -> ps <> [[]] ->
  effective (mkInv c [] (Some ps)) = EOk ps.
Proof.
  intros Hc Hps Hne Hne1. unfold effective. simpl. rewrite Hc. unfold setSchemaEnvFlags, maySetFlag. simpl.
  pose proof (joinCSV_nonempty ps Hne Hne1) as HJ.
  destruct (joinCSV ps) as [|x l] eqn:E; [congruence|]. rewrite <- E.
  unfold ss_set. rewrite (readAsCSV_joinCSV ps Hps Hne Hne1). reflexivity.
Qed.

Lemma plain_no_crlf ps : plain_pats ps -> no_crlf ps.
Proof. intros H. eapply Forall_impl; [|exact H]. intros p Hp. exact (has_crlf_plain p Hp). Qed.

Lemma effective_env c ps : has_exclude_flag c = true -> plain_pats ps -> join_comma ps <> [] ->
  effective (mkInv c [] (Some ps)) = EOk ps.
Proof.
  intros Hc Hps Hne. apply effective_env_exact; [exact Hc|exact (plain_no_crlf ps Hps)| |].
  - intros ->. apply Hne. reflexivity.
  - intros ->. apply Hne. reflexivity.
Qed.

(** before the fix (strings.Join): one env pattern holding a comma came back as two *)
Definition effective_before_fix (i : invocation) : eres (list bytes) :=
  if has_exclude_flag (i_cmd i) then
    match parse_flags sv_zero (i_flags i) with
    | EErr e => EErr e
    | EOk s =>
      match setSchemaEnvFlags_before_fix s (match i_env i with Some l => l | None => [] end) with
      | EErr e => EErr e
      | EOk s' => EOk (sv_value s')
      end
    end
  else match i_flags i with [] => EOk [] | _ :: _ => EErr EInternal end.

Lemma effective_one_flag c ps e : has_exclude_flag c = true -> plain_pats ps -> join_comma ps <> [] ->
  effective (mkInv c [join_comma ps] e) = EOk ps.
Proof.
  intros Hc Hps Hne. unfold effective. simpl. rewrite Hc. unfold ss_set.
  rewrite (readAsCSV_join ps Hps Hne). simpl. unfold setSchemaEnvFlags, maySetFlag. simpl. reflexivity.
Qed.

Lemma effective_each_flag c ps e : has_exclude_flag c = true -> plain_pats ps -> Forall (fun p => p <> []) ps -> ps <> [] ->
  effective (mkInv c ps e) = EOk ps.
Proof.
  intros Hc Hps Hne Hn. unfold effective. simpl. rewrite Hc.
  rewrite (parse_flags_each ps Hps Hne Hn). unfold setSchemaEnvFlags, maySetFlag. simpl. reflexivity.
Qed.

(** a flag on the command line hides the env list entirely (no merge) *)
Lemma effective_flag_wins c v occ e : effective (mkInv c (v :: occ) e) = effective (mkInv c (v :: occ) None).
Proof.
  unfold effective. cbn [i_cmd i_flags i_env]. destruct (has_exclude_flag c); [|reflexivity].
  destruct (parse_flags sv_zero (v :: occ)) as [s|err] eqn:E; [|reflexivity].
  pose proof (parse_flags_nonempty_changed v occ sv_zero s E) as Hch.
  unfold setSchemaEnvFlags, maySetFlag. rewrite Hch. reflexivity.
Qed.

(** no env selected = an env without exclude attribute *)
Lemma effective_no_env c fl : effective (mkInv c fl None) = effective (mkInv c fl (Some [])).
Proof. reflexivity. Qed.

(** a command without the flag never reads the env list *)
Lemma effective_migrate_diff e : effective (mkInv CMigrateDiff [] e) = EOk [].
Proof. reflexivity. Qed.

Lemma effective_no_flag c e : has_exclude_flag c = false -> effective (mkInv c [] e) = EOk [].
Proof. intros H. unfold effective. simpl. rewrite H. reflexivity. Qed.

(** both states of a command are filtered by one and the same list: the effective one *)
Lemma states_same_list i rawF rawT f t : states_of i rawF rawT = EOk (f, t) ->
  exists pats, effective i = EOk pats /\
               read_state link_db rawF pats = EOk f /\
               read_state (link_to (i_cmd i)) rawT pats = EOk t.
Proof.
  unfold states_of. destruct (effective i) as [pats|e]; [|discriminate]. intros H. exists pats.
  split; [reflexivity|]. unfold states_with in H.
  destruct (read_state link_db rawF pats) as [f'|e1]; [|discriminate].
  destruct (read_state (link_to (i_cmd i)) rawT pats) as [t'|e2]; [|discriminate].
  inversion H; subst. split; reflexivity.
Qed.

Lemma command_diff_routes c ps e rawF rawT :
  has_exclude_flag c = true -> plain_pats ps -> join_comma ps <> [] ->
  command_diff (mkInv c [] (Some ps)) rawF rawT = command_diff (mkInv c [join_comma ps] e) rawF rawT /\
  (Forall (fun p => p <> []) ps ->
   command_diff (mkInv c [] (Some ps)) rawF rawT = command_diff (mkInv c ps e) rawF rawT).
Proof.
  intros Hc Hps Hne.
  assert (Hn : ps <> []) by (intros ->; apply Hne; reflexivity).
  unfold command_diff, states_of. cbn [i_cmd].
  rewrite (effective_env c ps Hc Hps Hne), (effective_one_flag c ps e Hc Hps Hne).
  split; [reflexivity|]. intros Hall. rewrite (effective_each_flag c ps e Hc Hps Hall Hn). reflexivity.
Qed.
