(** C19, first sentence: ExcludeRealm against the reference of ExcludeSpec.v. *)
From Coq Require Import List NArith Bool Arith Lia.
From Atlas Require Import Base.Bytes Diff.Schema Excl.Glob Excl.Exclude Excl.ExcludeSpec.
Import ListNotations.

Lemma excludeType_eq ty v : excludeType ty v = (glob_of v, admits ty v).
Proof. unfold glob_of, admits, excludeType. destruct (find_selector v) as [[pre x]|]; reflexivity. Qed.

Lemma gmatch_total p n : total_glob p -> gmatch p n = EOk (gmb p n).
Proof. intros H. destruct (H n) as [b Hb]. unfold gmatch, gmb. rewrite Hb. destruct b; reflexivity. Qed.

Lemma filterM_ok {A} (f : A -> eres bool) (fb : A -> bool) l :
  (forall x, f x = EOk (fb x)) -> filterM f l = EOk (filter (fun x => negb (fb x)) l).
Proof.
  intros H. induction l as [|x l IH]; simpl; [reflexivity|].
  rewrite H, IH. destruct (fb x); reflexivity.
Qed.

Lemma filter_cols_ok p l : total_glob p ->
  filter_cols p l = (EOk (filter (fun c => negb (gmb p (c_name c))) l),
                     map c_name (filter (fun c => gmb p (c_name c)) l)).
Proof.
  intros H. induction l as [|c l IH]; simpl; [reflexivity|].
  rewrite (gmatch_total _ _ H), IH. destruct (gmb p (c_name c)); reflexivity.
Qed.

Lemma existsb_map_filter {A B} (f : B -> bool) (g : A -> B) (p : A -> bool) l :
  existsb f (map g (filter p l)) = existsb (fun x => p x && f (g x)) l.
Proof. induction l as [|x l IH]; simpl; [reflexivity|]. destruct (p x); simpl; rewrite IH; reflexivity. Qed.

Lemma filter_true {A} (l : list A) : filter (fun _ => true) l = l.
Proof. induction l; simpl; congruence. Qed.

Lemma filter_filter {A} (p q : A -> bool) l : filter p (filter q l) = filter (fun x => q x && p x) l.
Proof. induction l as [|x l IH]; simpl; [reflexivity|]. destruct (q x); simpl; [destruct (p x)|]; rewrite IH; reflexivity. Qed.

(** ** excludeT without errors *)
Definition exT (link : bool * bool) (t : table) (v : bytes) : table :=
  set_t_children t
    (filter (fun c => negb (sel typeC v (c_name c))) (t_cols t))
    (filter (fun i => negb (admits typeI v && (gmb (glob_of v) (i_name i)
        || (fst link && admits typeC v
            && existsb (fun c => gmb (glob_of v) (c_name c) && idx_on (c_name c) i) (t_cols t))))) (t_idx t))
    (filter (fun f => negb (admits typeF v && (gmb (glob_of v) (f_symbol f)
        || (snd link && admits typeC v
            && existsb (fun c => gmb (glob_of v) (c_name c) && fk_on (c_name c) f) (t_cols t))))) (t_fks t))
    (filter (fun k => negb (sel typeK v (k_name k))) (t_checks t)).

Lemma set_t_children_id t : set_t_children t (t_cols t) (t_idx t) (t_fks t) (t_checks t) = t.
Proof. destruct t; reflexivity. Qed.

Lemma idx_filter_ok (link : bool * bool) p hit l : total_glob p ->
  filterM (fun i => if fst link && existsb (fun cn => idx_on cn i) hit then EOk true else gmatch p (i_name i)) l
  = EOk (filter (fun i => negb (fst link && existsb (fun cn => idx_on cn i) hit || gmb p (i_name i))) l).
Proof.
  intros H. apply filterM_ok. intros i. destruct (fst link && _); [reflexivity|]. apply gmatch_total; exact H.
Qed.

Lemma fk_filter_ok (link : bool * bool) p hit l : total_glob p ->
  filterM (fun f => if snd link && existsb (fun cn => fk_on cn f) hit then EOk true else gmatch p (f_symbol f)) l
  = EOk (filter (fun f => negb (snd link && existsb (fun cn => fk_on cn f) hit || gmb p (f_symbol f))) l).
Proof.
  intros H. apply filterM_ok. intros i. destruct (snd link && _); [reflexivity|]. apply gmatch_total; exact H.
Qed.

Lemma check_filter_ok p l : total_glob p ->
  filterM (fun k => gmatch p (k_name k)) l = EOk (filter (fun k => negb (gmb p (k_name k))) l).
Proof. intros H. apply filterM_ok. intros k. apply gmatch_total; exact H. Qed.

Lemma excludeT_ok link t v : total_glob (glob_of v) -> excludeT link t v = EOk (exT link t v).
Proof.
  intros H. unfold excludeT, exT, sel. rewrite !excludeType_eq.
  rewrite (filter_cols_ok _ (t_cols t) H).
  destruct (admits typeC v) eqn:EC, (admits typeI v) eqn:EI, (admits typeF v) eqn:EF,
           (admits typeK v) eqn:EK;
    cbn -[filterM filter existsb idx_on fk_on];
    rewrite ?(idx_filter_ok link _ _ _ H), ?(fk_filter_ok link _ _ _ H), ?(check_filter_ok _ _ H);
    cbn -[filterM filter existsb idx_on fk_on].
  all: f_equal; unfold set_t_children; f_equal; rewrite ?filter_true; try reflexivity.
  all: try (apply filter_ext; intros x; rewrite ?existsb_map_filter;
            destruct (fst link), (snd link); cbn;
            try match goal with |- context [gmb ?a ?b] => destruct (gmb a b) end; cbn;
            rewrite ?andb_true_r, ?orb_true_r, ?orb_false_r; reflexivity).
Qed.

(** ** a sequence of child patterns applied one after the other = the reference table *)
Lemma exT_name link t v : t_name (exT link t v) = t_name t.
Proof. reflexivity. Qed.

Lemma fold_exT_ref link L : forall t, fold_left (exT link) L t = ref_table link L t.
Proof.
  induction L as [|v L IH]; intros t.
  - simpl. unfold ref_table, col_hit, check_hit. simpl. rewrite !filter_true. symmetry. apply set_t_children_id.
  - simpl fold_left. rewrite IH. unfold ref_table, exT, set_t_children. cbn [t_name t_without_rowid t_strict t_cols t_pk t_idx t_fks t_checks].
    f_equal; rewrite filter_filter; apply filter_ext; intros x; unfold col_hit, check_hit; simpl;
      rewrite ?negb_orb; reflexivity.
Qed.

(** ** excludeS without errors *)
Definition exS_step (link : bool * bool) (g1 : bytes) (gtl : list bytes) (t : table) : list table :=
  if sel typeT g1 (t_name t)
  then match gtl with [] => [] | g2 :: _ => [exT link t g2] end
  else [t].

Lemma flat_map_single {A} (l : list A) : flat_map (fun x => [x]) l = l.
Proof. induction l; simpl; congruence. Qed.

Lemma excludeS_ok link s g1 gtl :
  total_glob (glob_of g1) -> Forall (fun v => total_glob (glob_of v)) gtl ->
  excludeS link s (g1 :: gtl) = EOk (set_s_tables s (flat_map (exS_step link g1 gtl) (s_tables s))).
Proof.
  intros H1 Htl. unfold excludeS. rewrite excludeType_eq.
  destruct (admits typeT g1) eqn:EA.
  - assert (Hloop : forall l,
      (fix loop (l : list table) : eres (list table) :=
         match l with
         | [] => EOk []
         | t :: l' =>
             match
               match gmatch (glob_of g1) (t_name t) with
               | EOk true => match gtl with
                             | [] => EOk []
                             | g2 :: _ => match excludeT link t g2 with EOk t' => EOk [t'] | EErr e => EErr e end
                             end
               | EOk false => EOk [t]
               | EErr e => EErr e
               end
             with
             | EOk a => match loop l' with EOk r => EOk (a ++ r) | EErr e => EErr e end
             | EErr e => EErr e
             end
         end) l = EOk (flat_map (exS_step link g1 gtl) l)).
    { induction l as [|t l IH]; [reflexivity|].
      rewrite (gmatch_total _ _ H1). cbn [flat_map]. unfold exS_step at 1, sel. rewrite EA. cbn [andb].
      destruct (gmb (glob_of g1) (t_name t)).
      - destruct gtl as [|g2 gtl']; [rewrite IH; reflexivity|].
        inversion Htl; subst. rewrite (excludeT_ok link t g2) by assumption. rewrite IH. reflexivity.
      - rewrite IH. reflexivity. }
    cbv zeta. rewrite Hloop. reflexivity.
  - f_equal. unfold exS_step, sel. rewrite EA. cbn [andb]. rewrite flat_map_single. destruct s; reflexivity.
Qed.

(** ** the per-table effect of a list of chains, one chain after the other *)
Fixpoint tbl_apply (link : bool * bool) (sn : bytes) (G : list (list bytes)) (t : table) : option table :=
  match G with
  | [] => Some t
  | g :: G' =>
    match g with
    | [g0; g1] => if sel typeS g0 sn && sel typeT g1 (t_name t) then None else tbl_apply link sn G' t
    | [g0; g1; g2] => if sel typeS g0 sn && sel typeT g1 (t_name t)
                      then tbl_apply link sn G' (exT link t g2) else tbl_apply link sn G' t
    | _ => tbl_apply link sn G' t
    end
  end.

Definition o2l {A} (o : option A) : list A := match o with Some x => [x] | None => [] end.

Lemma tbl_apply_ref link s G : forall t,
  tbl_apply link (s_name s) G t =
  if table_hit G s t then None else Some (fold_left (exT link) (child_globs G s t) t).
Proof.
  induction G as [|g G IH]; intros t; [reflexivity|].
  unfold table_hit, child_globs in *. simpl.
  destruct g as [|g0 [|g1 [|g2 [|g3 g']]]]; simpl; rewrite ?IH; try reflexivity.
  - destruct (sel typeS g0 (s_name s) && sel typeT g1 (t_name t)); reflexivity.
  - destruct (sel typeS g0 (s_name s) && sel typeT g1 (t_name t)); simpl; reflexivity.
Qed.

Lemma flat_map_flat_map {A B C} (f : A -> list B) (g : B -> list C) l :
  flat_map g (flat_map f l) = flat_map (fun x => flat_map g (f x)) l.
Proof. induction l as [|x l IH]; simpl; [reflexivity|]. rewrite flat_map_app, IH. reflexivity. Qed.

Lemma schema_hit_name G s s' : s_name s' = s_name s -> schema_hit G s' = schema_hit G s.
Proof. intros E. unfold schema_hit. rewrite E. reflexivity. Qed.

(** ** applyGlobs without errors *)
Lemma applyGlobs_ok link G : chains_ok G -> forall s,
  applyGlobs link s G =
  EOk (if schema_hit G s then None
       else Some (set_s_tables s (flat_map (fun t => o2l (tbl_apply link (s_name s) G t)) (s_tables s)))).
Proof.
  intros HG. induction HG as [|g G (Hne & Hlen & Hg) HG IH]; intros s.
  - simpl. unfold o2l. rewrite flat_map_single. destruct s; reflexivity.
  - cbn [applyGlobs]. destruct (Nat.ltb 3 (length g)) eqn:El; [apply Nat.ltb_lt in El; lia|].
    destruct g as [|g0 gtl]; [congruence|]. rewrite excludeType_eq.
    inversion Hg as [|? ? H0 Htl]; subst.
    assert (Hsh : schema_hit ((g0 :: gtl) :: G) s =
                  (match gtl with [] => sel typeS g0 (s_name s) | _ => false end) || schema_hit G s).
    { unfold schema_hit. simpl. destruct gtl; reflexivity. }
    rewrite Hsh. unfold sel at 1.
    destruct (admits typeS g0) eqn:EA.
    + rewrite (gmatch_total _ _ H0). cbn [andb].
      destruct (gmb (glob_of g0) (s_name s)) eqn:Em.
      * destruct gtl as [|g1 gtl']; [reflexivity|].
        inversion Htl as [|? ? H1 Htl']; subst.
        rewrite (excludeS_ok link s g1 gtl' H1 Htl'). rewrite IH. cbn [orb].
        rewrite (schema_hit_name G (set_s_tables s (flat_map (exS_step link g1 gtl') (s_tables s))) s) by reflexivity.
        destruct (schema_hit G (set_s_tables s (flat_map (exS_step link g1 gtl') (s_tables s)))); [reflexivity|]. f_equal. f_equal. unfold set_s_tables. cbn [s_name s_tables]. f_equal.
        rewrite flat_map_flat_map. apply flat_map_ext. intros t.
        unfold exS_step. cbn [tbl_apply]. unfold sel at 2 4. rewrite EA, Em. cbn [andb].
        simpl in Hlen.
        destruct gtl' as [|g2 [|g3 g']]; [| |simpl in Hlen; lia].
        -- destruct (sel typeT g1 (t_name t)); simpl; [reflexivity|rewrite app_nil_r; reflexivity].
        -- destruct (sel typeT g1 (t_name t)); simpl; rewrite app_nil_r; reflexivity.
      * rewrite IH. destruct gtl as [|g1 gtl']; cbn [orb].
        -- destruct (schema_hit G s); reflexivity.
        -- destruct (schema_hit G s); [reflexivity|]. f_equal. f_equal. f_equal. apply flat_map_ext. intros t.
           cbn [tbl_apply]. unfold sel at 1 3. rewrite EA, Em. cbn [andb].
           destruct gtl' as [|g2 [|g3 g']]; reflexivity.
    + rewrite IH. cbn [andb]. destruct gtl as [|g1 gtl']; cbn [orb].
      * destruct (schema_hit G s); reflexivity.
      * destruct (schema_hit G s); [reflexivity|]. f_equal. f_equal. f_equal. apply flat_map_ext. intros t.
        cbn [tbl_apply]. unfold sel at 1 3. rewrite EA. cbn [andb].
        destruct gtl' as [|g2 [|g3 g']]; reflexivity.
Qed.

Lemma flat_map_o2l_filter_map {A B} (h : A -> bool) (f : A -> B) l :
  flat_map (fun x => o2l (if h x then None else Some (f x))) l = map f (filter (fun x => negb (h x)) l).
Proof. induction l as [|x l IH]; simpl; [reflexivity|]. destruct (h x); simpl; rewrite IH; reflexivity. Qed.

(** ** ExcludeRealm = the reference, when no pattern can fail *)
Theorem filterSchemas_ref link G r : chains_ok G -> filterSchemas link r G = EOk (ref_realm link G r).
Proof.
  intros HG. unfold ref_realm. induction r as [|s r IH]; [reflexivity|].
  cbn [filterSchemas]. rewrite (applyGlobs_ok link G HG s), IH. simpl.
  destruct (schema_hit G s); simpl; [reflexivity|]. f_equal. f_equal.
  unfold ref_schema. f_equal.
  rewrite (flat_map_ext _ (fun t => o2l (if table_hit G s t then None
                                          else Some (ref_table link (child_globs G s t) t)))).
  - apply flat_map_o2l_filter_map.
  - intros t. rewrite tbl_apply_ref, fold_exT_ref. reflexivity.
Qed.

Lemma idx_hit_nolink L : forall cols i, idx_hit false L cols i = idx_hit_strict L i.
Proof.
  induction L as [|v L IH]; intros cols i; [reflexivity|].
  simpl. rewrite IH. unfold idx_hit_strict, sel. simpl. rewrite orb_false_r. reflexivity.
Qed.

Lemma fk_hit_nolink L : forall cols f, fk_hit false L cols f = fk_hit_strict L f.
Proof.
  induction L as [|v L IH]; intros cols f; [reflexivity|].
  simpl. rewrite IH. unfold fk_hit_strict, sel. simpl. rewrite orb_false_r. reflexivity.
Qed.

Lemma ref_realm_nolink G r : ref_realm (false, false) G r = strict_realm G r.
Proof.
  unfold ref_realm, strict_realm. apply map_ext. intros s. unfold ref_schema, strict_schema. f_equal.
  apply map_ext. intros t. unfold ref_table, strict_table. simpl. f_equal; apply filter_ext; intros x.
  - rewrite idx_hit_nolink. reflexivity.
  - rewrite fk_hit_nolink. reflexivity.
Qed.

Theorem ExcludeRealm_ref link r patterns G :
  split patterns = EOk G -> chains_ok G -> ExcludeRealm link r patterns = EOk (ref_realm link G r).
Proof.
  intros Hs HG. unfold ExcludeRealm. destruct patterns as [|p ps].
  - simpl in Hs. inversion Hs; subst. unfold ref_realm, schema_hit. simpl. rewrite filter_true.
    f_equal. induction r as [|s r IH]; [reflexivity|]. simpl. rewrite <- IH. f_equal.
    unfold ref_schema, table_hit. simpl. rewrite filter_true. destruct s as [n ts]. unfold set_s_tables. simpl. f_equal.
    induction ts as [|t ts IHt]; [reflexivity|]. simpl. rewrite <- IHt. f_equal.
    unfold ref_table, child_globs, col_hit, check_hit. simpl. rewrite !filter_true. symmetry. apply set_t_children_id.
  - rewrite Hs. apply filterSchemas_ref. exact HG.
Qed.
