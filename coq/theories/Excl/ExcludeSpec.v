(** C19, first sentence: the reference semantics of a list of exclusion patterns, stated
    resource by resource as "kept iff no pattern chain selects it" (every result list is a
    [filter] of the original list, so what is kept is kept unchanged and in order).
    Definitions only. *)
From Coq Require Import List NArith Bool Arith.
From Atlas Require Import Base.Bytes Diff.Schema Excl.Glob Excl.Exclude.
Import ListNotations.

(** "pattern p matches name n": [filepath.Match] answers true (GlobProofs.v: for a well-formed
    p and a plain name this is the declarative relation [Glob p n]) *)
Definition gmb (p n : bytes) : bool := match Match p n with Ok true => true | _ => false end.

(** p is answered for every name (GlobProofs.v: every well-formed pattern is) *)
Definition total_glob (p : bytes) : Prop := forall n, exists b, Match p n = Ok b.

(** a chain element "glob[type=a|b]": its glob and whether it admits a resource type *)
Definition glob_of (v : bytes) : bytes := fst (excludeType typeS v).
Definition admits (ty v : bytes) : bool := snd (excludeType ty v).
(** the element selects the resource named n of type ty *)
Definition sel (ty v n : bytes) : bool := admits ty v && gmb (glob_of v) n.

Definition chains_ok (G : list (list bytes)) : Prop :=
  Forall (fun g => g <> [] /\ length g <= 3 /\ Forall (fun v => total_glob (glob_of v)) g) G.

(** a one-element chain selects the schema *)
Definition schema_hit (G : list (list bytes)) (s : schema) : bool :=
  existsb (fun g => match g with [g0] => sel typeS g0 (s_name s) | _ => false end) G.

(** a two-element chain selects the table *)
Definition table_hit (G : list (list bytes)) (s : schema) (t : table) : bool :=
  existsb (fun g => match g with
                    | [g0; g1] => sel typeS g0 (s_name s) && sel typeT g1 (t_name t)
                    | _ => false end) G.

(** the last elements of the three-element chains that select table t of schema s, in order *)
Definition child_globs (G : list (list bytes)) (s : schema) (t : table) : list bytes :=
  flat_map (fun g => match g with
                     | [g0; g1; g2] => if sel typeS g0 (s_name s) && sel typeT g1 (t_name t) then [g2] else []
                     | _ => [] end) G.

Definition col_hit (L : list bytes) (c : column) : bool := existsb (fun v => sel typeC v (c_name c)) L.
Definition check_hit (L : list bytes) (k : check) : bool := existsb (fun v => sel typeK v (k_name k)) L.

(** an index is removed by element v when v admits indexes and either selects it by name or
    -- the cascade of excludeT, see C19_exclude_exact_refuted -- v also admits columns,
    selects a column still present that the index has a part on, and the columns carry
    back-pointers ([li]).  "Still present": not selected by an earlier element. *)
Fixpoint idx_hit (li : bool) (L : list bytes) (cols : list column) (i : index) : bool :=
  match L with
  | [] => false
  | v :: L' =>
      (admits typeI v &&
       (gmb (glob_of v) (i_name i)
        || (li && admits typeC v
            && existsb (fun c => gmb (glob_of v) (c_name c) && idx_on (c_name c) i) cols)))
      || idx_hit li L' (filter (fun c => negb (sel typeC v (c_name c))) cols) i
  end.

Fixpoint fk_hit (lf : bool) (L : list bytes) (cols : list column) (f : fkey) : bool :=
  match L with
  | [] => false
  | v :: L' =>
      (admits typeF v &&
       (gmb (glob_of v) (f_symbol f)
        || (lf && admits typeC v
            && existsb (fun c => gmb (glob_of v) (c_name c) && fk_on (c_name c) f) cols)))
      || fk_hit lf L' (filter (fun c => negb (sel typeC v (c_name c))) cols) f
  end.

Definition ref_table (link : bool * bool) (L : list bytes) (t : table) : table :=
  set_t_children t
    (filter (fun c => negb (col_hit L c)) (t_cols t))
    (filter (fun i => negb (idx_hit (fst link) L (t_cols t) i)) (t_idx t))
    (filter (fun f => negb (fk_hit (snd link) L (t_cols t) f)) (t_fks t))
    (filter (fun k => negb (check_hit L k)) (t_checks t)).

Definition ref_schema (link : bool * bool) (G : list (list bytes)) (s : schema) : schema :=
  set_s_tables s (map (fun t => ref_table link (child_globs G s t) t)
                      (filter (fun t => negb (table_hit G s t)) (s_tables s))).

Definition ref_realm (link : bool * bool) (G : list (list bytes)) (r : realm) : realm :=
  map (ref_schema link G) (filter (fun s => negb (schema_hit G s)) r).

(** the statement of the property without the cascade: an index / foreign key is removed
    only when an element selects it by name *)
Definition idx_hit_strict (L : list bytes) (i : index) : bool := existsb (fun v => sel typeI v (i_name i)) L.
Definition fk_hit_strict (L : list bytes) (f : fkey) : bool := existsb (fun v => sel typeF v (f_symbol f)) L.
Definition strict_table (L : list bytes) (t : table) : table :=
  set_t_children t
    (filter (fun c => negb (col_hit L c)) (t_cols t))
    (filter (fun i => negb (idx_hit_strict L i)) (t_idx t))
    (filter (fun f => negb (fk_hit_strict L f)) (t_fks t))
    (filter (fun k => negb (check_hit L k)) (t_checks t)).
Definition strict_schema (G : list (list bytes)) (s : schema) : schema :=
  set_s_tables s (map (fun t => strict_table (child_globs G s t) t)
                      (filter (fun t => negb (table_hit G s t)) (s_tables s))).
Definition strict_realm (G : list (list bytes)) (r : realm) : realm :=
  map (strict_schema G) (filter (fun s => negb (schema_hit G s)) r).
