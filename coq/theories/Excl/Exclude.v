(** M-GLOB (C19): sql/schema/exclude_oss.go -- ExcludeRealm, ExcludeSchema, split,
    excludeS, excludeT, excludeType, filter -- function by function over the
    schema graph of Diff/Schema.v (a realm is a list of schemas).

    Model domain (the harness generator stays inside; stated, not hidden):
    - realms hold schemas with tables only (no realm/schema objects, views,
      functions, procedures, triggers: the loops over them run zero times);
    - table, column, index, foreign-key names are unique inside their parent, so the
      pointer sets [ex]/[ef] of excludeT are sets of names;
    - [c.Indexes] / [c.ForeignKeys] are, as the schema DSL (Index.AddColumns,
      AddParts, ForeignKey.AddColumns) and the HCL loader maintain them, the
      indexes of the table with a part on [c] / the foreign keys with [c] as a
      child column.  [link = (li, lf)]: [li = false] / [lf = false] model a state whose
      columns carry no back-pointers to indexes / foreign keys (sqlite's inspection
      links foreign keys but not indexes: sql/sqlite/inspect.go indexColumns).
    - a pattern holding CR or LF is outside the domain ([EOutside]): [split] reads
      patterns with encoding/csv (Comma = '.'), whose multi-line records are not
      modelled; the single-line reader is the state machine [csv].

    excludeT follows the repaired code (notes/fixes/C19-exclude-bad-pattern.diff): the
    first failing filter returns its error.  (Before the repair every [filter] assigned
    [err] again, so only the error of the LAST executed filter was returned and a failed
    filter had already replaced its list by nil: finding C19-exclude-bad-pattern-swallowed.)

    No proofs in this file. *)
From Coq Require Import List NArith Bool Arith.
From Atlas Require Import Base.Bytes Diff.Schema Excl.Glob.
Import ListNotations.
Local Open Scope N_scope.

Inductive err := EBadPattern | ETooMany | ESplit | EOutside | EInternal.
Inductive eres (A : Type) := EOk (a : A) | EErr (e : err).
Arguments EOk {A} a. Arguments EErr {A} e.

Definition realm := list schema.

Definition set_s_tables (s : schema) (l : list table) : schema := mkSchema (s_name s) l.
Definition set_t_children (t : table) (cols : list column) (idx : list index) (fks : list fkey) (cks : list check) : table :=
  mkTable (t_name t) (t_without_rowid t) (t_strict t) cols (t_pk t) idx fks cks.

(** ** excludeType: reType = `\[type=([a-z|_]+)+\]$` *)
Definition ch_dot : N := 46.
Definition ch_dq : N := 34.
Definition ch_bar : N := 124.
Definition ch_eq : N := 61.

Definition typeS : bytes := [115;99;104;101;109;97].          (* "schema" *)
Definition typeT : bytes := [116;97;98;108;101].              (* "table" *)
Definition typeC : bytes := [99;111;108;117;109;110].         (* "column" *)
Definition typeI : bytes := [105;110;100;101;120].            (* "index" *)
Definition typeF : bytes := [102;107].                        (* "fk" *)
Definition typeK : bytes := [99;104;101;99;107].              (* "check" *)
Definition TYPE_EQ_REV : bytes := [61;101;112;121;116;91].    (* rev "[type=" *)

(** a byte of the class [a-z|_] *)
Definition sel_char (c : N) : bool := ((97 <=? c) && (c <=? 122)) || (c =? ch_bar) || (c =? 95).

Fixpoint span (f : N -> bool) (l : bytes) : bytes * bytes :=
  match l with
  | c :: t => if f c then let '(a, b) := span f t in (c :: a, b) else ([], l)
  | [] => ([], [])
  end.

(** strings.Split(x, "|") *)
Fixpoint split_bar (l : bytes) : list bytes :=
  match l with
  | [] => [[]]
  | c :: t =>
    match split_bar t with
    | cur :: more => if c =? ch_bar then [] :: cur :: more else (c :: cur) :: more
    | [] => [[c]]
    end
  end.

(** [reType.FindStringSubmatch(v)]: Some (text before the selector, captured group) *)
Definition find_selector (v : bytes) : option (bytes * bytes) :=
  match rev v with
  | c :: r1 =>
    if c =? ch_rbr then
      let '(xr, r2) := span sel_char r1 in
      match xr, has_prefix TYPE_EQ_REV r2 with
      | _ :: _, Some pre_rev => Some (rev pre_rev, rev xr)
      | _, _ => None
      end
    else None
  | [] => None
  end.

(** [excludeType(t, v)] *)
Definition excludeType (t v : bytes) : bytes * bool :=
  match find_selector v with
  | None => (v, true)
  | Some (pre, x) => (pre, existsb (fun m => bytes_eqb m t) (split_bar x))
  end.

(** ** split: encoding/csv, Comma '.', one line, LazyQuotes off *)
Inductive cstate := SStart | SUnq | SQuo | SAfterQ.

Fixpoint csv (l : bytes) (st : cstate) (cur : bytes) (acc : list bytes) : option (list bytes) :=
  match l with
  | [] =>
    match st with
    | SQuo => None                                           (* ErrQuote: extraneous or missing quote *)
    | _ => Some (rev (rev cur :: acc))
    end
  | c :: t =>
    match st with
    | SStart => if c =? ch_dq then csv t SQuo [] acc
                else if c =? ch_dot then csv t SStart [] ([] :: acc)
                else csv t SUnq [c] acc
    | SUnq => if c =? ch_dot then csv t SStart [] (rev cur :: acc)
              else if c =? ch_dq then None                   (* ErrBareQuote *)
              else csv t SUnq (c :: cur) acc
    | SQuo => if c =? ch_dq then csv t SAfterQ cur acc else csv t SQuo (c :: cur) acc
    | SAfterQ => if c =? ch_dq then csv t SQuo (c :: cur) acc
                 else if c =? ch_dot then csv t SStart [] (rev cur :: acc)
                 else None                                   (* ErrQuote *)
    end
  end.

Definition has_crlf (p : bytes) : bool := existsb (fun c => (c =? 10) || (c =? 13)) p.

(** one iteration of the loop of [split] *)
Definition split1 (p : bytes) : eres (list bytes) :=
  if has_crlf p then EErr EOutside
  else match p with
       | [] => EErr ESplit                                   (* ReadAll returns no record: "unexpected pattern" *)
       | _ => match csv p SStart [] [] with
              | None => EErr ESplit
              | Some [] => EErr ESplit                       (* "empty pattern" (unreachable) *)
              | Some g => EOk g
              end
       end.

Fixpoint split (patterns : list bytes) : eres (list (list bytes)) :=
  match patterns with
  | [] => EOk []
  | p :: ps =>
    match split1 p with
    | EErr e => EErr e
    | EOk g => match split ps with EErr e => EErr e | EOk gs => EOk (g :: gs) end
    end
  end.

(** ** filter[T] with a matcher that may fail: [EErr] = (nil, err) *)
Fixpoint filterM {A} (f : A -> eres bool) (l : list A) : eres (list A) :=
  match l with
  | [] => EOk []
  | x :: l' =>
    match f x with
    | EErr e => EErr e
    | EOk m =>
      match filterM f l' with
      | EErr e => EErr e
      | EOk r => EOk (if m then r else x :: r)
      end
    end
  end.

(** [filepath.Match] as the callers see it *)
Definition gmatch (p n : bytes) : eres bool :=
  match Match p n with
  | Ok b => EOk b
  | Bad => EErr EBadPattern
  | Fuel | Panic => EErr EInternal
  end.

(** ** excludeT *)
Definition idx_on (cn : str) (i : index) : bool :=
  existsb (fun p => match p_col p with Some n => str_eqb n cn | None => false end) (i_parts i).
Definition fk_on (cn : str) (f : fkey) : bool := existsb (fun n => str_eqb n cn) (f_cols f).

(** the column filter: the kept columns or the error, and the names of the columns
    matched before the filter stopped (their Indexes/ForeignKeys went into ex/ef) *)
Fixpoint filter_cols (p : bytes) (l : list column) : eres (list column) * list str :=
  match l with
  | [] => (EOk [], [])
  | c :: l' =>
    match gmatch p (c_name c) with
    | EErr e => (EErr e, [])
    | EOk m =>
      let '(r, hit) := filter_cols p l' in
      ((match r with EErr e => EErr e | EOk k => EOk (if m then k else c :: k) end),
       if m then c_name c :: hit else hit)
    end
  end.

(** [excludeT] (after fix C19-exclude-bad-pattern: the error of a filter is returned at once,
    the slice is assigned only when the filter succeeded) *)
Definition excludeT (link : bool * bool) (t : table) (pattern : bytes) : eres table :=
  let '(pc, exc) := excludeType typeC pattern in
  let '(rc, hit) := if exc then filter_cols pc (t_cols t) else (EOk (t_cols t), []) in
  match rc with
  | EErr e => EErr e
  | EOk cols =>
    let '(pi, exi) := excludeType typeI pattern in
    match (if exi then filterM (fun i => if fst link && existsb (fun cn => idx_on cn i) hit then EOk true
                                         else gmatch pi (i_name i)) (t_idx t)
           else EOk (t_idx t)) with
    | EErr e => EErr e
    | EOk idxs =>
      let '(pf, exf) := excludeType typeF pattern in
      match (if exf then filterM (fun f => if snd link && existsb (fun cn => fk_on cn f) hit then EOk true
                                           else gmatch pf (f_symbol f)) (t_fks t)
             else EOk (t_fks t)) with
      | EErr e => EErr e
      | EOk fks =>
        (* typeTg: t.Triggers is empty; filter of an empty slice returns (empty, nil) *)
        let '(pk, exk) := excludeType typeK pattern in
        match (if exk then filterM (fun k => gmatch pk (k_name k)) (t_checks t) else EOk (t_checks t)) with
        | EErr e => EErr e
        | EOk cks => EOk (set_t_children t cols idxs fks cks)
        end
      end
    end
  end.

(** ** excludeS (tables only); [glob] = g[1:], one or two elements *)
Definition excludeS (link : bool * bool) (s : schema) (glob : list bytes) : eres schema :=
  match glob with
  | [] => EErr EInternal                                     (* glob[0] on an empty slice *)
  | g0 :: gtl =>
    let '(globT, exclude) := excludeType typeT g0 in
    if exclude then
      let step (t : table) : eres (list table) :=             (* what the loop body appends *)
        match gmatch globT (t_name t) with
        | EErr e => EErr e
        | EOk false => EOk [t]
        | EOk true =>
          match gtl with
          | [] => EOk []
          | g1 :: _ => match excludeT link t g1 with EErr e => EErr e | EOk t' => EOk [t'] end
          end
        end in
      let fix loop (l : list table) : eres (list table) :=
        match l with
        | [] => EOk []
        | t :: l' =>
          match step t with
          | EErr e => EErr e
          | EOk a => match loop l' with EErr e => EErr e | EOk r => EOk (a ++ r) end
          end
        end in
      match loop (s_tables s) with
      | EErr e => EErr e
      | EOk ts => EOk (set_s_tables s ts)
      end
    else EOk s
  end.

(** ** ExcludeRealm *)
(** the inner loop [for i, g := range globs] for one schema: [None] = continue Filter *)
Fixpoint applyGlobs (link : bool * bool) (s : schema) (globs : list (list bytes)) : eres (option schema) :=
  match globs with
  | [] => EOk (Some s)
  | g :: gs =>
    if Nat.ltb 3 (length g) then EErr ETooMany
    else
      match g with
      | [] => EErr EInternal                                 (* g[0] on an empty slice *)
      | g0 :: gtl =>
        let '(globS, exclude) := excludeType typeS g0 in
        if exclude then
          match gmatch globS (s_name s) with
          | EErr e => EErr e
          | EOk false => applyGlobs link s gs
          | EOk true =>
            match gtl with
            | [] => EOk None
            | _ :: _ =>
              match excludeS link s gtl with
              | EErr e => EErr e
              | EOk s' => applyGlobs link s' gs
              end
            end
          end
        else applyGlobs link s gs
      end
  end.

Fixpoint filterSchemas (link : bool * bool) (r : realm) (globs : list (list bytes)) : eres realm :=
  match r with
  | [] => EOk []
  | s :: r' =>
    match applyGlobs link s globs with
    | EErr e => EErr e
    | EOk o =>
      match filterSchemas link r' globs with
      | EErr e => EErr e
      | EOk k => EOk (match o with Some s' => s' :: k | None => k end)
      end
    end
  end.

Definition ExcludeRealm (link : bool * bool) (r : realm) (patterns : list bytes) : eres realm :=
  match patterns with
  | [] => EOk r
  | _ :: _ =>
    match split patterns with
    | EErr e => EErr e
    | EOk globs => filterSchemas link r globs
    end
  end.

(** [ExcludeSchema(s, patterns)] with s.Realm = r: qualifies every pattern with "<s.Name>." *)
Definition ExcludeSchema (link : bool * bool) (r : realm) (s : schema) (patterns : list bytes) : eres realm :=
  match patterns with
  | [] => EOk r
  | _ :: _ => ExcludeRealm link r (map (fun p => s_name s ++ ch_dot :: p) patterns)
  end.
