(** C19: filepath.Match through scanChunk and the star loop (continues GlobProofs.v). *)
From Coq Require Import List NArith Bool Arith Lia ZifyBool ZifyNat ZifyN.
From Atlas Require Import Base.Bytes Excl.Glob Excl.GlobSpec Excl.GlobProofs.
Import ListNotations.
Local Open Scope N_scope.

(** ** utf8: the bytes of a decoded rune after the first are continuation bytes, and the
    decoding of a valid rune does not depend on what follows it *)
Ltac destr_ifs :=
  repeat match goal with
         | |- context [if ?b then _ else _] => let E := fresh "E" in destruct b eqn:E
         end.

Lemma cont_ge b : cont b = true -> 128 <= b.
Proof. unfold cont. lia. Qed.

Lemma decodeRune_tail c t r n : decodeRune (c :: t) = (r, n) ->
  firstn n (c :: t) = c :: firstn (n - 1) t /\ Forall (fun b => 128 <= b) (firstn (n - 1) t).
Proof.
  intros H. pose proof (decodeRune_pos _ _ _ _ H) as Hn. split.
  - destruct n; [lia|]. cbn [firstn]. replace (S n - 1)%nat with n by lia. reflexivity.
  - revert H. unfold decodeRune. destruct t as [|s1 [|s2 [|s3 t]]]; destr_ifs; intros H; inversion H; subst;
      cbn [firstn Nat.sub];
      repeat match goal with E : (_ && _) = true |- _ => apply andb_prop in E; destruct E end;
      repeat match goal with H : context [if ?b then _ else _] |- _ => destruct b end;
      repeat (constructor; try (apply cont_ge; assumption); try lia).
Qed.

Lemma decodeRune_stable c t r n X : decodeRune (c :: t) = (r, n) -> ~ (r = RuneError /\ n = 1%nat) ->
  decodeRune (firstn n (c :: t) ++ X) = (r, n).
Proof.
  unfold decodeRune. destruct t as [|s1 [|s2 [|s3 t]]]; destr_ifs; intros H Hv; inversion H; subst;
    try (exfalso; apply Hv; split; reflexivity); cbn [firstn app];
    repeat match goal with E : ?b = _ |- context [?b] => rewrite E end; reflexivity.
Qed.

(** ** scan over the bytes of a class *)
Lemma scan_cons_plain c t inr :
  c <> ch_bsl -> c <> ch_rbr -> (c = ch_star -> inr = true) -> (c = ch_lbr -> inr = true) ->
  scan (c :: t) inr = (c :: fst (scan t inr), snd (scan t inr)).
Proof.
  intros H1 H2 H3 H4. cbn [scan]. replace (c =? ch_bsl) with false by lia.
  destruct (c =? ch_lbr) eqn:El.
  - assert (c = ch_lbr) by lia. rewrite (H4 H). destruct (scan t true); reflexivity.
  - replace (c =? ch_rbr) with false by lia. destruct (c =? ch_star) eqn:Es.
    + assert (c = ch_star) by lia. rewrite (H3 H). cbn. destruct (scan t true); reflexivity.
    + cbn. destruct (scan t inr); reflexivity.
Qed.

Lemma scan_neutral mid Y inr : Forall (fun b => 128 <= b) mid ->
  scan (mid ++ Y) inr = (mid ++ fst (scan Y inr), snd (scan Y inr)).
Proof.
  induction 1 as [|m mid Hm _ IH]; [cbn; destruct (scan Y inr); reflexivity|].
  cbn [app]. rewrite scan_cons_plain by (unfold ch_bsl, ch_rbr, ch_star, ch_lbr; lia).
  rewrite IH. reflexivity.
Qed.

Lemma rchar_split q r qa : rchar q = Some (r, qa) ->
  exists b, q = b ++ qa /\ b <> [] /\ (forall Y, rchar (b ++ Y) = Some (r, Y))
            /\ (forall Y, scan (b ++ Y) true = (b ++ fst (scan Y true), snd (scan Y true))).
Proof.
  unfold rchar. destruct q as [|c t]; [discriminate|].
  destruct ((c =? ch_dash) || (c =? ch_rbr)) eqn:E1; [discriminate|].
  destruct (c =? ch_bsl) eqn:Eb.
  - destruct t as [|c' t']; [discriminate|].
    destruct (decodeRune (c' :: t')) as [r0 n] eqn:Ed.
    destruct ((r0 =? RuneError) && Nat.eqb n 1) eqn:Ev; [discriminate|]. intros H; inversion H; subst.
    destruct (decodeRune_tail _ _ _ _ Ed) as [Hf Hmid].
    exists (c :: firstn n (c' :: t')). split; [cbn [app]; rewrite firstn_skipn; reflexivity|].
    split; [discriminate|]. split.
    + intros Y. cbn [app]. rewrite E1, Eb. rewrite Hf. cbn [app].
      pose proof (decodeRune_stable c' t' r n Y Ed) as Hs. rewrite Hf in Hs. cbn [app] in Hs.
      rewrite Hs by (intros [-> ->]; cbn in Ev; discriminate). rewrite Ev.
      f_equal. f_equal. pose proof (decodeRune_pos _ _ _ _ Ed).
      destruct n; [lia|]. cbn [skipn]. replace (S n - 1)%nat with n by lia.
      rewrite skipn_app. rewrite skipn_all2 by (rewrite firstn_length; lia).
      rewrite firstn_length. replace (n - Nat.min n (length t'))%nat with 0%nat.
      * reflexivity.
      * assert (length (firstn (S n) (c' :: t')) = S n).
        { assert (Hx : firstn (S n) (c' :: t') ++ skipn (S n) (c' :: t') = c' :: t') by apply firstn_skipn.
          (* the decoded rune does not reach beyond the string *)
          clear -Ed. revert Ed. unfold decodeRune. destruct t' as [|s1 [|s2 [|s3 t]]]; destr_ifs; intros H; inversion H; subst; reflexivity. }
        rewrite firstn_length in H1. cbn [length] in H1. lia.
    + intros Y. cbn [app]. rewrite Hf. cbn [app scan]. rewrite Eb.
      rewrite scan_neutral by assumption. reflexivity.
  - destruct (decodeRune (c :: t)) as [r0 n] eqn:Ed.
    destruct ((r0 =? RuneError) && Nat.eqb n 1) eqn:Ev; [discriminate|]. intros H; inversion H; subst.
    destruct (decodeRune_tail _ _ _ _ Ed) as [Hf Hmid].
    exists (firstn n (c :: t)). split; [rewrite firstn_skipn; reflexivity|].
    split; [rewrite Hf; discriminate|]. split.
    + intros Y. rewrite Hf. cbn [app]. rewrite E1, Eb.
      pose proof (decodeRune_stable c t r n Y Ed) as Hs. rewrite Hf in Hs. cbn [app] in Hs.
      rewrite Hs by (intros [-> ->]; cbn in Ev; discriminate). rewrite Ev.
      f_equal. f_equal. pose proof (decodeRune_pos _ _ _ _ Ed).
      destruct n; [lia|]. cbn [skipn]. replace (S n - 1)%nat with n by lia.
      rewrite skipn_app. rewrite skipn_all2 by (rewrite firstn_length; lia).
      rewrite firstn_length. replace (n - Nat.min n (length t))%nat with 0%nat; [reflexivity|].
      assert (length (firstn (S n) (c :: t)) = S n).
      { clear -Ed. revert Ed. unfold decodeRune. destruct t as [|s1 [|s2 [|s3 t]]]; destr_ifs; intros H; inversion H; subst; reflexivity. }
      rewrite firstn_length in H1. cbn [length] in H1. lia.
    + intros Y. rewrite Hf. cbn [app]. rewrite scan_cons_plain; try lia; try (intros _; reflexivity).
      rewrite scan_neutral by assumption. reflexivity.
Qed.

Definition same_head (a b : bytes) : Prop := exists c t t', a = c :: t /\ b = c :: t'.

Lemma same_head_app b q X : b <> [] -> same_head (b ++ q) (b ++ X).
Proof. destruct b as [|c b]; [congruence|]. intros _. exists c, (b ++ q), (b ++ X). split; reflexivity. Qed.

Lemma Range_split q lo hi q1 : Range q lo hi q1 ->
  exists b, q = b ++ q1 /\ b <> []
    /\ (forall Y, same_head q1 Y -> Range (b ++ Y) lo hi Y)
    /\ (forall Y, scan (b ++ Y) true = (b ++ fst (scan Y true), snd (scan Y true))).
Proof.
  intros HR. inversion HR as [q_ lo_ qa Hr Hd|q_ lo_ qb hi_ q1_ Hr1 Hr2]; subst.
  - destruct (rchar_split _ _ _ Hr) as (b & Hq & Hb & Hrc & Hsc).
    exists b. repeat split; try assumption.
    intros Y (c & t & t' & E1 & E2). apply Range_one; [apply Hrc|]. subst. simpl in *. exact Hd.
  - destruct (rchar_split _ _ _ Hr1) as (b1 & Hq1 & Hb1 & Hrc1 & Hsc1).
    destruct (rchar_split _ _ _ Hr2) as (b2 & Hq2 & Hb2 & Hrc2 & Hsc2).
    exists (b1 ++ ch_dash :: b2). split; [rewrite <- app_assoc; cbn [app]; rewrite <- Hq2; exact Hq1|].
    split; [destruct b1; [congruence|discriminate]|]. split.
    + intros Y _. rewrite <- app_assoc. cbn [app]. eapply Range_two; [apply Hrc1|apply Hrc2].
    + intros Y. rewrite <- app_assoc. cbn [app]. rewrite Hsc1.
      rewrite scan_cons_plain by (unfold ch_dash, ch_bsl, ch_rbr, ch_star, ch_lbr; lia).
      rewrite Hsc2. cbn [fst snd]. rewrite <- app_assoc. reflexivity.
Qed.

Lemma RangesTail_split q rs q' : RangesTail q rs q' ->
  exists b, q = b ++ q' /\ b <> []
    /\ (forall X, RangesTail (b ++ X) rs X)
    /\ (forall X, scan (b ++ X) true = (b ++ fst (scan X false), snd (scan X false))).
Proof.
  induction 1 as [q'|q lo hi q1 rs q' HR HT IH].
  - exists [ch_rbr]. repeat split; [discriminate|intros X; apply RT_close|].
    intros X. cbn. destruct (scan X false); reflexivity.
  - destruct IH as (b' & Hq1 & Hb' & HT' & Hs').
    destruct (Range_split _ _ _ _ HR) as (b0 & Hq & Hb0 & HR' & Hs0).
    exists (b0 ++ b'). split; [rewrite <- app_assoc, <- Hq1; exact Hq|].
    split; [destruct b0; [congruence|discriminate]|]. split.
    + intros X. rewrite <- app_assoc. eapply RT_more; [|apply HT'].
      apply HR'. rewrite Hq1. apply same_head_app. exact Hb'.
    + intros X. rewrite <- app_assoc, Hs0, Hs'. cbn [fst snd]. rewrite <- app_assoc. reflexivity.
Qed.

Lemma Parses_app_star c1 i1 : Parses c1 i1 -> no_star i1 -> forall p2 t2, Parses p2 t2 -> True.
Proof. trivial. Qed.

(** ** scanChunk on a well-formed pattern: the chunk is the star-free prefix of the grammar *)
Lemma scan_parses p ts : Parses p ts ->
  exists chunk rest items ts',
    scan p false = (chunk, rest) /\ p = chunk ++ rest /\ Parses chunk items /\ no_star items
    /\ Parses rest ts' /\ ts = items ++ ts'
    /\ (rest = [] /\ ts' = [] \/ exists r t2, rest = ch_star :: r /\ ts' = TStar :: t2).
Proof.
  induction 1 as [|p ts HP IH|p ts HP IH|c p ts HP IH|c p ts Hm HP IH|q neg q0 lo hi q1 rs q' ts Hs HR HT HP IH].
  - exists [], [], [], []. split; [reflexivity|]. split; [reflexivity|]. split; [constructor|]. split; [constructor|].
    split; [constructor|]. split; [reflexivity|]. left; split; reflexivity.
  - exists [], (ch_star :: p), [], (TStar :: ts). split; [reflexivity|]. split; [reflexivity|]. split; [constructor|].
    split; [constructor|]. split; [apply P_star; exact HP|]. split; [reflexivity|].
    right. exists p, ts. split; reflexivity.
  - destruct IH as (ch & rest & it & ts' & Hsc & Hp & Hpc & Hn & Hpr & Hts & Hend).
    exists (ch_qm :: ch), rest, (TAny :: it), ts'.
    rewrite scan_cons_plain by (unfold ch_qm, ch_bsl, ch_rbr, ch_star, ch_lbr; lia). rewrite Hsc. cbn [fst snd].
    repeat split; try assumption; [rewrite Hp; reflexivity|apply P_any; exact Hpc|constructor; [discriminate|exact Hn]|rewrite Hts; reflexivity].
  - destruct IH as (ch & rest & it & ts' & Hsc & Hp & Hpc & Hn & Hpr & Hts & Hend).
    exists (ch_bsl :: c :: ch), rest, (TLit c :: it), ts'.
    cbn [scan]. replace (ch_bsl =? ch_bsl) with true by reflexivity. rewrite Hsc.
    repeat split; try assumption; [rewrite Hp; reflexivity|apply P_esc; exact Hpc|constructor; [discriminate|exact Hn]|rewrite Hts; reflexivity].
  - destruct IH as (ch & rest & it & ts' & Hsc & Hp & Hpc & Hn & Hpr & Hts & Hend).
    exists (c :: ch), rest, (TLit c :: it), ts'. unfold is_meta in Hm.
    assert (Hscan : scan (c :: p) false = (c :: fst (scan p false), snd (scan p false))).
    { destruct (c =? ch_rbr) eqn:Er.
      - assert (Hc : c = ch_rbr) by lia. rewrite Hc. cbn. destruct (scan p false); reflexivity.
      - apply scan_cons_plain; lia. }
    rewrite Hscan, Hsc. cbn [fst snd].
    repeat split; try assumption; [rewrite Hp; reflexivity|apply P_lit; [unfold is_meta; lia|exact Hpc]|constructor; [discriminate|exact Hn]|rewrite Hts; reflexivity].
  - destruct IH as (ch & rest & it & ts' & Hsc & Hp & Hpc & Hn & Hpr & Hts & Hend).
    destruct (RangesTail_split _ _ _ HT) as (b' & Hq1 & Hb' & HT' & Hs').
    destruct (Range_split _ _ _ _ HR) as (b0 & Hq0 & Hb0 & HR' & Hs0).
    (* q = pre ++ q0, pre = "^" or empty *)
    assert (Hpre : exists pre, q = pre ++ q0 /\ (forall Y, same_head q0 Y -> strip_caret (pre ++ Y) = (neg, Y))
                        /\ (forall Y, scan (pre ++ Y) true = (pre ++ fst (scan Y true), snd (scan Y true)))).
    { unfold strip_caret in Hs. destruct q as [|c t].
      - exfalso. injection Hs as _ Hq0'. rewrite <- Hq0' in Hq0. destruct b0; [congruence|discriminate Hq0].
      - destruct (c =? ch_caret) eqn:Ec; injection Hs as Hneg Hq0'.
        + exists [c]. split; [rewrite Hq0'; reflexivity|]. split.
          * intros Y _. cbn [app]. unfold strip_caret. rewrite Ec, Hneg. reflexivity.
          * intros Y. cbn [app]. apply scan_cons_plain; unfold ch_caret, ch_bsl, ch_rbr, ch_star, ch_lbr in *; lia.
        + exists []. split; [rewrite Hq0'; reflexivity|]. split.
          * intros Y (c0 & t0 & t0' & E1 & E2). rewrite <- Hq0' in E1. injection E1 as Ec0 _. rewrite E2, <- Ec0.
            cbn [app]. unfold strip_caret. rewrite Ec, Hneg. reflexivity.
          * intros Y. cbn [app]. destruct (scan Y true); reflexivity. }
    destruct Hpre as (pre & Hq & Hstrip & Hspre).
    exists (ch_lbr :: pre ++ b0 ++ b' ++ ch), rest, (TClass neg ((lo, hi) :: rs) :: it), ts'.
    assert (Hqq : q = pre ++ b0 ++ b' ++ q') by (rewrite Hq, Hq0, Hq1; reflexivity).
    split.
    { cbn [scan]. replace (ch_lbr =? ch_bsl) with false by reflexivity. replace (ch_lbr =? ch_lbr) with true by reflexivity.
      rewrite Hqq, Hspre, Hs0, Hs', Hsc. cbn [fst snd]. reflexivity. }
    split; [rewrite Hqq, Hp; cbn [app]; rewrite <- !app_assoc; reflexivity|].
    split.
    { eapply P_class with (q0 := b0 ++ b' ++ ch) (q1 := b' ++ ch) (q' := ch).
      - apply Hstrip. rewrite Hq0. apply same_head_app. exact Hb0.
      - apply HR'. rewrite Hq1. apply same_head_app. exact Hb'.
      - apply HT'.
      - exact Hpc. }
    split; [constructor; [discriminate|exact Hn]|].
    split; [exact Hpr|]. split; [rewrite Hts; reflexivity|exact Hend].
Qed.

Lemma strip_stars_parses p ts : Parses p ts ->
  exists k p1 ts1, strip_stars p = (Nat.ltb 0 k, p1) /\ p = repeat ch_star k ++ p1
                   /\ ts = repeat TStar k ++ ts1 /\ Parses p1 ts1 /\ (forall r, p1 <> ch_star :: r).
Proof.
  induction 1 as [|p ts HP IH|p ts HP IH|c p ts HP IH|c p ts Hm HP IH|q neg q0 lo hi q1 rs q' ts Hs HR HT HP IH].
  - exists 0%nat, [], []. repeat split; [constructor|discriminate].
  - destruct IH as (k & p1 & ts1 & Hss & Hp & Hts & Hp1 & Hns).
    exists (S k), p1, ts1. cbn [strip_stars repeat app]. replace (ch_star =? ch_star) with true by reflexivity.
    rewrite Hss. cbn [snd]. repeat split; try assumption; [rewrite Hp; reflexivity|rewrite Hts; reflexivity].
  - exists 0%nat, (ch_qm :: p), (TAny :: ts). repeat split; [apply P_any; exact HP|discriminate].
  - exists 0%nat, (ch_bsl :: c :: p), (TLit c :: ts). repeat split; [apply P_esc; exact HP|discriminate].
  - exists 0%nat, (c :: p), (TLit c :: ts). unfold is_meta in Hm. cbn [strip_stars].
    replace (c =? ch_star) with false by lia. repeat split; [apply P_lit; [unfold is_meta; lia|exact HP]|].
    intros r E. injection E as E _. lia.
  - exists 0%nat, (ch_lbr :: q), (TClass neg ((lo, hi) :: rs) :: ts). repeat split; [eapply P_class; eassumption|discriminate].
Qed.

(** ** plain names: every term of a star-free list takes exactly one byte *)
Lemma plain_cons c s : plain (c :: s) <-> (c < 128 /\ c <> Separator) /\ plain s.
Proof. unfold plain. split; [intros H; inversion H; auto|intros [H1 H2]; constructor; assumption]. Qed.

Lemma plain_app a b : plain (a ++ b) <-> plain a /\ plain b.
Proof. unfold plain. apply Forall_app. Qed.

Lemma plain_no_sep s : plain s -> no_sep s.
Proof. unfold plain, no_sep. intros H. eapply Forall_impl; [|exact H]. intros a [_ Ha]. exact Ha. Qed.

Lemma plain_contains_sep s : plain s -> contains_sep s = false.
Proof.
  induction s as [|c s IH]; [reflexivity|]. intros H. apply plain_cons in H. destruct H as [[_ Hc] Hs].
  unfold contains_sep in *. cbn [existsb]. rewrite (IH Hs). replace (c =? Separator) with false by lia. reflexivity.
Qed.

Lemma PM_plain_some items : no_star items -> forall s t, plain s -> PM items s = Some t ->
  exists s1, s = s1 ++ t /\ length s1 = length items /\ Matches items s1.
Proof.
  induction items as [|it items IH]; intros Hn s t Hp H.
  - cbn in H. inversion H; subst. exists []. repeat split. constructor.
  - inversion Hn as [|? ? Hit Hn']; subst. destruct s as [|c s]; [discriminate|].
    apply plain_cons in Hp. destruct Hp as [[Hc Hsep] Hp].
    cbn [PM] in H. rewrite (decodeRune_ascii c s Hc) in H. cbn [fst snd skipn] in H.
    destruct it as [| |b|neg rs]; [congruence| | |].
    + replace (c =? Separator) with false in H by lia.
      destruct (IH Hn' s t Hp H) as (s1 & -> & Hl & Hm). exists (c :: s1). repeat split; [cbn; lia|].
      eapply M_any; [exact Hsep|apply decodeRune_ascii; exact Hc|exact Hm].
    + destruct (b =? c) eqn:Eb; [|discriminate]. assert (b = c) by lia. subst.
      destruct (IH Hn' s t Hp H) as (s1 & -> & Hl & Hm). exists (c :: s1). repeat split; [cbn; lia|].
      apply M_lit. exact Hm.
    + destruct (Bool.eqb (in_ranges c rs) neg) eqn:Er; [discriminate|].
      destruct (IH Hn' s t Hp H) as (s1 & -> & Hl & Hm). exists (c :: s1). repeat split; [cbn; lia|].
      eapply M_class; [apply decodeRune_ascii; exact Hc| |exact Hm].
      destruct (in_ranges c rs), neg; simpl in *; congruence.
Qed.

Lemma PM_plain_complete items : forall s1 t, plain (s1 ++ t) -> Matches items s1 -> no_star items ->
  PM items (s1 ++ t) = Some t.
Proof.
  induction items as [|it items IH]; intros s1 t Hp Hm Hn.
  - inversion Hm; subst. reflexivity.
  - inversion Hn as [|? ? Hit Hn']; subst.
    inversion Hm as [|? ? ? ? ?|ts c s r n Hs Hd Hm'|ts c s Hm'|ts neg rs c s r n Hd Hr Hm']; subst; [congruence| | |];
      cbn [app] in Hp; apply plain_cons in Hp; destruct Hp as [[Hc Hsep] Hp];
      cbn [app PM]; rewrite ?(decodeRune_ascii c _ Hc); cbn [fst snd skipn].
    + rewrite (decodeRune_ascii c s Hc) in Hd. injection Hd as Er En; subst r n. cbn [skipn] in Hm'.
      replace (c =? Separator) with false by lia. apply IH; assumption.
    + replace (c =? c) with true by lia. apply IH; assumption.
    + rewrite (decodeRune_ascii c s Hc) in Hd. injection Hd as Er En; subst r n. cbn [skipn] in Hm'.
      rewrite Hr. destruct neg; cbn; apply IH; assumption.
Qed.

Lemma Matches_len items s : no_star items -> plain s -> Matches items s -> length s = length items.
Proof.
  intros Hn Hp Hm. pose proof (PM_plain_complete items s [] ltac:(rewrite app_nil_r; exact Hp) Hm Hn) as H.
  rewrite app_nil_r in H. destruct (PM_plain_some items Hn s [] Hp H) as (s1 & E & Hl & _).
  rewrite app_nil_r in E. subst. exact Hl.
Qed.

Lemma Matches_app_plain items : forall s1 ts t, no_star items -> plain (s1 ++ t) ->
  Matches items s1 -> Matches ts t -> Matches (items ++ ts) (s1 ++ t).
Proof.
  induction items as [|it items IH]; intros s1 ts t Hn Hp Hm Ht.
  - inversion Hm; subst. exact Ht.
  - inversion Hn as [|? ? Hit Hn']; subst.
    inversion Hm as [|? ? ? ? ?|ts0 c s r n Hs Hd Hm'|ts0 c s Hm'|ts0 neg rs c s r n Hd Hr Hm']; subst; [congruence| | |];
      cbn [app] in Hp |- *; apply plain_cons in Hp; destruct Hp as [[Hc Hsep] Hp].
    + rewrite (decodeRune_ascii c s Hc) in Hd. injection Hd as Er En; subst r n. cbn [skipn] in Hm'.
      eapply M_any; [exact Hsep|apply decodeRune_ascii; exact Hc|]. cbn [skipn]. apply IH; assumption.
    + apply M_lit. apply IH; assumption.
    + rewrite (decodeRune_ascii c s Hc) in Hd. injection Hd as Er En; subst r n. cbn [skipn] in Hm'.
      eapply M_class; [apply decodeRune_ascii; exact Hc|exact Hr|]. cbn [skipn]. apply IH; assumption.
Qed.

Lemma Matches_split_plain items : forall ts s, no_star items -> plain s -> Matches (items ++ ts) s ->
  exists s1 t, s = s1 ++ t /\ Matches items s1 /\ Matches ts t.
Proof.
  induction items as [|it items IH]; intros ts s Hn Hp Hm.
  - exists [], s. repeat split; [constructor|exact Hm].
  - inversion Hn as [|? ? Hit Hn']; subst. cbn [app] in Hm.
    inversion Hm as [|? ? ? ? ?|ts0 c s0 r n Hs Hd Hm'|ts0 c s0 Hm'|ts0 neg rs c s0 r n Hd Hr Hm']; subst; [congruence| | |];
      apply plain_cons in Hp; destruct Hp as [[Hc Hsep] Hp].
    + rewrite (decodeRune_ascii c s0 Hc) in Hd. injection Hd as Er En; subst r n. cbn [skipn] in Hm'.
      destruct (IH ts s0 Hn' Hp Hm') as (s1 & t & -> & H1 & H2). exists (c :: s1), t. repeat split; [|exact H2].
      eapply M_any; [exact Hsep|apply decodeRune_ascii; exact Hc|exact H1].
    + destruct (IH ts s0 Hn' Hp Hm') as (s1 & t & -> & H1 & H2). exists (c :: s1), t. repeat split; [|exact H2].
      apply M_lit. exact H1.
    + rewrite (decodeRune_ascii c s0 Hc) in Hd. injection Hd as Er En; subst r n. cbn [skipn] in Hm'.
      destruct (IH ts s0 Hn' Hp Hm') as (s1 & t & -> & H1 & H2). exists (c :: s1), t. repeat split; [|exact H2].
      eapply M_class; [apply decodeRune_ascii; exact Hc|exact Hr|exact H1].
Qed.

(** ** stars *)
Lemma Matches_stars_intro k ts u t : no_sep u -> Matches ts t -> Matches (repeat TStar (S k) ++ ts) (u ++ t).
Proof.
  intros Hu Ht. cbn [repeat app]. apply M_star; [exact Hu|].
  induction k as [|k IH]; [exact Ht|]. cbn [repeat app]. apply (M_star _ [] t); [constructor|exact IH].
Qed.

Lemma Matches_stars_elim k ts s : Matches (repeat TStar k ++ ts) s -> exists u t, s = u ++ t /\ Matches ts t.
Proof.
  revert s. induction k as [|k IH]; intros s H.
  - exists [], s. split; [reflexivity|exact H].
  - cbn [repeat app] in H. inversion H as [|ts0 s1 s2 Hs1 Hs2| | |]; subst. destruct (IH _ Hs2) as (u & t & -> & Ht).
    exists (s1 ++ u), t. split; [rewrite app_assoc; reflexivity|exact Ht].
Qed.

Lemma star_absorb ts w t : no_sep w -> Matches (TStar :: ts) t -> Matches (TStar :: ts) (w ++ t).
Proof.
  intros Hw H. inversion H as [|ts0 s1 s2 Hs1 Hs2| | |]; subst. rewrite app_assoc. apply M_star; [|assumption].
  unfold no_sep in *. apply Forall_app. split; assumption.
Qed.

(** ** the star loop finds the leftmost acceptable offset *)
Section StarLoop.
Variables (chunk : bytes) (items : list term).
Hypothesis Hmc : forall x, matchChunk chunk x = Ok (PM items x).

Lemma starLoop_spec last : forall name, no_sep name ->
  match starLoop chunk last name with
  | Ok (Some t) =>
      exists v x, name = v ++ x /\ v <> [] /\ PM items x = Some t /\ (last = true -> t = [])
        /\ (forall v' x' t', name = v' ++ x' -> v' <> [] -> (length v' < length v)%nat ->
                             PM items x' = Some t' -> last = true /\ t' <> [])
  | Ok None => forall v x t', name = v ++ x -> v <> [] -> PM items x = Some t' -> last = true /\ t' <> []
  | _ => False
  end.
Proof.
  induction name as [|c name IH]; intros Hs.
  - cbn. intros v x t' E Hv. destruct v; [congruence|discriminate].
  - inversion Hs as [|? ? Hc Hs']; subst. specialize (IH Hs'). cbn [starLoop].
    replace (c =? Separator) with false by lia. rewrite Hmc.
    assert (Hrec : (forall t', PM items name = Some t' -> last = true /\ t' <> []) ->
      match starLoop chunk last name with
      | Ok (Some t) =>
          exists v x, c :: name = v ++ x /\ v <> [] /\ PM items x = Some t /\ (last = true -> t = [])
            /\ (forall v' x' t', c :: name = v' ++ x' -> v' <> [] -> (length v' < length v)%nat ->
                                 PM items x' = Some t' -> last = true /\ t' <> [])
      | Ok None => forall v x t', c :: name = v ++ x -> v <> [] -> PM items x = Some t' -> last = true /\ t' <> []
      | _ => False
      end).
    { intros Hbad.
      destruct (starLoop chunk last name) as [[t2|]| | |]; try contradiction.
      - destruct IH as (v & x & Hn & Hv & Hpm & Hl & Hleft).
        exists (c :: v), x. split; [rewrite Hn; reflexivity|]. split; [discriminate|]. split; [exact Hpm|]. split; [exact Hl|].
        intros v' x' t' Hn' Hv' Hlen Hpm'. destruct v' as [|c' v'']; [congruence|]. injection Hn' as _ Hn''.
        destruct v'' as [|c'' v3].
        + cbn [app] in Hn''. subst x'. apply Hbad. exact Hpm'.
        + apply (Hleft (c'' :: v3) x' t'); [exact Hn''|discriminate|cbn [length] in *; lia|exact Hpm'].
      - intros v x t' Hn Hv Hpm. destruct v as [|c' v'']; [congruence|]. injection Hn as _ Hn''.
        destruct v'' as [|c'' v3].
        + cbn [app] in Hn''. subst x. apply Hbad. exact Hpm.
        + apply (IH (c'' :: v3) x t'); [exact Hn''|discriminate|exact Hpm]. }
    destruct (PM items name) as [t|] eqn:E.
    + destruct (last && negb (is_nil t)) eqn:El.
      * apply Hrec. intros t' Ht. inversion Ht; subst. apply andb_prop in El. destruct El as [E1 E2].
        split; [exact E1|]. destruct t'; [discriminate|discriminate].
      * exists [c], name. split; [reflexivity|]. split; [discriminate|]. split; [exact E|]. split.
        -- intros Hl. rewrite Hl in El. cbn in El. destruct t; [reflexivity|discriminate].
        -- intros v' x' t' _ Hv' Hlen. destruct v'; [congruence|cbn in Hlen; lia].
    + apply Hrec. discriminate.
Qed.
End StarLoop.

Lemma suffix_align (s a t b t' : bytes) : s = a ++ t -> s = b ++ t' -> (length a <= length b)%nat ->
  exists w, t = w ++ t'.
Proof.
  intros E1 E2 Hl. rewrite E1 in E2. apply app_eq_app in E2. destruct E2 as (l & [[Ea Et]|[Eb Et]]).
  - assert (l = []) by (destruct l; [reflexivity|rewrite Ea, app_length in Hl; cbn in Hl; lia]). subst. exists []. reflexivity.
  - exists l. exact Et.
Qed.

(** the declarative match of [stars items ts'] at offset |u| forces a match of ts' on what the
    leftmost acceptable offset |v| leaves *)
Lemma align_forward items ts' last s v x t u s1' t' :
  no_star items -> plain s ->
  s = v ++ x -> PM items x = Some t ->
  (forall v' x' t'', s = v' ++ x' -> (length v' < length v)%nat -> PM items x' = Some t'' -> last = true /\ t'' <> []) ->
  (last = true -> t = []) ->
  (last = true /\ ts' = [] \/ last = false /\ exists t2, ts' = TStar :: t2) ->
  s = u ++ s1' ++ t' -> Matches items s1' -> Matches ts' t' ->
  Matches ts' t.
Proof.
  intros Hn Hp Hs Hpm Hleft Hlast Hend Hs' Hm1 Hm2.
  assert (Hp' : plain (s1' ++ t')) by (rewrite Hs' in Hp; apply plain_app in Hp; apply Hp).
  pose proof (PM_plain_complete items s1' t' Hp' Hm1 Hn) as Hpm'.
  destruct Hend as [[Hl Hts]|[Hl (t2 & Hts)]].
  - subst ts'. rewrite (Hlast Hl). constructor.
  - assert (Hle : (length v <= length u)%nat).
    { destruct (Nat.lt_ge_cases (length u) (length v)) as [Hlt|Hge]; [|exact Hge].
      destruct (Hleft u (s1' ++ t') t' Hs' Hlt Hpm') as [Hl' _]. congruence. }
    assert (Hpx : plain x) by (rewrite Hs in Hp; apply plain_app in Hp; apply Hp).
    destruct (PM_plain_some items Hn x t Hpx Hpm) as (s1 & Hx & Hl1 & _).
    assert (Hl1' : length s1' = length items).
    { apply Matches_len; [exact Hn| |exact Hm1]. apply plain_app in Hp'. apply Hp'. }
    destruct (suffix_align s (v ++ s1) t (u ++ s1') t') as (w & Hw).
    + rewrite Hs, Hx, app_assoc. reflexivity.
    + rewrite Hs', app_assoc. reflexivity.
    + rewrite !app_length. lia.
    + rewrite Hw, Hts. apply star_absorb; [|rewrite <- Hts; exact Hm2].
      apply plain_no_sep. rewrite Hx in Hpx. apply plain_app in Hpx. destruct Hpx as [_ Hpt].
      rewrite Hw in Hpt. apply plain_app in Hpt. apply Hpt.
Qed.

(** ** Match on a well-formed pattern and a plain name = the declarative relation *)
Theorem MatchLoop_plain : forall fuel p ts s, Parses p ts -> plain s -> (length p < fuel)%nat ->
  exists b, MatchLoop fuel p s = Ok b /\ (b = true <-> Matches ts s).
Proof.
  induction fuel as [|f IH]; intros p ts s HP Hp Hf; [lia|].
  destruct p as [|c0 p0].
  - inversion HP; subst. cbn. exists (is_nil s). split; [reflexivity|].
    destruct s; cbn; split; intros H; try constructor; try discriminate; inversion H.
  - destruct (strip_stars_parses _ _ HP) as (k & p1 & ts1 & Hss & Hpp & Hts & Hp1 & Hns).
    destruct (scan_parses _ _ Hp1) as (chunk & rest & items & ts' & Hsc & Hp1e & Hpc & Hn & Hpr & Hts1 & Hend).
    assert (Hlen : (length rest < f)%nat).
    { assert (Hl : length (c0 :: p0) = (k + (length chunk + length rest))%nat).
      { rewrite Hpp, Hp1e, !app_length, repeat_length. reflexivity. }
      assert (Hpos : (1 <= k + length chunk)%nat).
      { destruct k; [|lia]. destruct chunk; [|cbn; lia]. exfalso. cbn in Hpp, Hp1e.
        destruct Hend as [[Hr _]|(r & t2 & Hr & _)]; [rewrite Hp1e, Hr in Hpp; discriminate|apply (Hns r); rewrite Hp1e; exact Hr]. }
      cbn [length] in Hl, Hf. lia. }
    assert (Hend' : is_nil rest = true /\ ts' = [] \/ is_nil rest = false /\ exists t2, ts' = TStar :: t2).
    { destruct Hend as [[Hr Ht]|(r & t2 & Hr & Ht)]; [left; subst; split; reflexivity|right; subst; split; [reflexivity|eauto]]. }
    assert (Htseq : ts = repeat TStar k ++ items ++ ts') by (rewrite Hts, Hts1; reflexivity).
    cbn [MatchLoop]. unfold scanChunk. rewrite Hss, Hsc. cbv beta iota zeta.
    destruct ((0 <? k)%nat && is_nil chunk) eqn:EA.
    + (* trailing stars *)
      apply andb_prop in EA. destruct EA as [Ek Ec]. apply Nat.ltb_lt in Ek.
      destruct chunk; [|discriminate]. inversion Hpc; subst items. cbn in Hp1e.
      destruct Hend as [[Hr Ht]|(r & t2 & Hr & _)]; [|exfalso; apply (Hns r); rewrite Hp1e; exact Hr].
      exists true. rewrite (plain_contains_sep s Hp). split; [reflexivity|]. split; [|reflexivity]. intros _.
      rewrite Htseq, Ht. destruct k; [lia|]. cbn [app]. rewrite app_nil_r.
      pose proof (Matches_stars_intro k [] s [] (plain_no_sep s Hp) M_nil) as Hm. rewrite !app_nil_r in Hm. exact Hm.
    + pose proof (fun x => matchChunk_parses chunk items x Hpc Hn) as Hmc. rewrite Hmc.
      (* what follows a failed (or, for the last chunk, inexact) first attempt *)
      assert (Hafter : (forall t'', PM items s = Some t'' -> is_nil rest = true /\ t'' <> []) ->
        exists b, (if (0 <? k)%nat
                   then match starLoop chunk (is_nil rest) s with
                        | Ok (Some t) => MatchLoop f rest t
                        | Ok None => Ok false
                        | Bad => Bad | Fuel => Fuel | Panic => Panic
                        end
                   else Ok false) = Ok b /\ (b = true <-> Matches ts s)).
      { intros Hbad0.
        assert (Hno0 : forall s1' t', s = s1' ++ t' -> Matches items s1' -> Matches ts' t' -> False).
        { intros s1' t' Es Hm1 Hm2.
          assert (Hpm : PM items s = Some t') by (rewrite Es; apply PM_plain_complete; [rewrite <- Es; exact Hp|exact Hm1|exact Hn]).
          destruct (Hbad0 t' Hpm) as [Hl Hne]. destruct Hend' as [[_ Ht]|[Hl' _]]; [|congruence].
          subst ts'. inversion Hm2; subst. congruence. }
        destruct (0 <? k)%nat eqn:Ek.
        - apply Nat.ltb_lt in Ek. destruct k as [|k']; [lia|].
          pose proof (starLoop_spec chunk items Hmc (is_nil rest) s (plain_no_sep s Hp)) as Hspec.
          destruct (starLoop chunk (is_nil rest) s) as [[t|]| | |]; try contradiction.
          + destruct Hspec as (v & x & Hs & Hv & Hpm & Hl & Hleft).
            assert (Hpx : plain x) by (rewrite Hs in Hp; apply plain_app in Hp; apply Hp).
            destruct (PM_plain_some items Hn x t Hpx Hpm) as (s1 & Hx & Hl1 & Hm1).
            assert (Hpt : plain t) by (rewrite Hx in Hpx; apply plain_app in Hpx; apply Hpx).
            destruct (IH rest ts' t Hpr Hpt Hlen) as (b & Hb & Hiff). exists b. split; [exact Hb|].
            rewrite Hiff, Htseq. split.
            * intros Hm2. rewrite Hs, Hx. apply Matches_stars_intro.
              -- apply plain_no_sep. rewrite Hs in Hp. apply plain_app in Hp. apply Hp.
              -- apply Matches_app_plain; [exact Hn|rewrite <- Hx; exact Hpx|exact Hm1|exact Hm2].
            * intros Hm. destruct (Matches_stars_elim _ _ _ Hm) as (u & t0 & Hs0 & Hm0).
              assert (Hp0 : plain t0) by (rewrite Hs0 in Hp; apply plain_app in Hp; apply Hp).
              destruct (Matches_split_plain items ts' t0 Hn Hp0 Hm0) as (s1' & t' & Ht0 & Hm1' & Hm2').
              eapply (align_forward items ts' (is_nil rest) s v x t u s1' t'); try eassumption.
              -- intros v' x' t'' Es' Hlt Hpm'. destruct v' as [|cv v'].
                 ++ cbn in Es'. subst x'. apply Hbad0. exact Hpm'.
                 ++ apply (Hleft (cv :: v') x' t''); [exact Es'|discriminate|exact Hlt|exact Hpm'].
              -- rewrite Hs0, Ht0. reflexivity.
          + exists false. split; [reflexivity|]. split; [discriminate|]. intros Hm. exfalso.
            rewrite Htseq in Hm. destruct (Matches_stars_elim _ _ _ Hm) as (u & t0 & Hs0 & Hm0).
            assert (Hp0 : plain t0) by (rewrite Hs0 in Hp; apply plain_app in Hp; apply Hp).
            destruct (Matches_split_plain items ts' t0 Hn Hp0 Hm0) as (s1' & t' & Ht0 & Hm1' & Hm2').
            destruct u as [|cu u'].
            * cbn in Hs0. subst t0. exact (Hno0 s1' t' Ht0 Hm1' Hm2').
            * assert (Hpm : PM items t0 = Some t') by (rewrite Ht0; apply PM_plain_complete; [rewrite <- Ht0; exact Hp0|exact Hm1'|exact Hn]).
              destruct (Hspec (cu :: u') t0 t' Hs0 ltac:(discriminate) Hpm) as [Hl Hne].
              destruct Hend' as [[_ Ht]|[Hl' _]]; [|congruence]. subst ts'. inversion Hm2'; subst. congruence.
        - exists false. split; [reflexivity|]. split; [discriminate|]. intros Hm. exfalso.
          apply Nat.ltb_ge in Ek. assert (k = 0%nat) by lia. subst k. rewrite Htseq in Hm. cbn [repeat app] in Hm.
          destruct (Matches_split_plain items ts' s Hn Hp Hm) as (s1' & t' & Es & Hm1' & Hm2').
          exact (Hno0 s1' t' Es Hm1' Hm2'). }
      destruct (PM items s) as [t|] eqn:Epm.
      * destruct (is_nil t || negb (is_nil rest)) eqn:Ec; cbv beta iota zeta.
        -- destruct (PM_plain_some items Hn s t Hp Epm) as (s1 & Hs & Hl1 & Hm1).
           assert (Hpt : plain t) by (rewrite Hs in Hp; apply plain_app in Hp; apply Hp).
           destruct (IH rest ts' t Hpr Hpt Hlen) as (b & Hb & Hiff). exists b. split; [exact Hb|].
           rewrite Hiff, Htseq. split.
           ++ intros Hm2. assert (Hm : Matches (items ++ ts') s) by (rewrite Hs; apply Matches_app_plain; [exact Hn|rewrite <- Hs; exact Hp|exact Hm1|exact Hm2]).
              destruct k as [|k']; [exact Hm|]. apply (Matches_stars_intro k' (items ++ ts') [] s); [constructor|exact Hm].
           ++ intros Hm. destruct (Matches_stars_elim _ _ _ Hm) as (u & t0 & Hs0 & Hm0).
              assert (Hp0 : plain t0) by (rewrite Hs0 in Hp; apply plain_app in Hp; apply Hp).
              destruct (Matches_split_plain items ts' t0 Hn Hp0 Hm0) as (s1' & t' & Ht0 & Hm1' & Hm2').
              eapply (align_forward items ts' (is_nil rest) s [] s t u s1' t'); try eassumption.
              ** reflexivity.
              ** intros v' x' t'' _ Hlt. cbn in Hlt. lia.
              ** intros Hl. rewrite Hl in Ec. cbn in Ec. rewrite orb_false_r in Ec. destruct t; [reflexivity|discriminate].
              ** rewrite Hs0, Ht0. reflexivity.
        -- apply Hafter. intros t'' E. inversion E; subst t''. apply orb_false_elim in Ec. destruct Ec as [E1 E2].
           split; [destruct (is_nil rest); [reflexivity|discriminate]|destruct t; [discriminate|discriminate]].
      * cbv beta iota zeta. apply Hafter. discriminate.
Qed.

Corollary Match_plain p ts s : Parses p ts -> plain s ->
  exists b, Match p s = Ok b /\ (b = true <-> Matches ts s).
Proof. intros HP Hp. apply MatchLoop_plain; [exact HP|exact Hp|lia]. Qed.

Corollary Match_Glob p s : WellFormed p -> plain s -> exists b, Match p s = Ok b /\ (b = true <-> Glob p s).
Proof.
  intros [ts HP] Hp. destruct (Match_plain p ts s HP Hp) as (b & Hb & Hiff). exists b. split; [exact Hb|].
  split.
  - intros E. exists ts. split; [exact HP|apply Hiff; exact E].
  - intros (ts' & HP' & Hm'). destruct (Match_plain p ts' s HP' Hp) as (b' & Hb' & Hiff').
    rewrite Hb in Hb'. inversion Hb'; subst. apply Hiff'. exact Hm'.
Qed.

(** ** a well-formed pattern is answered for EVERY name (any bytes): never ErrBadPattern *)
Lemma starLoop_total chunk items last : (forall x, matchChunk chunk x = Ok (PM items x)) ->
  forall name, exists o, starLoop chunk last name = Ok o.
Proof.
  intros Hmc. induction name as [|c name IH]; [exists None; reflexivity|].
  cbn [starLoop]. destruct (c =? Separator); [exists None; reflexivity|]. rewrite Hmc.
  destruct (PM items name) as [t|]; [|exact IH].
  destruct (last && negb (is_nil t)); [exact IH|exists (Some t); reflexivity].
Qed.

Theorem MatchLoop_total : forall fuel p ts s, Parses p ts -> (length p < fuel)%nat ->
  exists b, MatchLoop fuel p s = Ok b.
Proof.
  induction fuel as [|f IH]; intros p ts s HP Hf; [lia|].
  destruct p as [|c0 p0]; [exists (is_nil s); reflexivity|].
  destruct (strip_stars_parses _ _ HP) as (k & p1 & ts1 & Hss & Hpp & Hts & Hp1 & Hns).
  destruct (scan_parses _ _ Hp1) as (chunk & rest & items & ts' & Hsc & Hp1e & Hpc & Hn & Hpr & Hts1 & Hend).
  assert (Hlen : (length rest < f)%nat).
  { assert (Hl : length (c0 :: p0) = (k + (length chunk + length rest))%nat).
    { rewrite Hpp, Hp1e, !app_length, repeat_length. reflexivity. }
    assert (Hpos : (1 <= k + length chunk)%nat).
    { destruct k; [|lia]. destruct chunk; [|cbn; lia]. exfalso. cbn in Hpp, Hp1e.
      destruct Hend as [[Hr _]|(r & t2 & Hr & _)]; [rewrite Hp1e, Hr in Hpp; discriminate|apply (Hns r); rewrite Hp1e; exact Hr]. }
    cbn [length] in Hl, Hf. lia. }
  cbn [MatchLoop]. unfold scanChunk. rewrite Hss, Hsc. cbv beta iota zeta.
  destruct ((0 <? k)%nat && is_nil chunk); [eexists; reflexivity|].
  pose proof (fun x => matchChunk_parses chunk items x Hpc Hn) as Hmc. rewrite Hmc.
  assert (Hafter : exists b, (if (0 <? k)%nat
                   then match starLoop chunk (is_nil rest) s with
                        | Ok (Some t) => MatchLoop f rest t
                        | Ok None => Ok false
                        | Bad => Bad | Fuel => Fuel | Panic => Panic
                        end
                   else Ok false) = Ok b).
  { destruct (0 <? k)%nat; [|eexists; reflexivity].
    destruct (starLoop_total chunk items (is_nil rest) Hmc s) as [[t|] Ho]; rewrite Ho; [|eexists; reflexivity].
    exact (IH rest ts' t Hpr Hlen). }
  destruct (PM items s) as [t|]; [|cbv beta iota zeta; exact Hafter].
  destruct (is_nil t || negb (is_nil rest)); cbv beta iota zeta; [exact (IH rest ts' t Hpr Hlen)|exact Hafter].
Qed.

Corollary Match_total p s : WellFormed p -> exists b, Match p s = Ok b.
Proof. intros [ts HP]. apply (MatchLoop_total _ p ts s HP). lia. Qed.

Corollary Match_bad_malformed p s : Match p s = Bad -> ~ WellFormed p.
Proof. intros Hb Hw. destruct (Match_total p s Hw) as [b E]. congruence. Qed.

(** ** an executable decision procedure for [Matches], sound; used to refute matches *)
Fixpoint matchesb (ts : list term) (s : bytes) : bool :=
  match ts with
  | [] => is_nil s
  | TStar :: ts' =>
      (fix star (s : bytes) : bool :=
         matchesb ts' s || match s with c :: s' => negb (c =? Separator) && star s' | [] => false end) s
  | TAny :: ts' =>
      match s with c :: _ => negb (c =? Separator) && matchesb ts' (skipn (snd (decodeRune s)) s) | [] => false end
  | TLit b :: ts' => match s with c :: s' => (b =? c) && matchesb ts' s' | [] => false end
  | TClass neg rs :: ts' =>
      match s with
      | _ :: _ => Bool.eqb (in_ranges (fst (decodeRune s)) rs) (negb neg) && matchesb ts' (skipn (snd (decodeRune s)) s)
      | [] => false
      end
  end.

Lemma matchesb_sound ts s : Matches ts s -> matchesb ts s = true.
Proof.
  induction 1 as [|ts s1 s2 Hs1 Hm IH|ts c s r n Hc Hd Hm IH|ts c s Hm IH|ts neg rs c s r n Hd Hr Hm IH].
  - reflexivity.
  - cbn [matchesb]. induction Hs1 as [|c s1 Hc Hs1 IHs]; cbn [app].
    + destruct s2; rewrite IH; reflexivity.
    + rewrite IHs. replace (c =? Separator) with false by lia. cbn. apply orb_true_r.
  - cbn [matchesb]. rewrite Hd. cbn [snd]. rewrite IH. replace (c =? Separator) with false by lia. reflexivity.
  - cbn [matchesb]. rewrite IH. replace (c =? c) with true by lia. reflexivity.
  - cbn [matchesb]. rewrite Hd. cbn [fst snd]. rewrite IH, Hr. destruct neg; reflexivity.
Qed.

(** ** the other direction: what [matchChunk] accepts, the grammar derives *)
Lemma classLoop_ok_inv : forall fuel q r nr m, (length q < fuel)%nat ->
  match classLoop fuel q r nr m with
  | Ok (q', _) => (nr = true -> exists rs, RangesTail q rs q')
                  /\ (nr = false -> exists lo hi q1 rs, Range q lo hi q1 /\ RangesTail q1 rs q')
  | Bad => True
  | Fuel | Panic => False
  end.
Proof.
  induction fuel as [|f IH]; intros q r nr m Hf; [lia|].
  assert (Hstep :
    match (match getEsc q with
           | None => Bad
           | Some (lo, chunk1) =>
             match chunk1 with
             | [] => Panic
             | c1 :: t1 =>
               if c1 =? ch_dash
               then match getEsc t1 with
                    | None => Bad
                    | Some (hi, chunk2) => classLoop f chunk2 r true (m || ((lo <=? r) && (r <=? hi)))
                    end
               else classLoop f chunk1 r true (m || ((lo <=? r) && (r <=? lo)))
             end
           end) with
    | Ok (q', _) => exists lo hi q1 rs, Range q lo hi q1 /\ RangesTail q1 rs q'
    | Bad => True
    | Fuel | Panic => False
    end).
  { destruct (getEsc q) as [[lo chunk1]|] eqn:Eg; [|exact I].
    destruct (rchar_getEsc _ _ _ Eg) as [Hr Hne]. destruct chunk1 as [|c1 t1]; [congruence|].
    pose proof (rchar_len _ _ _ Hr) as Hl1. cbn [length] in Hl1.
    destruct (c1 =? ch_dash) eqn:Ed.
    - assert (c1 = ch_dash) by lia. subst c1.
      destruct (getEsc t1) as [[hi chunk2]|] eqn:Eg2; [|exact I].
      destruct (rchar_getEsc _ _ _ Eg2) as [Hr2 Hne2]. pose proof (rchar_len _ _ _ Hr2) as Hl2.
      specialize (IH chunk2 r true (m || ((lo <=? r) && (r <=? hi))) ltac:(lia)).
      destruct (classLoop f chunk2 r true _) as [[q' m']| | |]; try exact IH.
      destruct IH as [IH1 _]. destruct (IH1 eq_refl) as (rs & HT).
      exists lo, hi, chunk2, rs. split; [eapply Range_two; eassumption|exact HT].
    - specialize (IH (c1 :: t1) r true (m || ((lo <=? r) && (r <=? lo))) ltac:(cbn [length]; lia)).
      destruct (classLoop f (c1 :: t1) r true _) as [[q' m']| | |]; try exact IH.
      destruct IH as [IH1 _]. destruct (IH1 eq_refl) as (rs & HT).
      exists lo, lo, (c1 :: t1), rs. split; [apply Range_one; [exact Hr|simpl; lia]|exact HT]. }
  cbn [classLoop]. destruct q as [|c t].
  - destruct (match getEsc [] with Some _ => _ | None => _ end) as [[q' m']| | |]; try exact Hstep.
    destruct Hstep as (lo & hi & q1 & rs & HR & HT). split; intros _; [|exists lo, hi, q1, rs; split; assumption].
    exists ((lo, hi) :: rs). eapply RT_more; eassumption.
  - destruct ((c =? ch_rbr) && nr) eqn:Ec.
    + apply andb_prop in Ec. destruct Ec as [Ec ->]. assert (c = ch_rbr) by lia. subst c.
      split; [intros _; exists []; apply RT_close|discriminate].
    + destruct (match getEsc (c :: t) with Some _ => _ | None => _ end) as [[q' m']| | |]; try exact Hstep.
      destruct Hstep as (lo & hi & q1 & rs & HR & HT). split; intros _; [|exists lo, hi, q1, rs; split; assumption].
      exists ((lo, hi) :: rs). eapply RT_more; eassumption.
Qed.

Lemma scan_app p : forall inr a b, scan p inr = (a, b) -> p = a ++ b.
Proof.
  induction p as [p IH] using (well_founded_induction (Wf_nat.well_founded_ltof _ (@length N))).
  intros inr a b H. destruct p as [|c t]; [inversion H; reflexivity|]. cbn [scan] in H.
  destruct (c =? ch_bsl).
  - destruct t as [|c' t']; [inversion H; reflexivity|].
    destruct (scan t' inr) as [a0 b0] eqn:E. inversion H; subst. cbn [app]. f_equal. f_equal.
    apply (IH t' ltac:(unfold ltof; simpl; lia) inr). exact E.
  - destruct (c =? ch_lbr).
    { destruct (scan t true) as [a0 b0] eqn:E. inversion H; subst. cbn [app]. f_equal. apply (IH t ltac:(unfold ltof; simpl; lia) true). exact E. }
    destruct (c =? ch_rbr).
    { destruct (scan t false) as [a0 b0] eqn:E. inversion H; subst. cbn [app]. f_equal. apply (IH t ltac:(unfold ltof; simpl; lia) false). exact E. }
    destruct ((c =? ch_star) && negb inr); [inversion H; reflexivity|].
    destruct (scan t inr) as [a0 b0] eqn:E. inversion H; subst. cbn [app]. f_equal. apply (IH t ltac:(unfold ltof; simpl; lia) inr). exact E.
Qed.

Lemma scan_idem p : forall inr a b, scan p inr = (a, b) -> scan a inr = (a, []).
Proof.
  induction p as [p IH] using (well_founded_induction (Wf_nat.well_founded_ltof _ (@length N))).
  intros inr a b H. destruct p as [|c t]; [inversion H; reflexivity|]. cbn [scan] in H.
  destruct (c =? ch_bsl) eqn:E1.
  - destruct t as [|c' t']; [inversion H; subst; cbn [scan]; rewrite E1; reflexivity|].
    destruct (scan t' inr) as [a0 b0] eqn:E. inversion H; subst. cbn [scan]. rewrite E1.
    rewrite (IH t' ltac:(unfold ltof; simpl; lia) inr _ _ E). reflexivity.
  - destruct (c =? ch_lbr) eqn:E2.
    { destruct (scan t true) as [a0 b0] eqn:E. inversion H; subst. cbn [scan]. rewrite E1, E2.
      rewrite (IH t ltac:(unfold ltof; simpl; lia) true _ _ E). reflexivity. }
    destruct (c =? ch_rbr) eqn:E3.
    { destruct (scan t false) as [a0 b0] eqn:E. inversion H; subst. cbn [scan]. rewrite E1, E2, E3.
      rewrite (IH t ltac:(unfold ltof; simpl; lia) false _ _ E). reflexivity. }
    destruct ((c =? ch_star) && negb inr) eqn:E4; [inversion H; reflexivity|].
    destruct (scan t inr) as [a0 b0] eqn:E. inversion H; subst. cbn [scan]. rewrite E1, E2, E3, E4.
    rewrite (IH t ltac:(unfold ltof; simpl; lia) inr _ _ E). reflexivity.
Qed.

Lemma strip_caret_split q neg q0 : strip_caret q = (neg, q0) -> q0 <> [] ->
  exists pre, q = pre ++ q0 /\ (forall Y, same_head q0 Y -> strip_caret (pre ++ Y) = (neg, Y))
              /\ (forall Y, scan (pre ++ Y) true = (pre ++ fst (scan Y true), snd (scan Y true))).
Proof.
  unfold strip_caret. intros Hs Hne. destruct q as [|c t].
  - injection Hs as _ Hq0'. congruence.
  - destruct (c =? ch_caret) eqn:Ec; injection Hs as Hneg Hq0'.
    + exists [c]. split; [rewrite Hq0'; reflexivity|]. split.
      * intros Y _. cbn [app]. rewrite Ec, Hneg. reflexivity.
      * intros Y. cbn [app]. apply scan_cons_plain; unfold ch_caret, ch_bsl, ch_rbr, ch_star, ch_lbr in *; lia.
    + exists []. split; [rewrite Hq0'; reflexivity|]. split.
      * intros Y (c0 & t0 & t0' & E1 & E2). rewrite <- Hq0' in E1. injection E1 as Ec0 _. rewrite E2, <- Ec0.
        cbn [app]. rewrite Ec, Hneg. reflexivity.
      * intros Y. cbn [app]. destruct (scan Y true); reflexivity.
Qed.

Lemma Range_nonempty q lo hi q1 : Range q lo hi q1 -> q <> [].
Proof. intros H. inversion H; subst; match goal with Hr : rchar q = Some _ |- _ => destruct (rchar_head _ _ _ Hr) as (c & t & -> & _); discriminate end. Qed.

(** the grammar is compositional: a derivable chunk followed by a derivable rest *)
Lemma Parses_app c1 i1 : Parses c1 i1 -> forall p2 t2, Parses p2 t2 -> Parses (c1 ++ p2) (i1 ++ t2).
Proof.
  induction 1 as [|p ts HP IH|p ts HP IH|c p ts HP IH|c p ts Hm HP IH|q neg q0 lo hi q1 rs q' ts Hs HR HT HP IH];
    intros p2 t2 H2; cbn [app].
  - exact H2.
  - apply P_star. apply IH. exact H2.
  - apply P_any. apply IH. exact H2.
  - apply P_esc. apply IH. exact H2.
  - apply P_lit; [exact Hm|apply IH; exact H2].
  - destruct (RangesTail_split _ _ _ HT) as (b' & Hq1 & Hb' & HT' & _).
    destruct (Range_split _ _ _ _ HR) as (b0 & Hq0 & Hb0 & HR' & _).
    destruct (strip_caret_split _ _ _ Hs (Range_nonempty _ _ _ _ HR)) as (pre & Hq & Hstrip & _).
    assert (Hqq : q ++ p2 = pre ++ b0 ++ b' ++ (q' ++ p2)).
    { rewrite Hq, Hq0, Hq1, <- !app_assoc. reflexivity. }
    rewrite Hqq. eapply P_class with (q0 := b0 ++ b' ++ q' ++ p2) (q1 := b' ++ q' ++ p2) (q' := q' ++ p2).
    + apply Hstrip. rewrite Hq0. apply same_head_app. exact Hb0.
    + apply HR'. rewrite Hq1. apply same_head_app. exact Hb'.
    + apply HT'.
    + apply IH. exact H2.
Qed.

Lemma scan_cons_inv c t : scan (c :: t) false = (c :: t, []) ->
  c <> ch_star /\ (c <> ch_lbr -> c <> ch_bsl -> scan t false = (t, [])).
Proof.
  intros H. split.
  - intros ->. cbn in H. discriminate.
  - intros H1 H2. cbn [scan] in H. replace (c =? ch_bsl) with false in H by lia. replace (c =? ch_lbr) with false in H by lia.
    destruct (c =? ch_rbr).
    + destruct (scan t false) as [a b]. inversion H; subst. reflexivity.
    + destruct ((c =? ch_star) && negb false); [discriminate|].
      destruct (scan t false) as [a b]. inversion H; subst. reflexivity.
Qed.

Lemma matchChunkLoop_inv : forall fuel chunk s failed, (length chunk < fuel)%nat ->
  scan chunk false = (chunk, []) ->
  match matchChunkLoop fuel chunk s failed with
  | Ok _ => exists items, Parses chunk items /\ no_star items
  | Bad => True
  | Fuel | Panic => False
  end.
Proof.
  induction fuel as [|f IH]; intros chunk s failed Hf Hsc; [lia|].
  destruct chunk as [|c t].
  - cbn. destruct failed; exists []; split; constructor.
  - cbn [length] in Hf. destruct (scan_cons_inv c t Hsc) as [Hstar Hrest].
    destruct (c =? ch_lbr) eqn:El.
    + assert (c = ch_lbr) by lia. subst c. rewrite matchChunkLoop_lbr. cbv zeta.
      set (failed' := if negb failed && is_nil s then true else failed).
      destruct (if failed' then (0, s) else let '(r, n) := decodeRune s in (r, skipn n s)) as [r s1].
      destruct (strip_caret t) as [neg t1] eqn:Es.
      pose proof (strip_caret_len _ _ _ Es) as Hl0.
      pose proof (classLoop_ok_inv f t1 r false false ltac:(lia)) as Hc.
      destruct (classLoop f t1 r false false) as [[chunk' m]| | |]; try exact Hc.
      destruct Hc as [_ Hc]. destruct (Hc eq_refl) as (lo & hi & q1 & rs & HR & HT).
      pose proof (Range_len _ _ _ _ HR) as Hl1. pose proof (RangesTail_len _ _ _ HT) as Hl2.
      destruct (RangesTail_split _ _ _ HT) as (b' & Hq1 & Hb' & _ & Hs').
      destruct (Range_split _ _ _ _ HR) as (b0 & Hq0 & Hb0 & _ & Hs0).
      destruct (strip_caret_split _ _ _ Es (Range_nonempty _ _ _ _ HR)) as (pre & Hq & _ & Hspre).
      assert (Hsc' : scan chunk' false = (chunk', [])).
      { cbn [scan] in Hsc. replace (ch_lbr =? ch_bsl) with false in Hsc by reflexivity.
        replace (ch_lbr =? ch_lbr) with true in Hsc by reflexivity.
        assert (Ht : t = pre ++ b0 ++ b' ++ chunk') by (rewrite Hq, Hq0, Hq1; reflexivity).
        rewrite Ht, Hspre, Hs0, Hs' in Hsc. cbn [fst snd] in Hsc.
        destruct (scan chunk' false) as [a b]. cbn [fst snd] in Hsc. inversion Hsc as [[Ha Hb]]. subst b.
        repeat apply app_inv_head in Ha. subst a. reflexivity. }
      specialize (IH chunk' s1 (failed' || Bool.eqb m neg) ltac:(lia) Hsc').
      destruct (matchChunkLoop f chunk' s1 (failed' || Bool.eqb m neg)); try exact IH.
      destruct IH as (items & HP & Hn). exists (TClass neg ((lo, hi) :: rs) :: items). split.
      * eapply P_class; eassumption.
      * constructor; [discriminate|exact Hn].
    + destruct (c =? ch_qm) eqn:Eq.
      * assert (c = ch_qm) by lia. subst c. rewrite matchChunkLoop_qm. cbv zeta.
        specialize (Hrest ltac:(discriminate) ltac:(discriminate)).
        assert (Hres : forall s' fl, match matchChunkLoop f t s' fl with
                                    | Ok _ => exists items, Parses (ch_qm :: t) items /\ no_star items
                                    | Bad => True | _ => False end).
        { intros s' fl. specialize (IH t s' fl ltac:(lia) Hrest). destruct (matchChunkLoop f t s' fl); try exact IH.
          destruct IH as (items & HP & Hn). exists (TAny :: items). split; [apply P_any; exact HP|constructor; [discriminate|exact Hn]]. }
        destruct failed; cbn [negb andb]; [apply Hres|].
        destruct s as [|s0 s']; cbn [is_nil]; [apply Hres|].
        destruct (decodeRune (s0 :: s')) as [r n]. apply Hres.
      * destruct (c =? ch_bsl) eqn:Eb.
        -- assert (c = ch_bsl) by lia. subst c. destruct t as [|c' t'].
           ++ cbn. exact I.
           ++ rewrite matchChunkLoop_esc. cbv zeta.
              assert (Hrest' : scan t' false = (t', [])).
              { cbn [scan] in Hsc. replace (ch_bsl =? ch_bsl) with true in Hsc by reflexivity.
                destruct (scan t' false) as [a b]. inversion Hsc; subst. reflexivity. }
              assert (Hres : forall s' fl, match matchChunkLoop f t' s' fl with
                                          | Ok _ => exists items, Parses (ch_bsl :: c' :: t') items /\ no_star items
                                          | Bad => True | _ => False end).
              { intros s' fl. specialize (IH t' s' fl ltac:(cbn [length] in Hf; lia) Hrest'). destruct (matchChunkLoop f t' s' fl); try exact IH.
                destruct IH as (items & HP & Hn). exists (TLit c' :: items). split; [apply P_esc; exact HP|constructor; [discriminate|exact Hn]]. }
              destruct failed; cbn [negb andb]; [apply Hres|].
              destruct s as [|s0 s']; cbn [is_nil]; apply Hres.
        -- rewrite matchChunkLoop_lit by (try (right; exact I); lia). cbv zeta.
           specialize (Hrest ltac:(lia) ltac:(lia)).
           assert (Hres : forall s' fl, match matchChunkLoop f t s' fl with
                                       | Ok _ => exists items, Parses (c :: t) items /\ no_star items
                                       | Bad => True | _ => False end).
           { intros s' fl. specialize (IH t s' fl ltac:(lia) Hrest). destruct (matchChunkLoop f t s' fl); try exact IH.
             destruct IH as (items & HP & Hn). exists (TLit c :: items).
             split; [apply P_lit; [unfold is_meta; lia|exact HP]|constructor; [discriminate|exact Hn]]. }
           destruct failed; cbn [negb andb]; [apply Hres|].
           destruct s as [|s0 s']; cbn [is_nil]; apply Hres.
Qed.

Lemma strip_stars_app p : exists k, p = repeat ch_star k ++ snd (strip_stars p)
  /\ fst (strip_stars p) = Nat.ltb 0 k /\ (forall r, snd (strip_stars p) <> ch_star :: r).
Proof.
  induction p as [|c t IH]; [exists 0%nat; repeat split; discriminate|].
  cbn [strip_stars]. destruct (c =? ch_star) eqn:E.
  - assert (c = ch_star) by lia. subst c. destruct IH as (k & Hp & Hf & Hn).
    exists (S k). cbn [fst snd repeat app]. repeat split; [rewrite <- Hp; reflexivity|exact Hn].
  - exists 0%nat. cbn [fst snd repeat app]. repeat split. intros r Er. injection Er as Ec _. lia.
Qed.

Lemma scan_nil p rest : scan p false = ([], rest) -> p = [] \/ exists r, p = ch_star :: r.
Proof.
  destruct p as [|c t]; [left; reflexivity|]. cbn [scan]. intros H. right.
  destruct (c =? ch_bsl); [destruct t; [discriminate|destruct (scan t false); discriminate]|].
  destruct (c =? ch_lbr); [destruct (scan t true); discriminate|].
  destruct (c =? ch_rbr); [destruct (scan t false); discriminate|].
  destruct (c =? ch_star) eqn:E; cbn in H; [exists t; f_equal; lia|destruct (scan t false); discriminate].
Qed.

Lemma Parses_stars k p ts : Parses p ts -> Parses (repeat ch_star k ++ p) (repeat TStar k ++ ts).
Proof. intros H. induction k; [exact H|]. cbn [repeat app]. apply P_star. exact IHk. Qed.

Lemma matchChunk_inv chunk s : scan chunk false = (chunk, []) ->
  match matchChunk chunk s with
  | Ok _ => exists items, Parses chunk items /\ no_star items
  | Bad => True
  | Fuel | Panic => False
  end.
Proof. intros H. unfold matchChunk. apply matchChunkLoop_inv; [lia|exact H]. Qed.

(** [Match] answers true only for well-formed patterns, and never runs out of fuel or panics *)
Theorem MatchLoop_inv : forall fuel p s, (length p < fuel)%nat ->
  match MatchLoop fuel p s with
  | Ok true => WellFormed p
  | Ok false | Bad => True
  | Fuel | Panic => False
  end.
Proof.
  induction fuel as [|f IH]; intros p s Hf; [lia|].
  destruct p as [|c0 p0].
  - cbn. destruct (is_nil s); [exists []; constructor|exact I].
  - cbn [MatchLoop]. unfold scanChunk.
    destruct (strip_stars_app (c0 :: p0)) as (k & Hp & Hst & Hns).
    destruct (strip_stars (c0 :: p0)) as [star p1] eqn:Ess. cbn [fst snd] in Hp, Hst, Hns.
    destruct (scan p1 false) as [chunk rest] eqn:Esc. cbv beta iota zeta.
    pose proof (scan_app _ _ _ _ Esc) as Hp1. pose proof (scan_idem _ _ _ _ Esc) as Hidem.
    destruct (star && is_nil chunk) eqn:EA.
    + destruct (negb (contains_sep s)); [|exact I].
      apply andb_prop in EA. destruct EA as [_ Ec]. destruct chunk; [|discriminate].
      destruct (scan_nil _ _ Esc) as [E|(r & E)]; [|exfalso; exact (Hns r E)].
      rewrite Hp, E, app_nil_r. exists (repeat TStar k).
      pose proof (Parses_stars k [] [] P_nil) as H. rewrite !app_nil_r in H. exact H.
    + assert (Hlen : (length rest < f)%nat).
      { assert (Hl : length (c0 :: p0) = (k + (length chunk + length rest))%nat).
        { rewrite Hp, Hp1, !app_length, repeat_length. reflexivity. }
        assert (Hpos : (1 <= k + length chunk)%nat).
        { destruct k; [|lia]. destruct chunk; [|cbn; lia]. exfalso.
          destruct (scan_nil _ _ Esc) as [E|(r & E)]; [|exact (Hns r E)].
          cbn in Hp. rewrite E in Hp. discriminate. }
        cbn [length] in Hl, Hf. lia. }
      pose proof (matchChunk_inv chunk s Hidem) as Hmi.
      destruct (matchChunk chunk s) as [o| | |] eqn:Emc; try contradiction; [|exact I].
      destruct Hmi as (items & HPc & Hn).
      pose proof (fun x => matchChunk_parses chunk items x HPc Hn) as Hmc.
      assert (Hrec : forall t, match MatchLoop f rest t with
                               | Ok true => WellFormed (c0 :: p0)
                               | Ok false | Bad => True
                               | _ => False end).
      { intros t. specialize (IH rest t Hlen). destruct (MatchLoop f rest t) as [[|]| | |]; try exact IH.
        destruct IH as (ts' & HPr). exists (repeat TStar k ++ items ++ ts').
        rewrite Hp, Hp1. apply Parses_stars. apply Parses_app; assumption. }
      assert (Hafter : match (if star
                   then match starLoop chunk (is_nil rest) s with
                        | Ok (Some t) => MatchLoop f rest t
                        | Ok None => Ok false
                        | Bad => Bad | Fuel => Fuel | Panic => Panic
                        end
                   else Ok false) with
               | Ok true => WellFormed (c0 :: p0)
               | Ok false | Bad => True
               | _ => False end).
      { destruct star; [|exact I].
        destruct (starLoop_total chunk items (is_nil rest) Hmc s) as [[t|] Ho]; rewrite Ho; [apply Hrec|exact I]. }
      destruct o as [t|]; [|cbv beta iota zeta; exact Hafter].
      destruct (is_nil t || negb (is_nil rest)); cbv beta iota zeta; [apply Hrec|exact Hafter].
Qed.

Corollary Match_inv p s :
  (Match p s = Ok true -> WellFormed p)
  /\ (exists b, Match p s = Ok b) \/ Match p s = Bad.
Proof.
  pose proof (MatchLoop_inv (S (length p)) p s ltac:(lia)) as H. unfold Match.
  destruct (MatchLoop (S (length p)) p s) as [[|]| | |]; try contradiction.
  - left. split; [intros _; exact H|eexists; reflexivity].
  - left. split; [discriminate|eexists; reflexivity].
  - right. reflexivity.
Qed.

(** a malformed pattern is answered ErrBadPattern or (false, nil), never true *)
Corollary Match_malformed p s : ~ WellFormed p -> Match p s = Bad \/ Match p s = Ok false.
Proof.
  intros Hw. destruct (Match_inv p s) as [[H1 (b & Hb)]|Hb]; [|left; exact Hb].
  destruct b; [exfalso; apply Hw, H1, Hb|right; exact Hb].
Qed.

(** a malformed FIRST chunk is always reached: ErrBadPattern for every name *)
Theorem Match_bad_first_chunk p s star chunk rest :
  p <> [] -> scanChunk p = (star, chunk, rest) -> star && is_nil chunk = false ->
  (forall items, ~ (Parses chunk items /\ no_star items)) -> Match p s = Bad.
Proof.
  intros Hne Hsc HA Hbad. unfold Match. destruct p as [|c0 p0]; [congruence|].
  cbn [MatchLoop]. rewrite Hsc. rewrite HA.
  assert (Hidem : scan chunk false = (chunk, [])).
  { unfold scanChunk in Hsc. destruct (strip_stars (c0 :: p0)) as [st p1]. destruct (scan p1 false) as [ch rs] eqn:E.
    inversion Hsc; subst. eapply scan_idem; exact E. }
  pose proof (matchChunk_inv chunk s Hidem) as H.
  destruct (matchChunk chunk s) as [o| | |]; try contradiction; [|reflexivity].
  destruct H as (items & HP & Hn). exfalso. exact (Hbad items (conj HP Hn)).
Qed.
