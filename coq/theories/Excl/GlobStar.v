(** C19: filepath.Match through scanChunk and the star loop (continues GlobProofs.v). *)
From Coq Require Import List NArith Bool Arith Lia ZifyBool ZifyNat ZifyN.
From Atlas Require Import Base.Bytes Excl.Glob Excl.GlobSpec Excl.GlobProofs.
Import ListNotations.
Local Open Scope N_scope.

(** ** utf8: the bytes of a decoded rune after the first are continuation bytes, and the
    decoding of a valid rune does not depend on what follows it *)
Ltac destr_ifs :=
  repeat match goal with
         | |- context [if ?b then _ else _] => let E := fresh "E" in destruct b eqn:E
         end.

Lemma cont_ge b : cont b = true -> 128 <= b.
Proof. unfold cont. lia. Qed.

Lemma decodeRune_tail c t r n : decodeRune (c :: t) = (r, n) ->
  firstn n (c :: t) = c :: firstn (n - 1) t /\ Forall (fun b => 128 <= b) (firstn (n - 1) t).
Proof.
  intros H. pose proof (decodeRune_pos _ _ _ _ H) as Hn. split.
  - destruct n; [lia|]. cbn [firstn]. replace (S n - 1)%nat with n by lia. reflexivity.
  - revert H. unfold decodeRune. destruct t as [|s1 [|s2 [|s3 t]]]; destr_ifs; intros H; inversion H; subst;
      cbn [firstn Nat.sub];
      repeat match goal with E : (_ && _) = true |- _ => apply andb_prop in E; destruct E end;
      repeat match goal with H : context [if ?b then _ else _] |- _ => destruct b end;
      repeat (constructor; try (apply cont_ge; assumption); try lia).
Qed.

Lemma decodeRune_stable c t r n X : decodeRune (c :: t) = (r, n) -> ~ (r = RuneError /\ n = 1%nat) ->
  decodeRune (firstn n (c :: t) ++ X) = (r, n).
Proof.
  unfold decodeRune. destruct t as [|s1 [|s2 [|s3 t]]]; destr_ifs; intros H Hv; inversion H; subst;
    try (exfalso; apply Hv; split; reflexivity); cbn [firstn app];
    repeat match goal with E : ?b = _ |- context [?b] => rewrite E end; reflexivity.
Qed.

(** ** scan over the bytes of a class *)
Lemma scan_cons_plain c t inr :
  c <> ch_bsl -> c <> ch_rbr -> (c = ch_star -> inr = true) -> (c = ch_lbr -> inr = true) ->
  scan (c :: t) inr = (c :: fst (scan t inr), snd (scan t inr)).
Proof.
  intros H1 H2 H3 H4. cbn [scan]. replace (c =? ch_bsl) with false by lia.
  destruct (c =? ch_lbr) eqn:El.
  - assert (c = ch_lbr) by lia. rewrite (H4 H). destruct (scan t true); reflexivity.
  - replace (c =? ch_rbr) with false by lia. destruct (c =? ch_star) eqn:Es.
    + assert (c = ch_star) by lia. rewrite (H3 H). cbn. destruct (scan t true); reflexivity.
    + cbn. destruct (scan t inr); reflexivity.
Qed.

Lemma scan_neutral mid Y inr : Forall (fun b => 128 <= b) mid ->
  scan (mid ++ Y) inr = (mid ++ fst (scan Y inr), snd (scan Y inr)).
Proof.
  induction 1 as [|m mid Hm _ IH]; [cbn; destruct (scan Y inr); reflexivity|].
  cbn [app]. rewrite scan_cons_plain by (unfold ch_bsl, ch_rbr, ch_star, ch_lbr; lia).
  rewrite IH. reflexivity.
Qed.

Lemma rchar_split q r qa : rchar q = Some (r, qa) ->
  exists b, q = b ++ qa /\ b <> [] /\ (forall Y, rchar (b ++ Y) = Some (r, Y))
            /\ (forall Y, scan (b ++ Y) true = (b ++ fst (scan Y true), snd (scan Y true))).
Proof.
  unfold rchar. destruct q as [|c t]; [discriminate|].
  destruct ((c =? ch_dash) || (c =? ch_rbr)) eqn:E1; [discriminate|].
  destruct (c =? ch_bsl) eqn:Eb.
  - destruct t as [|c' t']; [discriminate|].
    destruct (decodeRune (c' :: t')) as [r0 n] eqn:Ed.
    destruct ((r0 =? RuneError) && Nat.eqb n 1) eqn:Ev; [discriminate|]. intros H; inversion H; subst.
    destruct (decodeRune_tail _ _ _ _ Ed) as [Hf Hmid].
    exists (c :: firstn n (c' :: t')). split; [cbn [app]; rewrite firstn_skipn; reflexivity|].
    split; [discriminate|]. split.
    + intros Y. cbn [app]. rewrite E1, Eb. rewrite Hf. cbn [app].
      pose proof (decodeRune_stable c' t' r n Y Ed) as Hs. rewrite Hf in Hs. cbn [app] in Hs.
      rewrite Hs by (intros [-> ->]; cbn in Ev; discriminate). rewrite Ev.
      f_equal. f_equal. pose proof (decodeRune_pos _ _ _ _ Ed).
      destruct n; [lia|]. cbn [skipn]. replace (S n - 1)%nat with n by lia.
      rewrite skipn_app. rewrite skipn_all2 by (rewrite firstn_length; lia).
      rewrite firstn_length. replace (n - Nat.min n (length t'))%nat with 0%nat.
      * reflexivity.
      * assert (length (firstn (S n) (c' :: t')) = S n).
        { assert (Hx : firstn (S n) (c' :: t') ++ skipn (S n) (c' :: t') = c' :: t') by apply firstn_skipn.
          (* the decoded rune does not reach beyond the string *)
          clear -Ed. revert Ed. unfold decodeRune. destruct t' as [|s1 [|s2 [|s3 t]]]; destr_ifs; intros H; inversion H; subst; reflexivity. }
        rewrite firstn_length in H1. cbn [length] in H1. lia.
    + intros Y. cbn [app]. rewrite Hf. cbn [app scan]. rewrite Eb.
      rewrite scan_neutral by assumption. reflexivity.
  - destruct (decodeRune (c :: t)) as [r0 n] eqn:Ed.
    destruct ((r0 =? RuneError) && Nat.eqb n 1) eqn:Ev; [discriminate|]. intros H; inversion H; subst.
    destruct (decodeRune_tail _ _ _ _ Ed) as [Hf Hmid].
    exists (firstn n (c :: t)). split; [rewrite firstn_skipn; reflexivity|].
    split; [rewrite Hf; discriminate|]. split.
    + intros Y. rewrite Hf. cbn [app]. rewrite E1, Eb.
      pose proof (decodeRune_stable c t r n Y Ed) as Hs. rewrite Hf in Hs. cbn [app] in Hs.
      rewrite Hs by (intros [-> ->]; cbn in Ev; discriminate). rewrite Ev.
      f_equal. f_equal. pose proof (decodeRune_pos _ _ _ _ Ed).
      destruct n; [lia|]. cbn [skipn]. replace (S n - 1)%nat with n by lia.
      rewrite skipn_app. rewrite skipn_all2 by (rewrite firstn_length; lia).
      rewrite firstn_length. replace (n - Nat.min n (length t))%nat with 0%nat; [reflexivity|].
      assert (length (firstn (S n) (c :: t)) = S n).
      { clear -Ed. revert Ed. unfold decodeRune. destruct t as [|s1 [|s2 [|s3 t]]]; destr_ifs; intros H; inversion H; subst; reflexivity. }
      rewrite firstn_length in H1. cbn [length] in H1. lia.
    + intros Y. rewrite Hf. cbn [app]. rewrite scan_cons_plain; try lia; try (intros _; reflexivity).
      rewrite scan_neutral by assumption. reflexivity.
Qed.
