(** C19, second sentence: proofs about the skip filter over the generic differ model. *)
From Coq Require Import List NArith Bool Arith String Lia.
From Atlas Require Import Base.Bytes Diff.Schema Diff.DiffModel Diff.DiffSqlite gen.Gen_SkipKinds Excl.Skip.
Import ListNotations.
Local Open Scope list_scope.

Lemma kind_beq_eq a b : kind_beq a b = true <-> a = b.
Proof. split; [apply internal_kind_dec_bl | apply internal_kind_dec_lb]. Qed.

Lemma mem_In k K : mem k K = true <-> In k K.
Proof.
  unfold mem. rewrite existsb_exists. split.
  - intros (x & Hin & Hx). apply kind_beq_eq in Hx. subst; exact Hin.
  - intros Hin. exists k. split; [exact Hin | apply kind_beq_eq; reflexivity].
Qed.

Lemma gen_names_known_ok : gen_names_known = true.
Proof. vm_compute. reflexivity. Qed.

Section Skip.
Variable K : list kind.
Hypothesis HK : Forall (fun k => skippable k = true) K.

Lemma mem_nonskippable k : skippable k = false -> mem k K = false.
Proof.
  intros Hs. destruct (mem k K) eqn:E; [|reflexivity].
  apply mem_In in E. rewrite Forall_forall in HK. apply HK in E. congruence.
Qed.

(** every skippable kind that can occur in the model is told apart by [Skipped] *)
Lemma tags_cover c : skippable (kind_of_change c) = true -> tag_kind (tag_of c) = Some (kind_of_change c).
Proof. destruct c; simpl; intros H; try reflexivity; vm_compute in H; discriminate. Qed.

Lemma tags_cover_s c : tag_kind (stag_of c) = Some (kind_of_schange c).
Proof. destruct c; reflexivity. Qed.

Lemma skip_keep c : negb (skip_of K (tag_of c)) = keep K c.
Proof.
  unfold keep, skip_of.
  destruct (skippable (kind_of_change c)) eqn:Hs.
  - rewrite (tags_cover c Hs). reflexivity.
  - rewrite (mem_nonskippable _ Hs).
    destruct c; simpl in *; try reflexivity; vm_compute in Hs; discriminate.
Qed.

Lemma add_or_skip_keep cs : add_or_skip (skip_of K) cs = filter (keep K) cs.
Proof. unfold add_or_skip. apply filter_ext. intros c. apply skip_keep. Qed.

Lemma add_or_skip_none cs : add_or_skip no_skip cs = cs.
Proof. unfold add_or_skip, no_skip. simpl. induction cs; simpl; congruence. Qed.

Lemma add_or_skip_s_none cs : add_or_skip_s no_skip cs = cs.
Proof. unfold add_or_skip_s, no_skip. simpl. induction cs; simpl; congruence. Qed.

Lemma filter_keep_idem cs : filter (keep K) (filter (keep K) cs) = filter (keep K) cs.
Proof. induction cs as [|c cs IH]; simpl; [reflexivity|]. destruct (keep K c) eqn:E; simpl; rewrite ?E, IH; reflexivity. Qed.

Section Driver.
Variable D : DiffDriver.
Hypothesis HD : attr_changes_only D.

Lemma column_diff_skip a b :
  column_diff D (skip_of K) a b = option_map (filter (keep K)) (column_diff D no_skip a b).
Proof.
  unfold column_diff. destruct (column_diff_drop_modify D a b (t_cols a)); simpl; [|reflexivity].
  rewrite add_or_skip_keep, add_or_skip_none. reflexivity.
Qed.

Lemma pk_diff_skip a b : pk_diff D (skip_of K) a b = filter (keep K) (pk_diff D no_skip a b).
Proof.
  unfold pk_diff.
  destruct (t_pk a), (t_pk b); rewrite ?add_or_skip_keep, ?add_or_skip_none; try reflexivity.
  repeat match goal with |- context [if ?x then _ else _] => destruct x end;
    rewrite ?add_or_skip_keep, ?add_or_skip_none; reflexivity.
Qed.

Lemma index_diff_t_skip a b : index_diff_t D (skip_of K) a b = filter (keep K) (index_diff_t D no_skip a b).
Proof.
  unfold index_diff_t. destruct (index_diff_from D a b (t_idx a) []).
  rewrite add_or_skip_keep, add_or_skip_none. reflexivity.
Qed.

Lemma fk_diff_skip a b : fk_diff D (skip_of K) a b = filter (keep K) (fk_diff D no_skip a b).
Proof. unfold fk_diff. rewrite add_or_skip_keep, add_or_skip_none. reflexivity. Qed.

Lemma attrs_kept a b l : dd_table_attr_diff D a b = Some l -> filter (keep K) l = l.
Proof.
  intros H. assert (Hall : forall c, In c l -> keep K c = true).
  { intros c Hc. unfold keep. rewrite (mem_nonskippable _ (HD _ _ _ _ H Hc)). reflexivity. }
  clear H. induction l as [|c l IH]; simpl; [reflexivity|].
  rewrite (Hall c (or_introl eq_refl)). f_equal. apply IH. intros x Hx. apply Hall. right; exact Hx.
Qed.

(** nested level: the filtered table diff is the unfiltered one minus the kinds of K *)
Lemma table_diff_skip a b :
  table_diff D (skip_of K) a b = option_map (filter (keep K)) (table_diff D no_skip a b).
Proof.
  unfold table_diff.
  destruct (dd_normalize D (set_t_name a (t_name b)) b) as [[f t]|]; [|reflexivity].
  destruct (dd_table_attr_diff D f t) as [attrs|] eqn:Ha; [|reflexivity].
  rewrite column_diff_skip. destruct (column_diff D no_skip f t) as [cols|]; simpl; [|reflexivity].
  rewrite pk_diff_skip, index_diff_t_skip, fk_diff_skip.
  rewrite !filter_app, (attrs_kept _ _ _ Ha). reflexivity.
Qed.

Lemma TableDiff_skip a b :
  TableDiff D (skip_of K) a b = option_map (filter (keep K)) (TableDiff D no_skip a b).
Proof. unfold TableDiff. destruct (negb _); [reflexivity | apply table_diff_skip]. Qed.

Lemma remove_kinds_app x y : remove_kinds K (x ++ y) = remove_kinds K x ++ remove_kinds K y.
Proof. unfold remove_kinds. apply flat_map_app. Qed.

Lemma skip_of_s c : skip_of K (stag_of c) = mem (kind_of_schange c) K.
Proof. unfold skip_of. rewrite tags_cover_s. reflexivity. Qed.

Lemma add_or_skip_s_one c :
  add_or_skip_s (skip_of K) [c] = if mem (kind_of_schange c) K then [] else [c].
Proof. unfold add_or_skip_s. simpl. rewrite skip_of_s. destruct (mem _ K); reflexivity. Qed.

Lemma schema_diff_from_skip to l :
  schema_diff_from D (skip_of K) to l = option_map (remove_kinds K) (schema_diff_from D no_skip to l).
Proof.
  induction l as [|t1 l IH]; simpl; [reflexivity|].
  destruct (find_table (t_name t1) (s_tables to)) as [t2|].
  - rewrite table_diff_skip. destruct (table_diff D no_skip t1 t2) as [ch|]; simpl; [|reflexivity].
    rewrite IH. destruct (schema_diff_from D no_skip to l) as [r|]; simpl; [|reflexivity].
    f_equal. rewrite remove_kinds_app. f_equal.
    destruct ch as [|c ch]; [reflexivity|].
    change (remove_kinds K [ModifyTable (t_name t2) (c :: ch)])
      with ((if mem KModifyTable K then []
             else match filter (keep K) (c :: ch) with [] => [] | ch' => [ModifyTable (t_name t2) ch'] end) ++ []).
    rewrite app_nil_r. change (skip_of K TgModifyTable) with (mem KModifyTable K).
    destruct (filter (keep K) (c :: ch)); destruct (mem KModifyTable K); reflexivity.
  - rewrite IH. destruct (schema_diff_from D no_skip to l) as [r|]; simpl; [|reflexivity].
    f_equal. change (skip_of K TgDropTable) with (mem KDropTable K).
    destruct (mem KDropTable K); reflexivity.
Qed.

Lemma schema_diff_add_skip from to :
  schema_diff_add (skip_of K) from to = remove_kinds K (schema_diff_add no_skip from to).
Proof.
  unfold schema_diff_add. rewrite add_or_skip_s_none.
  induction (s_tables to) as [|t1 l IH]; simpl; [reflexivity|].
  destruct (find_table (t_name t1) (s_tables from)); simpl; [exact IH|].
  unfold add_or_skip_s in *. simpl. change (skip_of K TgAddTable) with (mem KAddTable K).
  destruct (mem KAddTable K); simpl; rewrite IH; reflexivity.
Qed.

(** the filtered schema diff = the unfiltered one minus exactly the kinds of K *)
Theorem skip_exact from to :
  SchemaDiff D (skip_of K) from to = option_map (remove_kinds K) (SchemaDiff D no_skip from to).
Proof.
  unfold SchemaDiff. destruct (negb _); [reflexivity|].
  rewrite schema_diff_from_skip. destruct (schema_diff_from D no_skip to (s_tables from)); simpl; [|reflexivity].
  rewrite remove_kinds_app, schema_diff_add_skip. reflexivity.
Qed.

End Driver.

(** no kind of K occurs in what [remove_kinds K] returns, at either level *)
Lemma remove_kinds_absent cs k : In k K -> ~ occurs k (remove_kinds K cs).
Proof.
  intros Hk (c & Hin & Hc). unfold remove_kinds in Hin. apply in_flat_map in Hin.
  destruct Hin as (c0 & _ & Hin).
  destruct (mem (kind_of_schange c0) K) eqn:Em; [destruct Hin|].
  assert (Hkeep : forall n ch, c = ModifyTable n ch -> forall x, In x ch -> keep K x = true).
  { intros n ch -> x Hx. destruct c0 as [| |n0 ch0]; simpl in Hin;
      try (destruct Hin as [Hin|[]]; discriminate).
    destruct (filter (keep K) ch0) as [|y ys] eqn:Ef; [destruct Hin|].
    destruct Hin as [Hin|[]]. inversion Hin; subst.
    assert (Hx' : In x (filter (keep K) ch0)) by (rewrite Ef; exact Hx).
    apply filter_In in Hx'. apply Hx'. }
  assert (Hkind : kind_of_schange c = kind_of_schange c0).
  { destruct c0 as [| |n0 ch0]; simpl in Hin; try (destruct Hin as [<-|[]]; reflexivity).
    destruct (filter (keep K) ch0); [destruct Hin|]. destruct Hin as [<-|[]]. reflexivity. }
  destruct Hc as [Hc | (n & ch & x & -> & Hx & Hxk)].
  - rewrite Hkind in Hc. subst k. apply mem_In in Hk. congruence.
  - specialize (Hkeep n ch eq_refl x Hx). unfold keep in Hkeep. subst k. apply mem_In in Hk.
    rewrite Hk in Hkeep. discriminate.
Qed.

(** ... and everything else is still there *)
Lemma remove_kinds_keeps_top cs c :
  In c cs -> mem (kind_of_schange c) K = false -> (forall n ch, c <> ModifyTable n ch) ->
  In c (remove_kinds K cs).
Proof.
  intros Hin Hm Hn. unfold remove_kinds. apply in_flat_map. exists c. split; [exact Hin|].
  rewrite Hm. destruct c; try (left; reflexivity). exfalso. eapply Hn; reflexivity.
Qed.

Lemma remove_kinds_keeps_nested cs n ch x :
  In (ModifyTable n ch) cs -> mem KModifyTable K = false -> In x ch -> keep K x = true ->
  exists ch', In (ModifyTable n ch') (remove_kinds K cs) /\ In x ch' /\ ch' = filter (keep K) ch.
Proof.
  intros Hin Hm Hx Hk. exists (filter (keep K) ch).
  assert (Hx' : In x (filter (keep K) ch)) by (apply filter_In; split; assumption).
  split; [|split; [exact Hx'|reflexivity]].
  unfold remove_kinds. apply in_flat_map. exists (ModifyTable n ch). split; [exact Hin|].
  simpl. rewrite Hm. destruct (filter (keep K) ch); [destruct Hx'|left; reflexivity].
Qed.

End Skip.

Lemma sqlite_attr_changes_only : attr_changes_only sqlite_driver.
Proof.
  intros from to l c H Hin. simpl in H. unfold sqlite_table_attr_diff in H. inversion H; subst; clear H.
  repeat (apply in_app_or in Hin; destruct Hin as [Hin|Hin]).
  - destruct (t_without_rowid from && negb (t_without_rowid to)); [destruct Hin as [<-|[]]; reflexivity|].
    destruct (negb (t_without_rowid from) && t_without_rowid to); [destruct Hin as [<-|[]]; reflexivity|destruct Hin].
  - destruct (t_strict from && negb (t_strict to)); [destruct Hin as [<-|[]]; reflexivity|].
    destruct (negb (t_strict from) && t_strict to); [destruct Hin as [<-|[]]; reflexivity|destruct Hin].
  - apply in_flat_map in Hin. destruct Hin as (k & _ & Hin).
    destruct (find _ _); [destruct (negb _); [destruct Hin as [<-|[]]; reflexivity|destruct Hin]
                         |destruct Hin as [<-|[]]; reflexivity].
  - apply in_flat_map in Hin. destruct Hin as (k & _ & Hin).
    destruct (existsb _ _); [destruct Hin|destruct Hin as [<-|[]]; reflexivity].
Qed.
