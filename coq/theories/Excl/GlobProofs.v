(** C19: the model of filepath.Match (Glob.v) against the declarative semantics (GlobSpec.v). *)
From Coq Require Import List NArith Bool Arith Lia ZifyBool ZifyNat ZifyN.
From Atlas Require Import Base.Bytes Excl.Glob Excl.GlobSpec.
Import ListNotations.
Local Open Scope N_scope.

(** ** utf8 *)
Lemma decodeRune_pos c t r n : decodeRune (c :: t) = (r, n) -> (1 <= n)%nat.
Proof.
  unfold decodeRune.
  repeat match goal with
         | |- context [if ?b then _ else _] => destruct b
         | |- context [match ?l with [] => _ | _ :: _ => _ end] => destruct l
         end; intros H; inversion H; lia.
Qed.

Lemma decodeRune_ascii c t : c < 128 -> decodeRune (c :: t) = (c, 1%nat).
Proof. intros H. unfold decodeRune. destruct (c <? 128) eqn:E; [reflexivity|apply N.ltb_ge in E; lia]. Qed.

Lemma skipn_length_lt {A} (l : list A) n : (1 <= n)%nat -> l <> [] -> (length (skipn n l) < length l)%nat.
Proof. intros Hn Hl. destruct l; [congruence|]. rewrite skipn_length. cbn [length]. lia. Qed.

(** ** class characters *)
Lemma rchar_len q r q' : rchar q = Some (r, q') -> (length q' < length q)%nat.
Proof.
  unfold rchar. destruct q as [|c t]; [discriminate|].
  destruct ((c =? ch_dash) || (c =? ch_rbr)); [discriminate|].
  destruct (c =? ch_bsl).
  - destruct t as [|c' t']; [discriminate|]. destruct (decodeRune (c' :: t')) as [r0 n] eqn:E.
    destruct ((r0 =? RuneError) && Nat.eqb n 1); [discriminate|]. intros H; inversion H; subst.
    pose proof (decodeRune_pos _ _ _ _ E). pose proof (skipn_length_lt (c' :: t') n H0 ltac:(discriminate)).
    simpl in *. lia.
  - destruct (decodeRune (c :: t)) as [r0 n] eqn:E.
    destruct ((r0 =? RuneError) && Nat.eqb n 1); [discriminate|]. intros H; inversion H; subst.
    pose proof (decodeRune_pos _ _ _ _ E). apply skipn_length_lt; [assumption|discriminate].
Qed.

Lemma getEsc_rchar q r q' : rchar q = Some (r, q') -> q' <> [] -> getEsc q = Some (r, q').
Proof.
  unfold rchar, getEsc. destruct q as [|c t]; [discriminate|].
  destruct ((c =? ch_dash) || (c =? ch_rbr)); [discriminate|].
  destruct (if c =? ch_bsl then t else c :: t) as [|x y]; [discriminate|].
  destruct (decodeRune (x :: y)) as [r0 n]. destruct ((r0 =? RuneError) && Nat.eqb n 1); [discriminate|].
  intros H Hne; inversion H; subst. destruct (skipn n (x :: y)); [congruence|reflexivity].
Qed.

Lemma rchar_getEsc q r q' : getEsc q = Some (r, q') -> rchar q = Some (r, q') /\ q' <> [].
Proof.
  unfold rchar, getEsc. destruct q as [|c t]; [discriminate|].
  destruct ((c =? ch_dash) || (c =? ch_rbr)); [discriminate|].
  destruct (if c =? ch_bsl then t else c :: t) as [|x y]; [discriminate|].
  destruct (decodeRune (x :: y)) as [r0 n]. destruct ((r0 =? RuneError) && Nat.eqb n 1); [discriminate|].
  destruct (skipn n (x :: y)) eqn:E; [discriminate|]. intros H; inversion H; subst. split; [reflexivity|discriminate].
Qed.

Lemma rchar_head q r q' : rchar q = Some (r, q') -> exists c t, q = c :: t /\ c <> ch_rbr /\ c <> ch_dash.
Proof.
  unfold rchar. destruct q as [|c t]; [discriminate|].
  destruct ((c =? ch_dash) || (c =? ch_rbr)) eqn:E; [discriminate|]. intros _. exists c, t. repeat split; lia.
Qed.

Lemma Range_len q lo hi q1 : Range q lo hi q1 -> (length q1 < length q)%nat.
Proof.
  intros H. inversion H; subst.
  - eapply rchar_len; eassumption.
  - apply rchar_len in H0, H1. simpl in *. lia.
Qed.

Lemma RangesTail_len q rs q' : RangesTail q rs q' -> (length q' < length q)%nat.
Proof.
  induction 1; [simpl; lia|]. apply Range_len in H. lia.
Qed.

Lemma RangesTail_nonempty q rs q' : RangesTail q rs q' -> q <> [].
Proof. intros H. apply RangesTail_len in H. destruct q; [simpl in H; lia|discriminate]. Qed.

(** ** classLoop on a class that the grammar derives *)
Lemma classLoop_step fuel q lo hi q1 r nr m :
  Range q lo hi q1 -> q1 <> [] ->
  classLoop (S fuel) q r nr m = classLoop fuel q1 r true (m || ((lo <=? r) && (r <=? hi))).
Proof.
  intros HR Hne. cbn [classLoop].
  assert (Hstep : forall X : res (bytes * bool),
    match q with c :: t => if (c =? ch_rbr) && nr then X else
      match getEsc q with
      | None => Bad
      | Some (lo0, chunk1) =>
        match chunk1 with
        | [] => Panic
        | c1 :: t1 => if c1 =? ch_dash
                      then match getEsc t1 with
                           | None => Bad
                           | Some (hi0, chunk2) => classLoop fuel chunk2 r true (m || ((lo0 <=? r) && (r <=? hi0)))
                           end
                      else classLoop fuel chunk1 r true (m || ((lo0 <=? r) && (r <=? lo0)))
        end
      end
    | [] => Bad end = classLoop fuel q1 r true (m || ((lo <=? r) && (r <=? hi)))).
  { intros X. inversion HR; subst.
    - destruct (rchar_head _ _ _ H) as (c & t & -> & Hc & _).
      replace ((c =? ch_rbr) && nr) with false by lia.
      rewrite (getEsc_rchar _ _ _ H Hne). destruct q1 as [|c1 t1]; [congruence|].
      simpl in H0. replace (c1 =? ch_dash) with false by lia. reflexivity.
    - destruct (rchar_head _ _ _ H) as (c & t & -> & Hc & _).
      replace ((c =? ch_rbr) && nr) with false by lia.
      rewrite (getEsc_rchar _ _ _ H ltac:(discriminate)).
      replace (ch_dash =? ch_dash) with true by reflexivity.
      rewrite (getEsc_rchar _ _ _ H0 Hne). reflexivity. }
  destruct q as [|c t]; [inversion HR; subst; discriminate|].
  exact (Hstep (Ok (t, m))).
Qed.

Lemma classLoop_tail q rs q' : RangesTail q rs q' ->
  forall fuel r m, (length q < fuel)%nat -> classLoop fuel q r true m = Ok (q', m || in_ranges r rs).
Proof.
  induction 1 as [q'|q lo hi q1 rs q' HR HT IH]; intros fuel r m Hf.
  - destruct fuel; [lia|]. cbn. rewrite orb_false_r. reflexivity.
  - destruct fuel; [lia|]. rewrite (classLoop_step fuel q lo hi q1 r true m HR (RangesTail_nonempty _ _ _ HT)).
    rewrite IH by (apply Range_len in HR; lia).
    unfold in_ranges. cbn [existsb fst snd]. rewrite orb_assoc. reflexivity.
Qed.

Lemma classLoop_class q lo hi q1 rs q' : Range q lo hi q1 -> RangesTail q1 rs q' ->
  forall fuel r, (length q < fuel)%nat ->
  classLoop fuel q r false false = Ok (q', in_ranges r ((lo, hi) :: rs)).
Proof.
  intros HR HT fuel r Hf. destruct fuel; [lia|].
  rewrite (classLoop_step fuel q lo hi q1 r false false HR (RangesTail_nonempty _ _ _ HT)).
  rewrite (classLoop_tail _ _ _ HT) by (apply Range_len in HR; lia). reflexivity.
Qed.

(** ** matchChunk on a chunk that the grammar derives *)
(** the deterministic prefix matcher of a star-free term list: the rest of the name *)
Fixpoint PM (items : list term) (s : bytes) : option bytes :=
  match items with
  | [] => Some s
  | it :: items' =>
    match s with
    | [] => None
    | s0 :: s' =>
      match it with
      | TStar => None
      | TAny => if s0 =? Separator then None else PM items' (skipn (snd (decodeRune s)) s)
      | TLit c => if c =? s0 then PM items' s' else None
      | TClass neg rs =>
          if Bool.eqb (in_ranges (fst (decodeRune s)) rs) neg then None
          else PM items' (skipn (snd (decodeRune s)) s)
      end
    end
  end.

Definition no_star (items : list term) : Prop := Forall (fun t => t <> TStar) items.

Lemma strip_caret_len q neg q0 : strip_caret q = (neg, q0) -> (length q0 <= length q)%nat.
Proof.
  unfold strip_caret. destruct q as [|c t]; [intros H; inversion H; simpl; lia|].
  destruct (c =? ch_caret); intros H; inversion H; subst; simpl; lia.
Qed.

Lemma matchChunkLoop_lbr f q s failed :
  matchChunkLoop (S f) (ch_lbr :: q) s failed =
  let failed' := if negb failed && is_nil s then true else failed in
  let '(r, s1) := if failed' then (0, s) else let '(r, n) := decodeRune s in (r, skipn n s) in
  let '(negated, t1) := strip_caret q in
  match classLoop f t1 r false false with
  | Ok (chunk', m) => matchChunkLoop f chunk' s1 (failed' || Bool.eqb m negated)
  | Bad => Bad | Fuel => Fuel | Panic => Panic
  end.
Proof. reflexivity. Qed.

Lemma matchChunkLoop_lit f c p s failed :
  is_meta c = false \/ True -> c <> ch_lbr -> c <> ch_qm -> c <> ch_bsl ->
  matchChunkLoop (S f) (c :: p) s failed =
  let failed' := if negb failed && is_nil s then true else failed in
  if failed' then matchChunkLoop f p s failed'
  else match s with s0 :: s' => matchChunkLoop f p s' (negb (c =? s0)) | [] => Panic end.
Proof.
  intros _ H1 H2 H3. cbn [matchChunkLoop].
  replace (c =? ch_lbr) with false by lia. replace (c =? ch_qm) with false by lia.
  replace (c =? ch_bsl) with false by lia. reflexivity.
Qed.

Lemma matchChunkLoop_esc f c p s failed :
  matchChunkLoop (S f) (ch_bsl :: c :: p) s failed =
  let failed' := if negb failed && is_nil s then true else failed in
  if failed' then matchChunkLoop f p s failed'
  else match s with s0 :: s' => matchChunkLoop f p s' (negb (c =? s0)) | [] => Panic end.
Proof. reflexivity. Qed.

Lemma matchChunkLoop_qm f p s failed :
  matchChunkLoop (S f) (ch_qm :: p) s failed =
  let failed' := if negb failed && is_nil s then true else failed in
  if failed' then matchChunkLoop f p s failed'
  else match s with
       | s0 :: _ => let '(_, n) := decodeRune s in matchChunkLoop f p (skipn n s) (s0 =? Separator)
       | [] => Panic end.
Proof. reflexivity. Qed.

Lemma matchChunkLoop_parses chunk items : Parses chunk items -> no_star items ->
  forall fuel s failed, (length chunk < fuel)%nat ->
  matchChunkLoop fuel chunk s failed = Ok (if failed then None else PM items s).
Proof.
  induction 1 as [|p ts HP IH|p ts HP IH|c p ts HP IH|c p ts Hm HP IH|q neg q0 lo hi q1 rs q' ts Hs HR HT HP IH];
    intros Hns fuel s failed Hf; (destruct fuel as [|f]; [simpl in Hf; lia|]).
  - cbn. destruct failed; reflexivity.
  - inversion Hns; subst. congruence.
  - inversion Hns; subst. rewrite matchChunkLoop_qm. cbv zeta. simpl in Hf.
    destruct failed; cbn [negb andb].
    + apply IH; [assumption|lia].
    + destruct s as [|s0 s']; cbn [is_nil].
      * rewrite IH by (assumption || lia). reflexivity.
      * destruct (decodeRune (s0 :: s')) as [r n] eqn:E. rewrite IH by (assumption || lia).
        cbn [PM]. rewrite E. cbn [snd]. destruct (s0 =? Separator); reflexivity.
  - inversion Hns; subst. rewrite matchChunkLoop_esc. cbv zeta. simpl in Hf.
    destruct failed; cbn [negb andb].
    + apply IH; [assumption|lia].
    + destruct s as [|s0 s']; cbn [is_nil].
      * rewrite IH by (assumption || lia). reflexivity.
      * rewrite IH by (assumption || lia). cbn [PM]. destruct (c =? s0); reflexivity.
  - inversion Hns; subst. unfold is_meta in Hm.
    rewrite matchChunkLoop_lit by (try (left; assumption); lia). cbv zeta. simpl in Hf.
    destruct failed; cbn [negb andb].
    + apply IH; [assumption|lia].
    + destruct s as [|s0 s']; cbn [is_nil].
      * rewrite IH by (assumption || lia). reflexivity.
      * rewrite IH by (assumption || lia). cbn [PM]. destruct (c =? s0); reflexivity.
  - inversion Hns; subst. rewrite matchChunkLoop_lbr. cbv zeta. rewrite Hs. simpl in Hf.
    pose proof (strip_caret_len _ _ _ Hs) as Hl0. pose proof (Range_len _ _ _ _ HR) as Hl1.
    pose proof (RangesTail_len _ _ _ HT) as Hl2.
    destruct failed; cbn [negb andb].
    + rewrite (classLoop_class _ _ _ _ _ _ HR HT) by lia. cbn [orb]. apply IH; [assumption|lia].
    + destruct s as [|s0 s']; cbn [is_nil].
      * rewrite (classLoop_class _ _ _ _ _ _ HR HT) by lia. cbn [orb]. rewrite IH by (assumption || lia). reflexivity.
      * destruct (decodeRune (s0 :: s')) as [r n] eqn:E.
        rewrite (classLoop_class _ _ _ _ _ _ HR HT) by lia. cbn [orb]. rewrite IH by (assumption || lia).
        cbn [PM]. rewrite E. cbn [fst snd]. reflexivity.
Qed.

Lemma matchChunk_parses chunk items s : Parses chunk items -> no_star items ->
  matchChunk chunk s = Ok (PM items s).
Proof. intros HP Hn. unfold matchChunk. apply (matchChunkLoop_parses _ _ HP Hn). lia. Qed.

(** ** star-free term lists: the prefix matcher decides the declarative relation *)
Lemma PM_Matches items : no_star items -> forall s, PM items s = Some [] <-> Matches items s.
Proof.
  induction items as [|it items IH]; intros Hn s.
  - simpl. split; [intros H; inversion H; constructor | intros H; inversion H; reflexivity].
  - inversion Hn as [|? ? Hit Hn']; subst. specialize (IH Hn').
    destruct s as [|s0 s'].
    + simpl. split; [discriminate|]. intros H. inversion H; subst; try congruence.
    + destruct it as [| |c|neg rs]; [congruence| | |]; cbn [PM].
      * destruct (decodeRune (s0 :: s')) as [r n] eqn:E. cbn [snd].
        destruct (s0 =? Separator) eqn:Es.
        -- split; [discriminate|]. intros H. inversion H; subst. lia.
        -- rewrite IH. split.
           ++ intros H. eapply M_any; [lia|exact E|exact H].
           ++ intros H. inversion H; subst. match goal with Hd : decodeRune _ = _ |- _ => rewrite E in Hd; inversion Hd; subst end. assumption.
      * destruct (c =? s0) eqn:Ec.
        -- assert (c = s0) by lia. subst. rewrite IH. split; [intros H; constructor; exact H|].
           intros H; inversion H; subst; assumption.
        -- split; [discriminate|]. intros H; inversion H; subst. lia.
      * destruct (decodeRune (s0 :: s')) as [r n] eqn:E. cbn [fst snd].
        destruct (Bool.eqb (in_ranges r rs) neg) eqn:Eb.
        -- split; [discriminate|]. intros H. inversion H; subst. match goal with Hd : decodeRune _ = _ |- _ => rewrite E in Hd; inversion Hd; subst end.
           match goal with Hi : in_ranges _ _ = _ |- _ => rewrite Hi in Eb end. destruct neg; discriminate.
        -- rewrite IH. split.
           ++ intros H. eapply M_class; [exact E| |exact H].
              destruct (in_ranges r rs), neg; simpl in *; congruence.
           ++ intros H. inversion H; subst. match goal with Hd : decodeRune _ = _ |- _ => rewrite E in Hd; inversion Hd; subst end. assumption.
Qed.

(** ** patterns without a '*' byte: one chunk *)
Definition starless (p : bytes) : Prop := Forall (fun c => c <> ch_star) p.

Lemma scan_starless p : starless p -> forall inr, scan p inr = (p, []).
Proof.
  induction p as [p IH] using (well_founded_induction (Wf_nat.well_founded_ltof _ (@length N))).
  intros Hs inr. destruct p as [|c t]; [reflexivity|].
  inversion Hs as [|? ? Hc Ht]; subst. cbn [scan].
  destruct (c =? ch_bsl).
  - destruct t as [|c' t']; [reflexivity|]. inversion Ht; subst.
    rewrite (IH t') by (unfold ltof; simpl; lia || assumption). reflexivity.
  - destruct (c =? ch_lbr); [rewrite (IH t) by (unfold ltof; simpl; lia || assumption); reflexivity|].
    destruct (c =? ch_rbr); [rewrite (IH t) by (unfold ltof; simpl; lia || assumption); reflexivity|].
    replace (c =? ch_star) with false by lia. cbn [andb].
    rewrite (IH t) by (unfold ltof; simpl; lia || assumption). reflexivity.
Qed.

Lemma Parses_starless p ts : Parses p ts -> starless p -> no_star ts.
Proof.
  induction 1; intros Hs; try (inversion Hs; subst).
  - constructor.
  - congruence.
  - constructor; [discriminate|apply IHParses; assumption].
  - match goal with Ht : Forall _ (c :: p) |- _ => inversion Ht; subst end.
    constructor; [discriminate|apply IHParses; assumption].
  - constructor; [discriminate|apply IHParses; assumption].
  - constructor; [discriminate|]. apply IHParses.
    (* q' is a suffix of q *)
    assert (Hsuf : forall a b, starless (a ++ b) -> starless b).
    { intros a b Hab. unfold starless in *. rewrite Forall_app in Hab. apply Hab. }
    assert (Hq0 : starless q0).
    { unfold strip_caret in H. destruct q as [|c t]; [inversion H; subst; constructor|].
      destruct (c =? ch_caret); inversion H; subst; [inversion H6; assumption|assumption]. }
    clear - Hq0 H0 H1 Hsuf.
    assert (Hr : forall x r y, rchar x = Some (r, y) -> starless x -> starless y).
    { intros x r y Hr Hq. unfold rchar in Hr. destruct x as [|c t]; [discriminate|].
      destruct ((c =? ch_dash) || (c =? ch_rbr)); [discriminate|].
      destruct (if c =? ch_bsl then t else c :: t) as [|u w] eqn:E; [discriminate|].
      destruct (decodeRune (u :: w)) as [r0 n]. destruct ((r0 =? RuneError) && Nat.eqb n 1); [discriminate|].
      inversion Hr; subst. apply (Hsuf (firstn n (u :: w))). rewrite firstn_skipn.
      destruct (c =? ch_bsl); [subst; inversion Hq; assumption|inversion E; subst; assumption]. }
    assert (HR : forall x lo' hi' y, Range x lo' hi' y -> starless x -> starless y).
    { intros x lo' hi' y HRg Hq. inversion HRg; subst; [eapply Hr; eassumption|].
      match goal with Ha : rchar x = Some _ |- _ => apply Hr in Ha; [|assumption]; inversion Ha; subst end.
      eapply Hr; eassumption. }
    apply HR in H0; [|assumption]. clear Hq0. induction H1 as [|x lo' hi' y rs' z HRg HT IHT]; [inversion H0; assumption|].
    apply IHT. eapply HR; eassumption.
Qed.

Lemma strip_stars_starless p : starless p -> strip_stars p = (false, p).
Proof. intros H. destruct p as [|c t]; [reflexivity|]. inversion H; subst. simpl. replace (c =? ch_star) with false by lia. reflexivity. Qed.

(** Match on a well-formed pattern without '*': answers, and answers the declarative relation, for every name *)
Theorem Match_starless p ts s : Parses p ts -> starless p ->
  exists b, Match p s = Ok b /\ (b = true <-> Matches ts s).
Proof.
  intros HP Hs. pose proof (Parses_starless _ _ HP Hs) as Hn.
  unfold Match. destruct p as [|c t].
  - inversion HP; subst. simpl. exists (is_nil s). split; [reflexivity|].
    destruct s; simpl; split; intros H; try constructor; try discriminate. inversion H.
  - cbn [MatchLoop]. unfold scanChunk. rewrite (strip_stars_starless _ Hs), (scan_starless _ Hs).
    cbn [andb]. rewrite (matchChunk_parses _ _ s HP Hn).
    destruct (PM ts s) as [t'|] eqn:E.
    + destruct t' as [|x y]; cbn [is_nil orb negb].
      * exists true. split; [reflexivity|]. split; [intros _; apply PM_Matches; assumption|reflexivity].
      * exists false. split; [reflexivity|]. split; [discriminate|]. intros H. apply PM_Matches in H; [|assumption]. congruence.
    + exists false. split; [reflexivity|]. split; [discriminate|]. intros H. apply PM_Matches in H; [|assumption]. congruence.
Qed.
