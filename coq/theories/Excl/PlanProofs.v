(** C19: a change set computed from two states filtered by the same patterns targets no
    excluded table or column (generic differ of Diff/DiffModel.v, read-only here). *)
From Coq Require Import List NArith Bool Arith Lia.
From Atlas Require Import Base.Bytes Diff.Schema Diff.DiffModel Diff.DiffSqlite
  Excl.Glob Excl.Exclude Excl.ExcludeSpec Excl.ExcludeProofs.
Import ListNotations.

(** the column a column-level change names exists in the table it is taken from *)
Definition col_target (a b : table) (x : change) : Prop :=
  match x with
  | AddColumn n => exists c, In c (t_cols b) /\ c_name c = n
  | DropColumn n | ModifyColumn n _ => exists c, In c (t_cols a) /\ c_name c = n
  | _ => True
  end.

Definition not_col (x : change) : Prop :=
  match x with AddColumn _ | DropColumn _ | ModifyColumn _ _ => False | _ => True end.

Lemma not_col_target a b x : not_col x -> col_target a b x.
Proof. destruct x; simpl; intros H; try exact I; destruct H. Qed.

(** what the theorem needs of the driver: Normalize keeps the columns, TableAttrDiff returns
    no column change *)
Definition norm_keeps_cols (D : DiffDriver) : Prop :=
  forall a b a' b', dd_normalize D a b = Some (a', b') -> t_cols a' = t_cols a /\ t_cols b' = t_cols b.
Definition attr_no_cols (D : DiffDriver) : Prop :=
  forall a b l x, dd_table_attr_diff D a b = Some l -> In x l -> not_col x.

Section Plan.
Variable D : DiffDriver.
Variable skip : tag -> bool.

Lemma drop_modify_targets a b cs : forall r, column_diff_drop_modify D a b cs = Some r ->
  forall x, In x r -> match x with
                      | DropColumn n | ModifyColumn n _ => exists c, In c cs /\ c_name c = n
                      | _ => False end.
Proof.
  induction cs as [|c1 cs IH]; intros r Hr x Hx; simpl in Hr.
  - inversion Hr; subst. destruct Hx.
  - destruct (find_col (c_name c1) (t_cols b)) as [c2|].
    + destruct (dd_column_change D a c1 c2) as [k|]; [|discriminate].
      destruct (column_diff_drop_modify D a b cs) as [r'|]; [|discriminate]. inversion Hr; subst.
      assert (Hin : x = ModifyColumn (c_name c1) k \/ In x r').
      { destruct (N.eqb k 0); [right; exact Hx|destruct Hx as [<-|Hx]; [left; reflexivity|right; exact Hx]]. }
      destruct Hin as [->|Hin]; [exists c1; split; [left; reflexivity|reflexivity]|].
      specialize (IH r' eq_refl x Hin). destruct x; try exact IH; destruct IH as (c0 & Hc0 & E0); exists c0; (split; [right; exact Hc0|exact E0]).
    + destruct (column_diff_drop_modify D a b cs) as [r'|]; [|discriminate]. inversion Hr; subst.
      destruct Hx as [<-|Hin]; [exists c1; split; [left; reflexivity|reflexivity]|].
      specialize (IH r' eq_refl x Hin). destruct x; try exact IH; destruct IH as (c0 & Hc0 & E0); exists c0; (split; [right; exact Hc0|exact E0]).
Qed.

Lemma column_diff_targets a b l : column_diff D skip a b = Some l -> forall x, In x l -> col_target a b x.
Proof.
  unfold column_diff. destruct (column_diff_drop_modify D a b (t_cols a)) as [dm|] eqn:E; [|discriminate].
  intros H x Hx. inversion H; subst. unfold add_or_skip in Hx. apply filter_In in Hx. destruct Hx as [Hx _].
  apply in_app_or in Hx. destruct Hx as [Hx|Hx].
  - pose proof (drop_modify_targets a b (t_cols a) dm E x Hx) as Ht. destruct x; simpl; try exact I; try exact Ht; destruct Ht.
  - unfold column_diff_add in Hx. apply in_flat_map in Hx. destruct Hx as (c1 & Hc1 & Hx).
    destruct (find_col (c_name c1) (t_cols a)); [destruct Hx|]. destruct Hx as [<-|[]]. simpl. exists c1. split; [exact Hc1|reflexivity].
Qed.

Lemma add_or_skip_not_col l : (forall x, In x l -> not_col x) -> forall x, In x (add_or_skip skip l) -> not_col x.
Proof. intros H x Hx. unfold add_or_skip in Hx. apply filter_In in Hx. apply H. apply Hx. Qed.

Lemma pk_diff_not_col a b x : In x (pk_diff D skip a b) -> not_col x.
Proof.
  unfold pk_diff. destruct (t_pk a), (t_pk b); try (intros []);
    repeat match goal with |- context [if ?c then _ else _] => destruct c end;
    try (intros []); apply add_or_skip_not_col; intros y [<-|[]]; exact I.
Qed.

Lemma index_diff_from_not_col a b l : forall ex r ex', index_diff_from D a b l ex = (r, ex') -> forall x, In x r -> not_col x.
Proof.
  induction l as [|i l IH]; intros ex r ex' H x Hx; simpl in H.
  - inversion H; subst. destruct Hx.
  - destruct (find_idx (i_name i) (t_idx b)) as [[k i2]|].
    + destruct (index_diff_from D a b l (k :: ex)) as [r0 ex0] eqn:E. inversion H; subst.
      destruct (N.eqb (index_change D i i2) 0); [eapply IH; eassumption|].
      destruct Hx as [<-|Hx]; [exact I|eapply IH; eassumption].
    + destruct (if dd_is_generated_index_name D a i then similar_unnamed_index D b i else None).
      * eapply IH; eassumption.
      * destruct (index_diff_from D a b l ex) as [r0 ex0] eqn:E. inversion H; subst.
        destruct Hx as [<-|Hx]; [exact I|eapply IH; eassumption].
Qed.

Lemma index_diff_add_not_col a l : forall k ex x, In x (index_diff_add a k l ex) -> not_col x.
Proof.
  induction l as [|i l IH]; intros k ex x Hx; simpl in Hx; [destruct Hx|].
  apply in_app_or in Hx. destruct Hx as [Hx|Hx]; [|eapply IH; eassumption].
  destruct (existsb (Nat.eqb k) ex); [destruct Hx|]. destruct (find_idx (i_name i) (t_idx a)); [destruct Hx|].
  destruct Hx as [<-|[]]. exact I.
Qed.

Lemma index_diff_t_not_col a b x : In x (index_diff_t D skip a b) -> not_col x.
Proof.
  unfold index_diff_t. destruct (index_diff_from D a b (t_idx a) []) as [dm ex] eqn:E.
  apply add_or_skip_not_col. intros y Hy. apply in_app_or in Hy. destruct Hy as [Hy|Hy].
  - eapply index_diff_from_not_col; eassumption.
  - eapply index_diff_add_not_col; eassumption.
Qed.

Lemma fk_diff_not_col a b x : In x (fk_diff D skip a b) -> not_col x.
Proof.
  unfold fk_diff. apply add_or_skip_not_col. intros y Hy. apply in_app_or in Hy.
  destruct Hy as [Hy|Hy]; apply in_flat_map in Hy; destruct Hy as (f & _ & Hy).
  - destruct (find_fk (f_symbol f) (t_fks b)); [destruct (N.eqb _ 0); [destruct Hy|]|]; destruct Hy as [<-|[]]; exact I.
  - destruct (find_fk (f_symbol f) (t_fks a)); [destruct Hy|]. destruct Hy as [<-|[]]. exact I.
Qed.

Hypothesis Hnorm : norm_keeps_cols D.
Hypothesis Hattr : attr_no_cols D.

Lemma table_diff_targets a b l : table_diff D skip a b = Some l -> forall x, In x l -> col_target a b x.
Proof.
  unfold table_diff. destruct (dd_normalize D (set_t_name a (t_name b)) b) as [[a' b']|] eqn:En; [|discriminate].
  destruct (Hnorm _ _ _ _ En) as [Ha Hb]. simpl in Ha.
  destruct (dd_table_attr_diff D a' b') as [attrs|] eqn:Ea; [|discriminate].
  destruct (column_diff D skip a' b') as [cols|] eqn:Ec; [|discriminate].
  intros H x Hx. inversion H; subst.
  repeat (apply in_app_or in Hx; destruct Hx as [Hx|Hx]).
  - apply not_col_target. eapply Hattr; eassumption.
  - pose proof (column_diff_targets a' b' cols Ec x Hx) as Ht. unfold col_target in *. rewrite Ha, Hb in Ht. exact Ht.
  - apply not_col_target. eapply pk_diff_not_col; eassumption.
  - apply not_col_target. eapply index_diff_t_not_col; eassumption.
  - apply not_col_target. eapply fk_diff_not_col; eassumption.
Qed.

Lemma find_table_some n l t : find_table n l = Some t -> In t l /\ t_name t = n.
Proof.
  unfold find_table. intros H. apply find_some in H. destruct H as [Hin He]. split; [exact Hin|].
  apply bytes_eqb_eq. exact He.
Qed.

(** every change of a schema diff targets a table present in the state it is taken from, and
    every column-level change inside a ModifyTable a column present in that table *)
Definition table_target (from to : schema) (c : schange) : Prop :=
  match c with
  | DropTable n => exists t, In t (s_tables from) /\ t_name t = n
  | AddTable n => exists t, In t (s_tables to) /\ t_name t = n
  | ModifyTable n ch => exists t1 t2, In t1 (s_tables from) /\ In t2 (s_tables to) /\ t_name t1 = n /\ t_name t2 = n
                                      /\ forall x, In x ch -> col_target t1 t2 x
  end.

Lemma schema_diff_from_targets from to l : (forall t, In t l -> In t (s_tables from)) ->
  forall r, schema_diff_from D skip to l = Some r -> forall c, In c r -> table_target from to c.
Proof.
  induction l as [|t1 l IH]; intros Hsub r Hr c Hc; simpl in Hr.
  - inversion Hr; subst. destruct Hc.
  - assert (Hsub' : forall t, In t l -> In t (s_tables from)) by (intros t Ht; apply Hsub; right; exact Ht).
    destruct (find_table (t_name t1) (s_tables to)) as [t2|] eqn:Ef.
    + destruct (table_diff D skip t1 t2) as [ch|] eqn:Et; [|discriminate].
      destruct (schema_diff_from D skip to l) as [r'|]; [|discriminate]. inversion Hr; subst.
      apply in_app_or in Hc. destruct Hc as [Hc|Hc]; [|eapply IH; eauto].
      destruct ch as [|x0 ch]; [destruct Hc|]. unfold add_or_skip_s in Hc. simpl in Hc.
      destruct (negb (skip TgModifyTable)); [|destruct Hc]. destruct Hc as [<-|[]].
      apply find_table_some in Ef. destruct Ef as [Hin2 Hn2]. simpl.
      exists t1, t2. repeat split; try assumption; [apply Hsub; left; reflexivity|congruence|].
      intros x Hx. eapply table_diff_targets; eassumption.
    + destruct (schema_diff_from D skip to l) as [r'|]; [|discriminate]. inversion Hr; subst.
      apply in_app_or in Hc. destruct Hc as [Hc|Hc]; [|eapply IH; eauto].
      unfold add_or_skip_s in Hc. simpl in Hc. destruct (negb (skip TgDropTable)); [|destruct Hc]. destruct Hc as [<-|[]].
      simpl. exists t1. split; [apply Hsub; left; reflexivity|reflexivity].
Qed.

Theorem SchemaDiff_targets from to cs : SchemaDiff D skip from to = Some cs ->
  forall c, In c cs -> table_target from to c.
Proof.
  unfold SchemaDiff. destruct (negb _); [discriminate|].
  destruct (schema_diff_from D skip to (s_tables from)) as [r|] eqn:E; [|discriminate].
  intros H c Hc. inversion H; subst. apply in_app_or in Hc. destruct Hc as [Hc|Hc].
  - eapply schema_diff_from_targets; [|exact E|exact Hc]. auto.
  - unfold schema_diff_add, add_or_skip_s in Hc. apply filter_In in Hc. destruct Hc as [Hc _].
    apply in_flat_map in Hc. destruct Hc as (t1 & Ht1 & Hc).
    destruct (find_table (t_name t1) (s_tables from)); [destruct Hc|]. destruct Hc as [<-|[]].
    simpl. exists t1. split; [exact Ht1|reflexivity].
Qed.

End Plan.

(** ** what is present after exclusion is not selected by any chain *)
Lemma ref_schema_table link G s t' : In t' (s_tables (ref_schema link G s)) ->
  exists t, In t (s_tables s) /\ table_hit G s t = false /\ t' = ref_table link (child_globs G s t) t.
Proof.
  unfold ref_schema. simpl. intros H. apply in_map_iff in H. destruct H as (t & <- & Hin).
  apply filter_In in Hin. destruct Hin as [Hin Hh]. exists t. repeat split; [exact Hin|].
  destruct (table_hit G s t); [discriminate|reflexivity].
Qed.

Lemma ref_table_col link L t c : In c (t_cols (ref_table link L t)) -> In c (t_cols t) /\ col_hit L c = false.
Proof.
  unfold ref_table. simpl. intros H. apply filter_In in H. destruct H as [Hin Hh]. split; [exact Hin|].
  destruct (col_hit L c); [discriminate|reflexivity].
Qed.

(** the same, as the property words it: the target of a change is a resource of the original
    state that no pattern chain selects *)
Definition unexcluded_target (G : list (list bytes)) (from to : schema) (c : schange) : Prop :=
  match c with
  | DropTable n => exists t, In t (s_tables from) /\ t_name t = n /\ table_hit G from t = false
  | AddTable n => exists t, In t (s_tables to) /\ t_name t = n /\ table_hit G to t = false
  | ModifyTable n ch =>
      exists t1 t2, In t1 (s_tables from) /\ In t2 (s_tables to) /\ t_name t1 = n /\ t_name t2 = n
        /\ table_hit G from t1 = false /\ table_hit G to t2 = false
        /\ forall x, In x ch ->
             match x with
             | AddColumn cn => exists c, In c (t_cols t2) /\ c_name c = cn /\ col_hit (child_globs G to t2) c = false
             | DropColumn cn | ModifyColumn cn _ =>
                 exists c, In c (t_cols t1) /\ c_name c = cn /\ col_hit (child_globs G from t1) c = false
             | _ => True
             end
  end.

Theorem plan_ignores_excluded D skip link1 link2 G from to cs :
  norm_keeps_cols D -> attr_no_cols D ->
  SchemaDiff D skip (ref_schema link1 G from) (ref_schema link2 G to) = Some cs ->
  forall c, In c cs -> unexcluded_target G from to c.
Proof.
  intros Hn Ha H c Hc. pose proof (SchemaDiff_targets D skip Hn Ha _ _ _ H c Hc) as Ht.
  destruct c as [n|n|n ch]; unfold table_target in Ht; unfold unexcluded_target.
  - destruct Ht as (t' & Hin & En). apply ref_schema_table in Hin. destruct Hin as (t & Hin' & Hh & Et). subst t'.
    exists t. repeat split; assumption.
  - destruct Ht as (t' & Hin & En). apply ref_schema_table in Hin. destruct Hin as (t & Hin' & Hh & Et). subst t'.
    exists t. repeat split; assumption.
  - destruct Ht as (t1' & t2' & Hin1 & Hin2 & En1 & En2 & Hch).
    apply ref_schema_table in Hin1. destruct Hin1 as (t1 & Hin1' & Hh1 & Et1). subst t1'.
    apply ref_schema_table in Hin2. destruct Hin2 as (t2 & Hin2' & Hh2 & Et2). subst t2'.
    exists t1, t2. repeat split; try assumption.
    intros x Hx. specialize (Hch x Hx). destruct x; try exact I; unfold col_target in Hch; destruct Hch as (c0 & Hc' & Ec);
      apply ref_table_col in Hc'; destruct Hc' as [Hc1 Hc2]; exists c0; repeat split; assumption.
Qed.

Lemma sqlite_norm_keeps_cols : norm_keeps_cols sqlite_driver.
Proof.
  intros a b a' b' H. simpl in H. unfold sqlite_normalize in H.
  destruct (normalize_idxs b (t_idx b)); [|discriminate]. inversion H; subst. split; reflexivity.
Qed.

Lemma sqlite_attr_no_cols : attr_no_cols sqlite_driver.
Proof.
  intros a b l x H Hin. simpl in H. unfold sqlite_table_attr_diff in H. inversion H; subst; clear H.
  repeat (apply in_app_or in Hin; destruct Hin as [Hin|Hin]).
  - destruct (t_without_rowid a && negb (t_without_rowid b)); [destruct Hin as [<-|[]]; exact I|].
    destruct (negb (t_without_rowid a) && t_without_rowid b); [destruct Hin as [<-|[]]; exact I|destruct Hin].
  - destruct (t_strict a && negb (t_strict b)); [destruct Hin as [<-|[]]; exact I|].
    destruct (negb (t_strict a) && t_strict b); [destruct Hin as [<-|[]]; exact I|destruct Hin].
  - apply in_flat_map in Hin. destruct Hin as (k & _ & Hin).
    destruct (find _ _); [destruct (negb _); [destruct Hin as [<-|[]]; exact I|destruct Hin]
                         |destruct Hin as [<-|[]]; exact I].
  - apply in_flat_map in Hin. destruct Hin as (k & _ & Hin).
    destruct (existsb _ _); [destruct Hin|destruct Hin as [<-|[]]; exact I].
Qed.

(** ** index / foreign-key / check targets, for drivers whose Normalize keeps the children of
    both tables (name-preserving drivers; the SQLite driver is not one: it renames
    sqlite_autoindex_* indexes and rewrites foreign-key symbols) *)
Definition child_target (a b : table) (x : change) : Prop :=
  match x with
  | AddColumn n => exists c, In c (t_cols b) /\ c_name c = n
  | DropColumn n | ModifyColumn n _ => exists c, In c (t_cols a) /\ c_name c = n
  | AddIndex n => exists i, In i (t_idx b) /\ i_name i = n
  | DropIndex n | ModifyIndex n _ => exists i, In i (t_idx a) /\ i_name i = n
  | AddForeignKey s => exists f, In f (t_fks b) /\ f_symbol f = s
  | DropForeignKey s | ModifyForeignKey s _ => exists f, In f (t_fks a) /\ f_symbol f = s
  | AddCheck n _ => exists k, In k (t_checks b) /\ k_name k = n
  | DropCheck n _ => exists k, In k (t_checks a) /\ k_name k = n
  | ModifyCheck n _ n2 _ => (exists k, In k (t_checks a) /\ k_name k = n) /\ (exists k, In k (t_checks b) /\ k_name k = n2)
  | _ => True
  end.

Definition norm_keeps_children (D : DiffDriver) : Prop :=
  forall a b a' b', dd_normalize D a b = Some (a', b') ->
    (t_cols a' = t_cols a /\ t_idx a' = t_idx a /\ t_fks a' = t_fks a /\ t_checks a' = t_checks a)
    /\ (t_cols b' = t_cols b /\ t_idx b' = t_idx b /\ t_fks b' = t_fks b /\ t_checks b' = t_checks b).
Definition attr_targets (D : DiffDriver) : Prop :=
  forall a b l x, dd_table_attr_diff D a b = Some l -> In x l -> child_target a b x.

Section Plan2.
Variable D : DiffDriver.
Variable skip : tag -> bool.

Lemma add_or_skip_sub l x : In x (add_or_skip skip l) -> In x l.
Proof. unfold add_or_skip. intros H. apply filter_In in H. apply H. Qed.

Lemma index_diff_from_targets a b l : forall ex r ex', index_diff_from D a b l ex = (r, ex') ->
  forall x, In x r -> match x with
                      | DropIndex n | ModifyIndex n _ => exists i, In i l /\ i_name i = n
                      | _ => False end.
Proof.
  induction l as [|i l IH]; intros ex r ex' H x Hx; simpl in H.
  - inversion H; subst. destruct Hx.
  - assert (Hup : forall r0 ex0 ex1, index_diff_from D a b l ex0 = (r0, ex1) -> In x r0 ->
              match x with DropIndex n | ModifyIndex n _ => exists i0, In i0 (i :: l) /\ i_name i0 = n | _ => False end).
    { intros r0 ex0 ex1 E Hin. specialize (IH ex0 r0 ex1 E x Hin).
      destruct x; try exact IH; destruct IH as (i0 & Hi0 & E0); exists i0; (split; [right; exact Hi0|exact E0]). }
    destruct (find_idx (i_name i) (t_idx b)) as [[k i2]|].
    + destruct (index_diff_from D a b l (k :: ex)) as [r0 ex0] eqn:E. inversion H; subst.
      destruct (N.eqb (index_change D i i2) 0); [eapply Hup; eassumption|].
      destruct Hx as [<-|Hx]; [exists i; split; [left; reflexivity|reflexivity]|eapply Hup; eassumption].
    + destruct (if dd_is_generated_index_name D a i then similar_unnamed_index D b i else None).
      * eapply Hup; eassumption.
      * destruct (index_diff_from D a b l ex) as [r0 ex0] eqn:E. inversion H; subst.
        destruct Hx as [<-|Hx]; [exists i; split; [left; reflexivity|reflexivity]|eapply Hup; eassumption].
Qed.

Lemma index_diff_add_targets a l : forall k ex x, In x (index_diff_add a k l ex) ->
  exists i, In i l /\ x = AddIndex (i_name i).
Proof.
  induction l as [|i l IH]; intros k ex x Hx; simpl in Hx; [destruct Hx|].
  apply in_app_or in Hx. destruct Hx as [Hx|Hx].
  - destruct (existsb (Nat.eqb k) ex); [destruct Hx|]. destruct (find_idx (i_name i) (t_idx a)); [destruct Hx|].
    destruct Hx as [<-|[]]. exists i. split; [left; reflexivity|reflexivity].
  - destruct (IH _ _ _ Hx) as (i0 & Hi0 & E). exists i0. split; [right; exact Hi0|exact E].
Qed.

Lemma index_diff_t_targets a b x : In x (index_diff_t D skip a b) -> child_target a b x.
Proof.
  unfold index_diff_t. destruct (index_diff_from D a b (t_idx a) []) as [dm ex] eqn:E.
  intros Hx. apply add_or_skip_sub in Hx. apply in_app_or in Hx. destruct Hx as [Hx|Hx].
  - pose proof (index_diff_from_targets a b (t_idx a) [] dm ex E x Hx) as Ht.
    destruct x; simpl; try exact I; try exact Ht; destruct Ht.
  - destruct (index_diff_add_targets a (t_idx b) 0 ex x Hx) as (i & Hi & ->). simpl. exists i. split; [exact Hi|reflexivity].
Qed.

Lemma fk_diff_targets a b x : In x (fk_diff D skip a b) -> child_target a b x.
Proof.
  unfold fk_diff. intros Hx. apply add_or_skip_sub in Hx. apply in_app_or in Hx.
  destruct Hx as [Hx|Hx]; apply in_flat_map in Hx; destruct Hx as (f & Hf & Hx).
  - destruct (find_fk (f_symbol f) (t_fks b)); [destruct (N.eqb _ 0); [destruct Hx|]|];
      destruct Hx as [<-|[]]; simpl; exists f; (split; [exact Hf|reflexivity]).
  - destruct (find_fk (f_symbol f) (t_fks a)); [destruct Hx|]. destruct Hx as [<-|[]]. simpl. exists f. split; [exact Hf|reflexivity].
Qed.

Lemma pk_diff_targets a b x : In x (pk_diff D skip a b) -> child_target a b x.
Proof.
  unfold pk_diff. destruct (t_pk a), (t_pk b); try (intros []);
    repeat match goal with |- context [if ?c then _ else _] => destruct c end;
    try (intros []); intros Hx; apply add_or_skip_sub in Hx; destruct Hx as [<-|[]]; exact I.
Qed.

Lemma column_targets_child a b l x : column_diff D skip a b = Some l -> In x l -> child_target a b x.
Proof.
  intros H Hx. pose proof (column_diff_targets D skip a b l H x Hx) as Ht.
  assert (Hk : match x with AddColumn _ | DropColumn _ | ModifyColumn _ _ => True | _ => False end).
  { unfold column_diff in H. destruct (column_diff_drop_modify D a b (t_cols a)) as [dm|] eqn:E; [|discriminate].
    inversion H; subst. apply add_or_skip_sub in Hx. apply in_app_or in Hx. destruct Hx as [Hx|Hx].
    - pose proof (drop_modify_targets D a b (t_cols a) dm E x Hx) as Hd. destruct x; try exact I; destruct Hd.
    - unfold column_diff_add in Hx. apply in_flat_map in Hx. destruct Hx as (c1 & _ & Hx).
      destruct (find_col (c_name c1) (t_cols a)); [destruct Hx|]. destruct Hx as [<-|[]]. exact I. }
  destruct x; try destruct Hk; exact Ht.
Qed.

Hypothesis Hnorm : norm_keeps_children D.
Hypothesis Hattr : attr_targets D.

Lemma child_target_ext a b a' b' x :
  t_cols a' = t_cols a -> t_idx a' = t_idx a -> t_fks a' = t_fks a -> t_checks a' = t_checks a ->
  t_cols b' = t_cols b -> t_idx b' = t_idx b -> t_fks b' = t_fks b -> t_checks b' = t_checks b ->
  child_target a' b' x -> child_target a b x.
Proof. intros E1 E2 E3 E4 E5 E6 E7 E8 H. unfold child_target in *. rewrite E1, E2, E3, E4, E5, E6, E7, E8 in H. exact H. Qed.

Lemma table_diff_child_targets a b l : table_diff D skip a b = Some l -> forall x, In x l -> child_target a b x.
Proof.
  unfold table_diff. destruct (dd_normalize D (set_t_name a (t_name b)) b) as [[a' b']|] eqn:En; [|discriminate].
  destruct (Hnorm _ _ _ _ En) as [(A1 & A2 & A3 & A4) (B1 & B2 & B3 & B4)]. simpl in A1, A2, A3, A4.
  destruct (dd_table_attr_diff D a' b') as [attrs|] eqn:Ea; [|discriminate].
  destruct (column_diff D skip a' b') as [cols|] eqn:Ec; [|discriminate].
  intros H x Hx. inversion H; subst.
  apply (child_target_ext a b a' b' x A1 A2 A3 A4 B1 B2 B3 B4).
  repeat (apply in_app_or in Hx; destruct Hx as [Hx|Hx]).
  - eapply Hattr; eassumption.
  - eapply column_targets_child; eassumption.
  - apply pk_diff_targets; exact Hx.
  - apply index_diff_t_targets; exact Hx.
  - apply fk_diff_targets; exact Hx.
Qed.

Definition table_target2 (from to : schema) (c : schange) : Prop :=
  match c with
  | DropTable n => exists t, In t (s_tables from) /\ t_name t = n
  | AddTable n => exists t, In t (s_tables to) /\ t_name t = n
  | ModifyTable n ch => exists t1 t2, In t1 (s_tables from) /\ In t2 (s_tables to) /\ t_name t1 = n /\ t_name t2 = n
                                      /\ forall x, In x ch -> child_target t1 t2 x
  end.

Lemma schema_diff_from_targets2 from to l : (forall t, In t l -> In t (s_tables from)) ->
  forall r, schema_diff_from D skip to l = Some r -> forall c, In c r -> table_target2 from to c.
Proof.
  induction l as [|t1 l IH]; intros Hsub r Hr c Hc; simpl in Hr.
  - inversion Hr; subst. destruct Hc.
  - assert (Hsub' : forall t, In t l -> In t (s_tables from)) by (intros t Ht; apply Hsub; right; exact Ht).
    destruct (find_table (t_name t1) (s_tables to)) as [t2|] eqn:Ef.
    + destruct (table_diff D skip t1 t2) as [ch|] eqn:Et; [|discriminate].
      destruct (schema_diff_from D skip to l) as [r'|]; [|discriminate]. inversion Hr; subst.
      apply in_app_or in Hc. destruct Hc as [Hc|Hc]; [|eapply IH; eauto].
      destruct ch as [|x0 ch]; [destruct Hc|]. unfold add_or_skip_s in Hc. simpl in Hc.
      destruct (negb (skip TgModifyTable)); [|destruct Hc]. destruct Hc as [<-|[]].
      apply find_table_some in Ef. destruct Ef as [Hin2 Hn2]. simpl.
      exists t1, t2. repeat split; try assumption; [apply Hsub; left; reflexivity|congruence|].
      intros x Hx. eapply table_diff_child_targets; eassumption.
    + destruct (schema_diff_from D skip to l) as [r'|]; [|discriminate]. inversion Hr; subst.
      apply in_app_or in Hc. destruct Hc as [Hc|Hc]; [|eapply IH; eauto].
      unfold add_or_skip_s in Hc. simpl in Hc. destruct (negb (skip TgDropTable)); [|destruct Hc]. destruct Hc as [<-|[]].
      simpl. exists t1. split; [apply Hsub; left; reflexivity|reflexivity].
Qed.

Theorem SchemaDiff_targets2 from to cs : SchemaDiff D skip from to = Some cs ->
  forall c, In c cs -> table_target2 from to c.
Proof.
  unfold SchemaDiff. destruct (negb _); [discriminate|].
  destruct (schema_diff_from D skip to (s_tables from)) as [r|] eqn:E; [|discriminate].
  intros H c Hc. inversion H; subst. apply in_app_or in Hc. destruct Hc as [Hc|Hc].
  - eapply schema_diff_from_targets2; [|exact E|exact Hc]. auto.
  - unfold schema_diff_add, add_or_skip_s in Hc. apply filter_In in Hc. destruct Hc as [Hc _].
    apply in_flat_map in Hc. destruct Hc as (t1 & Ht1 & Hc).
    destruct (find_table (t_name t1) (s_tables from)); [destruct Hc|]. destruct Hc as [<-|[]].
    simpl. exists t1. split; [exact Ht1|reflexivity].
Qed.
End Plan2.

Lemma idx_hit_strict_le li L : forall cols i, idx_hit li L cols i = false -> idx_hit_strict L i = false.
Proof.
  induction L as [|v L IH]; intros cols i H; [reflexivity|].
  simpl in H. apply orb_false_elim in H. destruct H as [H1 H2].
  unfold idx_hit_strict in *. simpl. rewrite (IH _ _ H2). unfold sel.
  destruct (admits typeI v); [|reflexivity]. simpl in *. apply orb_false_elim in H1. destruct H1 as [H1 _]. rewrite H1. reflexivity.
Qed.

Lemma fk_hit_strict_le lf L : forall cols f, fk_hit lf L cols f = false -> fk_hit_strict L f = false.
Proof.
  induction L as [|v L IH]; intros cols f H; [reflexivity|].
  simpl in H. apply orb_false_elim in H. destruct H as [H1 H2].
  unfold fk_hit_strict in *. simpl. rewrite (IH _ _ H2). unfold sel.
  destruct (admits typeF v); [|reflexivity]. simpl in *. apply orb_false_elim in H1. destruct H1 as [H1 _]. rewrite H1. reflexivity.
Qed.

(** a child (column / index / foreign key / check) of the original table that no chain selects by name *)
Definition unselected_child (L1 L2 : list bytes) (t1 t2 : table) (x : change) : Prop :=
  match x with
  | AddColumn n => exists c, In c (t_cols t2) /\ c_name c = n /\ col_hit L2 c = false
  | DropColumn n | ModifyColumn n _ => exists c, In c (t_cols t1) /\ c_name c = n /\ col_hit L1 c = false
  | AddIndex n => exists i, In i (t_idx t2) /\ i_name i = n /\ idx_hit_strict L2 i = false
  | DropIndex n | ModifyIndex n _ => exists i, In i (t_idx t1) /\ i_name i = n /\ idx_hit_strict L1 i = false
  | AddForeignKey s => exists f, In f (t_fks t2) /\ f_symbol f = s /\ fk_hit_strict L2 f = false
  | DropForeignKey s | ModifyForeignKey s _ => exists f, In f (t_fks t1) /\ f_symbol f = s /\ fk_hit_strict L1 f = false
  | AddCheck n _ => exists k, In k (t_checks t2) /\ k_name k = n /\ check_hit L2 k = false
  | DropCheck n _ => exists k, In k (t_checks t1) /\ k_name k = n /\ check_hit L1 k = false
  | ModifyCheck n _ n2 _ => (exists k, In k (t_checks t1) /\ k_name k = n /\ check_hit L1 k = false)
                            /\ (exists k, In k (t_checks t2) /\ k_name k = n2 /\ check_hit L2 k = false)
  | _ => True
  end.

Lemma filter_negb_in {A} (h : A -> bool) l x : In x (filter (fun y => negb (h y)) l) -> In x l /\ h x = false.
Proof. intros H. apply filter_In in H. destruct H as [H1 H2]. split; [exact H1|]. destruct (h x); [discriminate|reflexivity]. Qed.

Lemma child_target_unselected link1 link2 L1 L2 t1 t2 x :
  child_target (ref_table link1 L1 t1) (ref_table link2 L2 t2) x -> unselected_child L1 L2 t1 t2 x.
Proof.
  unfold child_target, unselected_child, ref_table. simpl.
  destruct x; try exact (fun H => H);
    try (intros (y & Hy & E); apply filter_negb_in in Hy; destruct Hy as [Hy Hh]; exists y;
         repeat split; try assumption; try (eapply idx_hit_strict_le; eassumption); try (eapply fk_hit_strict_le; eassumption)).
  intros [(y & Hy & E) (z & Hz & E')]. apply filter_negb_in in Hy, Hz. destruct Hy as [Hy Hh], Hz as [Hz Hh'].
  split; [exists y|exists z]; repeat split; assumption.
Qed.

Definition unexcluded_target2 (G : list (list bytes)) (from to : schema) (c : schange) : Prop :=
  match c with
  | DropTable n => exists t, In t (s_tables from) /\ t_name t = n /\ table_hit G from t = false
  | AddTable n => exists t, In t (s_tables to) /\ t_name t = n /\ table_hit G to t = false
  | ModifyTable n ch =>
      exists t1 t2, In t1 (s_tables from) /\ In t2 (s_tables to) /\ t_name t1 = n /\ t_name t2 = n
        /\ table_hit G from t1 = false /\ table_hit G to t2 = false
        /\ forall x, In x ch -> unselected_child (child_globs G from t1) (child_globs G to t2) t1 t2 x
  end.

Theorem plan_ignores_excluded2 D skip link1 link2 G from to cs :
  norm_keeps_children D -> attr_targets D ->
  SchemaDiff D skip (ref_schema link1 G from) (ref_schema link2 G to) = Some cs ->
  forall c, In c cs -> unexcluded_target2 G from to c.
Proof.
  intros Hn Ha H c Hc. pose proof (SchemaDiff_targets2 D skip Hn Ha _ _ _ H c Hc) as Ht.
  destruct c as [n|n|n ch]; unfold table_target2 in Ht; unfold unexcluded_target2.
  - destruct Ht as (t' & Hin & En). apply ref_schema_table in Hin. destruct Hin as (t & Hin' & Hh & Et). subst t'.
    exists t. repeat split; assumption.
  - destruct Ht as (t' & Hin & En). apply ref_schema_table in Hin. destruct Hin as (t & Hin' & Hh & Et). subst t'.
    exists t. repeat split; assumption.
  - destruct Ht as (t1' & t2' & Hin1 & Hin2 & En1 & En2 & Hch).
    apply ref_schema_table in Hin1. destruct Hin1 as (t1 & Hin1' & Hh1 & Et1). subst t1'.
    apply ref_schema_table in Hin2. destruct Hin2 as (t2 & Hin2' & Hh2 & Et2). subst t2'.
    exists t1, t2. repeat split; try assumption.
    intros x Hx. apply (child_target_unselected link1 link2). apply Hch. exact Hx.
Qed.

(** the SQLite TableAttrDiff names only checks of the two tables *)
Lemma sqlite_attr_targets_gen a b l x : sqlite_table_attr_diff a b = Some l -> In x l -> child_target a b x.
Proof.
  unfold sqlite_table_attr_diff. intros H Hin. inversion H; subst; clear H.
  repeat (apply in_app_or in Hin; destruct Hin as [Hin|Hin]).
  - destruct (t_without_rowid a && negb (t_without_rowid b)); [destruct Hin as [<-|[]]; exact I|].
    destruct (negb (t_without_rowid a) && t_without_rowid b); [destruct Hin as [<-|[]]; exact I|destruct Hin].
  - destruct (t_strict a && negb (t_strict b)); [destruct Hin as [<-|[]]; exact I|].
    destruct (negb (t_strict a) && t_strict b); [destruct Hin as [<-|[]]; exact I|destruct Hin].
  - apply in_flat_map in Hin. destruct Hin as (k & Hk & Hin).
    destruct (find _ (t_checks b)) as [k2|] eqn:Ef.
    + apply find_some in Ef. destruct Ef as [Hk2 _].
      destruct (negb _); [destruct Hin as [<-|[]]|destruct Hin]. simpl.
      split; [exists k|exists k2]; (split; [assumption|reflexivity]).
    + destruct Hin as [<-|[]]. simpl. exists k. split; [exact Hk|reflexivity].
  - apply in_flat_map in Hin. destruct Hin as (k & Hk & Hin).
    destruct (existsb _ _); [destruct Hin|]. destruct Hin as [<-|[]]. simpl. exists k. split; [exact Hk|reflexivity].
Qed.

(** a name-preserving instance: the SQLite callbacks with an identity Normalize *)
Definition plain_driver : DiffDriver :=
  mkDriver sqlite_column_change sqlite_index_attr_changed (fun _ _ _ => false)
           (fun _ _ => false) None sqlite_reference_changed (fun _ _ => false)
           sqlite_table_attr_diff (fun a b => Some (a, b)) true.

Lemma plain_driver_ok : norm_keeps_children plain_driver /\ attr_targets plain_driver.
Proof.
  split.
  - intros a b a' b' H. simpl in H. inversion H; subst. repeat split; reflexivity.
  - intros a b l x H Hin. simpl in H. eapply sqlite_attr_targets_gen; eassumption.
Qed.
