(** M-GLOB (C19), round 5: sql/schema/exclude_oss.go over EVERY resource kind of the OSS build -- the
    extension of Excl/Exclude.v (schemas with tables) by views (columns, triggers), functions, procedures,
    schema objects, realm objects and table triggers: excludeObjects, excludeV, the trigger filter of
    excludeT, the view / function / procedure blocks of excludeS, the realm-object loop of ExcludeRealm.
    Selectors: schema, table, view, column, index, fk, check, trigger, function, procedure and the
    SpecType of an object (enum, domain, composite, ...).

    Representation: a table is the [table] of Diff/Schema.v plus the names of its triggers; a view is its
    name, the names of its columns and of its triggers (excludeV filters by name only); a function /
    procedure is its name; an object is [Some (SpecType, SpecName)] when it implements SpecTypeNamer, else
    [None], plus an identity [o_id] (objects need not have distinct names).  detachObject (Refs/Deps
    bookkeeping of removed tables, views, functions) is not represented.

    excludeS follows the repaired code (notes/fixes/C19-exclude-routine-child-pattern.diff): functions and
    procedures are filtered by two-component patterns only.

    Error order: every failing filter returns filepath.ErrBadPattern, so the order in which excludeT runs
    its filters (columns, indexes, fks, triggers, checks) is immaterial for the result; [excludeTX] runs
    the trigger filter after [Exclude.excludeT].

    No proofs in this file. *)
From Coq Require Import List NArith Bool Arith.
From Atlas Require Import Base.Bytes Diff.Schema Excl.Glob Excl.Exclude.
Import ListNotations.
Local Open Scope N_scope.

Definition typeV : bytes := [118;105;101;119].                                (* "view" *)
Definition typeTg : bytes := [116;114;105;103;103;101;114].                   (* "trigger" *)
Definition typeFn : bytes := [102;117;110;99;116;105;111;110].                (* "function" *)
Definition typePr : bytes := [112;114;111;99;101;100;117;114;101].            (* "procedure" *)

Record xtable := mkXT { xt_t : table; xt_trigs : list str }.
Record view := mkView { v_name : str; v_cols : list str; v_trigs : list str }.
Record object := mkObj { o_spec : option (bytes * bytes); o_id : N }.
Record xschema := mkXS { xs_name : str; xs_tables : list xtable; xs_views : list view;
                         xs_funcs : list str; xs_procs : list str; xs_objects : list object }.
Record xrealm := mkXR { xr_objects : list object; xr_schemas : list xschema }.

(** filter of a list of names with the selector test of one resource type *)
Definition filter_names (typ pattern : bytes) (l : list str) : eres (list str) :=
  let '(p, ex) := excludeType typ pattern in
  if ex then filterM (fun n => gmatch p n) l else EOk l.

(** excludeObjects(all, glob) *)
Definition excludeObjects (all : list object) (glob : list bytes) : eres (list object) :=
  match glob with
  | [] => EErr EInternal
  | g0 :: gtl =>
    filterM (fun o =>
      match o_spec o with
      | None => EOk false
      | Some (t, n) =>
        let '(p, ex) := excludeType t g0 in
        if ex then
          match gmatch p n with
          | EErr e => EErr e
          | EOk m => EOk (m && match gtl with [] => true | _ => false end)
          end
        else EOk false
      end) all
  end.

(** excludeT with the trigger filter *)
Definition excludeTX (link : bool * bool) (t : xtable) (pattern : bytes) : eres xtable :=
  match excludeT link (xt_t t) pattern with
  | EErr e => EErr e
  | EOk t' =>
    match filter_names typeTg pattern (xt_trigs t) with
    | EErr e => EErr e
    | EOk trs => EOk (mkXT t' trs)
    end
  end.

(** excludeV *)
Definition excludeV (v : view) (pattern : bytes) : eres view :=
  match filter_names typeC pattern (v_cols v) with
  | EErr e => EErr e
  | EOk cols =>
    match filter_names typeTg pattern (v_trigs v) with
    | EErr e => EErr e
    | EOk trs => EOk (mkView (v_name v) cols trs)
    end
  end.

(** the loop of excludeS over tables / views: [child] = what is done to a matched resource when the
    glob has a second element *)
Fixpoint loopX {A} (name : A -> str) (child : A -> bytes -> eres A) (p : bytes) (gtl : list bytes) (l : list A) : eres (list A) :=
  match l with
  | [] => EOk []
  | x :: l' =>
    match gmatch p (name x) with
    | EErr e => EErr e
    | EOk m =>
      match (if m then match gtl with
                       | [] => EOk []
                       | g1 :: _ => match child x g1 with EErr e => EErr e | EOk x' => EOk [x'] end
                       end
             else EOk [x]) with
      | EErr e => EErr e
      | EOk a => match loopX name child p gtl l' with EErr e => EErr e | EOk r => EOk (a ++ r) end
      end
    end
  end.

(** excludeS(s, glob), glob = g[1:] *)
Definition excludeSX (link : bool * bool) (s : xschema) (glob : list bytes) : eres xschema :=
  match glob with
  | [] => EErr EInternal
  | g0 :: gtl =>
    match excludeObjects (xs_objects s) glob with
    | EErr e => EErr e
    | EOk objs =>
      let '(globT, exT) := excludeType typeT g0 in
      match (if exT then loopX (fun t => t_name (xt_t t)) (excludeTX link) globT gtl (xs_tables s) else EOk (xs_tables s)) with
      | EErr e => EErr e
      | EOk tabs =>
        let '(globV, exV) := excludeType typeV g0 in
        match (if exV then loopX v_name excludeV globV gtl (xs_views s) else EOk (xs_views s)) with
        | EErr e => EErr e
        | EOk views =>
          (* functions and procedures: filtered by a one-element glob only (fix
             C19-exclude-routine-child-pattern: `exclude && len(glob) == 1`); before the fix the two filters
             ran whatever the length of the glob: [excludeSX_before_fix] *)
          match (match gtl with [] => filter_names typeFn g0 (xs_funcs s) | _ :: _ => EOk (xs_funcs s) end) with
          | EErr e => EErr e
          | EOk funcs =>
            match (match gtl with [] => filter_names typePr g0 (xs_procs s) | _ :: _ => EOk (xs_procs s) end) with
            | EErr e => EErr e
            | EOk procs => EOk (mkXS (xs_name s) tabs views funcs procs objs)
            end
          end
        end
      end
    end
  end.

(** what the function / procedure blocks of excludeS did BEFORE fix C19-exclude-routine-child-pattern: the filter ran
    for every glob length, so "s.t.c" removed the function / procedure called t *)
Definition routines_before_fix (ty g0 : bytes) (gtl : list bytes) (l : list str) : eres (list str) :=
  filter_names ty g0 l.
Definition routines_after_fix (ty g0 : bytes) (gtl : list bytes) (l : list str) : eres (list str) :=
  match gtl with [] => filter_names ty g0 l | _ :: _ => EOk l end.

(** the first loop of ExcludeRealm: realm objects, one-element globs only *)
Fixpoint realmObjects (objs : list object) (globs : list (list bytes)) : eres (list object) :=
  match globs with
  | [] => EOk objs
  | g :: gs =>
    match g with
    | [_] => match excludeObjects objs g with EErr e => EErr e | EOk o' => realmObjects o' gs end
    | _ => realmObjects objs gs
    end
  end.

Fixpoint applyGlobsX (link : bool * bool) (s : xschema) (globs : list (list bytes)) : eres (option xschema) :=
  match globs with
  | [] => EOk (Some s)
  | g :: gs =>
    if Nat.ltb 3 (length g) then EErr ETooMany
    else
      match g with
      | [] => EErr EInternal
      | g0 :: gtl =>
        let '(globS, exclude) := excludeType typeS g0 in
        if exclude then
          match gmatch globS (xs_name s) with
          | EErr e => EErr e
          | EOk false => applyGlobsX link s gs
          | EOk true =>
            match gtl with
            | [] => EOk None
            | _ :: _ =>
              match excludeSX link s gtl with
              | EErr e => EErr e
              | EOk s' => applyGlobsX link s' gs
              end
            end
          end
        else applyGlobsX link s gs
      end
  end.

Fixpoint filterSchemasX (link : bool * bool) (r : list xschema) (globs : list (list bytes)) : eres (list xschema) :=
  match r with
  | [] => EOk []
  | s :: r' =>
    match applyGlobsX link s globs with
    | EErr e => EErr e
    | EOk o =>
      match filterSchemasX link r' globs with
      | EErr e => EErr e
      | EOk k => EOk (match o with Some s' => s' :: k | None => k end)
      end
    end
  end.

Definition ExcludeRealmX (link : bool * bool) (r : xrealm) (patterns : list bytes) : eres xrealm :=
  match patterns with
  | [] => EOk r
  | _ :: _ =>
    match split patterns with
    | EErr e => EErr e
    | EOk globs =>
      match realmObjects (xr_objects r) globs with
      | EErr e => EErr e
      | EOk objs =>
        match filterSchemasX link (xr_schemas r) globs with
        | EErr e => EErr e
        | EOk ss => EOk (mkXR objs ss)
        end
      end
    end
  end.

Definition ExcludeSchemaX (link : bool * bool) (r : xrealm) (s : xschema) (patterns : list bytes) : eres xrealm :=
  match patterns with
  | [] => EOk r
  | _ :: _ => ExcludeRealmX link r (map (fun p => xs_name s ++ ch_dot :: p) patterns)
  end.

(** projection to the table-only model of Excl/Exclude.v *)
Definition proj_schema (s : xschema) : schema := mkSchema (xs_name s) (map xt_t (xs_tables s)).
Definition proj_realm (r : xrealm) : realm := map proj_schema (xr_schemas r).
