(** C19, second sentence, round 3: option values compose by appending their kinds and a diff
    depends on nothing but the SET of kinds its own options name. *)
From Coq Require Import List NArith Bool Arith String Lia.
From Atlas Require Import Base.Bytes Diff.Schema Diff.DiffModel Diff.DiffSqlite gen.Gen_SkipKinds
  Excl.Skip Excl.SkipProofs Excl.Options.
Import ListNotations.
Local Open Scope list_scope.

Lemma fold_options_skip ds : forall o,
  SkipChanges (fold_left (fun o opt => opt o) (map option_of ds) o) = SkipChanges o ++ kinds_of ds.
Proof.
  induction ds as [|d ds IH]; intros o; simpl.
  - rewrite app_nil_r. reflexivity.
  - rewrite IH. destruct d; simpl; [rewrite <- app_assoc|]; reflexivity.
Qed.

Lemma NewDiffOptions_skip ds : SkipChanges (NewDiffOptions (map option_of ds)) = kinds_of ds.
Proof. unfold NewDiffOptions. rewrite fold_options_skip. reflexivity. Qed.

Lemma fold_options_mode ds : forall o,
  Mode (fold_left (fun o opt => opt o) (map option_of ds) o)
  = if existsb (fun d => match d with ONormalized => true | _ => false end) ds then DiffModeNormalized else Mode o.
Proof.
  induction ds as [|d ds IH]; intros o; simpl; [reflexivity|].
  rewrite IH. destruct d; simpl; [reflexivity|].
  destruct (existsb _ ds); reflexivity.
Qed.

Lemma Skipped_skip_of ds : Skipped (NewDiffOptions (map option_of ds)) = skip_of (kinds_of ds).
Proof. unfold Skipped. rewrite NewDiffOptions_skip. reflexivity. Qed.

Lemma kinds_of_skippable ds :
  skippable_opts ds ->
  Forall (fun k => skippable k = true) (kinds_of ds).
Proof.
  induction 1 as [|d ds Hd _ IH]; simpl; [constructor|].
  apply Forall_app. split; [destruct d; [exact Hd | constructor] | exact IH].
Qed.

(** only the set of kinds matters: order, duplicates and the option that carries a kind do not *)
Lemma mem_ext K K' : (forall k, In k K <-> In k K') -> forall k, mem k K = mem k K'.
Proof.
  intros H k. destruct (mem k K) eqn:E1; destruct (mem k K') eqn:E2; try reflexivity.
  - apply mem_In in E1. apply H in E1. apply mem_In in E1. congruence.
  - apply mem_In in E2. apply H in E2. apply mem_In in E2. congruence.
Qed.

Lemma remove_kinds_ext K K' cs : (forall k, In k K <-> In k K') -> remove_kinds K cs = remove_kinds K' cs.
Proof.
  intros H. pose proof (mem_ext K K' H) as Hm. unfold remove_kinds.
  induction cs as [|c cs IH]; simpl; [reflexivity|]. rewrite IH, Hm. f_equal.
  destruct (mem (kind_of_schange c) K'); [reflexivity|].
  destruct c as [n|n|n ch]; try reflexivity.
  replace (filter (keep K) ch) with (filter (keep K') ch); [reflexivity|].
  apply filter_ext. intros x. unfold keep. rewrite Hm. reflexivity.
Qed.

Lemma skip_of_ext K K' : (forall k, In k K <-> In k K') -> forall t, skip_of K t = skip_of K' t.
Proof. intros H t. unfold skip_of. destruct (tag_kind t); [apply mem_ext; exact H | reflexivity]. Qed.

Section Driver.
Variable D : DiffDriver.
Hypothesis HD : attr_changes_only D.

Theorem options_exact ds from to :
  skippable_opts ds ->
  SchemaDiffOpts D (map option_of ds) from to
  = option_map (remove_kinds (kinds_of ds)) (SchemaDiff D no_skip from to).
Proof.
  intros Hs. unfold SchemaDiffOpts. rewrite Skipped_skip_of.
  exact (skip_exact (kinds_of ds) (kinds_of_skippable ds Hs) D HD from to).
Qed.

Theorem sequence_exact calls from to :
  Forall skippable_opts calls ->
  diff_sequence D calls from to
  = map (fun ds => option_map (remove_kinds (kinds_of ds)) (SchemaDiff D no_skip from to)) calls.
Proof.
  intros H. unfold diff_sequence. apply map_ext_in. intros ds Hin.
  rewrite Forall_forall in H. apply options_exact. exact (H ds Hin).
Qed.

Theorem options_set_only ds ds' from to :
  skippable_opts ds -> skippable_opts ds' ->
  (forall k, In k (kinds_of ds) <-> In k (kinds_of ds')) ->
  SchemaDiffOpts D (map option_of ds) from to = SchemaDiffOpts D (map option_of ds') from to.
Proof.
  intros Hs Hs' H. rewrite (options_exact ds from to Hs), (options_exact ds' from to Hs').
  destruct (SchemaDiff D no_skip from to) as [cs|]; simpl; [|reflexivity].
  f_equal. apply remove_kinds_ext. exact H.
Qed.

Theorem options_absent ds from to r k :
  skippable_opts ds ->
  SchemaDiffOpts D (map option_of ds) from to = Some r -> In k (kinds_of ds) -> ~ occurs k r.
Proof.
  intros Hs Hr Hk. rewrite (options_exact ds from to Hs) in Hr.
  destruct (SchemaDiff D no_skip from to) as [cs|]; [|discriminate]. inversion Hr; subst.
  exact (remove_kinds_absent (kinds_of ds) cs k Hk).
Qed.

End Driver.
