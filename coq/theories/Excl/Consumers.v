(** M-GLOB (C19), round 5: the consumers of the exclude option in the OSS CLI --
    cmd/atlas/internal/cmdapi.  Which pattern list reaches [schema.InspectOptions.Exclude] /
    [cmdext.StateReaderConfig.Exclude] as a function of the command line and of the selected
    [env] block, and which two states a command then diffs.

    Commands that accept [--exclude] in this build (addFlagExclude: cmdapi/schema.go
    schemaApplyCmd, schemaDiffCmdWithFlags; cmdapi/cmdapi_oss.go schemaInspectCmdWithFlags):
    [schema inspect], [schema apply], [schema diff].  [migrate diff/apply/lint] have no such flag and
    never read [Env.Exclude] (migrateDiffRun builds its stateReaderConfig without [exclude];
    migrate.PlanWithExclude and Env.MigrationExclude have no caller in cmd/atlas).  [schema clean] has no
    such flag either: its PreRunE calls setSchemaEnvFlags, whose maySetFlag finds no "exclude" flag
    and does nothing, and schemaCleanRun inspects with nil options: the raw state against the empty one
    (harness: rawT = the empty schema).  For [migrate diff] rawF is the replay of the directory on the
    dev database, rawT the desired HCL state.

    Route of the flag (github.com/spf13/pflag string_slice.go): every occurrence [--exclude v] is
    [stringSliceValue.Set(v)]: [readAsCSV(v)] (encoding/csv, Comma ','), the FIRST Set replaces the
    default, later ones append; [FlagSet.Set] marks the flag Changed.
    Route of the project file (cmdapi/schema.go setSchemaEnvFlags, cmdapi/cmdapi.go maySetFlag):
    [maySetFlag(cmd, "exclude", joinCSV(env.Exclude))] (fix C19-env-exclude-csv; before: strings.Join(env.Exclude, ","))
    = nothing when the flag is Changed or the text is empty, else [cmd.Flags().Set("exclude", text)] -- the env list
    goes through the same csv reader as ONE flag value, written as one CSV record so that every value comes back whole.
    Use (schemaInspectRun, schemaApplyRun, schemaDiffRun): every [stateReader] of the command gets
    [exclude: flags.exclude]; a database URL bound to a schema is read by [SchemaConn] ->
    driver [InspectSchema] -> [schema.ExcludeSchema]; an HCL file by cmdext.stateReaderHCL ->
    [schema.ExcludeSchema] (schema scope); the two filtered states go to [computeDiff].

    No proofs in this file. *)
From Coq Require Import List NArith Bool Arith.
From Atlas Require Import Base.Bytes Diff.Schema Diff.DiffModel Diff.DiffSqlite Excl.Glob Excl.Exclude.
Import ListNotations.
Local Open Scope N_scope.

Definition ch_comma : N := 44.

(** ** encoding/csv, one line, any Comma, LazyQuotes off (the machine of Exclude.csv with the
    separator as a parameter; Exclude.csv = csvc ch_dot) *)
Fixpoint csvc (comma : N) (l : bytes) (st : cstate) (cur : bytes) (acc : list bytes) : option (list bytes) :=
  match l with
  | [] =>
    match st with
    | SQuo => None
    | _ => Some (rev (rev cur :: acc))
    end
  | c :: t =>
    match st with
    | SStart => if c =? ch_dq then csvc comma t SQuo [] acc
                else if c =? comma then csvc comma t SStart [] ([] :: acc)
                else csvc comma t SUnq [c] acc
    | SUnq => if c =? comma then csvc comma t SStart [] (rev cur :: acc)
              else if c =? ch_dq then None
              else csvc comma t SUnq (c :: cur) acc
    | SQuo => if c =? ch_dq then csvc comma t SAfterQ cur acc else csvc comma t SQuo (c :: cur) acc
    | SAfterQ => if c =? ch_dq then csvc comma t SQuo (c :: cur) acc
                 else if c =? comma then csvc comma t SStart [] (rev cur :: acc)
                 else None
    end
  end.

(** pflag readAsCSV: [""] is the empty list; a value with CR/LF is outside the model *)
Definition readAsCSV (val : bytes) : eres (list bytes) :=
  match val with
  | [] => EOk []
  | _ => if has_crlf val then EErr EOutside
         else match csvc ch_comma val SStart [] [] with
              | None => EErr ESplit
              | Some l => EOk l
              end
  end.

(** pflag stringSliceValue + Flag.Changed (both are set by Set only) *)
Record sliceval := mkSV { sv_value : list bytes; sv_changed : bool }.
Definition sv_zero : sliceval := mkSV [] false.

(** stringSliceValue.Set through FlagSet.Set *)
Definition ss_set (s : sliceval) (val : bytes) : eres sliceval :=
  match readAsCSV val with
  | EErr e => EErr e
  | EOk rv => EOk (mkSV (if sv_changed s then sv_value s ++ rv else rv) true)
  end.

(** the occurrences of [--exclude] on the command line, in order *)
Fixpoint parse_flags (s : sliceval) (occ : list bytes) : eres sliceval :=
  match occ with
  | [] => EOk s
  | v :: occ' => match ss_set s v with EErr e => EErr e | EOk s' => parse_flags s' occ' end
  end.

(** strings.Join(l, ",") *)
Fixpoint join_comma (l : list bytes) : bytes :=
  match l with
  | [] => []
  | [p] => p
  | p :: l' => p ++ ch_comma :: join_comma l'
  end.

(** cmdapi.maySetFlag for the exclude flag *)
Definition maySetFlag (s : sliceval) (envVal : bytes) : eres sliceval :=
  if sv_changed s then EOk s
  else match envVal with [] => EOk s | _ => ss_set s envVal end.

(** encoding/csv Writer.Write of ONE record (Comma ',', UseCRLF off), without the final newline:
    fieldNeedsQuotes = the field is `\.`, or holds the comma, a double quote, CR or LF, or starts with a
    space (unicode.IsSpace of its first rune); a quoted field doubles its quotes. *)
Definition first_rune_space (f : bytes) : bool :=
  match f with
  | c :: t =>
    ((9 <=? c) && (c <=? 13)) || (c =? 32)
    || match t with
       | d :: u =>
         ((c =? 194) && ((d =? 133) || (d =? 160)))                                   (* U+0085, U+00A0 *)
         || match u with
            | e :: _ =>
              ((c =? 225) && (d =? 154) && (e =? 128))                                 (* U+1680 *)
              || ((c =? 226) && (d =? 128) && (((128 <=? e) && (e <=? 138)) || (e =? 168) || (e =? 169) || (e =? 175)))
              || ((c =? 226) && (d =? 129) && (e =? 159))                              (* U+205F *)
              || ((c =? 227) && (d =? 128) && (e =? 128))                              (* U+3000 *)
            | [] => false
            end
       | [] => false
       end
  | [] => false
  end.
Definition csv_special (c : N) : bool := (c =? ch_comma) || (c =? ch_dq) || (c =? 10) || (c =? 13).
Definition fieldNeedsQuotes (f : bytes) : bool :=
  match f with
  | [] => false
  | _ => bytes_eqb f [92; 46] || existsb csv_special f || first_rune_space f
  end.
Fixpoint csv_escape (f : bytes) : bytes :=
  match f with
  | [] => []
  | c :: t => if c =? ch_dq then ch_dq :: ch_dq :: csv_escape t else c :: csv_escape t
  end.
Definition csv_field (f : bytes) : bytes :=
  if fieldNeedsQuotes f then ch_dq :: csv_escape f ++ [ch_dq] else f.
Fixpoint csv_record (l : list bytes) : bytes :=
  match l with
  | [] => []
  | [f] => csv_field f
  | f :: l' => csv_field f ++ ch_comma :: csv_record l'
  end.

(** cmdapi.joinCSV (fix C19-env-exclude-csv): the list as one CSV record; nothing for an empty list or a
    single empty value *)
Definition joinCSV (vs : list bytes) : bytes :=
  match vs with
  | [] => []
  | [[]] => []
  | _ => csv_record vs
  end.

(** the exclude line of cmdapi.setSchemaEnvFlags (after fix C19-env-exclude-csv: [joinCSV]; before the fix
    the list was joined with "," -- [setSchemaEnvFlags_before_fix] -- and a pattern holding a comma became two) *)
Definition setSchemaEnvFlags (s : sliceval) (envExclude : list bytes) : eres sliceval :=
  maySetFlag s (joinCSV envExclude).
Definition setSchemaEnvFlags_before_fix (s : sliceval) (envExclude : list bytes) : eres sliceval :=
  maySetFlag s (join_comma envExclude).

Inductive command := CInspect | CApply | CDiff | CMigrateDiff | CClean.

(** addFlagExclude is called for the command *)
Definition has_exclude_flag (c : command) : bool :=
  match c with CMigrateDiff | CClean => false | _ => true end.

(** one run of the CLI: the command, the values of the [--exclude] occurrences, the [exclude]
    attribute of the env block selected with [--env] ([None]: no env selected; selectEnv then
    returns a zero Env, whose Exclude is nil) *)
Record invocation := mkInv { i_cmd : command; i_flags : list bytes; i_env : option (list bytes) }.

(** the value of [flags.exclude] when the Run function of the command reads it.
    (A command without the flag rejects an occurrence: cobra "unknown flag"; its env list is never read.) *)
Definition effective (i : invocation) : eres (list bytes) :=
  if has_exclude_flag (i_cmd i) then
    match parse_flags sv_zero (i_flags i) with
    | EErr e => EErr e
    | EOk s =>
      match setSchemaEnvFlags s (match i_env i with Some l => l | None => [] end) with
      | EErr e => EErr e
      | EOk s' => EOk (sv_value s')
      end
    end
  else match i_flags i with [] => EOk [] | _ :: _ => EErr EInternal end.

(** ** the states a command reads.  Both are realms with the one schema the SQLite URL is bound to
    (the first schema of the realm); [lf]/[lt]: link mode of the "from"/"to" state
    (inspected SQLite database: indexes not linked; HCL file: linked). *)
Definition to_is_hcl (c : command) : bool := match c with CApply | CMigrateDiff => true | _ => false end.
Definition link_db : bool * bool := (false, true).
Definition link_hcl : bool * bool := (true, true).
Definition link_to (c : command) : bool * bool := if to_is_hcl c then link_hcl else link_db.

Definition read_state (link : bool * bool) (raw : realm) (pats : list bytes) : eres realm :=
  match raw with
  | [] => EOk []
  | s :: _ => ExcludeSchema link raw s pats
  end.

(** stateReader(from) / stateReader(to) of schemaApplyRun, schemaDiffRun (schemaInspectRun: "from" only) *)
Definition states_with (c : command) (pats : list bytes) (rawF rawT : realm) : eres (realm * realm) :=
  match read_state link_db rawF pats with
  | EErr e => EErr e
  | EOk f =>
    match read_state (link_to c) rawT pats with
    | EErr e => EErr e
    | EOk t => EOk (f, t)
    end
  end.

Definition states_of (i : invocation) (rawF rawT : realm) : eres (realm * realm) :=
  match effective i with
  | EErr e => EErr e
  | EOk pats => states_with (i_cmd i) pats rawF rawT
  end.

(** computeDiff on the two states (schema scope: SchemaDiff of the two schemas) *)
Definition head_schema (r : realm) : schema :=
  match r with s :: _ => s | [] => mkSchema [] [] end.

Definition command_diff (i : invocation) (rawF rawT : realm) : eres (realm * realm * option (list schange)) :=
  match states_of i rawF rawT with
  | EErr e => EErr e
  | EOk (f, t) => EOk (f, t, sqlite_schema_diff no_skip (head_schema f) (head_schema t))
  end.
