(** C19: the declarative semantics of a glob pattern, written from the grammar in the
    documentation of path/filepath.Match (not from its code):

      pattern: { term }
      term:    '*' | '?' | '[' [ '^' ] { character-range } ']' | c | '\\' c
      character-range: c | '\\' c | lo '-' hi          (c != '\\', '-', ']')

    [Parses p ts]: the byte string p is derived by the grammar, with abstract syntax ts.
    [Matches ts s]: the name s is matched: '*' any sequence of non-Separator bytes, '?' one
    non-Separator character, a class one character inside (outside, with '^') its ranges, a
    literal itself.  A character of the name is what utf8.DecodeRuneInString reads.
    Definitions only. *)
From Coq Require Import List NArith Bool Arith.
From Atlas Require Import Base.Bytes Excl.Glob.
Import ListNotations.
Local Open Scope N_scope.

Inductive term := TStar | TAny | TLit (b : N) | TClass (neg : bool) (rs : list (N * N)).

Definition is_meta (c : N) : bool := (c =? ch_star) || (c =? ch_qm) || (c =? ch_bsl) || (c =? ch_lbr).

(** one class character, possibly escaped; must be a valid rune *)
Definition rchar (q : bytes) : option (N * bytes) :=
  match q with
  | [] => None
  | c :: t =>
    if (c =? ch_dash) || (c =? ch_rbr) then None
    else
      let q1 := if c =? ch_bsl then t else q in
      match q1 with
      | [] => None
      | _ :: _ =>
        let '(r, n) := decodeRune q1 in
        if (r =? RuneError) && Nat.eqb n 1 then None else Some (r, skipn n q1)
      end
  end.

Definition hd_not_dash (q : bytes) : Prop := match q with c :: _ => c <> ch_dash | [] => True end.

(** character-range: [Range q lo hi q'] reads one range at the head of q, leaving q' *)
Inductive Range : bytes -> N -> N -> bytes -> Prop :=
| Range_one q lo qa : rchar q = Some (lo, qa) -> hd_not_dash qa -> Range q lo lo qa
| Range_two q lo qb hi q1 : rchar q = Some (lo, ch_dash :: qb) -> rchar qb = Some (hi, q1) -> Range q lo hi q1.

(** { character-range } ']' *)
Inductive RangesTail : bytes -> list (N * N) -> bytes -> Prop :=
| RT_close q' : RangesTail (ch_rbr :: q') [] q'
| RT_more q lo hi q1 rs q' : Range q lo hi q1 -> RangesTail q1 rs q' -> RangesTail q ((lo, hi) :: rs) q'.

Definition strip_caret (q : bytes) : bool * bytes :=
  match q with
  | c :: t => if c =? ch_caret then (true, t) else (false, q)
  | [] => (false, q)
  end.

Inductive Parses : bytes -> list term -> Prop :=
| P_nil : Parses [] []
| P_star p ts : Parses p ts -> Parses (ch_star :: p) (TStar :: ts)
| P_any p ts : Parses p ts -> Parses (ch_qm :: p) (TAny :: ts)
| P_esc c p ts : Parses p ts -> Parses (ch_bsl :: c :: p) (TLit c :: ts)
| P_lit c p ts : is_meta c = false -> Parses p ts -> Parses (c :: p) (TLit c :: ts)
| P_class q neg q0 lo hi q1 rs q' ts :
    strip_caret q = (neg, q0) -> Range q0 lo hi q1 -> RangesTail q1 rs q' -> Parses q' ts ->
    Parses (ch_lbr :: q) (TClass neg ((lo, hi) :: rs) :: ts).

Definition WellFormed (p : bytes) : Prop := exists ts, Parses p ts.

Definition in_ranges (r : N) (rs : list (N * N)) : bool :=
  existsb (fun lh => (fst lh <=? r) && (r <=? snd lh)) rs.

Definition no_sep (s : bytes) : Prop := Forall (fun c => c <> Separator) s.

Inductive Matches : list term -> bytes -> Prop :=
| M_nil : Matches [] []
| M_star ts s1 s2 : no_sep s1 -> Matches ts s2 -> Matches (TStar :: ts) (s1 ++ s2)
| M_any ts c s r n : c <> Separator -> decodeRune (c :: s) = (r, n) -> Matches ts (skipn n (c :: s)) ->
                     Matches (TAny :: ts) (c :: s)
| M_lit ts c s : Matches ts s -> Matches (TLit c :: ts) (c :: s)
| M_class ts neg rs c s r n : decodeRune (c :: s) = (r, n) -> in_ranges r rs = negb neg ->
                     Matches ts (skipn n (c :: s)) -> Matches (TClass neg rs :: ts) (c :: s).

(** the pattern p matches the name s *)
Definition Glob (p s : bytes) : Prop := exists ts, Parses p ts /\ Matches ts s.

(** names on which the byte-wise star loop of Match and the documented semantics agree:
    ASCII, no Separator (see C19_match_spec_refuted for the two counterexamples outside) *)
Definition plain (s : bytes) : Prop := Forall (fun c => c < 128 /\ c <> Separator) s.
