(** M-GLOB (C19): Go's [path/filepath.Match] (go1.23, src/path/filepath/match.go,
    GOOS != windows, Separator = '/'), function by function (Go names kept), and
    [unicode/utf8.DecodeRuneInString] which it calls.  Strings are byte lists
    ([list N], every element < 256).

    - the only error of the Go code, [ErrBadPattern], is [Bad];
    - Go loops that are not structurally recursive carry explicit fuel; running
      out is the distinct outcome [Fuel]; an index-out-of-range panic is [Panic]
      (GlobProofs.v shows neither is reachable);
    - [Match] reports a malformed pattern only when the scan reaches the
      malformed chunk: that behaviour is reproduced, not repaired.

    This file contains no proofs. *)
From Coq Require Import List NArith Bool Arith.
From Atlas Require Import Base.Bytes.
Import ListNotations.
Local Open Scope N_scope.

Definition ch_star  : N := 42.  (* '*' *)
Definition ch_qm    : N := 63.  (* '?' *)
Definition ch_lbr   : N := 91.  (* '[' *)
Definition ch_rbr   : N := 93.  (* ']' *)
Definition ch_bsl   : N := 92.  (* '\\' *)
Definition ch_caret : N := 94.  (* '^' *)
Definition ch_dash  : N := 45.  (* '-' *)
Definition Separator : N := 47. (* '/' *)

Definition is_nil {A} (l : list A) : bool := match l with [] => true | _ => false end.

(** ** unicode/utf8 *)
Definition RuneError : N := 65533.

(** continuation byte, [locb <= b <= hicb] *)
Definition cont (b : N) : bool := (128 <=? b) && (b <=? 191).

(** [utf8.DecodeRuneInString]: (rune, width); the [first]/[acceptRanges] tables unfolded *)
Definition decodeRune (s : bytes) : N * nat :=
  match s with
  | [] => (RuneError, 0%nat)
  | s0 :: t =>
    if s0 <? 128 then (s0, 1%nat)
    else if (s0 <? 194) || (244 <? s0) then (RuneError, 1%nat)       (* first[s0] == xx *)
    else if s0 <? 224 then                                            (* s1: size 2, accept 80..BF *)
      match t with
      | s1 :: _ => if cont s1 then ((s0 mod 32) * 64 + (s1 mod 64), 2%nat) else (RuneError, 1%nat)
      | [] => (RuneError, 1%nat)
      end
    else if s0 <? 240 then                                            (* s2,s3,s4: size 3 *)
      let lo := if s0 =? 224 then 160 else 128 in
      let hi := if s0 =? 237 then 159 else 191 in
      match t with
      | s1 :: s2 :: _ =>
          if (lo <=? s1) && (s1 <=? hi) && cont s2
          then ((s0 mod 16) * 4096 + (s1 mod 64) * 64 + (s2 mod 64), 3%nat)
          else (RuneError, 1%nat)
      | _ => (RuneError, 1%nat)
      end
    else                                                              (* s5,s6,s7: size 4 *)
      let lo := if s0 =? 240 then 144 else 128 in
      let hi := if s0 =? 244 then 143 else 191 in
      match t with
      | s1 :: s2 :: s3 :: _ =>
          if (lo <=? s1) && (s1 <=? hi) && cont s2 && cont s3
          then ((s0 mod 8) * 262144 + (s1 mod 64) * 4096 + (s2 mod 64) * 64 + (s3 mod 64), 4%nat)
          else (RuneError, 1%nat)
      | _ => (RuneError, 1%nat)
      end
  end.

(** ** outcomes *)
Inductive res (A : Type) := Ok (a : A) | Bad | Fuel | Panic.
Arguments Ok {A} a. Arguments Bad {A}. Arguments Fuel {A}. Arguments Panic {A}.

(** ** [scanChunk] *)
(** the leading loop [for len(pattern) > 0 && pattern[0] == '*'] *)
Fixpoint strip_stars (p : bytes) : bool * bytes :=
  match p with
  | c :: t => if c =? ch_star then (true, snd (strip_stars t)) else (false, p)
  | [] => (false, [])
  end.

(** the [Scan:] loop: [(pattern[0:i], pattern[i:])] *)
Fixpoint scan (p : bytes) (inrange : bool) : bytes * bytes :=
  match p with
  | [] => ([], [])
  | c :: t =>
    if c =? ch_bsl then
      match t with
      | c' :: t' => let '(a, b) := scan t' inrange in (c :: c' :: a, b)   (* if i+1 < len(pattern) { i++ } *)
      | [] => ([c], [])
      end
    else if c =? ch_lbr then let '(a, b) := scan t true in (c :: a, b)
    else if c =? ch_rbr then let '(a, b) := scan t false in (c :: a, b)
    else if (c =? ch_star) && negb inrange then ([], p)
    else let '(a, b) := scan t inrange in (c :: a, b)
  end.

Definition scanChunk (pattern : bytes) : bool * bytes * bytes :=
  let '(star, p) := strip_stars pattern in
  let '(chunk, rest) := scan p false in
  (star, chunk, rest).

(** ** [getEsc]: [None] = ErrBadPattern, [Some (r, nchunk)] *)
Definition getEsc (chunk : bytes) : option (N * bytes) :=
  match chunk with
  | [] => None
  | c :: t =>
    if (c =? ch_dash) || (c =? ch_rbr) then None
    else
      let chunk1 := if c =? ch_bsl then t else chunk in
      match chunk1 with
      | [] => None
      | _ :: _ =>
        let '(r, n) := decodeRune chunk1 in
        if (r =? RuneError) && Nat.eqb n 1 then None
        else match skipn n chunk1 with
             | [] => None
             | nchunk => Some (r, nchunk)
             end
      end
  end.

(** ** [matchChunk] *)
(** the inner [for] of the '[' case ("parse all ranges"); [nr] is [nrange > 0];
    returns the remaining chunk and [match] *)
Fixpoint classLoop (fuel : nat) (chunk : bytes) (r : N) (nr : bool) (m : bool) : res (bytes * bool) :=
  match fuel with
  | O => Fuel
  | S f =>
    let step :=
      match getEsc chunk with
      | None => Bad
      | Some (lo, chunk1) =>
        match chunk1 with
        | [] => Panic                                  (* chunk[0] on an empty chunk *)
        | c1 :: t1 =>
          if c1 =? ch_dash then
            match getEsc t1 with
            | None => Bad
            | Some (hi, chunk2) => classLoop f chunk2 r true (m || ((lo <=? r) && (r <=? hi)))
            end
          else classLoop f chunk1 r true (m || ((lo <=? r) && (r <=? lo)))
        end
      end in
    match chunk with
    | c :: t => if (c =? ch_rbr) && nr then Ok (t, m) else step
    | [] => step
    end
  end.

(** the outer loop of [matchChunk]: [Ok None] = (“”, false, nil), [Ok (Some rest)] = (rest, true, nil) *)
Fixpoint matchChunkLoop (fuel : nat) (chunk s : bytes) (failed : bool) : res (option bytes) :=
  match fuel with
  | O => Fuel
  | S f =>
    match chunk with
    | [] => if failed then Ok None else Ok (Some s)
    | c :: t =>
      let failed := if negb failed && is_nil s then true else failed in
      if c =? ch_lbr then
        let '(r, s1) := if failed then (0, s) else let '(r, n) := decodeRune s in (r, skipn n s) in
        let '(negated, t1) :=
          match t with
          | c1 :: t' => if c1 =? ch_caret then (true, t') else (false, t)
          | [] => (false, t)
          end in
        match classLoop f t1 r false false with
        | Ok (chunk', m) => matchChunkLoop f chunk' s1 (failed || Bool.eqb m negated)
        | Bad => Bad | Fuel => Fuel | Panic => Panic
        end
      else if c =? ch_qm then
        if failed then matchChunkLoop f t s failed
        else match s with
             | s0 :: _ => let '(_, n) := decodeRune s in matchChunkLoop f t (skipn n s) (s0 =? Separator)
             | [] => Panic
             end
      else
        let lit (c' : N) (t' : bytes) :=
          if failed then matchChunkLoop f t' s failed
          else match s with
               | s0 :: s' => matchChunkLoop f t' s' (negb (c' =? s0))
               | [] => Panic
               end in
        if c =? ch_bsl then
          match t with
          | [] => Bad
          | c' :: t' => lit c' t'
          end
        else lit c t
    end
  end.

Definition matchChunk (chunk s : bytes) : res (option bytes) :=
  matchChunkLoop (S (length chunk)) chunk s false.

(** ** [Match] *)
Definition contains_sep (s : bytes) : bool := existsb (fun c => c =? Separator) s.

(** the loop [for i := 0; i < len(name) && name[i] != Separator; i++] under [if star]:
    [Ok (Some t)] = continue Pattern with name = t, [Ok None] = fall through to [return false, nil] *)
Fixpoint starLoop (chunk : bytes) (last : bool) (name : bytes) : res (option bytes) :=
  match name with
  | [] => Ok None
  | c :: name' =>
    if c =? Separator then Ok None
    else match matchChunk chunk name' with
         | Ok (Some t) => if last && negb (is_nil t) then starLoop chunk last name' else Ok (Some t)
         | Ok None => starLoop chunk last name'
         | Bad => Bad | Fuel => Fuel | Panic => Panic
         end
  end.

Fixpoint MatchLoop (fuel : nat) (pattern name : bytes) : res bool :=
  match fuel with
  | O => Fuel
  | S f =>
    match pattern with
    | [] => Ok (is_nil name)
    | _ :: _ =>
      let '(star, chunk, rest) := scanChunk pattern in
      if star && is_nil chunk then Ok (negb (contains_sep name))
      else
        match matchChunk chunk name with
        | Fuel => Fuel | Panic => Panic
        | r =>
          let cont1 := match r with Ok (Some t) => is_nil t || negb (is_nil rest) | _ => false end in
          match r, cont1 with
          | Ok (Some t), true => MatchLoop f rest t
          | Bad, _ => Bad
          | _, _ =>
            if star then
              match starLoop chunk (is_nil rest) name with
              | Ok (Some t) => MatchLoop f rest t
              | Ok None => Ok false
              | Bad => Bad | Fuel => Fuel | Panic => Panic
              end
            else Ok false
          end
        end
    end
  end.

(** [filepath.Match(pattern, name)]: [Ok b] = (b, nil), [Bad] = (false, ErrBadPattern) *)
Definition Match (pattern name : bytes) : res bool := MatchLoop (S (length pattern)) pattern name.
