(** C19, first sentence, round 3: the SCOPE RULE of exclusion patterns
    (sql/schema/inspect.go, InspectOptions.Exclude): at the scope of one schema the FIRST
    component of a pattern names a table ("t", "t.c", "*.c"), whatever that schema, its
    tables and their columns are called, and only the resources of that schema are concerned.
    The reference below is built from the chains of the patterns AS GIVEN -- no
    "<schema>.<pattern>" string occurs in it.  Definitions only. *)
From Coq Require Import List NArith Bool Arith.
From Atlas Require Import Base.Bytes Diff.Schema Excl.Glob Excl.Exclude Excl.ExcludeSpec.
Import ListNotations.
Local Open Scope N_scope.

(** a one-element chain selects the table *)
Definition scope_table_hit (G : list (list bytes)) (t : table) : bool :=
  existsb (fun g => match g with [g1] => sel typeT g1 (t_name t) | _ => false end) G.

(** the last elements of the two-element chains that select table t, in order *)
Definition scope_child_globs (G : list (list bytes)) (t : table) : list bytes :=
  flat_map (fun g => match g with
                     | [g1; g2] => if sel typeT g1 (t_name t) then [g2] else []
                     | _ => [] end) G.

Definition scope_schema (link : bool * bool) (G : list (list bytes)) (s : schema) : schema :=
  set_s_tables s (map (fun t => ref_table link (scope_child_globs G t) t)
                      (filter (fun t => negb (scope_table_hit G t)) (s_tables s))).

(** the realm after [ExcludeSchema] of the schema(s) called [name]: every other schema is untouched *)
Definition scope_realm (link : bool * bool) (name : bytes) (G : list (list bytes)) (r : realm) : realm :=
  map (fun s => if bytes_eqb name (s_name s) then scope_schema link G s else s) r.

(** every chain has one or two elements and every glob is answered for every name *)
Definition scope_chains_ok (G : list (list bytes)) : Prop :=
  Forall (fun g => g <> [] /\ (length g <= 2)%nat /\ Forall (fun v => total_glob (glob_of v)) g) G.

(** a schema name that [ExcludeSchema]'s unquoted "<schema>.<pattern>" reads back as itself: no
    field separator, quote or line break (encoding/csv), no glob meta character, no ']' (so no
    [type=...] selector).  "main", "public", "my-db", "app_1" are such names. *)
Definition plain_byte (c : N) : bool :=
  negb ((c =? ch_dot) || (c =? ch_dq) || (c =? 10) || (c =? 13)
        || (c =? ch_star) || (c =? ch_qm) || (c =? ch_lbr) || (c =? ch_rbr) || (c =? ch_bsl)).
Definition plain_schema_name (n : bytes) : Prop := forallb plain_byte n = true.
