(** C01: the convergence theorem over the syntactic feature predicate. *)
From Coq Require Import List NArith ZArith Bool Arith.
From Atlas Require Import Base.Bytes Diff.Schema Diff.DiffModel Diff.DiffSqlite
  Sqlite.PlanModel Sqlite.EngineModel Sqlite.InspectModel Sqlite.EngineRowsProofs Sqlite.ConvergeDefs Sqlite.ConvergeStep
  Sqlite.Converge Sqlite.ConvergeSupported Sqlite.ConvergeRows Sqlite.ConvergeSyntactic.
Import ListNotations.

(** the catalogue is in the domain ([db_ok_b]), every desired table is in the feature list
    ([desired_syntactic_b]), the names of the two do not collide ([compatible_b]) *)
Definition in_feature_set (d : db) (B : xschema) : bool :=
  db_ok_b (forget d) && forallb desired_syntactic_b B && compatible_b (forget d) B.

Lemma in_feature_set_supported d B : in_feature_set d B = true -> supported (forget d) B = true.
Proof.
  unfold in_feature_set, supported. intros H. apply andb_true_iff in H. destruct H as [H H3]. apply andb_true_iff in H. destruct H as [H1 H2].
  rewrite H1, H3, andb_true_r. simpl. apply forallb_forall. intros bx Hb.
  assert (D := desired_ok_syntactic bx (proj1 (forallb_forall _ _) H2 bx Hb)).
  (* back to the boolean form of desired_ok *)
  unfold desired_ok_b. destruct (do_ct bx D) as [ct0 HC]. rewrite HC.
  repeat (apply andb_true_iff; split).
  - apply (do_colok bx D).
  - apply forallb_forall. intros i Hi. rewrite (do_noauto bx D i Hi). reflexivity.
  - apply forallb_forall. intros i Hi. rewrite (do_idx bx D i Hi). reflexivity.
  - assert (X := do_rt bx D ct0 HC). unfold table_synced in X. rewrite X. reflexivity.
  - apply forallb_forall. intros cb Hcb. rewrite (do_crt bx D cb Hcb). reflexivity.
  - apply forallb_forall. intros ib Hib. rewrite (do_irt bx D ib Hib). reflexivity.
Qed.

Theorem converges_feature_set nm d B :
  in_feature_set d B = true ->
  exists p, diff_and_plan nm (inspect d) B = Some p /\
    ((exists d', exec_all d (plan_stmts p) = Ok d' /\ synced nm d' B) \/
     (exists er, exec_all d (plan_stmts p) = Err er /\ row_err er = true)).
Proof. intros H. apply converges_rows. apply in_feature_set_supported. exact H. Qed.
