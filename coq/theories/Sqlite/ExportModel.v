(** In comments <dq> stands for the double-quote byte (Coq reads a real one as a string opener).
    M-SQLITE export part (C03): the recovery of constraint names, CHECK
    constraints, generated expressions, AUTOINCREMENT and partial-index
    predicates from the stored CREATE text, as sql/sqlite/inspect.go does it
    with regular expressions -- hand-written matchers over byte lists -- and a
    printer of the CREATE TABLE text as sql/sqlite/migrate.go emits it.

    No proofs in this file.  Each matcher states the Go regexp it stands for and
    why the hand-written form has the same leftmost-first (backtracking)
    semantics.  Domain: the text is ASCII-compatible for case folding (no
    U+017F / U+212A, which Go's (?i) folds to s / k); [\s] and [\w] are the
    ASCII classes of RE2; bytes >= 128 are <dq>other<dq> bytes (they are never a
    comma, a quote, a space or a word byte, which is all the matchers ask). *)
From Coq Require Import List NArith Bool Arith.
From Atlas Require Import Base.Bytes.
From Atlas Require Diff.Schema.
Import ListNotations.
Local Open Scope N_scope.

(** ** byte classes *)
Definition is_space (c : N) : bool :=   (* \s = [\t\n\f\r ] *)
  N.eqb c 9 || N.eqb c 10 || N.eqb c 12 || N.eqb c 13 || N.eqb c 32.
Definition is_word (c : N) : bool :=    (* \w = [0-9A-Za-z_] *)
  (N.leb 48 c && N.leb c 57) || (N.leb 65 c && N.leb c 90) || (N.leb 97 c && N.leb c 122) || N.eqb c 95.
Definition is_quote (c : N) : bool := N.eqb c 34 || N.eqb c 96.   (* [<dq>`] *)
Definition lower (c : N) : N := if N.leb 65 c && N.leb c 90 then c + 32 else c.

Definition ch_lp : N := 40.
Definition ch_rp : N := 41.
Definition ch_comma : N := 44.
Definition ch_sq : N := 39.
Definition ch_dq : N := 34.
Definition ch_sp : N := 32.
Definition ch_bt : N := 96.

(** literals, upper case *)
Definition K_CHECK : bytes := [67;72;69;67;75].
Definition K_CONSTRAINT : bytes := [67;79;78;83;84;82;65;73;78;84].
Definition K_AS : bytes := [65;83].
Definition K_INTEGER : bytes := [73;78;84;69;71;69;82].
Definition K_PRIMARY : bytes := [80;82;73;77;65;82;89].
Definition K_KEY : bytes := [75;69;89].
Definition K_AUTOINCREMENT : bytes := [65;85;84;79;73;78;67;82;69;77;69;78;84].
Definition K_FOREIGN : bytes := [70;79;82;69;73;71;78].
Definition K_REFERENCES : bytes := [82;69;70;69;82;69;78;67;69;83].
Definition K_WHERE : bytes := [87;72;69;82;69].

(** [(?i)literal] at the head of [s]: the rest after it *)
Fixpoint lit_ci (p s : bytes) : option bytes :=
  match p with
  | [] => Some s
  | a :: p' => match s with
               | b :: s' => if N.eqb (lower a) (lower b) then lit_ci p' s' else None
               | [] => None
               end
  end.
(** case-sensitive literal *)
Fixpoint lit_cs (p s : bytes) : option bytes :=
  match p with
  | [] => Some s
  | a :: p' => match s with
               | b :: s' => if N.eqb a b then lit_cs p' s' else None
               | [] => None
               end
  end.

Fixpoint skip_while (f : N -> bool) (s : bytes) : bytes :=
  match s with
  | c :: s' => if f c then skip_while f s' else s
  | [] => []
  end.
Fixpoint take_while (f : N -> bool) (s : bytes) : bytes :=
  match s with
  | c :: s' => if f c then c :: take_while f s' else []
  | [] => []
  end.
(** [\s+] *)
Definition plus_space (s : bytes) : option bytes :=
  match s with
  | c :: s' => if is_space c then Some (skip_while is_space s') else None
  | [] => None
  end.
(** [[<dq>`]?] (greedy; giving the quote back never helps: what follows is [\w] or [\s]) *)
Definition opt_quote (s : bytes) : bytes :=
  match s with
  | c :: s' => if is_quote c then s' else s
  | [] => []
  end.
(** [(\w+)]: the word and the rest; [None] when empty.  Greedy and final: the
    byte after a maximal word is not a word byte, and every regexp below
    continues with a class disjoint from [\w] or with a class that absorbs it. *)
Definition word1 (s : bytes) : option (bytes * bytes) :=
  match take_while is_word s with
  | [] => None
  | w => Some (w, skip_while is_word s)
  end.

(** ** scanExpr (inspect.go) *)
(** [scan s r l m n]: [n] bytes consumed so far, [r]/[l] the parenthesis
    counters, [m = Some q] while jumping to the closing quote [q] found by
    strings.IndexByte.  Result: the length of the returned prefix. *)
Fixpoint scan (s : bytes) (r l : nat) (m : option N) (n : nat) : option nat :=
  match s with
  | [] => None
  | c :: s' =>
    match m with
    | Some q =>
        if N.eqb c q then (if Nat.eqb r l then Some (S n) else scan s' r l None (S n))
        else scan s' r l m (S n)
    | None =>
        if N.eqb c ch_sq || N.eqb c ch_dq then
          if existsb (N.eqb c) s' then scan s' r l (Some c) (S n)
          else (if Nat.eqb r l then Some (S n) else scan s' r l None (S n))
        else
          let r' := if N.eqb c ch_lp then S r else r in
          let l' := if N.eqb c ch_rp then S l else l in
          if Nat.eqb r' l' then Some (S n) else scan s' r' l' None (S n)
    end
  end.
Definition scan_expr (s : bytes) : bytes :=
  match scan s 0 0 None 0 with
  | Some n => firstn n s
  | None => []
  end.

(** ** reCheck = (?i)(?:CONSTRAINT\s+[<dq>`]?(\w+)[<dq>`]?\s+)?CHECK\s*\(   and fillChecks *)
(** [CHECK\s*\(] : the text from the parenthesis on *)
Definition match_check_kw (s : bytes) : option bytes :=
  match lit_ci K_CHECK s with
  | Some r => match skip_while is_space r with
              | c :: r' => if N.eqb c ch_lp then Some (c :: r') else None
              | [] => None
              end
  | None => None
  end.
Definition match_named_check (s : bytes) : option (bytes * bytes) :=
  match lit_ci K_CONSTRAINT s with
  | Some r =>
    match plus_space r with
    | Some r1 =>
      match word1 (opt_quote r1) with
      | Some (w, r3) =>
        match plus_space (opt_quote r3) with
        | Some r5 => match match_check_kw r5 with Some r6 => Some (w, r6) | None => None end
        | None => None
        end
      | None => None
      end
    | None => None
    end
  | None => None
  end.
(** a match starting exactly at the head of [s]: (name, text from <dq>(<dq>) *)
Definition match_check_at (s : bytes) : option (option bytes * bytes) :=
  match match_named_check s with
  | Some (w, r) => Some (Some w, r)
  | None => match match_check_kw s with Some r => Some (None, r) | None => None end
  end.
Fixpoint find_check (s : bytes) : option (option bytes * bytes) :=
  match match_check_at s with
  | Some x => Some x
  | None => match s with [] => None | _ :: s' => find_check s' end
  end.

(** the loop of fillChecks; [fuel] bounds the number of constraints *)
Fixpoint fill_checks_go (fuel : nat) (s : bytes) : list (option bytes * bytes) :=
  match fuel with
  | O => []
  | S fuel' =>
    match s with
    | [] => []
    | _ =>
      match find_check s with
      | None => []
      | Some (name, from_paren) =>
          let e := scan_expr from_paren in
          (name, e) :: fill_checks_go fuel' (skipn (length e) from_paren)
      end
    end
  end.
Definition fill_checks (s : bytes) : list (option bytes * bytes) := fill_checks_go (S (length s)) s.

(** ** setGenExpr
    regexp.Compile(<dq>(?:[(,]\s{0,})[<dq>`]*(NAME)[<dq>`]*\s[^,]*(?i:GENERATED\s+ALWAYS)*\s*(?i:AS){1}\s*\(<dq>)
    (the \s after the name and its closing quotes is the fix "sqlite inspection looks for the
    generated-column expression after the whole column name"; [match_gen_at_old] is the regexp before it,
    which matched the name as a prefix of a longer one).
    Modelled for NAME in \w+ (otherwise the name is read as a regexp: [GenUnmodelled]).
    [^,]* is greedy: of the comma-free stretch after the name it keeps as much as
    possible, so the match ends at the LAST <dq>AS\s*(<dq> that starts in the stretch
    (the optional GENERATED ALWAYS and the spaces are swallowed by the greedy class). *)
Definition tail_as (s : bytes) : option bytes :=
  match lit_ci K_AS s with
  | Some r => match skip_while is_space r with
              | c :: r' => if N.eqb c ch_lp then Some (c :: r') else None
              | [] => None
              end
  | None => None
  end.
Fixpoint last_as (s : bytes) : option bytes :=
  match s with
  | [] => None
  | c :: s' =>
      if N.eqb c ch_comma then None
      else match last_as s' with
           | Some r => Some r
           | None => tail_as s
           end
  end.
Definition open_ch (c : N) : bool := N.eqb c ch_lp || N.eqb c ch_comma.
Definition match_gen_at (name s : bytes) : option bytes :=
  match s with
  | c :: r =>
      if open_ch c then
        match lit_cs name (skip_while is_quote (skip_while is_space r)) with
        | Some r3 => match skip_while is_quote r3 with
                     | c4 :: r4 => if is_space c4 then last_as r4 else None
                     | [] => None
                     end
        | None => None
        end
      else None
  | [] => None
  end.
Definition match_gen_at_old (name s : bytes) : option bytes :=
  match s with
  | c :: r =>
      if open_ch c then
        match lit_cs name (skip_while is_quote (skip_while is_space r)) with
        | Some r3 => last_as r3
        | None => None
        end
      else None
  | [] => None
  end.
Fixpoint find_gen (name s : bytes) : option bytes :=
  match match_gen_at name s with
  | Some x => Some x
  | None => match s with [] => None | _ :: s' => find_gen name s' end
  end.
Inductive gen_result := GenUnmodelled | GenNotFound | GenEmpty | GenOk (e : bytes).
Definition set_gen_expr (name s : bytes) : gen_result :=
  if negb (forallb is_word name) || match name with [] => true | _ => false end then GenUnmodelled
  else match find_gen name s with
       | None => GenNotFound
       | Some from_paren =>
           match scan_expr from_paren with
           | [] => GenEmpty
           | e => GenOk e
           end
       end.

(** the same with the regexp before the fix (for the theorem about the old code) *)
Fixpoint find_gen_old (name s : bytes) : option bytes :=
  match match_gen_at_old name s with
  | Some x => Some x
  | None => match s with [] => None | _ :: s' => find_gen_old name s' end
  end.
Definition set_gen_expr_old (name s : bytes) : gen_result :=
  if negb (forallb is_word name) || match name with [] => true | _ => false end then GenUnmodelled
  else match find_gen_old name s with
       | None => GenNotFound
       | Some from_paren =>
           match scan_expr from_paren with
           | [] => GenEmpty
           | e => GenOk e
           end
       end.

(** ** reAutoinc =
    (?i)(?:[(,]\s{0,})[<dq>`]?(\w+)[<dq>`]?\s+INTEGER\s+[^,]*PRIMARY\s+KEY(?:\s+(?:ASC|DESC))?(?:\s+ON\s+CONFLICT\s+\w+)?\s+AUTOINCREMENT
    (since the fix "sqlite inspection recognises AUTOINCREMENT only where the grammar allows it": between
    PRIMARY KEY and AUTOINCREMENT there is only an optional ASC/DESC and an optional conflict clause; before it
    the tail was PRIMARY\s+KEY\s+[^,]*AUTOINCREMENT and matched the letters later in the column definition) *)
(** [[^,]*P]: the literal [p] (which has no comma) occurs, case-folded, at a
    position of [s] before which there is no comma *)
Fixpoint has_ci (p s : bytes) : bool :=
  match lit_ci p s with
  | Some _ => true
  | None => match s with
            | [] => false
            | c :: s' => if N.eqb c ch_comma then false else has_ci p s'
            end
  end.
(** [\s+AUTOINCREMENT] at the head *)
Definition K_ASC : bytes := [65;83;67].
Definition K_DESC : bytes := [68;69;83;67].
Definition K_ON_ : bytes := [79;78].
Definition K_CONFLICT : bytes := [67;79;78;70;76;73;67;84].
Definition ends_autoinc (s : bytes) : bool :=
  match plus_space s with
  | Some r => match lit_ci K_AUTOINCREMENT r with Some _ => true | None => false end
  | None => false
  end.
(** [\s+ON\s+CONFLICT\s+\w+] at the head: the rest after it *)
Definition opt_conflict (s : bytes) : option bytes :=
  match plus_space s with
  | Some r1 =>
    match lit_ci K_ON_ r1 with
    | Some r2 =>
      match plus_space r2 with
      | Some r3 =>
        match lit_ci K_CONFLICT r3 with
        | Some r4 =>
          match plus_space r4 with
          | Some r5 => match word1 r5 with Some (_, r6) => Some r6 | None => None end
          | None => None
          end
        | None => None
        end
      | None => None
      end
    | None => None
    end
  | None => None
  end.
(** [\s+(?:ASC|DESC)] at the head: the rest after it *)
Definition opt_order (s : bytes) : option bytes :=
  match plus_space s with
  | Some r1 => match lit_ci K_ASC r1 with Some r2 => Some r2 | None => lit_ci K_DESC r1 end
  | None => None
  end.
Definition tail_from (a : bytes) : bool :=
  ends_autoinc a || match opt_conflict a with Some b => ends_autoinc b | None => false end.
(** [PRIMARY\s+KEY(?:\s+(?:ASC|DESC))?(?:\s+ON\s+CONFLICT\s+\w+)?\s+AUTOINCREMENT] at the head of [s] *)
Definition pk_autoinc_at (s : bytes) : bool :=
  match lit_ci K_PRIMARY s with
  | Some r1 =>
    match plus_space r1 with
    | Some r2 =>
      match lit_ci K_KEY r2 with
      | Some r3 => tail_from r3 || match opt_order r3 with Some a => tail_from a | None => false end
      | None => false
      end
    | None => false
    end
  | None => false
  end.
(** [[^,]*PRIMARY\s+KEY...AUTOINCREMENT] *)
Fixpoint has_pk_autoinc (s : bytes) : bool :=
  pk_autoinc_at s ||
  match s with
  | [] => false
  | c :: s' => if N.eqb c ch_comma then false else has_pk_autoinc s'
  end.
Definition match_autoinc_at (s : bytes) : option bytes :=
  match s with
  | c :: r =>
      if open_ch c then
        match word1 (opt_quote (skip_while is_space r)) with
        | Some (w, r3) =>
          match plus_space (opt_quote r3) with
          | Some r5 =>
            match lit_ci K_INTEGER r5 with
            | Some r6 =>
              match r6 with
              | c6 :: r7 => if is_space c6 && has_pk_autoinc r7 then Some w else None
              | [] => None
              end
            | None => None
            end
          | None => None
          end
        | None => None
        end
      else None
  | [] => None
  end.
Fixpoint find_autoinc (s : bytes) : option bytes :=
  match match_autoinc_at s with
  | Some x => Some x
  | None => match s with [] => None | _ :: s' => find_autoinc s' end
  end.
(** ** reAutoinc before the fix (for the theorem about the old code) =
    (?i)(?:[(,]\s{0,})[<dq>`]?(\w+)[<dq>`]?\s+INTEGER\s+[^,]*PRIMARY\s+KEY\s+[^,]*AUTOINCREMENT *)
(** [PRIMARY\s+KEY\s+[^,]*AUTOINCREMENT] at the head of [s] *)
Definition pk_autoinc_at_old (s : bytes) : bool :=
  match lit_ci K_PRIMARY s with
  | Some r1 =>
    match plus_space r1 with
    | Some r2 =>
      match lit_ci K_KEY r2 with
      | Some (c :: r3) => is_space c && has_ci K_AUTOINCREMENT r3
      | _ => false
      end
    | None => false
    end
  | None => false
  end.
(** [[^,]*PRIMARY\s+KEY\s+[^,]*AUTOINCREMENT] *)
Fixpoint has_pk_autoinc_old (s : bytes) : bool :=
  pk_autoinc_at_old s ||
  match s with
  | [] => false
  | c :: s' => if N.eqb c ch_comma then false else has_pk_autoinc_old s'
  end.
Definition match_autoinc_at_old (s : bytes) : option bytes :=
  match s with
  | c :: r =>
      if open_ch c then
        match word1 (opt_quote (skip_while is_space r)) with
        | Some (w, r3) =>
          match plus_space (opt_quote r3) with
          | Some r5 =>
            match lit_ci K_INTEGER r5 with
            | Some r6 =>
              match r6 with
              | c6 :: r7 => if is_space c6 && has_pk_autoinc_old r7 then Some w else None
              | [] => None
              end
            | None => None
            end
          | None => None
          end
        | None => None
        end
      else None
  | [] => None
  end.
Fixpoint find_autoinc_old (s : bytes) : option bytes :=
  match match_autoinc_at_old s with
  | Some x => Some x
  | None => match s with [] => None | _ :: s' => find_autoinc_old s' end
  end.
Inductive autoinc_result := AutoNone | AutoErrNoColumn | AutoErrUnexpectedPK | AutoOk (c : bytes).
(** [autoinc(t)]: [cols] the column names, [pk] the names of the primary-key parts *)
Definition autoinc (s : bytes) (cols pk : list bytes) : autoinc_result :=
  match pk with
  | [p] =>
      match find_autoinc s with
      | None => AutoNone
      | Some w =>
          if existsb (bytes_eqb w) cols then
            (if bytes_eqb w p then AutoOk w else AutoErrUnexpectedPK)
          else AutoErrNoColumn
      end
  | _ => AutoNone
  end.

Definition autoinc_old (s : bytes) (cols pk : list bytes) : autoinc_result :=
  match pk with
  | [p] =>
      match find_autoinc_old s with
      | None => AutoNone
      | Some w =>
          if existsb (bytes_eqb w) cols then
            (if bytes_eqb w p then AutoOk w else AutoErrUnexpectedPK)
          else AutoErrNoColumn
      end
  | _ => AutoNone
  end.

(** ** partial index predicate (addIndexes): strings.Index(stmt, <dq>WHERE<dq>), TrimSpace *)
Fixpoint index_of (p s : bytes) : option bytes :=   (* the text after the first occurrence *)
  match lit_cs p s with
  | Some r => Some r
  | None => match s with [] => None | _ :: s' => index_of p s' end
  end.
Definition is_go_space (c : N) : bool :=  (* strings.TrimSpace, ASCII part *)
  is_space c || N.eqb c 11.
Definition trim_space (s : bytes) : bytes :=
  rev (skip_while is_go_space (rev (skip_while is_go_space s))).
(** before the fix "sqlite inspection finds the predicate of a partial index after the closing
    parenthesis of the index parts": strings.Index(stmt, <dq>WHERE<dq>) *)
Definition index_predicate_old (stmt : bytes) : option bytes :=
  match index_of K_WHERE stmt with
  | Some r => Some (trim_space r)
  | None => None
  end.
(** since the fix: reIdxWhere = (?is)\)\s{0,}WHERE\s+(.+)$ , leftmost match, TrimSpace of the group.
    [where_at]: a match starts here -- ")" , spaces, WHERE in any case, one white-space byte and at least one
    more byte ("." matches newlines too); whatever way \s+ and .+ share the white space, TrimSpace of the
    group is TrimSpace of everything after the keyword *)
Definition where_at (s : bytes) : option bytes :=
  match s with
  | c :: r =>
      if N.eqb c ch_rp then
        match lit_ci K_WHERE (skip_while is_space r) with
        | Some (c1 :: c2 :: r2) => if is_space c1 then Some (c1 :: c2 :: r2) else None
        | _ => None
        end
      else None
  | [] => None
  end.
Fixpoint find_where (s : bytes) : option bytes :=
  match where_at s with
  | Some x => Some x
  | None => match s with [] => None | _ :: s' => find_where s' end
  end.
Definition index_predicate (stmt : bytes) : option bytes :=
  match find_where stmt with
  | Some r => Some (trim_space r)
  | None => None
  end.

(** ** fillConstName: reFKT, reFKC, columns, matchFK *)
Record pfk := mkPfk { pf_symbol : bytes; pf_cols : list bytes; pf_reftable : bytes; pf_refcols : list bytes }.

Definition is_cols_ch (c : N) : bool :=     (* [,<dq>` \w] *)
  N.eqb c ch_comma || is_quote c || N.eqb c ch_sp || is_word c.
(** [[<dq>`]*(\w+)[<dq>`]*] *)
Definition qword (s : bytes) : option (bytes * bytes) :=
  match word1 (skip_while is_quote s) with
  | Some (w, r) => Some (w, skip_while is_quote r)
  | None => None
  end.
(** [\(([,<dq>` \w]+)\)] *)
Definition paren_cols (s : bytes) : option (bytes * bytes) :=
  match s with
  | c :: r =>
      if N.eqb c ch_lp then
        match take_while is_cols_ch r with
        | [] => None
        | l => match skip_while is_cols_ch r with
               | d :: r' => if N.eqb d ch_rp then Some (l, r') else None
               | [] => None
               end
        end
      else None
  | [] => None
  end.
(** [REFERENCES\s+[<dq>`]*(\w+)[<dq>`]*\s*\(([,<dq>` \w]+)\)] *)
Definition match_refs (s : bytes) : option (bytes * bytes * bytes) :=
  match lit_ci K_REFERENCES s with
  | Some r =>
    match plus_space r with
    | Some r1 =>
      match qword r1 with
      | Some (tbl, r2) =>
        match paren_cols (skip_while is_space r2) with
        | Some (cols, r3) => Some (tbl, cols, r3)
        | None => None
        end
      | None => None
      end
    | None => None
    end
  | None => None
  end.
(** reFKT at the head: (name, cols, reftable, refcols, rest) *)
Definition match_fkt_at (s : bytes) : option (bytes * bytes * bytes * bytes * bytes) :=
  match lit_ci K_CONSTRAINT s with
  | Some r =>
    match plus_space r with
    | Some r1 =>
      match qword r1 with
      | Some (name, r2) =>
        match plus_space r2 with
        | Some r3 =>
          match lit_ci K_FOREIGN r3 with
          | Some r4 =>
            match plus_space r4 with
            | Some r5 =>
              match lit_ci K_KEY r5 with
              | Some r6 =>
                match paren_cols (skip_while is_space r6) with
                | Some (cols, r7) =>
                  match plus_space r7 with
                  | Some r8 =>
                    match match_refs r8 with
                    | Some (tbl, rcols, r9) => Some (name, cols, tbl, rcols, r9)
                    | None => None
                    end
                  | None => None
                  end
                | None => None
                end
              | None => None
              end
            | None => None
            end
          | None => None
          end
        | None => None
        end
      | None => None
      end
    | None => None
    end
  | None => None
  end.
(** FindAllStringSubmatch: leftmost, non-overlapping *)
Fixpoint find_all_fkt (fuel : nat) (s : bytes) : list (bytes * bytes * bytes * bytes) :=
  match fuel with
  | O => []
  | S fuel' =>
    match match_fkt_at s with
    | Some (n, c, t, rc, rest) => (n, c, t, rc) :: find_all_fkt fuel' rest
    | None => match s with [] => [] | _ :: s' => find_all_fkt fuel' s' end
    end
  end.

(** the tail of reFKC after the [^,] class: \s+CONSTRAINT\s+[<dq>`]*(\w+)[<dq>`]*\s+REFERENCES... *)
Definition fkc_tail (s : bytes) : option (bytes * bytes * bytes * bytes) :=
  match plus_space s with
  | Some r =>
    match lit_ci K_CONSTRAINT r with
    | Some r1 =>
      match plus_space r1 with
      | Some r2 =>
        match qword r2 with
        | Some (name, r3) =>
          match plus_space r3 with
          | Some r4 =>
            match match_refs r4 with
            | Some (tbl, rcols, r5) => Some (name, tbl, rcols, r5)
            | None => None
            end
          | None => None
          end
        | None => None
        end
      | None => None
      end
    | None => None
    end
  | None => None
  end.
(** the greedy class [^,]: the last start in the comma-free stretch from which the tail matches.
    \s+ is greedy inside the tail but the tail's first byte must be a space, and
    starting later inside the same run of spaces gives the same captures and end. *)
Fixpoint last_fkc_tail (s : bytes) : option (bytes * bytes * bytes * bytes) :=
  match s with
  | [] => None
  | c :: s' =>
      match (if N.eqb c ch_comma then None else last_fkc_tail s') with
      | Some x => Some x
      | None => fkc_tail s
      end
  end.
Definition match_fkc_at (s : bytes) : option (bytes * bytes * bytes * bytes * bytes) :=
  match s with
  | c :: r =>
      if open_ch c then
        match qword (skip_while is_space r) with
        | Some (col, r2) =>
          match last_fkc_tail r2 with
          | Some (name, tbl, rcols, rest) => Some (col, name, tbl, rcols, rest)
          | None => None
          end
        | None => None
        end
      else None
  | [] => None
  end.
Fixpoint find_all_fkc (fuel : nat) (s : bytes) : list (bytes * bytes * bytes * bytes) :=
  match fuel with
  | O => []
  | S fuel' =>
    match match_fkc_at s with
    | Some (c, n, t, rc, rest) => (c, n, t, rc) :: find_all_fkc fuel' rest
    | None => match s with [] => [] | _ :: s' => find_all_fkc fuel' s' end
    end
  end.

(** [columns(s)]: strings.Split(s, <dq>,<dq>), TrimSpace, Trim <dq>`<dq><dq> *)
Fixpoint split_comma (s cur : bytes) : list bytes :=
  match s with
  | [] => [rev cur]
  | c :: s' => if N.eqb c ch_comma then rev cur :: split_comma s' [] else split_comma s' (c :: cur)
  end.
Definition trim_quotes (s : bytes) : bytes :=
  rev (skip_while is_quote (rev (skip_while is_quote s))).
Definition columns (s : bytes) : list bytes :=
  map (fun x => trim_quotes (trim_space x)) (split_comma s []).

Fixpoint strs_eq (a b : list bytes) : bool :=
  match a, b with
  | [], [] => true
  | x :: a', y :: b' => bytes_eqb x y && strs_eq a' b'
  | _, _ => false
  end.
Definition match_fk (f : pfk) (cols : list bytes) (reftable : bytes) (refcols : list bytes) : bool :=
  Nat.eqb (length (pf_cols f)) (length cols) && bytes_eqb (pf_reftable f) reftable &&
  Nat.eqb (length (pf_refcols f)) (length refcols) &&
  strs_eq (pf_cols f) cols && strs_eq (pf_refcols f) refcols.
(** the inner loop: the first matching foreign key gets the name *)
Fixpoint rename_first (fks : list pfk) (name : bytes) (cols : list bytes) (reftable : bytes) (refcols : list bytes) : list pfk :=
  match fks with
  | [] => []
  | f :: fks' =>
      if match_fk f cols reftable refcols
      then mkPfk name (pf_cols f) (pf_reftable f) (pf_refcols f) :: fks'
      else f :: rename_first fks' name cols reftable refcols
  end.
Definition fill_const_name (s : bytes) (fks : list pfk) : list pfk :=
  let fks1 := fold_left (fun acc m => match m with (n, c, t, rc) => rename_first acc n (columns c) t (columns rc) end)
                        (find_all_fkt (S (length s)) s) fks in
  fold_left (fun acc m => match m with (c, n, t, rc) => rename_first acc n (columns c) t (columns rc) end)
            (find_all_fkc (S (length s)) s) fks1.

(** ** indexInfo: the expressions of an index with expression parts
    reIdxParts = (?i)ON\s+[<dq>`]*(?:\w+)[<dq>`]*\s*\((.+?)\)(\s*WHERE\s+.+)?$   ("." is not a newline; "$" is the end of the text)
    reIdxDesc  = (?i)\s+DESC\s*$ *)
Definition K_ON : bytes := [79;78].
Definition K_DESC_REV : bytes := [67;83;69;68].
Definition ch_nl : N := 10.
Definition no_nl (s : bytes) : bool := forallb (fun c => negb (N.eqb c ch_nl)) s.
Definition is_nil {A} (l : list A) : bool := match l with [] => true | _ => false end.
(** [\s*WHERE\s+.+$]: the spaces after WHERE may hold newlines, the rest must not, and one byte must be left for [.+] *)
Definition where_tail (s : bytes) : bool :=
  match lit_ci K_WHERE (skip_while is_space s) with
  | None => false
  | Some r =>
      let sp := take_while is_space r in
      let u := skip_while is_space r in
      negb (is_nil sp) && no_nl u &&
      (negb (is_nil u) || (Nat.leb 2 (length sp) && negb (N.eqb (last sp 0) ch_nl)))
  end.
(** the lazy [(.+?)\)] followed by the end or the WHERE tail: the shortest non-empty prefix without newline *)
Fixpoint lazy_parts (acc_rev s : bytes) : option bytes :=
  match s with
  | [] => None
  | c :: s' =>
      if negb (is_nil acc_rev) && N.eqb c ch_rp && (is_nil s' || where_tail s') then Some (rev acc_rev)
      else if N.eqb c ch_nl then None
      else lazy_parts (c :: acc_rev) s'
  end.
Definition match_idx_parts_at (s : bytes) : option bytes :=
  match lit_ci K_ON s with
  | Some r =>
    match plus_space r with
    | Some r1 =>
      match word1 (skip_while is_quote r1) with
      | Some (_, r2) =>
        match skip_while is_space (skip_while is_quote r2) with
        | c :: r3 => if N.eqb c ch_lp then lazy_parts [] r3 else None
        | [] => None
        end
      | None => None
      end
    | None => None
    end
  | None => None
  end.
Fixpoint find_idx_parts (s : bytes) : option bytes :=
  match match_idx_parts_at s with
  | Some x => Some x
  | None => match s with [] => None | _ :: s' => find_idx_parts s' end
  end.
(** reIdxDesc.ReplaceAllString(kx, <dq><dq>) on a trimmed text *)
Definition strip_desc (kx : bytes) : bytes :=
  match lit_ci K_DESC_REV (rev kx) with
  | Some (c :: r1) => if is_space c then rev (skip_while is_space (c :: r1)) else kx
  | _ => kx
  end.
Definition trim_left_comma_sp (s : bytes) : bytes := skip_while (fun c => N.eqb c ch_comma || N.eqb c ch_sp) s.
Definition UNSUPPORTED : bytes := [60;117;110;115;117;112;112;111;114;116;101;100;62].

Section IdxExprs.
(** sqlx.ExprLastIndex (modelled in Diff/Schema.v; passed in to keep this file independent of it) *)
Variable expr_last_index : bytes -> option nat.
(** the loop over idx.Parts: (is_expr, desc) per part; the texts of the expression parts, in order *)
Fixpoint idx_loop (x : bytes) (parts : list (bool * bool)) (stopped : bool) : list bytes :=
  match parts with
  | [] => []
  | (isx, desc) :: ps =>
      if stopped then (if isx then UNSUPPORTED :: idx_loop x ps true else idx_loop x ps true)
      else match expr_last_index x with
           | None => if isx then UNSUPPORTED :: idx_loop x ps true else idx_loop x ps true
           | Some j =>
               let kx := trim_space (firstn (S j) x) in
               let kx' := if desc then strip_desc kx else kx in
               let x' := trim_left_comma_sp (skipn (S j) x) in
               if isx then kx' :: idx_loop x' ps false else idx_loop x' ps false
           end
  end.
Definition idx_exprs (stmt : bytes) (parts : list (bool * bool)) : list bytes :=
  if negb (existsb fst parts) then []
  else match find_idx_parts stmt with
       | None => idx_loop [] parts true
       | Some x => idx_loop x parts false
       end.
End IdxExprs.

(** ** the whole recovery for one table, in the order of inspectTable:
    columns (setGenExpr per hidden column, then autoinc), indexes (predicates),
    fks (fillConstName), fillChecks.  The first error aborts the inspection. *)
Inductive rec_err := EGenNotFound | EGenEmpty | EAutoNoColumn | EAutoUnexpectedPK | EMissingWhere | EUnmodelled.
Record recovered := mkRec {
  r_gens   : list (bytes * bytes);            (* generated column, expression *)
  r_auto   : option bytes;
  r_preds  : list bytes;                      (* predicate of each partial index, in order *)
  r_fks    : list bytes;                      (* symbols *)
  r_checks : list (option bytes * bytes)
}.
Fixpoint gens_of (s : bytes) (hidden_cols : list bytes) : rec_err + list (bytes * bytes) :=
  match hidden_cols with
  | [] => inr []
  | c :: cs =>
      match set_gen_expr c s with
      | GenUnmodelled => inl EUnmodelled
      | GenNotFound => inl EGenNotFound
      | GenEmpty => inl EGenEmpty
      | GenOk e => match gens_of s cs with inl x => inl x | inr l => inr ((c, e) :: l) end
      end
  end.
Fixpoint preds_of (stmts : list bytes) : rec_err + list bytes :=
  match stmts with
  | [] => inr []
  | x :: xs =>
      match index_predicate x with
      | None => inl EMissingWhere
      | Some p => match preds_of xs with inl e => inl e | inr l => inr (p :: l) end
      end
  end.
Definition recover (s : bytes) (cols hidden pk : list bytes) (partial_stmts : list bytes) (fks : list pfk)
  : rec_err + recovered :=
  if negb (forallb (fun n => forallb is_word n && negb (Nat.eqb (length n) 0)) hidden) then inl EUnmodelled else
  match gens_of s hidden with
  | inl e => inl e
  | inr gens =>
    match autoinc s cols pk with
    | AutoErrNoColumn => inl EAutoNoColumn
    | AutoErrUnexpectedPK => inl EAutoUnexpectedPK
    | a =>
      match preds_of partial_stmts with
      | inl e => inl e
      | inr preds =>
          inr (mkRec gens (match a with AutoOk c => Some c | _ => None end) preds
                     (map pf_symbol (fill_const_name s fks)) (fill_checks s))
      end
    end
  end.

(** ** the planner's printer of the CHECK part of CREATE TABLE (sqlite/migrate.go:
    addTable / check over sqlx.Builder).  Every constraint is written by
    [b.Comma().NL(); check(b, c)]: the builder's trailing space becomes ", ", then
    [CONSTRAINT `name` ] (only when named), [CHECK ], the expression. *)
Definition bt_ident (n : bytes) : bytes := ch_bt :: n ++ [ch_bt].
Definition starts_lp (s : bytes) : bool := match s with c :: _ => N.eqb c ch_lp | [] => false end.
Definition ends_rp (s : bytes) : bool := match rev s with c :: _ => N.eqb c ch_rp | [] => false end.
(** check(): sqlx.MayWrap(strings.TrimSpace(expr)) (fix "sqlite planner wraps a CHECK expression like
    (a) AND (b) in parentheses"; [check_expr_old] is the code before it: a test of the first and last byte) *)
Definition check_expr (e : bytes) : bytes := Schema.may_wrap (trim_space e).
Definition check_expr_old (e : bytes) : bytes :=
  let t := trim_space e in
  if starts_lp t && ends_rp t then e else ch_lp :: t ++ [ch_rp].
Definition print_check (k : option bytes * bytes) : bytes :=
  (match fst k with
   | Some n => K_CONSTRAINT ++ [ch_sp] ++ bt_ident n ++ [ch_sp]
   | None => []
   end) ++ K_CHECK ++ [ch_sp] ++ check_expr (snd k).
Definition sep : bytes := [ch_comma; ch_sp].
Definition checks_text (cks : list (option bytes * bytes)) : bytes :=
  concat (map (fun k => sep ++ print_check k) cks).
(** p occurs in s, case-folded *)
Fixpoint occurs_ci (p s : bytes) : bool :=
  match lit_ci p s with
  | Some _ => true
  | None => match s with [] => false | _ :: s' => occurs_ci p s' end
  end.
