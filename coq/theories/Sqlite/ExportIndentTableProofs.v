(** C03 round 5b: fillChecks inverts the INDENTED CREATE TABLE of the planner (Sqlite/ExportPrintIndent.v) for every
    table, when the indent is a non-empty run of blanks (what `{{ sql . "  " }}` passes): the analogue of
    [ExportPrintProofs.fill_checks_print_table] for the text SQLite stores after the indented script was executed. *)
From Coq Require Import List NArith Bool Arith Lia.
From Atlas Require Import Base.Bytes Diff.Schema Diff.DiffSqlite Sqlite.PlanModel Sqlite.ExportModel Sqlite.ExportProofs
  Sqlite.ExportPrint Sqlite.ExportPrintProofs Sqlite.ExportPrintIndent Sqlite.ExportIndentCheckProofs.
Import ListNotations.
Local Open Scope N_scope.
Ltac na := repeat (progress (repeat rewrite <- app_assoc; cbn [app])); reflexivity.

(** p_check on any buffer that ends with a blank *)
Lemma p_check_at bc k : bc <> [] -> last_byte bc = 32 -> chk_ok k ->
  p_check bc k = bc ++ print_check (kopt k) ++ [32].
Proof.
  intros Hbc Hbcl [[He Hel] Hesc]. unfold p_check, kopt, print_check. cbn [fst snd].
  destruct (k_name k) as [|n0 n] eqn:En.
  - unfold bP. cbn [fold_left].
    rewrite (bP1_sp bc K_CHECK Hbc Hbcl) by (discriminate || reflexivity).
    rewrite bP1_sp; [| destruct bc; discriminate | rewrite !app_assoc; apply last_byte_snoc | exact He | exact Hel].
    repeat rewrite <- app_assoc. reflexivity.
  - unfold bP. cbn [fold_left].
    rewrite (bP1_sp bc K_CONSTRAINT Hbc Hbcl) by (discriminate || reflexivity).
    unfold bIdent. rewrite Hesc.
    set (b1 := (bc ++ K_CONSTRAINT ++ [32]) ++ ch_bt :: (n0 :: n) ++ [ch_bt; 32]).
    assert (b1 <> []) as Hb1 by (unfold b1; destruct (bc ++ K_CONSTRAINT ++ [32]); discriminate).
    assert (last_byte b1 = 32) as Hb1l.
    { unfold b1. rewrite last_byte_app by discriminate.
      replace (ch_bt :: (n0 :: n) ++ [ch_bt; 32]) with ((ch_bt :: (n0 :: n) ++ [ch_bt]) ++ [32]).
      - apply last_byte_snoc.
      - cbn [app]. rewrite <- app_assoc. reflexivity. }
    rewrite (bP1_sp b1 K_CHECK Hb1 Hb1l) by (discriminate || reflexivity).
    rewrite bP1_sp; [| destruct b1; discriminate | rewrite !app_assoc; apply last_byte_snoc | exact He | exact Hel].
    unfold b1, bt_ident. repeat rewrite <- app_assoc. cbn [app]. repeat rewrite <- app_assoc. reflexivity.
Qed.

Section Blanks.
Variable ind : bytes.
Hypothesis Hne : ind <> [].
Hypothesis Hsp : forallb (N.eqb 32) ind = true.

Lemma ind_last : last_byte ind = 32.
Proof.
  destruct (exists_last Hne) as (r & c & E). rewrite E, last_byte_snoc. rewrite E, forallb_app in Hsp.
  apply andb_true_iff in Hsp. destruct Hsp as [_ H]. cbn [forallb] in H. rewrite andb_true_r in H.
  apply N.eqb_eq in H. symmetry. exact H.
Qed.
Lemma ind_space : forallb is_space ind = true.
Proof.
  apply forallb_forall. intros c Hc. rewrite forallb_forall in Hsp. pose proof (Hsp c Hc) as H. apply N.eqb_eq in H. subst c. reflexivity.
Qed.
Lemma bNL_comma b l : b <> [] -> bNL ind l (bComma b) = norm b ++ [ch_comma; ch_nl] ++ repeat_bytes ind l.
Proof.
  intro Hb. rewrite (bComma_norm b Hb). unfold bNL. destruct ind as [|i0 i1] eqn:E; [contradiction|].
  unfold sep. rewrite last_byte_app by discriminate. change (last_byte [ch_comma; ch_sp]) with 32. change (N.eqb 32 32) with true. cbn iota.
  replace (norm b ++ [ch_comma; ch_sp]) with ((norm b ++ [ch_comma]) ++ [ch_sp]) by (rewrite <- app_assoc; reflexivity).
  rewrite removelast_last. repeat rewrite <- app_assoc. reflexivity.
Qed.

Definition wsk (k : check) : bytes * (option bytes * bytes) := (ch_nl :: ind, kopt k).

Lemma p_check_step_ind b k : b <> [] -> chk_ok k ->
  p_check (bNL ind 1 (bComma b)) k = norm b ++ (ch_comma :: (ch_nl :: ind) ++ print_check (kopt k)) ++ [32].
Proof.
  intros Hb Hk. rewrite (bNL_comma b 1 Hb). cbn [repeat_bytes]. rewrite app_nil_r.
  rewrite p_check_at; [| destruct (norm b); discriminate | | exact Hk].
  - na.
  - rewrite !app_assoc. rewrite last_byte_app by exact Hne. exact ind_last.
Qed.

Lemma fold_checks_ind cks : Forall chk_ok cks -> forall b, b <> [] ->
  fold_left (fun b k => p_check (bNL ind 1 (bComma b)) k) cks b =
  match cks with [] => b | _ => norm b ++ checks_text_ws (map wsk cks) ++ [32] end.
Proof.
  induction 1 as [|k cks Hk Hall IH]; intros b Hb; [reflexivity|].
  cbn [fold_left]. rewrite (p_check_step_ind b k Hb Hk).
  set (b' := norm b ++ (ch_comma :: (ch_nl :: ind) ++ print_check (kopt k)) ++ [32]).
  assert (b' <> []) as Hb' by (unfold b'; destruct (norm b); discriminate).
  rewrite (IH b' Hb'). destruct cks as [|k2 cks].
  - unfold b'. cbn [map checks_text_ws wsk]. rewrite app_nil_r. na.
  - assert (norm b' = norm b ++ (ch_comma :: (ch_nl :: ind) ++ print_check (kopt k))) as ->.
    { unfold b'. rewrite !app_assoc. apply norm_snoc_sp. }
    cbn [map checks_text_ws wsk]. na.
Qed.

Lemma bNL0 b : b <> [] -> bNL ind 0 b = norm b ++ [ch_nl].
Proof.
  intro Hb. unfold bNL, norm. destruct ind as [|i0 i1] eqn:E; [contradiction|]. cbn [repeat_bytes]. rewrite app_nil_r.
  destruct (N.eqb (last_byte b) 32); reflexivity.
Qed.
Lemma closed_checks_ind b3 cks : b3 <> [] -> Forall chk_ok cks ->
  bClose (bNL ind 0 (fold_left (fun b k => p_check (bNL ind 1 (bComma b)) k) cks b3))
  = (norm b3 ++ checks_text_ws (map wsk cks) ++ [ch_nl]) ++ [ch_rp].
Proof.
  intros Hb H. rewrite (fold_checks_ind cks H b3 Hb). destruct cks as [|k cks].
  - cbn [map checks_text_ws app]. rewrite (bNL0 b3 Hb). rewrite bClose_norm.
    unfold norm at 1. rewrite last_byte_snoc. change (N.eqb ch_nl 32) with false. cbn iota. reflexivity.
  - rewrite bNL0 by (destruct (norm b3); discriminate).
    rewrite !app_assoc. rewrite norm_snoc_sp. rewrite bClose_norm.
    unfold norm at 1. rewrite last_byte_snoc. change (N.eqb ch_nl 32) with false. cbn iota. reflexivity.
Qed.

(** the builder invariant (first byte C, more than one byte) through the indented printer *)
Lemma good_bNL h l b : good h b -> good h (bNL ind l b).
Proof.
  intro H. unfold bNL. destruct ind as [|i0 i1] eqn:E; [exact H|]. apply good_app.
  destruct (N.eqb (last_byte b) 32); [apply good_removelast_app; [exact H|discriminate]|apply good_app; exact H].
Qed.
Lemma good_p_columns_ind h x cs : forall b first b', good h b -> p_columns_ind ind x b first cs = Some b' -> good h b'.
Proof.
  induction cs as [|c cs IH]; intros b first b' H E; cbn [p_columns_ind] in E; [inversion E; subst; exact H|].
  destruct (p_column x (bNL ind 1 (if first then b else bComma b)) c) as [b1|] eqn:E1; [|discriminate].
  apply (IH b1 false b'); [|exact E].
  apply (good_p_column h x (bNL ind 1 (if first then b else bComma b)) c b1); [|exact E1]. apply good_bNL. destruct first; [exact H|apply good_bComma; exact H].
Qed.
Lemma good_print_body_ind x b : print_body_ind ind x = Some b -> good 67 b.
Proof.
  unfold print_body_ind.
  set (b0 := bIdent (bP [] [W_CREATE_TABLE]) (t_name (x_t x)) ++ [ch_lp]).
  assert (good 67 b0) as H0.
  { apply good_app, good_bIdent. exists (tl (bP [] [W_CREATE_TABLE])). split; [reflexivity|discriminate]. }
  destruct (p_columns_ind ind x b0 true (t_cols (x_t x))) as [b1|] eqn:E1; [|discriminate].
  pose proof (good_p_columns_ind 67 x _ _ _ _ H0 E1) as H1.
  assert (good 67 (match t_pk (x_t x) with
             | Some pk => if autoincPK x pk then b1 else p_parts (bP (bNL ind 1 (bComma b1)) [W_PRIMARY_KEY]) (i_parts pk)
             | None => b1 end)) as H2.
  { destruct (t_pk (x_t x)) as [pk|]; [|exact H1].
    destruct (autoincPK x pk); [exact H1|]. apply good_p_parts, good_bP, good_bNL, good_bComma. exact H1. }
  intros [= <-]. destruct (t_fks (x_t x)) as [|f fks]; [exact H2|].
  refine (good_bMapComma 67 (fun b f => p_fk (bNL ind 1 b) f) (f :: fks) _ (bComma _) true (good_bComma 67 _ H2)).
  intros b0' a Hb0. apply good_p_fk, good_bNL. exact Hb0.
Qed.

(** fillChecks applied to the indented CREATE TABLE of ANY table the printer accepts returns the table's constraints *)
Theorem fill_checks_print_table_ind x b3 txt :
  print_body_ind ind x = Some b3 -> print_table_ind ind x = Some txt ->
  occurs_ci K_CHECK (norm b3) = false ->
  (t_checks (x_t x) = [] -> occurs_ci K_CHECK (norm b3 ++ ch_nl :: ch_rp :: opts_suffix (x_t x)) = false) ->
  Forall check_wf (t_checks (x_t x)) ->
  fill_checks txt = map kopt (t_checks (x_t x)).
Proof.
  intros Hb Ht Hfree Hnil Hwf. unfold print_table_ind in Ht. rewrite Hb in Ht. injection Ht as <-.
  pose proof (good_print_body_ind x b3 Hb) as Hg.
  assert (b3 <> []) as Hne3 by (destruct Hg as (t & -> & _); discriminate).
  assert (Forall chk_ok (t_checks (x_t x))) as He.
  { eapply Forall_impl; [|exact Hwf]. intros k Hk. split; [exact (proj2 (check_wf_ok k Hk))|].
    destruct Hk as [[Hn|[_ Hn]] _]; [rewrite Hn; reflexivity|apply esc_ident_word; exact Hn]. }
  rewrite (closed_checks_ind b3 _ Hne3 He).
  assert (exists r, norm b3 ++ checks_text_ws (map wsk (t_checks (x_t x))) ++ [ch_nl] = 67 :: r) as Hg2.
  { destruct Hg as (t & -> & Ht). unfold norm. destruct (N.eqb (last_byte (67 :: t)) 32).
    - destruct t as [|c t]; [contradiction|]. eexists. cbn [removelast app]. reflexivity.
    - eexists. cbn [app]. reflexivity. }
  change (fun b o : bytes => bP1 b o) with (fun b o : bytes => bP b [o]).
  rewrite (finish_text _ (x_t x) Hg2).
  replace ((norm b3 ++ checks_text_ws (map wsk (t_checks (x_t x))) ++ [ch_nl]) ++ ch_rp :: opts_suffix (x_t x))
    with (norm b3 ++ checks_text_ws (map wsk (t_checks (x_t x))) ++ (ch_nl :: ch_rp :: opts_suffix (x_t x)))
    by (repeat rewrite <- app_assoc; reflexivity).
  rewrite fill_checks_inverts_indented.
  - rewrite map_map. apply map_ext. reflexivity.
  - exact Hfree.
  - apply Forall_forall. intros p Hin. apply in_map_iff in Hin. destruct Hin as (k & <- & Hin). cbn [wsk fst snd]. split.
    + cbn [forallb]. rewrite ind_space. reflexivity.
    + rewrite Forall_forall in Hwf. exact (proj1 (check_wf_ok k (Hwf k Hin))).
  - cbn [occurs_ci]. change (occurs_ci K_CHECK (ch_nl :: ch_rp :: opts_suffix (x_t x))) with (occurs_ci K_CHECK (opts_suffix (x_t x))).
    apply occurs_opts.
  - intro Hnil'. apply Hnil. destruct (t_checks (x_t x)); [reflexivity|discriminate].
Qed.
End Blanks.
