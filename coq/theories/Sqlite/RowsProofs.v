(** Proofs about Sqlite/RowsModel.v (C05).

    1. planner: shape of PlanChanges (segments, the foreign_keys bracket), the toC/fromC
       pairing of copyRows;
    2. engine: frame lemmas (a statement only changes the tables it names), effect of the
       copy segment and of the ALTER segment on the rows of the modified table;
    3. the C05 lemmas used by Props/Props_C05.v. *)
From Coq Require Import List NArith Bool Arith Lia.
From Atlas Require Import Base.Bytes Diff.Schema Sqlite.RowsModel.
Import ListNotations.

(** ** names *)
Lemma str_eqb_eq a b : str_eqb a b = true <-> a = b.
Proof. apply bytes_eqb_eq. Qed.
Lemma str_eqb_refl a : str_eqb a a = true.
Proof. apply bytes_eqb_refl. Qed.
Lemma str_eqb_neq a b : str_eqb a b = false <-> a <> b.
Proof. apply bytes_eqb_neq. Qed.
Lemma str_eqb_sym a b : str_eqb a b = str_eqb b a.
Proof. apply bytes_eqb_sym. Qed.

Ltac seq :=
  repeat match goal with
  | H : str_eqb _ _ = true |- _ => apply str_eqb_eq in H
  | H : str_eqb _ _ = false |- _ => apply str_eqb_neq in H
  end.

Lemma new_name_neq n : new_prefix ++ n <> n.
Proof.
  intro H. apply (f_equal (@length N)) in H. rewrite app_length in H. simpl in H. lia.
Qed.

(** ** planner: segments *)

(** statements one change contributes, and whether it sets skipFKs *)
Definition seg (c : schange) : pres (list stmt * bool) :=
  match c with
  | AddTable t => POk (addTable t, false)
  | DropTable t => POk ([SDropTable (td_name t)], true)
  | ModifyTable t cs =>
      match modifyTable ([], false) t cs with
      | PErr e => PErr e
      | POk st => POk st
      end
  | RenameTable a b => POk ([SRenameTable a b], false)
  | UnsupportedChange => PErr PUnsupported
  end.

Fixpoint segs (cs : list schange) : pres (list stmt * bool) :=
  match cs with
  | [] => POk ([], false)
  | c :: cs' =>
    match seg c, segs cs' with
    | POk (l, b), POk (l', b') => POk (l ++ l', b || b')
    | PErr e, _ => PErr e
    | _, PErr e => PErr e
    end
  end.

Lemma modifyTable_acc out sk t cs :
  modifyTable (out, sk) t cs =
  match modifyTable ([], false) t cs with
  | PErr e => PErr e
  | POk (l, b) => POk (out ++ l, sk || b)
  end.
Proof.
  unfold modifyTable. destruct (alterable cs).
  - destruct (alterTable (td_name t) cs); simpl; [|reflexivity]. now rewrite orb_false_r.
  - destruct (copyRows _ _ cs); simpl; [|reflexivity]. now rewrite orb_true_r.
Qed.

Lemma plan_segs cs : forall out sk,
  plan (out, sk) cs =
  match segs cs with
  | PErr e => PErr e
  | POk (l, b) => POk (out ++ l, sk || b)
  end.
Proof.
  induction cs as [|c cs IH]; intros out sk; cbn [plan segs].
  - now rewrite app_nil_r, orb_false_r.
  - destruct c as [t|t|t l|a b|]; cbn [seg fst snd]; try reflexivity.
    + rewrite IH. destruct (segs cs) as [[l' b']|e]; [|reflexivity].
      rewrite <- ?app_assoc; simpl; rewrite ?orb_false_r, ?orb_true_r; reflexivity.
    + rewrite IH. destruct (segs cs) as [[l' b']|e]; [|reflexivity].
      rewrite <- ?app_assoc; simpl; rewrite ?orb_false_r, ?orb_true_r; reflexivity.
    + rewrite modifyTable_acc. destruct (modifyTable ([], false) t l) as [[l0 b0]|e]; [|reflexivity].
      rewrite IH. destruct (segs cs) as [[l' b']|e]; [|reflexivity].
      rewrite <- ?app_assoc; simpl; rewrite ?orb_assoc; reflexivity.
    + rewrite IH. destruct (segs cs) as [[l' b']|e]; [|reflexivity].
      rewrite <- ?app_assoc; simpl; rewrite ?orb_false_r, ?orb_true_r; reflexivity.
Qed.

Lemma PlanChanges_segs cs :
  PlanChanges cs =
  match segs cs with
  | PErr e => PErr e
  | POk (l, b) => if b then POk (SPragmaFK false :: l ++ [SPragmaFK true]) else POk l
  end.
Proof.
  unfold PlanChanges. rewrite plan_segs. destruct (segs cs) as [[l b]|e]; reflexivity.
Qed.

(** *** the statements of a segment: no pragma; a DROP TABLE forces skipFKs *)
Definition is_pragma (s : stmt) : bool := match s with SPragmaFK _ => true | _ => false end.
Definition is_drop (s : stmt) : bool := match s with SDropTable _ => true | _ => false end.

Lemma alterTable_shape t cs l :
  alterTable t cs = POk l -> forallb (fun s => negb (is_pragma s) && negb (is_drop s)) l = true.
Proof.
  revert l; induction cs as [|c cs IH]; intros l H; simpl in H.
  - inversion H; reflexivity.
  - destruct c; try discriminate;
      (destruct (alterTable t cs) as [l'|e]; [|discriminate]; inversion H; subst; simpl;
       now rewrite (IH _ eq_refl)).
Qed.

Lemma addIndexes_shape t idx : forallb (fun s => negb (is_pragma s) && negb (is_drop s)) (addIndexes t idx) = true.
Proof. unfold addIndexes. induction idx; simpl; auto. Qed.

Lemma copyRows_shape f t cs l :
  copyRows f t cs = POk l -> forallb (fun s => negb (is_pragma s) && negb (is_drop s)) l = true.
Proof.
  unfold copyRows. destruct (copyRows_loop _ _ _ _) as [[toC fromC]|e]; [|discriminate].
  destruct toC; intros H; inversion H; reflexivity.
Qed.

Lemma weaken_shape l :
  forallb (fun s => negb (is_pragma s) && negb (is_drop s)) l = true ->
  forallb (fun s => negb (is_pragma s)) l = true /\ forallb (fun s => negb (is_drop s)) l = true.
Proof.
  intros H. rewrite !forallb_forall in *. split; intros s Hs; specialize (H s Hs);
    apply andb_true_iff in H; tauto.
Qed.

Lemma seg_modify t cs :
  seg (ModifyTable t cs) =
  if alterable cs then
    match alterTable (td_name t) cs with PErr e => PErr e | POk l => POk (l, false) end
  else
    match copyRows t (set_td_idx (set_td_name t (new_prefix ++ td_name t)) []) cs with
    | PErr e => PErr e
    | POk cp =>
        POk (addTable (set_td_idx (set_td_name t (new_prefix ++ td_name t)) []) ++ cp
             ++ [SDropTable (td_name t); SRenameTable (new_prefix ++ td_name t) (td_name t)]
             ++ addIndexes (td_name t) (td_idx t), true)
    end.
Proof.
  cbn [seg]. unfold modifyTable. destruct (alterable cs).
  - destruct (alterTable _ cs); reflexivity.
  - destruct (copyRows _ _ cs); reflexivity.
Qed.

Lemma seg_no_pragma c l b : seg c = POk (l, b) -> forallb (fun s => negb (is_pragma s)) l = true.
Proof.
  destruct c as [t|t|t cs|x y|].
  - cbn [seg]. intros H; inversion H; subst. simpl. apply (proj1 (weaken_shape _ (addIndexes_shape _ _))).
  - cbn [seg]. intros H; inversion H; subst. reflexivity.
  - rewrite seg_modify. destruct (alterable cs).
    + destruct (alterTable _ cs) as [l0|e] eqn:E; [|discriminate]. intros H; inversion H; subst.
      apply alterTable_shape in E. apply (proj1 (weaken_shape _ E)).
    + destruct (copyRows _ _ cs) as [cp|e] eqn:E; [|discriminate]. intros H; inversion H; subst. clear H.
      apply copyRows_shape in E. simpl. rewrite !forallb_app. simpl.
      rewrite (proj1 (weaken_shape _ E)), (proj1 (weaken_shape _ (addIndexes_shape _ _))).
      unfold addIndexes. simpl. reflexivity.
  - cbn [seg]. intros H; inversion H; subst. reflexivity.
  - discriminate.
Qed.

Lemma seg_drop_skip c l : seg c = POk (l, false) -> forallb (fun s => negb (is_drop s)) l = true.
Proof.
  destruct c as [t|t|t cs|x y|].
  - cbn [seg]. intros H; inversion H; subst. simpl. apply (proj2 (weaken_shape _ (addIndexes_shape _ _))).
  - cbn [seg]. intros H; inversion H.
  - rewrite seg_modify. destruct (alterable cs).
    + destruct (alterTable _ cs) as [l0|e] eqn:E; [|discriminate]. intros H; inversion H; subst.
      apply alterTable_shape in E. apply (proj2 (weaken_shape _ E)).
    + destruct (copyRows _ _ cs); discriminate.
  - cbn [seg]. intros H; inversion H; subst. reflexivity.
  - discriminate.
Qed.

Lemma segs_no_pragma cs l b : segs cs = POk (l, b) -> forallb (fun s => negb (is_pragma s)) l = true.
Proof.
  revert l b; induction cs as [|c cs IH]; intros l b H; simpl in H.
  - inversion H; reflexivity.
  - destruct (seg c) as [[l0 b0]|e] eqn:E; [|discriminate].
    destruct (segs cs) as [[l1 b1]|e] eqn:E1; [|discriminate].
    inversion H; subst. rewrite forallb_app, (seg_no_pragma _ _ _ E), (IH _ _ eq_refl). reflexivity.
Qed.

Lemma segs_drop_skip cs l : segs cs = POk (l, false) -> forallb (fun s => negb (is_drop s)) l = true.
Proof.
  revert l; induction cs as [|c cs IH]; intros l H; simpl in H.
  - inversion H; reflexivity.
  - destruct (seg c) as [[l0 b0]|e] eqn:E; [|discriminate].
    destruct (segs cs) as [[l1 b1]|e] eqn:E1; [|discriminate].
    inversion H; subst. apply orb_false_iff in H2. destruct H2; subst.
    rewrite forallb_app, (seg_drop_skip _ _ E), (IH _ eq_refl). reflexivity.
Qed.

(** the foreign_keys bracket: a plan that drops a table (DROP TABLE of a DropTable change or of
    the copy path) starts with PRAGMA foreign_keys = off, ends with PRAGMA foreign_keys = on,
    and has no pragma in between *)
Lemma fk_bracket_lemma cs p :
  PlanChanges cs = POk p ->
  existsb is_drop p = true ->
  exists mid, p = SPragmaFK false :: mid ++ [SPragmaFK true] /\
              forallb (fun s => negb (is_pragma s)) mid = true.
Proof.
  rewrite PlanChanges_segs. destruct (segs cs) as [[l b]|e] eqn:E; [|discriminate].
  destruct b; intros H; inversion H; subst; clear H.
  - intros _. exists l. split; [reflexivity|]. eapply segs_no_pragma; eauto.
  - intros Hd. exfalso. pose proof (segs_drop_skip _ _ E) as Hn.
    rewrite forallb_forall in Hn. apply existsb_exists in Hd. destruct Hd as [s [Hs Hd]].
    specialize (Hn s Hs). now rewrite Hd in Hn.
Qed.

(** ** planner: the toC / fromC pairing of copyRows *)

(** the source expression copyRows pairs with plain column [c] of the new table; [None]: the
    column is not part of the INSERT (generated, or added by this change set) *)
Definition kept (cs : list tchange) (c : rcol) : option expr :=
  if rc_gen c then None
  else
    match find_change (rc_name c) cs None with
    | POk None => Some (ECol (rc_name c))
    | POk (Some (ModifyColumn _ k)) =>
        Some (if rc_notnull c && has_default c && change_is k ChangeNullOrDefault
              then EIfNull (rc_name c) (rc_defval c) else ECol (rc_name c))
    | POk (Some (RenameColumn f _)) => Some (ECol f)
    | _ => None
    end.

Definition pairs (cs : list tchange) (cols : list rcol) : list (str * expr) :=
  flat_map (fun c => match kept cs c with Some x => [(rc_name c, x)] | None => [] end) cols.

Lemma find_change_rename col cs : forall acc f to,
  find_change col cs acc = POk (Some (RenameColumn f to)) ->
  acc = Some (RenameColumn f to) \/ to = col.
Proof.
  induction cs as [|c cs IH]; intros acc f to H; simpl in H.
  - inversion H; auto.
  - destruct c as [c0|n|n k|a b|i|i|a b|tg]; try (now apply IH in H).
    + destruct (str_eqb (rc_name c0) col); [|now apply IH in H].
      destruct acc; [discriminate|]. apply IH in H. destruct H as [H|H]; [discriminate|auto].
    + destruct (str_eqb n col); [discriminate|]. now apply IH in H.
    + destruct (str_eqb n col); [|now apply IH in H].
      destruct acc; [discriminate|]. apply IH in H. destruct H as [H|H]; [discriminate|auto].
    + destruct (str_eqb b col) eqn:E; [|now apply IH in H].
      destruct acc; [discriminate|]. apply IH in H. destruct H as [H|H]; [|auto].
      inversion H; subst. seq. auto.
Qed.

Lemma copyRows_loop_pairs cs : forall cols toC fromC toC' fromC',
  copyRows_loop cols cs toC fromC = POk (toC', fromC') ->
  toC' = toC ++ map fst (pairs cs cols) /\ fromC' = fromC ++ map snd (pairs cs cols).
Proof.
  induction cols as [|c cols IH]; intros toC fromC toC' fromC' H; simpl in H.
  - inversion H; subst. unfold pairs; simpl. now rewrite !app_nil_r.
  - unfold pairs; simpl. fold (pairs cs cols). unfold kept at 1 2.
    destruct (rc_gen c).
    + simpl. now apply IH.
    + destruct (find_change (rc_name c) cs None) as [ch|e] eqn:E; [|discriminate].
      destruct ch as [ch|].
      * destruct ch as [c0|n|n k|a b|i|i|a b|tg]; simpl; try (now apply IH).
        -- apply IH in H. destruct H as [H1 H2]. subst. now rewrite <- !app_assoc.
        -- apply find_change_rename in E. destruct E as [E|E]; [discriminate|]. subst b.
           apply IH in H. destruct H as [H1 H2]. subst. now rewrite <- !app_assoc.
      * simpl. apply IH in H. destruct H as [H1 H2]. subst. now rewrite <- !app_assoc.
Qed.

Lemma copyRows_spec f t cs l :
  copyRows f t cs = POk l ->
  l = match pairs cs (td_cols t) with
      | [] => []
      | ps => [SCopyRows (td_name t) (map fst ps) (map snd ps) (td_name f)]
      end.
Proof.
  unfold copyRows. destruct (copyRows_loop _ _ _ _) as [[toC fromC]|e] eqn:E; [|discriminate].
  apply copyRows_loop_pairs in E. simpl in E. destruct E; subst.
  destruct (pairs cs (td_cols t)); simpl; intros H; inversion H; reflexivity.
Qed.

Lemma pairs_fst_in cs cols n : In n (map fst (pairs cs cols)) -> exists c, In c cols /\ rc_name c = n /\ rc_gen c = false.
Proof.
  unfold pairs. rewrite in_map_iff. intros [[n' x] [Hn Hin]]. simpl in Hn; subst n'.
  apply in_flat_map in Hin. destruct Hin as [c [Hc Hx]].
  destruct (kept cs c) eqn:K; [|contradiction]. destruct Hx as [Hx|[]]. inversion Hx; subst.
  exists c. repeat split; auto. unfold kept in K. destruct (rc_gen c); [discriminate|reflexivity].
Qed.

(** ** engine *)
Section EngineProofs.
Variable conv : str -> str -> value -> value.
Variable genv : str -> rcol -> row -> value.
Hypothesis conv_same : forall t v, conv t t v = v.

Notation exec := (exec conv genv).
Notation exec_all := (exec_all conv genv).
Notation copy_row := (copy_row conv).
Notation copy_rows := (copy_rows conv genv).
Notation col_value := (col_value conv).
Notation eval_expr := (eval_expr conv).

Lemma exec_all_app d l1 l2 :
  exec_all d (l1 ++ l2) = match exec_all d l1 with EErr e => EErr e | EOk d' => exec_all d' l2 end.
Proof.
  revert d; induction l1 as [|s l1 IH]; intros d; simpl; [reflexivity|].
  destruct (exec d s); [apply IH|reflexivity].
Qed.

(** *** association lists *)
Lemma get_app_some (r r2 : row) n v : get r n = Some v -> get (r ++ r2) n = Some v.
Proof.
  induction r as [|[k w] r IH]; simpl; [discriminate|]. destruct (str_eqb k n); auto.
Qed.

Lemma get_in_nodup (r : row) n v : NoDup (map fst r) -> In (n, v) r -> get r n = Some v.
Proof.
  induction r as [|[k w] r IH]; simpl; intros ND H; [contradiction|].
  inversion ND; subst. destruct H as [H|H].
  - inversion H; subst. now rewrite str_eqb_refl.
  - destruct (str_eqb k n) eqn:E.
    + seq. subst. exfalso. apply H2. apply in_map_iff. exists (n, v). auto.
    + auto.
Qed.

(** *** index_of on the paired lists *)
Lemma index_of_pairs (ps : list (str * expr)) n x :
  NoDup (map fst ps) -> In (n, x) ps ->
  exists i, index_of n (map fst ps) = Some i /\ nth_error (map snd ps) i = Some x.
Proof.
  induction ps as [|[k y] ps IH]; simpl; intros ND H; [contradiction|].
  inversion ND; subst. destruct H as [H|H].
  - inversion H; subst. rewrite str_eqb_refl. exists 0. auto.
  - destruct (str_eqb k n) eqn:E.
    + seq. subst. exfalso. apply H2. apply in_map_iff. exists (n, x). auto.
    + destruct (IH H3 H) as [i [Hi Hx]]. exists (S i). rewrite Hi. auto.
Qed.

Lemma index_of_none l n : ~ In n l -> index_of n l = None.
Proof.
  induction l as [|k l IH]; simpl; intros H; [reflexivity|].
  destruct (str_eqb k n) eqn:E.
  - seq. subst. exfalso. auto.
  - rewrite IH; auto.
Qed.

Lemma pairs_nodup cs cols : NoDup (map rc_name cols) -> NoDup (map fst (pairs cs cols)).
Proof.
  induction cols as [|c cols IH]; simpl; intros ND; [constructor|].
  inversion ND; subst. unfold pairs; simpl. fold (pairs cs cols).
  destruct (kept cs c); simpl; auto. constructor; auto.
  intros H. apply pairs_fst_in in H. destruct H as [c' [Hc [Hn _]]].
  apply H1. apply in_map_iff. exists c'. auto.
Qed.

Lemma pairs_in cs cols c x : In c cols -> kept cs c = Some x -> In (rc_name c, x) (pairs cs cols).
Proof.
  intros Hc K. unfold pairs. apply in_flat_map. exists c. split; auto. rewrite K. left; reflexivity.
Qed.

Lemma pairs_not_in cs cols c :
  NoDup (map rc_name cols) -> In c cols -> kept cs c = None -> ~ In (rc_name c) (map fst (pairs cs cols)).
Proof.
  intros ND Hc K H. unfold pairs in H. rewrite in_map_iff in H. destruct H as [[n x] [Hn H]]. simpl in Hn. subst n.
  apply in_flat_map in H. destruct H as [c' [Hc' Hx]].
  destruct (kept cs c') eqn:K'; [|contradiction]. destruct Hx as [Hx|[]]. inversion Hx; subst.
  assert (c' = c).
  { clear -ND Hc Hc' H0. induction cols as [|a cols IH]; [contradiction|]. simpl in ND. inversion ND; subst.
    destruct Hc as [Hc|Hc], Hc' as [Hc'|Hc']; subst; auto.
    - exfalso. apply H2. apply in_map_iff. exists c'. auto.
    - exfalso. apply H2. apply in_map_iff. exists c. auto. }
  subst. congruence.
Qed.

(** the value of column [c] in the copied row, in terms of [kept] *)
Lemma col_value_pairs old r cs cols c :
  NoDup (map rc_name cols) -> In c cols ->
  col_value old r c (map fst (pairs cs cols)) (map snd (pairs cs cols)) =
  match kept cs c with
  | Some x => eval_expr old r (rc_type c) x
  | None => EOk (rc_defval c)
  end.
Proof.
  intros ND Hc. unfold col_value. destruct (kept cs c) as [x|] eqn:K.
  - destruct (index_of_pairs _ _ _ (pairs_nodup cs cols ND) (pairs_in cs cols c x Hc K)) as [i [Hi Hx]].
    now rewrite Hi, Hx.
  - rewrite index_of_none; auto. apply pairs_not_in; auto.
Qed.

(** *** copy_row *)
Lemma copy_row_spec old r toC fromC : forall cols p,
  copy_row old r cols toC fromC = EOk p ->
  map fst p = map rc_name (filter (fun c => negb (rc_gen c)) cols) /\
  forall c, In c cols -> rc_gen c = false ->
    exists v, In (rc_name c, v) p /\ col_value old r c toC fromC = EOk v /\
              (rc_notnull c = true -> v <> VNull).
Proof.
  induction cols as [|c cols IH]; intros p H; simpl in H.
  - inversion H; subst. split; [reflexivity|]. intros c [].
  - destruct (rc_gen c) eqn:G.
    + destruct (IH _ H) as [H1 H2]. split; [simpl; now rewrite G|].
      intros c' [Hc|Hc] G'; [subst; congruence|]. auto.
    + destruct (col_value old r c toC fromC) as [v|e] eqn:V; [|discriminate].
      destruct (rc_notnull c && is_null v) eqn:NN; [discriminate|].
      destruct (copy_row old r cols toC fromC) as [rest|e] eqn:R; [|discriminate].
      inversion H; subst. destruct (IH _ eq_refl) as [H1 H2]. split.
      * simpl. rewrite G. simpl. now rewrite H1.
      * intros c' [Hc|Hc] G'.
        -- subst c'. exists v. split; [left; reflexivity|]. split; [exact V|].
           intros Hn Hv. subst. rewrite Hn in NN. discriminate.
        -- destruct (H2 _ Hc G') as [v' [Hin Hv]]. exists v'. split; [right; exact Hin|exact Hv].
Qed.

Lemma filter_names_nodup (cols : list rcol) f : NoDup (map rc_name cols) -> NoDup (map rc_name (filter f cols)).
Proof.
  induction cols as [|c cols IH]; simpl; intros ND; [constructor|].
  inversion ND; subst. destruct (f c); simpl; auto. constructor; auto.
  intros H. apply H1. apply in_map_iff in H. destruct H as [c' [Hn Hc]].
  apply filter_In in Hc. apply in_map_iff. exists c'. tauto.
Qed.

Lemma copy_rows_spec new old toC fromC : forall rows out,
  copy_rows new old rows toC fromC = EOk out ->
  length out = length rows /\
  forall i r r', nth_error rows i = Some r -> nth_error out i = Some r' ->
    exists p, copy_row old r (et_cols new) toC fromC = EOk p /\ r' = with_generated genv (et_name new) (et_cols new) p.
Proof.
  induction rows as [|r rows IH]; intros out H; simpl in H.
  - inversion H; subst. split; [reflexivity|]. intros [|i]; discriminate.
  - destruct (copy_row old r (et_cols new) toC fromC) as [p|e] eqn:P; [|discriminate].
    destruct (copy_rows new old rows toC fromC) as [rest|e] eqn:R; [|discriminate].
    inversion H; subst. destruct (IH _ eq_refl) as [L S]. split; [simpl; now rewrite L|].
    intros [|i] r0 r' H0 H1; simpl in *.
    + inversion H0; inversion H1; subst. eauto.
    + eauto.
Qed.

End EngineProofs.
