(** Proofs about Sqlite/RowsModel.v (C05).

    1. planner: shape of PlanChanges (segments, the foreign_keys bracket), the toC/fromC
       pairing of copyRows;
    2. engine: frame lemmas (a statement only changes the tables it names), effect of the
       copy segment and of the ALTER segment on the rows of the modified table;
    3. the C05 lemmas used by Props/Props_C05.v. *)
From Coq Require Import List NArith Bool Arith Lia.
From Atlas Require Import Base.Bytes Diff.Schema Sqlite.RowsModel.
Import ListNotations.

(** ** names *)
Lemma str_eqb_eq a b : str_eqb a b = true <-> a = b.
Proof. apply bytes_eqb_eq. Qed.
Lemma str_eqb_refl a : str_eqb a a = true.
Proof. apply bytes_eqb_refl. Qed.
Lemma str_eqb_neq a b : str_eqb a b = false <-> a <> b.
Proof. apply bytes_eqb_neq. Qed.
Lemma str_eqb_sym a b : str_eqb a b = str_eqb b a.
Proof. apply bytes_eqb_sym. Qed.

Ltac seq :=
  repeat match goal with
  | H : str_eqb _ _ = true |- _ => apply str_eqb_eq in H
  | H : str_eqb _ _ = false |- _ => apply str_eqb_neq in H
  end.

Lemma new_name_neq n : new_prefix ++ n <> n.
Proof.
  intro H. apply (f_equal (@length N)) in H. rewrite app_length in H. simpl in H. lia.
Qed.

Global Opaque new_prefix.

(** ** planner: segments *)

(** statements one change contributes, and whether it sets skipFKs *)
Definition seg (c : schange) : pres (list stmt * bool) :=
  match c with
  | AddTable t => POk (addTable t, false)
  | DropTable t => POk ([SDropTable (td_name t)], true)
  | ModifyTable t cs =>
      match modifyTable ([], false) t cs with
      | PErr e => PErr e
      | POk st => POk st
      end
  | RenameTable a b => POk ([SRenameTable a b], false)
  | UnsupportedChange => PErr PUnsupported
  end.

Fixpoint segs (cs : list schange) : pres (list stmt * bool) :=
  match cs with
  | [] => POk ([], false)
  | c :: cs' =>
    match seg c, segs cs' with
    | POk (l, b), POk (l', b') => POk (l ++ l', b || b')
    | PErr e, _ => PErr e
    | _, PErr e => PErr e
    end
  end.

Lemma modifyTable_acc out sk t cs :
  modifyTable (out, sk) t cs =
  match modifyTable ([], false) t cs with
  | PErr e => PErr e
  | POk (l, b) => POk (out ++ l, sk || b)
  end.
Proof.
  unfold modifyTable. destruct (alterable cs).
  - destruct (alterTable (td_name t) cs); simpl; [|reflexivity]. now rewrite orb_false_r.
  - destruct (copyRows _ _ cs); simpl; [|reflexivity]. now rewrite orb_true_r.
Qed.

Lemma plan_segs cs : forall out sk,
  plan (out, sk) cs =
  match segs cs with
  | PErr e => PErr e
  | POk (l, b) => POk (out ++ l, sk || b)
  end.
Proof.
  induction cs as [|c cs IH]; intros out sk; cbn [plan segs].
  - now rewrite app_nil_r, orb_false_r.
  - destruct c as [t|t|t l|a b|]; cbn [seg fst snd]; try reflexivity.
    + rewrite IH. destruct (segs cs) as [[l' b']|e]; [|reflexivity].
      rewrite <- ?app_assoc; simpl; rewrite ?orb_false_r, ?orb_true_r; reflexivity.
    + rewrite IH. destruct (segs cs) as [[l' b']|e]; [|reflexivity].
      rewrite <- ?app_assoc; simpl; rewrite ?orb_false_r, ?orb_true_r; reflexivity.
    + rewrite modifyTable_acc. destruct (modifyTable ([], false) t l) as [[l0 b0]|e]; [|reflexivity].
      rewrite IH. destruct (segs cs) as [[l' b']|e]; [|reflexivity].
      rewrite <- ?app_assoc; simpl; rewrite ?orb_assoc; reflexivity.
    + rewrite IH. destruct (segs cs) as [[l' b']|e]; [|reflexivity].
      rewrite <- ?app_assoc; simpl; rewrite ?orb_false_r, ?orb_true_r; reflexivity.
Qed.

Lemma PlanChanges_segs cs :
  PlanChanges cs =
  match segs cs with
  | PErr e => PErr e
  | POk (l, b) => if b then POk (SPragmaFK false :: l ++ [SPragmaFK true]) else POk l
  end.
Proof.
  unfold PlanChanges. rewrite plan_segs. destruct (segs cs) as [[l b]|e]; reflexivity.
Qed.

(** *** the statements of a segment: no pragma; a DROP TABLE forces skipFKs *)
Definition is_pragma (s : stmt) : bool := match s with SPragmaFK _ => true | _ => false end.
Definition is_drop (s : stmt) : bool := match s with SDropTable _ => true | _ => false end.

Lemma alterTable_shape t cs l :
  alterTable t cs = POk l -> forallb (fun s => negb (is_pragma s) && negb (is_drop s)) l = true.
Proof.
  revert l; induction cs as [|c cs IH]; intros l H; simpl in H.
  - inversion H; reflexivity.
  - destruct c; try discriminate;
      (destruct (alterTable t cs) as [l'|e]; [|discriminate]; inversion H; subst; simpl;
       now rewrite (IH _ eq_refl)).
Qed.

Lemma addIndexes_shape t idx : forallb (fun s => negb (is_pragma s) && negb (is_drop s)) (addIndexes t idx) = true.
Proof. unfold addIndexes. induction idx; simpl; auto. Qed.

Lemma copyRows_shape f t cs l :
  copyRows f t cs = POk l -> forallb (fun s => negb (is_pragma s) && negb (is_drop s)) l = true.
Proof.
  unfold copyRows. destruct (copyRows_loop _ _ _ _) as [[toC fromC]|e]; [|discriminate].
  destruct toC; intros H; inversion H; reflexivity.
Qed.

Lemma weaken_shape l :
  forallb (fun s => negb (is_pragma s) && negb (is_drop s)) l = true ->
  forallb (fun s => negb (is_pragma s)) l = true /\ forallb (fun s => negb (is_drop s)) l = true.
Proof.
  intros H. rewrite !forallb_forall in *. split; intros s Hs; specialize (H s Hs);
    apply andb_true_iff in H; tauto.
Qed.

Lemma seg_modify t cs :
  seg (ModifyTable t cs) =
  if alterable cs then
    match alterTable (td_name t) cs with PErr e => PErr e | POk l => POk (l, false) end
  else
    match copyRows t (set_td_idx (set_td_name t (new_prefix ++ td_name t)) []) cs with
    | PErr e => PErr e
    | POk cp =>
        POk (addTable (set_td_idx (set_td_name t (new_prefix ++ td_name t)) []) ++ cp
             ++ [SDropTable (td_name t); SRenameTable (new_prefix ++ td_name t) (td_name t)]
             ++ addIndexes (td_name t) (td_idx t), true)
    end.
Proof.
  cbn [seg]. unfold modifyTable. destruct (alterable cs).
  - destruct (alterTable _ cs); reflexivity.
  - destruct (copyRows _ _ cs); reflexivity.
Qed.

Lemma seg_no_pragma c l b : seg c = POk (l, b) -> forallb (fun s => negb (is_pragma s)) l = true.
Proof.
  destruct c as [t|t|t cs|x y|].
  - cbn [seg]. intros H; inversion H; subst. simpl. apply (proj1 (weaken_shape _ (addIndexes_shape _ _))).
  - cbn [seg]. intros H; inversion H; subst. reflexivity.
  - rewrite seg_modify. destruct (alterable cs).
    + destruct (alterTable _ cs) as [l0|e] eqn:E; [|discriminate]. intros H; inversion H; subst.
      apply alterTable_shape in E. apply (proj1 (weaken_shape _ E)).
    + destruct (copyRows _ _ cs) as [cp|e] eqn:E; [|discriminate]. intros H; inversion H; subst. clear H.
      apply copyRows_shape in E. simpl. rewrite !forallb_app. simpl.
      rewrite (proj1 (weaken_shape _ E)), (proj1 (weaken_shape _ (addIndexes_shape _ _))).
      unfold addIndexes. simpl. reflexivity.
  - cbn [seg]. intros H; inversion H; subst. reflexivity.
  - discriminate.
Qed.

Lemma seg_drop_skip c l : seg c = POk (l, false) -> forallb (fun s => negb (is_drop s)) l = true.
Proof.
  destruct c as [t|t|t cs|x y|].
  - cbn [seg]. intros H; inversion H; subst. simpl. apply (proj2 (weaken_shape _ (addIndexes_shape _ _))).
  - cbn [seg]. intros H; inversion H.
  - rewrite seg_modify. destruct (alterable cs).
    + destruct (alterTable _ cs) as [l0|e] eqn:E; [|discriminate]. intros H; inversion H; subst.
      apply alterTable_shape in E. apply (proj2 (weaken_shape _ E)).
    + destruct (copyRows _ _ cs); discriminate.
  - cbn [seg]. intros H; inversion H; subst. reflexivity.
  - discriminate.
Qed.

Lemma segs_no_pragma cs l b : segs cs = POk (l, b) -> forallb (fun s => negb (is_pragma s)) l = true.
Proof.
  revert l b; induction cs as [|c cs IH]; intros l b H; simpl in H.
  - inversion H; reflexivity.
  - destruct (seg c) as [[l0 b0]|e] eqn:E; [|discriminate].
    destruct (segs cs) as [[l1 b1]|e] eqn:E1; [|discriminate].
    inversion H; subst. rewrite forallb_app, (seg_no_pragma _ _ _ E), (IH _ _ eq_refl). reflexivity.
Qed.

Lemma segs_drop_skip cs l : segs cs = POk (l, false) -> forallb (fun s => negb (is_drop s)) l = true.
Proof.
  revert l; induction cs as [|c cs IH]; intros l H; simpl in H.
  - inversion H; reflexivity.
  - destruct (seg c) as [[l0 b0]|e] eqn:E; [|discriminate].
    destruct (segs cs) as [[l1 b1]|e] eqn:E1; [|discriminate].
    inversion H; subst. apply orb_false_iff in H2. destruct H2; subst.
    rewrite forallb_app, (seg_drop_skip _ _ E), (IH _ eq_refl). reflexivity.
Qed.

(** the foreign_keys bracket: a plan that drops a table (DROP TABLE of a DropTable change or of
    the copy path) starts with PRAGMA foreign_keys = off, ends with PRAGMA foreign_keys = on,
    and has no pragma in between *)
Lemma fk_bracket_lemma cs p :
  PlanChanges cs = POk p ->
  existsb is_drop p = true ->
  exists mid, p = SPragmaFK false :: mid ++ [SPragmaFK true] /\
              forallb (fun s => negb (is_pragma s)) mid = true.
Proof.
  rewrite PlanChanges_segs. destruct (segs cs) as [[l b]|e] eqn:E; [|discriminate].
  destruct b; intros H; inversion H; subst; clear H.
  - intros _. exists l. split; [reflexivity|]. eapply segs_no_pragma; eauto.
  - intros Hd. exfalso. pose proof (segs_drop_skip _ _ E) as Hn.
    rewrite forallb_forall in Hn. apply existsb_exists in Hd. destruct Hd as [s [Hs Hd]].
    specialize (Hn s Hs). now rewrite Hd in Hn.
Qed.

(** ** planner: the toC / fromC pairing of copyRows *)

(** the source expression copyRows pairs with plain column [c] of the new table; [None]: the
    column is not part of the INSERT (generated, or added by this change set) *)
Definition kept (cs : list tchange) (c : rcol) : option expr :=
  if rc_gen c then None
  else
    match find_change (rc_name c) cs None with
    | POk None => Some (ECol (rc_name c))
    | POk (Some (ModifyColumn _ k)) =>
        Some (if rc_notnull c && has_default c && change_is k ChangeNullOrDefault
              then EIfNull (rc_name c) (rc_defval c) else ECol (rc_name c))
    | POk (Some (RenameColumn f _)) => Some (ECol f)
    | _ => None
    end.

Definition pairs (cs : list tchange) (cols : list rcol) : list (str * expr) :=
  flat_map (fun c => match kept cs c with Some x => [(rc_name c, x)] | None => [] end) cols.

Lemma find_change_rename col cs : forall acc f to,
  find_change col cs acc = POk (Some (RenameColumn f to)) ->
  acc = Some (RenameColumn f to) \/ to = col.
Proof.
  induction cs as [|c cs IH]; intros acc f to H; simpl in H.
  - inversion H; auto.
  - destruct c as [c0|n|n k|a b|i|i|a b|tg]; try (now apply IH in H).
    + destruct (str_eqb (rc_name c0) col); [|now apply IH in H].
      destruct acc; [discriminate|]. apply IH in H. destruct H as [H|H]; [discriminate|auto].
    + destruct (str_eqb n col); [discriminate|]. now apply IH in H.
    + destruct (str_eqb n col); [|now apply IH in H].
      destruct acc; [discriminate|]. apply IH in H. destruct H as [H|H]; [discriminate|auto].
    + destruct (str_eqb b col) eqn:E; [|now apply IH in H].
      destruct acc; [discriminate|]. apply IH in H. destruct H as [H|H]; [|auto].
      inversion H; subst. seq. auto.
Qed.

Lemma copyRows_loop_pairs cs : forall cols toC fromC toC' fromC',
  copyRows_loop cols cs toC fromC = POk (toC', fromC') ->
  toC' = toC ++ map fst (pairs cs cols) /\ fromC' = fromC ++ map snd (pairs cs cols).
Proof.
  induction cols as [|c cols IH]; intros toC fromC toC' fromC' H; simpl in H.
  - inversion H; subst. unfold pairs; simpl. now rewrite !app_nil_r.
  - unfold pairs; simpl. fold (pairs cs cols). unfold kept at 1 2.
    destruct (rc_gen c).
    + simpl. now apply IH.
    + destruct (find_change (rc_name c) cs None) as [ch|e] eqn:E; [|discriminate].
      destruct ch as [ch|].
      * destruct ch as [c0|n|n k|a b|i|i|a b|tg]; simpl; try (now apply IH).
        -- apply IH in H. destruct H as [H1 H2]. subst. now rewrite <- !app_assoc.
        -- apply find_change_rename in E. destruct E as [E|E]; [discriminate|]. subst b.
           apply IH in H. destruct H as [H1 H2]. subst. now rewrite <- !app_assoc.
      * simpl. apply IH in H. destruct H as [H1 H2]. subst. now rewrite <- !app_assoc.
Qed.

Lemma copyRows_spec f t cs l :
  copyRows f t cs = POk l ->
  l = match pairs cs (td_cols t) with
      | [] => []
      | ps => [SCopyRows (td_name t) (map fst ps) (map snd ps) (td_name f)]
      end.
Proof.
  unfold copyRows. destruct (copyRows_loop _ _ _ _) as [[toC fromC]|e] eqn:E; [|discriminate].
  apply copyRows_loop_pairs in E. simpl in E. destruct E; subst.
  destruct (pairs cs (td_cols t)); simpl; intros H; inversion H; reflexivity.
Qed.

Lemma pairs_fst_in cs cols n : In n (map fst (pairs cs cols)) -> exists c, In c cols /\ rc_name c = n /\ rc_gen c = false.
Proof.
  unfold pairs. rewrite in_map_iff. intros [[n' x] [Hn Hin]]. simpl in Hn; subst n'.
  apply in_flat_map in Hin. destruct Hin as [c [Hc Hx]].
  destruct (kept cs c) eqn:K; [|contradiction]. destruct Hx as [Hx|[]]. inversion Hx; subst.
  exists c. repeat split; auto. unfold kept in K. destruct (rc_gen c); [discriminate|reflexivity].
Qed.

(** ** engine *)
Section EngineProofs.
Variable conv : str -> str -> value -> value.
Variable genv : str -> rcol -> row -> value.
Hypothesis conv_same : forall t v, conv t t v = v.

Notation exec := (exec conv genv).
Notation exec_all := (exec_all conv genv).
Notation copy_row := (copy_row conv).
Notation copy_rows := (copy_rows conv genv).
Notation col_value := (col_value conv).
Notation eval_expr := (eval_expr conv).

Lemma exec_all_app d l1 l2 :
  exec_all d (l1 ++ l2) = match exec_all d l1 with EErr e => EErr e | EOk d' => exec_all d' l2 end.
Proof.
  revert d; induction l1 as [|s l1 IH]; intros d; simpl; [reflexivity|].
  destruct (exec d s); [apply IH|reflexivity].
Qed.

(** *** association lists *)
Lemma get_app_some (r r2 : row) n v : get r n = Some v -> get (r ++ r2) n = Some v.
Proof.
  induction r as [|[k w] r IH]; simpl; [discriminate|]. destruct (str_eqb k n); auto.
Qed.

Lemma get_in_nodup (r : row) n v : NoDup (map fst r) -> In (n, v) r -> get r n = Some v.
Proof.
  induction r as [|[k w] r IH]; simpl; intros ND H; [contradiction|].
  inversion ND; subst. destruct H as [H|H].
  - inversion H; subst. now rewrite str_eqb_refl.
  - destruct (str_eqb k n) eqn:E.
    + seq. subst. exfalso. apply H2. apply in_map_iff. exists (n, v). auto.
    + auto.
Qed.

(** *** index_of on the paired lists *)
Lemma index_of_pairs (ps : list (str * expr)) n x :
  NoDup (map fst ps) -> In (n, x) ps ->
  exists i, index_of n (map fst ps) = Some i /\ nth_error (map snd ps) i = Some x.
Proof.
  induction ps as [|[k y] ps IH]; simpl; intros ND H; [contradiction|].
  inversion ND; subst. destruct H as [H|H].
  - inversion H; subst. rewrite str_eqb_refl. exists 0. auto.
  - destruct (str_eqb k n) eqn:E.
    + seq. subst. exfalso. apply H2. apply in_map_iff. exists (n, x). auto.
    + destruct (IH H3 H) as [i [Hi Hx]]. exists (S i). rewrite Hi. auto.
Qed.

Lemma index_of_none l n : ~ In n l -> index_of n l = None.
Proof.
  induction l as [|k l IH]; simpl; intros H; [reflexivity|].
  destruct (str_eqb k n) eqn:E.
  - seq. subst. exfalso. auto.
  - rewrite IH; auto.
Qed.

Lemma pairs_nodup cs cols : NoDup (map rc_name cols) -> NoDup (map fst (pairs cs cols)).
Proof.
  induction cols as [|c cols IH]; simpl; intros ND; [constructor|].
  inversion ND; subst. unfold pairs; simpl. fold (pairs cs cols).
  destruct (kept cs c); simpl; auto. constructor; auto.
  intros H. apply pairs_fst_in in H. destruct H as [c' [Hc [Hn _]]].
  apply H1. apply in_map_iff. exists c'. auto.
Qed.

Lemma pairs_in cs cols c x : In c cols -> kept cs c = Some x -> In (rc_name c, x) (pairs cs cols).
Proof.
  intros Hc K. unfold pairs. apply in_flat_map. exists c. split; auto. rewrite K. left; reflexivity.
Qed.

Lemma pairs_not_in cs cols c :
  NoDup (map rc_name cols) -> In c cols -> kept cs c = None -> ~ In (rc_name c) (map fst (pairs cs cols)).
Proof.
  intros ND Hc K H. unfold pairs in H. rewrite in_map_iff in H. destruct H as [[n x] [Hn H]]. simpl in Hn. subst n.
  apply in_flat_map in H. destruct H as [c' [Hc' Hx]].
  destruct (kept cs c') eqn:K'; [|contradiction]. destruct Hx as [Hx|[]]. inversion Hx; subst.
  assert (c' = c).
  { clear -ND Hc Hc' H0. induction cols as [|a cols IH]; [contradiction|]. simpl in ND. inversion ND; subst.
    destruct Hc as [Hc|Hc], Hc' as [Hc'|Hc']; subst; auto.
    - exfalso. apply H2. apply in_map_iff. exists c'. auto.
    - exfalso. apply H2. apply in_map_iff. exists c. auto. }
  subst. congruence.
Qed.

(** the value of column [c] in the copied row, in terms of [kept] *)
Lemma col_value_pairs old r cs cols c :
  NoDup (map rc_name cols) -> In c cols ->
  col_value old r c (map fst (pairs cs cols)) (map snd (pairs cs cols)) =
  match kept cs c with
  | Some x => eval_expr old r (rc_type c) x
  | None => EOk (rc_defval c)
  end.
Proof.
  intros ND Hc. unfold col_value. destruct (kept cs c) as [x|] eqn:K.
  - destruct (index_of_pairs _ _ _ (pairs_nodup cs cols ND) (pairs_in cs cols c x Hc K)) as [i [Hi Hx]].
    now rewrite Hi, Hx.
  - rewrite index_of_none; auto. apply pairs_not_in; auto.
Qed.

(** *** copy_row *)
Lemma copy_row_spec old r toC fromC : forall cols p,
  copy_row old r cols toC fromC = EOk p ->
  map fst p = map rc_name (filter (fun c => negb (rc_gen c)) cols) /\
  forall c, In c cols -> rc_gen c = false ->
    exists v, In (rc_name c, v) p /\ col_value old r c toC fromC = EOk v /\
              (rc_notnull c = true -> v <> VNull).
Proof.
  induction cols as [|c cols IH]; intros p H; simpl in H.
  - inversion H; subst. split; [reflexivity|]. intros c [].
  - destruct (rc_gen c) eqn:G.
    + destruct (IH _ H) as [H1 H2]. split; [simpl; now rewrite G|].
      intros c' [Hc|Hc] G'; [subst; congruence|]. auto.
    + destruct (col_value old r c toC fromC) as [v|e] eqn:V; [|discriminate].
      destruct (rc_notnull c && is_null v) eqn:NN; [discriminate|].
      destruct (copy_row old r cols toC fromC) as [rest|e] eqn:R; [|discriminate].
      inversion H; subst. destruct (IH _ eq_refl) as [H1 H2]. split.
      * simpl. rewrite G. simpl. now rewrite H1.
      * intros c' [Hc|Hc] G'.
        -- subst c'. exists v. split; [left; reflexivity|]. split; [exact V|].
           intros Hn Hv. subst. rewrite Hn in NN. discriminate.
        -- destruct (H2 _ Hc G') as [v' [Hin Hv]]. exists v'. split; [right; exact Hin|exact Hv].
Qed.

Lemma filter_names_nodup (cols : list rcol) f : NoDup (map rc_name cols) -> NoDup (map rc_name (filter f cols)).
Proof.
  induction cols as [|c cols IH]; simpl; intros ND; [constructor|].
  inversion ND; subst. destruct (f c); simpl; auto. constructor; auto.
  intros H. apply H1. apply in_map_iff in H. destruct H as [c' [Hn Hc]].
  apply filter_In in Hc. apply in_map_iff. exists c'. tauto.
Qed.

Lemma copy_rows_spec new old toC fromC : forall rows out,
  copy_rows new old rows toC fromC = EOk out ->
  length out = length rows /\
  forall i r r', nth_error rows i = Some r -> nth_error out i = Some r' ->
    exists p, copy_row old r (et_cols new) toC fromC = EOk p /\ r' = with_generated genv (et_name new) (et_cols new) p.
Proof.
  induction rows as [|r rows IH]; intros out H; simpl in H.
  - inversion H; subst. split; [reflexivity|]. intros [|i]; discriminate.
  - destruct (copy_row old r (et_cols new) toC fromC) as [p|e] eqn:P; [|discriminate].
    destruct (copy_rows new old rows toC fromC) as [rest|e] eqn:R; [|discriminate].
    inversion H; subst. destruct (IH _ eq_refl) as [L S]. split; [simpl; now rewrite L|].
    intros [|i] r0 r' H0 H1; simpl in *.
    + inversion H0; inversion H1; subst. eauto.
    + eauto.
Qed.

(** *** catalogue lemmas *)
Lemma find_et_app n l t :
  find_et n (l ++ [t]) =
  match find_et n l with Some x => Some x | None => if str_eqb (et_name t) n then Some t else None end.
Proof.
  unfold find_et. induction l as [|u l IH]; simpl; [reflexivity|].
  destruct (str_eqb (et_name u) n); auto.
Qed.

Lemma find_et_name n l t : find_et n l = Some t -> et_name t = n.
Proof.
  unfold find_et. intros H. apply find_some in H. destruct H as [_ H]. now seq.
Qed.

Lemma find_et_replace_other n t l : et_name t <> n -> find_et n (replace_et t l) = find_et n l.
Proof.
  intros Hn. unfold find_et. induction l as [|u l IH]; simpl; [reflexivity|].
  destruct (str_eqb (et_name u) (et_name t)) eqn:E; simpl.
  - seq. destruct (str_eqb (et_name t) n) eqn:E1; [seq; contradiction|].
    destruct (str_eqb (et_name u) n) eqn:E2; [seq; congruence|reflexivity].
  - destruct (str_eqb (et_name u) n); auto.
Qed.

Lemma find_et_replace_same t l x :
  find_et (et_name t) l = Some x -> find_et (et_name t) (replace_et t l) = Some t.
Proof.
  unfold find_et. induction l as [|u l IH]; simpl; [discriminate|].
  destruct (str_eqb (et_name u) (et_name t)) eqn:E; simpl.
  - intros _. now rewrite str_eqb_refl.
  - rewrite E. auto.
Qed.

Lemma find_et_remove_other n m l : m <> n -> find_et n (remove_et m l) = find_et n l.
Proof.
  intros Hn. unfold find_et. induction l as [|u l IH]; simpl; [reflexivity|].
  destruct (str_eqb (et_name u) m) eqn:E; simpl.
  - seq. destruct (str_eqb (et_name u) n) eqn:E2; [seq; congruence|reflexivity].
  - destruct (str_eqb (et_name u) n); auto.
Qed.

Definition rename_et (a b : str) (t : etable) : etable :=
  if str_eqb (et_name t) a then mkEtable b (et_cols t) (et_fks t) (et_rows t) else t.

Lemma rename_et_hit a b u : str_eqb (et_name u) a = true ->
  rename_et a b u = mkEtable b (et_cols u) (et_fks u) (et_rows u).
Proof. unfold rename_et. now intros ->. Qed.
Lemma rename_et_miss a b u : str_eqb (et_name u) a = false -> rename_et a b u = u.
Proof. unfold rename_et. now intros ->. Qed.

Lemma find_et_rename_other n a b l :
  a <> n -> b <> n -> find_et n (map (rename_et a b) l) = find_et n l.
Proof.
  intros Ha Hb. unfold find_et. induction l as [|u l IH]; simpl; [reflexivity|].
  destruct (str_eqb (et_name u) a) eqn:E.
  - rewrite (rename_et_hit _ _ _ E). simpl. seq. destruct (str_eqb b n) eqn:E1; [seq; contradiction|].
    destruct (str_eqb (et_name u) n) eqn:E2; [seq; congruence|]. exact IH.
  - rewrite (rename_et_miss _ _ _ E). destruct (str_eqb (et_name u) n); auto.
Qed.

Lemma find_et_rename a b l t :
  find_et a l = Some t -> find_et b l = None ->
  find_et b (map (rename_et a b) l) = Some (mkEtable b (et_cols t) (et_fks t) (et_rows t)).
Proof.
  unfold find_et. induction l as [|u l IH]; simpl; [discriminate|].
  destruct (str_eqb (et_name u) a) eqn:E.
  - rewrite (rename_et_hit _ _ _ E). simpl. intros H _. inversion H; subst. now rewrite str_eqb_refl.
  - rewrite (rename_et_miss _ _ _ E). destruct (str_eqb (et_name u) b) eqn:E2; [discriminate|]. auto.
Qed.

(** *** frame: a statement changes only the tables it names (enforcement off) *)
Definition touches (s : stmt) : list str :=
  match s with
  | SPragmaFK _ | SCreateIndex _ _ | SDropIndex _ => []
  | SCreateTable t => [td_name t]
  | SDropTable n => [n]
  | SRenameTable a b => [a; b]
  | SCopyRows to_t _ _ _ => [to_t]
  | SAddColumn t _ => [t]
  | SRenameColumn t _ _ => [t]
  end.

Lemma exec_flags d s d' :
  is_pragma s = false -> exec d s = EOk d' -> d_fk d' = d_fk d /\ d_intx d' = d_intx d.
Proof.
  destruct s; cbn [is_pragma]; try discriminate; intros _ H; unfold RowsModel.exec in H.
  - destruct (find_et _ _); [discriminate|]. inversion H; subst. auto.
  - destruct (find_et n (d_tables d)); [|discriminate]. destruct (d_fk d) eqn:F.
    + destruct (fk_actions _ _ _ _); [|discriminate]. inversion H; subst; simpl; auto.
    + inversion H; subst; simpl; auto.
  - destruct (find_et a _); [|discriminate]. destruct (find_et b _); [discriminate|]. inversion H; subst; auto.
  - destruct (find_et to_t _); [|discriminate]. destruct (find_et from_t _); [|discriminate].
    destruct (negb _); [discriminate|]. destruct (targets_ok _ _); [|discriminate].
    destruct (RowsModel.copy_rows _ _ _ _ _ _ _); [|discriminate]. inversion H; subst; auto.
  - destruct (find_et t _); [|discriminate]. destruct (find_rcol _ _); [discriminate|].
    destruct (_ && _); [discriminate|]. inversion H; subst; auto.
  - destruct (find_et t _); [|discriminate]. destruct (find_rcol a _); [|discriminate].
    destruct (find_rcol b _); [discriminate|]. inversion H; subst; auto.
  - inversion H; subst; auto.
  - inversion H; subst; auto.
Qed.

Lemma map_rename_eq a b l :
  map (fun t => if str_eqb (et_name t) a then mkEtable b (et_cols t) (et_fks t) (et_rows t) else t) l
  = map (rename_et a b) l.
Proof. reflexivity. Qed.

Lemma exec_frame d s d' n :
  d_fk d = false \/ is_drop s = false -> exec d s = EOk d' -> ~ In n (touches s) ->
  find_et n (d_tables d') = find_et n (d_tables d).
Proof.
  intros F H Hn.
  assert (forall m, In m (touches s) -> m <> n) as Hm by (intros m Hi X; subst; auto).
  clear Hn.
  destruct s; unfold RowsModel.exec in H; cbn [touches] in Hm.
  - destruct (d_intx d); inversion H; subst; reflexivity.
  - destruct (find_et (td_name t) (d_tables d)) eqn:E; [discriminate|]. inversion H; subst; simpl.
    rewrite find_et_app. simpl. destruct (find_et n (d_tables d)); [reflexivity|].
    destruct (str_eqb (td_name t) n) eqn:E1; [|reflexivity]. seq. exfalso. apply (Hm (td_name t)); simpl; auto.
  - destruct F as [F|F]; [|discriminate].
    destruct (find_et n0 (d_tables d)); [|discriminate]. rewrite F in H. inversion H; subst; simpl.
    apply find_et_remove_other. apply Hm; simpl; auto.
  - destruct (find_et a (d_tables d)); [|discriminate]. destruct (find_et b (d_tables d)); [discriminate|].
    inversion H; subst; simpl. rewrite map_rename_eq. apply find_et_rename_other; apply Hm; simpl; auto.
  - destruct (find_et to_t (d_tables d)) as [new|] eqn:E; [|discriminate].
    destruct (find_et from_t (d_tables d)); [|discriminate].
    destruct (negb _); [discriminate|]. destruct (targets_ok _ _); [|discriminate].
    destruct (RowsModel.copy_rows _ _ _ _ _ _ _); [|discriminate]. inversion H; subst; simpl.
    apply find_et_replace_other. simpl. apply find_et_name in E. rewrite E. apply Hm; simpl; auto.
  - destruct (find_et t (d_tables d)) as [u|] eqn:E; [|discriminate]. destruct (find_rcol _ _); [discriminate|].
    destruct (_ && _); [discriminate|]. inversion H; subst; simpl.
    apply find_et_replace_other. simpl. apply find_et_name in E. rewrite E. apply Hm; simpl; auto.
  - destruct (find_et t (d_tables d)) as [u|] eqn:E; [|discriminate]. destruct (find_rcol a _); [|discriminate].
    destruct (find_rcol b _); [discriminate|]. inversion H; subst; simpl.
    apply find_et_replace_other. simpl. apply find_et_name in E. rewrite E. apply Hm; simpl; auto.
  - inversion H; subst; reflexivity.
  - inversion H; subst; reflexivity.
Qed.

(** a statement list without pragma; enforcement off at the start, or no DROP TABLE in it *)
Lemma exec_all_frame l : forall d d' n,
  d_fk d = false \/ forallb (fun s => negb (is_drop s)) l = true ->
  forallb (fun s => negb (is_pragma s)) l = true ->
  exec_all d l = EOk d' -> (forall s, In s l -> ~ In n (touches s)) ->
  find_et n (d_tables d') = find_et n (d_tables d) /\ d_fk d' = d_fk d /\ d_intx d' = d_intx d.
Proof.
  induction l as [|s l IH]; intros d d' n F NP H Hn; simpl in *.
  - inversion H; subst; auto.
  - apply andb_true_iff in NP. destruct NP as [NP1 NP2].
    destruct (exec d s) as [d1|e] eqn:E; [|discriminate].
    assert (is_pragma s = false) as NPs by (destruct (is_pragma s); [discriminate|reflexivity]).
    destruct (exec_flags _ _ _ NPs E) as [F1 I1].
    destruct (IH d1 d' n) as [A [B C]]; auto.
    { destruct F as [F|F]; [left; congruence|right]. apply andb_true_iff in F. tauto. }
    rewrite A, B, C. split; [|split]; auto.
    eapply exec_frame; eauto. destruct F as [F|F]; [left; exact F|right].
    apply andb_true_iff in F. destruct F as [F _]. destruct (is_drop s); [discriminate|reflexivity].
Qed.

(** *** inversion of single statements *)
Lemma exec_create d t d' :
  exec d (SCreateTable t) = EOk d' ->
  find_et (td_name t) (d_tables d) = None /\
  d' = set_tables d (d_tables d ++ [mkEtable (td_name t) (td_cols t) (td_fks t) []]).
Proof.
  unfold RowsModel.exec. destruct (find_et _ _); [discriminate|]. intros H; inversion H; auto.
Qed.

Lemma exec_copy d to_t toC fromC from_t d' :
  exec d (SCopyRows to_t toC fromC from_t) = EOk d' ->
  exists new old rows,
    find_et to_t (d_tables d) = Some new /\ find_et from_t (d_tables d) = Some old /\
    copy_rows new old (et_rows old) toC fromC = EOk rows /\
    d' = set_tables d (replace_et (set_rows new (et_rows new ++ rows)) (d_tables d)).
Proof.
  unfold RowsModel.exec. destruct (find_et to_t _) as [new|]; [|discriminate].
  destruct (find_et from_t _) as [old|]; [|discriminate].
  destruct (negb _); [discriminate|]. destruct (targets_ok _ _); [|discriminate].
  destruct (RowsModel.copy_rows _ _ _ _ _ _ _) as [rows|] eqn:E; [|discriminate].
  intros H; inversion H. exists new, old, rows. auto.
Qed.

Lemma exec_drop_off d n d' :
  d_fk d = false -> exec d (SDropTable n) = EOk d' ->
  exists t, find_et n (d_tables d) = Some t /\ d' = set_tables d (remove_et n (d_tables d)).
Proof.
  intros F. unfold RowsModel.exec. destruct (find_et n _) as [t|]; [|discriminate]. rewrite F.
  intros H; inversion H. eauto.
Qed.

Lemma exec_rename d a b d' :
  exec d (SRenameTable a b) = EOk d' ->
  exists t, find_et a (d_tables d) = Some t /\ find_et b (d_tables d) = None /\
            d' = set_tables d (map (rename_et a b) (d_tables d)).
Proof.
  unfold RowsModel.exec. destruct (find_et a _) as [t|]; [|discriminate].
  destruct (find_et b _); [discriminate|]. intros H; inversion H. eauto.
Qed.

Lemma exec_all_indexes d t idx : exec_all d (addIndexes t idx) = EOk d.
Proof. unfold addIndexes. induction idx; simpl; auto. Qed.

(** *** the copy path of modifyTable *)
Definition newT (t : tdef) : tdef := set_td_idx (set_td_name t (new_prefix ++ td_name t)) [].

Definition copy_seg (t : tdef) (cp : list stmt) : list stmt :=
  addTable (newT t) ++ cp
  ++ [SDropTable (td_name t); SRenameTable (new_prefix ++ td_name t) (td_name t)]
  ++ addIndexes (td_name t) (td_idx t).

Lemma copy_seg_eq t cp :
  copy_seg t cp = SCreateTable (newT t) :: (cp ++ [SDropTable (td_name t); SRenameTable (new_prefix ++ td_name t) (td_name t)] ++ addIndexes (td_name t) (td_idx t)).
Proof. reflexivity. Qed.

Definition new_tab (t : tdef) : etable := mkEtable (new_prefix ++ td_name t) (td_cols t) (td_fks t) [].

Lemma copy_segment_effect d t cs cp d' told :
  d_fk d = false ->
  copyRows t (newT t) cs = POk cp ->
  find_et (td_name t) (d_tables d) = Some told ->
  exec_all d (copy_seg t cp) = EOk d' ->
  exists rows',
    find_et (td_name t) (d_tables d') = Some (mkEtable (td_name t) (td_cols t) (td_fks t) rows') /\
    match pairs cs (td_cols t) with
    | [] => rows' = []
    | ps => copy_rows (new_tab t) told (et_rows told) (map fst ps) (map snd ps) = EOk rows'
    end.
Proof.
  intros F CP FT H.
  apply copyRows_spec in CP. cbn [newT set_td_idx set_td_name td_cols td_name] in CP.
  rewrite copy_seg_eq in H. cbn [RowsModel.exec_all] in H.
  destruct (exec d (SCreateTable _)) as [d1|] eqn:E1; [|discriminate].
  apply exec_create in E1. cbn [newT td_name td_cols td_fks set_td_idx set_td_name] in E1.
  destruct E1 as [N1 ->].
  rewrite exec_all_app in H.
  change (mkEtable (new_prefix ++ td_name t) (td_cols t) (td_fks t) []) with (new_tab t) in *.
  pose proof (new_name_neq (td_name t)) as NEQ.
  set (d1 := set_tables d (d_tables d ++ [new_tab t])) in *.
  assert (find_et (new_prefix ++ td_name t) (d_tables d1) = Some (new_tab t)) as FN1.
  { unfold d1; simpl. rewrite find_et_app, N1. simpl. now rewrite str_eqb_refl. }
  assert (find_et (td_name t) (d_tables d1) = Some told) as FT1.
  { unfold d1; simpl. now rewrite find_et_app, FT. }
  assert (d_fk d1 = false) as F1 by exact F.
  (* the copy statement *)
  assert (exists rows' d2,
            exec_all d1 cp = EOk d2 /\ d_fk d2 = false /\
            find_et (new_prefix ++ td_name t) (d_tables d2)
              = Some (mkEtable (new_prefix ++ td_name t) (td_cols t) (td_fks t) rows') /\
            find_et (td_name t) (d_tables d2) = Some told /\
            match pairs cs (td_cols t) with
            | [] => rows' = []
            | ps => copy_rows (new_tab t) told (et_rows told) (map fst ps) (map snd ps) = EOk rows'
            end) as [rows' [d2 [E2 [F2 [FN2 [FT2 SPEC]]]]]].
  { subst cp. destruct (pairs cs (td_cols t)) as [|p ps] eqn:PS.
    - exists [], d1. simpl. auto.
    - cbn [RowsModel.exec_all].
      destruct (exec d1 (SCopyRows _ _ _ _)) as [d2|] eqn:E2.
      2:{ cbn [RowsModel.exec_all] in H. rewrite E2 in H. discriminate. }
      pose proof E2 as E2'. apply exec_copy in E2'.
      destruct E2' as [new [old [rows [A [B [C D]]]]]].
      rewrite FN1 in A. inversion A; subst new. rewrite FT1 in B. inversion B; subst old.
      exists rows, d2. split; [reflexivity|]. subst d2. simpl. split; [exact F|]. split; [|split].
      + change (new_prefix ++ td_name t) with (et_name (set_rows (new_tab t) rows)).
        erewrite find_et_replace_same; [reflexivity|]. simpl. exact FN1.
      + rewrite find_et_replace_other; [exact FT1|]. simpl. exact NEQ.
      + exact C. }
  rewrite E2 in H. cbn [app RowsModel.exec_all] in H.
  destruct (exec d2 (SDropTable _)) as [d3|] eqn:E3; [|discriminate].
  apply exec_drop_off in E3; [|exact F2]. destruct E3 as [t0 [_ ->]].
  destruct (exec _ (SRenameTable _ _)) as [d4|] eqn:E4; [|discriminate].
  apply exec_rename in E4. destruct E4 as [t1 [A [B ->]]]. simpl in A, B.
  rewrite find_et_remove_other in A by (intro X; apply NEQ; now symmetry).
  rewrite FN2 in A. inversion A; subst t1. clear A.
  change (addIndexes (td_name t) (td_idx t)) with (addIndexes (td_name t) (td_idx t)) in H.
  rewrite exec_all_indexes in H. inversion H; subst d'. clear H.
  exists rows'. split; [|exact SPEC]. simpl.
  assert (find_et (new_prefix ++ td_name t) (remove_et (td_name t) (d_tables d2))
          = Some (mkEtable (new_prefix ++ td_name t) (td_cols t) (td_fks t) rows')) as FN3.
  { rewrite find_et_remove_other by (intro X; apply NEQ; now symmetry). exact FN2. }
  exact (find_et_rename _ _ _ _ FN3 B).
Qed.

(** *** values on the copy path *)
Definition src_name (x : expr) : str := match x with ECol n | EIfNull n _ => n end.

(** what the paired expression yields for the old value [v] *)
Definition src_apply (x : expr) (v : value) : value :=
  match x with
  | ECol _ => v
  | EIfNull _ d => if is_null v then d else v
  end.

Lemma eval_expr_same old r ty x cold v :
  find_rcol (src_name x) (et_cols old) = Some cold -> rc_type cold = ty ->
  get r (src_name x) = Some v ->
  eval_expr old r ty x = EOk (src_apply x v).
Proof.
  intros FC TY G. destruct x as [n|n d]; simpl in *; unfold RowsModel.eval_expr; rewrite FC, G, TY.
  - now rewrite conv_same.
  - destruct (is_null v); [reflexivity|]. now rewrite conv_same.
Qed.

Lemma copy_row_value old r cs cols p c :
  NoDup (map rc_name cols) ->
  copy_row old r cols (map fst (pairs cs cols)) (map snd (pairs cs cols)) = EOk p ->
  In c cols -> rc_gen c = false ->
  exists v', get p (rc_name c) = Some v' /\
             (rc_notnull c = true -> v' <> VNull) /\
             match kept cs c with
             | Some x => eval_expr old r (rc_type c) x = EOk v'
             | None => v' = rc_defval c
             end.
Proof.
  intros ND H Hc G. destruct (copy_row_spec _ _ _ _ _ _ H) as [NM SP].
  destruct (SP c Hc G) as [v' [Hin [CV NN]]]. exists v'. split; [|split; [exact NN|]].
  - apply get_in_nodup; [|exact Hin]. rewrite NM. now apply filter_names_nodup.
  - rewrite col_value_pairs in CV by assumption. destruct (kept cs c); [exact CV|]. now inversion CV.
Qed.

(** rows of the rebuilt table, position by position *)
Lemma copy_path_rows t cs told rows' p0 ps0 :
  NoDup (map rc_name (td_cols t)) ->
  pairs cs (td_cols t) = p0 :: ps0 ->
  copy_rows (new_tab t) told (et_rows told) (map fst (p0 :: ps0)) (map snd (p0 :: ps0)) = EOk rows' ->
  length rows' = length (et_rows told) /\
  forall i r r', nth_error (et_rows told) i = Some r -> nth_error rows' i = Some r' ->
    forall c, In c (td_cols t) -> rc_gen c = false ->
      exists v', get r' (rc_name c) = Some v' /\
                 (rc_notnull c = true -> v' <> VNull) /\
                 match kept cs c with
                 | Some x => eval_expr told r (rc_type c) x = EOk v'
                 | None => v' = rc_defval c
                 end.
Proof.
  intros ND PS H. rewrite <- PS in H.
  destruct (copy_rows_spec _ _ _ _ _ _ H) as [L S]. split; [exact L|].
  intros i r r' Hr Hr' c Hc G. destruct (S i r r' Hr Hr') as [p [CP ->]]. simpl in CP.
  destruct (copy_row_value _ _ _ _ _ _ ND CP Hc G) as [v' [G' R]]. exists v'. split; [|exact R].
  unfold with_generated. now apply get_app_some.
Qed.

(** *** the ALTER path *)
Definition renamed_cols (cs : list tchange) : list str :=
  flat_map (fun c => match c with RenameColumn a b => [a; b] | _ => [] end) cs.

Definition rows_ext (excl : list str) (rows rows' : list row) : Prop :=
  Forall2 (fun r r' => forall c v, ~ In c excl -> get r c = Some v -> get r' c = Some v) rows rows'.

Lemma rows_ext_refl excl rows : rows_ext excl rows rows.
Proof. induction rows; constructor; auto. Qed.

Lemma rows_ext_trans e1 e2 a b c :
  rows_ext e1 a b -> rows_ext e2 b c -> rows_ext (e1 ++ e2) a c.
Proof.
  intros H. revert c. induction H as [|r r' a b Hr H IH]; intros c H2; inversion H2; subst; constructor.
  - intros k v Hk G. apply H3; [intro X; apply Hk; apply in_or_app; auto|].
    apply Hr; [intro X; apply Hk; apply in_or_app; auto|exact G].
  - apply IH; assumption.
Qed.

Lemma rows_ext_weaken e1 e2 a b : (forall c, In c e1 -> In c e2) -> rows_ext e1 a b -> rows_ext e2 a b.
Proof.
  intros W H. induction H as [|r r' a b Hr H IH]; constructor; [|exact IH].
  intros k v Hk G. apply Hr; auto.
Qed.

Lemma get_rename_other (r : row) a b c v :
  c <> a -> c <> b -> get r c = Some v ->
  get (map (fun kv : str * value => (if str_eqb (fst kv) a then b else fst kv, snd kv)) r) c = Some v.
Proof.
  intros Ha Hb. induction r as [|[k w] r IH]; simpl; [discriminate|].
  destruct (str_eqb k a) eqn:E.
  - seq. subst k. destruct (str_eqb a c) eqn:E1; [seq; congruence|].
    destruct (str_eqb b c) eqn:E2; [seq; congruence|]. exact IH.
  - destruct (str_eqb k c); auto.
Qed.

Lemma alter_segment_effect n : forall cs l d d' told,
  alterTable n cs = POk l ->
  find_et n (d_tables d) = Some told ->
  exec_all d l = EOk d' ->
  exists tnew, find_et n (d_tables d') = Some tnew /\
               rows_ext (renamed_cols cs) (et_rows told) (et_rows tnew).
Proof.
  induction cs as [|c cs IH]; intros l d d' told A FT H; simpl in A.
  - inversion A; subst. simpl in H. inversion H; subst. exists told. split; [exact FT|apply rows_ext_refl].
  - destruct c as [c0|m|m k|a b|i|i|a b|tg]; try discriminate;
      destruct (alterTable n cs) as [l'|e] eqn:A'; try discriminate; inversion A; subst l; clear A.
    + (* AddColumn *)
      cbn [app RowsModel.exec_all] in H.
      destruct (exec d (SAddColumn n c0)) as [d1|] eqn:E1; [|discriminate].
      unfold RowsModel.exec in E1. rewrite FT in E1.
      destruct (find_rcol (rc_name c0) (et_cols told)); [discriminate|].
      destruct (_ && _); [discriminate|]. inversion E1; subst d1; clear E1.
      set (t1 := mkEtable (et_name told) (et_cols told ++ [c0]) (et_fks told)
                   (map (fun r => r ++ [(rc_name c0, if rc_gen c0 then genv n c0 r else rc_defval c0)]) (et_rows told))) in *.
      assert (find_et n (d_tables (set_tables d (replace_et t1 (d_tables d)))) = Some t1) as F1.
      { simpl. pose proof (find_et_name _ _ _ FT) as NM. rewrite <- NM.
        change (et_name told) with (et_name t1). eapply find_et_replace_same. simpl. rewrite NM. exact FT. }
      destruct (IH _ _ _ _ eq_refl F1 H) as [tnew [FN R]]. exists tnew. split; [exact FN|].
      cbn [renamed_cols flat_map app]. fold (renamed_cols cs).
      apply (rows_ext_trans [] _ _ (et_rows t1)); [|exact R].
      simpl. clear. induction (et_rows told); constructor; auto.
      intros k v _ G. now apply get_app_some.
    + (* RenameColumn *)
      cbn [app RowsModel.exec_all] in H.
      destruct (exec d (SRenameColumn n a b)) as [d1|] eqn:E1; [|discriminate].
      unfold RowsModel.exec in E1. rewrite FT in E1.
      destruct (find_rcol a (et_cols told)); [|discriminate].
      destruct (find_rcol b (et_cols told)); [discriminate|]. inversion E1; subst d1; clear E1.
      match type of H with context [replace_et ?T _] => set (t1 := T) in * end.
      assert (find_et n (d_tables (set_tables d (replace_et t1 (d_tables d)))) = Some t1) as F1.
      { simpl. pose proof (find_et_name _ _ _ FT) as NM. rewrite <- NM.
        change (et_name told) with (et_name t1). eapply find_et_replace_same. simpl. rewrite NM. exact FT. }
      destruct (IH _ _ _ _ eq_refl F1 H) as [tnew [FN R]]. exists tnew. split; [exact FN|].
      cbn [renamed_cols flat_map]. fold (renamed_cols cs).
      apply (rows_ext_trans [a; b] _ _ (et_rows t1)); [|exact R].
      simpl. clear. induction (et_rows told); constructor; auto.
      intros k v Hk G. apply get_rename_other; auto; intro X; apply Hk; simpl; auto.
    + (* AddIndex *)
      cbn [app RowsModel.exec_all] in H. cbn [RowsModel.exec] in H.
      destruct (IH _ _ _ _ eq_refl FT H) as [tnew [FN R]]. exists tnew. split; [exact FN|exact R].
    + (* DropIndex *)
      cbn [app RowsModel.exec_all] in H. cbn [RowsModel.exec] in H.
      destruct (IH _ _ _ _ eq_refl FT H) as [tnew [FN R]]. exists tnew. split; [exact FN|exact R].
    + (* RenameIndex *)
      cbn [app RowsModel.exec_all] in H. cbn [RowsModel.exec] in H.
      destruct (IH _ _ _ _ eq_refl FT H) as [tnew [FN R]]. exists tnew. split; [exact FN|exact R].
Qed.

(** *** whole plans *)
Definition touched (c : schange) : list str :=
  match c with
  | AddTable t | DropTable t => [td_name t]
  | ModifyTable t _ => [td_name t; new_prefix ++ td_name t]
  | RenameTable a b => [a; b]
  | UnsupportedChange => []
  end.

Lemma alterTable_touches n cs l :
  alterTable n cs = POk l -> forall s, In s l -> forall m, In m (touches s) -> m = n.
Proof.
  revert l; induction cs as [|c cs IH]; intros l A s Hs m Hm; simpl in A.
  - inversion A; subst. contradiction.
  - destruct c as [c0|x|x k|a b|i|i|a b|tg]; try discriminate;
      destruct (alterTable n cs) as [l'|e]; try discriminate; inversion A; subst l; clear A;
      simpl in Hs;
      repeat (destruct Hs as [Hs|Hs]; [subst s; simpl in Hm; intuition|]); eauto.
Qed.

Lemma addIndexes_touches t idx s : In s (addIndexes t idx) -> touches s = [].
Proof. unfold addIndexes. rewrite in_map_iff. intros [i [<- _]]. reflexivity. Qed.

Lemma seg_touches c l b :
  seg c = POk (l, b) -> forall s, In s l -> forall m, In m (touches s) -> In m (touched c).
Proof.
  destruct c as [t|t|t cs|x y|].
  - cbn [seg]. intros H; inversion H; subst. intros s [Hs|Hs] m Hm.
    + subst s. exact Hm.
    + rewrite (addIndexes_touches _ _ _ Hs) in Hm. contradiction.
  - cbn [seg]. intros H; inversion H; subst. intros s [Hs|[]] m Hm. subst s. exact Hm.
  - rewrite seg_modify. destruct (alterable cs).
    + destruct (alterTable _ cs) as [l0|e] eqn:E; [|discriminate]. intros H; inversion H; subst.
      intros s Hs m Hm. rewrite (alterTable_touches _ _ _ E s Hs m Hm). simpl; auto.
    + destruct (copyRows _ _ cs) as [cp|e] eqn:E; [|discriminate]. intros H; inversion H; subst. clear H.
      apply copyRows_spec in E. cbn [set_td_idx set_td_name td_cols td_name] in E.
      intros s Hs m Hm. cbn [addTable set_td_idx set_td_name td_idx td_name addIndexes map app] in Hs.
      destruct Hs as [Hs|Hs]; [subst s; simpl in Hm; simpl; tauto|].
      apply in_app_or in Hs. destruct Hs as [Hs|Hs].
      * subst cp. destruct (pairs cs (td_cols t)); [contradiction|]. destruct Hs as [Hs|[]]. subst s.
        simpl in Hm. simpl. tauto.
      * destruct Hs as [Hs|[Hs|Hs]]; try (subst s; simpl in Hm; simpl; tauto).
        rewrite (addIndexes_touches _ _ _ Hs) in Hm. contradiction.
  - cbn [seg]. intros H; inversion H; subst. intros s [Hs|[]] m Hm. subst s. exact Hm.
  - discriminate.
Qed.

(** the exact effect of the plan on the rows of a modified table *)
Definition kept_rows (t : tdef) (m : list tchange) (told tnew : etable) : Prop :=
  if alterable m then rows_ext (renamed_cols m) (et_rows told) (et_rows tnew)
  else
    et_cols tnew = td_cols t /\
    match pairs m (td_cols t) with
    | [] => et_rows tnew = []
    | _ =>
      length (et_rows tnew) = length (et_rows told) /\
      forall i r r', nth_error (et_rows told) i = Some r -> nth_error (et_rows tnew) i = Some r' ->
        forall c, In c (td_cols t) -> rc_gen c = false ->
          exists v', get r' (rc_name c) = Some v' /\
                     (rc_notnull c = true -> v' <> VNull) /\
                     match kept m c with
                     | Some x => eval_expr told r (rc_type c) x = EOk v'
                     | None => v' = rc_defval c
                     end
    end.

Lemma seg_modify_effect t m l b d d' told :
  seg (ModifyTable t m) = POk (l, b) ->
  d_fk d = false \/ b = false ->
  NoDup (map rc_name (td_cols t)) ->
  find_et (td_name t) (d_tables d) = Some told ->
  exec_all d l = EOk d' ->
  exists tnew, find_et (td_name t) (d_tables d') = Some tnew /\ kept_rows t m told tnew.
Proof.
  rewrite seg_modify. unfold kept_rows. destruct (alterable m).
  - destruct (alterTable _ m) as [l0|e] eqn:E; [|discriminate]. intros H; inversion H; subst. intros _ _ FT X.
    eapply alter_segment_effect; eauto.
  - destruct (copyRows _ _ m) as [cp|e] eqn:E; [|discriminate]. intros H; inversion H; subst. clear H.
    intros [F|F] ND FT X; [|discriminate].
    destruct (copy_segment_effect d t m cp d' told F E FT X) as [rows' [FN SP]].
    eexists. split; [exact FN|]. simpl. split; [reflexivity|].
    destruct (pairs m (td_cols t)) as [|p0 ps0] eqn:PS; [exact SP|].
    eapply copy_path_rows; eauto.
Qed.

Lemma segs_cons c cs l b :
  segs (c :: cs) = POk (l, b) ->
  exists l0 b0 l1 b1, seg c = POk (l0, b0) /\ segs cs = POk (l1, b1) /\ l = l0 ++ l1 /\ b = b0 || b1.
Proof.
  simpl. destruct (seg c) as [[l0 b0]|e]; [|discriminate].
  destruct (segs cs) as [[l1 b1]|e]; [|discriminate]. intros H; inversion H; subst.
  exists l0, b0, l1, b1. auto.
Qed.

Lemma nodup_app_inv {A} (a b : list A) :
  NoDup (a ++ b) -> NoDup a /\ NoDup b /\ (forall x, In x a -> ~ In x b).
Proof.
  induction a as [|x a IH]; simpl; intros H.
  - repeat split; auto. constructor.
  - inversion H; subst. destruct (IH H3) as [A1 [A2 A3]]. repeat split; auto.
    + constructor; auto. intro X. apply H2. apply in_or_app; auto.
    + intros y [Hy|Hy]; [subst y; intro X; apply H2; apply in_or_app; auto|auto].
Qed.

Lemma exec_all_flags l : forall d d',
  forallb (fun s => negb (is_pragma s)) l = true -> exec_all d l = EOk d' ->
  d_fk d' = d_fk d /\ d_intx d' = d_intx d.
Proof.
  induction l as [|s l IH]; intros d d' NP H; simpl in *.
  - inversion H; subst; auto.
  - apply andb_true_iff in NP. destruct NP as [NP1 NP2].
    destruct (exec d s) as [d1|e] eqn:E; [|discriminate].
    assert (is_pragma s = false) as NPs by (destruct (is_pragma s); [discriminate|reflexivity]).
    destruct (exec_flags _ _ _ NPs E) as [F1 I1]. destruct (IH _ _ NP2 H) as [A B]. split; congruence.
Qed.

Lemma plan_general : forall cs l b d d',
  segs cs = POk (l, b) ->
  d_fk d = false \/ b = false ->
  NoDup (flat_map touched cs) ->
  exec_all d l = EOk d' ->
  d_fk d' = d_fk d /\ d_intx d' = d_intx d /\
  (forall n, ~ In n (flat_map touched cs) -> find_et n (d_tables d') = find_et n (d_tables d)) /\
  (forall t m told, In (ModifyTable t m) cs -> NoDup (map rc_name (td_cols t)) ->
     find_et (td_name t) (d_tables d) = Some told ->
     exists tnew, find_et (td_name t) (d_tables d') = Some tnew /\ kept_rows t m told tnew).
Proof.
  induction cs as [|c cs IH]; intros l b d d' S F ND X.
  - simpl in S. inversion S; subst. simpl in X. inversion X; subst.
    repeat split; auto. intros t m told [].
  - apply segs_cons in S. destruct S as [l0 [b0 [l1 [b1 [S0 [S1 [-> ->]]]]]]].
    rewrite exec_all_app in X. destruct (exec_all d l0) as [d1|] eqn:X0; [|discriminate].
    simpl in ND. destruct (nodup_app_inv _ _ ND) as [ND0 [ND1 DJ]].
    assert (d_fk d = false \/ forallb (fun s => negb (is_drop s)) l0 = true) as F0.
    { destruct F as [F|F]; [left; exact F|right]. apply orb_false_iff in F. destruct F; subst.
      eapply seg_drop_skip; eauto. }
    pose proof (seg_no_pragma _ _ _ S0) as NP0.
    destruct (exec_all_flags _ _ _ NP0 X0) as [FK1 TX1].
    assert (forall n, ~ In n (touched c) -> find_et n (d_tables d1) = find_et n (d_tables d)) as FR0.
    { intros n Hn. eapply exec_all_frame; eauto.
      intros s Hs Hm. apply Hn. eapply seg_touches; eauto. }
    assert (d_fk d1 = false \/ b1 = false) as F1.
    { destruct F as [F|F]; [left; congruence|right]. apply orb_false_iff in F. tauto. }
    destruct (IH _ _ _ _ S1 F1 ND1 X) as [FK2 [TX2 [FR1 EF1]]].
    split; [congruence|]. split; [congruence|]. split.
    + intros n Hn. rewrite FR1, FR0; auto; intro Y; apply Hn; apply in_or_app; auto.
    + intros t m told [Hc|Hc] NDc FT.
      * subst c. assert (d_fk d = false \/ b0 = false) as Fb.
        { destruct F as [F|F]; [left; exact F|right]. apply orb_false_iff in F. tauto. }
        destruct (seg_modify_effect _ _ _ _ _ _ _ S0 Fb NDc FT X0) as [tnew [FN K]].
        exists tnew. split; [|exact K]. rewrite FR1; [exact FN|].
        apply DJ. simpl. auto.
      * assert (In (td_name t) (flat_map touched cs)) as Hin.
        { apply in_flat_map. exists (ModifyTable t m). split; [exact Hc|simpl; auto]. }
        apply EF1; auto. rewrite FR0; [exact FT|]. intro Y. exact (DJ _ Y Hin).
Qed.

(** *** the whole plan with its bracket *)
Definition pragma_effective (d : db) : Prop := d_fk d = false \/ d_intx d = false.

Lemma apply_general cs p d d' :
  PlanChanges cs = POk p -> pragma_effective d -> NoDup (flat_map touched cs) ->
  exec_all d p = EOk d' ->
  (forall n, ~ In n (flat_map touched cs) -> find_et n (d_tables d') = find_et n (d_tables d)) /\
  (forall t m told, In (ModifyTable t m) cs -> NoDup (map rc_name (td_cols t)) ->
     find_et (td_name t) (d_tables d) = Some told ->
     exists tnew, find_et (td_name t) (d_tables d') = Some tnew /\ kept_rows t m told tnew).
Proof.
  rewrite PlanChanges_segs. destruct (segs cs) as [[l b]|e] eqn:S; [|discriminate].
  destruct b; intros P PE ND X; inversion P; subst p; clear P.
  - cbn [RowsModel.exec_all] in X.
    destruct (exec d (SPragmaFK false)) as [d0|] eqn:E0; [|discriminate].
    assert (d_fk d0 = false /\ d_tables d0 = d_tables d) as [F0 T0].
    { unfold RowsModel.exec in E0. destruct (d_intx d) eqn:I; inversion E0; subst; simpl; auto.
      destruct PE as [PE|PE]; [auto|congruence]. }
    rewrite exec_all_app in X. destruct (exec_all d0 l) as [d1|] eqn:X1; [|discriminate].
    cbn [RowsModel.exec_all] in X. destruct (exec d1 (SPragmaFK true)) as [d2|] eqn:E2; [|discriminate].
    inversion X; subst d2; clear X.
    assert (d_tables d' = d_tables d1) as T2.
    { unfold RowsModel.exec in E2. destruct (d_intx d1); inversion E2; subst; reflexivity. }
    destruct (plan_general cs l true d0 d1 S (or_introl F0) ND X1) as [_ [_ [FR EF]]].
    rewrite T2. rewrite <- T0. split; [exact FR|exact EF].
  - destruct (plan_general cs l false d d' S (or_intror eq_refl) ND X) as [_ [_ [FR EF]]]. split; assumption.
Qed.

(** *** the values, column by column *)
Definition ifnull_wrapped (m : list tchange) (c : rcol) : bool :=
  match kept m c with Some (EIfNull _ _) => true | _ => false end.

Lemma find_change_in col cs : forall acc ch,
  find_change col cs acc = POk (Some ch) -> acc = Some ch \/ In ch cs.
Proof.
  induction cs as [|c cs IH]; intros acc ch H; simpl in H.
  - inversion H; auto.
  - assert (forall acc', find_change col cs acc' = POk (Some ch) -> acc' = Some c \/ acc' = acc ->
                         acc = Some ch \/ In ch (c :: cs)) as K.
    { intros acc' H' [Ha|Ha]; subst acc'; apply IH in H'; destruct H' as [H'|H']; simpl; auto.
      inversion H'; subst; auto. }
    destruct c as [c0|n|n k|a b|i|i|a b|tg];
      try (eapply K; [exact H|auto]).
    + destruct (str_eqb (rc_name c0) col); [destruct acc; [discriminate|]|]; eapply K; eauto.
    + destruct (str_eqb n col); [discriminate|]. eapply K; eauto.
    + destruct (str_eqb n col); [destruct acc; [discriminate|]|]; eapply K; eauto.
    + destruct (str_eqb b col); [destruct acc; [discriminate|]|]; eapply K; eauto.
Qed.

Lemma alterable_no_modify m n k : alterable m = true -> ~ In (ModifyColumn n k) m.
Proof.
  induction m as [|c m IH]; cbn [alterable In]; intros A H; [exact H|].
  destruct H as [H|H].
  - subst c. discriminate.
  - destruct c as [c0|x|x y|a b|i|i|a b|tg]; try discriminate; try (now apply IH).
    + destruct (rc_hasidx c0 || rc_hasfk c0); [discriminate|].
      destruct (rc_dkind c0) as [|[]|]; try discriminate;
        (destruct (rc_gen c0 && rc_stored c0); [discriminate|now apply IH]).
    + destruct (has_prefix sqlite_autoindex i); [discriminate|now apply IH].
Qed.

Lemma alterable_no_wrap m c : alterable m = true -> ifnull_wrapped m c = false.
Proof.
  intros A. unfold ifnull_wrapped, kept. destruct (rc_gen c); [reflexivity|].
  destruct (find_change (rc_name c) m None) as [[ch|]|e] eqn:E; try reflexivity.
  destruct ch; try reflexivity.
  apply find_change_in in E. destruct E as [E|E]; [discriminate|].
  exfalso. eapply alterable_no_modify; eauto.
Qed.

Lemma kept_not_renamed m c x :
  kept m c = Some x -> ~ In (rc_name c) (renamed_cols m) ->
  x = ECol (rc_name c) \/ (x = EIfNull (rc_name c) (rc_defval c) /\ rc_notnull c = true /\ has_default c = true).
Proof.
  unfold kept. destruct (rc_gen c); [discriminate|].
  destruct (find_change (rc_name c) m None) as [[ch|]|e] eqn:E; try discriminate.
  - destruct ch; try discriminate.
    + intros H _. inversion H; subst.
      destruct (rc_notnull c); [|auto]. destruct (has_default c); [|auto].
      destruct (change_is _ _); simpl; auto.
    + intros H NR. exfalso. apply NR.
      pose proof (find_change_rename _ _ _ _ _ E) as [R|R]; [discriminate|]. subst to.
      apply find_change_in in E. destruct E as [E|E]; [discriminate|].
      unfold renamed_cols. apply in_flat_map. eexists. split; [exact E|]. simpl; auto.
  - intros H _. inversion H; auto.
Qed.

Lemma Forall2_nth {A B} (R : A -> B -> Prop) a b :
  Forall2 R a b -> forall i x y, nth_error a i = Some x -> nth_error b i = Some y -> R x y.
Proof.
  induction 1; intros [|i] u w Hu Hw; simpl in *; try discriminate.
  - inversion Hu; inversion Hw; subst; assumption.
  - eauto.
Qed.

Lemma Forall2_len {A B} (R : A -> B -> Prop) a b : Forall2 R a b -> length a = length b.
Proof. induction 1; simpl; congruence. Qed.

Lemma kept_rows_values t m told tnew :
  kept_rows t m told tnew ->
  alterable m = true \/ pairs m (td_cols t) <> [] ->
  length (et_rows tnew) = length (et_rows told) /\
  forall i r r', nth_error (et_rows told) i = Some r -> nth_error (et_rows tnew) i = Some r' ->
    forall c cold v, In c (td_cols t) -> rc_gen c = false -> kept m c <> None ->
      ~ In (rc_name c) (renamed_cols m) ->
      find_rcol (rc_name c) (et_cols told) = Some cold -> rc_type cold = rc_type c ->
      get r (rc_name c) = Some v ->
      get r' (rc_name c) = Some (if ifnull_wrapped m c && is_null v then rc_defval c else v).
Proof.
  unfold kept_rows. destruct (alterable m) eqn:A.
  - intros R _. split; [symmetry; eapply Forall2_len; exact R|].
    intros i r r' Hr Hr' c cold v Hc G K NR FC TY GV.
    rewrite alterable_no_wrap by exact A. simpl.
    exact (Forall2_nth _ _ _ R i r r' Hr Hr' (rc_name c) v NR GV).
  - intros [_ R] [X|X]; [discriminate|].
    destruct (pairs m (td_cols t)) as [|p0 ps0]; [congruence|].
    destruct R as [L S]. split; [exact L|].
    intros i r r' Hr Hr' c cold v Hc G K NR FC TY GV.
    destruct (S i r r' Hr Hr' c Hc G) as [v' [G' [_ KV]]].
    destruct (kept m c) as [x|] eqn:KE; [|congruence].
    unfold ifnull_wrapped. rewrite KE.
    destruct (kept_not_renamed _ _ _ KE NR) as [->|[-> _]].
    + rewrite (eval_expr_same told r (rc_type c) (ECol (rc_name c)) cold v FC TY GV) in KV.
      inversion KV; subst v'. simpl. exact G'.
    + rewrite (eval_expr_same told r (rc_type c) (EIfNull (rc_name c) (rc_defval c)) cold v FC TY GV) in KV.
      inversion KV; subst v'. simpl. exact G'.
Qed.

(** ** the C05 lemmas *)

(** does the plan carry the rows of the modified table over?  ALTER path: always; copy path:
    iff the INSERT ... SELECT is planned, i.e. at least one column is paired ([len(toC) > 0]) *)
Definition copies_rows (t : tdef) (m : list tchange) : bool :=
  alterable m || match pairs m (td_cols t) with [] => false | _ => true end.

Definition wf_changes (cs : list schange) : Prop := NoDup (flat_map touched cs).

Lemma C05_rows_preserved_except_lemma :
  forall d cs p d',
  wf_changes cs -> pragma_effective d ->
  PlanChanges cs = POk p -> exec_all d p = EOk d' ->
  forall t m told,
  In (ModifyTable t m) cs -> NoDup (map rc_name (td_cols t)) ->
  find_et (td_name t) (d_tables d) = Some told ->
  exists tnew, find_et (td_name t) (d_tables d') = Some tnew /\
    (copies_rows t m = true ->
     length (et_rows tnew) = length (et_rows told) /\
     forall i r r', nth_error (et_rows told) i = Some r -> nth_error (et_rows tnew) i = Some r' ->
       forall c cold v, In c (td_cols t) -> rc_gen c = false -> kept m c <> None ->
         ~ In (rc_name c) (renamed_cols m) ->
         find_rcol (rc_name c) (et_cols told) = Some cold -> rc_type cold = rc_type c ->
         get r (rc_name c) = Some v ->
         get r' (rc_name c) = Some (if ifnull_wrapped m c && is_null v then rc_defval c else v)) /\
    (copies_rows t m = false -> et_rows tnew = []).
Proof.
  intros d cs p d' WF PE P X t m told Hin ND FT.
  destruct (apply_general cs p d d' P PE WF X) as [_ EF].
  destruct (EF t m told Hin ND FT) as [tnew [FN K]]. exists tnew. split; [exact FN|]. split.
  - intros CR. apply kept_rows_values; [exact K|].
    unfold copies_rows in CR. destruct (alterable m); [auto|right].
    destruct (pairs m (td_cols t)); [discriminate|congruence].
  - intros CR. unfold copies_rows in CR. unfold kept_rows in K.
    destruct (alterable m); [discriminate|]. destruct K as [_ K].
    destruct (pairs m (td_cols t)); [exact K|discriminate].
Qed.

Lemma C05_others_untouched_lemma :
  forall d cs p d',
  wf_changes cs -> pragma_effective d ->
  PlanChanges cs = POk p -> exec_all d p = EOk d' ->
  forall n, ~ In n (flat_map touched cs) -> find_et n (d_tables d') = find_et n (d_tables d).
Proof.
  intros d cs p d' WF PE P X. exact (proj1 (apply_general cs p d d' P PE WF X)).
Qed.

(** new NOT NULL columns never hold NULL after the copy, and a column the change set adds holds
    its default (copy path) *)
Lemma C05_copy_new_columns_lemma :
  forall d cs p d',
  wf_changes cs -> pragma_effective d ->
  PlanChanges cs = POk p -> exec_all d p = EOk d' ->
  forall t m told tnew,
  In (ModifyTable t m) cs -> NoDup (map rc_name (td_cols t)) -> alterable m = false ->
  find_et (td_name t) (d_tables d) = Some told ->
  find_et (td_name t) (d_tables d') = Some tnew ->
  et_cols tnew = td_cols t /\
  forall r' c, In r' (et_rows tnew) -> In c (td_cols t) -> rc_gen c = false ->
    exists v', get r' (rc_name c) = Some v' /\ (rc_notnull c = true -> v' <> VNull) /\
               (kept m c = None -> v' = rc_defval c).
Proof.
  intros d cs p d' WF PE P X t m told tnew Hin ND A FT FN.
  destruct (apply_general cs p d d' P PE WF X) as [_ EF].
  destruct (EF t m told Hin ND FT) as [tnew' [FN' K]]. rewrite FN in FN'. inversion FN'; subst tnew'.
  unfold kept_rows in K. rewrite A in K. destruct K as [C K]. split; [exact C|].
  intros r' c Hr Hc G. destruct (pairs m (td_cols t)); [rewrite K in Hr; contradiction|].
  destruct K as [L S]. apply In_nth_error in Hr. destruct Hr as [i Hi].
  assert (i < length (et_rows told)) as Hlt by (rewrite <- L; apply nth_error_Some; congruence).
  destruct (nth_error (et_rows told) i) as [r|] eqn:Hr; [|apply nth_error_None in Hr; lia].
  destruct (S i r r' Hr Hi c Hc G) as [v' [G' [NN KV]]]. exists v'. split; [exact G'|]. split; [exact NN|].
  intros KN. now rewrite KN in KV.
Qed.

End EngineProofs.

(** the planner-level pairing: toC and fromC have the same length, and position by position
    the target is a plain column of the new table and the source is the expression [kept]
    assigns to that column *)
Lemma C05_copy_pairing_lemma :
  forall f t cs l,
  copyRows f t cs = POk l ->
  l = [] \/
  exists toC fromC,
    l = [SCopyRows (td_name t) toC fromC (td_name f)] /\ toC <> [] /\
    length toC = length fromC /\
    forall i n, nth_error toC i = Some n ->
      exists c x, In c (td_cols t) /\ rc_gen c = false /\ rc_name c = n /\
                  kept cs c = Some x /\ nth_error fromC i = Some x.
Proof.
  intros f t cs l H. apply copyRows_spec in H.
  destruct (pairs cs (td_cols t)) as [|p0 ps0] eqn:PS; [left; exact H|right].
  exists (map fst (p0 :: ps0)), (map snd (p0 :: ps0)). split; [exact H|]. split; [discriminate|].
  split; [now rewrite !map_length|].
  intros i n Hn. rewrite <- PS in *. rewrite nth_error_map in Hn.
  destruct (nth_error (pairs cs (td_cols t)) i) as [[n' x]|] eqn:E; [|discriminate].
  simpl in Hn. inversion Hn; subst n'.
  pose proof (nth_error_In _ _ E) as Hin. unfold pairs in Hin. apply in_flat_map in Hin.
  destruct Hin as [c [Hc Hx]]. destruct (kept cs c) as [x'|] eqn:K; [|contradiction].
  destruct Hx as [Hx|[]]. inversion Hx; subst.
  exists c, x. repeat split; auto.
  - unfold kept in K. destruct (rc_gen c); [discriminate|reflexivity].
  - rewrite nth_error_map, E. reflexivity.
Qed.
