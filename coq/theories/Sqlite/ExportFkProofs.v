(** C03: fillConstName on the foreign keys the planner prints (reFKT part). *)
From Coq Require Import List NArith Bool Arith Lia.
From Atlas Require Import Base.Bytes Sqlite.ExportModel Sqlite.ExportProofs Sqlite.ExportPrint Sqlite.ExportPrintProofs.
Import ListNotations.
Local Open Scope N_scope.

(** ** the printed form: CONSTRAINT `sym` FOREIGN KEY (`c1`, `c2`) REFERENCES `rt` (`r1`, `r2`) *)
Fixpoint idents_text (l : list bytes) : bytes :=
  match l with
  | [] => []
  | [n] => bt_ident n
  | n :: l' => bt_ident n ++ [ch_comma; ch_sp] ++ idents_text l'
  end.
Definition print_named_fk (sym : bytes) (cols : list bytes) (rt : bytes) (rcols : list bytes) : bytes :=
  K_CONSTRAINT ++ [ch_sp] ++ bt_ident sym ++ [ch_sp] ++ K_FOREIGN ++ [ch_sp] ++ K_KEY ++ [ch_sp] ++
  [ch_lp] ++ idents_text cols ++ [ch_rp] ++ [ch_sp] ++ K_REFERENCES ++ [ch_sp] ++ bt_ident rt ++ [ch_sp] ++
  [ch_lp] ++ idents_text rcols ++ [ch_rp].

Lemma is_cols_ch_bt : is_cols_ch ch_bt = true. Proof. reflexivity. Qed.

Lemma idents_cols_ch l : Forall name_ok l -> forallb is_cols_ch (idents_text l) = true.
Proof.
  induction 1 as [|n l [Hne Hw] Hl IH]; [reflexivity|].
  assert (forallb is_cols_ch (bt_ident n) = true) as Hn.
  { unfold bt_ident. cbn [forallb]. rewrite forallb_app. cbn [forallb]. rewrite is_cols_ch_bt. cbn [andb].
    rewrite andb_true_r. clear -Hw. induction n as [|c n IH]; [reflexivity|]. simpl in *.
    apply andb_true_iff in Hw. destruct Hw as [Hc Hw]. unfold is_cols_ch. rewrite Hc, !orb_true_r. cbn [andb]. exact (IH Hw). }
  destruct l as [|n2 l]; [exact Hn|].
  change (idents_text (n :: n2 :: l)) with (bt_ident n ++ [ch_comma; ch_sp] ++ idents_text (n2 :: l)).
  rewrite !forallb_app, Hn, IH. reflexivity.
Qed.

Lemma paren_cols_printed l r : l <> [] -> Forall name_ok l ->
  paren_cols (ch_lp :: idents_text l ++ ch_rp :: r) = Some (idents_text l, r).
Proof.
  intros Hne Hl. unfold paren_cols. change (N.eqb ch_lp ch_lp) with true. cbn iota.
  rewrite take_while_app, skip_while_app by (apply idents_cols_ch; assumption) || reflexivity.
  destruct (idents_text l) eqn:E.
  - destruct l as [|n [|n2 l]]; [contradiction|discriminate|discriminate].
  - change (N.eqb ch_rp ch_rp) with true. reflexivity.
Qed.

Lemma qword_bt n r : name_ok n -> (match r with c :: _ => is_quote c = false | [] => True end) ->
  qword (bt_ident n ++ r) = Some (n, r).
Proof.
  intros Hn Hr. unfold qword, bt_ident.
  change ((ch_bt :: n ++ [ch_bt]) ++ r) with (ch_bt :: (n ++ [ch_bt]) ++ r). rewrite <- app_assoc. cbn [app].
  rewrite (skip_quotes_name n _ Hn). rewrite (word1_name n r Hn).
  cbn [skip_while]. change (is_quote ch_bt) with true. cbn iota.
  destruct r as [|c r]; [reflexivity|]. cbn [skip_while]. rewrite Hr. reflexivity.
Qed.

(** the match at a printed named foreign key *)
Lemma match_fkt_printed sym cols rt rcols rest :
  name_ok sym -> name_ok rt -> cols <> [] -> rcols <> [] -> Forall name_ok cols -> Forall name_ok rcols ->
  match_fkt_at (print_named_fk sym cols rt rcols ++ rest) = Some (sym, idents_text cols, rt, idents_text rcols, rest).
Proof.
  intros Hs Hrt Hc Hrc Hcs Hrcs. unfold match_fkt_at, print_named_fk.
  repeat rewrite <- app_assoc. rewrite lit_ci_self.
  cbn [app plus_space]. change (is_space ch_sp) with true. cbn iota.
  assert (forall n r, skip_while is_space (bt_ident n ++ r) = bt_ident n ++ r) as Hsk by (intros; reflexivity).
  rewrite Hsk. rewrite (qword_bt sym _ Hs) by reflexivity.
  cbn [plus_space]. change (is_space ch_sp) with true. cbn iota.
  change (skip_while is_space (K_FOREIGN ++ ch_sp :: K_KEY ++ ch_sp :: ch_lp :: idents_text cols ++ ch_rp :: ch_sp :: K_REFERENCES ++ ch_sp :: bt_ident rt ++ ch_sp :: ch_lp :: idents_text rcols ++ ch_rp :: rest))
    with (K_FOREIGN ++ ch_sp :: K_KEY ++ ch_sp :: ch_lp :: idents_text cols ++ ch_rp :: ch_sp :: K_REFERENCES ++ ch_sp :: bt_ident rt ++ ch_sp :: ch_lp :: idents_text rcols ++ ch_rp :: rest).
  rewrite lit_ci_self.
  cbn [plus_space]. change (is_space ch_sp) with true. cbn iota.
  change (skip_while is_space (K_KEY ++ ch_sp :: ch_lp :: idents_text cols ++ ch_rp :: ch_sp :: K_REFERENCES ++ ch_sp :: bt_ident rt ++ ch_sp :: ch_lp :: idents_text rcols ++ ch_rp :: rest))
    with (K_KEY ++ ch_sp :: ch_lp :: idents_text cols ++ ch_rp :: ch_sp :: K_REFERENCES ++ ch_sp :: bt_ident rt ++ ch_sp :: ch_lp :: idents_text rcols ++ ch_rp :: rest).
  rewrite lit_ci_self.
  cbn [skip_while]. change (is_space ch_sp) with true. cbn iota.
  change (skip_while is_space (ch_lp :: idents_text cols ++ ch_rp :: ch_sp :: K_REFERENCES ++ ch_sp :: bt_ident rt ++ ch_sp :: ch_lp :: idents_text rcols ++ ch_rp :: rest))
    with (ch_lp :: idents_text cols ++ ch_rp :: ch_sp :: K_REFERENCES ++ ch_sp :: bt_ident rt ++ ch_sp :: ch_lp :: idents_text rcols ++ ch_rp :: rest).
  change (is_space ch_lp) with false. cbn iota.
  rewrite (paren_cols_printed cols _ Hc Hcs).
  cbn [plus_space]. change (is_space ch_sp) with true. cbn iota.
  change (skip_while is_space (K_REFERENCES ++ ch_sp :: bt_ident rt ++ ch_sp :: ch_lp :: idents_text rcols ++ ch_rp :: rest))
    with (K_REFERENCES ++ ch_sp :: bt_ident rt ++ ch_sp :: ch_lp :: idents_text rcols ++ ch_rp :: rest).
  unfold match_refs. rewrite lit_ci_self.
  cbn [plus_space]. change (is_space ch_sp) with true. cbn iota.
  rewrite Hsk. rewrite (qword_bt rt _ Hrt) by reflexivity.
  cbn [skip_while]. change (is_space ch_sp) with true. cbn iota.
  change (skip_while is_space (ch_lp :: idents_text rcols ++ ch_rp :: rest)) with (ch_lp :: idents_text rcols ++ ch_rp :: rest).
  change (is_space ch_lp) with false. cbn iota.
  rewrite (paren_cols_printed rcols _ Hrc Hrcs). reflexivity.
Qed.

(** ** every matcher returns a suffix of its input *)
Definition suffix_of (r s : bytes) : Prop := exists a, s = a ++ r.
Lemma suffix_refl s : suffix_of s s. Proof. exists []. reflexivity. Qed.
Lemma suffix_trans a b c : suffix_of a b -> suffix_of b c -> suffix_of a c.
Proof. intros (x & ->) (y & ->). exists (y ++ x). rewrite app_assoc. reflexivity. Qed.
Lemma suffix_cons c s r : suffix_of r s -> suffix_of r (c :: s).
Proof. intros (a & ->). exists (c :: a). reflexivity. Qed.
Lemma suffix_length r s : suffix_of r s -> (length r <= length s)%nat.
Proof. intros (a & ->). rewrite app_length. lia. Qed.

Lemma lit_ci_suffix p : forall s r, lit_ci p s = Some r -> suffix_of r s /\ (length r + length p = length s)%nat.
Proof.
  induction p as [|x p IH]; intros s r H; simpl in H.
  - inversion H; subst. split; [apply suffix_refl|simpl; lia].
  - destruct s as [|b s]; [discriminate|]. destruct (N.eqb (lower x) (lower b)); [|discriminate].
    destruct (IH s r H) as [Hs Hl]. split; [apply suffix_cons; exact Hs|simpl; lia].
Qed.
Lemma skip_while_suffix f s : suffix_of (skip_while f s) s.
Proof. exists (take_while f s). apply skip_take. Qed.
Lemma plus_space_suffix s r : plus_space s = Some r -> suffix_of r s.
Proof. intro H. destruct (plus_space_split s r H) as (a & -> & _). exists a. reflexivity. Qed.
Lemma word1_suffix s w r : word1 s = Some (w, r) -> suffix_of r s.
Proof. intro H. destruct (word1_split s w r H) as (-> & _). exists w. reflexivity. Qed.
Lemma qword_suffix s w r : qword s = Some (w, r) -> suffix_of r s.
Proof.
  unfold qword. destruct (word1 (skip_while is_quote s)) as [[w' r']|] eqn:E; [|discriminate].
  intros [= <- <-]. eapply suffix_trans; [apply skip_while_suffix|].
  eapply suffix_trans; [exact (word1_suffix _ _ _ E)|apply skip_while_suffix].
Qed.
Lemma paren_cols_suffix s l r : paren_cols s = Some (l, r) -> suffix_of r s.
Proof.
  unfold paren_cols. destruct s as [|c s]; [discriminate|]. destruct (N.eqb c ch_lp); [|discriminate].
  destruct (take_while is_cols_ch s); [discriminate|].
  destruct (skip_while is_cols_ch s) as [|d r'] eqn:E; [discriminate|]. destruct (N.eqb d ch_rp); [|discriminate].
  intros [= <- <-]. apply suffix_cons. eapply suffix_trans; [|apply (skip_while_suffix is_cols_ch s)].
  rewrite E. exists [d]. reflexivity.
Qed.
Lemma match_refs_suffix s t c r : match_refs s = Some (t, c, r) -> suffix_of r s.
Proof.
  unfold match_refs. destruct (lit_ci K_REFERENCES s) as [r0|] eqn:E0; [|discriminate].
  destruct (plus_space r0) as [r1|] eqn:E1; [|discriminate].
  destruct (qword r1) as [[t' r2]|] eqn:E2; [|discriminate].
  destruct (paren_cols (skip_while is_space r2)) as [[c' r3]|] eqn:E3; [|discriminate].
  intros [= <- <- <-].
  eapply suffix_trans; [exact (paren_cols_suffix _ _ _ E3)|].
  eapply suffix_trans; [apply skip_while_suffix|].
  eapply suffix_trans; [exact (qword_suffix _ _ _ E2)|].
  eapply suffix_trans; [exact (plus_space_suffix _ _ E1)|exact (proj1 (lit_ci_suffix _ _ _ E0))].
Qed.

Lemma match_fkt_shorter s n c t rc rest : match_fkt_at s = Some (n, c, t, rc, rest) -> (length rest < length s)%nat.
Proof.
  unfold match_fkt_at. destruct (lit_ci K_CONSTRAINT s) as [r0|] eqn:E0; [|discriminate].
  destruct (lit_ci_suffix _ _ _ E0) as [_ Hl0]. change (length K_CONSTRAINT) with 10%nat in Hl0.
  destruct (plus_space r0) as [r1|] eqn:E1; [|discriminate].
  destruct (qword r1) as [[n' r2]|] eqn:E2; [|discriminate].
  destruct (plus_space r2) as [r3|] eqn:E3; [|discriminate].
  destruct (lit_ci K_FOREIGN r3) as [r4|] eqn:E4; [|discriminate].
  destruct (plus_space r4) as [r5|] eqn:E5; [|discriminate].
  destruct (lit_ci K_KEY r5) as [r6|] eqn:E6; [|discriminate].
  destruct (paren_cols (skip_while is_space r6)) as [[c' r7]|] eqn:E7; [|discriminate].
  destruct (plus_space r7) as [r8|] eqn:E8; [|discriminate].
  destruct (match_refs r8) as [[[t' rc'] r9]|] eqn:E9; [|discriminate].
  intros [= <- <- <- <- <-].
  assert (suffix_of r9 r0) as Hs.
  { eapply suffix_trans; [exact (match_refs_suffix _ _ _ _ E9)|].
    eapply suffix_trans; [exact (plus_space_suffix _ _ E8)|].
    eapply suffix_trans; [exact (paren_cols_suffix _ _ _ E7)|].
    eapply suffix_trans; [apply skip_while_suffix|].
    eapply suffix_trans; [exact (proj1 (lit_ci_suffix _ _ _ E6))|].
    eapply suffix_trans; [exact (plus_space_suffix _ _ E5)|].
    eapply suffix_trans; [exact (proj1 (lit_ci_suffix _ _ _ E4))|].
    eapply suffix_trans; [exact (plus_space_suffix _ _ E3)|].
    eapply suffix_trans; [exact (qword_suffix _ _ _ E2)|exact (plus_space_suffix _ _ E1)]. }
  pose proof (suffix_length _ _ Hs). lia.
Qed.

(** fuel beyond the length of the text is irrelevant *)
Lemma find_all_fkt_fuel : forall f1 f2 s, (length s < f1)%nat -> (length s < f2)%nat ->
  find_all_fkt f1 s = find_all_fkt f2 s.
Proof.
  induction f1 as [|f1 IH]; intros f2 s H1 H2; [lia|]. destruct f2 as [|f2]; [lia|].
  cbn [find_all_fkt]. destruct (match_fkt_at s) as [[[[[n c] t] rc] rest]|] eqn:E.
  - pose proof (match_fkt_shorter _ _ _ _ _ _ E). f_equal. apply IH; lia.
  - destruct s as [|b s]; [reflexivity|]. simpl in H1, H2. apply IH; lia.
Qed.

Lemma match_fkt_needs_constraint s : lit_ci K_CONSTRAINT s = None -> match_fkt_at s = None.
Proof. intro H. unfold match_fkt_at. rewrite H. reflexivity. Qed.

Lemma find_all_fkt_miss f b s : match_fkt_at (b :: s) = None -> find_all_fkt (S f) (b :: s) = find_all_fkt f s.
Proof. intro H. cbn [find_all_fkt]. rewrite H. reflexivity. Qed.
Lemma find_all_fkt_hit f s n c t rc rest : match_fkt_at s = Some (n, c, t, rc, rest) ->
  find_all_fkt (S f) s = (n, c, t, rc) :: find_all_fkt f rest.
Proof. intro H. cbn [find_all_fkt]. rewrite H. reflexivity. Qed.

(** text without the letters CONSTRAINT, followed by a byte that is not a word byte, is skipped *)
Lemma find_all_fkt_skip x c y : occurs_ci K_CONSTRAINT x = false -> is_word c = false ->
  forall f, (length (x ++ c :: y) < f)%nat -> find_all_fkt f (x ++ c :: y) = find_all_fkt f (c :: y).
Proof.
  intros Hx Hc. induction x as [|b x IH]; intros f Hf; [reflexivity|].
  destruct f as [|f]; [lia|]. change ((b :: x) ++ c :: y) with (b :: x ++ c :: y) in *.
  rewrite find_all_fkt_miss.
  - rewrite (IH (occurs_ci_tail _ _ _ Hx) f) by (simpl in Hf; lia).
    apply find_all_fkt_fuel; simpl in *; rewrite app_length in Hf; simpl in Hf; lia.
  - apply match_fkt_needs_constraint. destruct (lit_ci K_CONSTRAINT (b :: x ++ c :: y)) as [r|] eqn:E; [|reflexivity].
    exfalso. destruct (lit_ci_app_break K_CONSTRAINT eq_refl (b :: x) c y r E) as [(r' & Hr)|Hw].
    + pose proof (occurs_ci_none _ _ Hx 0%nat) as H0. cbn [skipn] in H0. rewrite H0 in Hr. discriminate.
    + rewrite Hw in Hc. discriminate.
Qed.

(** ** all named foreign keys of a printed table *)
Record nfk := mkNfk { n_sym : bytes; n_cols : list bytes; n_rt : bytes; n_rcols : list bytes }.
Definition nfk_ok (f : nfk) : Prop :=
  name_ok (n_sym f) /\ name_ok (n_rt f) /\ n_cols f <> [] /\ n_rcols f <> [] /\
  Forall name_ok (n_cols f) /\ Forall name_ok (n_rcols f).
Definition print_nfk (f : nfk) : bytes := print_named_fk (n_sym f) (n_cols f) (n_rt f) (n_rcols f).
Definition nfk_tuple (f : nfk) : bytes * bytes * bytes * bytes :=
  (n_sym f, idents_text (n_cols f), n_rt f, idents_text (n_rcols f)).
(** what precedes a named key: any text without the letters CONSTRAINT that ends in a non-word byte
    (the planner writes ", "; the text may hold columns, the primary key, unnamed keys, ON DELETE ...) *)
Definition gap_ok (g : bytes) : Prop :=
  exists g' c, g = g' ++ [c] /\ is_word c = false /\ occurs_ci K_CONSTRAINT g' = false.
Definition fks_text (l : list (bytes * nfk)) : bytes :=
  concat (map (fun p => fst p ++ print_nfk (snd p)) l).

Lemma occurs_head_nonword c y : is_word c = false -> match_fkt_at (c :: y) = None.
Proof.
  intro H. apply match_fkt_needs_constraint. unfold K_CONSTRAINT. apply lit_ci_first_false.
  destruct (N.eqb (lower 67) (lower c)) eqn:E; [|reflexivity].
  rewrite (lower_word 67 c eq_refl E) in H. discriminate.
Qed.

Theorem find_all_fkt_printed l post :
  Forall (fun p => gap_ok (fst p) /\ nfk_ok (snd p)) l ->
  find_all_fkt (S (length post)) post = [] ->
  forall f, (length (fks_text l ++ post) < f)%nat ->
  find_all_fkt f (fks_text l ++ post) = map (fun p => nfk_tuple (snd p)) l.
Proof.
  induction 1 as [|[g k] l [Hgap Hk] Hall IH]; intros Hpost f Hf; [|cbn [fst snd] in Hgap, Hk; destruct Hgap as (g' & c & -> & Hc & Hg)].
  - cbn [fks_text map concat app] in *. rewrite <- Hpost. apply find_all_fkt_fuel; lia.
  - change (fks_text ((g' ++ [c], k) :: l)) with (((g' ++ [c]) ++ print_nfk k) ++ fks_text l) in *.
    repeat rewrite <- app_assoc in *. cbn [app] in *.
    rewrite (find_all_fkt_skip g' c _ Hg Hc f Hf).
    destruct f as [|f]; [lia|]. rewrite (find_all_fkt_miss f c _ (occurs_head_nonword c _ Hc)).
    destruct f as [|f]; [rewrite app_length in Hf; simpl in Hf; lia|].
    destruct Hk as (H1 & H2 & H3 & H4 & H5 & H6).
    unfold print_nfk.
    rewrite (find_all_fkt_hit f _ _ _ _ _ _ (match_fkt_printed _ _ _ _ (fks_text l ++ post) H1 H2 H3 H4 H5 H6)).
    cbn [map snd]. f_equal. apply (IH Hpost).
    assert (1 <= length (print_nfk k))%nat as Hp.
    { unfold print_nfk, print_named_fk. rewrite app_length. simpl. lia. }
    rewrite app_length in Hf. cbn [length] in Hf. rewrite app_length in Hf. lia.
Qed.

(** ** columns(): the text of a printed column list gives the names back *)
Lemma split_comma_app_nocomma a cur rest : forallb (fun c => negb (N.eqb c ch_comma)) a = true ->
  split_comma (a ++ rest) cur = split_comma rest (rev a ++ cur).
Proof.
  revert cur. induction a as [|c a IH]; intros cur H; [reflexivity|].
  simpl in H. apply andb_true_iff in H. destruct H as [Hc H]. apply negb_true_iff in Hc.
  cbn [app split_comma]. rewrite Hc. rewrite (IH (c :: cur) H). cbn [rev]. rewrite <- app_assoc. reflexivity.
Qed.

Lemma word_no_comma n : forallb is_word n = true -> forallb (fun c => negb (N.eqb c ch_comma)) n = true.
Proof.
  induction n as [|c n IH]; [reflexivity|]. simpl. intro H. apply andb_true_iff in H. destruct H as [Hc H].
  rewrite (IH H), andb_true_r. destruct (N.eqb c ch_comma) eqn:E; [|reflexivity].
  apply N.eqb_eq in E. subst c. discriminate.
Qed.

Lemma trim_space_word_bt n : trim_space (bt_ident n) = bt_ident n.
Proof.
  unfold bt_ident. apply trim_space_id; [reflexivity|].
  change (ch_bt :: n ++ [ch_bt]) with ((ch_bt :: n) ++ [ch_bt]). rewrite last_byte_snoc. reflexivity.
Qed.
Lemma trim_space_lead s : trim_space (ch_sp :: s) = trim_space s.
Proof. unfold trim_space. cbn [skip_while]. change (is_go_space ch_sp) with true. cbn iota. reflexivity. Qed.

Lemma trim_quotes_bt n : name_ok n -> trim_quotes (bt_ident n) = n.
Proof.
  intros [Hne Hw]. unfold trim_quotes, bt_ident.
  rewrite (skip_quotes_name n [ch_bt] (conj Hne Hw)).
  rewrite rev_app_distr. cbn [rev app skip_while]. change (is_quote ch_bt) with true. cbn iota.
  assert (skip_while is_quote (rev n) = rev n) as ->.
  { destruct (rev n) as [|c r] eqn:E; [reflexivity|]. cbn [skip_while].
    assert (is_word c = true) as Hc.
    { assert (In c (rev n)) by (rewrite E; left; reflexivity). apply in_rev in H.
      rewrite forallb_forall in Hw. exact (Hw c H). }
    assert (is_quote c = false) as ->; [|reflexivity].
    unfold is_quote. destruct (N.eqb c 34) eqn:E1; [apply N.eqb_eq in E1; subst; discriminate|].
    destruct (N.eqb c 96) eqn:E2; [apply N.eqb_eq in E2; subst; discriminate|]. reflexivity. }
  apply rev_involutive.
Qed.

Definition nocomma (s : bytes) : bool := forallb (fun c => negb (N.eqb c ch_comma)) s.
Lemma bt_nocomma n : name_ok n -> nocomma (bt_ident n) = true.
Proof.
  intros [_ Hw]. unfold nocomma, bt_ident. cbn [forallb]. rewrite forallb_app. cbn [forallb].
  change (negb (N.eqb ch_bt ch_comma)) with true. cbn [andb]. rewrite andb_true_r. exact (word_no_comma n Hw).
Qed.

Lemma split_idents l : Forall name_ok l -> forall cur, l <> [] ->
  split_comma (idents_text l) cur =
  (rev cur ++ bt_ident (hd [] l)) :: map (fun n => ch_sp :: bt_ident n) (tl l).
Proof.
  induction 1 as [|n l Hn Hl IH]; intros cur Hne; [contradiction|].
  destruct l as [|n2 l].
  - cbn [idents_text hd tl map]. rewrite <- (app_nil_r (bt_ident n)) at 1.
    rewrite split_comma_app_nocomma by exact (bt_nocomma n Hn).
    cbn [split_comma]. rewrite rev_app_distr, rev_involutive. reflexivity.
  - change (idents_text (n :: n2 :: l)) with (bt_ident n ++ [ch_comma; ch_sp] ++ idents_text (n2 :: l)).
    rewrite split_comma_app_nocomma by exact (bt_nocomma n Hn).
    cbn [app split_comma]. change (N.eqb ch_comma ch_comma) with true. change (N.eqb ch_sp ch_comma) with false. cbn iota.
    rewrite rev_app_distr, rev_involutive. cbn [hd tl map]. f_equal.
    rewrite (IH [ch_sp] ltac:(discriminate)). reflexivity.
Qed.

Theorem columns_printed l : Forall name_ok l -> l <> [] -> columns (idents_text l) = l.
Proof.
  intros Hl Hne. unfold columns. rewrite (split_idents l Hl [] Hne). cbn [app map rev].
  destruct l as [|n l]; [contradiction|]. cbn [hd tl]. inversion Hl as [|? ? Hn Hl']; subst.
  rewrite trim_space_word_bt, (trim_quotes_bt n Hn). f_equal.
  rewrite map_map. clear -Hl'. induction Hl' as [|m l Hm H IH]; [reflexivity|].
  cbn [map]. rewrite trim_space_lead, trim_space_word_bt, (trim_quotes_bt m Hm), IH. reflexivity.
Qed.

(** ** fillConstName on the printed text *)
Definition m_fk (k : nfk) (p : pfk) : bool := match_fk p (n_cols k) (n_rt k) (n_rcols k).
Definition upd (k : nfk) (p : pfk) : pfk :=
  if m_fk k p then mkPfk (n_sym k) (pf_cols p) (pf_reftable p) (pf_refcols p) else p.
Fixpoint one_match (f : pfk -> bool) (l : list pfk) : Prop :=
  match l with
  | [] => True
  | p :: l' => if f p then forallb (fun q => negb (f q)) l' = true else one_match f l'
  end.

Lemma m_fk_upd k k' p : m_fk k' (upd k p) = m_fk k' p.
Proof. unfold upd. destruct (m_fk k p); reflexivity. Qed.

Lemma map_upd_nomatch k l : forallb (fun q => negb (m_fk k q)) l = true -> map (upd k) l = l.
Proof.
  induction l as [|p l IH]; [reflexivity|]. simpl. intro H. apply andb_true_iff in H. destruct H as [Hp H].
  apply negb_true_iff in Hp. unfold upd at 1. rewrite Hp, (IH H). reflexivity.
Qed.

Lemma rename_first_map k l : one_match (m_fk k) l ->
  rename_first l (n_sym k) (n_cols k) (n_rt k) (n_rcols k) = map (upd k) l.
Proof.
  induction l as [|p l IH]; [reflexivity|]. cbn [one_match rename_first map].
  change (match_fk p (n_cols k) (n_rt k) (n_rcols k)) with (m_fk k p).
  unfold upd at 1. destruct (m_fk k p) eqn:E.
  - intro H. rewrite (map_upd_nomatch k l H). reflexivity.
  - intro H. rewrite (IH H). reflexivity.
Qed.

Lemma one_match_upd k k' l : one_match (m_fk k') l -> one_match (m_fk k') (map (upd k) l).
Proof.
  induction l as [|p l IH]; [auto|]. cbn [one_match map]. rewrite m_fk_upd. destruct (m_fk k' p).
  - intro H. rewrite forallb_forall in *. intros q Hq. apply in_map_iff in Hq. destruct Hq as (q0 & <- & Hq0).
    rewrite m_fk_upd. exact (H q0 Hq0).
  - exact IH.
Qed.

Lemma fold_renames ks : forall fks, (forall k, In k ks -> one_match (m_fk k) fks) ->
  fold_left (fun acc k => rename_first acc (n_sym k) (n_cols k) (n_rt k) (n_rcols k)) ks fks
  = map (fun p => fold_left (fun p k => upd k p) ks p) fks.
Proof.
  induction ks as [|k ks IH]; intros fks H; [cbn [fold_left]; rewrite map_id; reflexivity|].
  cbn [fold_left]. rewrite (rename_first_map k fks (H k (or_introl eq_refl))).
  rewrite IH.
  - rewrite map_map. reflexivity.
  - intros k' Hk'. apply one_match_upd. apply H. right. exact Hk'.
Qed.

(** fillConstName applied to the text of a table whose named foreign keys are written the planner's way
    (anything CONSTRAINT-free in between; no inline named REFERENCES anywhere) gives every foreign key of
    the PRAGMA list the symbol of the printed key with its columns, table and referenced columns --
    provided no two keys of the PRAGMA list have the same shape ([one_match]); with two keys of one shape
    the first one of the list takes every name (C03_fk_names_refuted). *)
Theorem fill_const_name_printed l post fks :
  Forall (fun p => gap_ok (fst p) /\ nfk_ok (snd p)) l ->
  find_all_fkt (S (length post)) post = [] ->
  find_all_fkc (S (length (fks_text l ++ post))) (fks_text l ++ post) = [] ->
  (forall k, In k (map snd l) -> one_match (m_fk k) fks) ->
  fill_const_name (fks_text l ++ post) fks = map (fun p => fold_left (fun p k => upd k p) (map snd l) p) fks.
Proof.
  intros Hl Hpost Hfkc Hone. unfold fill_const_name. rewrite Hfkc. cbn [fold_left].
  rewrite (find_all_fkt_printed l post Hl Hpost) by lia.
  rewrite <- (fold_renames (map snd l) fks Hone).
  assert (forall (ks : list (bytes * nfk)) acc, Forall (fun p => gap_ok (fst p) /\ nfk_ok (snd p)) ks ->
            fold_left (fun acc (m : bytes * bytes * bytes * bytes) =>
                         match m with (n, c, t, rc) => rename_first acc n (columns c) t (columns rc) end)
                      (map (fun p => nfk_tuple (snd p)) ks) acc
            = fold_left (fun acc k => rename_first acc (n_sym k) (n_cols k) (n_rt k) (n_rcols k)) (map snd ks) acc) as Hf.
  { induction ks as [|[g k] ks IH]; intros acc Hks; [reflexivity|].
    inversion Hks as [|? ? [_ Hk] Hks']; subst. cbn [snd] in Hk. destruct Hk as (H1 & H2 & H3 & H4 & H5 & H6).
    cbn [map fold_left snd]. unfold nfk_tuple at 2. cbn iota beta.
    rewrite (columns_printed _ H5 H3), (columns_printed _ H6 H4).
    change (fun p : bytes * nfk => (n_sym (snd p), idents_text (n_cols (snd p)), n_rt (snd p), idents_text (n_rcols (snd p)))) with (fun p : bytes * nfk => nfk_tuple (snd p)).
    apply IH. exact Hks'. }
  apply Hf. exact Hl.
Qed.

(** ** witness: the table of ExportPrintProofs.w_tab_full *)
Require Import Coq.Strings.String.
Import List ListNotations.
Open Scope string_scope.
Open Scope list_scope.
Definition w_gap : bytes := B "CREATE TABLE `t` (`id` integer NULL PRIMARY KEY AUTOINCREMENT, `a` int NOT NULL DEFAULT 5, `b` text NULL, `cx` int NULL AS (a + 1) STORED, `c` int NULL AS (a * 2) STORED, ".
Definition w_k : nfk := mkNfk (B "fk1") [B "a"] (B "p") [B "id"].
Definition w_post : bytes := B " ON DELETE CASCADE, CONSTRAINT `ck` CHECK (a > 0), CHECK (length(b) > (1))) STRICT".
Lemma w_fk_decomposition : w_tab_full_text = fks_text [(w_gap, w_k)] ++ w_post.
Proof. vm_compute. reflexivity. Qed.
Lemma w_fk_premises :
  Forall (fun p => gap_ok (fst p) /\ nfk_ok (snd p)) [(w_gap, w_k)] /\
  find_all_fkt (S (List.length w_post)) w_post = [] /\
  find_all_fkc (S (List.length (fks_text [(w_gap, w_k)] ++ w_post))) (fks_text [(w_gap, w_k)] ++ w_post) = [] /\
  (forall k, In k (map snd [(w_gap, w_k)]) -> one_match (m_fk k) [mkPfk (B "0") [B "a"] (B "p") [B "id"]]).
Proof.
  split; [|split; [|split]].
  - constructor; [|constructor]. split.
    + exists (removelast w_gap), 32%N. split; [vm_compute; reflexivity|]. split; vm_compute; reflexivity.
    + repeat split; try discriminate; try (vm_compute; reflexivity); repeat constructor; try discriminate; vm_compute; reflexivity.
  - vm_compute. reflexivity.
  - vm_compute. reflexivity.
  - intros k [<-|[]]. vm_compute. reflexivity.
Qed.
Lemma w_fk_result :
  map pf_symbol (fill_const_name w_tab_full_text [mkPfk (B "0") [B "a"] (B "p") [B "id"]]) = [B "fk1"].
Proof. vm_compute. reflexivity. Qed.

(** ** further kernel-evaluated witnesses of known findings (hand-written statements SQLite accepts) *)
Lemma w_more :
  (* C03-bare-ident-check *)
  fill_checks (B "CREATE TABLE health_check (id int)") = [(None, B "(id int)")] /\
  (* C03-sql-comment *)
  fill_checks (B "CREATE TABLE t (a int, /* CHECK (a > 1) */ b int)") = [(None, B "(a > 1)")] /\
  (* C03-type-with-comma *)
  set_gen_expr (B "b") (B "CREATE TABLE t (a int, b numeric(10,2) AS (a * 2) STORED)") = GenNotFound /\
  (* C03-nonword-name *)
  autoinc (B "CREATE TABLE t (""my col"" INTEGER PRIMARY KEY AUTOINCREMENT, b int)") [B "my col"; B "b"] [B "my col"] = AutoNone /\
  (* C03-comma-before-inline-fk *)
  map pf_symbol (fill_const_name (B "CREATE TABLE t (cx int CHECK (cx IN (1, 2, 3)) CONSTRAINT fk_a REFERENCES y (c))")
                   [mkPfk (B "0") [B "cx"] (B "y") [B "c"]]) = [B "0"] /\
  (* ... while without the comma the name is recovered *)
  map pf_symbol (fill_const_name (B "CREATE TABLE t (cx int CHECK (cx > 0) CONSTRAINT fk_a REFERENCES y (c))")
                   [mkPfk (B "0") [B "cx"] (B "y") [B "c"]]) = [B "fk_a"] /\
  (* C03-bracket-ident, foreign-key and check names *)
  fill_checks (B "CREATE TABLE [t] ([a] int, CONSTRAINT [ck] CHECK (a > 0))") = [(None, B "(a > 0)")].
Proof. vm_compute. repeat split; reflexivity. Qed.

(** C03-default-blob-literal on the printer: a blob column DEFAULT x'00ff' is printed as a quoted string *)
Lemma w_blob_default :
  print_table (PlanModel.mkX (Schema.mkTable (B "t") false false
                 [Schema.mkColumn (B "b") 5 (B "blob") true (Some (Schema.DLit (B "x'00ff'"))) None None] None [] [] []) [])
  = Some (B "CREATE TABLE `t` (`b` blob NULL DEFAULT 'x''00ff''')").
Proof. vm_compute. reflexivity. Qed.
