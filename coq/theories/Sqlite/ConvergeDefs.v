(** C01: definitions the convergence theorems are stated with, and the first general lemmas
    (when the final schema diff is empty; list helpers). *)
From Coq Require Import List NArith ZArith Bool Arith Lia.
From Atlas Require Import Base.Bytes Diff.Schema Diff.DiffModel Diff.DiffSqlite Diff.DiffProofs Diff.DiffSqliteProofs
  Sqlite.PlanModel Sqlite.EngineModel Sqlite.InspectModel.
Import ListNotations.

(** what [schema apply] does to a live database: inspect, diff, plan, execute *)
Definition apply_plan (nm : str) (d : db) (B : xschema) : option (result db) :=
  match diff_and_plan nm (inspect d) B with
  | Some p => Some (exec_all d (plan_stmts p))
  | None => None
  end.

(** the second diff is empty *)
Definition synced (nm : str) (d : db) (B : xschema) : Prop :=
  sqlite_schema_diff no_skip (inspect_schema nm d) (schema_of nm B) = Some [].

Definition tdiff (a b : table) : option (list change) := table_diff sqlite_driver no_skip a b.

(** a catalogue entry is in sync with a desired table *)
Definition table_synced (ct : ctable) (bx : xtable) : Prop :=
  tdiff (x_t (inspect_table ct)) (x_t bx) = Some [].

(** ** the entry CREATE TABLE + CREATE INDEX of a desired table leave *)
Definition strip_idx (x : xtable) : xtable := set_x_t x (set_t_idx (x_t x) []).

Definition created (bx : xtable) : option ctable :=
  match new_ctable (strip_idx bx) [], normalize_idxs (x_t bx) (t_idx (x_t bx)) with
  | Ok ct, Some idxs => Some (set_ct_t ct (set_t_idx (ct_t ct) idxs))
  | _, _ => None
  end.

(** ** list helpers *)
Lemma add_or_skip_no_skip l : add_or_skip no_skip l = l.
Proof. unfold add_or_skip, no_skip. induction l as [|a l IH]; simpl; [reflexivity|]. f_equal. exact IH. Qed.
Lemma add_or_skip_s_no_skip l : add_or_skip_s no_skip l = l.
Proof. unfold add_or_skip_s, no_skip. induction l as [|a l IH]; simpl; [reflexivity|]. f_equal. exact IH. Qed.

Lemma flat_map_nil_iff {A B} (f : A -> list B) l : flat_map f l = [] <-> forall x, In x l -> f x = [].
Proof.
  induction l as [|a l IH]; simpl; split; intros H.
  - intros x [].
  - reflexivity.
  - apply app_eq_nil in H. destruct H as [H1 H2]. intros x [<-|Hx]; [exact H1|]. apply IH; assumption.
  - rewrite (H a (or_introl eq_refl)). simpl. apply IH. intros x Hx. apply H. right. exact Hx.
Qed.

(** ** when is the schema diff empty *)
Lemma schema_diff_from_nil (to : schema) l :
  (forall t, In t l -> exists t2, find_table (t_name t) (s_tables to) = Some t2 /\ tdiff t t2 = Some []) ->
  schema_diff_from sqlite_driver no_skip to l = Some [].
Proof.
  induction l as [|t l IH]; intros H; simpl; [reflexivity|].
  destruct (H t (or_introl eq_refl)) as [t2 [F D]]. rewrite F. unfold tdiff in D. rewrite D.
  rewrite IH; [reflexivity|]. intros x Hx. apply H. right. exact Hx.
Qed.

Lemma schema_diff_nil (from to : schema) :
  s_name from = s_name to ->
  (forall t, In t (s_tables from) -> exists t2, find_table (t_name t) (s_tables to) = Some t2 /\ tdiff t t2 = Some []) ->
  (forall t2, In t2 (s_tables to) -> find_table (t_name t2) (s_tables from) <> None) ->
  SchemaDiff sqlite_driver no_skip from to = Some [].
Proof.
  intros Hn H1 H2. unfold SchemaDiff. rewrite Hn, str_eqb_refl. simpl.
  rewrite (schema_diff_from_nil to _ H1). unfold schema_diff_add. rewrite add_or_skip_s_no_skip. simpl.
  f_equal. apply flat_map_nil_iff. intros t2 Ht2. specialize (H2 t2 Ht2).
  destruct (find_table (t_name t2) (s_tables from)); [reflexivity|congruence].
Qed.

(** the planner on the empty change list, the engine on the empty plan *)
Lemma plan_nil from to : PlanChanges from to [] = Some (mkPlan [] true true).
Proof. reflexivity. Qed.
