(** C01 on populated databases: the plan computed for a database with rows is the plan of the same
    catalogue without rows; executing it ends in sync, or stops at a statement a row makes fail. *)
From Coq Require Import List NArith ZArith Bool Arith.
From Atlas Require Import Base.Bytes Diff.Schema Diff.DiffModel Diff.DiffSqlite
  Sqlite.PlanModel Sqlite.EngineModel Sqlite.InspectModel Sqlite.EngineRowsProofs Sqlite.ConvergeDefs
  Sqlite.ConvergeSupported.
Import ListNotations.

Theorem converges_rows nm d B :
  supported (forget d) B = true ->
  exists p, diff_and_plan nm (inspect d) B = Some p /\
    ((exists d', exec_all d (plan_stmts p) = Ok d' /\ synced nm d' B) \/
     (exists er, exec_all d (plan_stmts p) = Err er /\ row_err er = true)).
Proof.
  intros H. destruct (converges_supported nm (forget d) B H) as [p [e' [H1 [H2 H3]]]].
  rewrite inspect_forget in H1. exists p. split; [exact H1|].
  destruct (lift_exec_all (plan_stmts p) d e' H2) as [[d' [E F]]|[er [E R]]].
  - left. exists d'. split; [exact E|]. unfold synced, inspect_schema in *. rewrite <- (inspect_forget d'), F. exact H3.
  - right. exists er. split; assumption.
Qed.
