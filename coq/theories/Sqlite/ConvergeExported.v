(** C01, round 5: a desired schema that carries indexes with reserved names -- the HCL `atlas schema inspect`
    printed for another database lists the index behind an inline UNIQUE constraint as
    [index "sqlite_autoindex_<t>_<n>" { unique = true ... }], WITHOUT [sqlite.IndexOrigin] (sqlspec has no such
    attribute; [SpecModel.norm_index] drops it).

    [normalizeIdxName] (sql/sqlite/migrate.go; [DiffSqlite.normalize_idx_name]) renames such an index to
    <table>_<columns> at three places: [diff.Normalize] (every ModifyTable), [diff.FindGeneratedIndex],
    [state.addIndexes] (AddTable, AddIndex, the rebuild).  This file proves that the three places agree: the differ,
    the planner and the second diff treat the desired schema [B] exactly like [nrm B], the schema whose reserved
    names are already replaced ([diff_nrm], [plan_nrm], [synced_nrm]), provided the renaming is stable
    ([stable_b]: it succeeds -- column parts only -- and the made-up names are not reserved names again).
    So convergence for [B] follows from convergence for [nrm B] ([converges_exported]), and composes with
    C03's normal form of the HCL round trip ([converges_from_exported_hcl]). *)
From Coq Require Import List NArith ZArith Bool Arith.
From Atlas Require Import Base.Bytes Diff.Schema Diff.DiffModel Diff.DiffSqlite Diff.DiffSqliteProofs
  Sqlite.PlanModel Sqlite.EngineModel Sqlite.InspectModel Sqlite.ConvergeDefs Sqlite.ConvergeSupported
  Hcl.SpecModel Hcl.SpecProofs Hcl.SpecDiffProofs Hcl.SpecDiffAutoProofs.
Import ListNotations.

(** ** the renamed schema *)
Definition nrm_x (x : xtable) : xtable :=
  match normalized_to x with Some x' => x' | None => x end.
Definition nrm (B : xschema) : xschema := map nrm_x B.

(** an index [normalizeIdxName] leaves alone *)
Definition idx_fixed_b (i : index) : bool :=
  match has_prefix SQLITE_AUTOINDEX (i_name i) with
  | None => true
  | Some _ => ostr_eqb (i_origin i) (Some ORIGIN_P)
  end.

(** the renaming of the table's indexes succeeds and is a fixed point of [normalizeIdxName] *)
Definition stable_x_b (x : xtable) : bool :=
  match normalize_idxs (x_t x) (t_idx (x_t x)) with
  | Some l => forallb idx_fixed_b l
  | None => false
  end.
Definition stable_b (B : xschema) : bool := forallb stable_x_b B.

(** the domain of the theorem: the decidable [supported] on the renamed schema *)
Definition supported_exported (d : db) (B : xschema) : bool := stable_b B && supported d (nrm B).

(** ** [normalizeIdxName] on its own output *)
Lemma ostr_eqb_true a b : ostr_eqb a b = true -> a = b.
Proof.
  destruct a as [a|], b as [b|]; simpl; intros H; try discriminate; [|reflexivity].
  apply str_eqb_true in H. subst. reflexivity.
Qed.

Lemma idx_fixed_stable l : forallb idx_fixed_b l = true -> idx_norm_stable l.
Proof.
  intros H i Hi. rewrite forallb_forall in H. specialize (H i Hi). unfold idx_fixed_b in H.
  destruct (has_prefix SQLITE_AUTOINDEX (i_name i)); [right|left; reflexivity].
  exact (ostr_eqb_true _ _ H).
Qed.

Lemma normalize_idx_name_tname i t t' : t_name t = t_name t' -> normalize_idx_name i t = normalize_idx_name i t'.
Proof. intros H. unfold normalize_idx_name. rewrite H. reflexivity. Qed.

Lemma normalize_idxs_tname l t t' : t_name t = t_name t' -> normalize_idxs t l = normalize_idxs t' l.
Proof.
  intros H. induction l as [|i l IH]; [reflexivity|]. simpl.
  rewrite (normalize_idx_name_tname i t t' H), IH. reflexivity.
Qed.

Section Stable.
  Variable x : xtable.
  Variable l : list index.
  Hypothesis N : normalize_idxs (x_t x) (t_idx (x_t x)) = Some l.
  Hypothesis F : forallb idx_fixed_b l = true.

  Lemma nrm_x_eq : nrm_x x = set_x_t x (set_t_idx (x_t x) l).
  Proof. unfold nrm_x, normalized_to. rewrite N. reflexivity. Qed.

  Lemma nrm_x_name : x_name (nrm_x x) = x_name x.
  Proof. rewrite nrm_x_eq. reflexivity. Qed.

  Lemma nrm_idxs_again : normalize_idxs (x_t (nrm_x x)) (t_idx (x_t (nrm_x x))) = Some l.
  Proof.
    rewrite nrm_x_eq. simpl.
    rewrite (normalize_idxs_tname l (set_t_idx (x_t x) l) (x_t x) eq_refl).
    apply normalize_idxs_stable. apply idx_fixed_stable. exact F.
  Qed.

  Lemma normalized_to_nrm : normalized_to (nrm_x x) = Some (nrm_x x) /\ normalized_to x = Some (nrm_x x).
  Proof.
    split.
    - unfold normalized_to at 1. rewrite nrm_idxs_again. rewrite nrm_x_eq. reflexivity.
    - unfold nrm_x. unfold normalized_to. rewrite N. reflexivity.
  Qed.

  (** [diff.Normalize] gives the same pair *)
  Lemma sqlite_normalize_nrm from : sqlite_normalize from (x_t (nrm_x x)) = sqlite_normalize from (x_t x).
  Proof.
    unfold sqlite_normalize. rewrite nrm_idxs_again, N. rewrite nrm_x_eq. reflexivity.
  Qed.

  Lemma table_diff_nrm sk from :
    table_diff sqlite_driver sk from (x_t (nrm_x x)) = table_diff sqlite_driver sk from (x_t x).
  Proof.
    unfold table_diff. change (dd_normalize sqlite_driver) with sqlite_normalize.
    assert (E : t_name (x_t (nrm_x x)) = t_name (x_t x)) by exact nrm_x_name.
    rewrite E. rewrite sqlite_normalize_nrm. reflexivity.
  Qed.
End Stable.

Lemma stable_x_inv x : stable_x_b x = true ->
  exists l, normalize_idxs (x_t x) (t_idx (x_t x)) = Some l /\ forallb idx_fixed_b l = true.
Proof.
  unfold stable_x_b. destruct (normalize_idxs (x_t x) (t_idx (x_t x))) as [l|]; [|discriminate].
  intros H. exists l. split; [reflexivity|exact H].
Qed.

Lemma nrm_name x : stable_x_b x = true -> x_name (nrm_x x) = x_name x.
Proof. intros H. destruct (stable_x_inv x H) as [l [N _]]. exact (nrm_x_name x l N). Qed.

(** ** lookups *)
Lemma find_table_nrm n B : stable_b B = true ->
  find_table n (map x_t (nrm B)) = option_map (fun x => x_t (nrm_x x)) (find_xtable n B) /\
  find_table n (map x_t B) = option_map x_t (find_xtable n B).
Proof.
  unfold stable_b, nrm, find_table, find_xtable. induction B as [|x B IH]; intros S; [split; reflexivity|].
  simpl in S. apply andb_true_iff in S. destruct S as [Sx SB]. specialize (IH SB). destruct IH as [I1 I2].
  simpl. pose proof (nrm_name x Sx) as E. unfold x_name in E. rewrite E. unfold x_name.
  destruct (str_eqb (t_name (x_t x)) n); [split; reflexivity|]. split; [exact I1|exact I2].
Qed.

Lemma find_xtable_nrm n B : stable_b B = true ->
  find_xtable n (nrm B) = option_map nrm_x (find_xtable n B).
Proof.
  unfold stable_b, nrm, find_xtable. induction B as [|x B IH]; intros S; [reflexivity|].
  simpl in S. apply andb_true_iff in S. destruct S as [Sx SB]. specialize (IH SB).
  simpl. rewrite (nrm_name x Sx). destruct (str_eqb (x_name x) n); [reflexivity|exact IH].
Qed.

Lemma find_xtable_stable n B x : stable_b B = true -> find_xtable n B = Some x -> stable_x_b x = true.
Proof.
  unfold stable_b, find_xtable. intros S H. apply find_some in H. destruct H as [H _].
  rewrite forallb_forall in S. exact (S x H).
Qed.

(** ** the differ *)
Lemma schema_diff_from_nrm sk nm B l : stable_b B = true ->
  schema_diff_from sqlite_driver sk (schema_of nm (nrm B)) l = schema_diff_from sqlite_driver sk (schema_of nm B) l.
Proof.
  intros S. induction l as [|t1 l IH]; [reflexivity|]. simpl.
  destruct (find_table_nrm (t_name t1) B S) as [E1 E2]. rewrite E1, E2.
  destruct (find_xtable (t_name t1) B) as [x|] eqn:Fx; simpl.
  - pose proof (find_xtable_stable _ _ _ S Fx) as Sx. destruct (stable_x_inv x Sx) as [li [N F]].
    rewrite (table_diff_nrm x li N F sk t1). rewrite IH.
    pose proof (nrm_x_name x li N) as En. unfold x_name in En. rewrite En. reflexivity.
  - rewrite IH. reflexivity.
Qed.

Lemma schema_diff_add_nrm sk from nm B : stable_b B = true ->
  schema_diff_add sk from (schema_of nm (nrm B)) = schema_diff_add sk from (schema_of nm B).
Proof.
  intros S. unfold schema_diff_add. f_equal. simpl. unfold nrm. rewrite !map_map.
  unfold stable_b in S. induction B as [|x B IH]; [reflexivity|].
  simpl in S. apply andb_true_iff in S. destruct S as [Sx SB]. simpl.
  pose proof (nrm_name x Sx) as E. unfold x_name in E. rewrite E. rewrite (IH SB). reflexivity.
Qed.

Theorem diff_nrm sk nm A B : stable_b B = true ->
  sqlite_schema_diff sk A (schema_of nm (nrm B)) = sqlite_schema_diff sk A (schema_of nm B).
Proof.
  intros S. unfold sqlite_schema_diff, SchemaDiff. simpl s_name.
  rewrite (schema_diff_from_nrm sk nm B (s_tables A) S), (schema_diff_add_nrm sk A nm B S). reflexivity.
Qed.

(** ** the planner *)
Lemma addIndexes_tname l t t' : t_name t = t_name t' -> addIndexes t l = addIndexes t' l.
Proof.
  intros H. induction l as [|i l IH]; [reflexivity|]. simpl.
  rewrite (normalize_idx_name_tname i t t' H), IH, H. reflexivity.
Qed.

(** [addIndexes] is a function of the renamed list *)
Lemma addIndexes_via t l l' : normalize_idxs t l = Some l' -> idx_norm_stable l' -> addIndexes t l = addIndexes t l'.
Proof.
  revert l'. induction l as [|i l IH]; intros l' N St; simpl in N.
  - inversion N. reflexivity.
  - destruct (normalize_idx_name i t) as [i'|] eqn:Ei; [|discriminate].
    destruct (normalize_idxs t l) as [r|] eqn:Er; [|discriminate]. inversion N. subst l'. clear N.
    simpl. rewrite Ei.
    assert (Si : normalize_idx_name i' t = Some i') by (apply normalize_idx_name_stable; apply St; left; reflexivity).
    rewrite Si. rewrite (IH r eq_refl); [reflexivity|]. intros j Hj. apply St. right. exact Hj.
Qed.

Lemma addTable_nrm x : stable_x_b x = true -> addTable (nrm_x x) = addTable x.
Proof.
  intros S. destruct (stable_x_inv x S) as [l [N F]]. rewrite (nrm_x_eq x l N). unfold addTable. simpl.
  rewrite (addIndexes_tname l (set_t_idx (x_t x) l) (x_t x) eq_refl).
  rewrite (addIndexes_via (x_t x) (t_idx (x_t x)) l N (idx_fixed_stable l F)).
  assert (C : forallb (column_ok (set_x_t x (set_t_idx (x_t x) l))) (t_cols (x_t x)) = forallb (column_ok x) (t_cols (x_t x))).
  { induction (t_cols (x_t x)) as [|c cl IHc]; [reflexivity|]. simpl. rewrite IHc. reflexivity. }
  rewrite C. reflexivity.
Qed.

Lemma plan_loop_nrm A B cs s : stable_b B = true -> plan_loop A (nrm B) cs s = plan_loop A B cs s.
Proof.
  intros S. revert s. induction cs as [|c cs IH]; intros s; [reflexivity|]. simpl.
  destruct c as [n|n|n sub].
  - rewrite (find_xtable_nrm n B S). destruct (find_xtable n B) as [x|] eqn:Fx; simpl; [|reflexivity].
    rewrite (addTable_nrm x (find_xtable_stable _ _ _ S Fx)).
    destruct (addTable x); [apply IH|reflexivity].
  - destruct (find_xtable n A) as [x|]; [|reflexivity]. destruct (dropTable x); [apply IH|reflexivity].
  - rewrite (find_xtable_nrm n B S). destruct (find_xtable n A) as [xf|]; [|reflexivity].
    destruct (find_xtable n B) as [x|] eqn:Fx; simpl; [|reflexivity].
    pose proof (find_xtable_stable _ _ _ S Fx) as Sx. destruct (stable_x_inv x Sx) as [l [N F]].
    destruct (normalized_to_nrm x l N F) as [E1 E2]. rewrite E1, E2.
    destruct (modifyTable (x_t xf) (nrm_x x) sub) as [[r sk]|]; [apply IH|reflexivity].
Qed.

Theorem plan_nrm A B cs : stable_b B = true -> PlanChanges A (nrm B) cs = PlanChanges A B cs.
Proof. intros S. unfold PlanChanges. rewrite (plan_loop_nrm A B cs _ S). reflexivity. Qed.

Theorem diff_and_plan_nrm nm A B : stable_b B = true -> diff_and_plan nm A (nrm B) = diff_and_plan nm A B.
Proof.
  intros S. unfold diff_and_plan. rewrite (diff_nrm no_skip nm (schema_of nm A) B S).
  destruct (sqlite_schema_diff no_skip (schema_of nm A) (schema_of nm B)); [apply plan_nrm; exact S|reflexivity].
Qed.

Theorem synced_nrm nm d B : stable_b B = true -> (synced nm d (nrm B) <-> synced nm d B).
Proof. intros S. unfold synced. rewrite (diff_nrm no_skip nm (inspect_schema nm d) B S). tauto. Qed.

(** ** convergence with reserved index names in the desired schema *)
Theorem converges_exported nm d B :
  supported_exported d B = true ->
  exists p d', diff_and_plan nm (inspect d) B = Some p /\ exec_all d (plan_stmts p) = Ok d' /\ synced nm d' B.
Proof.
  unfold supported_exported. intros H. apply andb_true_iff in H. destruct H as [S H].
  destruct (converges_supported nm d (nrm B) H) as [p [d' [P [E Y]]]].
  exists p, d'. rewrite <- (diff_and_plan_nrm nm (inspect d) B S). split; [exact P|]. split; [exact E|].
  apply (synced_nrm nm d' B S). exact Y.
Qed.

(** ** ... and with the desired schema = the HCL export of another database.
    [hcl_roundtrip] = EvalHCL (MarshalHCL s) on the spec level (Hcl/SpecModel.v, C03); for a well-formed
    inspected schema it returns [map norm_x] (C03_hcl_normal_form). *)
Theorem converges_from_exported_hcl nm d1 d2 :
  schema_wf (inspect d1) ->
  supported_exported d2 (map norm_x (inspect d1)) = true ->
  exists B p d', hcl_roundtrip (inspect d1) = ROk B /\
    diff_and_plan nm (inspect d2) B = Some p /\ exec_all d2 (plan_stmts p) = Ok d' /\ synced nm d' B.
Proof.
  intros W H. exists (map norm_x (inspect d1)).
  destruct (converges_exported nm d2 _ H) as [p [d' [P [E Y]]]]. exists p, d'.
  split; [exact (hcl_roundtrip_norm _ W)|]. split; [exact P|]. split; [exact E|exact Y].
Qed.

(** ** D2 = D1: a database's own export plans nothing -- also when it has inline UNIQUE constraints (which
    [supported] excludes on the current side).  Corollary of C03's [hcl_roundtrip_diff_empty_auto]
    (FindGeneratedIndex finds the renamed constraint index again); the oracle class exported-self-diff
    of the stage `exported` checks the same on the Go observations. *)
Theorem exported_self_apply_noop nm d1 :
  schema_wf (inspect d1) -> Forall diffable_auto (inspect d1) ->
  exists B, hcl_roundtrip (inspect d1) = ROk B /\
    diff_and_plan nm (inspect d1) B = Some (mkPlan [] true true) /\
    exec_all d1 (plan_stmts (mkPlan [] true true)) = Ok d1 /\ synced nm d1 B.
Proof.
  intros W D. destruct (hcl_roundtrip_diff_empty_auto nm (inspect d1) W D) as [B [R [_ E]]].
  exists B. split; [exact R|]. split.
  - unfold diff_and_plan, sqlite_schema_diff. rewrite E. reflexivity.
  - split; [reflexivity|]. unfold synced, inspect_schema, sqlite_schema_diff. exact E.
Qed.

(** non-vacuity: the engine database u(a int UNIQUE, b text DEFAULT 'x') is inspected as C03's witness [w_u] *)
From Coq Require Import String.
Open Scope list_scope.
Definition ex_u_db : db :=
  mkDB [mkCT (mkX (mkTable (Bs "u"%string) false false
         [mkColumn (Bs "a"%string) 2 (Bs "int"%string) true None None None;
          mkColumn (Bs "b"%string) 3 (Bs "text"%string) true (Some (DLit (Bs "'x'"%string))) None None]
         None [] [] []) []) [[Bs "a"%string]] []] false false.
Lemma ex_u_inspect : inspect ex_u_db = [w_u].
Proof. vm_compute. reflexivity. Qed.
Lemma ex_self_nonvacuous : schema_wf (inspect ex_u_db) /\ Forall diffable_auto (inspect ex_u_db).
Proof. rewrite ex_u_inspect. split; [exact w_u_wf|constructor; [exact w_u_diffable|constructor]]. Qed.
