(** C01: the table-level round-trip condition of [desired_ok] ([do_rt]: CREATE + inspect gives no diff)
    follows from five part-level conditions -- checks, columns one by one, primary key, indexes one by
    one, foreign keys -- so a desired table is inside the theorem's domain as soon as each of its parts
    round-trips on its own. *)
From Coq Require Import List NArith ZArith Bool Arith Lia.
From Atlas Require Import Base.Bytes Diff.Schema Diff.DiffModel Diff.DiffSqlite Diff.DiffProofs Diff.DiffSqliteProofs
  Sqlite.PlanModel Sqlite.EngineModel Sqlite.InspectModel Sqlite.ConvergeDefs Sqlite.ConvergeTable Sqlite.ConvergeEngine
  Sqlite.ConvergePlan Sqlite.ConvergeAlter Sqlite.ConvergeStep.
Import ListNotations.

Lemma table_synced_by_parts bx ct0 :
  let b := x_t bx in
  new_ctable (strip_idx bx) [] = Ok ct0 ->
  no_auto_names (t_idx b) -> NoDup (map i_name (t_idx b)) ->
  checks_diff (check_compare None) (map inspect_check (t_checks b)) (t_checks b) = [] ->
  (forall cb, In cb (t_cols b) -> colchg (inspect_column cb) cb = Some 0%N) ->
  pk_part (inspect_pk (ct_t ct0)) (t_pk b) = [] ->
  (forall ib, In ib (t_idx b) -> index_change sqlite_driver (inspect_index ib) ib = 0%N) ->
  fk_part (t_name b) (inspect_fks b) (t_fks b) = [] ->
  table_synced (add_idx (t_idx b) ct0) bx.
Proof.
  intros b HC NA NDI HK HCOL HPK HIDX HFK.
  destruct (new_ctable_shape _ _ HC) as [pk [EP [E0 ER]]].
  destruct (table_checks_facts _ _ EP) as [NDC _]. cbn [strip_idx x_t set_x_t t_cols set_t_idx] in NDC. fold b in NDC.
  set (c1 := add_idx (t_idx b) ct0).
  assert (U : ct_uniques c1 = []) by (unfold c1; rewrite E0; reflexivity).
  destruct (inspect_table_fields c1 U) as [A1 [A2 [A3 [A4 [A5 [A6 [A7 A8]]]]]]].
  set (a := x_t (inspect_table c1)) in *.
  assert (C1 : t_cols (ct_t c1) = t_cols b) by (unfold c1; rewrite E0; reflexivity).
  assert (C2 : t_idx (ct_t c1) = t_idx b) by (unfold c1; rewrite E0; reflexivity).
  assert (C3 : t_checks (ct_t c1) = t_checks b) by (unfold c1; rewrite E0; reflexivity).
  assert (C4 : t_fks (ct_t c1) = t_fks b) by (unfold c1; rewrite E0; reflexivity).
  assert (C5 : t_without_rowid (ct_t c1) = t_without_rowid b /\ t_strict (ct_t c1) = t_strict b)
    by (unfold c1; rewrite E0; split; reflexivity).
  assert (C6 : inspect_pk (ct_t c1) = inspect_pk (ct_t ct0)) by (unfold c1; rewrite E0; reflexivity).
  unfold table_synced. fold a. fold b.
  apply tdiff_nil_criterion.
  - apply no_auto_norm_stable. exact NA.
  - unfold attr_part. rewrite A2, A3, A8, C3. destruct C5 as [-> ->].
    destruct (t_without_rowid b), (t_strict b); simpl; exact HK.
  - intros c Hc. rewrite A4, C1 in Hc. apply in_map_iff in Hc. destruct Hc as [cb [E Hcb]]. subst c.
    exists cb. split; [simpl; apply find_col_nodup; assumption|apply HCOL; exact Hcb].
  - intros cb Hcb. rewrite A4, C1, find_col_inspect. rewrite (find_col_nodup _ cb NDC Hcb). discriminate.
  - rewrite A5, C6. exact HPK.
  - intros i Hi. apply not_generated_name. rewrite A6, C2 in Hi. apply in_map_iff in Hi. destruct Hi as [i0 [E Hi0]].
    subst i. simpl. apply NA. exact Hi0.
  - intros i Hi. rewrite A6, C2 in Hi. apply in_map_iff in Hi. destruct Hi as [i0 [E Hi0]]. subst i.
    exists i0. split; [simpl; apply (kfind_nodup i_name); assumption|apply HIDX; exact Hi0].
  - intros ib Hib. rewrite A6, C2, kfind_inspect_index. rewrite (kfind_nodup i_name _ ib NDI Hib). discriminate.
  - rewrite A7. unfold inspect_fks. rewrite C4. exact HFK.
Qed.

(** the decidable form *)
Definition desired_parts_b (bx : xtable) : bool :=
  let b := x_t bx in
  match new_ctable (strip_idx bx) [] with
  | Ok ct0 =>
      forallb (column_ok bx) (t_cols b)
      && forallb (fun i => match has_prefix SQLITE_AUTOINDEX (i_name i) with None => true | Some _ => false end) (t_idx b)
      && nodup_strs (map i_name (t_idx b))
      && forallb (fun i => match index_def_ok b i with Ok _ => true | Err _ => false end) (t_idx b)
      && (match checks_diff (check_compare None) (map inspect_check (t_checks b)) (t_checks b) with [] => true | _ => false end)
      && forallb (fun cb => match colchg (inspect_column cb) cb with Some 0%N => true | _ => false end) (t_cols b)
      && (match pk_part (inspect_pk (ct_t ct0)) (t_pk b) with [] => true | _ => false end)
      && forallb (fun ib => N.eqb (index_change sqlite_driver (inspect_index ib) ib) 0) (t_idx b)
      && (match fk_part (t_name b) (inspect_fks b) (t_fks b) with [] => true | _ => false end)
  | Err _ => false
  end.

Theorem desired_ok_by_parts bx : desired_parts_b bx = true -> desired_ok bx.
Proof.
  unfold desired_parts_b. destruct (new_ctable (strip_idx bx) []) as [ct0|] eqn:HC; [|discriminate].
  intros H. repeat (apply andb_true_iff in H; destruct H as [H ?]).
  assert (NA : no_auto_names (t_idx (x_t bx))).
  { intros i Hi. match goal with X : forallb (fun i => match has_prefix _ _ with _ => _ end) _ = true |- _ =>
      apply (proj1 (forallb_forall _ _) X) in Hi end.
    destruct (has_prefix SQLITE_AUTOINDEX (i_name i)); [discriminate|reflexivity]. }
  assert (HCOL : forall cb, In cb (t_cols (x_t bx)) -> colchg (inspect_column cb) cb = Some 0%N).
  { intros cb Hcb. match goal with X : forallb (fun cb => match colchg _ cb with _ => _ end) _ = true |- _ =>
      apply (proj1 (forallb_forall _ _) X) in Hcb end.
    destruct (colchg (inspect_column cb) cb) as [[|p]|]; try discriminate. reflexivity. }
  assert (HIDX : forall ib, In ib (t_idx (x_t bx)) -> index_change sqlite_driver (inspect_index ib) ib = 0%N).
  { intros ib Hib. match goal with X : forallb (fun ib => N.eqb _ 0) _ = true |- _ =>
      apply (proj1 (forallb_forall _ _) X) in Hib end.
    apply N.eqb_eq. exact Hib. }
  constructor.
  - exists ct0. exact HC.
  - exact H.
  - exact NA.
  - intros i Hi. match goal with X : forallb (fun i => match index_def_ok _ i with _ => _ end) _ = true |- _ =>
      apply (proj1 (forallb_forall _ _) X) in Hi end.
    destruct (index_def_ok (x_t bx) i) as [[]|]; [reflexivity|discriminate].
  - intros ct1 Hnew. rewrite HC in Hnew. inversion Hnew; subst ct1.
    apply table_synced_by_parts; auto.
    + apply nodup_strs_NoDup. assumption.
    + destruct (checks_diff _ _ _); [reflexivity|discriminate].
    + destruct (pk_part _ _); [reflexivity|discriminate].
    + destruct (fk_part _ _ _); [reflexivity|discriminate].
  - exact HCOL.
  - exact HIDX.
Qed.
