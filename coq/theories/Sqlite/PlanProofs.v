(** Structural facts about the SQLite planner model, for all inputs: the PRAGMA foreign_keys bracket
    surrounds every plan that drops a table (DROP TABLE t, or the rebuild), and only those; the
    Reversible flag is computed on the changes between the brackets. *)
From Coq Require Import List NArith Bool Arith.
From Atlas Require Import Base.Bytes Diff.Schema Diff.DiffModel Diff.DiffSqlite Sqlite.PlanModel.
Import ListNotations.

Definition is_drop_table (s : stmt) : bool := match s with SDropTable _ => true | _ => false end.
Definition is_pragma (s : stmt) : bool := match s with SPragmaFK _ => true | _ => false end.
(** statements of the ALTER path and of CREATE TABLE *)
Definition mild (s : stmt) : bool := negb (is_drop_table s) && negb (is_pragma s).

Lemma addIndexes_mild t l pcs : addIndexes t l = Some pcs -> forallb (fun c => mild (pc_cmd c)) pcs = true.
Proof.
  revert pcs. induction l as [|i l IH]; simpl; intros pcs H; [inversion H; reflexivity|].
  destruct (normalize_idx_name i t); [|discriminate]. destruct (addIndexes t l) as [r|]; [|discriminate].
  inversion H; subst. simpl. apply (IH r eq_refl).
Qed.

Lemma addIndexes_reverse t l pcs c : addIndexes t l = Some pcs -> In c pcs -> exists n, pc_reverse c = [SDropIndex n].
Proof.
  revert pcs. induction l as [|i l IH]; simpl; intros pcs H Hc; [inversion H; subst; destruct Hc|].
  destruct (normalize_idx_name i t) as [i'|]; [|discriminate]. destruct (addIndexes t l) as [r|] eqn:E; [|discriminate].
  inversion H; subst. destruct Hc as [<-|Hc]; [eexists; reflexivity|apply (IH r eq_refl Hc)].
Qed.

Lemma dropIndexes_mild t l pcs : dropIndexes t l = Some pcs -> forallb (fun c => mild (pc_cmd c)) pcs = true.
Proof.
  unfold dropIndexes. destruct (addIndexes t l) as [rs|] eqn:E; [|discriminate]. intros H. inversion H; subst.
  apply forallb_forall. intros c Hc. apply in_map_iff in Hc. destruct Hc as [c0 [Ec Hc0]]. subst c. simpl.
  destruct (addIndexes_reverse t l rs c0 E Hc0) as [n Hn]. rewrite Hn. reflexivity.
Qed.

Lemma addTable_mild x pcs : addTable x = Some pcs -> forallb (fun c => mild (pc_cmd c)) pcs = true.
Proof.
  unfold addTable. destruct (negb (forallb (column_ok x) (t_cols (x_t x)))); [discriminate|].
  destruct (addIndexes (x_t x) (t_idx (x_t x))) as [idxs|] eqn:E; [|discriminate]. intros H. inversion H; subst.
  simpl. apply (addIndexes_mild _ _ _ E).
Qed.

Lemma alterTable_mild from tox cs pcs : alterTable from tox cs = Some pcs -> forallb (fun c => mild (pc_cmd c)) pcs = true.
Proof.
  revert pcs. induction cs as [|c cs IH]; simpl; intros pcs H; [inversion H; reflexivity|].
  match type of H with (match ?X with _ => _ end) = _ => destruct X as [a|] eqn:EA; [|discriminate] end.
  destruct (alterTable from tox cs) as [b|]; [|discriminate]. inversion H; subst.
  rewrite forallb_app, (IH b eq_refl), andb_true_r.
  destruct c as [n|n|n k|n|n|n k| | |k|a0 b0|s0|s0|s0 k|n e|n e|n e n2 e2|a0|a0|a0]; try discriminate.
  - destruct (find_col n (t_cols (x_t tox))) as [col|]; [|discriminate].
    destruct (column_ok tox col); [|discriminate]. inversion EA; subst. reflexivity.
  - destruct (find_idx n (t_idx (x_t tox))) as [[k i]|]; [|discriminate]. exact (addIndexes_mild (x_t tox) [i] a EA).
  - destruct (find_idx n (t_idx from)) as [[k i]|]; [|discriminate]. exact (dropIndexes_mild (x_t tox) [i] a EA).
Qed.

(** the invariant of [plan_loop]: without [skipFKs] every statement so far is mild; there is never a pragma *)
Definition loop_inv (s : pstate) : Prop :=
  forallb (fun c => negb (is_pragma (pc_cmd c))) (ps_changes s) = true /\
  (ps_skipFKs s = false -> forallb (fun c => mild (pc_cmd c)) (ps_changes s) = true).

Lemma mild_no_pragma l : forallb (fun c : pchange => mild (pc_cmd c)) l = true ->
                         forallb (fun c => negb (is_pragma (pc_cmd c))) l = true.
Proof.
  intros H. apply forallb_forall. intros c Hc. apply (proj1 (forallb_forall _ _) H) in Hc.
  unfold mild in Hc. apply andb_true_iff in Hc. tauto.
Qed.

Lemma inv_append s r : loop_inv s -> forallb (fun c => mild (pc_cmd c)) r = true -> loop_inv (ps_append s r).
Proof.
  intros [I1 I2] H. split; simpl.
  - rewrite forallb_app, I1. apply mild_no_pragma. exact H.
  - intros E. rewrite forallb_app, (I2 E). exact H.
Qed.

Lemma modifyTable_inv from tox cs r sk :
  modifyTable from tox cs = Some (r, sk) ->
  forallb (fun c => negb (is_pragma (pc_cmd c))) r = true /\ (sk = false -> forallb (fun c => mild (pc_cmd c)) r = true).
Proof.
  unfold modifyTable. destruct (alterable (x_t tox) cs).
  - destruct (alterTable from tox cs) as [r0|] eqn:E; [|discriminate]. intros H. inversion H; subst.
    assert (M := alterTable_mild _ _ _ _ E). split; [apply mild_no_pragma; exact M|intros _; exact M].
  - destruct (addTable _) as [created|] eqn:EC; [|discriminate].
    destruct (copyRows _ _ cs) as [ins|] eqn:EI; [|discriminate].
    destruct (addIndexes (x_t tox) (t_idx (x_t tox))) as [idxs|] eqn:EX; [|discriminate].
    intros H. inversion H; subst. split; [|discriminate].
    rewrite !forallb_app. cbn [forallb pc_cmd is_pragma negb andb].
    rewrite (mild_no_pragma _ (addTable_mild _ _ EC)), (mild_no_pragma _ (addIndexes_mild _ _ _ EX)).
    unfold copyRows in EI. destruct (copy_cols _ cs) as [[|p prs]|]; inversion EI; subst; reflexivity.
Qed.

Lemma plan_loop_inv from to cs : forall s s', loop_inv s -> plan_loop from to cs s = Some s' -> loop_inv s'.
Proof.
  induction cs as [|c cs IH]; intros s s' I H; simpl in H; [inversion H; subst; exact I|].
  match type of H with (match ?X with _ => _ end) = _ => destruct X as [s1|] eqn:E1; [|discriminate] end.
  apply (IH s1 s'); [|exact H]. clear H IH.
  destruct c as [n|n|n sub].
  - destruct (find_xtable n to) as [x|]; [|discriminate]. destruct (addTable x) as [r|] eqn:EA; [|discriminate].
    inversion E1; subst. apply inv_append; [exact I|eapply addTable_mild; eauto].
  - destruct (find_xtable n from) as [x|]; [|discriminate]. destruct (dropTable x) as [r|] eqn:ED; [|discriminate].
    inversion E1; subst. destruct I as [I1 _]. split; [|discriminate]. simpl.
    unfold dropTable in ED. destruct (addTable x); [|discriminate]. inversion ED; subst.
    rewrite forallb_app, I1. reflexivity.
  - destruct (find_xtable n from) as [xf|]; [|discriminate]. destruct (find_xtable n to) as [xt|]; [|discriminate].
    destruct (normalized_to xt) as [xt'|]; [|discriminate].
    destruct (modifyTable (x_t xf) xt' sub) as [[r sk]|] eqn:EM; [|discriminate].
    inversion E1; subst. destruct (modifyTable_inv _ _ _ _ _ EM) as [M1 M2]. destruct I as [I1 I2].
    destruct sk; split; simpl.
    + rewrite forallb_app, I1, M1. reflexivity.
    + discriminate.
    + rewrite forallb_app, I1, M1. reflexivity.
    + intros E. rewrite forallb_app, (I2 E), (M2 eq_refl). reflexivity.
Qed.

(** [PlanChanges]: the bracket *)
Theorem plan_fk_bracket from to cs p :
  PlanChanges from to cs = Some p ->
  exists (body : list pchange) (sk : bool),
    p_changes p = (if sk then mkPC (SPragmaFK false) [] CmFKOff :: body ++ [mkPC (SPragmaFK true) [] CmFKOn] else body) /\
    forallb (fun c => negb (is_pragma (pc_cmd c))) body = true /\
    (sk = false -> forallb (fun c => negb (is_drop_table (pc_cmd c))) body = true) /\
    p_reversible p = set_reversible body /\ p_transactional p = true.
Proof.
  unfold PlanChanges. destruct (plan_loop from to cs (mkPS [] false)) as [s|] eqn:E; [|discriminate].
  intros H. inversion H; subst. clear H.
  assert (I0 : loop_inv (mkPS [] false)) by (split; [reflexivity|intros _; reflexivity]).
  destruct (plan_loop_inv from to cs _ _ I0 E) as [I1 I2].
  exists (ps_changes s), (ps_skipFKs s). cbn [p_changes p_reversible p_transactional].
  split; [destruct (ps_skipFKs s); reflexivity|]. split; [exact I1|]. split; [|split; reflexivity].
  intros E2. specialize (I2 E2). apply forallb_forall. intros c Hc. apply (proj1 (forallb_forall _ _) I2) in Hc.
  unfold mild in Hc. apply andb_true_iff in Hc. tauto.
Qed.
