(** C01: one step of the plan -- the change of one current table (drop / nothing / ALTER / rebuild)
    and the addition of one desired table: plan, execution, and the invariant of the whole run. *)
From Coq Require Import List NArith ZArith Bool Arith Lia Permutation.
From Atlas Require Import Base.Bytes Diff.Schema Diff.DiffModel Diff.DiffSqlite Diff.DiffProofs Diff.DiffSqliteProofs
  Sqlite.PlanModel Sqlite.EngineModel Sqlite.InspectModel Sqlite.ConvergeDefs Sqlite.ConvergeTable Sqlite.ConvergeEngine
  Sqlite.ConvergePlan Sqlite.ConvergeAlter Sqlite.ConvergeNames Sqlite.ConvergeCopy.
Import ListNotations.

(** ** what is asked of a desired table *)
Definition bx_names (bx : xtable) : list str := x_name bx :: map i_name (t_idx (x_t bx)).
Definition b_names (B : xschema) : list str := flat_map bx_names B.

Record desired_ok (bx : xtable) : Prop := {
  do_ct : exists ct0, new_ctable (strip_idx bx) [] = Ok ct0;
  do_colok : forallb (column_ok bx) (t_cols (x_t bx)) = true;
  do_noauto : no_auto_names (t_idx (x_t bx));
  do_idx : forall i, In i (t_idx (x_t bx)) -> index_def_ok (x_t bx) i = Ok tt;
  (* the table, its columns and its indexes survive CREATE + inspect without a difference *)
  do_rt : forall ct0, new_ctable (strip_idx bx) [] = Ok ct0 -> table_synced (add_idx (t_idx (x_t bx)) ct0) bx;
  do_crt : forall cb, In cb (t_cols (x_t bx)) -> colchg (inspect_column cb) cb = Some 0%N;
  do_irt : forall ib, In ib (t_idx (x_t bx)) -> index_change sqlite_driver (inspect_index ib) ib = 0%N
}.

Lemma nodup_strs_NoDup l : nodup_strs l = true -> NoDup l.
Proof.
  induction l as [|x l IH]; simpl; intros H; [constructor|]. apply andb_true_iff in H. destruct H as [H1 H2].
  constructor; [|apply IH; exact H2]. intros Hin. apply negb_true_iff in H1.
  assert (E : existsb (str_eqb x) l = true) by (apply existsb_exists; exists x; split; [exact Hin|apply str_eqb_refl]).
  congruence.
Qed.

Lemma table_checks_facts x pk :
  table_checks x [] = Ok pk ->
  NoDup (map c_name (t_cols (x_t x))) /\ forall c, In c (t_cols (x_t x)) -> column_def_ok (x_t x) c = Ok tt.
Proof.
  unfold table_checks. intros H. destruct (t_idx (x_t x)); [|discriminate].
  destruct (nodup_strs (map c_name (t_cols (x_t x)))) eqn:EN; [|discriminate]. simpl in H.
  destruct (negb (existsb _ (t_cols (x_t x)))); [discriminate|].
  destruct (first_err (column_def_ok (x_t x)) (t_cols (x_t x))) as [[]|] eqn:EF; [|discriminate].
  split; [apply nodup_strs_NoDup; exact EN|apply first_err_all; exact EF].
Qed.

Lemma desired_cols bx : desired_ok bx ->
  NoDup (map c_name (t_cols (x_t bx))) /\ (forall c, In c (t_cols (x_t bx)) -> column_def_ok (x_t bx) c = Ok tt) /\
  (forall c, In c (t_cols (x_t bx)) -> c_class c <> 0%N).
Proof.
  intros D. destruct (do_ct bx D) as [ct0 HC]. destruct (new_ctable_shape _ _ HC) as [pk [EP _]].
  destruct (table_checks_facts _ _ EP) as [H1 H2]. cbn [strip_idx x_t set_x_t t_cols set_t_idx] in H1, H2.
  split; [exact H1|]. split.
  - intros c Hc. rewrite <- (H2 c Hc). apply column_def_ok_strict. reflexivity.
  - intros c Hc E. specialize (H2 c Hc). unfold column_def_ok in H2. rewrite E in H2. simpl in H2. discriminate.
Qed.

(** ** what is asked of the database and of the pair *)
Record db_ok (d : db) : Prop := {
  dk_names : NoDup (all_names (db_tables d));
  dk_good : forall c, In c (db_tables d) -> good_ct c;
  dk_class : forall c col, In c (db_tables d) -> In col (t_cols (ct_t c)) -> c_class col <> 0%N;
  dk_rev : forall c, In c (db_tables d) -> addTable (inspect_table c) <> None;
  dk_tx : db_tx d = false
}.

Record compatible (d : db) (B : xschema) : Prop := {
  cp_bnames : NoDup (b_names B);
  cp_new : forall bx, In bx B ->
      ~ In (NEW_ ++ x_name bx) (all_names (db_tables d)) /\ ~ In (NEW_ ++ x_name bx) (b_names B) /\
      (forall c, In c (db_tables d) -> no_refs (NEW_ ++ x_name bx) (ct_t c)) /\
      (forall bx', In bx' B -> no_refs (NEW_ ++ x_name bx) (x_t bx'));
  cp_idx : forall bx i, In bx B -> In i (t_idx (x_t bx)) ->
      ~ In (i_name i) (map ct_name (db_tables d)) /\
      (forall c, In c (db_tables d) -> In (i_name i) (map i_name (t_idx (ct_t c))) -> ct_name c = x_name bx);
  cp_tbl : forall bx c, In bx B -> In c (db_tables d) -> ~ In (x_name bx) (map i_name (t_idx (ct_t c)));
  cp_autoinc : forall bx c cb, In bx B -> In c (db_tables d) -> ct_name c = x_name bx -> In cb (t_cols (x_t bx)) ->
      has_autoinc bx (c_name cb) = true -> has_col (ct_t c) (c_name cb) = true
}.

Section Step.
Variable nm : str.
Variable d0 : db.
Variable B : xschema.
Hypothesis DOK : db_ok d0.
Hypothesis BOK : forall bx, In bx B -> desired_ok bx.
Hypothesis CP : compatible d0 B.

Let T0 := db_tables d0.
Let A := inspect d0.

(** a processed entry *)
Definition done (c : ctable) : Prop :=
  exists bx, In bx B /\ ct_name c = x_name bx /\ table_synced c bx /\ (forall x, In x (ct_names c) -> In x (bx_names bx)).

(** the state of the run: [l] = the current tables not yet visited *)
Record inv (l T : list ctable) : Prop := {
  iv_names : NoDup (all_names T);
  iv_pending : forall c, In c l -> In c T;
  iv_all : forall c, In c T -> In c l \/ done c;
  iv_refs : forall c bx, In c T -> In bx B -> no_refs (NEW_ ++ x_name bx) (ct_t c)
}.

Lemma NoDup_B_names : NoDup (map x_name B).
Proof.
  assert (H := cp_bnames d0 B CP). unfold b_names in H. clear -H.
  induction B as [|bx l IH]; [constructor|]. cbn [flat_map map] in *.
  change (NoDup (x_name bx :: (map i_name (t_idx (x_t bx)) ++ flat_map bx_names l))) in H.
  inversion H as [|y ys Hy Hys]; subst.
  constructor; [|apply IH; eapply NoDup_app_r; eauto].
  intros X. apply Hy. apply in_or_app. right. apply in_map_iff in X. destruct X as [b' [E Hb']].
  apply in_flat_map. exists b'. split; [exact Hb'|]. left. exact E.
Qed.

Lemma find_xtable_B bx : In bx B -> find_xtable (x_name bx) B = Some bx.
Proof. intros H. apply (kfind_nodup x_name); [exact NoDup_B_names|exact H]. Qed.

Lemma b_names_disjoint bx bx' x : In bx B -> In bx' B -> In x (bx_names bx) -> In x (bx_names bx') -> bx = bx'.
Proof.
  assert (H := cp_bnames d0 B CP). unfold b_names in H. clear -H. revert H.
  induction B as [|b l IH]; intros H H1 H2 X1 X2; [destruct H1|]. cbn [flat_map] in H.
  assert (HL := NoDup_app_l _ _ H). assert (HR := NoDup_app_r _ _ H).
  destruct H1 as [<-|H1], H2 as [<-|H2].
  - reflexivity.
  - exfalso. apply (NoDup_app_disj _ _ x H X1). apply in_flat_map. exists bx'. split; assumption.
  - exfalso. apply (NoDup_app_disj _ _ x H X2). apply in_flat_map. exists bx. split; assumption.
  - apply IH; assumption.
Qed.

Lemma bx_names_NoDup bx : In bx B -> NoDup (bx_names bx).
Proof.
  assert (H := cp_bnames d0 B CP). unfold b_names in H. clear -H. revert H.
  induction B as [|b l IH]; intros H H1; [destruct H1|]. cbn [flat_map] in H. destruct H1 as [<-|H1].
  - eapply NoDup_app_l; eauto.
  - apply IH; [eapply NoDup_app_r; eauto|exact H1].
Qed.

(** *** freshness of names, from the invariant *)
Lemma inv_names_bound l T x :
  inv l T -> incl l T0 -> In x (all_names T) -> In x (all_names T0) \/ In x (b_names B).
Proof.
  intros I L Hx. apply in_all_names in Hx. destruct Hx as [c [Hc Hx]].
  destruct (iv_all l T I c Hc) as [Hl|[bx [Hb [_ [_ Hn]]]]].
  - left. apply in_all_names. exists c. split; [apply L; exact Hl|exact Hx].
  - right. unfold b_names. apply in_flat_map. exists bx. split; [exact Hb|apply Hn; exact Hx].
Qed.

Lemma inv_idx_fresh l T bx i c' :
  inv l T -> incl l T0 -> In bx B -> In i (t_idx (x_t bx)) -> In c' T -> ct_name c' <> x_name bx ->
  ~ In (i_name i) (ct_names c').
Proof.
  intros I L Hb Hi Hc Hne Hin.
  destruct (iv_all l T I c' Hc) as [Hl|[bx' [Hb' [Hn' [_ Hns]]]]].
  - destruct (cp_idx d0 B CP bx i Hb Hi) as [P1 P2]. destruct Hin as [Hin|Hin].
    + apply P1. rewrite <- Hin. apply in_map. apply L. exact Hl.
    + apply Hne. apply P2; [apply L; exact Hl|exact Hin].
  - assert (E : bx = bx').
    { apply (b_names_disjoint bx bx' (i_name i)); auto. right. apply in_map. exact Hi. }
    subst bx'. contradiction.
Qed.

Lemma find_xtable_A c : In c T0 -> find_xtable (ct_name c) A = Some (inspect_table c).
Proof.
  intros Hc. unfold A, inspect. fold T0.
  assert (ND : NoDup (map ct_name T0)) by (apply all_names_NoDup_tables; apply (dk_names d0 DOK)).
  clear -Hc ND. unfold find_xtable. induction T0 as [|c0 l IH]; [destruct Hc|]. simpl in *.
  inversion ND as [|x xs Hx Hxs]; subst.
  change (x_name (inspect_table c0)) with (ct_name c0).
  destruct Hc as [->|Hc]; [rewrite str_eqb_refl; reflexivity|].
  destruct (str_eqb (ct_name c0) (ct_name c)) eqn:E; [|apply IH; assumption].
  apply str_eqb_eq in E. exfalso. apply Hx. rewrite E. apply in_map. exact Hc.
Qed.

Definition step_post (c : ctable) (l T : list ctable) (dcur : db) (pcs : list pchange) (T' : list ctable) : Prop :=
  exec_all dcur (map pc_cmd pcs) = Ok (set_tables dcur T') /\ inv l T' /\
  (forall bx, In bx B -> x_name bx = ct_name c -> exists c', In c' T' /\ ct_name c' = x_name bx) /\
  (forall c2, In c2 T -> ct_name c2 <> ct_name c -> exists c3, In c3 T' /\ ct_name c3 = ct_name c2) /\
  (forall c3, In c3 T' -> exists c2, In c2 T /\ ct_name c2 = ct_name c3).

Lemma inv_table_names l T : inv l T -> NoDup (map ct_name T).
Proof. intros I. apply all_names_NoDup_tables. apply (iv_names l T I). Qed.

(** *** the current table is not in the desired schema: DROP TABLE *)
Lemma step_drop c l T dcur s :
  inv (c :: l) T -> incl (c :: l) T0 -> NoDup (map ct_name (c :: l)) -> db_tables dcur = T -> db_fk dcur = false ->
  find_xtable (ct_name c) B = None ->
  exists pcs T', plan_loop A B [DropTable (ct_name c)] s = Some (mkPS (ps_changes s ++ pcs) true) /\
                 step_post c l T dcur pcs T'.
Proof.
  intros I L NDL HT FK FB.
  assert (Hc0 : In c T0) by (apply L; left; reflexivity).
  assert (HcT : In c T) by (apply (iv_pending _ _ I); left; reflexivity).
  assert (NDT := inv_table_names _ _ I).
  cbn [plan_loop]. rewrite (find_xtable_A c Hc0). unfold dropTable.
  destruct (addTable (inspect_table c)) as [rs|] eqn:EA; [|exfalso; exact (dk_rev d0 DOK c Hc0 EA)].
  exists [mkPC (SDropTable (x_name (inspect_table c))) (map pc_cmd rs) CmDropTable], (remove_ct (ct_name c) T).
  split; [reflexivity|]. unfold step_post. repeat split.
  - cbn [map pc_cmd exec_all]. change (x_name (inspect_table c)) with (ct_name c).
    rewrite (exec_drop_table dcur (ct_name c) c FK); [rewrite HT; reflexivity|].
    rewrite HT. apply find_ct_unique; assumption.
  - apply all_names_remove_NoDup. apply (iv_names _ _ I).
  - intros c' Hc'. apply (remove_ct_in _ _ _ NDT). split; [apply (iv_pending _ _ I); right; exact Hc'|].
    inversion NDL as [|x xs Hx Hxs]; subst. intros E. apply Hx. rewrite <- E. apply in_map. exact Hc'.
  - intros c' Hc'. apply (remove_ct_in _ _ _ NDT) in Hc'. destruct Hc' as [Hc' Hne].
    destruct (iv_all _ _ I c' Hc') as [[<-|H]|H]; [congruence|left; exact H|right; exact H].
  - intros c' bx Hc' Hb. apply (remove_ct_in _ _ _ NDT) in Hc'. apply (iv_refs _ _ I); tauto.
  - intros bx Hb E. exfalso. rewrite <- E in FB. rewrite (find_xtable_B bx Hb) in FB. discriminate.
  - intros c2 H2 Hne. exists c2. split; [apply (remove_ct_in _ _ _ NDT); tauto|reflexivity].
  - intros c3 H3. exists c3. split; [apply (remove_ct_in _ _ _ NDT) in H3; tauto|reflexivity].
Qed.

(** the indexes of a table whose diff has no DropIndex are all desired *)
Lemma idx_found_of_facts a b cs i :
  cs = col_add (t_cols a) (t_cols b) ++ flat_map (idx_dm_of (t_idx b)) (t_idx a) ++ flat_map (idx_add_of (t_idx a)) (t_idx b) ->
  In i (t_idx a) -> ~ In (DropIndex (i_name i)) cs -> kfind i_name (i_name i) (t_idx b) <> None.
Proof.
  intros E Hi Hn F. apply Hn. rewrite E. apply in_or_app. right. apply in_or_app. left.
  apply in_flat_map. exists i. split; [exact Hi|]. unfold idx_dm_of. rewrite F. left. reflexivity.
Qed.

(** *** the current table has no difference: nothing is planned *)
Lemma step_same c l T dcur bx :
  inv (c :: l) T -> incl (c :: l) T0 -> NoDup (map ct_name (c :: l)) -> db_tables dcur = T ->
  In bx B -> x_name bx = ct_name c -> tdiff (x_t (inspect_table c)) (x_t bx) = Some [] ->
  step_post c l T dcur [] T.
Proof.
  intros I L NDL HT Hb HN HD.
  assert (Hc0 : In c T0) by (apply L; left; reflexivity).
  assert (HcT : In c T) by (apply (iv_pending _ _ I); left; reflexivity).
  assert (G := dk_good d0 DOK c Hc0).
  unfold step_post. repeat split.
  - simpl. rewrite <- HT. destruct dcur; reflexivity.
  - apply (iv_names _ _ I).
  - intros c' Hc'. apply (iv_pending _ _ I). right. exact Hc'.
  - intros c' Hc'. destruct (iv_all _ _ I c' Hc') as [[<-|H]|H]; [|left; exact H|right; exact H].
    right. exists bx. split; [exact Hb|]. split; [symmetry; exact HN|]. split; [exact HD|].
    intros x [<-|Hx]; [left; exact HN|]. right.
    apply in_map_iff in Hx. destruct Hx as [i0 [E Hi0]]. subst x.
    set (a := x_t (inspect_table c)) in *. set (b := x_t bx) in *.
    destruct (inspect_table_fields c (g_uniq c G)) as [A1 [A2 [A3 [A4 [A5 [A6 [A7 A8]]]]]]]. fold a in A6.
    assert (GA : forall i, In i (t_idx a) -> sqlite_is_generated_index_name (set_t_name a (t_name b)) i = false).
    { intros i Hi. apply not_generated_name. rewrite A6 in Hi. apply in_map_iff in Hi. destruct Hi as [i1 [E Hi1]].
      subst i. simpl. apply (g_idx c G). exact Hi1. }
    destruct (alterable_facts a b [] HD eq_refl (no_auto_norm_stable _ (do_noauto bx (BOK bx Hb))) GA) as [_ ECS].
    assert (X : kfind i_name (i_name (inspect_index i0)) (t_idx b) <> None).
    { apply (idx_found_of_facts a b [] (inspect_index i0) ECS); [rewrite A6; apply in_map; exact Hi0|intros []]. }
    simpl in X. destruct (kfind i_name (i_name i0) (t_idx b)) as [ib|] eqn:F; [|congruence].
    apply kfind_some_in in F. destruct F as [F1 F2]. rewrite <- F2. apply in_map. exact F1.
  - intros c' bx' Hc' Hb'. apply (iv_refs _ _ I); assumption.
  - intros bx' Hb' E. exists c. split; [exact HcT|symmetry; exact E].
  - intros c2 H2 Hne. exists c2. split; [exact H2|reflexivity].
  - intros c3 H3. exists c3. split; [exact H3|reflexivity].
Qed.

Lemma kept_idx_found c b i0 :
  In i0 (kept_idx c b) -> ct_uniques c = [] -> kfind i_name (i_name i0) (t_idx b) <> None.
Proof.
  intros H U F. unfold kept_idx in H. apply filter_In in H. destruct H as [Hin Hk]. apply negb_true_iff in Hk.
  destruct (inspect_table_fields c U) as [_ [_ [_ [_ [_ [A6 _]]]]]].
  assert (X : existsb (str_eqb (i_name i0)) (map i_name (dropped_idx (t_idx (x_t (inspect_table c))) (t_idx b))) = true).
  { apply existsb_exists. exists (i_name (inspect_index i0)). split; [|apply str_eqb_refl].
    apply in_map. unfold dropped_idx. apply filter_In. split; [rewrite A6; apply in_map; exact Hin|].
    simpl. rewrite F. reflexivity. }
  congruence.
Qed.

Lemma alter_ct_name c b : ct_name (alter_ct c b) = ct_name c.
Proof. destruct c as [[t ai] u r]. destruct t. reflexivity. Qed.

Lemma idx_names_NoDup bx : In bx B -> NoDup (map i_name (t_idx (x_t bx))) /\ forall i, In i (t_idx (x_t bx)) -> i_name i <> x_name bx.
Proof.
  intros Hb. assert (H := bx_names_NoDup bx Hb). unfold bx_names in H. inversion H as [|x xs Hx Hxs]; subst.
  split; [exact Hxs|]. intros i Hi E. apply Hx. rewrite <- E. apply in_map. exact Hi.
Qed.

(** *** the difference is ALTER-able *)
Lemma step_alter c l T dcur s bx cs :
  inv (c :: l) T -> incl (c :: l) T0 -> NoDup (map ct_name (c :: l)) -> db_tables dcur = T ->
  In bx B -> x_name bx = ct_name c -> tdiff (x_t (inspect_table c)) (x_t bx) = Some cs -> alterable (x_t bx) cs = true ->
  exists pcs T', plan_loop A B [ModifyTable (x_name bx) cs] s = Some (mkPS (ps_changes s ++ pcs) (ps_skipFKs s)) /\
                 step_post c l T dcur pcs T'.
Proof.
  intros I L NDL HT Hb HN HD HAL.
  assert (Hc0 : In c T0) by (apply L; left; reflexivity).
  assert (HcT : In c T) by (apply (iv_pending _ _ I); left; reflexivity).
  assert (G := dk_good d0 DOK c Hc0).
  assert (NDT := inv_table_names _ _ I).
  assert (D := BOK bx Hb).
  destruct (desired_cols bx D) as [NDC [CDEF _]].
  destruct (idx_names_NoDup bx Hb) as [NDI INE].
  set (a := x_t (inspect_table c)) in *. set (b := x_t bx) in *.
  assert (FT : find_ct (x_name bx) T = Some c) by (rewrite HN; apply find_ct_unique; assumption).
  destruct (inspect_table_fields c (g_uniq c G)) as [A1 [A2 [A3 [A4 [A5 [A6 [A7 A8]]]]]]]. fold a in A1, A2, A3, A4, A5, A6, A7, A8.
  assert (FRESH : forall ib, In ib (added_idx (t_idx a) (t_idx b)) -> ~ In (i_name ib) (all_names T)).
  { intros ib Hib Hin. unfold added_idx in Hib. apply filter_In in Hib. destruct Hib as [Hib Hnone].
    apply in_all_names in Hin. destruct Hin as [c' [Hc' Hx]].
    destruct (bytes_eq_dec (ct_name c') (x_name bx)) as [E|E].
    - assert (c' = c).
      { rewrite HN in E. eapply NoDup_map_inj; eauto. }
      subst c'. destruct Hx as [Hx|Hx]; [apply (INE ib Hib); rewrite <- Hx; symmetry; exact HN|].
      rewrite A6 in Hnone. rewrite kfind_inspect_index in Hnone.
      apply in_map_iff in Hx. destruct Hx as [i0 [E0 Hi0]].
      assert (Y : kfind i_name (i_name i0) (t_idx (ct_t c)) <> None) by (apply (kfind_in_some i_name); exact Hi0).
      rewrite E0 in Y. destruct (kfind i_name (i_name ib) (t_idx (ct_t c))); [discriminate|congruence].
    - apply (inv_idx_fresh _ _ bx ib c' I L Hb Hib Hc' E). exact Hx. }
  destruct (alter_plan_exec dcur c bx cs) as [pcs [PL EX]]; fold a b; try assumption.
  - rewrite HT. apply (iv_names _ _ I).
  - rewrite HT. exact FT.
  - apply (do_noauto bx D).
  - apply (do_colok bx D).
  - apply (do_idx bx D).
  - intros cb Hcb. destruct (has_autoinc bx (c_name cb)) eqn:EA; [|reflexivity]. exfalso.
    unfold added_cols in Hcb. apply filter_In in Hcb. destruct Hcb as [Hcb Hnone].
    assert (X := cp_autoinc d0 B CP bx c cb Hb Hc0 (eq_sym HN) Hcb EA).
    rewrite A4, find_col_inspect in Hnone. unfold has_col in X. destruct (find_col (c_name cb) (t_cols (ct_t c))); discriminate.
  - rewrite HT. exact FRESH.
  - exists pcs, (update_ct (x_name bx) (fun _ => alter_ct c b) T).
    split.
    + cbn [plan_loop]. rewrite HN, (find_xtable_A c Hc0), <- HN, (find_xtable_B bx Hb).
      rewrite (normalized_to_id bx (do_noauto bx D)). unfold a, b in PL. rewrite PL. reflexivity.
    + destruct (alter_names (x_name bx) c b T FT (iv_names _ _ I) NDI FRESH) as [ND' NB'].
      assert (SY : table_synced (alter_ct c b) bx).
      { apply (alter_sync c bx cs); fold a b; auto.
        - apply alterable_alter_kind with (to := b). exact HAL.
        - apply (do_noauto bx D).
        - apply (do_crt bx D).
        - apply (do_irt bx D). }
      destruct (alter_ct_fields c b) as [F1 [F2 [F3 [F4 [F5 [F6 [F7 [F8 [F9 F10]]]]]]]]]. fold a in F6, F8.
      assert (DN : done (alter_ct c b)).
      { exists bx. split; [exact Hb|]. split; [rewrite alter_ct_name; symmetry; exact HN|]. split; [exact SY|].
        intros x [<-|Hx]; [left; rewrite alter_ct_name; exact HN|]. right.
        rewrite F8, map_app in Hx. apply in_app_or in Hx. destruct Hx as [Hx|Hx].
        - apply in_map_iff in Hx. destruct Hx as [i0 [E Hi0]]. subst x.
          assert (Y := kept_idx_found c b i0 Hi0 (g_uniq c G)).
          destruct (kfind i_name (i_name i0) (t_idx b)) as [ib|] eqn:F; [|congruence].
          apply kfind_some_in in F. destruct F as [Fa Fb]. rewrite <- Fb. apply in_map. exact Fa.
        - apply in_map_iff in Hx. destruct Hx as [i0 [E Hi0]]. subst x. apply in_map.
          unfold added_idx in Hi0. apply filter_In in Hi0. tauto. }
      unfold step_post. repeat split.
      * rewrite <- HT. exact EX.
      * exact ND'.
      * intros c' Hc'. apply (update_ct_in _ _ _ _ NDT). right. split; [apply (iv_pending _ _ I); right; exact Hc'|].
        inversion NDL as [|x xs Hx Hxs]; subst. intros E. apply Hx. rewrite <- HN, <- E. apply in_map. exact Hc'.
      * intros c' Hc'. apply (update_ct_in _ _ _ _ NDT) in Hc'. destruct Hc' as [[ct [Fc Ec]]|[Hc' Hne]].
        -- right. subst c'. exact DN.
        -- destruct (iv_all _ _ I c' Hc') as [[<-|H]|H]; [congruence|left; exact H|right; exact H].
      * intros c' bx' Hc' Hb'. apply (update_ct_in _ _ _ _ NDT) in Hc'. destruct Hc' as [[ct [Fc Ec]]|[Hc' Hne]].
        -- subst c'. intros f Hf. rewrite F9 in Hf. exact (iv_refs _ _ I c bx' HcT Hb' f Hf).
        -- apply (iv_refs _ _ I); assumption.
      * intros bx' Hb' E. exists (alter_ct c b). split.
        -- apply (update_ct_in _ _ _ _ NDT). left. exists c. split; [exact FT|reflexivity].
        -- rewrite alter_ct_name. symmetry. exact E.
      * intros c2 H2 Hne. exists c2. split; [|reflexivity]. apply (update_ct_in _ _ _ _ NDT). right. split; [exact H2|congruence].
      * intros c3 H3. apply (update_ct_in _ _ _ _ NDT) in H3. destruct H3 as [[ct [Fc Ec]]|[H3 _]].
        -- exists c. split; [exact HcT|]. subst c3. rewrite alter_ct_name. reflexivity.
        -- exists c3. split; [exact H3|reflexivity].
Qed.

(** the entry a CREATE TABLE + CREATE INDEX of a desired table leaves is "done" *)
Lemma created_done bx ct0 :
  In bx B -> new_ctable (strip_idx bx) [] = Ok ct0 ->
  done (add_idx (t_idx (x_t bx)) ct0) /\ ct_names (add_idx (t_idx (x_t bx)) ct0) = bx_names bx /\
  t_fks (ct_t (add_idx (t_idx (x_t bx)) ct0)) = t_fks (x_t bx).
Proof.
  intros Hb HC. destruct (new_ctable_shape _ _ HC) as [pk [EP [E0 ER]]]. subst ct0.
  assert (N : ct_names (add_idx (t_idx (x_t bx)) (entry_of (strip_idx bx) pk)) = bx_names bx) by reflexivity.
  split; [|split; [exact N|reflexivity]].
  exists bx. split; [exact Hb|]. split; [reflexivity|]. split; [apply (do_rt bx (BOK bx Hb)); exact HC|].
  intros x Hx. rewrite N in Hx. exact Hx.
Qed.

(** *** the difference needs the rebuild *)
Lemma step_rebuild c l T dcur s bx cs :
  inv (c :: l) T -> incl (c :: l) T0 -> NoDup (map ct_name (c :: l)) -> db_tables dcur = T -> db_fk dcur = false ->
  In bx B -> x_name bx = ct_name c -> tdiff (x_t (inspect_table c)) (x_t bx) = Some cs -> alterable (x_t bx) cs = false ->
  exists pcs T', plan_loop A B [ModifyTable (x_name bx) cs] s = Some (mkPS (ps_changes s ++ pcs) true) /\
                 step_post c l T dcur pcs T'.
Proof.
  intros I L NDL HT FK Hb HN HD HAL.
  assert (Hc0 : In c T0) by (apply L; left; reflexivity).
  assert (HcT : In c T) by (apply (iv_pending _ _ I); left; reflexivity).
  assert (G := dk_good d0 DOK c Hc0).
  assert (NDT := inv_table_names _ _ I).
  assert (D := BOK bx Hb).
  destruct (desired_cols bx D) as [NDC [CDEF _]].
  destruct (idx_names_NoDup bx Hb) as [NDI INE].
  destruct (do_ct bx D) as [ct0 HC].
  destruct (new_ctable_shape _ _ HC) as [pk [EP [E0 ER]]].
  set (a := x_t (inspect_table c)) in *. set (b := x_t bx) in *.
  assert (FT : find_ct (x_name bx) T = Some c) by (rewrite HN; apply find_ct_unique; assumption).
  destruct (inspect_table_fields c (g_uniq c G)) as [A1 [A2 [A3 [A4 [A5 [A6 [A7 A8]]]]]]]. fold a in A1, A2, A3, A4, A5, A6, A7, A8.
  assert (GA : forall i, In i (t_idx a) -> sqlite_is_generated_index_name (set_t_name a (t_name b)) i = false).
  { intros i Hi. apply not_generated_name. rewrite A6 in Hi. apply in_map_iff in Hi. destruct Hi as [i1 [E Hi1]].
    subst i. simpl. apply (g_idx c G). exact Hi1. }
  assert (NDA : NoDup (map c_name (t_cols a))).
  { rewrite A4, map_map. simpl. apply (g_cols c G). }
  destruct (rebuild_plan bx a cs HD HAL (do_noauto bx D) GA NDA NDC (do_colok bx D)) as [pcs [ins [PL [ST INS]]]].
  fold b in ST, INS.
  destruct (cp_new d0 B CP bx Hb) as [N1 [N2 [N3 N4]]].
  destruct (created_done bx ct0 Hb HC) as [DN [NMS FKS]]. fold b in DN, NMS, FKS.
  exists pcs, (remove_ct (x_name bx) T ++ [add_idx (t_idx b) ct0]).
  split.
  { cbn [plan_loop]. rewrite HN, (find_xtable_A c Hc0), <- HN, (find_xtable_B bx Hb).
    rewrite (normalized_to_id bx (do_noauto bx D)). unfold a in PL. rewrite PL. reflexivity. }
  assert (FRI : forall i, In i (t_idx b) -> ~ In (i_name i) (all_names (remove_ct (x_name bx) T)) /\ i_name i <> x_name bx).
  { intros i Hi. split; [|apply INE; exact Hi]. intros Hin. apply in_all_names in Hin. destruct Hin as [c' [Hc' Hx]].
    apply (remove_ct_in _ _ _ NDT) in Hc'. destruct Hc' as [Hc' Hne].
    exact (inv_idx_fresh _ _ bx i c' I L Hb Hi Hc' Hne Hx). }
  assert (EX : exec_all dcur (map pc_cmd pcs) = Ok (set_tables dcur (remove_ct (x_name bx) T ++ [add_idx (t_idx b) ct0]))).
  { rewrite ST, <- HT. apply (exec_rebuild dcur bx ct0 c ins); try assumption.
    - rewrite HT. apply (iv_names _ _ I).
    - rewrite HT. exact FT.
    - apply (g_rows c G).
    - rewrite HT. intros X. destruct (inv_names_bound _ _ _ I L X) as [Y|Y]; [exact (N1 Y)|exact (N2 Y)].
    - rewrite HT. intros c' Hc'. apply (iv_refs _ _ I c' bx Hc' Hb).
    - apply N4. exact Hb.
    - destruct ins as [[tc fe]|]; [|exact Logic.I]. destruct INS as [HL [HNE [HTC HFE]]].
      unfold copy_ok. split; [exact HL|]. split; [exact HNE|]. split.
      + intros cn Hcn. destruct (HTC cn Hcn) as [cb [Hcb [Ecb Gcb]]]. rewrite E0. unfold has_col, is_generated. cbn.
        assert (X := find_col_nodup _ cb NDC Hcb). rewrite Ecb in X. unfold find_col, b in X. rewrite X, Gcb. split; reflexivity.
      + intros e He. specialize (HFE e He). rewrite A4, find_col_inspect in HFE. unfold has_col.
        destruct (find_col (sexpr_col e) (t_cols (ct_t c))); [reflexivity|contradiction].
    - intros i Hi. rewrite <- (do_idx bx D i Hi). apply index_def_ok_cols. rewrite E0. reflexivity.
    - rewrite HT. exact FRI. }
  unfold step_post. repeat split.
  - exact EX.
  - apply all_names_snoc_NoDup.
    + apply all_names_remove_NoDup. apply (iv_names _ _ I).
    + rewrite NMS. apply bx_names_NoDup. exact Hb.
    + intros x Hx Hin. rewrite NMS in Hx. destruct Hx as [Hx|Hx].
      * (* the table name *)
        apply in_all_names in Hin. destruct Hin as [c' [Hc' Hx']]. apply (remove_ct_in _ _ _ NDT) in Hc'. destruct Hc' as [Hc' Hne].
        destruct Hx' as [Hx'|Hx']; [congruence|].
        destruct (iv_all _ _ I c' Hc') as [Hl|[bx' [Hb' [Hn' [_ Hns]]]]].
        -- apply (cp_tbl d0 B CP bx c' Hb (L c' Hl)). rewrite Hx. exact Hx'.
        -- assert (E : bx = bx').
           { apply (b_names_disjoint bx bx' x); auto; [left; exact Hx|]. apply Hns. right. exact Hx'. }
           subst bx'. congruence.
      * apply in_map_iff in Hx. destruct Hx as [i [Ei Hi]]. subst x. exact (proj1 (FRI i Hi) Hin).
  - intros c' Hc'. apply in_or_app. left. apply (remove_ct_in _ _ _ NDT). split; [apply (iv_pending _ _ I); right; exact Hc'|].
    inversion NDL as [|x xs Hx Hxs]; subst. intros E. apply Hx. rewrite <- HN, <- E. apply in_map. exact Hc'.
  - intros c' Hc'. apply in_app_or in Hc'. destruct Hc' as [Hc'|[<-|[]]]; [|right; exact DN].
    apply (remove_ct_in _ _ _ NDT) in Hc'. destruct Hc' as [Hc' Hne].
    destruct (iv_all _ _ I c' Hc') as [[<-|H]|H]; [congruence|left; exact H|right; exact H].
  - intros c' bx' Hc' Hb'. apply in_app_or in Hc'. destruct Hc' as [Hc'|[<-|[]]].
    + apply (remove_ct_in _ _ _ NDT) in Hc'. apply (iv_refs _ _ I); tauto.
    + intros f Hf. rewrite FKS in Hf. destruct (cp_new d0 B CP bx' Hb') as [_ [_ [_ M4]]]. exact (M4 bx Hb f Hf).
  - intros bx' Hb' E. exists (add_idx (t_idx b) ct0). split; [apply in_or_app; right; left; reflexivity|].
    rewrite E0. change (x_name bx = x_name bx'). rewrite HN, E. reflexivity.
  - intros c2 H2 Hne. exists c2. split; [|reflexivity]. apply in_or_app. left. apply (remove_ct_in _ _ _ NDT). split; [exact H2|congruence].
  - intros c3 H3. apply in_app_or in H3. destruct H3 as [H3|[<-|[]]].
    + exists c3. split; [apply (remove_ct_in _ _ _ NDT) in H3; tauto|reflexivity].
    + exists c. split; [exact HcT|]. rewrite E0. change (ct_name c = x_name bx). symmetry. exact HN.
Qed.

(** *** a desired table that is not in the database: CREATE TABLE + CREATE INDEX *)
Lemma step_add T dcur s bx :
  inv [] T -> db_tables dcur = T -> In bx B -> (forall c', In c' T -> ct_name c' <> x_name bx) ->
  exists pcs T', plan_loop A B [AddTable (x_name bx)] s = Some (mkPS (ps_changes s ++ pcs) (ps_skipFKs s)) /\
    exec_all dcur (map pc_cmd pcs) = Ok (set_tables dcur T') /\ inv [] T' /\
    (exists c', In c' T' /\ ct_name c' = x_name bx) /\
    (forall c2, In c2 T -> In c2 T') /\
    (forall c3, In c3 T' -> In c3 T \/ ct_name c3 = x_name bx).
Proof.
  intros I HT Hb HNEW.
  assert (D := BOK bx Hb).
  destruct (idx_names_NoDup bx Hb) as [NDI INE].
  destruct (do_ct bx D) as [ct0 HC].
  destruct (new_ctable_shape _ _ HC) as [pk [EP [E0 ER]]].
  destruct (created_done bx ct0 Hb HC) as [DN [NMS FKS]].
  destruct (addTable_stmts bx (do_colok bx D) (do_noauto bx D)) as [pcs [PA ST]].
  assert (FR : forall x, In x (bx_names bx) -> ~ In x (all_names T)).
  { intros x Hx Hin. apply in_all_names in Hin. destruct Hin as [c' [Hc' Hx']].
    destruct (iv_all _ _ I c' Hc') as [[]|[bx' [Hb' [Hn' [_ Hns]]]]].
    assert (E : bx = bx') by (apply (b_names_disjoint bx bx' x); auto).
    subst bx'. exact (HNEW c' Hc' Hn'). }
  exists pcs, (T ++ [add_idx (t_idx (x_t bx)) ct0]). split.
  { cbn [plan_loop]. rewrite (find_xtable_B bx Hb), PA. reflexivity. }
  split.
  { rewrite ST, <- HT. apply exec_add_table; try assumption.
    - rewrite HT. apply FR. left. reflexivity.
    - intros i Hi. rewrite <- (do_idx bx D i Hi). apply index_def_ok_cols. rewrite E0. reflexivity.
    - intros i Hi. split; [rewrite HT; apply FR; right; apply in_map; exact Hi|apply INE; exact Hi]. }
  split.
  { constructor.
    - apply all_names_snoc_NoDup; [apply (iv_names _ _ I)|rewrite NMS; apply bx_names_NoDup; exact Hb|].
      intros x Hx. rewrite NMS in Hx. apply FR. exact Hx.
    - intros c' [].
    - intros c' Hc'. apply in_app_or in Hc'. destruct Hc' as [Hc'|[<-|[]]]; [|right; exact DN].
      destruct (iv_all _ _ I c' Hc') as [[]|H]. right. exact H.
    - intros c' bx' Hc' Hb'. apply in_app_or in Hc'. destruct Hc' as [Hc'|[<-|[]]]; [apply (iv_refs _ _ I); assumption|].
      intros f Hf. rewrite FKS in Hf. destruct (cp_new d0 B CP bx' Hb') as [_ [_ [_ M4]]]. exact (M4 bx Hb f Hf). }
  split; [exists (add_idx (t_idx (x_t bx)) ct0); split; [apply in_or_app; right; left; reflexivity|rewrite E0; reflexivity]|].
  split; [intros c2 H2; apply in_or_app; left; exact H2|].
  intros c3 H3. apply in_app_or in H3. destruct H3 as [H3|[<-|[]]]; [left; exact H3|right; rewrite E0; reflexivity].
Qed.

End Step.
