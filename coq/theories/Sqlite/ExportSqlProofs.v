(** C03_sql over the shared SQLite model: the SQL export is the plan of (nothing -> inspected
    schema), i.e. cmdlog.sqlInspect = fmtPlan(ChangesToRealm(realm)): one AddTable per inspected
    table, in inspection order, planned in dump mode.  It is the plan [diff_and_plan] computes from an
    empty database, so C01's convergence theorem applies. *)
From Coq Require Import List NArith Bool Arith.
From Atlas Require Import Base.Bytes Diff.Schema Diff.DiffModel Diff.DiffSqlite Diff.DiffProofs
  Sqlite.PlanModel Sqlite.EngineModel Sqlite.InspectModel Sqlite.ConvergeDefs Sqlite.ConvergeSupported Sqlite.ExportDump.
Import ListNotations.

(** [changes_to_realm], [plan_dump]: Sqlite/ExportDump.v *)
Definition sql_export_roundtrip (d : db) : option (result db) :=
  match plan_dump (inspect d) with
  | Some p => Some (exec_all empty_db (plan_stmts p))
  | None => None
  end.

Lemma diff_from_nothing nm B :
  sqlite_schema_diff no_skip (schema_of nm []) (schema_of nm B) = Some (changes_to_realm B).
Proof.
  unfold sqlite_schema_diff, SchemaDiff, schema_of. cbn [s_name s_tables map].
  rewrite str_eqb_refl. cbn [negb schema_diff_from app].
  unfold schema_diff_add, add_or_skip_s, changes_to_realm. cbn [s_tables].
  induction B as [|x B IH]; [reflexivity|].
  cbn [map flat_map find_table find app filter stag_of no_skip negb].
  f_equal. f_equal. injection IH as IH. exact IH.
Qed.

Lemma plan_dump_is_create nm B : diff_and_plan nm [] B = plan_dump B.
Proof. unfold diff_and_plan, plan_dump. rewrite diff_from_nothing. reflexivity. Qed.

(** the SQL export of a database, executed on an empty engine, gives a database whose inspection
    the differ cannot tell from the inspection of the original *)
Theorem sql_export_faithful nm d :
  supported empty_db (inspect d) = true ->
  exists p d', plan_dump (inspect d) = Some p /\ exec_all empty_db (plan_stmts p) = Ok d' /\
    sqlite_schema_diff no_skip (inspect_schema nm d') (inspect_schema nm d) = Some [].
Proof.
  intro H. destruct (converges_supported nm empty_db (inspect d) H) as (p & d' & Hp & He & Hs).
  exists p, d'. change (inspect empty_db) with (@nil xtable) in Hp. rewrite plan_dump_is_create in Hp.
  split; [exact Hp|]. split; [exact He|]. exact Hs.
Qed.

(** C03_stable: inspection is a function of the catalogue (the map-order part is C20's) *)
Lemma inspect_stable d1 d2 : db_tables d1 = db_tables d2 -> inspect d1 = inspect d2.
Proof. unfold inspect. intros ->. reflexivity. Qed.

(** a witness: the database that `schema apply` of t(id integer pk, a text, b int) + unique index i1(a)
    creates; its inspection is within [supported], its SQL export re-creates it *)
Definition w_col (n T : str) (k : N) (null : bool) : column := mkColumn n k T null None None None.
Definition w_B : xschema :=
  [mkX (mkTable [116]%N false false
          [w_col [105;100]%N [105;110;116;101;103;101;114]%N 2 false; w_col [97]%N [116;101;120;116]%N 3 true;
           w_col [98]%N [105;110;116]%N 2 true]
          (Some (mkIndex [80;82;73;77;65;82;89]%N true [mkPart 1 false (Some [105;100]%N) None] None None None))
          [mkIndex [105;49]%N true [mkPart 1 false (Some [97]%N) None] None None None] [] []) []].
Definition w_db : db :=
  match apply_plan [109]%N empty_db w_B with Some (Ok d') => d' | _ => empty_db end.
Lemma w_db_supported : supported empty_db (inspect w_db) = true /\ length (inspect w_db) = 1.
Proof. vm_compute. split; reflexivity. Qed.
