(** C17 item 1 over M-SQLITE: executing a plan and then the reverse statements of its changes,
    last change first, returns the engine to the state it started from. *)
From Coq Require Import List NArith ZArith Bool Arith Lia.
From Atlas Require Import Base.Bytes Diff.Schema Diff.DiffModel Diff.DiffSqlite Diff.DiffProofs Lex.DownProofs
  Lex.DownModel Sqlite.PlanModel Sqlite.EngineModel Sqlite.InspectModel Sqlite.ReverseModel.
Import ListNotations.

(** * generic *)

Lemma str_eqb_sym a b : str_eqb a b = str_eqb b a.
Proof. apply bytes_eqb_sym. Qed.

Lemma exec_all_app l1 : forall d l2,
  exec_all d (l1 ++ l2) =
  match exec_all d l1 with Ok d' => exec_all d' l2 | Err e => Err e end.
Proof.
  induction l1 as [|s l1 IH]; intros d l2; simpl; [reflexivity|].
  destruct (exec d s); [apply IH|reflexivity].
Qed.

Lemma db_eta d : mkDB (db_tables d) (db_fk d) (db_tx d) = d.
Proof. destruct d; reflexivity. Qed.

Lemma set_tables_same d : set_tables d (db_tables d) = d.
Proof. apply db_eta. Qed.

Lemma set_tables_twice d l l' : set_tables (set_tables d l) l' = set_tables d l'.
Proof. reflexivity. Qed.

Lemma ct_eta c : mkCT (ct_x c) (ct_uniques c) (ct_rows c) = c.
Proof. destruct c; reflexivity. Qed.
Lemma x_eta x : mkX (x_t x) (x_autoinc x) = x.
Proof. destruct x; reflexivity. Qed.
Lemma t_eta t :
  mkTable (t_name t) (t_without_rowid t) (t_strict t) (t_cols t) (t_pk t) (t_idx t) (t_fks t) (t_checks t) = t.
Proof. destruct t; reflexivity. Qed.

Lemma set_t_idx_same t : set_t_idx t (t_idx t) = t.
Proof. apply t_eta. Qed.
Lemma set_ct_t_same c : set_ct_t c (ct_t c) = c.
Proof. destruct c as [[t a] u r]; reflexivity. Qed.

(** * names *)

Lemma name_used_false n l :
  name_used n l = false ->
  forall c, In c l ->
    str_eqb (ct_name c) n = false /\
    forall i, In i (t_idx (ct_t c)) -> str_eqb (i_name i) n = false.
Proof.
  unfold name_used, all_names. intros H c Hc.
  assert (Hall : forall m, In m (ct_name c :: map i_name (t_idx (ct_t c))) -> str_eqb m n = false).
  { intros m Hm. rewrite str_eqb_sym.
    destruct (str_eqb n m) eqn:E; [|reflexivity].
    assert (X : existsb (str_eqb n) (flat_map (fun c0 => ct_name c0 :: map i_name (t_idx (ct_t c0))) l) = true).
    { apply existsb_exists. exists m. split; [|exact E]. apply in_flat_map. exists c. split; assumption. }
    congruence. }
  split.
  - apply Hall. now left.
  - intros i Hi. apply Hall. right. now apply in_map.
Qed.

Lemma find_ct_app_new n l c :
  (forall c', In c' l -> str_eqb (ct_name c') n = false) -> str_eqb (ct_name c) n = true ->
  find_ct n (l ++ [c]) = Some c.
Proof.
  intros H Hc. unfold find_ct. induction l as [|a l IH]; simpl.
  - now rewrite Hc.
  - rewrite (H a (or_introl eq_refl)). apply IH. intros c' Hc'. apply H. now right.
Qed.

Lemma remove_ct_app_new n l c :
  (forall c', In c' l -> str_eqb (ct_name c') n = false) -> str_eqb (ct_name c) n = true ->
  remove_ct n (l ++ [c]) = l.
Proof.
  intros H Hc. induction l as [|a l IH]; simpl.
  - now rewrite Hc.
  - rewrite (H a (or_introl eq_refl)). f_equal. apply IH. intros c' Hc'. apply H. now right.
Qed.

(** * DROP TABLE of a table without rows changes no other table *)

Lemma fks_on_delete_nil c fks : fks_on_delete c fks [] = Ok c.
Proof.
  induction fks as [|f fks IH]; simpl; [reflexivity|].
  unfold fk_on_delete. simpl.
  replace (existsb (fun _ : row => false) (ct_rows c)) with false.
  - simpl. exact IH.
  - symmetry. induction (ct_rows c); simpl; auto.
Qed.

Lemma implicit_delete_nil n l : implicit_delete n [] l = Ok l.
Proof.
  induction l as [|c l IH]; simpl; [reflexivity|].
  rewrite IH. destruct (str_eqb (ct_name c) n); [reflexivity|].
  now rewrite fks_on_delete_nil.
Qed.

(** * CREATE TABLE *)

Lemma first_err_ok {A} (f : A -> result unit) l :
  first_err f l = Ok tt -> forall a, In a l -> f a = Ok tt.
Proof.
  induction l as [|x l IH]; simpl; intros H a Ha; [contradiction|].
  destruct (f x) as [[]|e] eqn:E; [|discriminate].
  destruct Ha as [<-|Ha]; [exact E|now apply IH].
Qed.

Lemma first_err_unit {A} (f : A -> result unit) l u : first_err f l = Ok u -> first_err f l = Ok tt.
Proof. destruct u; auto. Qed.

Lemma create_table_shape d x us d1 :
  create_table d x us = Ok d1 ->
  exists c, d1 = set_tables d (db_tables d ++ [c]) /\
            ct_name c = t_name (x_t x) /\ ct_rows c = [] /\
            name_used (t_name (x_t x)) (db_tables d) = false /\
            (x_wf x = true -> ct_wf c = true).
Proof.
  unfold create_table, new_ctable. intros H.
  destruct (reserved_name (t_name (x_t x))); [discriminate|].
  destruct (table_checks x us) as [pk|] eqn:Etc; [|discriminate].
  destruct (name_used (t_name (x_t x)) (db_tables d)) eqn:Eused; [discriminate|].
  unfold table_checks in Etc.
  destruct (t_idx (x_t x)) eqn:Eidx; [|discriminate].
  destruct (nodup_strs (map c_name (t_cols (x_t x)))); [|discriminate]. simpl in Etc.
  destruct (existsb (fun c => match c_gen c with None => true | Some _ => false end) (t_cols (x_t x))) eqn:Est;
    [|discriminate]. simpl in Etc.
  destruct (first_err (column_def_ok (x_t x)) (t_cols (x_t x))); [|discriminate].
  destruct (effective_pk x) as [pk0|] eqn:Epk; [|discriminate].
  match type of Etc with match ?P with _ => _ end = _ => destruct P as [u1|] eqn:Epkok; [|discriminate] end.
  destruct (first_err (fk_def_ok (x_t x)) (t_fks (x_t x))) as [u2|] eqn:Efk; [|discriminate].
  destruct (first_err check_def_ok (t_checks (x_t x))); [|discriminate].
  match type of Etc with (if negb ?P then _ else _) = _ => destruct P eqn:Euq; [|discriminate] end.
  simpl in Etc. inversion Etc; subst pk0; clear Etc.
  simpl in H. inversion H; subst d1; clear H.
  eexists. split; [reflexivity|]. split; [reflexivity|]. split; [reflexivity|]. split; [reflexivity|].
  intros Hx. unfold ct_wf, ct_t, ct_x, ct_uniques, ct_rows, set_x_t, x_t, x_autoinc. simpl.
  assert (Hhc : forall n, has_col (mkTable (t_name (x_t x)) (t_without_rowid (x_t x))
                            (t_strict (x_t x)) (t_cols (x_t x)) pk []
                            (t_fks (x_t x)) (t_checks (x_t x))) n
                        = has_col (x_t x) n) by reflexivity.
  repeat (apply andb_true_iff; split); try reflexivity.
  - unfold x_wf in Hx. exact Hx.
  - (* primary key parts *)
    destruct pk as [p|]; [|reflexivity].
    destruct (pk_cols p) as [cs|] eqn:Ecs; [|discriminate].
    destruct cs as [|c0 cs]; [discriminate|].
    destruct (forallb (has_col (x_t x)) (c0 :: cs)) eqn:Ehc; [|discriminate].
    unfold pk_cols in Ecs. unfold parts_in.
    clear -Ecs Ehc Hhc. revert Ecs Ehc. generalize (c0 :: cs). generalize (i_parts p).
    induction l as [|q l IH]; intros names En Eh; [reflexivity|].
    simpl in En. simpl.
    destruct (p_col q) as [cn|] eqn:Eq.
    + destruct (part_col_names l) as [rest|] eqn:Er; [|discriminate].
      inversion En; subst names. simpl in Eh. apply andb_true_iff in Eh as [H1 H2].
      rewrite Hhc, H1. simpl. eapply IH; [reflexivity|exact H2].
    + discriminate.
  - (* foreign keys *)
    apply forallb_forall. intros f Hf.
    pose proof (first_err_ok _ _ (first_err_unit _ _ _ Efk) f Hf) as Hok.
    unfold fk_def_ok in Hok.
    destruct (forallb (has_col (x_t x)) (f_cols f)) eqn:E; [exact E|discriminate].
  - (* uniques *)
    apply forallb_forall. intros u Hu.
    rewrite forallb_forall in Euq. specialize (Euq u Hu).
    apply andb_true_iff in Euq as [E _]. exact E.
  - exact Est.
Qed.

Lemma db_wf_app d c : db_wf d = true -> ct_wf c = true -> db_wf (set_tables d (db_tables d ++ [c])) = true.
Proof.
  unfold db_wf. simpl. intros H1 H2. rewrite forallb_app, H1. simpl. now rewrite H2.
Qed.

(** addTable arm: DROP TABLE undoes CREATE TABLE exactly. *)
Lemma create_drop_table d x d1 :
  create_table d x [] = Ok d1 -> droppable d1 (t_name (x_t x)) = true ->
  drop_table d1 (t_name (x_t x)) = Ok d.
Proof.
  intros H Hd. destruct (create_table_shape _ _ _ _ H) as (c & -> & Hn & Hr & Hu & _).
  pose proof (name_used_false _ _ Hu) as Hfree.
  assert (Hl : forall c', In c' (db_tables d) -> str_eqb (ct_name c') (t_name (x_t x)) = false)
    by (intros c' Hc'; apply (Hfree c' Hc')).
  assert (Hc : str_eqb (ct_name c) (t_name (x_t x)) = true) by (rewrite Hn; apply str_eqb_refl).
  unfold drop_table. unfold droppable in Hd. cbn [db_tables set_tables db_fk] in *.
  rewrite (find_ct_app_new _ _ _ Hl Hc), Hr.
  destruct (db_fk d).
  - simpl in Hd. apply negb_true_iff in Hd. rewrite Hd.
    rewrite implicit_delete_nil, (remove_ct_app_new _ _ _ Hl Hc). now rewrite set_tables_twice, set_tables_same.
  - rewrite (remove_ct_app_new _ _ _ Hl Hc). now rewrite set_tables_twice, set_tables_same.
Qed.

(** * CREATE INDEX / DROP INDEX *)

Lemma update_ct_find n f l ct :
  find_ct n l = Some ct -> (ct_name (f ct) = ct_name ct) ->
  find_ct n (update_ct n f l) = Some (f ct).
Proof.
  unfold find_ct. induction l as [|c l IH]; simpl; intros H Hf; [discriminate|].
  destruct (str_eqb (ct_name c) n) eqn:E.
  - inversion H; subst c. simpl. now rewrite Hf, E.
  - simpl. rewrite E. now apply IH.
Qed.

Lemma find_ct_some n l ct : find_ct n l = Some ct -> In ct l /\ str_eqb (ct_name ct) n = true.
Proof.
  unfold find_ct. intros H. apply find_some in H. exact H.
Qed.

Lemma filter_names_id n (l : list index) :
  (forall i, In i l -> str_eqb (i_name i) n = false) ->
  filter (fun i => negb (str_eqb (i_name i) n)) l = l.
Proof.
  induction l as [|i l IH]; intros H; simpl; [reflexivity|].
  rewrite (H i (or_introl eq_refl)). simpl. f_equal. apply IH. intros j Hj. apply H. now right.
Qed.

Definition drop_idx_in (n : str) (ct : ctable) : ctable :=
  set_ct_t ct (set_t_idx (ct_t ct) (filter (fun i => negb (str_eqb (i_name i) n)) (t_idx (ct_t ct)))).

Lemma drop_idx_in_id n ct :
  (forall i, In i (t_idx (ct_t ct)) -> str_eqb (i_name i) n = false) -> drop_idx_in n ct = ct.
Proof.
  intros H. unfold drop_idx_in. rewrite filter_names_id by exact H.
  now rewrite set_t_idx_same, set_ct_t_same.
Qed.

Definition add_idx_in (i : index) (ct : ctable) : ctable :=
  set_ct_t ct (set_t_idx (ct_t ct) (t_idx (ct_t ct) ++ [i])).

Lemma drop_add_idx_in i ct :
  (forall j, In j (t_idx (ct_t ct)) -> str_eqb (i_name j) (i_name i) = false) ->
  drop_idx_in (i_name i) (add_idx_in i ct) = ct.
Proof.
  intros H. unfold drop_idx_in, add_idx_in.
  destruct ct as [[t a] u r]. unfold set_ct_t, ct_t, ct_x, set_x_t, x_t. simpl.
  rewrite filter_app, filter_names_id by exact H. simpl. rewrite str_eqb_refl. simpl.
  rewrite app_nil_r. destruct t; reflexivity.
Qed.

Lemma map_drop_update n i l ct :
  find_ct n l = Some ct ->
  (forall c, In c l -> forall j, In j (t_idx (ct_t c)) -> str_eqb (i_name j) (i_name i) = false) ->
  map (drop_idx_in (i_name i)) (update_ct n (add_idx_in i) l) = l.
Proof.
  unfold find_ct. induction l as [|c l IH]; simpl; intros Hf Hfree; [discriminate|].
  assert (Htail : map (drop_idx_in (i_name i)) l = l).
  { clear -Hfree. induction l as [|c' l IH']; simpl; [reflexivity|]. f_equal.
    - apply drop_idx_in_id. apply Hfree. right. now left.
    - apply IH'. intros c0 Hc0. apply Hfree. destruct Hc0 as [->|H0]; [now left|right; now right]. }
  destruct (str_eqb (ct_name c) n) eqn:E.
  - simpl. rewrite Htail. f_equal. apply drop_add_idx_in. apply Hfree. now left.
  - simpl. f_equal.
    + apply drop_idx_in_id. apply Hfree. now left.
    + apply IH; [exact Hf|]. intros c0 Hc0. apply Hfree. now right.
Qed.

Lemma create_index_shape d n i d1 :
  create_index d n i = Ok d1 ->
  exists ct, find_ct n (db_tables d) = Some ct /\
    name_used (i_name i) (db_tables d) = false /\
    parts_in (ct_t ct) (i_parts i) = true /\
    d1 = set_tables d (update_ct n (add_idx_in i) (db_tables d)).
Proof.
  unfold create_index. intros H.
  destruct (find_ct n (db_tables d)) as [ct|] eqn:Ef; [|discriminate].
  destruct (index_def_ok (ct_t ct) i) as [u|] eqn:Edef; [|discriminate].
  destruct (name_used (i_name i) (db_tables d)) eqn:Eu; [discriminate|].
  match type of H with (if ?D then _ else _) = _ => destruct D; [discriminate|] end.
  inversion H; subst d1; clear H.
  exists ct. repeat split; try reflexivity.
  unfold index_def_ok in Edef.
  destruct (i_name i) as [|b nm]; [discriminate|].
  destruct (reserved_name (b :: nm)); [discriminate|].
  destruct (i_parts i) as [|p ps] eqn:Ep; [discriminate|].
  unfold parts_in. apply forallb_forall. intros q Hq.
  pose proof (first_err_ok _ _ (first_err_unit _ _ _ Edef) q Hq) as Hp. unfold part_ok_b in Hp.
  destruct (p_col q); [|reflexivity].
  destruct (has_col (ct_t ct) s); [reflexivity|discriminate].
Qed.

Lemma has_index_update n i l ct :
  find_ct n l = Some ct -> existsb (has_index (i_name i)) (update_ct n (add_idx_in i) l) = true.
Proof.
  unfold find_ct. induction l as [|c l IH]; simpl; intros H; [discriminate|].
  destruct (str_eqb (ct_name c) n) eqn:E; simpl.
  - apply orb_true_iff. left. unfold has_index, add_idx_in.
    destruct c as [[t a] u r]. unfold set_ct_t, ct_t, ct_x, set_x_t, x_t. simpl.
    rewrite existsb_app. simpl. rewrite str_eqb_refl. now rewrite orb_true_r.
  - apply orb_true_iff. right. now apply IH.
Qed.

(** addIndexes arm: DROP INDEX undoes CREATE INDEX exactly. *)
Lemma create_drop_index d n i d1 :
  create_index d n i = Ok d1 -> drop_index d1 (i_name i) = Ok d.
Proof.
  intros H. destruct (create_index_shape _ _ _ _ H) as (ct & Hf & Hu & _ & ->).
  unfold drop_index. cbn [db_tables set_tables].
  rewrite (has_index_update _ _ _ _ Hf).
  change (fun ct0 : ctable => set_ct_t ct0 (set_t_idx (ct_t ct0)
            (filter (fun i0 : index => negb (str_eqb (i_name i0) (i_name i))) (t_idx (ct_t ct0)))))
    with (drop_idx_in (i_name i)).
  rewrite (map_drop_update _ _ _ _ Hf).
  - now rewrite set_tables_twice, set_tables_same.
  - intros c Hc j Hj. exact (proj2 (name_used_false _ _ Hu c Hc) j Hj).
Qed.

(** * ADD COLUMN / DROP COLUMN *)

Definition add_col_in (c : column) (vo : option value) (ct : ctable) : ctable :=
  mkCT (set_x_t (ct_x ct) (add_col (ct_t ct) c)) (ct_uniques ct)
       (match vo with
        | Some v => map (fun r : row => (fst r, snd r ++ [(c_name c, v)])) (ct_rows ct)
        | None => ct_rows ct
        end).

Definition drop_col_in (c : str) (ct : ctable) : ctable :=
  let t := ct_t ct in
  mkCT (mkX (mkTable (t_name t) (t_without_rowid t) (t_strict t)
                     (filter (fun col => negb (str_eqb (c_name col) c)) (t_cols t))
                     (t_pk t) (t_idx t) (t_fks t) (t_checks t))
            (filter (fun a => negb (str_eqb a c)) (x_autoinc (ct_x ct))))
       (ct_uniques ct)
       (map (fun r : row => (fst r, filter (fun p => negb (str_eqb (fst p) c)) (snd r))) (ct_rows ct)).

Lemma add_column_shape d n c ai d1 :
  add_column d n c ai = Ok d1 ->
  exists ct vo, find_ct n (db_tables d) = Some ct /\ has_col (ct_t ct) (c_name c) = false /\
    d1 = set_tables d (update_ct n (add_col_in c vo) (db_tables d)).
Proof.
  unfold add_column. intros H.
  destruct (find_ct n (db_tables d)) as [ct|] eqn:Ef; [|discriminate].
  destruct (has_col (ct_t ct) (c_name c)) eqn:Eh; [discriminate|].
  destruct ai; [discriminate|].
  destruct (column_def_ok (ct_t ct) c); [|discriminate].
  destruct (c_gen c) as [[gx gty]|].
  - destruct (is_stored gty); [discriminate|]. inversion H; subst d1.
    exists ct, None. split; [reflexivity|split; [exact Eh|reflexivity]].
  - destruct (c_default c) as [[v|x]|].
    + match type of H with (if ?P then _ else _) = _ => destruct P; [discriminate|] end.
      match type of H with (if ?P then _ else _) = _ => destruct P; [discriminate|] end.
      inversion H; subst d1. exists ct, (Some (default_of c)). split; [reflexivity|split; [exact Eh|reflexivity]].
    + discriminate.
    + match type of H with (if ?P then _ else _) = _ => destruct P; [discriminate|] end.
      inversion H; subst d1. exists ct, (Some VNull). split; [reflexivity|split; [exact Eh|reflexivity]].
Qed.

Lemma has_col_false t n :
  has_col t n = false -> forall col, In col (t_cols t) -> str_eqb (c_name col) n = false.
Proof.
  unfold has_col, find_col. intros H col Hc.
  destruct (find (fun c => str_eqb (c_name c) n) (t_cols t)) eqn:E; [discriminate|].
  exact (find_none _ _ E col Hc).
Qed.

Lemma has_col_true_neq t a n : has_col t a = true -> has_col t n = false -> str_eqb a n = false.
Proof.
  intros Ha Hn. destruct (str_eqb a n) eqn:E; [|reflexivity].
  apply str_eqb_eq in E. subst a. congruence.
Qed.

Lemma has_col_add t c x : has_col t x = true -> has_col (add_col t c) x = true.
Proof.
  unfold has_col, find_col, add_col. simpl. intros H.
  destruct (find (fun c0 => str_eqb (c_name c0) x) (t_cols t)) eqn:E; [|discriminate].
  apply find_some in E as [Hin Hn].
  destruct (find (fun c0 => str_eqb (c_name c0) x) (t_cols t ++ [c])) eqn:E2; [reflexivity|].
  pose proof (find_none _ _ E2 c0 (in_or_app _ _ _ (or_introl Hin))) as X. simpl in X. congruence.
Qed.

Lemma has_col_add_new t c : has_col (add_col t c) (c_name c) = true.
Proof.
  unfold has_col, find_col, add_col. simpl.
  destruct (find (fun c0 => str_eqb (c_name c0) (c_name c)) (t_cols t ++ [c])) eqn:E; [reflexivity|].
  assert (Hin : In c (t_cols t ++ [c])) by (apply in_or_app; right; now left).
  pose proof (find_none _ _ E c Hin) as X.
  simpl in X. now rewrite str_eqb_refl in X.
Qed.

Lemma filter_cols_id n (l : list column) :
  (forall col, In col l -> str_eqb (c_name col) n = false) ->
  filter (fun col => negb (str_eqb (c_name col) n)) l = l.
Proof.
  induction l as [|i l IH]; intros H; simpl; [reflexivity|].
  rewrite (H i (or_introl eq_refl)). simpl. f_equal. apply IH. intros j Hj. apply H. now right.
Qed.

Lemma filter_strs_id n (l : list str) :
  (forall a, In a l -> str_eqb a n = false) -> filter (fun a => negb (str_eqb a n)) l = l.
Proof.
  induction l as [|i l IH]; intros H; simpl; [reflexivity|].
  rewrite (H i (or_introl eq_refl)). simpl. f_equal. apply IH. intros j Hj. apply H. now right.
Qed.

Lemma filter_cells_id n (l : list (str * value)) :
  (forall p, In p l -> str_eqb (fst p) n = false) ->
  filter (fun p => negb (str_eqb (fst p) n)) l = l.
Proof.
  induction l as [|i l IH]; intros H; simpl; [reflexivity|].
  rewrite (H i (or_introl eq_refl)). simpl. f_equal. apply IH. intros j Hj. apply H. now right.
Qed.

Lemma ct_wf_parts ct :
  ct_wf ct = true ->
  let t := ct_t ct in
  forallb (has_col t) (x_autoinc (ct_x ct)) = true /\
  forallb (fun r : row => forallb (fun cell => has_col t (fst cell)) (snd r)) (ct_rows ct) = true /\
  match t_pk t with Some pk => parts_in t (i_parts pk) | None => true end = true /\
  forallb (fun i => parts_in t (i_parts i)) (t_idx t) = true /\
  forallb (fun f => forallb (has_col t) (f_cols f)) (t_fks t) = true /\
  forallb (forallb (has_col t)) (ct_uniques ct) = true /\
  existsb stored_col (t_cols t) = true.
Proof.
  unfold ct_wf. intros H.
  repeat (apply andb_true_iff in H; destruct H as [H ?]). repeat split; assumption.
Qed.

Lemma drop_add_col_in c vo ct :
  ct_wf ct = true -> has_col (ct_t ct) (c_name c) = false ->
  drop_col_in (c_name c) (add_col_in c vo ct) = ct.
Proof.
  intros W Hn. destruct (ct_wf_parts ct W) as (Wa & Wr & _).
  destruct ct as [[t a] u r]. unfold ct_t, ct_x, x_t, x_autoinc, ct_rows in *. simpl in *.
  unfold drop_col_in, add_col_in, ct_t, ct_x, set_x_t, x_t, x_autoinc, add_col. simpl.
  rewrite filter_app, (filter_cols_id _ _ (has_col_false _ _ Hn)). simpl.
  rewrite str_eqb_refl. simpl. rewrite app_nil_r.
  rewrite filter_strs_id.
  2:{ intros b Hb. rewrite forallb_forall in Wa. exact (has_col_true_neq _ _ _ (Wa b Hb) Hn). }
  assert (Hrows : forall v, map (fun r0 : row => (fst r0, filter (fun p => negb (str_eqb (fst p) (c_name c))) (snd r0)))
                    (map (fun r0 : row => (fst r0, snd r0 ++ [(c_name c, v)])) r) = r).
  { intros v. rewrite map_map. rewrite <- (map_id r) at 2. apply map_ext_in. intros [rid cells] Hin. simpl.
    rewrite filter_app. simpl. rewrite str_eqb_refl. simpl. rewrite app_nil_r.
    rewrite filter_cells_id; [reflexivity|].
    intros p Hp. rewrite forallb_forall in Wr. specialize (Wr _ Hin). simpl in Wr.
    rewrite forallb_forall in Wr. exact (has_col_true_neq _ _ _ (Wr p Hp) Hn). }
  assert (Hrows0 : map (fun r0 : row => (fst r0, filter (fun p => negb (str_eqb (fst p) (c_name c))) (snd r0))) r = r).
  { rewrite <- (map_id r) at 2. apply map_ext_in. intros [rid cells] Hin. simpl.
    rewrite filter_cells_id; [reflexivity|].
    intros p Hp. rewrite forallb_forall in Wr. specialize (Wr _ Hin). simpl in Wr.
    rewrite forallb_forall in Wr. exact (has_col_true_neq _ _ _ (Wr p Hp) Hn). }
  destruct vo as [v|]; [rewrite Hrows|rewrite Hrows0]; destruct t; reflexivity.
Qed.

Lemma update_ct_twice n f g l :
  (forall c, ct_name (f c) = ct_name c) ->
  update_ct n g (update_ct n f l) = update_ct n (fun c => g (f c)) l.
Proof.
  intros Hf. induction l as [|c l IH]; simpl; [reflexivity|].
  destruct (str_eqb (ct_name c) n) eqn:E; simpl.
  - now rewrite Hf, E.
  - rewrite E. now rewrite IH.
Qed.

Lemma update_ct_id n f l ct :
  find_ct n l = Some ct -> f ct = ct -> update_ct n f l = l.
Proof.
  unfold find_ct. induction l as [|c l IH]; simpl; intros H Hf; [reflexivity|].
  destruct (str_eqb (ct_name c) n) eqn:E.
  - inversion H; subst c. now rewrite Hf.
  - f_equal. now apply IH.
Qed.

Lemma update_ct_ext n f g l ct :
  find_ct n l = Some ct -> f ct = g ct -> update_ct n f l = update_ct n g l.
Proof.
  unfold find_ct. induction l as [|c l IH]; simpl; intros H Hf; [reflexivity|].
  destruct (str_eqb (ct_name c) n) eqn:E.
  - inversion H; subst c. now rewrite Hf.
  - f_equal. now apply IH.
Qed.

Lemma not_in_parts t n ps :
  has_col t n = false -> parts_in t ps = true ->
  existsb (fun p => ostr_eqb (p_col p) (Some n)) ps = false.
Proof.
  intros Hn. unfold parts_in. induction ps as [|p ps IH]; simpl; intros H; [reflexivity|].
  apply andb_true_iff in H as [H1 H2]. rewrite (IH H2), orb_false_r.
  destruct (p_col p) as [x|]; [|reflexivity]. simpl. exact (has_col_true_neq _ _ _ H1 Hn).
Qed.

Lemma not_in_strs t n l :
  has_col t n = false -> forallb (has_col t) l = true -> existsb (str_eqb n) l = false.
Proof.
  intros Hn. induction l as [|x l IH]; simpl; intros H; [reflexivity|].
  apply andb_true_iff in H as [H1 H2]. rewrite (IH H2), orb_false_r.
  rewrite str_eqb_sym. exact (has_col_true_neq _ _ _ H1 Hn).
Qed.

Lemma col_used_fresh c vo ct :
  ct_wf ct = true -> has_col (ct_t ct) (c_name c) = false ->
  col_used (add_col_in c vo ct) (c_name c) = false.
Proof.
  intros W Hn. destruct (ct_wf_parts ct W) as (_ & _ & Wpk & Wi & Wf & Wu & _).
  unfold col_used.
  assert (Et : ct_t (add_col_in c vo ct) = add_col (ct_t ct) c) by (destruct ct as [[t a] u r]; reflexivity).
  assert (Eu : ct_uniques (add_col_in c vo ct) = ct_uniques ct) by reflexivity.
  rewrite Et, Eu. unfold col_in_index, col_in_fk. cbn [add_col t_pk t_idx t_fks].
  apply orb_false_iff. split; [apply orb_false_iff; split|].
  - (* indexes and primary key *)
    assert (Hidx : existsb (fun i => existsb (fun p => ostr_eqb (p_col p) (Some (c_name c))) (i_parts i))
                     (t_idx (ct_t ct)) = false).
    { clear -Wi Hn. induction (t_idx (ct_t ct)) as [|i l IH]; simpl in *; [reflexivity|].
      apply andb_true_iff in Wi as [H1 H2]. rewrite (not_in_parts _ _ _ Hn H1). simpl. now apply IH. }
    destruct (t_pk (ct_t ct)) as [pk|]; [|exact Hidx].
    simpl. rewrite (not_in_parts _ _ _ Hn Wpk). simpl. exact Hidx.
  - clear -Wf Hn. induction (t_fks (ct_t ct)) as [|f l IH]; simpl in *; [reflexivity|].
    apply andb_true_iff in Wf as [H1 H2]. rewrite (not_in_strs _ _ _ Hn H1). simpl. now apply IH.
  - clear -Wu Hn. induction (ct_uniques ct) as [|u l IH]; simpl in *; [reflexivity|].
    apply andb_true_iff in Wu as [H1 H2]. rewrite (not_in_strs _ _ _ Hn H1). simpl. now apply IH.
Qed.

Lemma find_col_add_new t c :
  has_col t (c_name c) = false -> find_col (c_name c) (t_cols t ++ [c]) = Some c.
Proof.
  intros Hn. unfold find_col. pose proof (has_col_false _ _ Hn) as H.
  induction (t_cols t) as [|x l IH]; simpl.
  - now rewrite str_eqb_refl.
  - rewrite (H x (or_introl eq_refl)). apply IH. intros col Hc. apply H. now right.
Qed.

Lemma existsb_length_filter {A} (f : A -> bool) l : existsb f l = true -> (1 <= length (filter f l))%nat.
Proof.
  induction l as [|x l IH]; simpl; [discriminate|].
  destruct (f x); simpl; [lia|]. exact IH.
Qed.

(** alterTable arm: DROP COLUMN undoes ADD COLUMN exactly. *)
Lemma add_drop_column d n c ai d1 :
  db_wf d = true ->
  add_column d n c ai = Ok d1 -> drop_column d1 n (c_name c) = Ok d.
Proof.
  intros W H. destruct (add_column_shape _ _ _ _ _ H) as (ct & vo & Hf & Hn & ->).
  destruct (find_ct_some _ _ _ Hf) as [Hin Hname].
  assert (Wct : ct_wf ct = true) by (unfold db_wf in W; rewrite forallb_forall in W; exact (W ct Hin)).
  unfold drop_column. cbn [db_tables set_tables].
  assert (Hnm : forall c0, ct_name (add_col_in c vo c0) = ct_name c0) by (intros [[t a] u r]; reflexivity).
  rewrite (update_ct_find _ _ _ _ Hf (Hnm ct)).
  assert (Et : ct_t (add_col_in c vo ct) = add_col (ct_t ct) c) by (destruct ct as [[t a] u r]; reflexivity).
  rewrite Et, has_col_add_new. cbn [negb].
  rewrite (col_used_fresh _ _ _ Wct Hn).
  (* the last stored column *)
  assert (Hlast : Nat.leb (length (filter (fun col => match c_gen col with None => true | Some _ => false end)
                                   (t_cols (add_col (ct_t ct) c)))) 1
                  && negb (is_generated (add_col (ct_t ct) c) (c_name c)) = false).
  { destruct (ct_wf_parts ct Wct) as (_ & _ & _ & _ & _ & _ & Ws).
    unfold is_generated. cbn [add_col t_cols]. rewrite (find_col_add_new _ _ Hn).
    destruct (c_gen c) eqn:Eg; [now rewrite andb_false_r|].
    rewrite filter_app, app_length. simpl. rewrite Eg. simpl.
    pose proof (existsb_length_filter _ _ Ws) as L. unfold stored_col in L.
    apply andb_false_iff. left. apply Nat.leb_gt. lia. }
  rewrite Hlast.
  rewrite (update_ct_twice _ _ _ _ Hnm).
  change (fun c0 : ctable => _ ) with (fun c0 : ctable => drop_col_in (c_name c) (add_col_in c vo c0)).
  rewrite (update_ct_id _ _ _ _ Hf (drop_add_col_in _ _ _ Wct Hn)).
  now rewrite set_tables_twice, set_tables_same.
Qed.

(** * well-formedness is maintained by the forward statements *)

Lemma forallb_impl {A} (f g : A -> bool) l :
  (forall x, f x = true -> g x = true) -> forallb f l = true -> forallb g l = true.
Proof.
  intros H. induction l as [|x l IH]; simpl; [auto|].
  intros E. apply andb_true_iff in E as [E1 E2]. now rewrite (H x E1), (IH E2).
Qed.

Lemma update_ct_wf n f l :
  forallb ct_wf l = true -> (forall c, In c l -> ct_wf c = true -> ct_wf (f c) = true) ->
  forallb ct_wf (update_ct n f l) = true.
Proof.
  induction l as [|c l IH]; simpl; intros W Hf; [reflexivity|].
  apply andb_true_iff in W as [W1 W2].
  destruct (str_eqb (ct_name c) n); simpl.
  - rewrite (Hf c (or_introl eq_refl) W1). exact W2.
  - rewrite W1. apply IH; [exact W2|]. intros c0 Hc0. apply Hf. now right.
Qed.

Lemma parts_in_impl t t' ps :
  (forall x, has_col t x = true -> has_col t' x = true) -> parts_in t ps = true -> parts_in t' ps = true.
Proof.
  intros H. unfold parts_in. apply forallb_impl. intros p. destruct (p_col p); auto.
Qed.

Lemma add_idx_in_wf i ct :
  ct_wf ct = true -> parts_in (ct_t ct) (i_parts i) = true -> ct_wf (add_idx_in i ct) = true.
Proof.
  intros W Hp. destruct (ct_wf_parts ct W) as (Wa & Wr & Wpk & Wi & Wf & Wu & Ws).
  destruct ct as [[t a] u r]. destruct t as [tn wr st cols pk idx fks chk].
  unfold ct_wf, add_idx_in, set_ct_t, ct_t, ct_x, set_x_t, x_t, x_autoinc, ct_rows, ct_uniques, set_t_idx in *.
  simpl in *.
  change (has_col (mkTable tn wr st cols pk (idx ++ [i]) fks chk)) with (has_col (mkTable tn wr st cols pk idx fks chk)).
  change (parts_in (mkTable tn wr st cols pk (idx ++ [i]) fks chk)) with (parts_in (mkTable tn wr st cols pk idx fks chk)).
  rewrite Wa, Wr, Wf, Wu, Ws. rewrite forallb_app, Wi. simpl. rewrite Hp.
  destruct pk; [rewrite Wpk|]; reflexivity.
Qed.

Lemma add_col_in_wf c vo ct : ct_wf ct = true -> ct_wf (add_col_in c vo ct) = true.
Proof.
  intros W. destruct (ct_wf_parts ct W) as (Wa & Wr & Wpk & Wi & Wf & Wu & Ws).
  assert (Et : ct_t (add_col_in c vo ct) = add_col (ct_t ct) c) by (destruct ct as [[t a] u r]; reflexivity).
  assert (Ea : x_autoinc (ct_x (add_col_in c vo ct)) = x_autoinc (ct_x ct)) by (destruct ct as [[t a] u r]; reflexivity).
  pose proof (has_col_add (ct_t ct) c) as M.
  unfold ct_wf. rewrite Et, Ea. cbn [add_col t_pk t_idx t_fks t_cols].
  repeat (apply andb_true_iff; split).
  - exact (forallb_impl _ _ _ M Wa).
  - unfold add_col_in. cbn [ct_rows]. destruct vo as [v|].
    + apply forallb_forall. intros r Hr. apply in_map_iff in Hr as (r0 & <- & Hr0). cbn [snd].
      rewrite forallb_app. rewrite forallb_forall in Wr. rewrite (forallb_impl _ _ _ (fun x => M (fst x)) (Wr r0 Hr0)).
      simpl. now rewrite has_col_add_new.
    + apply forallb_forall. intros r Hr. rewrite forallb_forall in Wr.
      exact (forallb_impl _ _ _ (fun x => M (fst x)) (Wr r Hr)).
  - destruct (t_pk (ct_t ct)); [|reflexivity]. exact (parts_in_impl _ _ _ M Wpk).
  - exact (forallb_impl _ _ _ (fun i => parts_in_impl _ _ _ M) Wi).
  - exact (forallb_impl _ _ _ (fun f => forallb_impl _ _ _ M) Wf).
  - exact (forallb_impl _ _ _ (fun u => forallb_impl _ _ _ M) Wu).
  - rewrite existsb_app, Ws. reflexivity.
Qed.

(** * the additive arms, one change *)

Lemma additive_step pc d d1 :
  additive pc = true -> stmt_wf (pc_cmd pc) = true -> db_wf d = true ->
  exec d (pc_cmd pc) = Ok d1 ->
  match pc_cmd pc with SCreateTable x _ => droppable d1 (t_name (x_t x)) = true | _ => True end ->
  exec_all d1 (pc_reverse pc) = Ok d /\ db_wf d1 = true.
Proof.
  unfold additive. intros A SW W E DR.
  destruct (pc_cmd pc) as [x us|n|a b|t c ai|t c|t a b|t i|n|tt tc ft fe|on] eqn:Ec; try discriminate.
  - (* CREATE TABLE *)
    destruct us; [|discriminate].
    destruct (pc_reverse pc) as [|[| n | | | | | | | |] [|]] eqn:Er; try discriminate.
    apply str_eqb_eq in A. subst n. simpl in E. split.
    + simpl. now rewrite (create_drop_table _ _ _ E DR).
    + destruct (create_table_shape _ _ _ _ E) as (c & -> & _ & _ & _ & Hw).
      apply db_wf_app; [exact W|apply Hw; exact SW].
  - (* ADD COLUMN *)
    destruct (pc_reverse pc) as [|[| | | | t' n | | | | |] [|]] eqn:Er; try discriminate.
    apply andb_true_iff in A as [A1 A2]. apply str_eqb_eq in A1, A2. subst t' n. simpl in E. split.
    + simpl. now rewrite (add_drop_column _ _ _ _ _ W E).
    + destruct (add_column_shape _ _ _ _ _ E) as (ct & vo & Hf & Hn & ->).
      unfold db_wf. cbn [db_tables set_tables]. apply update_ct_wf; [exact W|].
      intros c0 _ W0. now apply add_col_in_wf.
  - (* CREATE INDEX *)
    destruct (pc_reverse pc) as [|[| | | | | | | n | |] [|]] eqn:Er; try discriminate.
    apply str_eqb_eq in A. subst n. simpl in E. split.
    + simpl. now rewrite (create_drop_index _ _ _ _ E).
    + destruct (create_index_shape _ _ _ _ E) as (ct & Hf & _ & Hp & ->).
      unfold db_wf. cbn [db_tables set_tables].
      (* only the table found is changed; its parts are in *)
      clear E. unfold db_wf in W. revert Hf W. generalize (db_tables d).
      unfold find_ct. induction l as [|c0 l IH]; simpl; intros Hf W0; [reflexivity|].
      apply andb_true_iff in W0 as [W1 W2].
      destruct (str_eqb (ct_name c0) t) eqn:En.
      * inversion Hf; subst c0. simpl. rewrite W2, andb_true_r. now apply add_idx_in_wf.
      * simpl. rewrite W1. now apply IH.
Qed.

(** * the additive arms, whole lists: up then down is the identity on engine states *)
Theorem additive_sound l : forall d d1,
  db_wf d = true -> droppable_along d l ->
  forallb additive l = true -> forallb (fun pc => stmt_wf (pc_cmd pc)) l = true ->
  exec_all d (up_stmts l) = Ok d1 ->
  exec_all d1 (down_stmts l) = Ok d.
Proof.
  induction l as [|pc l IH]; intros d d1 W DA A SW E.
  - simpl in *. congruence.
  - simpl in A, SW, E, DA.
    apply andb_true_iff in A as [A1 A2]. apply andb_true_iff in SW as [S1 S2].
    destruct (exec d (pc_cmd pc)) as [dm|] eqn:Em; [|discriminate].
    destruct (DA dm eq_refl) as [DR DA'].
    destruct (additive_step _ _ _ A1 S1 W Em DR) as [Hrev Wm].
    unfold down_stmts. simpl. rewrite flat_map_app. simpl. rewrite app_nil_r.
    rewrite exec_all_app. fold (down_stmts l). rewrite (IH dm d1 Wm DA' A2 S2 E). exact Hrev.
Qed.

(** with foreign-key enforcement off, every created table stays droppable *)
Lemma additive_keeps_fk pc d dm :
  additive pc = true -> exec d (pc_cmd pc) = Ok dm -> db_fk dm = db_fk d.
Proof.
  unfold additive. intros A E.
  destruct (pc_cmd pc) as [x us|n|a b|t c ai|t c|t a b|t i|n|tt tc ft fe|on] eqn:Ec; try discriminate; simpl in E.
  - destruct (create_table_shape _ _ _ _ E) as (c & -> & _). reflexivity.
  - destruct (add_column_shape _ _ _ _ _ E) as (ct & vo & _ & _ & ->). reflexivity.
  - destruct (create_index_shape _ _ _ _ E) as (ct & _ & _ & _ & ->). reflexivity.
Qed.

Lemma droppable_along_fk_off l : forall d,
  db_fk d = false -> forallb additive l = true -> droppable_along d l.
Proof.
  induction l as [|pc l IH]; intros d F A; simpl; [exact I|].
  simpl in A. apply andb_true_iff in A as [A1 A2]. intros dm E.
  pose proof (additive_keeps_fk _ _ _ A1 E) as Ef. rewrite F in Ef. split.
  - destruct (pc_cmd pc); try exact I. unfold droppable. now rewrite Ef.
  - now apply IH.
Qed.

(** * the planner: what a reversible plan without drops consists of *)

Definition good (pc : pchange) : bool := additive pc && stmt_wf (pc_cmd pc).
Definition okc (pc : pchange) : bool := good pc || negb (pc_has_reverse pc).

Lemma good_okc l : forallb good l = true -> forallb okc l = true.
Proof. apply forallb_impl. intros pc H. unfold okc. now rewrite H. Qed.

Lemma addIndexes_good t l r : addIndexes t l = Some r -> forallb good r = true.
Proof.
  revert r; induction l as [|i l IH]; simpl; intros r H.
  - inversion H; reflexivity.
  - destruct (normalize_idx_name i t) as [i'|]; [|discriminate].
    destruct (addIndexes t l) as [r'|]; [|discriminate]. inversion H; subst r. simpl.
    rewrite (IH r' eq_refl), andb_true_r. unfold good, additive. simpl.
    now rewrite str_eqb_refl.
Qed.

Lemma x_wf_same_cols x t' :
  t_cols t' = t_cols (x_t x) -> x_wf (set_x_t x t') = x_wf x.
Proof.
  intros E. unfold x_wf, set_x_t. simpl. unfold has_col. now rewrite E.
Qed.

Lemma addTable_good x r : x_wf x = true -> addTable x = Some r -> forallb good r = true.
Proof.
  unfold addTable. intros W H.
  destruct (negb (forallb (column_ok x) (t_cols (x_t x)))); [discriminate|].
  destruct (addIndexes (x_t x) (t_idx (x_t x))) as [idxs|] eqn:E; [|discriminate].
  inversion H; subst r. simpl. rewrite (addIndexes_good _ _ _ E), andb_true_r.
  unfold good, additive. simpl. rewrite str_eqb_refl. simpl.
  rewrite x_wf_same_cols by reflexivity. exact W.
Qed.

Lemma find_col_name n l c : find_col n l = Some c -> c_name c = n.
Proof.
  unfold find_col. intros H. apply find_some in H as [_ H]. now apply str_eqb_eq in H.
Qed.

Lemma alterTable_good from tox cs : forall r,
  forallb no_drop_sub cs = true -> alterTable from tox cs = Some r -> forallb good r = true.
Proof.
  induction cs as [|c cs IH]; intros r ND H; simpl in H.
  - inversion H; reflexivity.
  - simpl in ND. apply andb_true_iff in ND as [N1 N2].
    match type of H with match ?here with _ => _ end = _ => destruct here as [a|] eqn:Eh; [|discriminate] end.
    destruct (alterTable from tox cs) as [b|] eqn:Eb; [|discriminate].
    inversion H; subst r. rewrite forallb_app, (IH b N2 eq_refl), andb_true_r.
    destruct c; try discriminate.
    + (* AddColumn *)
      destruct (find_col c (t_cols (x_t tox))) as [col|] eqn:Ec; [|discriminate].
      destruct (column_ok tox col); [|discriminate]. inversion Eh; subst a. simpl.
      unfold good, additive. simpl. rewrite str_eqb_refl, (find_col_name _ _ _ Ec), str_eqb_refl. reflexivity.
    + (* AddIndex *)
      destruct (find_idx n (t_idx (x_t tox))) as [[k i]|]; [|discriminate].
      exact (addIndexes_good (x_t tox) [i] a Eh).
Qed.

Lemma forallb_has_reverse_app a b :
  forallb pc_has_reverse (a ++ b) = forallb pc_has_reverse a && forallb pc_has_reverse b.
Proof. apply forallb_app. Qed.

Lemma modifyTable_ok from tox cs r sk :
  x_wf tox = true -> forallb no_drop_sub cs = true ->
  modifyTable from tox cs = Some (r, sk) ->
  forallb okc r = true /\ (sk = true -> forallb pc_has_reverse r = false).
Proof.
  unfold modifyTable. intros W ND H.
  destruct (alterable (x_t tox) cs).
  - destruct (alterTable from tox cs) as [r'|] eqn:E; [|discriminate]. inversion H; subst r sk.
    split; [apply good_okc; exact (alterTable_good _ _ _ _ ND E)|discriminate].
  - match type of H with match addTable ?X with _ => _ end = _ => destruct (addTable X) as [created|] eqn:Ea; [|discriminate] end.
    match type of H with match copyRows ?A ?B ?C with _ => _ end = _ => destruct (copyRows A B C) as [ins|] eqn:Ei; [|discriminate] end.
    destruct (addIndexes (x_t tox) (t_idx (x_t tox))) as [idxs|] eqn:Ex; [|discriminate].
    inversion H; subst r sk. clear H.
    assert (Gc : forallb good created = true).
    { refine (addTable_good _ _ _ Ea). rewrite x_wf_same_cols by reflexivity. exact W. }
    assert (Oi : forallb okc (match ins with Some i => [i] | None => [] end) = true).
    { destruct ins as [i|]; [|reflexivity]. unfold copyRows in Ei.
      destruct (copy_cols _ cs) as [[|pr prs]|]; try discriminate; inversion Ei; reflexivity. }
    split.
    + rewrite forallb_app, (good_okc _ Gc). rewrite forallb_app, Oi. simpl.
      exact (good_okc _ (addIndexes_good _ _ _ Ex)).
    + intros _. rewrite forallb_has_reverse_app. rewrite forallb_has_reverse_app. simpl.
      now rewrite !andb_false_r.
Qed.

Definition ps_inv (s : pstate) : Prop :=
  forallb okc (ps_changes s) = true /\
  (ps_skipFKs s = true -> forallb pc_has_reverse (ps_changes s) = false).

Lemma find_xtable_in n l x : find_xtable n l = Some x -> In x l.
Proof. unfold find_xtable. intros H. now apply find_some in H. Qed.

Lemma normalized_to_wf x x' : normalized_to x = Some x' -> x_wf x' = x_wf x.
Proof.
  unfold normalized_to. destruct (normalize_idxs (x_t x) (t_idx (x_t x))); [|discriminate].
  intros H; inversion H. now apply x_wf_same_cols.
Qed.

Lemma plan_loop_inv from to cs : forall s s',
  xschema_wf to = true -> no_drops cs = true -> ps_inv s ->
  plan_loop from to cs s = Some s' -> ps_inv s'.
Proof.
  induction cs as [|c cs IH]; intros s s' XW ND I H; simpl in H.
  - inversion H; subst; exact I.
  - simpl in ND. apply andb_true_iff in ND as [N1 N2].
    match type of H with match ?nx with _ => _ end = _ => destruct nx as [sm|] eqn:En; [|discriminate] end.
    apply (IH sm s' XW N2); [|exact H]. clear H IH.
    destruct I as [I1 I2]. destruct c as [n|n|n sub]; [| discriminate |].
    + (* AddTable *)
      destruct (find_xtable n to) as [x|] eqn:Ef; [|discriminate].
      destruct (addTable x) as [r|] eqn:Ea; [|discriminate]. inversion En; subst sm.
      assert (Wx : x_wf x = true).
      { unfold xschema_wf in XW. rewrite forallb_forall in XW. exact (XW x (find_xtable_in _ _ _ Ef)). }
      split; simpl.
      * rewrite forallb_app, I1. exact (good_okc _ (addTable_good _ _ Wx Ea)).
      * intros Hs. rewrite forallb_has_reverse_app, (I2 Hs). reflexivity.
    + (* ModifyTable *)
      destruct (find_xtable n from) as [xf|]; [|discriminate].
      destruct (find_xtable n to) as [xt|] eqn:Ef; [|discriminate].
      destruct (normalized_to xt) as [xt'|] eqn:Enorm; [|discriminate].
      destruct (modifyTable (x_t xf) xt' sub) as [[r sk]|] eqn:Em; [|discriminate].
      assert (Wx : x_wf xt' = true).
      { rewrite (normalized_to_wf _ _ Enorm). unfold xschema_wf in XW. rewrite forallb_forall in XW.
        exact (XW xt (find_xtable_in _ _ _ Ef)). }
      destruct (modifyTable_ok _ _ _ _ _ Wx N1 Em) as [O1 O2].
      inversion En; subst sm. destruct sk; split; simpl.
      * now rewrite forallb_app, I1, O1.
      * intros _. rewrite forallb_has_reverse_app, (O2 eq_refl). now rewrite andb_false_r.
      * now rewrite forallb_app, I1, O1.
      * intros Hs. rewrite forallb_has_reverse_app, (I2 Hs). reflexivity.
Qed.

Lemma set_reversible_spec l : set_reversible l = forallb pc_has_reverse l.
Proof. reflexivity. Qed.

Lemma okc_reversible_good l :
  forallb okc l = true -> forallb pc_has_reverse l = true -> forallb good l = true.
Proof.
  induction l as [|pc l IH]; simpl; [auto|]. intros O R.
  apply andb_true_iff in O as [O1 O2]. apply andb_true_iff in R as [R1 R2].
  rewrite (IH O2 R2), andb_true_r. unfold okc in O1. rewrite R1 in O1. simpl in O1.
  now rewrite orb_false_r in O1.
Qed.

Lemma plan_additive from to cs p :
  xschema_wf to = true -> no_drops cs = true ->
  PlanChanges from to cs = Some p -> p_reversible p = true ->
  forallb additive (p_changes p) = true /\
  forallb (fun pc => stmt_wf (pc_cmd pc)) (p_changes p) = true.
Proof.
  unfold PlanChanges. intros XW ND H R.
  destruct (plan_loop from to cs (mkPS [] false)) as [s|] eqn:El; [|discriminate].
  assert (I : ps_inv s).
  { refine (plan_loop_inv _ _ _ (mkPS [] false) s XW ND _ El).
    split; [reflexivity|discriminate]. }
  destruct I as [I1 I2]. inversion H; subst p; clear H. simpl in R. rewrite set_reversible_spec in R.
  destruct (ps_skipFKs s); [rewrite (I2 eq_refl) in R; discriminate|].
  simpl. pose proof (okc_reversible_good _ I1 R) as G.
  split; [exact (forallb_impl _ _ _ (fun pc Hg => proj1 (andb_prop _ _ Hg)) G)
         |exact (forallb_impl _ _ _ (fun pc Hg => proj2 (andb_prop _ _ Hg)) G)].
Qed.

(** C17 item 1 for the plans without DropTable / DropIndex: the final state IS the start state. *)
Theorem reversible_sound_additive from to cs p d d1 :
  db_wf d = true -> xschema_wf to = true -> no_drops cs = true ->
  PlanChanges from to cs = Some p -> p_reversible p = true ->
  droppable_along d (p_changes p) ->
  exec_all d (up_stmts (p_changes p)) = Ok d1 ->
  exec_all d1 (down_stmts (p_changes p)) = Ok d.
Proof.
  intros W XW ND HP R DA E. destruct (plan_additive _ _ _ _ XW ND HP R) as [A S].
  exact (additive_sound _ _ _ W DA A S E).
Qed.

Corollary reversible_sound_additive_fk_off from to cs p d d1 :
  db_wf d = true -> xschema_wf to = true -> no_drops cs = true ->
  PlanChanges from to cs = Some p -> p_reversible p = true ->
  db_fk d = false ->
  exec_all d (up_stmts (p_changes p)) = Ok d1 ->
  exec_all d1 (down_stmts (p_changes p)) = Ok d.
Proof.
  intros W XW ND HP R F E. destruct (plan_additive _ _ _ _ XW ND HP R) as [A S].
  exact (additive_sound _ _ _ W (droppable_along_fk_off _ _ F A) A S E).
Qed.

(** * the flag of the SQLite planner *)

(** [PlanChanges] computes [Reversible] over the changes it planned and adds the PRAGMA bracket
    afterwards. *)
Lemma sqlite_flag_except from to cs p :
  PlanChanges from to cs = Some p ->
  exists core,
    (p_changes p = core \/ p_changes p = pragma_off :: core ++ [pragma_on]) /\
    p_reversible p = forallb pc_has_reverse core.
Proof.
  unfold PlanChanges. intros H.
  destruct (plan_loop from to cs (mkPS [] false)) as [s|]; [|discriminate].
  inversion H; subst p; clear H. exists (ps_changes s). simpl. split; [|reflexivity].
  destruct (ps_skipFKs s); [right|left]; reflexivity.
Qed.

(** through [to_mchange], [sqlx.SetReversible] of the Go-level change list is the model's flag *)
Lemma ReverseStmts_to_mchange render comment pc :
  ReverseStmts (to_mchange render comment pc) = map render (pc_reverse pc).
Proof.
  unfold to_mchange, ReverseStmts. simpl. destruct (pc_reverse pc) as [|r [|r2 l]]; reflexivity.
Qed.

Lemma has_reverse_to_mchange render comment pc :
  has_reverse (to_mchange render comment pc) = pc_has_reverse pc.
Proof.
  unfold has_reverse. rewrite ReverseStmts_to_mchange. unfold pc_has_reverse.
  destruct (pc_reverse pc); reflexivity.
Qed.

Lemma SetReversible_to_mchange render comment l :
  SetReversible (map (to_mchange render comment) l) = forallb pc_has_reverse l.
Proof.
  rewrite DownProofs.SetReversible_forallb. induction l as [|pc l IH]; simpl; [reflexivity|].
  now rewrite has_reverse_to_mchange, IH.
Qed.

(** the down statements of the Go-level list are the rendered down statements of the model *)
Lemma flat_ReverseStmts_to_mchange render comment l :
  flat_map ReverseStmts (rev (map (to_mchange render comment) l)) = map render (down_stmts l).
Proof.
  unfold down_stmts. rewrite <- map_rev. induction (rev l) as [|pc r IH]; simpl; [reflexivity|].
  now rewrite ReverseStmts_to_mchange, IH, map_app.
Qed.
