(** The text of CREATE TABLE / CREATE INDEX as the SQLite planner emits it
    (sql/sqlite/migrate.go: addTable, column, indexParts, fks, check, addIndexes over
    sql/internal/sqlx/sqlx.go: Builder.P / Ident / Comma / Wrap / MapComma / String),
    without indentation (PlanOptions.Indent empty: what `schema apply` and
    `schema inspect --format sql` use).  No proofs in this file. *)
From Coq Require Import List NArith Bool Arith.
From Atlas Require Import Base.Bytes Diff.Schema Diff.DiffSqlite Sqlite.PlanModel Sqlite.ExportModel.
Import ListNotations.
Local Open Scope N_scope.

(** ** sqlx.Builder *)
Definition last_byte (b : bytes) : N := last b 0.
Definition bP1 (b p : bytes) : bytes :=
  match p with
  | [] => b
  | _ =>
    let b1 := match b with
              | [] => b
              | _ => if N.eqb (last_byte b) 32 || N.eqb (last_byte b) 40 || N.eqb (last_byte b) 10 then b else b ++ [32]
              end in
    let b2 := b1 ++ p in
    if N.eqb (last_byte p) 32 then b2 else b2 ++ [32]
  end.
Definition bP (b : bytes) (ps : list bytes) : bytes := fold_left bP1 ps b.
(** Ident: a quote character inside the name is written twice (fix C16-ident-double-quote-char of
    sqlx.Builder.Ident; before it the name was written as it is: [bIdent_old]) *)
Definition esc_ident (s : bytes) : bytes := flat_map (fun c => if N.eqb c ch_bt then [ch_bt; ch_bt] else [c]) s.
Definition bIdent (b s : bytes) : bytes :=
  match s with [] => b | _ => b ++ ch_bt :: esc_ident s ++ [ch_bt; 32] end.
Definition bIdent_old (b s : bytes) : bytes :=
  match s with [] => b | _ => b ++ ch_bt :: s ++ [ch_bt; 32] end.
Definition bComma (b : bytes) : bytes :=
  match b with
  | [] => b
  | _ => if N.eqb (last_byte b) 32 then removelast b ++ [ch_comma; 32] else b ++ [ch_comma; 32]
  end.
Definition bClose (b : bytes) : bytes :=        (* the end of Wrap *)
  if N.eqb (last_byte b) 32 then removelast b ++ [ch_rp] else b ++ [ch_rp].
Definition bWrap (b : bytes) (f : bytes -> bytes) : bytes := bClose (f (b ++ [ch_lp])).
(** MapComma *)
Fixpoint bMapComma {A} (b : bytes) (first : bool) (l : list A) (f : bytes -> A -> bytes) : bytes :=
  match l with
  | [] => b
  | a :: l' => bMapComma (f (if first then b else bComma b) a) false l' f
  end.
Definition bString (b : bytes) : bytes := trim_space b.

Definition W_CREATE_TABLE : bytes := [67;82;69;65;84;69;32;84;65;66;76;69].
Definition W_NOT : bytes := [78;79;84].
Definition W_NULL : bytes := [78;85;76;76].
Definition W_DEFAULT : bytes := [68;69;70;65;85;76;84].
Definition W_PK_AUTOINC : bytes := K_PRIMARY ++ [32] ++ K_KEY ++ [32] ++ K_AUTOINCREMENT.
Definition W_PRIMARY_KEY : bytes := K_PRIMARY ++ [32] ++ K_KEY.
Definition W_FOREIGN_KEY : bytes := K_FOREIGN ++ [32] ++ K_KEY.
Definition W_DESC : bytes := [68;69;83;67].
Definition W_ON_UPDATE : bytes := [79;78;32;85;80;68;65;84;69].
Definition W_ON_DELETE : bytes := [79;78;32;68;69;76;69;84;69].
Definition W_WITHOUT_ROWID : bytes := [87;73;84;72;79;85;84;32;82;79;87;73;68].
Definition W_STRICT : bytes := [83;84;82;73;67;84].
Definition W_CREATE : bytes := [67;82;69;65;84;69].
Definition W_UNIQUE : bytes := [85;78;73;81;85;69].
Definition W_INDEX : bytes := [73;78;68;69;88].
Definition W_ON : bytes := [79;78].

(** state.column; None = error *)
Definition p_column (x : xtable) (b : bytes) (c : column) : option bytes :=
  if N.eqb (c_class c) 0 then None else
  let b1 := bP (bIdent b (c_name c)) [c_T c] in
  let b2 := bP (if c_null c then b1 else bP b1 [W_NOT]) [W_NULL] in
  match (match c_default c with
         | None => Some b2
         | Some _ => match defaultValue c with Some v => Some (bP b2 [W_DEFAULT; v]) | None => None end
         end) with
  | None => None
  | Some b3 =>
      match has_autoinc x (c_name c), c_gen c with
      | true, Some _ => None
      | true, None => Some (bP b3 [W_PK_AUTOINC])
      | false, Some (e, ty) => Some (bP b3 [K_AS; may_wrap e; ty])
      | false, None => Some b3
      end
  end.
(** indexParts *)
Definition p_parts (b : bytes) (ps : list part) : bytes :=
  bWrap b (fun b0 => bMapComma b0 true ps (fun b1 p =>
    let b2 := match p_col p, p_expr p with
              | Some n, _ => bIdent b1 n
              | None, Some e => b1 ++ may_wrap e
              | None, None => b1
              end in
    if p_desc p then bP b2 [W_DESC] else b2)).
(** fks *)
Definition p_fk (b : bytes) (f : fkey) : bytes :=
  let b1 := match f_symbol f with [] => b | s => bIdent (bP b [K_CONSTRAINT]) s end in
  let b2 := bWrap (bP b1 [W_FOREIGN_KEY]) (fun b0 => bMapComma b0 true (f_cols f) bIdent) in
  let b3 := bWrap (bIdent (bP b2 [K_REFERENCES]) (f_reftable f)) (fun b0 => bMapComma b0 true (f_refcols f) bIdent) in
  let b4 := match f_onupdate f with [] => b3 | a => bP b3 [W_ON_UPDATE; a] end in
  match f_ondelete f with [] => b4 | a => bP b4 [W_ON_DELETE; a] end.
(** check() *)
Definition p_check (b : bytes) (k : check) : bytes :=
  let b1 := match k_name k with [] => b | n => bIdent (bP b [K_CONSTRAINT]) n end in
  bP b1 [K_CHECK; check_expr (k_expr k)].

Fixpoint p_columns (x : xtable) (b : bytes) (first : bool) (cs : list column) : option bytes :=
  match cs with
  | [] => Some b
  | c :: cs' => match p_column x (if first then b else bComma b) c with
                | Some b' => p_columns x b' false cs'
                | None => None
                end
  end.

(** addTable, up to and including the foreign keys: the buffer before the CHECK constraints *)
Definition print_body (x : xtable) : option bytes :=
  let t := x_t x in
  let b0 := bIdent (bP [] [W_CREATE_TABLE]) (t_name t) ++ [ch_lp] in
  match p_columns x b0 true (t_cols t) with
  | None => None
  | Some b1 =>
      let b2 := match t_pk t with
                | Some pk => if autoincPK x pk then b1 else p_parts (bP (bComma b1) [W_PRIMARY_KEY]) (i_parts pk)
                | None => b1
                end in
      Some (match t_fks t with
            | [] => b2
            | fks => bMapComma (bComma b2) true fks p_fk
            end)
  end.
Definition table_opts (t : table) : list bytes :=
  (if t_without_rowid t then [W_WITHOUT_ROWID] else []) ++ (if t_strict t then [W_STRICT] else []).
(** addTable: the CREATE TABLE command *)
Definition print_table (x : xtable) : option bytes :=
  match print_body x with
  | None => None
  | Some b3 =>
      let b4 := fold_left (fun b k => p_check (bComma b) k) (t_checks (x_t x)) b3 in
      Some (bString (bMapComma (bClose b4) true (table_opts (x_t x)) (fun b o => bP b [o])))
  end.

(** addIndexes: one CREATE INDEX command (after normalizeIdxName) *)
Definition print_index (t : table) (i0 : index) : option bytes :=
  match normalize_idx_name i0 t with
  | None => None
  | Some i =>
      let b1 := bP [] [W_CREATE] in
      let b2 := bP (if i_unique i then bP b1 [W_UNIQUE] else b1) [W_INDEX] in
      let b3 := bIdent (bP (bIdent b2 (i_name i)) [W_ON]) (t_name t) in
      let b4 := p_parts b3 (i_parts i) in
      Some (bString (match i_pred i with Some p => bP (bP b4 [K_WHERE]) [p] | None => b4 end))
  end.
