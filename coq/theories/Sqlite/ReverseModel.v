(** C17 over M-SQLITE: the up and down statement lists of a plan, the link between the abstract
    planned changes of Sqlite/PlanModel.v and [migrate.Change] as the formatters see it
    (Lex/DownModel.v), and the well-formedness of engine states the inverse lemmas need.
    No proofs in this file. *)
From Coq Require Import List NArith ZArith Bool Arith.
From Atlas Require Import Base.Bytes Diff.Schema Diff.DiffModel Diff.DiffSqlite
  Sqlite.PlanModel Sqlite.EngineModel Sqlite.InspectModel Lex.DownModel.
Import ListNotations.

(** ** up and down *)

(** what [migrate apply] executes: every [Cmd], in order *)
Definition up_stmts (l : list pchange) : list stmt := map pc_cmd l.
(** what a down migration executes: for the changes last to first, [ReverseStmts()] in the order
    returned *)
Definition down_stmts (l : list pchange) : list stmt := flat_map pc_reverse (rev l).

(** ** the planned change as a [migrate.Change]

    [render] is the SQL text of an abstract statement (sqlx.Builder; outside this model),
    [comment] the text of a comment kind.  [Reverse any]: [dropTable] stores a [string] when the
    reverse is one statement and a [[]string] otherwise; every other arm stores a [string] or
    nothing. *)
Section ToChange.
Variable render : stmt -> bytes.
Variable comment : ckind -> bytes.
Definition to_mchange (pc : pchange) : mchange :=
  MChange (render (pc_cmd pc)) (comment (pc_comment pc))
          (match pc_reverse pc with
           | [] => RNil
           | [r] => RStr (render r)
           | l => RList (map render l)
           end).
End ToChange.

Definition pc_has_reverse (pc : pchange) : bool :=
  match pc_reverse pc with [] => false | _ :: _ => true end.

(** the two changes [PlanChanges] wraps the plan in when [skipFKs] is set *)
Definition pragma_off : pchange := mkPC (SPragmaFK false) [] CmFKOff.
Definition pragma_on : pchange := mkPC (SPragmaFK true) [] CmFKOn.

(** ** the arms whose reverse is an exact inverse by name

    addTable:    CREATE TABLE t (..)        <- DROP TABLE t
    addIndexes:  CREATE INDEX i ON t (..)   <- DROP INDEX i
    alterTable:  ALTER TABLE t ADD COLUMN c <- ALTER TABLE t DROP COLUMN c              *)
Definition additive (pc : pchange) : bool :=
  match pc_cmd pc, pc_reverse pc with
  | SCreateTable x [], [SDropTable n] => str_eqb n (t_name (x_t x))
  | SCreateIndex _ i, [SDropIndex n] => str_eqb n (i_name i)
  | SAddColumn t c _, [SDropColumn t' n] => str_eqb t' t && str_eqb n (c_name c)
  | _, _ => false
  end.

(** a change list without DropTable and without DropIndex: every reversible plan of such a list
    consists of [additive] changes only *)
Definition no_drop_sub (c : change) : bool :=
  match c with DropIndex _ => false | _ => true end.
Definition no_drops (cs : list schange) : bool :=
  forallb (fun c => match c with
                    | AddTable _ => true
                    | DropTable _ => false
                    | ModifyTable _ sub => forallb no_drop_sub sub
                    end) cs.

(** ** well-formed engine states

    what every catalogue SQLite can hold satisfies and [create_table] / [create_index] /
    [add_column] maintain: AUTOINCREMENT marks, row cells, key and index parts, foreign-key
    columns and UNIQUE constraints name existing columns, and a table has a stored column. *)
Definition parts_in (t : table) (ps : list part) : bool :=
  forallb (fun p => match p_col p with Some c => has_col t c | None => true end) ps.

Definition stored_col (c : column) : bool :=
  match c_gen c with None => true | Some _ => false end.

Definition ct_wf (c : ctable) : bool :=
  let t := ct_t c in
  forallb (has_col t) (x_autoinc (ct_x c))
  && forallb (fun r : row => forallb (fun cell => has_col t (fst cell)) (snd r)) (ct_rows c)
  && match t_pk t with Some pk => parts_in t (i_parts pk) | None => true end
  && forallb (fun i => parts_in t (i_parts i)) (t_idx t)
  && forallb (fun f => forallb (has_col t) (f_cols f)) (t_fks t)
  && forallb (forallb (has_col t)) (ct_uniques c)
  && existsb stored_col (t_cols t).

Definition db_wf (d : db) : bool := forallb ct_wf (db_tables d).

(** the tables a plan creates carry their AUTOINCREMENT marks on existing columns *)
Definition x_wf (x : xtable) : bool := forallb (has_col (x_t x)) (x_autoinc x).
Definition stmt_wf (s : stmt) : bool :=
  match s with SCreateTable x _ => x_wf x | _ => true end.
Definition xschema_wf (l : xschema) : bool := forallb x_wf l.
