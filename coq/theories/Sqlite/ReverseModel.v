(** C17 over M-SQLITE: the up and down statement lists of a plan, the link between the abstract
    planned changes of Sqlite/PlanModel.v and [migrate.Change] as the formatters see it
    (Lex/DownModel.v), and the well-formedness of engine states the inverse lemmas need.
    No proofs in this file. *)
From Coq Require Import List NArith ZArith Bool Arith Permutation.
From Atlas Require Import Base.Bytes Diff.Schema Diff.DiffModel Diff.DiffSqlite
  Sqlite.PlanModel Sqlite.EngineModel Sqlite.InspectModel Lex.DownModel.
Import ListNotations.

(** ** up and down *)

(** what [migrate apply] executes: every [Cmd], in order *)
Definition up_stmts (l : list pchange) : list stmt := map pc_cmd l.
(** what a down migration executes: for the changes last to first, [ReverseStmts()] in the order
    returned *)
Definition down_stmts (l : list pchange) : list stmt := flat_map pc_reverse (rev l).

(** ** the planned change as a [migrate.Change]

    [render] is the SQL text of an abstract statement (sqlx.Builder; outside this model),
    [comment] the text of a comment kind.  [Reverse any]: [dropTable] stores a [string] when the
    reverse is one statement and a [[]string] otherwise; every other arm stores a [string] or
    nothing. *)
Section ToChange.
Variable render : stmt -> bytes.
Variable comment : ckind -> bytes.
Definition to_mchange (pc : pchange) : mchange :=
  MChange (render (pc_cmd pc)) (comment (pc_comment pc))
          (match pc_reverse pc with
           | [] => RNil
           | [r] => RStr (render r)
           | l => RList (map render l)
           end).
End ToChange.

Definition pc_has_reverse (pc : pchange) : bool :=
  match pc_reverse pc with [] => false | _ :: _ => true end.

(** the two changes [PlanChanges] wraps the plan in when [skipFKs] is set *)
Definition pragma_off : pchange := mkPC (SPragmaFK false) [] CmFKOff.
Definition pragma_on : pchange := mkPC (SPragmaFK true) [] CmFKOn.

(** ** the arms whose reverse is an exact inverse by name

    addTable:    CREATE TABLE t (..)        <- DROP TABLE t
    addIndexes:  CREATE INDEX i ON t (..)   <- DROP INDEX i
    alterTable:  ALTER TABLE t ADD COLUMN c <- ALTER TABLE t DROP COLUMN c              *)
Definition additive (pc : pchange) : bool :=
  match pc_cmd pc, pc_reverse pc with
  | SCreateTable x [], [SDropTable n] => str_eqb n (t_name (x_t x))
  | SCreateIndex _ i, [SDropIndex n] => str_eqb n (i_name i)
  | SAddColumn t c _, [SDropColumn t' n] => str_eqb t' t && str_eqb n (c_name c)
  | _, _ => false
  end.

(** DROP TABLE n is not refused in state [d] for the foreign keys of *other* tables: enforcement
    is off, or no ON DELETE action of a table referencing [n] is uncompilable
    (EngineModel.drop_blocked: with foreign_keys on, SQLite refuses to drop a table when a table
    referencing it with CASCADE / SET NULL / SET DEFAULT itself references a missing table). *)
Definition droppable (d : db) (n : str) : bool :=
  negb (db_fk d) || negb (drop_blocked n (db_tables d)).

(** every table a change list creates is [droppable] in the state right after its creation *)
Fixpoint droppable_along (d : db) (l : list pchange) : Prop :=
  match l with
  | [] => True
  | pc :: l' =>
      forall dm, exec d (pc_cmd pc) = EngineModel.Ok dm ->
        match pc_cmd pc with
        | SCreateTable x _ => droppable dm (t_name (x_t x)) = true
        | _ => True
        end /\ droppable_along dm l'
  end.

(** a change list without DropTable and without DropIndex: every reversible plan of such a list
    consists of [additive] changes only *)
Definition no_drop_sub (c : change) : bool :=
  match c with DropIndex _ => false | _ => true end.
Definition no_drops (cs : list schange) : bool :=
  forallb (fun c => match c with
                    | AddTable _ => true
                    | DropTable _ => false
                    | ModifyTable _ sub => forallb no_drop_sub sub
                    end) cs.

(** ** well-formed engine states

    what every catalogue SQLite can hold satisfies and [create_table] / [create_index] /
    [add_column] maintain: AUTOINCREMENT marks, row cells, key and index parts, foreign-key
    columns and UNIQUE constraints name existing columns, and a table has a stored column. *)
Definition parts_in (t : table) (ps : list part) : bool :=
  forallb (fun p => match p_col p with Some c => has_col t c | None => true end) ps.

Definition stored_col (c : column) : bool :=
  match c_gen c with None => true | Some _ => false end.

Definition ct_wf (c : ctable) : bool :=
  let t := ct_t c in
  forallb (has_col t) (x_autoinc (ct_x c))
  && forallb (fun r : row => forallb (fun cell => has_col t (fst cell)) (snd r)) (ct_rows c)
  && match t_pk t with Some pk => parts_in t (i_parts pk) | None => true end
  && forallb (fun i => parts_in t (i_parts i)) (t_idx t)
  && forallb (fun f => forallb (has_col t) (f_cols f)) (t_fks t)
  && forallb (forallb (has_col t)) (ct_uniques c)
  && existsb stored_col (t_cols t).

Definition db_wf (d : db) : bool := forallb ct_wf (db_tables d).

(** the tables a plan creates carry their AUTOINCREMENT marks on existing columns *)
Definition x_wf (x : xtable) : bool := forallb (has_col (x_t x)) (x_autoinc x).
Definition stmt_wf (s : stmt) : bool :=
  match s with SCreateTable x _ => x_wf x | _ => true end.
Definition xschema_wf (l : xschema) : bool := forallb x_wf l.

(** ** the drop-index arm

    dropIndexes:  DROP INDEX n  <- CREATE INDEX n ON t (..)
    The reverse re-creates the index from the *inspected* current schema, so the engine gets it
    back at the end of the table's index list and in inspected form: the state is restored up to
    [sim] (same tables, same everything but the index lists, which agree up to order and
    [inspect_index]). *)
Definition drop_index_arm (pc : pchange) : option (str * str * index) :=
  match pc_cmd pc, pc_reverse pc with
  | SDropIndex n, [SCreateIndex t i] => if str_eqb (i_name i) n then Some (n, t, i) else None
  | _, _ => None
  end.

Definition ct_rest (c : ctable) : ctable := set_ct_t c (set_t_idx (ct_t c) []).
Definition ct_idx (c : ctable) : list index := t_idx (ct_t c).

Definition ct_sim (c c' : ctable) : Prop :=
  ct_rest c = ct_rest c' /\
  Permutation (map inspect_index (ct_idx c)) (map inspect_index (ct_idx c')).

Definition sim (d a : db) : Prop :=
  db_fk d = db_fk a /\ db_tx d = db_tx a /\ Forall2 ct_sim (db_tables d) (db_tables a).

(** the condition under which the planner's reverse of DROP INDEX n is faithful at state [d]:
    table [t] of [d] holds an index [j] called [n] that inspects like [i]; [n] can be created
    again ([index_def_ok]: name not empty and not reserved, parts columns of [t] or expressions), and the rows of [t] do not break [i] when it is UNIQUE
    (SQLite guarantees that of an existing unique index; the abstract engine keeps no such
    invariant, so it is stated). *)
Definition faithful_idx (d : db) (n t : str) (i : index) : Prop :=
  exists ct j,
    find_ct t (db_tables d) = Some ct /\ In j (ct_idx ct) /\ i_name j = n /\
    inspect_index j = inspect_index i /\
    index_def_ok (ct_t ct) i = EngineModel.Ok tt /\
    match i_unique i, i_pred i, part_col_names (i_parts i) with
    | true, None, Some cols => has_dup_on cols (ct_rows ct) = false
    | _, _, _ => True
    end.

(** every name of the namespace tables and indexes share is used once *)
Definition names_ok (d : db) : Prop := NoDup (all_names (db_tables d)).

(** the changes of a list, each judged at the state it executes in *)
Fixpoint arms_ok (d : db) (l : list pchange) : Prop :=
  match l with
  | [] => True
  | pc :: l' =>
      ((additive pc = true /\ stmt_wf (pc_cmd pc) = true /\
        forall dm, exec d (pc_cmd pc) = EngineModel.Ok dm ->
          match pc_cmd pc with SCreateTable x _ => droppable dm (t_name (x_t x)) = true | _ => True end) \/
       (exists n t i, drop_index_arm pc = Some (n, t, i) /\ faithful_idx d n t i)) /\
      forall dm, exec d (pc_cmd pc) = EngineModel.Ok dm -> arms_ok dm l'
  end.

(** a change list without DropTable (DropIndex allowed) *)
Definition no_drop_table (cs : list schange) : bool :=
  forallb (fun c => match c with DropTable _ => false | _ => true end) cs.

(** the state-dependent conditions of a planned change list, each at the state its change
    executes in: the reverse of a DROP INDEX is faithful, a created table can be dropped again *)
Fixpoint conds (d : db) (l : list pchange) : Prop :=
  match l with
  | [] => True
  | pc :: l' =>
      match drop_index_arm pc with Some (n, t, i) => faithful_idx d n t i | None => True end /\
      forall dm, exec d (pc_cmd pc) = EngineModel.Ok dm ->
        match pc_cmd pc with SCreateTable x _ => droppable dm (t_name (x_t x)) = true | _ => True end /\
        conds dm l'
  end.

(** ** static conditions for the drop-index arms

    [touches pc n]: the statement of [pc] creates or drops an index called [n].
    [fresh_drops l]: no DROP INDEX n of the list comes after a change that touches [n] -- what every
    change list of the differ satisfies (a modified index is DropIndex n then AddIndex n; an index
    is dropped once).  Decidable on the plan. *)
Definition touches (pc : pchange) (n : str) : bool :=
  match pc_cmd pc with
  | SDropIndex m => str_eqb m n
  | SCreateIndex _ i => str_eqb (i_name i) n
  | _ => false
  end.

Fixpoint fresh_drops (l : list pchange) : bool :=
  match l with
  | [] => true
  | pc :: l' =>
      forallb (fun pc2 => match drop_index_arm pc2 with
                          | Some (n, _, _) => negb (touches pc n)
                          | None => true
                          end) l'
      && fresh_drops l'
  end.

(** every DROP INDEX arm of the list is faithful in state [d] (the state the plan starts from) *)
Definition drops_faithful (d : db) (l : list pchange) : Prop :=
  forall pc n t i, In pc l -> drop_index_arm pc = Some (n, t, i) -> faithful_idx d n t i.

(** what the planner's view [from] of the current schema has to satisfy in the start state [d]:
    every index of [from] that a DropIndex change can name is re-created faithfully.  It is what
    [from = inspect d] provides for the explicit indexes of [d] (not for the automatic index of an
    inline UNIQUE, which [normalize_idx_name] renames: the known finding). *)
Definition from_ok (d : db) (from : xschema) : Prop :=
  forall t xf m k i tt i',
    find_xtable t from = Some xf -> find_idx m (t_idx (x_t xf)) = Some (k, i) ->
    t_name tt = t -> normalize_idx_name i tt = Some i' ->
    faithful_idx d (i_name i') t i'.

(** ** when the planner is given the inspection of the state: [from = inspect d]

    [idx_ok d]: no inline UNIQUE constraints (their automatic indexes are what the planner renames),
    and every explicit index of [d] has a name outside the sqlite_autoindex namespace, an inspected
    form that is a fixed point of [inspect_index] (false only for unbalanced expression texts),
    that CREATE INDEX accepts on its table, and that the rows satisfy when it is UNIQUE. *)
Definition idx_ok (d : db) : Prop :=
  forall ct, In ct (db_tables d) ->
    ct_uniques ct = [] /\
    forall j, In j (ct_idx ct) ->
      Schema.has_prefix SQLITE_AUTOINDEX (i_name j) = None /\
      inspect_index (inspect_index j) = inspect_index j /\
      index_def_ok (ct_t ct) (inspect_index j) = EngineModel.Ok tt /\
      match i_unique (inspect_index j), i_pred (inspect_index j), part_col_names (i_parts (inspect_index j)) with
      | true, None, Some cols => has_dup_on cols (ct_rows ct) = false
      | _, _, _ => True
      end.
