(** C01: the ALTER path of one table -- plan, execution and the empty second diff. *)
From Coq Require Import List NArith ZArith Bool Arith Lia.
From Atlas Require Import Base.Bytes Diff.Schema Diff.DiffModel Diff.DiffSqlite Diff.DiffProofs Diff.DiffSqliteProofs
  Sqlite.PlanModel Sqlite.EngineModel Sqlite.InspectModel Sqlite.ConvergeDefs Sqlite.ConvergeTable Sqlite.ConvergeEngine
  Sqlite.ConvergePlan.
Import ListNotations.

(** a catalogue entry of the domain of the theorem: no rows, no inline UNIQUE constraints, explicit
    indexes not named like autoindexes, distinct column names, a primary key over existing columns *)
Record good_ct (c : ctable) : Prop := {
  g_rows : ct_rows c = [];
  g_uniq : ct_uniques c = [];
  g_idx : no_auto_names (t_idx (ct_t c));
  g_cols : NoDup (map c_name (t_cols (ct_t c)));
  g_pk : forall pk, t_pk (ct_t c) = Some pk ->
           exists names, part_col_names (i_parts pk) = Some names /\ forall n, In n names -> has_col (ct_t c) n = true
}.

(** the inspected table of such an entry *)
Lemma inspect_table_fields c :
  ct_uniques c = [] ->
  let a := x_t (inspect_table c) in
  t_name a = ct_name c /\ t_without_rowid a = t_without_rowid (ct_t c) /\ t_strict a = t_strict (ct_t c) /\
  t_cols a = map inspect_column (t_cols (ct_t c)) /\ t_pk a = inspect_pk (ct_t c) /\
  t_idx a = map inspect_index (t_idx (ct_t c)) /\ t_fks a = inspect_fks (ct_t c) /\
  t_checks a = map inspect_check (t_checks (ct_t c)).
Proof.
  intros U. unfold inspect_table. cbn. unfold inspect_indexes. rewrite U. cbn. repeat split; reflexivity.
Qed.

Lemma find_col_inspect n l :
  find_col n (map inspect_column l) = option_map inspect_column (find_col n l).
Proof.
  unfold find_col. induction l as [|c l IH]; simpl; [reflexivity|].
  destruct (str_eqb (c_name c) n); [reflexivity|exact IH].
Qed.

Lemma kfind_inspect_index n l :
  kfind i_name n (map inspect_index l) = option_map inspect_index (kfind i_name n l).
Proof.
  unfold kfind. induction l as [|c l IH]; simpl; [reflexivity|].
  destruct (str_eqb (i_name c) n); [reflexivity|exact IH].
Qed.

Lemma has_prefix_app_some p q s r : has_prefix (p ++ q) s = Some r -> exists r', has_prefix p s = Some r'.
Proof.
  revert s. induction p as [|a p IH]; intros s H; simpl in *; [eexists; reflexivity|].
  destruct s as [|b s]; [discriminate|]. destruct (N.eqb a b); [|discriminate]. apply IH in H. exact H.
Qed.

Lemma not_generated_name t i : has_prefix SQLITE_AUTOINDEX (i_name i) = None -> sqlite_is_generated_index_name t i = false.
Proof.
  intros H. unfold sqlite_is_generated_index_name.
  destruct (has_prefix (SQLITE_AUTOINDEX ++ [ch_us] ++ t_name t ++ [ch_us]) (i_name i)) as [r|] eqn:E; [|reflexivity].
  apply has_prefix_app_some in E. destruct E as [r' E]. congruence.
Qed.

Lemma attr_part_nil_flags a b : attr_part a b = [] -> t_without_rowid a = t_without_rowid b /\ t_strict a = t_strict b.
Proof.
  unfold attr_part. intros H. apply app_eq_nil in H. destruct H as [H1 H2]. apply app_eq_nil in H2. destruct H2 as [H2 _].
  split.
  - destruct (t_without_rowid a), (t_without_rowid b); simpl in H1; try reflexivity; discriminate.
  - destruct (t_strict a), (t_strict b); simpl in H2; try reflexivity; discriminate.
Qed.
