(** C01: the ALTER path of one table -- plan, execution and the empty second diff. *)
From Coq Require Import List NArith ZArith Bool Arith Lia.
From Atlas Require Import Base.Bytes Diff.Schema Diff.DiffModel Diff.DiffSqlite Diff.DiffProofs Diff.DiffSqliteProofs
  Sqlite.PlanModel Sqlite.EngineModel Sqlite.InspectModel Sqlite.ConvergeDefs Sqlite.ConvergeTable Sqlite.ConvergeEngine
  Sqlite.ConvergePlan.
Import ListNotations.

(** a catalogue entry of the domain of the theorem: no rows, no inline UNIQUE constraints, explicit
    indexes not named like autoindexes, distinct column names, a primary key over existing columns *)
Record good_ct (c : ctable) : Prop := {
  g_rows : ct_rows c = [];
  g_uniq : ct_uniques c = [];
  g_idx : no_auto_names (t_idx (ct_t c));
  g_cols : NoDup (map c_name (t_cols (ct_t c)));
  g_pk : forall pk, t_pk (ct_t c) = Some pk ->
           exists names, part_col_names (i_parts pk) = Some names /\ forall n, In n names -> has_col (ct_t c) n = true
}.

(** the inspected table of such an entry *)
Lemma inspect_table_fields c :
  ct_uniques c = [] ->
  let a := x_t (inspect_table c) in
  t_name a = ct_name c /\ t_without_rowid a = t_without_rowid (ct_t c) /\ t_strict a = t_strict (ct_t c) /\
  t_cols a = map inspect_column (t_cols (ct_t c)) /\ t_pk a = inspect_pk (ct_t c) /\
  t_idx a = map inspect_index (t_idx (ct_t c)) /\ t_fks a = inspect_fks (ct_t c) /\
  t_checks a = map inspect_check (t_checks (ct_t c)).
Proof.
  intros U. unfold inspect_table. cbn. unfold inspect_indexes. rewrite U. cbn. repeat split; reflexivity.
Qed.

Lemma find_col_inspect n l :
  find_col n (map inspect_column l) = option_map inspect_column (find_col n l).
Proof.
  unfold find_col. induction l as [|c l IH]; simpl; [reflexivity|].
  destruct (str_eqb (c_name c) n); [reflexivity|exact IH].
Qed.

Lemma kfind_inspect_index n l :
  kfind i_name n (map inspect_index l) = option_map inspect_index (kfind i_name n l).
Proof.
  unfold kfind. induction l as [|c l IH]; simpl; [reflexivity|].
  destruct (str_eqb (i_name c) n); [reflexivity|exact IH].
Qed.

Lemma has_prefix_app_some p q s r : has_prefix (p ++ q) s = Some r -> exists r', has_prefix p s = Some r'.
Proof.
  revert s. induction p as [|a p IH]; intros s H; simpl in *; [eexists; reflexivity|].
  destruct s as [|b s]; [discriminate|]. destruct (N.eqb a b); [|discriminate]. apply IH in H. exact H.
Qed.

Lemma not_generated_name t i : has_prefix SQLITE_AUTOINDEX (i_name i) = None -> sqlite_is_generated_index_name t i = false.
Proof.
  intros H. unfold sqlite_is_generated_index_name.
  destruct (has_prefix (SQLITE_AUTOINDEX ++ [ch_us] ++ t_name t ++ [ch_us]) (i_name i)) as [r|] eqn:E; [|reflexivity].
  apply has_prefix_app_some in E. destruct E as [r' E]. congruence.
Qed.

Lemma attr_part_nil_flags a b : attr_part a b = [] -> t_without_rowid a = t_without_rowid b /\ t_strict a = t_strict b.
Proof.
  unfold attr_part. intros H. apply app_eq_nil in H. destruct H as [H1 H2]. apply app_eq_nil in H2. destruct H2 as [H2 _].
  split.
  - destruct (t_without_rowid a), (t_without_rowid b); simpl in H1; try reflexivity; discriminate.
  - destruct (t_strict a), (t_strict b); simpl in H2; try reflexivity; discriminate.
Qed.

(** ** the entry after the ALTER group *)
Definition alter_ct (ct : ctable) (b : table) : ctable :=
  let a := x_t (inspect_table ct) in
  add_idx (added_idx (t_idx a) (t_idx b))
    (drop_idx (map i_name (dropped_idx (t_idx a) (t_idx b)))
       (add_cols (added_cols (t_cols a) (t_cols b)) ct)).

Definition kept_idx (ct : ctable) (b : table) : list index :=
  filter (fun i => negb (existsb (str_eqb (i_name i)) (map i_name (dropped_idx (t_idx (x_t (inspect_table ct))) (t_idx b)))))
         (t_idx (ct_t ct)).

Lemma alter_ct_fields ct b :
  let a := x_t (inspect_table ct) in
  let t' := ct_t (alter_ct ct b) in
  ct_uniques (alter_ct ct b) = ct_uniques ct /\ ct_rows (alter_ct ct b) = ct_rows ct /\
  t_name t' = t_name (ct_t ct) /\ t_without_rowid t' = t_without_rowid (ct_t ct) /\ t_strict t' = t_strict (ct_t ct) /\
  t_cols t' = t_cols (ct_t ct) ++ added_cols (t_cols a) (t_cols b) /\
  t_pk t' = t_pk (ct_t ct) /\
  t_idx t' = kept_idx ct b ++ added_idx (t_idx a) (t_idx b) /\
  t_fks t' = t_fks (ct_t ct) /\ t_checks t' = t_checks (ct_t ct).
Proof. destruct ct as [[t ai] u r]. destruct t. cbn. repeat split; reflexivity. Qed.

Lemma has_col_inspect t n : has_col (mkTable [] false false (map inspect_column (t_cols t)) None [] [] []) n = has_col t n.
Proof. unfold has_col. cbn [t_cols]. rewrite find_col_inspect. destruct (find_col n (t_cols t)); reflexivity. Qed.

Lemma find_col_app n l1 l2 :
  find_col n (l1 ++ l2) = match find_col n l1 with Some c => Some c | None => find_col n l2 end.
Proof. unfold find_col. apply find_app'. Qed.

Lemma inspect_pk_add_cols t l :
  (forall pk, t_pk t = Some pk -> exists names, part_col_names (i_parts pk) = Some names /\
                                  forall n, In n names -> has_col t n = true) ->
  (forall c, In c l -> has_col t (c_name c) = false) ->
  inspect_pk (mkTable (t_name t) (t_without_rowid t) (t_strict t) (t_cols t ++ l) (t_pk t) (t_idx t) (t_fks t) (t_checks t))
  = inspect_pk t.
Proof.
  intros HP _. unfold inspect_pk. cbn [t_pk t_cols].
  destruct (t_pk t) as [pk|] eqn:E; [|reflexivity].
  destruct (HP pk eq_refl) as [names [EN HN]]. rewrite EN.
  assert (X : forall ns, (forall n, In n ns -> has_col t n = true) ->
     flat_map (fun n => match find_col n (t_cols t ++ l) with Some c => [c_name c] | None => [] end) ns =
     flat_map (fun n => match find_col n (t_cols t) with Some c => [c_name c] | None => [] end) ns).
  { induction ns as [|n ns IH]; intros H; [reflexivity|]. cbn [flat_map].
    rewrite IH by (intros x Hx; apply H; right; exact Hx). f_equal.
    specialize (H n (or_introl eq_refl)). unfold has_col in H. rewrite find_col_app.
    destruct (find_col n (t_cols t)); [reflexivity|discriminate]. }
  rewrite (X names HN). reflexivity.
Qed.

Lemma kfind_app {A} (key : A -> str) n l1 l2 :
  kfind key n (l1 ++ l2) = match kfind key n l1 with Some c => Some c | None => kfind key n l2 end.
Proof. unfold kfind. apply find_app'. Qed.

Lemma kfind_in_some {A} (key : A -> str) l x : In x l -> kfind key (key x) l <> None.
Proof. apply kfind_in_not_none. Qed.

(** the second diff of the altered table is empty *)
Lemma alter_sync ct bx cs :
  let a := x_t (inspect_table ct) in
  let b := x_t bx in
  good_ct ct -> ct_name ct = t_name b ->
  tdiff a b = Some cs -> forallb alter_kind cs = true ->
  no_auto_names (t_idx b) -> NoDup (map c_name (t_cols b)) -> NoDup (map i_name (t_idx b)) ->
  (forall cb, In cb (t_cols b) -> colchg (inspect_column cb) cb = Some 0%N) ->
  (forall ib, In ib (t_idx b) -> index_change sqlite_driver (inspect_index ib) ib = 0%N) ->
  table_synced (alter_ct ct b) bx.
Proof.
  intros a b G HN HD HK NA NDC NDI CRT IRT.
  destruct (inspect_table_fields ct (g_uniq ct G)) as [A1 [A2 [A3 [A4 [A5 [A6 [A7 A8]]]]]]]. fold a in A1, A2, A3, A4, A5, A6, A7, A8.
  assert (GA : forall i, In i (t_idx a) -> sqlite_is_generated_index_name (set_t_name a (t_name b)) i = false).
  { intros i Hi. apply not_generated_name. rewrite A6 in Hi. apply in_map_iff in Hi. destruct Hi as [i0 [E Hi0]].
    subst i. simpl. apply (g_idx ct G). exact Hi0. }
  destruct (alterable_facts a b cs HD HK (no_auto_norm_stable _ NA) GA) as [AF _].
  destruct (alter_ct_fields ct b) as [F1 [F2 [F3 [F4 [F5 [F6 [F7 [F8 [F9 F10]]]]]]]]]. fold a in F6, F8.
  assert (U' : ct_uniques (alter_ct ct b) = []) by (rewrite F1; apply (g_uniq ct G)).
  destruct (inspect_table_fields (alter_ct ct b) U') as [B1 [B2 [B3 [B4 [B5 [B6 [B7 B8]]]]]]].
  set (a' := x_t (inspect_table (alter_ct ct b))) in *.
  unfold table_synced. fold a'. fold b.
  (* facts about the added columns *)
  assert (ADDC : forall cb, In cb (added_cols (t_cols a) (t_cols b)) -> In cb (t_cols b) /\ find_col (c_name cb) (t_cols a) = None).
  { intros cb H. unfold added_cols in H. apply filter_In in H. destruct H as [H1 H2]. split; [exact H1|].
    destruct (find_col (c_name cb) (t_cols a)); [discriminate|reflexivity]. }
  assert (HASA : forall n, find_col n (t_cols a) = None -> has_col (ct_t ct) n = false).
  { intros n H. rewrite A4, find_col_inspect in H. unfold has_col. destruct (find_col n (t_cols (ct_t ct))); [discriminate|reflexivity]. }
  apply tdiff_nil_criterion.
  - apply no_auto_norm_stable. exact NA.
  - (* attributes and checks: as before *)
    rewrite <- (af_attr a b AF). unfold attr_part. rewrite B2, B3, B8, A2, A3, A8, F4, F5, F10. reflexivity.
  - (* every column of the altered table is matched without a change *)
    intros c Hc. rewrite B4, F6, map_app in Hc. apply in_app_or in Hc. destruct Hc as [Hc|Hc].
    + apply (af_cols a b AF). rewrite A4. exact Hc.
    + apply in_map_iff in Hc. destruct Hc as [cb [E Hcb]]. subst c. destruct (ADDC cb Hcb) as [Hin _].
      exists cb. split; [|apply CRT; exact Hin]. simpl. apply find_col_nodup; assumption.
  - (* every desired column is there *)
    intros cb Hcb. rewrite B4, F6, map_app, find_col_app.
    destruct (find_col (c_name cb) (map inspect_column (t_cols (ct_t ct)))) eqn:E; [discriminate|].
    rewrite find_col_inspect.
    assert (Hadd : In cb (added_cols (t_cols a) (t_cols b))).
    { unfold added_cols. apply filter_In. split; [exact Hcb|]. rewrite A4, E. reflexivity. }
    assert (X : find_col (c_name cb) (added_cols (t_cols a) (t_cols b)) <> None) by (apply (kfind_in_some c_name); exact Hadd).
    destruct (find_col (c_name cb) (added_cols (t_cols a) (t_cols b))); [discriminate|congruence].
  - (* primary key: as before *)
    rewrite <- (af_pk a b AF). rewrite B5, A5. f_equal.
    destruct (alter_ct ct b) as [[t' ai'] u' r'] eqn:EA. cbn [ct_t ct_x x_t] in *.
    destruct t' as [n' w' s' c' p' i' f' k']. cbn in F3, F4, F5, F6, F7, F8, F9, F10. subst.
    rewrite <- (inspect_pk_add_cols (ct_t ct) (added_cols (t_cols a) (t_cols b)) (g_pk ct G)).
    + unfold inspect_pk. reflexivity.
    + intros c Hc. apply HASA. apply ADDC. exact Hc.
  - (* no generated names *)
    intros i Hi. apply not_generated_name. rewrite B6, F8, map_app in Hi. apply in_app_or in Hi. destruct Hi as [Hi|Hi];
      apply in_map_iff in Hi; destruct Hi as [i0 [E Hi0]]; subst i; simpl.
    + apply (g_idx ct G). unfold kept_idx in Hi0. apply filter_In in Hi0. tauto.
    + apply NA. unfold added_idx in Hi0. apply filter_In in Hi0. tauto.
  - (* every index of the altered table is matched without a change *)
    intros i Hi. rewrite B6, F8, map_app in Hi. apply in_app_or in Hi. destruct Hi as [Hi|Hi];
      apply in_map_iff in Hi; destruct Hi as [i0 [E Hi0]]; subst i.
    + (* kept: it was found in the desired table, with no change *)
      unfold kept_idx in Hi0. apply filter_In in Hi0. destruct Hi0 as [Hin Hkeep].
      assert (Hia : In (inspect_index i0) (t_idx a)) by (rewrite A6; apply in_map; exact Hin).
      destruct (kfind i_name (i_name (inspect_index i0)) (t_idx b)) as [ib|] eqn:F.
      * exists ib. split; [reflexivity|]. apply (af_idx a b AF _ Hia ib F).
      * exfalso. apply negb_true_iff in Hkeep.
        assert (X : existsb (str_eqb (i_name i0)) (map i_name (dropped_idx (t_idx (x_t (inspect_table ct))) (t_idx b))) = true).
        { apply existsb_exists. exists (i_name (inspect_index i0)). split; [|apply str_eqb_refl].
          apply in_map. unfold dropped_idx. apply filter_In. split; [exact Hia|]. rewrite F. reflexivity. }
        congruence.
    + unfold added_idx in Hi0. apply filter_In in Hi0. destruct Hi0 as [Hin _].
      exists i0. split; [|apply IRT; exact Hin]. simpl. apply (kfind_nodup i_name); assumption.
  - (* every desired index is there *)
    intros ib Hib. rewrite B6, F8, map_app, kfind_app.
    destruct (kfind i_name (i_name ib) (map inspect_index (kept_idx ct b))) eqn:E; [discriminate|].
    destruct (kfind i_name (i_name ib) (t_idx a)) as [ia|] eqn:FA.
    + (* found before, hence kept *)
      exfalso. rewrite A6, kfind_inspect_index in FA.
      destruct (kfind i_name (i_name ib) (t_idx (ct_t ct))) as [i0|] eqn:F0; [|discriminate].
      apply kfind_some_in in F0. destruct F0 as [Hin0 Hn0].
      assert (K : In i0 (kept_idx ct b)).
      { unfold kept_idx. apply filter_In. split; [exact Hin0|]. apply negb_true_iff.
        destruct (existsb (str_eqb (i_name i0)) (map i_name (dropped_idx (t_idx (x_t (inspect_table ct))) (t_idx b)))) eqn:Ex; [|reflexivity].
        apply existsb_exists in Ex. destruct Ex as [n [Hn En]]. apply str_eqb_eq in En. subst n.
        apply in_map_iff in Hn. destruct Hn as [id [Eid Hid]]. unfold dropped_idx in Hid. apply filter_In in Hid.
        destruct Hid as [_ Hnone]. rewrite Eid, Hn0 in Hnone.
        assert (Y : kfind i_name (i_name ib) (t_idx b) <> None) by (apply (kfind_in_some i_name); exact Hib).
        destruct (kfind i_name (i_name ib) (t_idx b)); [discriminate|congruence]. }
      assert (Y : kfind i_name (i_name (inspect_index i0)) (map inspect_index (kept_idx ct b)) <> None).
      { apply (kfind_in_some i_name). apply in_map. exact K. }
      simpl in Y. rewrite Hn0 in Y. congruence.
    + assert (Hadd : In ib (added_idx (t_idx a) (t_idx b))).
      { unfold added_idx. apply filter_In. split; [exact Hib|]. rewrite FA. reflexivity. }
      assert (Y : kfind i_name (i_name (inspect_index ib)) (map inspect_index (added_idx (t_idx a) (t_idx b))) <> None).
      { apply (kfind_in_some i_name). apply in_map. exact Hadd. }
      simpl in Y. exact Y.
  - (* foreign keys: as before *)
    rewrite <- (af_fk a b AF). rewrite B7, A7. unfold inspect_fks. rewrite F9. reflexivity.
Qed.

(** ** plan and execution of the ALTER group *)
Lemma all_names_update_same n f l :
  (forall c, ct_names (f c) = ct_names c) -> all_names (update_ct n f l) = all_names l.
Proof.
  intros H. induction l as [|c l IH]; simpl; [reflexivity|].
  destruct (str_eqb (ct_name c) n); simpl.
  - change (ct_names (f c) ++ all_names l = ct_names c ++ all_names l). rewrite H. reflexivity.
  - rewrite IH. reflexivity.
Qed.

Lemma first_err_all {A} (f : A -> result unit) l : first_err f l = Ok tt -> forall x, In x l -> f x = Ok tt.
Proof.
  induction l as [|a l IH]; simpl; intros H x Hx; [destruct Hx|].
  destruct (f a) as [[]|] eqn:E; [|discriminate]. destruct Hx as [<-|Hx]; [exact E|apply IH; assumption].
Qed.

Lemma index_def_ok_mono t t' i :
  index_def_ok t i = Ok tt -> (forall n, has_col t n = true -> has_col t' n = true) -> index_def_ok t' i = Ok tt.
Proof.
  unfold index_def_ok. intros H M. destruct (i_name i); [discriminate|].
  destruct (reserved_name (n :: s)); [discriminate|]. destruct (i_parts i) as [|p ps]; [discriminate|].
  revert H. generalize (p :: ps). induction l as [|q l IH]; simpl; intros H; [reflexivity|].
  unfold part_ok_b in *. destruct (p_col q) as [c|].
  - destruct (has_col t c) eqn:E; [|discriminate]. rewrite (M c E). apply IH. exact H.
  - destruct (p_expr q); [apply IH; exact H|discriminate].
Qed.

Lemma alterable_add_col b cs cb :
  alterable b cs = true -> In (AddColumn (c_name cb)) cs -> find_col (c_name cb) (t_cols b) = Some cb ->
  alterable_add_column b cb = true.
Proof.
  unfold alterable. intros H Hin F. apply (proj1 (forallb_forall _ _) H) in Hin. simpl in Hin. rewrite F in Hin. exact Hin.
Qed.

Lemma alterable_addable b cb strict :
  alterable_add_column b cb = true -> column_def_ok (mkTable [] false strict [] None [] [] []) cb = Ok tt ->
  addable strict cb.
Proof.
  unfold alterable_add_column, addable. intros H D. split; [exact D|].
  destruct (col_in_index b (c_name cb) || col_in_fk b (c_name cb)); [discriminate|].
  destruct (c_default cb) as [[v|x]|].
  - destruct (str_eqb v CURRENT_TIME || str_eqb v CURRENT_DATE || str_eqb v CURRENT_TIMESTAMP) eqn:E; [discriminate|].
    destruct (c_gen cb) as [[x ty]|]; [apply negb_true_iff; exact H|reflexivity].
  - discriminate.
  - destruct (c_gen cb) as [[x ty]|]; [apply negb_true_iff; exact H|exact I].
Qed.

Lemma alter_plan_exec d ct bx cs :
  let a := x_t (inspect_table ct) in
  let b := x_t bx in
  let t := x_name bx in
  NoDup (all_names (db_tables d)) -> find_ct t (db_tables d) = Some ct -> good_ct ct ->
  tdiff a b = Some cs -> alterable b cs = true ->
  no_auto_names (t_idx b) -> NoDup (map c_name (t_cols b)) -> NoDup (map i_name (t_idx b)) ->
  forallb (column_ok bx) (t_cols b) = true ->
  (forall cb, In cb (t_cols b) -> column_def_ok b cb = Ok tt) ->
  (forall ib, In ib (t_idx b) -> index_def_ok b ib = Ok tt) ->
  (forall cb, In cb (added_cols (t_cols a) (t_cols b)) -> has_autoinc bx (c_name cb) = false) ->
  (forall ib, In ib (added_idx (t_idx a) (t_idx b)) -> ~ In (i_name ib) (all_names (db_tables d))) ->
  exists pcs, modifyTable a bx cs = Some (pcs, false) /\
    exec_all d (map pc_cmd pcs) = Ok (set_tables d (update_ct t (fun _ => alter_ct ct b) (db_tables d))).
Proof.
  intros a b t ND F G HD HAL NA NDC NDI COK CDEF IDEF NOAI FRESH.
  assert (HK := alterable_alter_kind b cs HAL).
  destruct (find_ct_in _ _ _ F) as [Fin Fname].
  destruct (inspect_table_fields ct (g_uniq ct G)) as [A1 [A2 [A3 [A4 [A5 [A6 [A7 A8]]]]]]]. fold a in A1, A2, A3, A4, A5, A6, A7, A8.
  assert (GA : forall i, In i (t_idx a) -> sqlite_is_generated_index_name (set_t_name a (t_name b)) i = false).
  { intros i Hi. apply not_generated_name. rewrite A6 in Hi. apply in_map_iff in Hi. destruct Hi as [i0 [E Hi0]].
    subst i. simpl. apply (g_idx ct G). exact Hi0. }
  destruct (alterable_facts a b cs HD HK (no_auto_norm_stable _ NA) GA) as [AF ECS].
  rewrite col_add_as_map, (idx_dm_as_map a b AF), idx_add_as_map in ECS.
  set (L1 := added_cols (t_cols a) (t_cols b)) in *.
  set (L2 := dropped_idx (t_idx a) (t_idx b)) in *.
  set (L3 := added_idx (t_idx a) (t_idx b)) in *.
  assert (I1 : incl L1 (t_cols b)) by (intros x Hx; unfold L1, added_cols in Hx; apply filter_In in Hx; tauto).
  assert (I2 : incl L2 (t_idx a)) by (intros x Hx; unfold L2, dropped_idx in Hx; apply filter_In in Hx; tauto).
  assert (I3 : incl L3 (t_idx b)) by (intros x Hx; unfold L3, added_idx in Hx; apply filter_In in Hx; tauto).
  assert (NDA : NoDup (map i_name (t_idx (ct_t ct)))).
  { clear -ND Fin. induction (db_tables d) as [|c l IH]; [destruct Fin|]. simpl in ND. inversion ND as [|y ys Hy Hys]; subst.
    destruct Fin as [->|Fin]; [eapply NoDup_app_l; eauto|apply IH; [eapply NoDup_app_r; eauto|exact Fin]]. }
  assert (NDAi : NoDup (map i_name (t_idx a))).
  { rewrite A6, map_map. simpl. exact NDA. }
  assert (NA2 : no_auto_names L2).
  { intros i Hi. apply I2 in Hi. rewrite A6 in Hi. apply in_map_iff in Hi. destruct Hi as [i0 [E Hi0]]. subst i. simpl. apply (g_idx ct G). exact Hi0. }
  (* the plan *)
  assert (PL : alterTable a bx cs = Some (map (add_col_pc bx) L1
               ++ map (fun i => mkPC (SDropIndex (i_name i)) [SCreateIndex (x_name bx) i] CmDropIndex) L2
               ++ map (create_idx_pc (x_name bx)) L3)).
  { rewrite ECS, alterTable_app, alterTable_app.
    rewrite (alter_cols a bx L1 NDC I1); [|intros c Hc; apply (proj1 (forallb_forall _ _) COK); apply I1; exact Hc].
    rewrite (alter_drops a bx L2 NDAi I2 NA2).
    rewrite (alter_adds a bx L3 NDI I3); [reflexivity|]. intros i Hi. apply NA. apply I3. exact Hi. }
  eexists. split; [unfold modifyTable; fold b; rewrite HAL, PL; reflexivity|].
  rewrite !map_app, !map_map. cbn [pc_cmd add_col_pc create_idx_pc].
  assert (E1 : map (fun c => SAddColumn (x_name bx) c (has_autoinc bx (c_name c))) L1 = map (fun c => SAddColumn t c false) L1).
  { apply map_ext_in. intros c Hc. rewrite (NOAI c Hc). reflexivity. }
  rewrite E1.
  change (map (fun x => SDropIndex (i_name x)) L2) with (map (fun x => SDropIndex (i_name x)) L2).
  rewrite <- (map_map i_name SDropIndex L2).
  fold t.
  destruct (attr_part_nil_flags a b (af_attr a b AF)) as [_ STR]. rewrite A3 in STR.
  (* phase 1 *)
  rewrite exec_all_app.
  rewrite (exec_add_columns t L1 d ct F (g_rows ct G)).
  2:{ intros c Hc. apply (alterable_addable b c).
      - apply (alterable_add_col b cs c HAL).
        + rewrite ECS. apply in_or_app. left. apply in_map_iff. exists c. split; [reflexivity|exact Hc].
        + apply find_col_nodup; [exact NDC|apply I1; exact Hc].
      - rewrite <- (CDEF c (I1 c Hc)). apply column_def_ok_strict. simpl. exact STR. }
  2:{ apply (NoDup_map_filter c_name). exact NDC. }
  2:{ intros c Hc. unfold L1, added_cols in Hc. apply filter_In in Hc. destruct Hc as [_ Hc].
      rewrite A4, find_col_inspect in Hc. unfold has_col. destruct (find_col (c_name c) (t_cols (ct_t ct))); [discriminate|reflexivity]. }
  set (d1 := set_tables d (update_ct t (add_cols L1) (db_tables d))).
  assert (F1 : find_ct t (db_tables d1) = Some (add_cols L1 ct)) by (apply (find_ct_update t (add_cols L1) _ ct); [reflexivity|exact F]).
  assert (N1 : all_names (db_tables d1) = all_names (db_tables d)) by (apply all_names_update_same; reflexivity).
  (* phase 2 *)
  rewrite exec_all_app.
  rewrite (exec_drop_indexes t (map i_name L2) d1 (add_cols L1 ct)).
  2:{ rewrite N1. exact ND. }
  2:{ exact F1. }
  2:{ intros n Hn. simpl. apply in_map_iff in Hn. destruct Hn as [i [E Hi]]. apply I2 in Hi. rewrite A6 in Hi.
      apply in_map_iff in Hi. destruct Hi as [i0 [E0 Hi0]]. subst i n. simpl. apply in_map. exact Hi0. }
  2:{ apply (NoDup_map_filter i_name). exact NDAi. }
  set (d2 := set_tables d1 (update_ct t (drop_idx (map i_name L2)) (db_tables d1))).
  set (c2 := drop_idx (map i_name L2) (add_cols L1 ct)).
  assert (F2 : find_ct t (db_tables d2) = Some c2) by (apply (find_ct_update t (drop_idx (map i_name L2)) _ (add_cols L1 ct)); [reflexivity|exact F1]).
  (* phase 3 *)
  change (map (fun x : index => SCreateIndex t x) L3) with (map (SCreateIndex t) L3).
  rewrite (exec_create_indexes t L3 d2 c2 F2).
  2:{ apply (g_rows ct G). }
  2:{ intros i Hi. apply (index_def_ok_mono b); [apply IDEF; apply I3; exact Hi|].
      intros n Hn. unfold c2, has_col. simpl. rewrite find_col_app.
      destruct (find_col n (t_cols (ct_t ct))) eqn:E; [reflexivity|].
      unfold has_col in Hn. destruct (find_col n (t_cols b)) as [cb|] eqn:Eb; [|discriminate].
      apply kfind_some_in in Eb. destruct Eb as [Hcb Hname].
      assert (X : In cb L1).
      { unfold L1, added_cols. apply filter_In. split; [exact Hcb|]. rewrite A4, find_col_inspect, Hname, E. reflexivity. }
      assert (Y : find_col (c_name cb) L1 <> None) by (apply (kfind_in_some c_name); exact X).
      rewrite Hname in Y. destruct (find_col n L1); [reflexivity|congruence]. }
  2:{ apply (NoDup_map_filter i_name). exact NDI. }
  2:{ intros i Hi Hin. apply (FRESH i Hi). rewrite <- N1. unfold d2 in Hin. simpl in Hin.
      eapply all_names_drop_incl. exact Hin. }
  f_equal. unfold d2, d1, set_tables. simpl. f_equal.
  rewrite (update_ct_update t (add_cols L1) (drop_idx (map i_name L2))); [|reflexivity].
  rewrite (update_ct_update t _ (add_idx L3)); [|reflexivity].
  rewrite (update_ct_same t _ _ ct F). reflexivity.
Qed.
