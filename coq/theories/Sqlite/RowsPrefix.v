(** C05, plans that stop in the middle (--tx-mode none, a statement is refused): after every
    prefix of the plan the rows of every modified table are still in the database -- in the
    table itself (untouched, or already carried over) or, between DROP TABLE t and RENAME, in
    new_t.  Statements are atomic: a refused statement leaves the state it found. *)
From Coq Require Import List NArith Bool Arith Lia.
From Atlas Require Import Base.Bytes Diff.Schema Sqlite.RowsModel Sqlite.RowsProofs.
Import ListNotations.

Section Prefix.
Variable conv : str -> str -> value -> value.
Variable genv : str -> rcol -> row -> value.
Hypothesis conv_same : forall t v, conv t t v = v.

Notation exec := (exec conv genv).
Notation exec_all := (exec_all conv genv).
Notation copy_rows := (copy_rows conv genv).
Notation eval_expr := (eval_expr conv).
Notation kept_rows := (kept_rows conv).

Notation run := (run conv genv).

Lemma run_prefix l : forall d d' r, run d l = (d', r) -> exists k, exec_all d (firstn k l) = EOk d'.
Proof.
  induction l as [|s l IH]; intros d d' r H; simpl in H.
  - inversion H; subst. exists 0. reflexivity.
  - destruct (exec d s) as [d1|e] eqn:E.
    + destruct (IH _ _ _ H) as [k Hk]. exists (S k). simpl. now rewrite E.
    + inversion H; subst. exists 0. reflexivity.
Qed.

Lemma run_complete l : forall d d', run d l = (d', None) -> exec_all d l = EOk d'.
Proof.
  induction l as [|s l IH]; intros d d' H; simpl in *.
  - inversion H; reflexivity.
  - destruct (exec d s); [auto|discriminate].
Qed.

(** *** names *)
Definition names (d : db) : list str := map et_name (d_tables d).

Lemma find_et_none_iff n l : find_et n l = None <-> ~ In n (map et_name l).
Proof.
  unfold find_et. induction l as [|u l IH]; simpl; [tauto|].
  destruct (str_eqb (et_name u) n) eqn:E.
  - seq. split; [discriminate|]. intros H. exfalso. apply H. auto.
  - seq. rewrite IH. split; intros H; [intros [X|X]; auto|intro X; apply H; auto].
Qed.

Lemma remove_et_names_nodup n l :
  NoDup (map et_name l) -> find_et n (remove_et n l) = None /\ NoDup (map et_name (remove_et n l)).
Proof.
  induction l as [|u l IH]; simpl; intros ND; [split; [reflexivity|constructor]|].
  inversion ND; subst. destruct (str_eqb (et_name u) n) eqn:E.
  - seq. subst n. split; [apply find_et_none_iff; exact H1|exact H2].
  - destruct (IH H2) as [A B]. split.
    + unfold find_et in *. simpl. now rewrite E.
    + simpl. constructor; [|exact B]. intro X. apply H1.
      clear -X. induction l as [|w l IHl]; simpl in *; [contradiction|].
      destruct (str_eqb (et_name w) n); simpl in *; [right; exact X|destruct X; auto].
Qed.

Lemma replace_et_names t l : map et_name (replace_et t l) = map et_name l.
Proof.
  induction l as [|u l IH]; simpl; [reflexivity|].
  destruct (str_eqb (et_name u) (et_name t)) eqn:E; simpl; [seq; now rewrite E|now rewrite IH].
Qed.

(** *** where the rows of a modified table are *)
Definition copied_rows (t : tdef) (m : list tchange) (told : etable) (rows' : list row) : Prop :=
  match pairs m (td_cols t) with
  | [] => rows' = []
  | _ =>
    length rows' = length (et_rows told) /\
    forall i r r', nth_error (et_rows told) i = Some r -> nth_error rows' i = Some r' ->
      forall c, In c (td_cols t) -> rc_gen c = false ->
        exists v', get r' (rc_name c) = Some v' /\
                   (rc_notnull c = true -> v' <> VNull) /\
                   match kept m c with
                   | Some x => eval_expr told r (rc_type c) x = EOk v'
                   | None => v' = rc_defval c
                   end
  end.

Definition somewhere (t : tdef) (m : list tchange) (told : etable) (d : db) : Prop :=
  (exists tcur, find_et (td_name t) (d_tables d) = Some tcur /\ (tcur = told \/ kept_rows t m told tcur))
  \/ (find_et (td_name t) (d_tables d) = None /\
      exists rows', find_et (new_prefix ++ td_name t) (d_tables d)
                    = Some (mkEtable (new_prefix ++ td_name t) (td_cols t) (td_fks t) rows') /\
                    copied_rows t m told rows').

Lemma kept_rows_copy t m told tnew :
  alterable m = false -> et_cols tnew = td_cols t -> copied_rows t m told (et_rows tnew) ->
  kept_rows t m told tnew.
Proof.
  intros A C R. unfold RowsProofs.kept_rows. rewrite A. split; [exact C|].
  unfold copied_rows in R. destruct (pairs m (td_cols t)); exact R.
Qed.

Lemma exec_all_index_prefix d t idx k : exec_all d (firstn k (addIndexes t idx)) = EOk d.
Proof.
  unfold addIndexes. revert k. induction idx as [|i idx IH]; intros [|k]; simpl; auto.
Qed.

(** *** the copy path, prefix by prefix *)
Lemma copy_prefix_safe d t m cp told k d' :
  d_fk d = false -> alterable m = false ->
  NoDup (names d) ->
  copyRows t (newT t) m = POk cp ->
  NoDup (map rc_name (td_cols t)) ->
  find_et (td_name t) (d_tables d) = Some told ->
  exec_all d (firstn k (copy_seg t cp)) = EOk d' ->
  somewhere t m told d'.
Proof.
  intros F A NDN CP ND FT H.
  pose proof CP as CPS. apply copyRows_spec in CPS. cbn [newT set_td_idx set_td_name td_cols td_name] in CPS.
  rewrite copy_seg_eq in H.
  destruct k as [|k]; cbn [firstn RowsModel.exec_all app] in H.
  { inversion H; subst d'. left. exists told. auto. }
  destruct (exec d (SCreateTable (newT t))) as [d1|] eqn:E1; [|discriminate].
  apply exec_create in E1. cbn [newT td_name td_cols td_fks set_td_idx set_td_name] in E1.
  destruct E1 as [N1 ->].
  change (mkEtable (new_prefix ++ td_name t) (td_cols t) (td_fks t) []) with (new_tab t) in *.
  pose proof (new_name_neq (td_name t)) as NEQ.
  set (d1 := set_tables d (d_tables d ++ [new_tab t])) in *.
  assert (find_et (new_prefix ++ td_name t) (d_tables d1) = Some (new_tab t)) as FN1.
  { unfold d1; simpl. rewrite find_et_app, N1. simpl. now rewrite str_eqb_refl. }
  assert (find_et (td_name t) (d_tables d1) = Some told) as FT1.
  { unfold d1; simpl. now rewrite find_et_app, FT. }
  assert (NoDup (names d1)) as ND1.
  { unfold names, d1; simpl. rewrite map_app. simpl.
    apply find_et_none_iff in N1. clear -NDN N1. unfold names in NDN.
    induction (map et_name (d_tables d)) as [|x l IH]; simpl; [constructor; [intros []|constructor]|].
    inversion NDN; subst. constructor.
    - intro X. apply in_app_or in X. destruct X as [X|[X|[]]]; [auto|]. subst. apply N1. left; reflexivity.
    - apply IH; auto. intro X. apply N1. right; exact X. }
  (* the state after the (optional) copy statement *)
  assert (forall j d2, exec_all d1 (firstn j cp) = EOk d2 ->
            d_fk d2 = false /\ NoDup (names d2) /\
            find_et (td_name t) (d_tables d2) = Some told /\
            ((j = 0 \/ cp = []) /\ d2 = d1 \/
             exists rows', cp <> [] /\ j <> 0 /\
               find_et (new_prefix ++ td_name t) (d_tables d2)
                 = Some (mkEtable (new_prefix ++ td_name t) (td_cols t) (td_fks t) rows') /\
               copied_rows t m told rows')) as STEP2.
  { intros j d2 X. subst cp. destruct (pairs m (td_cols t)) as [|p0 ps0] eqn:PS.
    - rewrite firstn_nil in X. inversion X; subst d2. repeat split; auto.
    - destruct j as [|j]; cbn [firstn RowsModel.exec_all] in X.
      + inversion X; subst d2. repeat split; auto.
      + destruct (exec d1 (SCopyRows _ _ _ _)) as [d2'|] eqn:E2; [|discriminate].
        rewrite firstn_nil in X. cbn [RowsModel.exec_all] in X. inversion X; subst d2'. clear X.
        apply exec_copy in E2. destruct E2 as [new [old [rows [A1 [B1 [C1 D1]]]]]].
        rewrite FN1 in A1. inversion A1; subst new. rewrite FT1 in B1. inversion B1; subst old.
        subst d2. simpl. split; [exact F|]. split; [|split].
        * unfold names. simpl.
          rewrite replace_et_names. exact ND1.
        * rewrite find_et_replace_other; [exact FT1|]. simpl. exact NEQ.
        * right. exists rows. split; [discriminate|]. split; [discriminate|]. split.
          -- change (new_prefix ++ td_name t) with (et_name (set_rows (new_tab t) rows)).
             erewrite find_et_replace_same; [reflexivity|]. simpl. exact FN1.
          -- unfold copied_rows. rewrite PS. eapply copy_path_rows; eauto. }
  (* split the prefix: part of cp, then DROP, RENAME, indexes *)
  rewrite firstn_app in H. rewrite exec_all_app in H.
  destruct (exec_all d1 (firstn k cp)) as [d2|] eqn:X2; [|discriminate].
  destruct (STEP2 _ _ X2) as [F2 [ND2 [FT2 ST]]].
  remember (k - length cp) as k2 eqn:K2.
  destruct k2 as [|k2]; cbn [firstn RowsModel.exec_all app] in H.
  { inversion H; subst d'. left. exists told. auto. }
  (* the DROP has been executed: the copy before it was complete *)
  assert (exists rows', find_et (new_prefix ++ td_name t) (d_tables d2)
                          = Some (mkEtable (new_prefix ++ td_name t) (td_cols t) (td_fks t) rows') /\
                        copied_rows t m told rows') as [rows' [FN2 CR2]].
  { destruct ST as [[J ->]|[rows' [_ [_ [A2 B2]]]]]; [|eauto].
    assert (cp = []) as CE.
    { destruct J as [J|J]; [|exact J]. subst k. simpl in K2. destruct cp; [reflexivity|discriminate]. }
    exists []. split; [exact FN1|]. unfold copied_rows. rewrite CE in CPS.
    destruct (pairs m (td_cols t)); [reflexivity|discriminate]. }
  destruct (exec d2 (SDropTable (td_name t))) as [d3|] eqn:E3; [|discriminate].
  apply exec_drop_off in E3; [|exact F2]. destruct E3 as [t0 [_ ->]].
  destruct (remove_et_names_nodup (td_name t) (d_tables d2) ND2) as [FT3 ND3].
  assert (find_et (new_prefix ++ td_name t) (remove_et (td_name t) (d_tables d2))
          = Some (mkEtable (new_prefix ++ td_name t) (td_cols t) (td_fks t) rows')) as FN3.
  { rewrite find_et_remove_other by (intro X; apply NEQ; now symmetry). exact FN2. }
  destruct k2 as [|k2]; cbn [firstn RowsModel.exec_all app] in H.
  { inversion H; subst d'. right. simpl. split; [exact FT3|]. exists rows'. auto. }
  destruct (exec _ (SRenameTable _ _)) as [d4|] eqn:E4; [|discriminate].
  apply exec_rename in E4. destruct E4 as [t1 [A4 [B4 ->]]]. simpl in A4, B4.
  rewrite exec_all_index_prefix in H. inversion H; subst d'. clear H.
  left. eexists. split.
  - simpl. exact (find_et_rename _ _ _ _ FN3 B4).
  - right. apply kept_rows_copy; [exact A|reflexivity|exact CR2].
Qed.

(** *** the ALTER path, prefix by prefix *)
Lemma alter_prefix_effect n : forall cs l d d' told k,
  alterTable n cs = POk l ->
  find_et n (d_tables d) = Some told ->
  exec_all d (firstn k l) = EOk d' ->
  exists tnew, find_et n (d_tables d') = Some tnew /\
               rows_ext (renamed_cols cs) (et_rows told) (et_rows tnew).
Proof.
  induction cs as [|c cs IH]; intros l d d' told k A FT H; simpl in A.
  - inversion A; subst. rewrite firstn_nil in H. simpl in H. inversion H; subst.
    exists told. split; [exact FT|apply rows_ext_refl].
  - assert (forall e, rows_ext e (et_rows told) (et_rows told)) as RR by (intro; apply rows_ext_refl).
    destruct c as [c0|m|m k0|a b|i|i|a b|tg]; try discriminate;
      destruct (alterTable n cs) as [l'|e] eqn:A'; try discriminate; inversion A; subst l; clear A;
      (destruct k as [|k]; [cbn [firstn RowsModel.exec_all] in H; inversion H; subst d'; exists told; split; [exact FT|apply RR]|]).
    + (* AddColumn *)
      cbn [app firstn RowsModel.exec_all] in H.
      destruct (exec d (SAddColumn n c0)) as [d1|] eqn:E1; [|discriminate].
      unfold RowsModel.exec in E1. rewrite FT in E1.
      destruct (find_rcol (rc_name c0) (et_cols told)); [discriminate|].
      destruct (_ && _); [discriminate|]. inversion E1; subst d1; clear E1.
      set (t1 := mkEtable (et_name told) (et_cols told ++ [c0]) (et_fks told)
                   (map (fun r => r ++ [(rc_name c0, if rc_gen c0 then genv n c0 r else rc_defval c0)]) (et_rows told))) in *.
      assert (find_et n (d_tables (set_tables d (replace_et t1 (d_tables d)))) = Some t1) as F1.
      { simpl. pose proof (find_et_name _ _ _ FT) as NM. rewrite <- NM.
        change (et_name told) with (et_name t1). eapply find_et_replace_same. simpl. rewrite NM. exact FT. }
      destruct (IH _ _ _ _ k eq_refl F1 H) as [tnew [FN R]]. exists tnew. split; [exact FN|].
      cbn [renamed_cols flat_map app]. fold (renamed_cols cs).
      apply (rows_ext_trans [] _ _ (et_rows t1)); [|exact R].
      simpl. clear. induction (et_rows told); constructor; auto.
      intros k v _ G. now apply get_app_some.
    + (* RenameColumn *)
      cbn [app firstn RowsModel.exec_all] in H.
      destruct (exec d (SRenameColumn n a b)) as [d1|] eqn:E1; [|discriminate].
      unfold RowsModel.exec in E1. rewrite FT in E1.
      destruct (find_rcol a (et_cols told)); [|discriminate].
      destruct (find_rcol b (et_cols told)); [discriminate|]. inversion E1; subst d1; clear E1.
      match type of H with context [replace_et ?T _] => set (t1 := T) in * end.
      assert (find_et n (d_tables (set_tables d (replace_et t1 (d_tables d)))) = Some t1) as F1.
      { simpl. pose proof (find_et_name _ _ _ FT) as NM. rewrite <- NM.
        change (et_name told) with (et_name t1). eapply find_et_replace_same. simpl. rewrite NM. exact FT. }
      destruct (IH _ _ _ _ k eq_refl F1 H) as [tnew [FN R]]. exists tnew. split; [exact FN|].
      cbn [renamed_cols flat_map]. fold (renamed_cols cs).
      apply (rows_ext_trans [a; b] _ _ (et_rows t1)); [|exact R].
      simpl. clear. induction (et_rows told); constructor; auto.
      intros k v Hk G. apply get_rename_other; auto; intro X; apply Hk; simpl; auto.
    + (* AddIndex *)
      cbn [app firstn RowsModel.exec_all RowsModel.exec] in H.
      destruct (IH _ _ _ _ k eq_refl FT H) as [tnew [FN R]]. exists tnew. split; [exact FN|exact R].
    + (* DropIndex *)
      cbn [app firstn RowsModel.exec_all RowsModel.exec] in H.
      destruct (IH _ _ _ _ k eq_refl FT H) as [tnew [FN R]]. exists tnew. split; [exact FN|exact R].
    + (* RenameIndex: two statements *)
      cbn [app firstn RowsModel.exec_all RowsModel.exec] in H.
      destruct k as [|k]; [cbn [firstn RowsModel.exec_all] in H; inversion H; subst d'; exists told; split; [exact FT|apply RR]|].
      cbn [app firstn RowsModel.exec_all RowsModel.exec] in H.
      destruct (IH _ _ _ _ k eq_refl FT H) as [tnew [FN R]]. exists tnew. split; [exact FN|exact R].
Qed.

(** *** names stay distinct *)
Lemma rename_names_nodup a b l :
  NoDup (map et_name l) -> find_et b l = None -> NoDup (map et_name (map (rename_et a b) l)).
Proof.
  induction l as [|u l IH]; simpl; intros ND FB; [constructor|].
  inversion ND; subst. unfold find_et in FB. simpl in FB.
  destruct (str_eqb (et_name u) b) eqn:EB; [discriminate|]. fold (find_et b l) in FB.
  specialize (IH H2 FB). constructor; [|exact IH].
  intro X. apply in_map_iff in X. destruct X as [w [Hw Hin]]. apply in_map_iff in Hin.
  destruct Hin as [w0 [<- Hin0]].
  destruct (str_eqb (et_name u) a) eqn:EA.
  - rewrite (rename_et_hit _ _ _ EA) in Hw. simpl in Hw.
    destruct (str_eqb (et_name w0) a) eqn:EW.
    + seq. apply H1. apply in_map_iff. exists w0. split; [congruence|exact Hin0].
    + rewrite (rename_et_miss _ _ _ EW) in Hw. apply find_et_none_iff in FB. apply FB.
      apply in_map_iff. exists w0. auto.
  - rewrite (rename_et_miss _ _ _ EA) in Hw.
    destruct (str_eqb (et_name w0) a) eqn:EW.
    + rewrite (rename_et_hit _ _ _ EW) in Hw. simpl in Hw. seq. congruence.
    + rewrite (rename_et_miss _ _ _ EW) in Hw. apply H1. apply in_map_iff. exists w0. auto.
Qed.

Lemma exec_names_nodup d s d' :
  d_fk d = false \/ is_drop s = false -> exec d s = EOk d' -> NoDup (names d) -> NoDup (names d').
Proof.
  intros F H ND. unfold names in *. destruct s; unfold RowsModel.exec in H.
  - destruct (d_intx d); inversion H; subst; exact ND.
  - destruct (find_et (td_name t) (d_tables d)) eqn:E; [discriminate|]. inversion H; subst; simpl.
    rewrite map_app. simpl. apply find_et_none_iff in E. clear -ND E.
    induction (map et_name (d_tables d)) as [|x l IH]; simpl; [constructor; [intros []|constructor]|].
    inversion ND; subst. constructor.
    + intro X. apply in_app_or in X. destruct X as [X|[X|[]]]; [auto|]. subst. apply E. left; reflexivity.
    + apply IH; auto. intro X. apply E. right; exact X.
  - destruct F as [F|F]; [|discriminate]. destruct (find_et n (d_tables d)); [|discriminate].
    rewrite F in H. inversion H; subst; simpl. apply (remove_et_names_nodup n _ ND).
  - destruct (find_et a (d_tables d)); [|discriminate]. destruct (find_et b (d_tables d)) eqn:EB; [discriminate|].
    inversion H; subst; simpl. rewrite map_rename_eq. apply rename_names_nodup; assumption.
  - destruct (find_et to_t (d_tables d)); [|discriminate]. destruct (find_et from_t (d_tables d)); [|discriminate].
    destruct (negb _); [discriminate|]. destruct (targets_ok _ _); [|discriminate].
    destruct (RowsModel.copy_rows _ _ _ _ _ _ _); [|discriminate]. inversion H; subst; simpl.
    now rewrite replace_et_names.
  - destruct (find_et t (d_tables d)); [|discriminate]. destruct (find_rcol _ _); [discriminate|].
    destruct (_ && _); [discriminate|]. inversion H; subst; simpl. now rewrite replace_et_names.
  - destruct (find_et t (d_tables d)); [|discriminate]. destruct (find_rcol a _); [|discriminate].
    destruct (find_rcol b _); [discriminate|]. inversion H; subst; simpl. now rewrite replace_et_names.
  - inversion H; subst; exact ND.
  - inversion H; subst; exact ND.
Qed.

Lemma exec_all_names_nodup l : forall d d',
  d_fk d = false \/ forallb (fun s => negb (is_drop s)) l = true ->
  forallb (fun s => negb (is_pragma s)) l = true ->
  exec_all d l = EOk d' -> NoDup (names d) -> NoDup (names d').
Proof.
  induction l as [|s l IH]; intros d d' F NP H ND; simpl in *.
  - inversion H; subst; exact ND.
  - apply andb_true_iff in NP. destruct NP as [NP1 NP2].
    destruct (exec d s) as [d1|e] eqn:E; [|discriminate].
    assert (is_pragma s = false) as NPs by (destruct (is_pragma s); [discriminate|reflexivity]).
    destruct (exec_flags conv genv _ _ _ NPs E) as [F1 _].
    apply (IH d1 d'); auto.
    + destruct F as [F|F]; [left; congruence|right]. apply andb_true_iff in F. tauto.
    + eapply exec_names_nodup; eauto. destruct F as [F|F]; [left; exact F|right].
      apply andb_true_iff in F. destruct F as [F _]. destruct (is_drop s); [discriminate|reflexivity].
Qed.

Lemma forallb_firstn {A} (f : A -> bool) k l : forallb f l = true -> forallb f (firstn k l) = true.
Proof.
  revert k; induction l as [|x l IH]; intros [|k] H; simpl in *; auto.
  apply andb_true_iff in H. destruct H as [H1 H2]. rewrite H1. simpl. auto.
Qed.

Lemma in_firstn {A} (x : A) k l : In x (firstn k l) -> In x l.
Proof.
  revert k; induction l as [|y l IH]; intros [|k] H; simpl in *; try contradiction.
  destruct H; eauto.
Qed.

(** [somewhere] only looks at the table and at its temporary twin *)
Lemma somewhere_frame t m told d d' :
  find_et (td_name t) (d_tables d') = find_et (td_name t) (d_tables d) ->
  find_et (new_prefix ++ td_name t) (d_tables d') = find_et (new_prefix ++ td_name t) (d_tables d) ->
  somewhere t m told d -> somewhere t m told d'.
Proof. unfold somewhere. intros -> ->. auto. Qed.

(** one segment, any prefix *)
Lemma seg_prefix_safe t m l b d d' told k :
  seg (ModifyTable t m) = POk (l, b) ->
  d_fk d = false \/ b = false -> NoDup (names d) ->
  NoDup (map rc_name (td_cols t)) ->
  find_et (td_name t) (d_tables d) = Some told ->
  exec_all d (firstn k l) = EOk d' ->
  somewhere t m told d'.
Proof.
  rewrite seg_modify. destruct (alterable m) eqn:A.
  - destruct (alterTable _ m) as [l0|e] eqn:E; [|discriminate]. intros H; inversion H; subst. intros _ _ _ FT X.
    destruct (alter_prefix_effect _ _ _ _ _ _ _ E FT X) as [tnew [FN R]].
    left. exists tnew. split; [exact FN|right]. unfold RowsProofs.kept_rows. now rewrite A.
  - destruct (copyRows _ _ m) as [cp|e] eqn:E; [|discriminate]. intros H; inversion H; subst. clear H.
    intros [F|F] NDN ND FT X; [|discriminate].
    eapply copy_prefix_safe; eauto.
Qed.

Lemma plan_prefix_general : forall cs l b d d' k,
  segs cs = POk (l, b) ->
  d_fk d = false \/ b = false ->
  NoDup (flat_map touched cs) -> NoDup (names d) ->
  exec_all d (firstn k l) = EOk d' ->
  (forall n, ~ In n (flat_map touched cs) -> find_et n (d_tables d') = find_et n (d_tables d)) /\
  (forall t m told, In (ModifyTable t m) cs -> NoDup (map rc_name (td_cols t)) ->
     find_et (td_name t) (d_tables d) = Some told -> somewhere t m told d').
Proof.
  induction cs as [|c cs IH]; intros l b d d' k S F ND NDN X.
  - simpl in S. inversion S; subst. rewrite firstn_nil in X. simpl in X. inversion X; subst.
    split; auto. intros t m told [].
  - apply segs_cons in S. destruct S as [l0 [b0 [l1 [b1 [S0 [S1 [-> ->]]]]]]].
    rewrite firstn_app in X. rewrite exec_all_app in X.
    destruct (exec_all d (firstn k l0)) as [d1|] eqn:X0; [|discriminate].
    simpl in ND. destruct (nodup_app_inv _ _ ND) as [ND0 [ND1 DJ]].
    assert (d_fk d = false \/ forallb (fun s => negb (is_drop s)) (firstn k l0) = true) as F0.
    { destruct F as [F|F]; [left; exact F|right]. apply orb_false_iff in F. destruct F; subst.
      apply forallb_firstn. eapply seg_drop_skip; eauto. }
    pose proof (forallb_firstn _ k _ (seg_no_pragma _ _ _ S0)) as NP0.
    destruct (exec_all_flags conv genv _ _ _ NP0 X0) as [FK1 TX1].
    assert (forall n, ~ In n (touched c) -> find_et n (d_tables d1) = find_et n (d_tables d)) as FR0.
    { intros n Hn. eapply (exec_all_frame conv genv); eauto.
      intros s Hs Hm. apply Hn. eapply seg_touches; eauto. eapply in_firstn; eauto. }
    assert (NoDup (names d1)) as NDN1 by (eapply exec_all_names_nodup; eauto).
    assert (d_fk d1 = false \/ b1 = false) as F1.
    { destruct F as [F|F]; [left; congruence|right]. apply orb_false_iff in F. tauto. }
    destruct (IH _ _ _ _ _ S1 F1 ND1 NDN1 X) as [FR1 EF1].
    split.
    + intros n Hn. rewrite FR1, FR0; auto; intro Y; apply Hn; apply in_or_app; auto.
    + intros t m told [Hc|Hc] NDc FT.
      * subst c. assert (d_fk d = false \/ b0 = false) as Fb.
        { destruct F as [F|F]; [left; exact F|right]. apply orb_false_iff in F. tauto. }
        pose proof (seg_prefix_safe _ _ _ _ _ _ _ _ S0 Fb NDN NDc FT X0) as SW.
        eapply somewhere_frame; [| |exact SW]; apply FR1; apply DJ; simpl; auto.
      * assert (In (td_name t) (flat_map touched cs)) as Hin.
        { apply in_flat_map. exists (ModifyTable t m). split; [exact Hc|simpl; auto]. }
        apply EF1; auto. rewrite FR0; [exact FT|]. intro Y. exact (DJ _ Y Hin).
Qed.

(** the whole plan with its bracket, after any prefix (the next statement was refused, or the
    process was killed) *)
Lemma C05_no_prefix_loses_rows_lemma :
  forall d cs p d' k,
  wf_changes cs -> pragma_effective d -> NoDup (names d) ->
  PlanChanges cs = POk p -> exec_all d (firstn k p) = EOk d' ->
  (forall n, ~ In n (flat_map touched cs) -> find_et n (d_tables d') = find_et n (d_tables d)) /\
  (forall t m told, In (ModifyTable t m) cs -> NoDup (map rc_name (td_cols t)) ->
     find_et (td_name t) (d_tables d) = Some told -> somewhere t m told d').
Proof.
  intros d cs p d' k WF PE NDN P X.
  rewrite PlanChanges_segs in P. destruct (segs cs) as [[l b]|e] eqn:S; [|discriminate].
  destruct b; inversion P; subst p; clear P.
  - destruct k as [|k]; cbn [firstn RowsModel.exec_all] in X.
    { inversion X; subst d'. split; auto. intros t m told _ _ FT. left. exists told. auto. }
    destruct (exec d (SPragmaFK false)) as [d0|] eqn:E0; [|discriminate].
    assert (d_fk d0 = false /\ d_tables d0 = d_tables d) as [F0 T0].
    { unfold RowsModel.exec in E0. destruct (d_intx d) eqn:I; inversion E0; subst; simpl; auto.
      destruct PE as [PE|PE]; [auto|congruence]. }
    rewrite firstn_app in X. rewrite exec_all_app in X.
    destruct (exec_all d0 (firstn k l)) as [d1|] eqn:X1; [|discriminate].
    assert (d_tables d' = d_tables d1) as T2.
    { destruct (k - length l) as [|j]; cbn [firstn RowsModel.exec_all] in X.
      - inversion X; reflexivity.
      - destruct (exec d1 (SPragmaFK true)) as [d2|] eqn:E2; [|discriminate].
        rewrite firstn_nil in X. cbn [RowsModel.exec_all] in X. inversion X; subst d2.
        unfold RowsModel.exec in E2. destruct (d_intx d1); inversion E2; subst; reflexivity. }
    assert (NoDup (names d0)) as NDN0 by (unfold names; rewrite T0; exact NDN).
    destruct (plan_prefix_general cs l true d0 d1 k S (or_introl F0) WF NDN0 X1) as [FR EF].
    unfold somewhere. rewrite T2. rewrite <- T0. split; [exact FR|exact EF].
  - destruct (plan_prefix_general cs l false d d' k S (or_intror eq_refl) WF NDN X) as [FR EF]. split; assumption.
Qed.

Corollary C05_refused_plan_keeps_rows_lemma :
  forall d cs p d' r,
  wf_changes cs -> pragma_effective d -> NoDup (names d) ->
  PlanChanges cs = POk p -> run d p = (d', r) ->
  (forall n, ~ In n (flat_map touched cs) -> find_et n (d_tables d') = find_et n (d_tables d)) /\
  (forall t m told, In (ModifyTable t m) cs -> NoDup (map rc_name (td_cols t)) ->
     find_et (td_name t) (d_tables d) = Some told -> somewhere t m told d').
Proof.
  intros d cs p d' r WF PE NDN P R. apply run_prefix in R. destruct R as [k X].
  eapply C05_no_prefix_loses_rows_lemma; eauto.
Qed.

(** *** `atlas schema apply`, both transaction modes, any initial setting of foreign_keys *)
Notation schema_apply := (schema_apply conv genv).

Lemma C05_schema_apply_lemma :
  forall mode d cs d' r,
  d_intx d = false -> wf_changes cs -> NoDup (names d) ->
  schema_apply mode d cs = Some (d', r) ->
  (mode = TxFile -> d_fk d' = d_fk d /\ d_intx d' = false) /\
  (mode = TxFile -> r <> None -> d_tables d' = d_tables d) /\
  (forall n, ~ In n (flat_map touched cs) -> find_et n (d_tables d') = find_et n (d_tables d)) /\
  (forall t m told, In (ModifyTable t m) cs -> NoDup (map rc_name (td_cols t)) ->
     find_et (td_name t) (d_tables d) = Some told ->
     (r = None -> exists tnew, find_et (td_name t) (d_tables d') = Some tnew /\ kept_rows t m told tnew) /\
     somewhere t m told d').
Proof.
  intros mode d cs d' r NT WF NDN H. unfold RowsModel.schema_apply in H.
  destruct (PlanChanges cs) as [p|e] eqn:P; [|discriminate].
  destruct mode.
  - (* --tx-mode none *)
    inversion H as [R]. clear H.
    assert (pragma_effective d) as PE by (right; exact NT).
    destruct (C05_refused_plan_keeps_rows_lemma d cs p d' r WF PE NDN P R) as [FR SW].
    split; [discriminate|]. split; [discriminate|]. split; [exact FR|].
    intros t m told Hin ND FT. split; [|apply SW; assumption].
    intros ->. apply run_complete in R.
    destruct (apply_general conv genv cs p d d' P PE WF R) as [_ EF]. apply EF; assumption.
  - (* --tx-mode file *)
    assert (pragma_effective (OpenTx d)) as PE by (left; reflexivity).
    destruct (exec_all (OpenTx d) p) as [d1|e] eqn:X; inversion H; subst d' r; clear H.
    + destruct (apply_general conv genv cs p (OpenTx d) d1 P PE WF X) as [FR EF].
      split; [intros _; simpl; auto|]. split; [intros _ C; exfalso; apply C; reflexivity|].
      split; [exact FR|].
      intros t m told Hin ND FT. destruct (EF t m told Hin ND FT) as [tnew [FN K]].
      split; [intros _; exists tnew; auto|]. left. exists tnew. simpl. auto.
    + split; [intros _; simpl; auto|]. split; [intros _ _; reflexivity|]. split; [reflexivity|].
      intros t m told Hin ND FT. split; [discriminate|]. left. exists told. simpl. auto.
Qed.

End Prefix.
