(** C01: the names of the catalogue (tables and explicit indexes share one namespace) stay distinct
    through the statement groups; which names a group can introduce. *)
From Coq Require Import List NArith ZArith Bool Arith Lia Permutation.
From Atlas Require Import Base.Bytes Diff.Schema Diff.DiffModel Diff.DiffSqlite Diff.DiffProofs Diff.DiffSqliteProofs
  Sqlite.PlanModel Sqlite.EngineModel Sqlite.InspectModel Sqlite.ConvergeDefs Sqlite.ConvergeTable Sqlite.ConvergeEngine
  Sqlite.ConvergePlan Sqlite.ConvergeAlter.
Import ListNotations.

Lemma NoDup_app_intro {A} (l1 l2 : list A) :
  NoDup l1 -> NoDup l2 -> (forall x, In x l1 -> ~ In x l2) -> NoDup (l1 ++ l2).
Proof.
  induction l1 as [|a l1 IH]; simpl; intros H1 H2 HD; [exact H2|].
  inversion H1; subst. constructor.
  - intros X. apply in_app_or in X. destruct X as [X|X]; [contradiction|]. exact (HD a (or_introl eq_refl) X).
  - apply IH; auto; intros x Hx; apply HD; right; exact Hx.
Qed.

Lemma all_names_add_idx_perm t L T ct :
  find_ct t T = Some ct -> Permutation (all_names (update_ct t (add_idx L) T)) (map i_name L ++ all_names T).
Proof.
  unfold find_ct. induction T as [|c T IH]; simpl; intros F; [discriminate|].
  destruct (str_eqb (ct_name c) t); simpl.
  - change (ct_name (add_idx L c)) with (ct_name c). rewrite map_app.
    eapply Permutation_trans; [|apply (Permutation_middle (map i_name L) _ (ct_name c))]. apply perm_skip.
    rewrite <- app_assoc. apply Permutation_app_swap_app.
  - eapply Permutation_trans; [|apply (Permutation_middle (map i_name L) _ (ct_name c))]. apply perm_skip.
    eapply Permutation_trans; [apply Permutation_app_head; apply IH; exact F|].
    apply Permutation_app_swap_app.
Qed.

Lemma all_names_add_idx_NoDup t L T ct :
  find_ct t T = Some ct -> NoDup (all_names T) -> NoDup (map i_name L) ->
  (forall i, In i L -> ~ In (i_name i) (all_names T)) ->
  NoDup (all_names (update_ct t (add_idx L) T)).
Proof.
  intros F ND NL HF. eapply Permutation_NoDup; [apply Permutation_sym; apply (all_names_add_idx_perm t L T ct F)|].
  apply NoDup_app_intro; auto. intros x Hx. apply in_map_iff in Hx. destruct Hx as [i [E Hi]]. subst x. apply HF. exact Hi.
Qed.

Lemma alter_ct_as_updates t ct b T :
  find_ct t T = Some ct ->
  update_ct t (fun _ => alter_ct ct b) T =
  update_ct t (add_idx (added_idx (t_idx (x_t (inspect_table ct))) (t_idx b)))
    (update_ct t (drop_idx (map i_name (dropped_idx (t_idx (x_t (inspect_table ct))) (t_idx b))))
       (update_ct t (add_cols (added_cols (t_cols (x_t (inspect_table ct))) (t_cols b))) T)).
Proof.
  intros F. rewrite (update_ct_update t (add_cols _) (drop_idx _)); [|reflexivity].
  rewrite (update_ct_update t _ (add_idx _)); [|reflexivity].
  rewrite (update_ct_same t (fun c => add_idx _ (drop_idx _ (add_cols _ c))) _ ct F). reflexivity.
Qed.

Lemma alter_names t ct b T :
  find_ct t T = Some ct -> NoDup (all_names T) -> NoDup (map i_name (t_idx b)) ->
  (forall ib, In ib (added_idx (t_idx (x_t (inspect_table ct))) (t_idx b)) -> ~ In (i_name ib) (all_names T)) ->
  NoDup (all_names (update_ct t (fun _ => alter_ct ct b) T)) /\
  (forall x, In x (all_names (update_ct t (fun _ => alter_ct ct b) T)) ->
             In x (all_names T) \/ In x (map i_name (t_idx b))).
Proof.
  intros F ND NDI FR. rewrite (alter_ct_as_updates t ct b T F).
  set (L1 := added_cols _ _). set (L2 := map i_name (dropped_idx _ _)). set (L3 := added_idx _ _) in *.
  set (T1 := update_ct t (add_cols L1) T).
  assert (N1 : all_names T1 = all_names T) by (apply all_names_update_same; reflexivity).
  assert (F1 : find_ct t T1 = Some (add_cols L1 ct)) by (apply (find_ct_update t (add_cols L1) _ ct); [reflexivity|exact F]).
  set (T2 := update_ct t (drop_idx L2) T1).
  assert (ND2 : NoDup (all_names T2)) by (apply all_names_drop_NoDup; rewrite N1; exact ND).
  assert (F2 : find_ct t T2 = Some (drop_idx L2 (add_cols L1 ct))) by (apply (find_ct_update t (drop_idx L2) _ _); [reflexivity|exact F1]).
  assert (I2 : forall x, In x (all_names T2) -> In x (all_names T)).
  { intros x Hx. rewrite <- N1. eapply all_names_drop_incl. exact Hx. }
  split.
  - apply (all_names_add_idx_NoDup t L3 T2 _ F2 ND2).
    + apply (NoDup_map_filter i_name). exact NDI.
    + intros i Hi Hin. apply (FR i Hi). apply I2. exact Hin.
  - intros x Hx. apply (Permutation_in _ (all_names_add_idx_perm t L3 T2 _ F2)) in Hx.
    apply in_app_or in Hx. destruct Hx as [Hx|Hx]; [right|left; apply I2; exact Hx].
    apply in_map_iff in Hx. destruct Hx as [i [E Hi]]. subst x. apply in_map. unfold L3, added_idx in Hi. apply filter_In in Hi. tauto.
Qed.

(** appending a fresh entry *)
Lemma all_names_snoc_NoDup T c :
  NoDup (all_names T) -> NoDup (ct_names c) -> (forall x, In x (ct_names c) -> ~ In x (all_names T)) ->
  NoDup (all_names (T ++ [c])).
Proof.
  intros ND NC HF. rewrite all_names_app. apply NoDup_app_intro; [exact ND| |].
  - simpl. rewrite app_nil_r. exact NC.
  - intros x Hx Hc. simpl in Hc. rewrite app_nil_r in Hc. exact (HF x Hc Hx).
Qed.
