(** M-SQLITE, engine: an abstract SQLite executing the abstract statements of PlanModel.v.

    State [db] = the catalogue (tables in creation order, each with the explicit indexes created on
    it in creation order, its inline UNIQUE constraints and its rows) + the [foreign_keys] flag +
    whether a transaction is open ([PRAGMA foreign_keys] is a no-op inside a transaction,
    https://sqlite.org/pragma.html#pragma_foreign_keys).

    [exec : db -> stmt -> result db].  The engine models what the planner can emit; anything else
    is an explicit error outcome.  It is not derived from Go code: it is the model of SQLite
    (3.45, go-sqlite3 1.14.24) the correspondence run validates observationally (real go-sqlite3
    executing the SQL Atlas printed vs [exec] on the model's statements, compared through
    Driver.InspectSchema and row dumps).

    Modelled errors (the enum [err]); everything SQLite checks that is not listed here is outside
    the model (e.g. whether an expression text parses, type affinity conversion of copied values,
    FOREIGN KEY enforcement on INSERT, deferred constraints, triggers, views).

    Rows: [(rowid, [(column, value)])], stored (non-generated) columns only.  [VExpr x] is "the
    value of the SQL expression text x", not evaluated.

    No proofs in this file. *)
From Coq Require Import List NArith ZArith Bool Arith.
From Atlas Require Import Base.Bytes Diff.Schema Diff.DiffModel Diff.DiffSqlite Sqlite.PlanModel.
Import ListNotations.

(** ** values and rows *)
Inductive value :=
| VNull
| VInt (z : Z)
| VText (b : bytes)
| VBlob (b : bytes)
| VReal (repr : bytes)       (* the decimal text of a REAL literal *)
| VExpr (sql : bytes).        (* value of an unevaluated SQL expression *)

Definition value_eqb (a b : value) : bool :=
  match a, b with
  | VNull, VNull => true
  | VInt x, VInt y => Z.eqb x y
  | VText x, VText y | VBlob x, VBlob y | VReal x, VReal y | VExpr x, VExpr y => bytes_eqb x y
  | _, _ => false
  end.

Definition is_null (v : value) : bool := match v with VNull => true | _ => false end.

Definition row := (Z * list (str * value))%type.

Definition row_get (r : row) (c : str) : value :=
  match find (fun p => str_eqb (fst p) c) (snd r) with
  | Some (_, v) => v
  | None => VNull
  end.

(** ** catalogue *)
Record ctable := mkCT {
  ct_x       : xtable;              (* [t_idx] = the explicit indexes, in creation order; [t_pk] = the effective primary key *)
  ct_uniques : list (list str);     (* inline UNIQUE constraints (autoindexes of origin "u") *)
  ct_rows    : list row
}.

Record db := mkDB {
  db_tables : list ctable;
  db_fk     : bool;                 (* PRAGMA foreign_keys *)
  db_tx     : bool                  (* a transaction is open *)
}.

Definition empty_db : db := mkDB [] false false.

Inductive err :=
| ENoSuchTable | ENoSuchIndex | ENoSuchColumn
| EExists              (* table/index name already in use *)
| EDupColumn
| EBadTable            (* CREATE TABLE refused: no stored column, two primary keys, AUTOINCREMENT not on an INTEGER PRIMARY KEY, WITHOUT ROWID without primary key, STRICT with a foreign type, DEFAULT on a generated column, generated column in the primary key, fk column count mismatch, reserved name *)
| ESyntax              (* the text Atlas prints for this statement does not parse *)
| ENotNullNoDefault    (* ADD COLUMN NOT NULL without a non-NULL default on a table that holds rows (SQLite >= 3.37 checks the rows, not the declaration) *)
| EAddColumn           (* ADD COLUMN refused: PRIMARY KEY/UNIQUE, non-constant default, STORED generated *)
| EDropColumn          (* DROP COLUMN refused: the column is used by the primary key, an index, a UNIQUE or a foreign key *)
| ENotNull             (* a row violates NOT NULL *)
| EUnique              (* rows violate a UNIQUE index / PRIMARY KEY *)
| EFKViolation         (* implicit DELETE of DROP TABLE hits a referencing row, or cannot compile an ON DELETE action ([drop_blocked]) *)
| EUnsupported.        (* statement outside the model *)

Inductive result (A : Type) := Ok (a : A) | Err (e : err).
Arguments Ok {A} a.
Arguments Err {A} e.

Definition ct_name (c : ctable) : str := x_name (ct_x c).
Definition ct_t (c : ctable) : table := x_t (ct_x c).
Definition find_ct (n : str) (l : list ctable) : option ctable :=
  find (fun c => str_eqb (ct_name c) n) l.
Definition set_ct_t (c : ctable) (t : table) : ctable := mkCT (set_x_t (ct_x c) t) (ct_uniques c) (ct_rows c).
Definition set_ct_rows (c : ctable) (r : list row) : ctable := mkCT (ct_x c) (ct_uniques c) r.
Definition set_tables (d : db) (l : list ctable) : db := mkDB l (db_fk d) (db_tx d).

(** replace the (first) table called [n] *)
Fixpoint update_ct (n : str) (f : ctable -> ctable) (l : list ctable) : list ctable :=
  match l with
  | [] => []
  | c :: l' => if str_eqb (ct_name c) n then f c :: l' else c :: update_ct n f l'
  end.
Fixpoint remove_ct (n : str) (l : list ctable) : list ctable :=
  match l with
  | [] => []
  | c :: l' => if str_eqb (ct_name c) n then l' else c :: remove_ct n l'
  end.

(** every name of the schema namespace tables and explicit indexes share *)
Definition all_names (l : list ctable) : list str :=
  flat_map (fun c => ct_name c :: map i_name (t_idx (ct_t c))) l.
Definition name_used (n : str) (l : list ctable) : bool := existsb (str_eqb n) (all_names l).

(** ** text helpers *)
Definition is_space (c : N) : bool :=
  N.eqb c 32 || N.eqb c 9 || N.eqb c 10 || N.eqb c 11 || N.eqb c 12 || N.eqb c 13.
Fixpoint trim_left (s : str) : str :=
  match s with c :: s' => if is_space c then trim_left s' else s | [] => [] end.
(** strings.TrimSpace (ASCII) *)
Definition trim_space (s : str) : str := rev (trim_left (rev (trim_left s))).

(** a text that is one parenthesised expression: its first paren closes at its last byte *)
Definition is_wrapped (s : str) : bool := str_eqb (may_wrap s) s.

(** the text [check] (migrate.go) writes after CHECK: sqlx.MayWrap(strings.TrimSpace(c.Expr))
    (before the fix "sqlite planner wraps a CHECK expression like (a) AND (b)" it tested the first and
    the last byte only: [check_sql_old], kept for the theorem about the old code) *)
Definition check_sql (e : str) : str := may_wrap (trim_space e).
Definition check_sql_old (e : str) : str :=
  let t := trim_space e in
  match t with
  | a :: _ => if N.eqb a ch_lparen && N.eqb (last t 0%N) ch_rparen then e else ch_lparen :: t ++ [ch_rparen]
  | [] => [ch_lparen; ch_rparen]
  end.

Definition SQLITE_ : str := [115;113;108;105;116;101;95]%N.       (* "sqlite_" *)
(** names beginning with "sqlite_" (any case) are reserved *)
Definition reserved_name (n : str) : bool :=
  match has_prefix (DiffSqlite.to_upper SQLITE_) (DiffSqlite.to_upper n) with Some _ => true | None => false end.

Definition T_INTEGER : str := [73;78;84;69;71;69;82]%N.
Definition T_INT : str := [73;78;84]%N.
Definition T_REAL : str := [82;69;65;76]%N.
Definition T_TEXT : str := [84;69;88;84]%N.
Definition T_BLOB : str := [66;76;79;66]%N.
Definition T_ANY : str := [65;78;89]%N.
Definition strict_type (ty : str) : bool :=
  let u := DiffSqlite.to_upper ty in
  str_eqb u T_INTEGER || str_eqb u T_INT || str_eqb u T_REAL || str_eqb u T_TEXT || str_eqb u T_BLOB || str_eqb u T_ANY.

Definition gen_type_ok (ty : str) : bool :=
  let u := DiffSqlite.to_upper ty in
  str_eqb u [] || str_eqb u VIRTUAL || str_eqb u STORED.

Fixpoint nodup_strs (l : list str) : bool :=
  match l with
  | [] => true
  | x :: l' => negb (existsb (str_eqb x) l') && nodup_strs l'
  end.

Definition has_col (t : table) (c : str) : bool :=
  match find_col c (t_cols t) with Some _ => true | None => false end.
Definition is_generated (t : table) (c : str) : bool :=
  match find_col c (t_cols t) with
  | Some col => match c_gen col with Some _ => true | None => false end
  | None => false
  end.

(** ** default values of columns, as row values *)
Definition is_digit_b (c : N) : bool := N.leb 48 c && N.leb c 57.
Fixpoint digits_z (acc : Z) (s : str) : option Z :=
  match s with
  | [] => Some acc
  | c :: s' => if is_digit_b c then digits_z (acc * 10 + Z.of_N (c - 48))%Z s' else None
  end.
(** an optionally signed decimal integer *)
Definition parse_z (s : str) : option Z :=
  match s with
  | [] => None
  | c :: s' =>
      if N.eqb c 45 then match s' with [] => None | _ => option_map Z.opp (digits_z 0 s') end
      else if N.eqb c 43 then match s' with [] => None | _ => digits_z 0 s' end
      else digits_z 0 s
  end.
Definition NULL_ : str := [78;85;76;76]%N.

(** the value a DEFAULT text denotes: integers and quoted strings are evaluated, everything else
    stays an expression *)
Definition value_of_sql (x : str) : value :=
  if str_eqb (DiffSqlite.to_upper x) NULL_ then VNull
  else match parse_z x with
       | Some z => VInt z
       | None =>
           if is_quoted x ch_squote then VText (replace_qq (inner x))
           else VExpr x
       end.

Definition default_of (c : column) : value :=
  match c_default c with
  | None => VNull
  | Some _ => match defaultValue c with Some x => value_of_sql x | None => VNull end
  end.

(** ** CREATE TABLE *)
Definition pk_cols (pk : index) : option (list str) := part_col_names (i_parts pk).

Definition single_pk (c : str) : index :=
  mkIndex [] false [mkPart 0 false (Some c) None] None None None.

(** the primary key the printed statement declares: an AUTOINCREMENT column carries an inline
    PRIMARY KEY, and the PRIMARY KEY clause is printed unless [autoincPK] *)
Definition effective_pk (x : xtable) : result (option index) :=
  let t := x_t x in
  match filter (fun c => has_autoinc x (c_name c)) (t_cols t) with
  | [] => Ok (t_pk t)
  | [c] =>
      if t_without_rowid t || negb (str_eqb (DiffSqlite.to_upper (c_T c)) T_INTEGER) then Err EBadTable
      else match t_pk t with
           | None => Ok (Some (single_pk (c_name c)))
           | Some pk => if autoincPK x pk then Ok (Some pk) else Err EBadTable   (* two primary keys *)
           end
  | _ => Err EBadTable
  end.

Definition column_def_ok (t : table) (c : column) : result unit :=
  if N.eqb (c_class c) 0 then Err EUnsupported
  else if t_strict t && negb (strict_type (c_T c)) then Err EBadTable
  else match c_gen c with
       | Some (_, ty) =>
           if negb (gen_type_ok ty) then Err ESyntax
           else match c_default c with Some _ => Err EBadTable | None => Ok tt end
       | None => match c_default c with
                 | Some _ => match defaultValue c with Some _ => Ok tt | None => Err EUnsupported end
                 | None => Ok tt
                 end
       end.

Fixpoint first_err {A} (f : A -> result unit) (l : list A) : result unit :=
  match l with
  | [] => Ok tt
  | a :: l' => match f a with Ok _ => first_err f l' | Err e => Err e end
  end.

Definition fk_def_ok (t : table) (f : fkey) : result unit :=
  if negb (forallb (has_col t) (f_cols f)) then Err ENoSuchColumn
  else if negb (Nat.eqb (length (f_cols f)) (length (f_refcols f))) then Err EBadTable
  else match f_cols f with [] => Err ESyntax | _ => Ok tt end.

Definition check_def_ok (k : check) : result unit :=
  if is_wrapped (check_sql (k_expr k)) then Ok tt else Err ESyntax.

(** what CREATE TABLE checks of the definition (the table's name plays no role here): the effective
    primary key, or the error *)
Definition table_checks (x : xtable) (uniques : list (list str)) : result (option index) :=
  let t := x_t x in
  match t_idx t with
  | _ :: _ => Err EUnsupported
  | [] =>
  if negb (nodup_strs (map c_name (t_cols t))) then Err EDupColumn
  else if negb (existsb (fun c => match c_gen c with None => true | Some _ => false end) (t_cols t)) then Err EBadTable
  else match first_err (column_def_ok t) (t_cols t) with
  | Err e => Err e
  | Ok _ =>
  match effective_pk x with
  | Err e => Err e
  | Ok pk =>
  let pk_ok : result unit :=
    match pk with
    | None => if t_without_rowid t then Err EBadTable else Ok tt
    | Some p =>
        match pk_cols p with
        | None => Err EBadTable                      (* expression in PRIMARY KEY *)
        | Some [] => Err ESyntax
        | Some cs => if negb (forallb (has_col t) cs) then Err ENoSuchColumn
                     else if existsb (is_generated t) cs then Err EBadTable
                     else Ok tt
        end
    end in
  match pk_ok with
  | Err e => Err e
  | Ok _ =>
  match first_err (fk_def_ok t) (t_fks t) with
  | Err e => Err e
  | Ok _ =>
  match first_err check_def_ok (t_checks t) with
  | Err e => Err e
  | Ok _ =>
  if negb (forallb (fun u => forallb (has_col t) u && negb (Nat.eqb (length u) 0)) uniques) then Err ENoSuchColumn
  else Ok pk
  end end end end end
  end.

(** everything CREATE TABLE checks except that the name is free: the catalogue entry it would add *)
Definition new_ctable (x : xtable) (uniques : list (list str)) : result ctable :=
  let t := x_t x in
  if reserved_name (t_name t) then Err EBadTable
  else match table_checks x uniques with
       | Err e => Err e
       | Ok pk =>
           Ok (mkCT (set_x_t x (mkTable (t_name t) (t_without_rowid t) (t_strict t) (t_cols t) pk [] (t_fks t) (t_checks t)))
                    uniques [])
       end.

Definition create_table (d : db) (x : xtable) (uniques : list (list str)) : result db :=
  match new_ctable x uniques with
  | Err e => Err e
  | Ok ct =>
      if name_used (t_name (x_t x)) (db_tables d) then Err EExists
      else Ok (set_tables d (db_tables d ++ [ct]))
  end.

(** ** DROP TABLE *)
(** does child row [r] (columns [cols]) reference parent row [p] (columns [refcols]) ? *)
Fixpoint ref_match (r : row) (cols : list str) (p : row) (refcols : list str) : bool :=
  match cols, refcols with
  | [], [] => true
  | c :: cols', rc :: refcols' =>
      negb (is_null (row_get r c)) && value_eqb (row_get r c) (row_get p rc) && ref_match r cols' p refcols'
  | _, _ => false
  end.

Definition row_set (r : row) (c : str) (v : value) : row :=
  (fst r, map (fun p => if str_eqb (fst p) c then (fst p, v) else p) (snd r)).

Definition CASCADE : str := [67;65;83;67;65;68;69]%N.
Definition SET_NULL : str := [83;69;84;32;78;85;76;76]%N.
Definition SET_DEFAULT : str := [83;69;84;32;68;69;70;65;85;76;84]%N.

(** apply the ON DELETE action of [f] (a foreign key of child table [c] referencing the dropped
    table) for the deleted parent rows [prows]; one level (actions do not cascade further) *)
Definition fk_on_delete (c : ctable) (f : fkey) (prows : list row) : result ctable :=
  let hit (r : row) := existsb (fun p => ref_match r (f_cols f) p (f_refcols f)) prows in
  let act := DiffSqlite.to_upper (f_ondelete f) in
  if negb (existsb hit (ct_rows c)) then Ok c
  else if str_eqb act CASCADE then Ok (set_ct_rows c (filter (fun r => negb (hit r)) (ct_rows c)))
  else if str_eqb act SET_NULL then
    if existsb (fun n => match find_col n (t_cols (ct_t c)) with Some col => negb (c_null col) | None => false end) (f_cols f)
    then Err ENotNull
    else Ok (set_ct_rows c (map (fun r => if hit r then fold_left (fun r' n => row_set r' n VNull) (f_cols f) r else r) (ct_rows c)))
  else if str_eqb act SET_DEFAULT then
    Ok (set_ct_rows c (map (fun r => if hit r
      then fold_left (fun r' n => row_set r' n (match find_col n (t_cols (ct_t c)) with Some col => default_of col | None => VNull end)) (f_cols f) r
      else r) (ct_rows c)))
  else Err EFKViolation.

Fixpoint fks_on_delete (c : ctable) (fks : list fkey) (prows : list row) : result ctable :=
  match fks with
  | [] => Ok c
  | f :: fks' => match fk_on_delete c f prows with
                 | Ok c' => fks_on_delete c' fks' prows
                 | Err e => Err e
                 end
  end.

Fixpoint implicit_delete (n : str) (prows : list row) (l : list ctable) : result (list ctable) :=
  match l with
  | [] => Ok []
  | c :: l' =>
      let r := if str_eqb (ct_name c) n then Ok c    (* the table's own rows go away with it *)
               else fks_on_delete c (filter (fun f => str_eqb (f_reftable f) n) (t_fks (ct_t c))) prows in
      match r, implicit_delete n prows l' with
      | Ok c', Ok r' => Ok (c' :: r')
      | Err e, _ => Err e
      | _, Err e => Err e
      end
  end.

(** With [foreign_keys] on, DROP TABLE n runs an implicit DELETE FROM n, and preparing it compiles -- whether or
    not there are rows -- the action program of every foreign key that references n, and recursively the
    programs of the statements those programs contain (sqlite3FkActions / fkActionTrigger / sqlite3FkCheck in
    fkey.c; action programs are always "recursive triggers").  The statements are
      [OpDel Y]      DELETE FROM Y           (ON DELETE CASCADE of a key of Y)
      [OpUpd Y C]    UPDATE Y SET C = ...    (SET NULL / SET DEFAULT / ON UPDATE CASCADE of a key of Y with columns C)
    Compiling a nested statement on Y resolves the parent table of the foreign keys of Y itself (all of them for
    a DELETE, those sharing a column with C for an UPDATE) and fails with "no such table" when one is missing;
    the top-level DELETE does not (errors are ignored there: pParse->disableTriggers).  A nested DELETE FROM Y
    compiles the ON DELETE programs of the keys referencing Y, a nested UPDATE of C the ON UPDATE programs of the
    keys whose parent columns meet C.  RESTRICT compiles a RAISE, NO ACTION nothing.
    So a key of a *grandchild* matters too: DELETE FROM a -> (self reference ON DELETE SET DEFAULT) UPDATE a SET k
    -> (Posts.c REFERENCES a(k) ON UPDATE CASCADE) UPDATE Posts SET c -> Posts.c also REFERENCES b, b is gone.
    [drop_blocked] = a failing statement is reachable.  The graph is what matters: names and foreign keys.
    Not modelled: "foreign key mismatch" (a referenced column list that is no longer a key of the parent). *)
Definition fk_graph := list (str * list fkey).
Definition graph_of (l : list ctable) : fk_graph := map (fun c => (ct_name c, t_fks (ct_t c))) l.
Definition g_has (g : fk_graph) (n : str) : bool := existsb (fun p => str_eqb (fst p) n) g.
Definition g_fks (g : fk_graph) (n : str) : list fkey :=
  match find (fun p => str_eqb (fst p) n) g with Some p => snd p | None => [] end.
Definition fk_missing_parent_g (g : fk_graph) (f : fkey) : bool := negb (g_has g (f_reftable f)).
Definition meets (a b : list str) : bool := existsb (fun c => existsb (str_eqb c) b) a.

Inductive fkop := OpDel (t : str) | OpUpd (t : str) (cols : list str).
Definition fkop_eqb (a b : fkop) : bool :=
  match a, b with
  | OpDel x, OpDel y => str_eqb x y
  | OpUpd x c, OpUpd y d => str_eqb x y && strs_eqb c d
  | _, _ => false
  end.
Definition rewrites (act : str) : bool :=
  let a := DiffSqlite.to_upper act in str_eqb a CASCADE || str_eqb a SET_NULL || str_eqb a SET_DEFAULT.
(** the nested statements the action programs of the keys referencing table [x] contain, for a DELETE FROM x
    ([cols] = None) or an UPDATE of the columns [cols] of x *)
Definition op_children (g : fk_graph) (x : str) (cols : option (list str)) : list fkop :=
  flat_map (fun p =>
    flat_map (fun h =>
      if str_eqb (f_reftable h) x then
        match cols with
        | None =>
            let a := DiffSqlite.to_upper (f_ondelete h) in
            if str_eqb a CASCADE then [OpDel (fst p)]
            else if str_eqb a SET_NULL || str_eqb a SET_DEFAULT then [OpUpd (fst p) (f_cols h)]
            else []
        | Some c =>
            if meets (f_refcols h) c && rewrites (f_onupdate h) then [OpUpd (fst p) (f_cols h)] else []
        end
      else []) (snd p)) g.
Definition op_succ (g : fk_graph) (o : fkop) : list fkop :=
  match o with
  | OpDel y => op_children g y None
  | OpUpd y c => op_children g y (Some c)
  end.
(** compiling the nested statement fails *)
Definition op_fails (g : fk_graph) (o : fkop) : bool :=
  match o with
  | OpDel y => existsb (fk_missing_parent_g g) (g_fks g y)
  | OpUpd y c => existsb (fun k => fk_missing_parent_g g k && meets (f_cols k) c) (g_fks g y)
  end.
(** worklist search; [fuel] bounds the number of distinct statements (two per foreign key) *)
Fixpoint op_reach_fails (fuel : nat) (g : fk_graph) (todo seen : list fkop) : bool :=
  match fuel with
  | O => false
  | S fuel' =>
      match todo with
      | [] => false
      | o :: todo' =>
          if existsb (fkop_eqb o) seen then op_reach_fails fuel' g todo' seen
          else op_fails g o || op_reach_fails fuel' g (op_succ g o ++ todo') (o :: seen)
      end
  end.
Definition drop_blocked_g (n : str) (g : fk_graph) : bool :=
  let nfk := length (flat_map snd g) in
  (* every step either drops an already seen statement or adds a new one (at most 2 nfk); the worklist grows
     by at most nfk per new statement *)
  op_reach_fails (S (2 * nfk + 1) * S nfk) g (op_children g n None) [].
Definition drop_blocked (n : str) (l : list ctable) : bool := drop_blocked_g n (graph_of l).
Definition fk_missing_parent (l : list ctable) (f : fkey) : bool :=
  match find_ct (f_reftable f) l with None => true | Some _ => false end.

Definition drop_table (d : db) (n : str) : result db :=
  match find_ct n (db_tables d) with
  | None => Err ENoSuchTable
  | Some c =>
      if db_fk d then
        if drop_blocked n (db_tables d) then Err EFKViolation else
        match implicit_delete n (ct_rows c) (db_tables d) with
        | Ok l => Ok (set_tables d (remove_ct n l))
        | Err e => Err e
        end
      else Ok (set_tables d (remove_ct n (db_tables d)))
  end.

(** ** ALTER TABLE RENAME TO: REFERENCES clauses naming the table follow it (SQLite >= 3.26,
    legacy_alter_table off), whatever [foreign_keys] says *)
Definition rename_refs (a b : str) (t : table) : table :=
  set_t_fks t (map (fun f => if str_eqb (f_reftable f) a
                             then mkFk (f_symbol f) (f_cols f) b (f_refcols f) (f_onupdate f) (f_ondelete f)
                             else f) (t_fks t)).

Definition rename_table (d : db) (a b : str) : result db :=
  match find_ct a (db_tables d) with
  | None => Err ENoSuchTable
  | Some _ =>
      if reserved_name b then Err EBadTable
      else if name_used b (db_tables d) then Err EExists
      else Ok (set_tables d (map (fun c =>
             let t := rename_refs a b (ct_t c) in
             set_ct_t c (if str_eqb (t_name t) a then set_t_name t b else t)) (db_tables d)))
  end.

(** ** ALTER TABLE ADD COLUMN *)
Definition add_col (t : table) (c : column) : table :=
  mkTable (t_name t) (t_without_rowid t) (t_strict t) (t_cols t ++ [c]) (t_pk t) (t_idx t) (t_fks t) (t_checks t).

Definition add_column (d : db) (n : str) (c : column) (autoinc : bool) : result db :=
  match find_ct n (db_tables d) with
  | None => Err ENoSuchTable
  | Some ct =>
      let t := ct_t ct in
      if has_col t (c_name c) then Err EDupColumn
      else if autoinc then Err EAddColumn
      else match column_def_ok t c with
      | Err e => Err e
      | Ok _ =>
        match c_gen c with
        | Some (_, ty) => if is_stored ty then Err EAddColumn
                          else Ok (set_tables d (update_ct n (fun ct => set_ct_t ct (add_col (ct_t ct) c)) (db_tables d)))
        | None =>
          match c_default c with
          | Some (DRaw _) => Err EAddColumn
          | Some (DLit v) =>
              if str_eqb v CURRENT_TIME || str_eqb v CURRENT_DATE || str_eqb v CURRENT_TIMESTAMP then Err EAddColumn
              else if negb (c_null c) && is_null (default_of c) && negb (Nat.eqb (length (ct_rows ct)) 0) then Err ENotNullNoDefault
              else Ok (set_tables d (update_ct n (fun ct =>
                     mkCT (set_x_t (ct_x ct) (add_col (ct_t ct) c)) (ct_uniques ct)
                          (map (fun r => (fst r, snd r ++ [(c_name c, default_of c)])) (ct_rows ct))) (db_tables d)))
          | None =>
              if negb (c_null c) && negb (Nat.eqb (length (ct_rows ct)) 0) then Err ENotNullNoDefault
              else Ok (set_tables d (update_ct n (fun ct =>
                     mkCT (set_x_t (ct_x ct) (add_col (ct_t ct) c)) (ct_uniques ct)
                          (map (fun r => (fst r, snd r ++ [(c_name c, VNull)])) (ct_rows ct))) (db_tables d)))
          end
        end
      end
  end.

(** ** ALTER TABLE DROP COLUMN *)
Definition col_used (ct : ctable) (c : str) : bool :=
  let t := ct_t ct in
  col_in_index t c || col_in_fk t c || existsb (existsb (str_eqb c)) (ct_uniques ct).

Definition drop_column (d : db) (n c : str) : result db :=
  match find_ct n (db_tables d) with
  | None => Err ENoSuchTable
  | Some ct =>
      let t := ct_t ct in
      if negb (has_col t c) then Err ENoSuchColumn
      else if col_used ct c then Err EDropColumn
      else if Nat.leb (length (filter (fun col => match c_gen col with None => true | Some _ => false end) (t_cols t))) 1
              && negb (is_generated t c) then Err EDropColumn      (* the last stored column *)
      else Ok (set_tables d (update_ct n (fun ct =>
             let t := ct_t ct in
             mkCT (mkX (mkTable (t_name t) (t_without_rowid t) (t_strict t)
                                (filter (fun col => negb (str_eqb (c_name col) c)) (t_cols t))
                                (t_pk t) (t_idx t) (t_fks t) (t_checks t))
                       (filter (fun a => negb (str_eqb a c)) (x_autoinc (ct_x ct))))
                  (ct_uniques ct)
                  (map (fun r => (fst r, filter (fun p => negb (str_eqb (fst p) c)) (snd r))) (ct_rows ct)))
             (db_tables d)))
  end.

(** ** CREATE INDEX / DROP INDEX *)
Definition part_ok_b (t : table) (p : part) : result unit :=
  match p_col p, p_expr p with
  | Some c, _ => if has_col t c then Ok tt else Err ENoSuchColumn
  | None, Some _ => Ok tt
  | None, None => Err ESyntax
  end.

(** rows [l] hold two rows equal (and not NULL) on all of [cols] *)
Fixpoint has_dup_on (cols : list str) (l : list row) : bool :=
  match l with
  | [] => false
  | r :: l' =>
      (forallb (fun c => negb (is_null (row_get r c))) cols
       && existsb (fun r' => forallb (fun c => value_eqb (row_get r c) (row_get r' c)) cols) l')
      || has_dup_on cols l'
  end.

(** what CREATE INDEX checks of the index definition itself *)
Definition index_def_ok (t : table) (i : index) : result unit :=
  match i_name i with
  | [] => Err ESyntax
  | _ =>
    if reserved_name (i_name i) then Err EBadTable
    else match i_parts i with
         | [] => Err ESyntax
         | _ => first_err (part_ok_b t) (i_parts i)
         end
  end.

Definition create_index (d : db) (n : str) (i : index) : result db :=
  match find_ct n (db_tables d) with
  | None => Err ENoSuchTable
  | Some ct =>
      let t := ct_t ct in
      match index_def_ok t i with
      | Err e => Err e
      | Ok _ =>
        if name_used (i_name i) (db_tables d) then Err EExists
        else
          let dup :=
            match i_unique i, i_pred i, part_col_names (i_parts i) with
            | true, None, Some cols => has_dup_on cols (ct_rows ct)
            | _, _, _ => false
            end in
          if dup then Err EUnique
          else Ok (set_tables d (update_ct n (fun ct => set_ct_t ct (set_t_idx (ct_t ct) (t_idx (ct_t ct) ++ [i]))) (db_tables d)))
      end
  end.

Definition has_index (n : str) (ct : ctable) : bool := existsb (fun i => str_eqb (i_name i) n) (t_idx (ct_t ct)).

Definition drop_index (d : db) (n : str) : result db :=
  if existsb (has_index n) (db_tables d) then
    Ok (set_tables d (map (fun ct =>
          set_ct_t ct (set_t_idx (ct_t ct) (filter (fun i => negb (str_eqb (i_name i) n)) (t_idx (ct_t ct))))) (db_tables d)))
  else Err ENoSuchIndex.

(** ** INSERT INTO to (to_cols) SELECT from_exprs FROM from *)
Definition sexpr_col (e : sexpr) : str := match e with XCol c => c | XIfNull c _ => c end.
Definition eval_sexpr (r : row) (e : sexpr) : value :=
  match e with
  | XCol c => row_get r c
  | XIfNull c x => if is_null (row_get r c) then value_of_sql x else row_get r c
  end.

(** a single-column, ascending PRIMARY KEY on a column declared INTEGER *)
Definition int_pk_shape (t : table) : option str :=
  match t_pk t with
  | Some pk => match i_parts pk with
               | [p] => match p_col p with
                        | Some c => match find_col c (t_cols t) with
                                    | Some col => if str_eqb (DiffSqlite.to_upper (c_T col)) T_INTEGER && negb (p_desc p) then Some c else None
                                    | None => None
                                    end
                        | None => None
                        end
               | _ => None
               end
  | None => None
  end.

(** the column the rowid is an alias of: an INTEGER PRIMARY KEY of a rowid table *)
Definition rowid_alias (t : table) : option str :=
  if t_without_rowid t then None else int_pk_shape t.

Definition max_rowid (l : list row) : Z := fold_left (fun m r => Z.max m (fst r)) l 0%Z.

(** one inserted row: the listed columns get the selected values, the other stored columns their
    default; the rowid is the value of the alias column when it is an integer, else max+1 *)
Definition new_row (to : table) (to_cols : list str) (exprs : list sexpr) (src : row) (next : Z) : row :=
  let vals := combine to_cols (map (eval_sexpr src) exprs) in
  let cells := flat_map (fun col =>
      match c_gen col with
      | Some _ => []
      | None => [(c_name col, match find (fun p => str_eqb (fst p) (c_name col)) vals with
                              | Some (_, v) => v
                              | None => default_of col
                              end)]
      end) (t_cols to) in
  let rid := match rowid_alias to with
             | Some c => match row_get (0%Z, cells) c with VInt z => z | _ => next end
             | None => next
             end in
  (rid, cells).

Fixpoint insert_rows (to : table) (to_cols : list str) (exprs : list sexpr) (src : list row) (acc : list row) : list row :=
  match src with
  | [] => acc
  | r :: src' => insert_rows to to_cols exprs src' (acc ++ [new_row to to_cols exprs r (max_rowid acc + 1)%Z])
  end.

Definition violates_not_null (t : table) (r : row) : bool :=
  existsb (fun col => match c_gen col with
                      | Some _ => false
                      | None => negb (c_null col) && is_null (row_get r (c_name col))
                      end) (t_cols t).

Definition copy_rows (d : db) (to_n : str) (to_cols : list str) (from_n : str) (exprs : list sexpr) : result db :=
  match find_ct to_n (db_tables d), find_ct from_n (db_tables d) with
  | None, _ | _, None => Err ENoSuchTable
  | Some cto, Some cfrom =>
      let to := ct_t cto in
      if negb (Nat.eqb (length to_cols) (length exprs)) then Err ESyntax
      else match to_cols with
      | [] => Err ESyntax
      | _ =>
        if negb (forallb (has_col to) to_cols) || negb (forallb (fun e => has_col (ct_t cfrom) (sexpr_col e)) exprs)
        then Err ENoSuchColumn
        else if existsb (is_generated to) to_cols then Err EBadTable       (* cannot INSERT into generated column *)
        else
          let rows := insert_rows to to_cols exprs (ct_rows cfrom) (ct_rows cto) in
          if existsb (violates_not_null to) rows then Err ENotNull
          else if (match t_pk to with
                   | Some pk => match pk_cols pk with Some cols => has_dup_on cols rows | None => false end
                   | None => false
                   end) then Err EUnique
          else Ok (set_tables d (update_ct to_n (fun ct => set_ct_rows ct rows) (db_tables d)))
      end
  end.

(** ** exec *)
Definition exec (d : db) (s : stmt) : result db :=
  match s with
  | SCreateTable x uniques => create_table d x uniques
  | SDropTable n => drop_table d n
  | SRenameTable a b => rename_table d a b
  | SAddColumn t c ai => add_column d t c ai
  | SDropColumn t c => drop_column d t c
  | SRenameColumn _ _ _ => Err EUnsupported
  | SCreateIndex t i => create_index d t i
  | SDropIndex n => drop_index d n
  | SCopyRows to_t to_cols from_t exprs => copy_rows d to_t to_cols from_t exprs
  | SPragmaFK on => if db_tx d then Ok d else Ok (mkDB (db_tables d) on (db_tx d))
  end.

(** run statements until the first error: the state reached and, on error, how many statements
    were applied (the [applied] of sqlx.ApplyError) *)
Fixpoint exec_all (d : db) (l : list stmt) : result db :=
  match l with
  | [] => Ok d
  | s :: l' => match exec d s with
               | Ok d' => exec_all d' l'
               | Err e => Err e
               end
  end.

Fixpoint exec_count (d : db) (l : list stmt) (k : nat) : db * nat * option err :=
  match l with
  | [] => (d, k, None)
  | s :: l' => match exec d s with
               | Ok d' => exec_count d' l' (S k)
               | Err e => (d, k, Some e)
               end
  end.
