(** M-SQLITE rows (C05, round 5): views and triggers -- objects the community SQLite driver does not manage -- as a
    layer over the shared engine (Sqlite/EngineModel.v).

    A view or trigger is kept as the set of table names its text mentions ([dep_reads]); a trigger also has the
    table it is defined ON ([dep_on]).  SQLite (>= 3.26, legacy_alter_table off), validated by stage [rowid]:
      - ALTER TABLE a RENAME TO b re-parses every view and trigger of the schema and fails ("error in view v: no
        such table: main.t" / "error in trigger ...") when one of them mentions a table that does not exist at that
        moment (alter.c: renameTestSchema);
      - DROP TABLE t drops the triggers defined ON t; views and trigger bodies that mention t are left dangling;
      - nothing else the planner emits looks at them.
    No proofs in this file. *)
From Coq Require Import List NArith ZArith Bool Arith.
From Atlas Require Import Base.Bytes Diff.Schema Diff.DiffModel Diff.DiffSqlite Sqlite.PlanModel Sqlite.EngineModel.
Import ListNotations.

Record dep := mkDep {
  dep_name  : str;
  dep_on    : option str;    (* a trigger: the table it is defined ON (dropped with it); None for a view *)
  dep_reads : list str       (* the tables its text mentions *)
}.

Definition missing (l : list ctable) (n : str) : bool :=
  match find_ct n l with None => true | Some _ => false end.
(** some view / trigger mentions a table that does not exist *)
Definition dangling (l : list ctable) (ds : list dep) : bool :=
  existsb (fun d => existsb (missing l) (dep_reads d)) ds.

Inductive verr := VEngine (e : err) | VDangling.
Inductive vres (A : Type) := VOk (a : A) | VErr (e : verr).
Arguments VOk {A} a.
Arguments VErr {A} e.

Definition vdb := (db * list dep)%type.

Definition deps_step (ds : list dep) (st : stmt) : list dep :=
  match st with
  | SDropTable n => filter (fun d => match dep_on d with Some t => negb (str_eqb t n) | None => true end) ds
  | _ => ds
  end.

Definition exec_v (dv : vdb) (st : stmt) : vres vdb :=
  let refused := match st with
                 | SRenameTable _ _ => dangling (db_tables (fst dv)) (snd dv)
                 | _ => false
                 end in
  if refused then VErr VDangling
  else match exec (fst dv) st with
       | Ok d' => VOk (d', deps_step (snd dv) st)
       | Err e => VErr (VEngine e)
       end.

Fixpoint exec_v_all (dv : vdb) (l : list stmt) : vres vdb :=
  match l with
  | [] => VOk dv
  | st :: l' => match exec_v dv st with
                | VOk dv' => exec_v_all dv' l'
                | VErr e => VErr e
                end
  end.

(** the state reached, how many statements ran, the error *)
Fixpoint exec_v_count (dv : vdb) (l : list stmt) (k : nat) : vdb * nat * option verr :=
  match l with
  | [] => (dv, k, None)
  | st :: l' => match exec_v dv st with
                | VOk dv' => exec_v_count dv' l' (S k)
                | VErr e => (dv, k, Some e)
                end
  end.
