(** C03 round 5b: fillChecks on the CHECK list of the INDENTED CREATE TABLE -- the text SQLite stores when the script of
    `schema inspect --format '{{ sql . "  " }}'` (or `migrate diff --format '{{ sql . "  " }}'`) is executed: the constraints
    are separated by a comma followed by ANY white space (new line + indentation), and white space precedes the closing
    parenthesis. *)
From Coq Require Import List NArith Bool Arith Lia.
From Atlas Require Import Base.Bytes Sqlite.ExportModel Sqlite.ExportProofs.
Import ListNotations.
Local Open Scope N_scope.

(** [, <ws> CHECK...] per constraint; [wss] gives the white space before each constraint *)
Fixpoint checks_text_ws (l : list (bytes * (option bytes * bytes))) : bytes :=
  match l with
  | [] => []
  | (ws, k) :: l' => ch_comma :: ws ++ print_check k ++ checks_text_ws l'
  end.

Lemma find_check_ws ws : forallb is_space ws = true -> forall y,
  find_check (ws ++ y) = find_check y.
Proof.
  induction ws as [|c ws IH]; intros H y; [reflexivity|]. cbn [forallb] in H. apply andb_true_iff in H. destruct H as [Hc H].
  cbn [app find_check]. rewrite (match_at_nonc c).
  - apply IH. exact H.
  - unfold is_space in Hc. repeat (apply orb_true_iff in Hc; destruct Hc as [Hc|Hc]);
      apply N.eqb_eq in Hc; subst c; reflexivity.
Qed.

Lemma fill_step_ws fuel x ws k tail : occurs_ci K_CHECK x = false -> forallb is_space ws = true -> check_ok k ->
  fill_checks_go (S fuel) (x ++ ch_comma :: ws ++ print_check k ++ tail) = (fst k, snd k) :: fill_checks_go fuel tail.
Proof.
  intros Hx Hws Hk. cbn [fill_checks_go].
  assert (find_check (x ++ ch_comma :: ws ++ print_check k ++ tail) = Some (fst k, snd k ++ tail)) as Hf.
  { rewrite find_check_skip by (assumption || reflexivity).
    cbn [find_check]. rewrite (match_at_nonc ch_comma) by reflexivity.
    rewrite (find_check_ws ws Hws).
    destruct (print_check k ++ tail) eqn:E.
    - pose proof (match_at_printed k tail Hk) as H. rewrite E in H. discriminate.
    - cbn [find_check]. rewrite <- E. rewrite (match_at_printed k tail Hk). reflexivity. }
  rewrite Hf. destruct Hk as [_ [Hw _]].
  rewrite (scan_expr_wrapped _ tail Hw).
  rewrite skipn_app, skipn_all, Nat.sub_diag. simpl skipn. cbn [app].
  destruct (x ++ ch_comma :: ws ++ print_check k ++ tail) eqn:E.
  - destruct x; discriminate.
  - reflexivity.
Qed.

Lemma fill_printed_ws l : Forall (fun p => forallb is_space (fst p) = true /\ check_ok (snd p)) l -> forall fuel x post,
  (length l < fuel)%nat -> occurs_ci K_CHECK x = false -> occurs_ci K_CHECK post = false ->
  (l = [] -> occurs_ci K_CHECK (x ++ post) = false) ->
  fill_checks_go fuel (x ++ checks_text_ws l ++ post) = map snd l.
Proof.
  induction 1 as [|[ws k] l [Hws Hk] Hall IH]; intros fuel x post Hf Hx Hp H0.
  - cbn [checks_text_ws app map]. apply fill_none. apply find_check_none. apply H0. reflexivity.
  - destruct fuel as [|fuel]; [simpl in Hf; lia|]. cbn [fst snd] in Hws, Hk.
    cbn [checks_text_ws map snd].
    assert (x ++ (ch_comma :: ws ++ print_check k ++ checks_text_ws l) ++ post
            = x ++ ch_comma :: ws ++ print_check k ++ ([] ++ checks_text_ws l ++ post)) as ->.
    { cbn [app]. repeat rewrite <- app_assoc. reflexivity. }
    rewrite (fill_step_ws fuel x ws k _ Hx Hws Hk).
    destruct k as [n e]. cbn [fst snd]. f_equal.
    apply (IH fuel [] post); [simpl in Hf; lia|reflexivity|exact Hp|intros _; exact Hp].
Qed.

Lemma checks_text_ws_length l : (length l <= length (checks_text_ws l))%nat.
Proof.
  induction l as [|[ws k] l IH]; [simpl; lia|]. cbn [checks_text_ws length]. rewrite !app_length.
  apply le_n_S. etransitivity; [exact IH|]. rewrite Nat.add_assoc. apply Nat.le_add_l.
Qed.

(** fillChecks on the indented text: CHECK-free text, then the constraints each after a comma and any white space,
    then any CHECK-free text (new line, closing parenthesis, options) *)
Theorem fill_checks_inverts_indented : forall (x : bytes) (l : list (bytes * (option bytes * bytes))) (post : bytes),
  occurs_ci K_CHECK x = false -> Forall (fun p => forallb is_space (fst p) = true /\ check_ok (snd p)) l ->
  occurs_ci K_CHECK post = false -> (l = [] -> occurs_ci K_CHECK (x ++ post) = false) ->
  fill_checks (x ++ checks_text_ws l ++ post) = map snd l.
Proof.
  intros x l post Hx Hl Hp H0. unfold fill_checks. apply fill_printed_ws; try assumption.
  repeat rewrite app_length. pose proof (checks_text_ws_length l) as HL.
  apply Nat.lt_succ_r. etransitivity; [exact HL|]. rewrite Nat.add_assoc, Nat.add_comm, Nat.add_assoc. apply Nat.le_add_l.
Qed.

Require Import Coq.Strings.String.
Import List ListNotations.
Open Scope string_scope.
Open Scope list_scope.
Definition w_ind_l : list (bytes * (option bytes * bytes)) :=
  [([10;32;32]%N, (Some (B "ck"), B "(a > 0 AND b <> ')')")); ([10;9]%N, (None, B "(length(b) > (1))"))].
Definition w_ind_text : bytes := B "CREATE TABLE `t` (
  `a` int NULL" ++ checks_text_ws w_ind_l ++ B "
) STRICT".
Lemma w_ind_checks :
  Forall (fun p => forallb is_space (fst p) = true /\ check_ok (snd p)) w_ind_l /\
  fill_checks w_ind_text = w_cks.
Proof.
  split; [|vm_compute; reflexivity].
  pose proof w_cks_ok as H. inversion H as [|k1 r1 Hk1 Hr1]. inversion Hr1 as [|k2 r2 Hk2 Hr2].
  constructor; [split; [reflexivity|exact Hk1]|constructor; [split; [reflexivity|exact Hk2]|constructor]].
Qed.
