(** C05 round 5: a table whose name a view or a trigger body mentions cannot be rebuilt -- the RENAME of the copy
    path is always refused -- so every such run is a proper prefix of the plan. *)
From Coq Require Import List NArith ZArith Bool Arith Lia.
From Atlas Require Import Base.Bytes Diff.Schema Diff.DiffModel Diff.DiffSqlite Diff.DiffProofs
  Sqlite.PlanModel Sqlite.PlanProofs Sqlite.EngineModel Sqlite.SeqModel Sqlite.RowsEngine Sqlite.ViewModel.
Import ListNotations.

(** how many tables are called [n] *)
Definition cnt (n : str) (l : list ctable) : nat := length (filter (fun c => str_eqb (ct_name c) n) l).

Lemma cnt_app n l1 l2 : cnt n (l1 ++ l2) = cnt n l1 + cnt n l2.
Proof. unfold cnt. rewrite filter_app, app_length. reflexivity. Qed.

Lemma cnt_update n m f l : (forall c, ct_name (f c) = ct_name c) -> cnt n (update_ct m f l) = cnt n l.
Proof.
  intros Hf. unfold cnt. induction l as [|c l IH]; simpl; [reflexivity|].
  destruct (str_eqb (ct_name c) m); simpl.
  - rewrite Hf. destruct (str_eqb (ct_name c) n); reflexivity.
  - destruct (str_eqb (ct_name c) n); simpl; rewrite IH; reflexivity.
Qed.

Lemma cnt_remove n l : cnt n (remove_ct n l) = pred (cnt n l).
Proof.
  unfold cnt. induction l as [|c l IH]; simpl; [reflexivity|].
  destruct (str_eqb (ct_name c) n) eqn:E; simpl; [reflexivity|]. rewrite E. exact IH.
Qed.

Lemma cnt_zero_find n l : cnt n l = 0 -> find_ct n l = None.
Proof.
  unfold cnt, find_ct. induction l as [|c l IH]; simpl; [reflexivity|].
  destruct (str_eqb (ct_name c) n); simpl; [discriminate|exact IH].
Qed.

Lemma create_shape d x u d1 :
  create_table d x u = Ok d1 ->
  exists ct, db_tables d1 = db_tables d ++ [ct] /\ ct_name ct = t_name (x_t x) /\ db_fk d1 = db_fk d.
Proof.
  unfold create_table. destruct (new_ctable x u) as [ct|] eqn:E; [|discriminate].
  destruct (name_used _ _); [discriminate|]. intros H. inversion H; subst. exists ct. split; [reflexivity|]. split; [|reflexivity].
  unfold new_ctable in E. destruct (reserved_name _); [discriminate|]. destruct (table_checks x u); [|discriminate].
  inversion E; subst. reflexivity.
Qed.

Lemma copy_shape d a tc b ex d2 :
  copy_rows d a tc b ex = Ok d2 ->
  exists f, db_tables d2 = update_ct a f (db_tables d) /\ (forall c, ct_name (f c) = ct_name c) /\ db_fk d2 = db_fk d.
Proof.
  unfold copy_rows. intros H.
  repeat match type of H with
         | (match ?Y with _ => _ end) = Ok _ => destruct Y eqn:?; try discriminate
         | (if ?Y then _ else _) = Ok _ => destruct Y eqn:?; try discriminate
         end.
  inversion H; subst. eexists. split; [reflexivity|]. split; [|reflexivity]. intros cx. reflexivity.
Qed.

Lemma dangling_true l ds dp n :
  In dp ds -> In n (dep_reads dp) -> find_ct n l = None -> dangling l ds = true.
Proof.
  intros H1 H2 H3. unfold dangling. apply existsb_exists. exists dp. split; [exact H1|].
  apply existsb_exists. exists n. split; [exact H2|]. unfold missing. rewrite H3. reflexivity.
Qed.

(** the steps DROP TABLE n; RENAME new -> n, from a state where [n] is used once at most *)
Lemma drop_rename_refused d2 ds dp n new rest :
  db_fk d2 = false -> cnt n (db_tables d2) <= 1 ->
  In dp ds -> In n (dep_reads dp) -> dep_on dp <> Some n ->
  forall res, exec_v_all (d2, ds) (SDropTable n :: SRenameTable new n :: rest) <> VOk res.
Proof.
  intros HF HC H1 H2 H3 res H. cbn [exec_v_all] in H. unfold exec_v at 1 in H. cbn [fst snd exec] in H.
  destruct (drop_table d2 n) as [d3|] eqn:E3; [|discriminate].
  unfold drop_table in E3. destruct (find_ct n (db_tables d2)); [|discriminate]. rewrite HF in E3. inversion E3; subst. clear E3.
  unfold exec_v at 1 in H. cbn [fst snd db_tables set_tables deps_step] in H.
  rewrite (dangling_true _ _ dp n) in H; [discriminate| |exact H2|].
  - apply filter_In. split; [exact H1|]. destruct (dep_on dp) as [t|]; [|reflexivity].
    apply negb_true_iff. apply str_eqb_neq. intros X. apply H3. rewrite X. reflexivity.
  - apply cnt_zero_find. rewrite cnt_remove. lia.
Qed.

Theorem view_blocks_rebuild from tox cs r sk d ds dp :
  alterable (x_t tox) cs = false ->
  modifyTable from tox cs = Some (r, sk) ->
  db_fk d = false ->
  cnt (x_name tox) (db_tables d) <= 1 ->
  In dp ds -> In (x_name tox) (dep_reads dp) -> dep_on dp <> Some (x_name tox) ->
  forall res, exec_v_all (d, ds) (map pc_cmd r) <> VOk res.
Proof.
  intros HA HM HF HC H1 H2 H3 res H. unfold modifyTable in HM. rewrite HA in HM.
  set (n := x_name tox) in *.
  set (newT := set_t_name (set_t_idx (x_t tox) []) (NEW_ ++ t_name (x_t tox))) in *.
  destruct (addTable (set_x_t tox newT)) as [created|] eqn:EC; [|discriminate].
  destruct (copyRows (t_name (x_t tox)) newT cs) as [ins|] eqn:EI; [|discriminate].
  destruct (addIndexes (x_t tox) (t_idx (x_t tox))) as [idxs|] eqn:EX; [|discriminate].
  inversion HM; subst r sk. clear HM.
  unfold addTable in EC. destruct (negb _); [discriminate|]. cbn in EC. inversion EC; subst created. clear EC.
  assert (NN : str_eqb (NEW_ ++ n) n = false) by (apply str_eqb_neq; apply new_name_neq).
  rewrite !map_app in H. cbn [map pc_cmd app] in H.
  cbn [exec_v_all] in H. unfold exec_v at 1 in H. cbn [fst snd exec] in H.
  match type of H with context [create_table d ?X []] => destruct (create_table d X []) as [d1|] eqn:E1; [|discriminate] end.
  destruct (create_shape _ _ _ _ E1) as [ct [T1 [N1 F1]]]. cbn [deps_step] in H.
  cbn [x_t set_x_t t_name set_t_idx set_t_name newT] in N1.
  assert (C1 : cnt n (db_tables d1) <= 1).
  { rewrite T1, cnt_app. unfold cnt at 2. simpl. rewrite N1. change (t_name (x_t tox)) with n. rewrite NN. simpl. lia. }
  unfold copyRows in EI. destruct (copy_cols (t_cols newT) cs) as [[|p prs]|]; [| |discriminate]; inversion EI; subst ins; clear EI.
  - cbn [map app] in H.
    apply (drop_rename_refused d1 ds dp n (t_name newT) (map pc_cmd idxs) (eq_trans F1 HF) C1 H1 H2 H3 res H).
  - cbn [map app pc_cmd] in H. cbn [exec_v_all] in H. unfold exec_v at 1 in H. cbn [fst snd exec] in H.
    match type of H with context [copy_rows d1 ?A ?B ?C ?E] => destruct (copy_rows d1 A B C E) as [d2|] eqn:E2; [|discriminate] end.
    destruct (copy_shape _ _ _ _ _ _ E2) as [f [T2 [NF F2]]]. cbn [deps_step] in H.
    assert (C2 : cnt n (db_tables d2) <= 1) by (rewrite T2, (cnt_update n _ f _ NF); exact C1).
    apply (drop_rename_refused d2 ds dp n (t_name newT) (map pc_cmd idxs) (eq_trans F2 (eq_trans F1 HF)) C2 H1 H2 H3 res H).
Qed.

(** non-vacuity: the AUTOINCREMENT table t of RowsEngineWitness with a view over it -- the run stops at the RENAME
    (3 statements ran), t is gone, its two rows are in new_t *)
From Atlas Require Sqlite.RowsEngineWitness.
Module W := Atlas.Sqlite.RowsEngineWitness.
Definition w_dep : dep := mkDep [118;118]%N None [W.nT].
Lemma w_view_run :
  exists r, W.w_seg = Some (r, true) /\
    (let '(dv, k, e) := exec_v_count (W.w_db, [w_dep]) (map pc_cmd r) 0 in
     k = 3 /\ e = Some VDangling /\ rows_of W.nT (fst dv) = None /\
     rows_of (NEW_ ++ W.nT) (fst dv) =
       Some [(1%Z, [(W.nId, VInt 1); (W.nV, W.vt 97)]); (2%Z, [(W.nId, VInt 2); (W.nV, W.vt 113)])]) /\
    cnt W.nT (db_tables W.w_db) <= 1.
Proof. eexists. split; [vm_compute; reflexivity|]. split; [vm_compute; repeat split|vm_compute; lia]. Qed.
