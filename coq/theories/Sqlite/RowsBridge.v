(** Bridge between the shared planner model (Sqlite/PlanModel.v, agent sqlite, C01) and the
    row-level planner model of C05 (Sqlite/RowsModel.v): on the change projection both models
    share (AddColumn / DropColumn / ModifyColumn by name -- what the community differ emits),
    [PlanModel.copy_cols] and [RowsModel.copyRows_loop] build the same INSERT column list and,
    position by position, the same kind of source expression for the same column; the IFNULL
    replacement value of RowsModel is the evaluation of the DEFAULT text PlanModel carries.

    So the C05 theorems about [RowsModel.copyRows] are theorems about the toC/fromC pairing of the
    shared planner, which C01 ties to the SQL text the Go planner prints. *)
From Coq Require Import List NArith Bool Arith Lia.
From Atlas Require Import Base.Bytes Diff.Schema Diff.DiffModel Diff.DiffSqlite.
From Atlas Require Sqlite.PlanModel Sqlite.RowsModel Sqlite.RowsProofs.
Import ListNotations.

Module P := Sqlite.PlanModel.
Module R := Sqlite.RowsModel.

Section Bridge.
(** the value a column of declared type [ty] stores for the DEFAULT text [x] *)
Variable ev : str -> str -> R.value.

Definition is_current (v : str) : bool :=
  str_eqb v P.CURRENT_TIME || str_eqb v P.CURRENT_DATE || str_eqb v P.CURRENT_TIMESTAMP.

Definition proj_col (c : column) : R.rcol :=
  R.mkRcol (c_name c) (c_T c) (negb (c_null c))
    (match c_default c with
     | None => R.DNone
     | Some (DLit v) => R.DLiteral (is_current v)
     | Some (DRaw _) => R.DRawExpr
     end)
    (match P.defaultValue c with Some x => ev (c_T c) x | None => R.VNull end)
    (match c_gen c with Some _ => true | None => false end)
    (match c_gen c with Some (_, ty) => P.is_stored ty | None => false end)
    false false.

Definition dummy_col (n : str) : R.rcol :=
  R.mkRcol n [] false R.DNone R.VNull false false false false.

(** [cols]: the columns of the desired table ([AddColumn.C] is looked up there, as in PlanModel) *)
Definition proj_change (cols : list column) (ch : change) : R.tchange :=
  match ch with
  | AddColumn n =>
      R.AddColumn (match find_col n cols with Some c => proj_col c | None => dummy_col n end)
  | DropColumn n => R.DropColumn n
  | ModifyColumn n k => R.ModifyColumn n k
  | AddIndex n => R.AddIndex n
  | DropIndex n => R.DropIndex n
  | _ => R.OtherChange 0
  end.

Lemma proj_add_name cols n :
  R.rc_name (match find_col n cols with Some c => proj_col c | None => dummy_col n end) = n.
Proof.
  destruct (find_col n cols) as [c|] eqn:E; [|reflexivity].
  unfold find_col in E. apply find_some in E. destruct E as [_ E]. simpl.
  now apply bytes_eqb_eq in E.
Qed.

(** [find_change] (Go: the inner loop of copyRows) against the filter formulation of PlanModel *)
Lemma find_change_filter all n cs : forall acc,
  P.drops_column n cs = false ->
  R.find_change n (map (proj_change all) cs) acc =
  match acc, P.changes_for_column n cs with
  | a, [] => R.POk a
  | None, [x] => R.POk (Some (proj_change all x))
  | _, _ => R.PErr R.PDupChange
  end.
Proof.
  induction cs as [|c cs IH]; intros acc D; simpl.
  - destruct acc; reflexivity.
  - unfold P.drops_column in D. simpl in D. apply orb_false_iff in D. destruct D as [D1 D2].
    fold (P.drops_column n cs) in D2.
    unfold P.changes_for_column. simpl. fold (P.changes_for_column n cs).
    destruct c; simpl; try (rewrite IH by exact D2; reflexivity).
    + (* AddColumn *)
      rewrite proj_add_name. unfold str_eqb. destruct (bytes_eqb c n) eqn:E.
      * destruct acc as [a|].
        -- destruct (P.changes_for_column n cs); reflexivity.
        -- rewrite IH by exact D2. destruct (P.changes_for_column n cs) as [|y l]; [reflexivity|].
           destruct l; reflexivity.
      * rewrite IH by exact D2. reflexivity.
    + (* DropColumn *)
      unfold str_eqb in *. rewrite D1. rewrite IH by exact D2. reflexivity.
    + (* ModifyColumn *)
      unfold str_eqb. destruct (bytes_eqb c n) eqn:E.
      * destruct acc as [a|].
        -- destruct (P.changes_for_column n cs); reflexivity.
        -- rewrite IH by exact D2. destruct (P.changes_for_column n cs) as [|y l]; [reflexivity|].
           destruct l; reflexivity.
      * rewrite IH by exact D2. reflexivity.
Qed.

Lemma changes_for_column_shape n cs x :
  In x (P.changes_for_column n cs) -> (exists m, x = AddColumn m) \/ (exists m k, x = ModifyColumn m k).
Proof.
  unfold P.changes_for_column. rewrite filter_In. intros [_ H].
  destruct x; try discriminate; eauto.
Qed.

(** the source expressions correspond: same column, same kind; the IFNULL value is [ev] of the
    DEFAULT text *)
Definition expr_matches (px : P.sexpr) (rx : R.expr) : Prop :=
  match px with
  | P.XCol c => rx = R.ECol c
  | P.XIfNull c x => exists ty, rx = R.EIfNull c (ev ty x)
  end.

Theorem copy_cols_bridge all cs : forall cols prs toC fromC,
  P.copy_cols cols cs = Some prs ->
  exists fromC',
    R.copyRows_loop (map proj_col cols) (map (proj_change all) cs) toC fromC
      = R.POk (toC ++ map fst prs, fromC ++ fromC') /\
    Forall2 expr_matches (map snd prs) fromC'.
Proof.
  induction cols as [|column cols IH]; intros prs toC fromC H; simpl in H.
  - inversion H; subst. exists []. simpl. rewrite !app_nil_r. split; [reflexivity|constructor].
  - simpl. destruct (c_gen column) as [g|] eqn:G.
    + (* generated: skipped on both sides *)
      apply IH with (toC := toC) (fromC := fromC) in H. exact H.
    + destruct (P.drops_column (c_name column) cs) eqn:D; [discriminate|].
      rewrite (find_change_filter all _ _ None D).
      destruct (P.changes_for_column (c_name column) cs) as [|x l] eqn:CF.
      * (* no change: transferred as is *)
        destruct (P.copy_cols cols cs) as [rest|] eqn:CR; [|discriminate].
        inversion H; subst prs; clear H.
        destruct (IH rest (toC ++ [c_name column]) (fromC ++ [R.ECol (c_name column)]) eq_refl) as [f' [E F]].
        exists (R.ECol (c_name column) :: f'). simpl. rewrite E. rewrite <- !app_assoc. simpl.
        split; [reflexivity|]. constructor; [reflexivity|exact F].
      * destruct l as [|y l'].
        2:{ (* two changes for one column: error on both sides *)
            destruct x; simpl in H; discriminate. }
        assert (In x (P.changes_for_column (c_name column) cs)) as Hin by (rewrite CF; left; reflexivity).
        destruct (changes_for_column_shape _ _ _ Hin) as [[m ->]|[m [k ->]]].
        -- (* AddColumn: not copied *)
           simpl. destruct (P.copy_cols cols cs) as [rest|] eqn:CR; [|discriminate].
           inversion H; subst prs; clear H. simpl.
           apply (IH rest toC fromC eq_refl).
        -- (* ModifyColumn *)
           simpl. unfold R.has_default, R.change_is, R.ChangeNullOrDefault. simpl.
           simpl in H. revert H.
           destruct (negb (c_null column)
                     && match c_default column with Some _ => true | None => false end
                     && (N.eqb k (N.lor ChangeNull ChangeDefault)
                         || negb (N.eqb (N.land k (N.lor ChangeNull ChangeDefault)) 0))) eqn:C; intros H.
           ++ pose proof C as C2. simpl in C2. rewrite C2 in H.
              destruct (P.defaultValue column) as [x|] eqn:DV; [|discriminate].
              destruct (P.copy_cols cols cs) as [rest|] eqn:CR; [|discriminate].
              inversion H; subst prs; clear H.
              match goal with |- context [if ?c then _ else _] => assert (c = true) as C' end.
              { destruct (c_default column) as [[v|r]|]; simpl in *; exact C2. }
              rewrite C'.
              destruct (IH rest (toC ++ [c_name column]) (fromC ++ [R.EIfNull (c_name column) (ev (c_T column) x)]) eq_refl) as [f' [E F]].
              exists (R.EIfNull (c_name column) (ev (c_T column) x) :: f'). simpl. rewrite E. rewrite <- !app_assoc. simpl.
              split; [reflexivity|]. constructor; [exists (c_T column); reflexivity|exact F].
           ++ pose proof C as C2. simpl in C2. rewrite C2 in H.
              destruct (P.copy_cols cols cs) as [rest|] eqn:CR; [|discriminate].
              inversion H; subst prs; clear H.
              match goal with |- context [if ?c then _ else _] => assert (c = false) as C' end.
              { destruct (c_default column) as [[v|r]|]; simpl in *; exact C2. }
              rewrite C'.
              destruct (IH rest (toC ++ [c_name column]) (fromC ++ [R.ECol (c_name column)]) eq_refl) as [f' [E F]].
              exists (R.ECol (c_name column) :: f'). simpl. rewrite E. rewrite <- !app_assoc. simpl.
              split; [reflexivity|]. constructor; [reflexivity|exact F].
Qed.

Corollary copy_cols_bridge_nil all cs cols prs :
  P.copy_cols cols cs = Some prs ->
  exists fromC',
    R.copyRows_loop (map proj_col cols) (map (proj_change all) cs) [] []
      = R.POk (map fst prs, fromC') /\
    Forall2 expr_matches (map snd prs) fromC'.
Proof. intros H. exact (copy_cols_bridge all cs cols prs [] [] H). Qed.

End Bridge.
