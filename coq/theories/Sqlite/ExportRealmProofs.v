(** C03 round 5b: proofs about Sqlite/ExportRealm.v (cmdlog.sqlInspect = planner over ChangesToRealm). *)
From Coq Require Import List NArith Bool Arith Lia.
From Atlas Require Import Base.Bytes Diff.Schema Diff.DiffModel Diff.DiffSqlite Diff.DiffProofs Sqlite.PlanModel
  Sqlite.ExportRealm.
Import ListNotations.

(** ** the planner loop *)
Lemma plan_realm_acc cs : forall acc, plan_realm cs acc = option_map (app acc) (plan_realm cs []).
Proof.
  induction cs as [|c cs IH]; intro acc; cbn [plan_realm option_map]; [rewrite app_nil_r; reflexivity|].
  destruct c as [s|s x]; [reflexivity|]. destruct (addTable x) as [r|]; [|reflexivity].
  rewrite (IH (acc ++ r)), (IH ([] ++ r)). cbn [app].
  destruct (plan_realm cs []) as [q|]; cbn [option_map]; [|reflexivity]. rewrite app_assoc. reflexivity.
Qed.
Lemma plan_realm_app cs1 : forall cs2 acc,
  plan_realm (cs1 ++ cs2) acc = match plan_realm cs1 acc with Some a => plan_realm cs2 a | None => None end.
Proof.
  induction cs1 as [|c cs1 IH]; intros cs2 acc; [reflexivity|]. cbn [app plan_realm].
  destruct c as [s|s x]; [reflexivity|]. destruct (addTable x) as [r|]; [|reflexivity]. apply IH.
Qed.

Lemma addIndexes_objs t l :
  option_map objects (addIndexes t l) = option_map (map (fun n => OIndex n (t_name t))) (norm_names t l).
Proof.
  induction l as [|i l IH]; [reflexivity|]. cbn [addIndexes norm_names].
  destruct (normalize_idx_name i t) as [i'|]; [|reflexivity].
  destruct (addIndexes t l) as [r|]; destruct (norm_names t l) as [ns|]; cbn [option_map] in *; try discriminate; [|reflexivity].
  injection IH as IH. cbn [objects map obj_of pc_cmd]. f_equal. f_equal. exact IH.
Qed.
Lemma addTable_objs x : option_map objects (addTable x) = table_objs x.
Proof.
  unfold addTable, table_objs. destruct (negb _); [reflexivity|].
  pose proof (addIndexes_objs (x_t x) (t_idx (x_t x))) as H.
  destruct (addIndexes (x_t x) (t_idx (x_t x))) as [r|]; destruct (norm_names (x_t x) (t_idx (x_t x))) as [ns|];
    cbn [option_map] in *; try discriminate; [|reflexivity].
  injection H as H. cbn [objects map obj_of pc_cmd]. f_equal. f_equal. exact H.
Qed.

Lemma plan_tables s l : option_map objects (plan_realm (map (RAddTable s) l) []) = tables_objs l.
Proof.
  induction l as [|x l IH]; [reflexivity|]. cbn [map plan_realm tables_objs].
  rewrite <- (addTable_objs x). destruct (addTable x) as [r|]; cbn [option_map]; [|reflexivity].
  rewrite plan_realm_acc. cbn [app]. rewrite <- IH.
  destruct (plan_realm (map (RAddTable s) l) []) as [q|]; cbn [option_map]; [|reflexivity].
  unfold objects. rewrite map_app. reflexivity.
Qed.
Lemma tables_objs_app l1 : forall l2,
  tables_objs (l1 ++ l2) = match tables_objs l1, tables_objs l2 with Some a, Some b => Some (a ++ b) | _, _ => None end.
Proof.
  induction l1 as [|x l1 IH]; intro l2; cbn [app tables_objs]; [destruct (tables_objs l2); reflexivity|].
  destruct (table_objs x) as [o|]; [|reflexivity]. rewrite IH.
  destruct (tables_objs l1), (tables_objs l2); try reflexivity. rewrite app_assoc. reflexivity.
Qed.

(** cmdlog.sqlInspect creates, for every realm: per schema in order, per table in order, the table and then
    its indexes (normalised names) -- and nothing else; an unbound client fails on any non-empty realm *)
Theorem sqlInspect_spec bound r : option_map objects (sqlInspect bound r) = script_spec bound r.
Proof.
  unfold sqlInspect, script_spec. destruct bound; cbn [orb].
  - unfold ChangesToRealm, all_tables. induction r as [|s r IH]; [reflexivity|].
    cbn [flat_map app]. rewrite plan_realm_app, tables_objs_app.
    rewrite <- (plan_tables (rs_name s) (rs_tables s)).
    destruct (plan_realm (map (RAddTable (rs_name s)) (rs_tables s)) []) as [a|]; cbn [option_map]; [|reflexivity].
    rewrite plan_realm_acc. rewrite <- IH.
    destruct (plan_realm _ []) as [q|]; cbn [option_map]; [|reflexivity].
    unfold objects. rewrite map_app. reflexivity.
  - destruct r as [|s r]; reflexivity.
Qed.

(** ** the order of the script *)
Fixpoint ordered (ts : list str) (os : list obj) : Prop :=
  match os with
  | [] => True
  | OTable n _ :: os' => ordered (ts ++ [n]) os'
  | OIndex _ t :: os' => In t ts /\ ordered ts os'
  | OOther :: _ => False
  end.
Lemma ordered_idx ts n ns rest : In n ts -> ordered ts rest -> ordered ts (map (fun i => OIndex i n) ns ++ rest).
Proof. intros Hn Hr. induction ns as [|i ns IH]; [exact Hr|]. cbn [map app ordered]. split; [exact Hn|exact IH]. Qed.
Lemma tables_objs_ordered l : forall os ts, tables_objs l = Some os -> ordered ts os.
Proof.
  induction l as [|x l IH]; intros os ts H; cbn [tables_objs] in H; [injection H as <-; exact I|].
  destruct (table_objs x) as [o|] eqn:E; [|discriminate]. destruct (tables_objs l) as [r|] eqn:E2; [|discriminate].
  injection H as <-. unfold table_objs in E. destruct (negb _); [discriminate|].
  destruct (norm_names _ _) as [ns|]; [|discriminate]. injection E as <-.
  cbn [app ordered]. apply ordered_idx; [apply in_or_app; right; left; reflexivity|]. apply IH. reflexivity.
Qed.

Definition tnames (os : list obj) : list str := flat_map (fun o => match o with OTable n _ => [n] | _ => [] end) os.
Lemma tnames_app a b : tnames (a ++ b) = tnames a ++ tnames b.
Proof. unfold tnames. apply flat_map_app. Qed.
Lemma tnames_idx n ns : tnames (map (fun i => OIndex i n) ns) = [].
Proof. induction ns as [|i ns IH]; [reflexivity|exact IH]. Qed.
Lemma tables_objs_tnames l : forall os, tables_objs l = Some os -> tnames os = map x_name l.
Proof.
  induction l as [|x l IH]; intros os H; cbn [tables_objs] in H; [injection H as <-; reflexivity|].
  destruct (table_objs x) as [o|] eqn:E; [|discriminate]. destruct (tables_objs l) as [r|] eqn:E2; [|discriminate].
  injection H as <-. unfold table_objs in E. destruct (negb _); [discriminate|].
  destruct (norm_names _ _) as [ns|]; [|discriminate]. injection E as <-.
  rewrite tnames_app. cbn [map]. change (tnames (OTable (x_name x) (map f_reftable (t_fks (x_t x))) :: map (fun n => OIndex n (x_name x)) ns))
    with (x_name x :: tnames (map (fun n => OIndex n (x_name x)) ns)).
  rewrite tnames_idx. cbn [app]. f_equal. apply IH. reflexivity.
Qed.

(** ** replay on SQLite's catalogue *)
Lemma mem_str_In n l : mem_str n l = true <-> In n l.
Proof.
  unfold mem_str. rewrite existsb_exists. split.
  - intros (y & Hy & E). apply str_eqb_eq in E. subst. exact Hy.
  - intro H. exists n. split; [exact H|apply str_eqb_refl].
Qed.
Lemma mem_str_app n a b : mem_str n (a ++ b) = mem_str n a || mem_str n b.
Proof. unfold mem_str. apply existsb_app. Qed.

Lemma replay_lazy_ok os : forall c,
  ordered (c_tables c) os -> NoDup (obj_names os) -> (forall n, In n (obj_names os) -> taken n c = false) ->
  exists c', replay false c os = Some c' /\ c_tables c' = c_tables c ++ tnames os.
Proof.
  induction os as [|o os IH]; intros c Ho Hnd Hfree.
  - exists c. split; [reflexivity|]. cbn. rewrite app_nil_r. reflexivity.
  - destruct o as [n refs|i t|]; cbn [ordered] in Ho; [| |contradiction].
    + cbn [obj_names flat_map app] in Hnd, Hfree. change (flat_map _ os) with (obj_names os) in Hnd, Hfree.
      inversion Hnd as [|? ? Hnotin Hnd']; subst.
      cbn [replay step]. rewrite (Hfree n (or_introl eq_refl)). cbn [andb].
      destruct (IH (mkCat (c_tables c ++ [n]) (c_indexes c))) as (c' & Hr & Ht).
      * exact Ho.
      * exact Hnd'.
      * intros m Hm. unfold taken. cbn [c_tables c_indexes]. rewrite mem_str_app.
        pose proof (Hfree m (or_intror Hm)) as Hf. unfold taken in Hf. apply orb_false_iff in Hf. destruct Hf as [Hf1 Hf2].
        rewrite Hf1, Hf2. cbn [orb mem_str existsb]. rewrite orb_false_r.
        destruct (str_eqb m n) eqn:E; [|reflexivity]. apply str_eqb_eq in E. subst. contradiction.
      * exists c'. split; [exact Hr|]. rewrite Ht. cbn [c_tables]. rewrite <- app_assoc. reflexivity.
    + destruct Ho as [Hin Ho].
      cbn [obj_names flat_map app] in Hnd, Hfree. change (flat_map _ os) with (obj_names os) in Hnd, Hfree.
      inversion Hnd as [|? ? Hnotin Hnd']; subst.
      cbn [replay step]. rewrite (Hfree i (or_introl eq_refl)). rewrite (proj2 (mem_str_In t (c_tables c)) Hin). cbn [orb negb].
      destruct (IH (mkCat (c_tables c) (c_indexes c ++ [i]))) as (c' & Hr & Ht).
      * exact Ho.
      * exact Hnd'.
      * intros m Hm. unfold taken. cbn [c_tables c_indexes]. rewrite mem_str_app.
        pose proof (Hfree m (or_intror Hm)) as Hf. unfold taken in Hf. apply orb_false_iff in Hf. destruct Hf as [Hf1 Hf2].
        rewrite Hf1, Hf2. cbn [orb mem_str existsb]. rewrite orb_false_r.
        destruct (str_eqb m i) eqn:E; [|reflexivity]. apply str_eqb_eq in E. subst. contradiction.
      * exists c'. split; [exact Hr|]. exact Ht.
Qed.

(** the exported script creates every object before it is used: for every realm (any number of schemas, any
    foreign keys -- cyclic, self-referencing, dangling) whose script names each object once, every statement
    is accepted by the catalogue (an index only after its table, no name twice) and the tables created are
    exactly the tables of the realm, in order *)
Theorem dump_replays bound r os :
  script_spec bound r = Some os -> NoDup (obj_names os) ->
  exists c', replay false empty_cat os = Some c' /\ c_tables c' = map x_name (all_tables r).
Proof.
  intros Hs Hnd.
  assert (tables_objs (all_tables r) = Some os) as Ht.
  { unfold script_spec in Hs. destruct (bound || _); [exact Hs|discriminate]. }
  destruct (replay_lazy_ok os empty_cat) as (c' & Hr & Hn).
  - exact (tables_objs_ordered _ _ _ Ht).
  - exact Hnd.
  - reflexivity.
  - exists c'. split; [exact Hr|]. rewrite Hn. cbn [empty_cat c_tables app]. exact (tables_objs_tnames _ _ Ht).
Qed.

(** a foreign key's parent that is a table of the realm is created by the script (before or after the child) *)
Theorem dump_fk_closure bound r os x p :
  script_spec bound r = Some os -> In x (all_tables r) -> In p (map f_reftable (t_fks (x_t x))) ->
  In p (map x_name (all_tables r)) -> In p (tnames os).
Proof.
  intros Hs _ _ Hp. assert (tables_objs (all_tables r) = Some os) as Ht.
  { unfold script_spec in Hs. destruct (bound || _); [exact Hs|discriminate]. }
  rewrite (tables_objs_tnames _ _ Ht). exact Hp.
Qed.

(** ** witnesses *)
Definition S_ (l : list N) : str := l.
Definition n_a : str := [97]%N.  Definition n_b : str := [98]%N.  Definition n_t : str := [116]%N.
Definition n_main : str := [109;97;105;110]%N.
(** a: REFERENCES b, b: REFERENCES a (a cycle), s: REFERENCES s; one plain index *)
Definition w_cycle : realm :=
  [mkRS n_main [skel_table (n_a, [n_b], [([105;49]%N, None, Some [[99]%N])]); skel_table (n_b, [n_a], []); skel_table (n_t, [n_t], [])]].
Lemma w_cycle_lazy :
  option_map objects (sqlInspect true w_cycle)
  = Some [OTable n_a [n_b]; OIndex [105;49]%N n_a; OTable n_b [n_a]; OTable n_t [n_t]]
  /\ (exists c, replay false empty_cat [OTable n_a [n_b]; OIndex [105;49]%N n_a; OTable n_b [n_a]; OTable n_t [n_t]] = Some c)
  /\ replay true empty_cat [OTable n_a [n_b]; OIndex [105;49]%N n_a; OTable n_b [n_a]; OTable n_t [n_t]] = None.
Proof. vm_compute. split; [reflexivity|]. split; [eexists; reflexivity|reflexivity]. Qed.

(** `CREATE TABLE t (a int UNIQUE, b int); CREATE INDEX t_a ON t (b)`: the inspected index of the UNIQUE
    constraint is sqlite_autoindex_t_1 (origin u); normalizeIdxName renames it to t_a: the script creates t_a twice *)
Definition n_auto : str := [115;113;108;105;116;101;95;97;117;116;111;105;110;100;101;120;95;116;95;49]%N.
Definition n_t_a : str := [116;95;97]%N.
Definition w_clash : realm :=
  [mkRS n_main [skel_table (n_t, [], [(n_auto, Some [117]%N, Some [[97]%N]); (n_t_a, Some [99]%N, Some [[98]%N])])]].
Lemma w_clash_fails :
  script_spec true w_clash = Some [OTable n_t []; OIndex n_t_a n_t; OIndex n_t_a n_t]
  /\ NoDup [n_t; n_auto; n_t_a]
  /\ replay false empty_cat [OTable n_t []; OIndex n_t_a n_t; OIndex n_t_a n_t] = None.
Proof.
  split; [vm_compute; reflexivity|]. split; [|vm_compute; reflexivity].
  repeat constructor; cbn; intro H; repeat (destruct H as [H|H]; [discriminate|]); exact H.
Qed.
Lemma w_unbound : sqlInspect false w_cycle = None /\ sqlInspect false [] = Some [].
Proof. vm_compute. split; reflexivity. Qed.
