(** Proofs about Sqlite/ExportModel.v (C03): scanExpr returns exactly the
    wrapped expression it is pointed at; fillChecks inverts the planner's
    printer of CHECK constraints. *)
From Coq Require Import List NArith Bool Arith Lia.
From Atlas Require Import Base.Bytes Sqlite.ExportModel.
Import ListNotations.
Local Open Scope N_scope.

(** ** balanced bodies *)
Definition plain (c : N) : bool :=
  negb (N.eqb c ch_lp || N.eqb c ch_rp || N.eqb c ch_sq || N.eqb c ch_dq).
Definition is_strq (c : N) : bool := N.eqb c ch_sq || N.eqb c ch_dq.

(** [bal b p]: [b] is a sequence of plain bytes, closed string literals (the
    delimiter does not occur inside: SQL's doubled quote is two literals in a
    row, which is how scanExpr reads it too) and parenthesised groups; [p]
    counts the pairs of parentheses. *)
Inductive bal : bytes -> nat -> Prop :=
| bal_nil : bal [] 0
| bal_ch c b p : plain c = true -> bal b p -> bal (c :: b) p
| bal_str q body b p : is_strq q = true -> ~ In q body -> bal b p -> bal (q :: body ++ q :: b) p
| bal_par b1 p1 b2 p2 : bal b1 p1 -> bal b2 p2 -> bal (ch_lp :: b1 ++ ch_rp :: b2) (S (p1 + p2)).

Definition wrapped (e : bytes) : Prop := exists b p, e = ch_lp :: b ++ [ch_rp] /\ bal b p.

Lemma existsb_in q l : In q l -> existsb (N.eqb q) l = true.
Proof.
  intro H. apply existsb_exists. exists q. split; [exact H|apply N.eqb_refl].
Qed.

Lemma scan_skip q body k r l n :
  ~ In q body -> (r =? l)%nat = false ->
  scan (body ++ q :: k) r l (Some q) n = scan k r l None (n + length body + 1).
Proof.
  revert n. induction body as [|c body IH]; intros n Hn Hrl; simpl.
  - rewrite N.eqb_refl, Hrl. f_equal. lia.
  - assert (c <> q) by (intro; subst; apply Hn; left; reflexivity).
    assert (N.eqb c q = false) as -> by (apply N.eqb_neq; assumption).
    rewrite IH; [f_equal; lia| |assumption].
    intro; apply Hn; right; assumption.
Qed.

Lemma plain_cases c : plain c = true ->
  N.eqb c ch_sq || N.eqb c ch_dq = false /\ N.eqb c ch_lp = false /\ N.eqb c ch_rp = false.
Proof.
  unfold plain. intro H. apply negb_true_iff in H.
  repeat (apply orb_false_iff in H; destruct H as [H ?]).
  repeat split; try assumption. apply orb_false_iff; split; assumption.
Qed.

Lemma scan_bal b p : bal b p -> forall k r l n, (l < r)%nat ->
  scan (b ++ k) r l None n = scan k (r + p) (l + p) None (n + length b).
Proof.
  induction 1 as [|c b p Hc Hb IH|q body b p Hq Hn Hb IH|b1 p1 b2 p2 H1 IH1 H2 IH2]; intros k r l n Hlt.
  - simpl. repeat rewrite Nat.add_0_r. reflexivity.
  - simpl. destruct (plain_cases c Hc) as (-> & -> & ->).
    assert ((r =? l)%nat = false) as -> by (apply Nat.eqb_neq; lia).
    rewrite IH by assumption. f_equal. lia.
  - change ((q :: body ++ q :: b) ++ k) with (q :: (body ++ q :: b) ++ k).
    cbn [scan]. unfold is_strq in Hq. rewrite Hq.
    rewrite <- app_assoc. cbn [app].
    rewrite existsb_in by (apply in_or_app; right; left; reflexivity).
    rewrite scan_skip; [|assumption|apply Nat.eqb_neq; lia].
    rewrite IH by assumption. f_equal. simpl. rewrite app_length. simpl. lia.
  - change ((ch_lp :: b1 ++ ch_rp :: b2) ++ k) with (ch_lp :: (b1 ++ ch_rp :: b2) ++ k).
    cbn [scan]. change (N.eqb ch_lp ch_sq || N.eqb ch_lp ch_dq) with false.
    change (N.eqb ch_lp ch_lp) with true. change (N.eqb ch_lp ch_rp) with false. cbn iota.
    assert ((S r =? l)%nat = false) as -> by (apply Nat.eqb_neq; lia).
    rewrite <- app_assoc. cbn [app]. rewrite IH1 by lia.
    cbn [scan]. change (N.eqb ch_rp ch_sq || N.eqb ch_rp ch_dq) with false.
    change (N.eqb ch_rp ch_lp) with false. change (N.eqb ch_rp ch_rp) with true. cbn iota.
    assert ((S r + p1 =? S (l + p1))%nat = false) as -> by (apply Nat.eqb_neq; lia).
    rewrite IH2 by lia. f_equal; try lia. simpl. rewrite app_length. simpl. lia.
Qed.

Lemma scan_wrapped e rest : wrapped e -> scan (e ++ rest) 0 0 None 0 = Some (length e).
Proof.
  intros (b & p & -> & Hb).
  change ((ch_lp :: b ++ [ch_rp]) ++ rest) with (ch_lp :: (b ++ [ch_rp]) ++ rest).
  cbn [scan]. change (N.eqb ch_lp ch_sq || N.eqb ch_lp ch_dq) with false.
  change (N.eqb ch_lp ch_lp) with true. change (N.eqb ch_lp ch_rp) with false. cbn iota.
  change ((1 =? 0)%nat) with false. cbn iota.
  rewrite <- app_assoc. cbn [app]. rewrite (scan_bal b p Hb) by lia.
  cbn [scan]. change (N.eqb ch_rp ch_sq || N.eqb ch_rp ch_dq) with false.
  change (N.eqb ch_rp ch_lp) with false. change (N.eqb ch_rp ch_rp) with true. cbn iota.
  assert ((1 + p =? S (0 + p))%nat = true) as -> by (apply Nat.eqb_eq; lia).
  f_equal. simpl. rewrite app_length. simpl. lia.
Qed.

(** scanExpr pointed at a wrapped expression followed by anything returns the expression *)
Theorem scan_expr_wrapped e rest : wrapped e -> scan_expr (e ++ rest) = e.
Proof.
  intro H. unfold scan_expr. rewrite scan_wrapped by assumption.
  rewrite firstn_app, firstn_all, Nat.sub_diag. simpl. apply app_nil_r.
Qed.

Lemma wrapped_nonempty e : wrapped e -> e <> [].
Proof. intros (b & p & -> & _). discriminate. Qed.

(** ** fillChecks inverts the printer *)
Definition soft (c : N) : bool := is_word c || is_space c || is_quote c.
Definition upper_letters (p : bytes) : bool := forallb (fun c => N.leb 65 c && N.leb c 90) p.

Lemma lower_word a b : (N.leb 65 a && N.leb a 90) = true -> N.eqb (lower a) (lower b) = true -> is_word b = true.
Proof.
  intros Ha H. apply N.eqb_eq in H. unfold lower in H. rewrite Ha in H.
  apply andb_true_iff in Ha. destruct Ha as [H1 H2]. apply N.leb_le in H1, H2.
  unfold is_word.
  destruct (N.leb 65 b && N.leb b 90) eqn:Eb.
  - destruct (N.leb 48 b && N.leb b 57); reflexivity.
  - assert (b = a + 32) by lia. subst b.
    replace (N.leb 97 (a + 32) && N.leb (a + 32) 122) with true.
    + destruct (N.leb 48 (a + 32) && N.leb (a + 32) 57); reflexivity.
    + symmetry. apply andb_true_iff; split; apply N.leb_le; lia.
Qed.

Lemma lit_ci_split p : upper_letters p = true -> forall s r, lit_ci p s = Some r ->
  exists a, s = a ++ r /\ forallb is_word a = true /\ length a = length p.
Proof.
  induction p as [|x p IH]; intros Hp s r H; simpl in *.
  - inversion H; subst. exists []. auto.
  - apply andb_true_iff in Hp. destruct Hp as [Hx Hp].
    destruct s as [|b s]; [discriminate|].
    destruct (N.eqb (lower x) (lower b)) eqn:E; [|discriminate].
    destruct (IH Hp s r H) as (a & -> & Ha & Hl).
    exists (b :: a). simpl. rewrite Ha, (lower_word x b Hx E). auto.
Qed.

Lemma skip_take f s : s = take_while f s ++ skip_while f s.
Proof. induction s as [|c s IH]; simpl; [reflexivity|]. destruct (f c); simpl; [f_equal; exact IH|reflexivity]. Qed.
Lemma take_while_all f s : forallb f (take_while f s) = true.
Proof. induction s as [|c s IH]; simpl; [reflexivity|]. destruct (f c) eqn:E; simpl; [rewrite E; exact IH|reflexivity]. Qed.

Lemma plus_space_split s r : plus_space s = Some r -> exists a, s = a ++ r /\ forallb is_space a = true.
Proof.
  unfold plus_space. destruct s as [|c s]; [discriminate|]. destruct (is_space c) eqn:E; [|discriminate].
  intro H; inversion H; subst. exists (c :: take_while is_space s). split.
  - simpl. f_equal. apply skip_take.
  - simpl. rewrite E. apply take_while_all.
Qed.

Lemma opt_quote_split s : exists a, s = a ++ opt_quote s /\ forallb is_quote a = true.
Proof.
  destruct s as [|c s]; simpl; [exists []; auto|]. destruct (is_quote c) eqn:E.
  - exists [c]. simpl. rewrite E. auto.
  - exists []. auto.
Qed.

Lemma word1_split s w r : word1 s = Some (w, r) -> s = w ++ r /\ forallb is_word w = true.
Proof.
  unfold word1. destruct (take_while is_word s) eqn:E; [discriminate|].
  intro H; inversion H; subst. rewrite <- E. split; [apply skip_take|apply take_while_all].
Qed.

Lemma soft_of_word a : forallb is_word a = true -> forallb soft a = true.
Proof. induction a; simpl; [auto|]. intro H. apply andb_true_iff in H. destruct H as [H1 H2]. unfold soft at 1. rewrite H1. simpl. auto. Qed.
Lemma soft_of_space a : forallb is_space a = true -> forallb soft a = true.
Proof. induction a; simpl; [auto|]. intro H. apply andb_true_iff in H. destruct H as [H1 H2]. unfold soft at 1. rewrite H1. rewrite orb_true_r. simpl. auto. Qed.
Lemma soft_of_quote a : forallb is_quote a = true -> forallb soft a = true.
Proof. induction a; simpl; [auto|]. intro H. apply andb_true_iff in H. destruct H as [H1 H2]. unfold soft at 1. rewrite H1. rewrite orb_true_r. simpl. auto. Qed.

Lemma match_check_kw_lit s r : match_check_kw s = Some r -> exists r', lit_ci K_CHECK s = Some r'.
Proof. unfold match_check_kw. destruct (lit_ci K_CHECK s); [eauto|discriminate]. Qed.

(** (M) a match at the head of [s] reads only soft bytes up to a CHECK literal *)
Lemma match_check_at_occ s x : match_check_at s = Some x ->
  exists a b r', s = a ++ b /\ forallb soft a = true /\ lit_ci K_CHECK b = Some r'.
Proof.
  unfold match_check_at. destruct (match_named_check s) as [[w r]|] eqn:E.
  - intros _. unfold match_named_check in E.
    destruct (lit_ci K_CONSTRAINT s) as [r0|] eqn:E0; [|discriminate].
    destruct (lit_ci_split K_CONSTRAINT eq_refl s r0 E0) as (a0 & -> & Ha0 & _).
    destruct (plus_space r0) as [r1|] eqn:E1; [|discriminate].
    destruct (plus_space_split _ _ E1) as (a1 & -> & Ha1).
    destruct (opt_quote_split r1) as (a2 & Hr1 & Ha2).
    destruct (word1 (opt_quote r1)) as [[w' r3]|] eqn:E3; [|discriminate].
    destruct (word1_split _ _ _ E3) as (Hw & Ha3).
    destruct (opt_quote_split r3) as (a4 & Hr3 & Ha4).
    destruct (plus_space (opt_quote r3)) as [r5|] eqn:E5; [|discriminate].
    destruct (plus_space_split _ _ E5) as (a5 & Hr5 & Ha5).
    destruct (match_check_kw r5) as [r6|] eqn:E6; [|discriminate].
    destruct (match_check_kw_lit _ _ E6) as (r' & Hl).
    exists (a0 ++ a1 ++ a2 ++ w' ++ a4 ++ a5), r5, r'. split; [|split; [|exact Hl]].
    + rewrite Hr1, Hw, Hr3, Hr5. repeat rewrite <- app_assoc. reflexivity.
    + repeat rewrite forallb_app.
      rewrite (soft_of_word _ Ha0), (soft_of_space _ Ha1), (soft_of_quote _ Ha2), (soft_of_word _ Ha3),
              (soft_of_quote _ Ha4), (soft_of_space _ Ha5). reflexivity.
  - destruct (match_check_kw s) as [r|] eqn:E2; [|discriminate]. intros _.
    destruct (match_check_kw_lit _ _ E2) as (r' & Hl). exists [], s, r'. auto.
Qed.

Lemma lit_ci_app_break p : upper_letters p = true -> forall u c y r,
  lit_ci p (u ++ c :: y) = Some r -> (exists r', lit_ci p u = Some r') \/ is_word c = true.
Proof.
  induction p as [|x p IH]; intros Hp u c y r H; simpl in *.
  - left. eauto.
  - apply andb_true_iff in Hp. destruct Hp as [Hx Hp].
    destruct u as [|b u]; simpl in *.
    + right. destruct (N.eqb (lower x) (lower c)) eqn:E; [|discriminate]. exact (lower_word x c Hx E).
    + destruct (N.eqb (lower x) (lower b)); [|discriminate]. exact (IH Hp u c y r H).
Qed.

Lemma occurs_ci_none p x : occurs_ci p x = false -> forall k, lit_ci p (skipn k x) = None.
Proof.
  induction x as [|b x IH]; intros H k.
  - simpl in H. destruct k; simpl; destruct (lit_ci p []); auto; discriminate.
  - simpl in H. destruct (lit_ci p (b :: x)) eqn:E; [discriminate|].
    destruct k; simpl; [exact E|apply IH; exact H].
Qed.

Lemma occurs_ci_tail p b x : occurs_ci p (b :: x) = false -> occurs_ci p x = false.
Proof. simpl. destruct (lit_ci p (b :: x)); [discriminate|auto]. Qed.

Lemma forallb_firstn_break (f : N -> bool) x c y a b :
  x ++ c :: y = a ++ b -> forallb f a = true -> f c = false -> (length a <= length x)%nat.
Proof.
  revert a. induction x as [|h x IH]; intros a E Ha Hc; simpl in *.
  - destruct a as [|h' a]; [simpl; lia|]. simpl in E. inversion E; subst. simpl in Ha.
    rewrite Hc in Ha. discriminate.
  - destruct a as [|h' a]; [simpl; lia|]. simpl in E. inversion E; subst. simpl in Ha.
    apply andb_true_iff in Ha. destruct Ha as [_ Ha]. simpl. specialize (IH a H1 Ha Hc). lia.
Qed.

Lemma app_split_le {A} (x y a b : list A) : x ++ y = a ++ b -> (length a <= length x)%nat ->
  exists u, x = a ++ u /\ b = u ++ y.
Proof.
  revert a. induction x as [|h x IH]; intros a E L.
  - destruct a; [|simpl in L; lia]. simpl in *. exists []. auto.
  - destruct a as [|h' a]; simpl in *.
    + exists (h :: x). auto.
    + inversion E; subst. destruct (IH a H1 ltac:(lia)) as (u & -> & ->). exists u. auto.
Qed.

Lemma skipn_app_eq {A} (x a u : list A) i : skipn i x = a ++ u -> skipn (i + length a) x = u.
Proof.
  revert x. induction i as [|i IH]; intros x H; simpl in *.
  - subst x. rewrite skipn_app, skipn_all, Nat.sub_diag. reflexivity.
  - destruct x as [|h x]; simpl in *.
    + destruct a; [|discriminate]. simpl in *. subst u. destruct (i + 0)%nat; reflexivity.
    + apply IH. exact H.
Qed.

(** no match starts inside a CHECK-free text that is followed by a breaking byte *)
Lemma no_match_inside x c y : occurs_ci K_CHECK x = false -> soft c = false ->
  forall i, (i < length x)%nat -> match_check_at (skipn i x ++ c :: y) = None.
Proof.
  intros Hx Hc i Hi. destruct (match_check_at (skipn i x ++ c :: y)) as [m|] eqn:E; [|reflexivity]. exfalso.
  destruct (match_check_at_occ _ _ E) as (a & b & r' & Hs & Ha & Hl).
  pose proof (forallb_firstn_break soft _ _ _ _ _ Hs Ha Hc) as Hle.
  destruct (app_split_le _ _ _ _ Hs Hle) as (u & Hu & ->).
  destruct (lit_ci_app_break K_CHECK eq_refl u c y r' Hl) as [(r'' & Hr)|Hw].
  - assert (u = skipn (i + length a) x) as -> by (symmetry; apply skipn_app_eq; exact Hu).
    rewrite (occurs_ci_none _ _ Hx) in Hr. discriminate.
  - unfold soft in Hc. rewrite Hw in Hc. discriminate.
Qed.

Lemma lit_ci_first_false a p c y : N.eqb (lower a) (lower c) = false -> lit_ci (a :: p) (c :: y) = None.
Proof. intro H. cbn [lit_ci]. rewrite H. reflexivity. Qed.

Lemma match_at_nonc c y : N.eqb (lower c) 99 = false -> match_check_at (c :: y) = None.
Proof.
  intro H. assert (N.eqb (lower 67) (lower c) = false) as H' by (change (lower 67) with 99; rewrite N.eqb_sym; exact H).
  unfold match_check_at, match_named_check, match_check_kw, K_CONSTRAINT, K_CHECK.
  rewrite !(lit_ci_first_false _ _ _ _ H'). reflexivity.
Qed.

Lemma find_check_skip x c y : occurs_ci K_CHECK x = false -> soft c = false ->
  find_check (x ++ c :: y) = find_check (c :: y).
Proof.
  intros Hx Hc. induction x as [|b x IH]; [reflexivity|].
  change ((b :: x) ++ c :: y) with (b :: x ++ c :: y). cbn [find_check].
  pose proof (no_match_inside (b :: x) c y Hx Hc 0%nat ltac:(simpl; lia)) as H0.
  simpl in H0. rewrite H0. apply IH. exact (occurs_ci_tail _ _ _ Hx).
Qed.

Lemma find_check_none x : occurs_ci K_CHECK x = false -> find_check x = None.
Proof.
  intro Hx. induction x as [|b x IH].
  - reflexivity.
  - cbn [find_check]. destruct (match_check_at (b :: x)) as [m|] eqn:E.
    + exfalso. destruct (match_check_at_occ _ _ E) as (a & b' & r' & Hs & _ & Hl).
      assert (b' = skipn (length a) (b :: x)) as -> by (rewrite Hs, skipn_app, skipn_all, Nat.sub_diag; reflexivity).
      rewrite (occurs_ci_none _ _ Hx) in Hl. discriminate.
    + apply IH. exact (occurs_ci_tail _ _ _ Hx).
Qed.

(** *** the match at a printed constraint *)
Lemma lit_ci_self p r : lit_ci p (p ++ r) = Some r.
Proof. induction p as [|a p IH]; simpl; [reflexivity|]. rewrite N.eqb_refl. exact IH. Qed.

Lemma take_while_app f n c r : forallb f n = true -> f c = false -> take_while f (n ++ c :: r) = n.
Proof.
  induction n as [|a n IH]; simpl; intros H Hc; [rewrite Hc; reflexivity|].
  apply andb_true_iff in H. destruct H as [-> H]. f_equal. exact (IH H Hc).
Qed.
Lemma skip_while_app f n c r : forallb f n = true -> f c = false -> skip_while f (n ++ c :: r) = c :: r.
Proof.
  induction n as [|a n IH]; simpl; intros H Hc; [rewrite Hc; reflexivity|].
  apply andb_true_iff in H. destruct H as [-> H]. exact (IH H Hc).
Qed.

Definition name_ok (n : bytes) : Prop := n <> [] /\ forallb is_word n = true.

Lemma word1_name n r : name_ok n -> word1 (n ++ ch_bt :: r) = Some (n, ch_bt :: r).
Proof.
  intros [Hne Hw]. unfold word1. rewrite take_while_app, skip_while_app by (assumption || reflexivity).
  destruct n; [contradiction|reflexivity].
Qed.

Lemma check_expr_wrapped e : wrapped e -> Schema.may_wrap e = e -> check_expr e = e /\ exists e', e = ch_lp :: e'.
Proof.
  intros (b & p & -> & _) Hm. split; [|eauto].
  unfold check_expr, trim_space.
  assert (skip_while is_go_space (ch_lp :: b ++ [ch_rp]) = ch_lp :: b ++ [ch_rp]) as -> by reflexivity.
  assert (rev (ch_lp :: b ++ [ch_rp]) = ch_rp :: rev b ++ [ch_lp]) as ->.
  { simpl. rewrite rev_app_distr. reflexivity. }
  assert (skip_while is_go_space (ch_rp :: rev b ++ [ch_lp]) = ch_rp :: rev b ++ [ch_lp]) as -> by reflexivity.
  assert (rev (ch_rp :: rev b ++ [ch_lp]) = ch_lp :: b ++ [ch_rp]) as ->.
  { simpl. rewrite rev_app_distr, rev_involutive. reflexivity. }
  exact Hm.
Qed.

Definition check_ok (k : option bytes * bytes) : Prop :=
  (match fst k with Some n => name_ok n | None => True end) /\ wrapped (snd k) /\ Schema.may_wrap (snd k) = snd k.

Lemma match_kw_printed e' tail :
  match_check_kw (K_CHECK ++ ch_sp :: (ch_lp :: e') ++ tail) = Some ((ch_lp :: e') ++ tail).
Proof. unfold match_check_kw. rewrite lit_ci_self. reflexivity. Qed.

Lemma match_at_printed k tail : check_ok k ->
  match_check_at (print_check k ++ tail) = Some (fst k, snd k ++ tail).
Proof.
  destruct k as [[n|] e]; intros [Hn [He Hmw]]; simpl in Hn, He, Hmw;
    destruct (check_expr_wrapped e He Hmw) as (Hce & e' & He'); unfold print_check; simpl fst; simpl snd; rewrite Hce.
  - unfold match_check_at, match_named_check.
    repeat rewrite <- app_assoc. rewrite lit_ci_self.
    change ([ch_sp] ++ bt_ident n ++ [ch_sp] ++ K_CHECK ++ [ch_sp] ++ e ++ tail)
      with (ch_sp :: ch_bt :: (n ++ [ch_bt]) ++ [ch_sp] ++ K_CHECK ++ [ch_sp] ++ e ++ tail).
    cbn [plus_space]. change (is_space ch_sp) with true. cbn iota.
    change (skip_while is_space (ch_bt :: (n ++ [ch_bt]) ++ [ch_sp] ++ K_CHECK ++ [ch_sp] ++ e ++ tail))
      with (ch_bt :: (n ++ [ch_bt]) ++ [ch_sp] ++ K_CHECK ++ [ch_sp] ++ e ++ tail).
    cbn [opt_quote]. change (is_quote ch_bt) with true. cbn iota.
    rewrite <- app_assoc. cbn [app]. rewrite (word1_name n _ Hn).
    cbn [opt_quote]. change (is_quote ch_bt) with true. cbn iota.
    cbn [plus_space]. change (is_space ch_sp) with true. cbn iota.
    change (skip_while is_space (K_CHECK ++ ch_sp :: e ++ tail)) with (K_CHECK ++ ch_sp :: e ++ tail).
    subst e. rewrite (match_kw_printed e' tail). reflexivity.
  - unfold match_check_at.
    assert (match_named_check (([] ++ K_CHECK ++ [ch_sp] ++ e) ++ tail) = None) as -> by reflexivity.
    cbn [app]. repeat rewrite <- app_assoc. subst e.
    change (K_CHECK ++ (ch_sp :: ch_lp :: e') ++ tail) with (K_CHECK ++ ch_sp :: (ch_lp :: e') ++ tail).
    rewrite (match_kw_printed e' tail). reflexivity.
Qed.

(** the remaining text after one constraint *)
Lemma fill_step fuel x k tail : occurs_ci K_CHECK x = false -> check_ok k ->
  fill_checks_go (S fuel) (x ++ sep ++ print_check k ++ tail) =
  (fst k, snd k) :: fill_checks_go fuel tail.
Proof.
  intros Hx Hk. cbn [fill_checks_go].
  assert (find_check (x ++ sep ++ print_check k ++ tail) = Some (fst k, snd k ++ tail)) as Hf.
  { unfold sep. change ([ch_comma; ch_sp] ++ print_check k ++ tail) with (ch_comma :: ch_sp :: print_check k ++ tail).
    rewrite find_check_skip by (assumption || reflexivity).
    cbn [find_check]. rewrite (match_at_nonc ch_comma) by reflexivity.
    rewrite (match_at_nonc ch_sp) by reflexivity.
    destruct (print_check k ++ tail) eqn:E.
    - pose proof (match_at_printed k tail Hk) as H. rewrite E in H. discriminate.
    - cbn [find_check]. rewrite <- E. rewrite (match_at_printed k tail Hk). reflexivity. }
  rewrite Hf. destruct Hk as [_ [Hw _]].
  rewrite (scan_expr_wrapped _ tail Hw).
  rewrite skipn_app, skipn_all, Nat.sub_diag. simpl skipn. cbn [app].
  destruct (x ++ sep ++ print_check k ++ tail) eqn:E.
  - destruct x; discriminate.
  - reflexivity.
Qed.

Lemma fill_none fuel s : find_check s = None -> fill_checks_go fuel s = [].
Proof. intro H. destruct fuel; [reflexivity|]. cbn [fill_checks_go]. destruct s; [reflexivity|]. rewrite H. reflexivity. Qed.

Lemma fill_printed cks : Forall check_ok cks -> forall fuel x post0,
  (length cks < fuel)%nat -> occurs_ci K_CHECK x = false -> occurs_ci K_CHECK post0 = false ->
  fill_checks_go fuel (x ++ checks_text cks ++ ch_rp :: post0) = cks.
Proof.
  induction 1 as [|k cks Hk Hall IH]; intros fuel x post0 Hf Hx Hp.
  - simpl. apply fill_none. rewrite find_check_skip by (assumption || reflexivity).
    cbn [find_check]. rewrite (match_at_nonc ch_rp) by reflexivity. apply find_check_none. exact Hp.
  - destruct fuel as [|fuel]; [simpl in Hf; lia|].
    change (checks_text (k :: cks)) with ((sep ++ print_check k) ++ checks_text cks).
    repeat rewrite <- app_assoc.
    rewrite (fill_step fuel x k (checks_text cks ++ ch_rp :: post0) Hx Hk).
    destruct k as [n e]. simpl fst. simpl snd. f_equal.
    apply (IH fuel [] post0); [simpl in Hf; lia|reflexivity|exact Hp].
Qed.

Lemma checks_text_length cks : (length cks <= length (checks_text cks))%nat.
Proof.
  induction cks as [|k cks IH]; [simpl; lia|].
  change (checks_text (k :: cks)) with ((sep ++ print_check k) ++ checks_text cks).
  rewrite app_length. simpl. lia.
Qed.

(** fillChecks applied to the text the planner prints -- anything free of the
    letters CHECK, then the constraints, then the closing parenthesis and the table
    options -- returns exactly the printed names and expressions. *)
Theorem fill_checks_inverts_printer : forall x cks post0,
  occurs_ci K_CHECK x = false -> Forall check_ok cks -> occurs_ci K_CHECK post0 = false ->
  fill_checks (x ++ checks_text cks ++ ch_rp :: post0) = cks.
Proof.
  intros x cks post0 Hx Hc Hp. unfold fill_checks. apply fill_printed; try assumption.
  repeat rewrite app_length. pose proof (checks_text_length cks). simpl. lia.
Qed.

(** ** witnesses (concrete texts; evaluated by the kernel) *)
Require Import Coq.Strings.String Coq.Strings.Ascii.
Import List ListNotations.
Definition B (s : string) : bytes := List.map N_of_ascii (list_ascii_of_string s).

(** the planner's own CREATE TABLE for a column whose DEFAULT is the string 'check (x)' *)
Definition w_check_text : bytes := B "CREATE TABLE `t` (`a` int NULL, `b` text NULL DEFAULT 'check (x)')".
Lemma w_check_phantom : fill_checks w_check_text = [(None, B "(x)")].
Proof. vm_compute. reflexivity. Qed.

(** the planner's own CREATE TABLE with generated columns cx and c *)
Definition w_gen_text : bytes :=
  B "CREATE TABLE `t` (`a` int NULL, `cx` int NULL AS (a + 1) STORED, `c` int NULL AS (a * 2) STORED)".
Lemma w_gen_prefix : set_gen_expr_old (B "c") w_gen_text = GenOk (B "(a + 1)") /\
                     set_gen_expr_old (B "cx") w_gen_text = GenOk (B "(a + 1)").
Proof. vm_compute. split; reflexivity. Qed.
(** since the fix (white space after the name) each column gets its own expression *)
Lemma w_gen_prefix_fixed : set_gen_expr (B "c") w_gen_text = GenOk (B "(a * 2)") /\
                           set_gen_expr (B "cx") w_gen_text = GenOk (B "(a + 1)").
Proof. vm_compute. split; reflexivity. Qed.

(** a string holding AS ( inside a generated expression (planner's text) *)
Definition w_gen_as_text : bytes := B "CREATE TABLE `t` (`k` int NULL, `g` int NULL AS (k || 'AS (x') VIRTUAL)".
Lemma w_gen_as : set_gen_expr (B "g") w_gen_as_text = GenOk (B "(x')").
Proof. vm_compute. reflexivity. Qed.

(** AUTOINCREMENT: bracket-quoted column; the letters in a later name *)
Definition w_auto_bracket : bytes := B "CREATE TABLE t ([id] integer PRIMARY KEY AUTOINCREMENT, b int)".
Definition w_auto_phantom : bytes := B "CREATE TABLE t (id integer PRIMARY KEY NOT NULL CHECK (autoincrement_x > 0), autoincrement_x int)".
Lemma w_autoinc : autoinc w_auto_bracket [B "id"; B "b"] [B "id"] = AutoNone /\
                  autoinc_old w_auto_phantom [B "id"; B "autoincrement_x"] [B "id"] = AutoOk (B "id").
Proof. vm_compute. split; reflexivity. Qed.
(** since the fix of the tail of reAutoinc the letters later in the definition are not taken for the keyword;
    the grammar's own forms are: PRIMARY KEY DESC ON CONFLICT REPLACE AUTOINCREMENT *)
Definition w_auto_full : bytes := B "CREATE TABLE t (id integer NOT NULL PRIMARY KEY desc ON CONFLICT replace AUTOINCREMENT, b int)".
Lemma w_autoinc_fixed : autoinc w_auto_phantom [B "id"; B "autoincrement_x"] [B "id"] = AutoNone /\
                        autoinc w_auto_full [B "id"; B "b"] [B "id"] = AutoOk (B "id").
Proof. vm_compute. split; reflexivity. Qed.

(** partial index predicate *)
Lemma w_where : index_predicate_old (B "CREATE INDEX `ix_WHERE_y` ON `t` (`a`) WHERE a > 0") = Some (B "_y` ON `t` (`a`) WHERE a > 0") /\
                index_predicate_old (B "CREATE INDEX i on t (a) where a > 0") = None.
Proof. vm_compute. split; reflexivity. Qed.
(** since the fix (the keyword is looked for after a closing parenthesis, in any case) *)
Lemma w_where_fixed : index_predicate (B "CREATE INDEX `ix_WHERE_y` ON `t` (`a`) WHERE a > 0") = Some (B "a > 0") /\
                      index_predicate (B "CREATE INDEX i on t (a) where a > 0") = Some (B "a > 0").
Proof. vm_compute. split; reflexivity. Qed.

(** foreign-key names: bracket quoting; two keys of the same shape *)
Definition w_fk_text : bytes := B "CREATE TABLE c (pid int CONSTRAINT myfk REFERENCES p (id) ON DELETE CASCADE, CONSTRAINT fk2 FOREIGN KEY (pid) REFERENCES p (id))".
Lemma w_fk_same_shape :
  map pf_symbol (fill_const_name w_fk_text [mkPfk (B "0") [B "pid"] (B "p") [B "id"]; mkPfk (B "1") [B "pid"] (B "p") [B "id"]])
  = [B "myfk"; B "1"].
Proof. vm_compute. reflexivity. Qed.

(** non-vacuity of the printer theorem *)
Definition w_cks : list (option bytes * bytes) := [(Some (B "ck"), B "(a > 0 AND b <> ')')"); (None, B "(length(b) > (1))")].
Lemma w_cks_ok : Forall check_ok w_cks.
Proof.
  repeat constructor; simpl; try (intro; discriminate).
  - exists (B "a > 0 AND b <> ')'"), 0%nat. split; [reflexivity|].
    change (B "a > 0 AND b <> ')'") with (B "a > 0 AND b <> " ++ ch_sq :: [ch_rp] ++ ch_sq :: []).
    assert (forall l, forallb plain l = true -> forall t p, bal t p -> bal (l ++ t) p) as Hpl.
    { induction l; simpl; intros H t p Ht; [exact Ht|]. apply andb_true_iff in H. destruct H. apply bal_ch; auto. }
    apply Hpl; [reflexivity|]. apply bal_str; [reflexivity| |constructor].
    intros [H|[]]. discriminate.
  - exists (B "length(b) > (1)"), 2%nat. split; [reflexivity|].
    change (B "length(b) > (1)") with (B "length" ++ ch_lp :: B "b" ++ ch_rp :: (B " > " ++ ch_lp :: B "1" ++ ch_rp :: [])).
    assert (forall l, forallb plain l = true -> forall t p, bal t p -> bal (l ++ t) p) as Hpl.
    { induction l; simpl; intros H t p Ht; [exact Ht|]. apply andb_true_iff in H. destruct H. apply bal_ch; auto. }
    apply Hpl; [reflexivity|].
    apply (bal_par (B "b") 0 _ 1).
    + apply (Hpl (B "b") eq_refl [] 0%nat). constructor.
    + apply Hpl; [reflexivity|]. apply (bal_par (B "1") 0 [] 0).
      * apply (Hpl (B "1") eq_refl [] 0%nat). constructor.
      * constructor.
Qed.

(** ** the partial-index predicate *)
Fixpoint occurs_cs (p s : bytes) : bool :=
  match lit_cs p s with
  | Some _ => true
  | None => match s with [] => false | _ :: s' => occurs_cs p s' end
  end.

Lemma lit_cs_self p r : lit_cs p (p ++ r) = Some r.
Proof. induction p as [|a p IH]; simpl; [reflexivity|]. rewrite N.eqb_refl. exact IH. Qed.

(** a literal cannot match across a byte that is not one of its bytes *)
Lemma lit_cs_app_break p u c y r :
  lit_cs p (u ++ c :: y) = Some r -> (exists r', lit_cs p u = Some r') \/ In c p.
Proof.
  revert u. induction p as [|x p IH]; intros u H; simpl in *.
  - left. eauto.
  - destruct u as [|b u]; simpl in *.
    + right. destruct (N.eqb x c) eqn:E; [|discriminate]. left. apply N.eqb_eq in E. auto.
    + destruct (N.eqb x b); [|discriminate]. destruct (IH u H) as [?|?]; auto.
Qed.

Lemma occurs_cs_none p x : occurs_cs p x = false -> forall k, lit_cs p (skipn k x) = None.
Proof.
  induction x as [|b x IH]; intros H k.
  - simpl in H. destruct k; simpl; destruct (lit_cs p []); auto; discriminate.
  - simpl in H. destruct (lit_cs p (b :: x)) eqn:E; [discriminate|].
    destruct k; simpl; [exact E|apply IH; exact H].
Qed.

Lemma index_of_hit p s r : lit_cs p s = Some r -> index_of p s = Some r.
Proof. intro H. destruct s; simpl; simpl in H; rewrite H; reflexivity. Qed.
Lemma index_of_miss p b s : lit_cs p (b :: s) = None -> index_of p (b :: s) = index_of p s.
Proof. intro H. cbn [index_of]. rewrite H. reflexivity. Qed.

(** [pre] holds no WHERE and ends in a byte that is not a letter of WHERE (the planner
    writes ") " before the keyword): the first WHERE of the statement is the keyword *)
Lemma index_of_where pre c rest : occurs_cs K_WHERE pre = false -> ~ In c K_WHERE ->
  index_of K_WHERE (pre ++ c :: K_WHERE ++ rest) = Some rest.
Proof.
  intros Hp Hc. induction pre as [|b pre IH].
  - cbn [app].
    destruct (lit_cs K_WHERE (c :: K_WHERE ++ rest)) eqn:E.
    + exfalso. destruct (lit_cs_app_break K_WHERE [] c (K_WHERE ++ rest) b E) as [(r' & H)|H]; [discriminate|auto].
    + rewrite (index_of_miss _ _ _ E). apply index_of_hit. apply lit_cs_self.
  - change ((b :: pre) ++ c :: K_WHERE ++ rest) with (b :: pre ++ c :: K_WHERE ++ rest).
    destruct (lit_cs K_WHERE (b :: pre ++ c :: K_WHERE ++ rest)) eqn:E.
    + exfalso. destruct (lit_cs_app_break K_WHERE (b :: pre) c _ _ E) as [(r' & H)|H]; [|auto].
      pose proof (occurs_cs_none _ _ Hp 0%nat) as H0. cbn [skipn] in H0. rewrite H0 in H. discriminate.
    + rewrite (index_of_miss _ _ _ E). apply IH. cbn [occurs_cs] in Hp. destruct (lit_cs K_WHERE (b :: pre)); [discriminate|exact Hp].
Qed.

Theorem index_predicate_old_printed pre c p : occurs_cs K_WHERE pre = false -> ~ In c K_WHERE ->
  index_predicate_old (pre ++ c :: K_WHERE ++ p) = Some (trim_space p).
Proof. intros H1 H2. unfold index_predicate_old. rewrite index_of_where by assumption. reflexivity. Qed.

(** ** leftmost match: a generic finder *)
Section Finder.
Variable A : Type.
Variable m : bytes -> option A.
Fixpoint find_first (s : bytes) : option A :=
  match m s with
  | Some x => Some x
  | None => match s with [] => None | _ :: s' => find_first s' end
  end.
Definition no_start_before (full : bytes) (n : nat) : bool :=
  forallb (fun i => match m (skipn i full) with None => true | Some _ => false end) (seq 0 n).
Lemma no_start_before_tail b full n :
  no_start_before (b :: full) (S n) = true -> m (b :: full) = None /\ no_start_before full n = true.
Proof.
  unfold no_start_before. cbn [seq forallb skipn]. intro H. apply andb_true_iff in H. destruct H as [H0 H].
  split; [destruct (m (b :: full)); [discriminate|reflexivity]|].
  rewrite <- seq_shift in H. rewrite forallb_forall in H. apply forallb_forall. intros i Hi.
  apply (H (S i)). apply in_map. exact Hi.
Qed.
Lemma find_first_skip pre s : no_start_before (pre ++ s) (length pre) = true -> find_first (pre ++ s) = find_first s.
Proof.
  induction pre as [|b pre IH]; [reflexivity|]. intro H.
  change ((b :: pre) ++ s) with (b :: pre ++ s) in *. cbn [length] in H.
  destruct (no_start_before_tail _ _ _ H) as [H0 H1]. cbn [find_first]. rewrite H0. exact (IH H1).
Qed.
End Finder.

Lemma find_gen_first name s : find_gen name s = find_first _ (match_gen_at name) s.
Proof. induction s as [|b s IH]; cbn [find_gen find_first]; [reflexivity|]. destruct (match_gen_at name (b :: s)); [reflexivity|exact IH]. Qed.
Lemma find_autoinc_first s : find_autoinc s = find_first _ match_autoinc_at s.
Proof. induction s as [|b s IH]; cbn [find_autoinc find_first]; [reflexivity|]. destruct (match_autoinc_at (b :: s)); [reflexivity|exact IH]. Qed.
Lemma find_where_first s : find_where s = find_first _ where_at s.
Proof. induction s as [|b s IH]; cbn [find_where find_first]; [reflexivity|]. destruct (where_at (b :: s)); [reflexivity|exact IH]. Qed.

(** ** setGenExpr on a printed generated column *)
Definition not_comma (c : N) : bool := negb (N.eqb c ch_comma).

Lemma tail_as_not_a c s : N.eqb (lower 65) (lower c) = false -> tail_as (c :: s) = None.
Proof. intro H. unfold tail_as, K_AS. rewrite (lit_ci_first_false _ _ _ _ H). reflexivity. Qed.

Lemma last_as_skip c s : not_comma c = true -> N.eqb (lower 65) (lower c) = false -> last_as (c :: s) = last_as s.
Proof.
  intros Hc Ha. cbn [last_as]. unfold not_comma in Hc. apply negb_true_iff in Hc. rewrite Hc.
  rewrite (tail_as_not_a _ _ Ha). destruct (last_as s); reflexivity.
Qed.

Lemma last_as_spaces w s : forallb is_space w = true -> last_as (w ++ s) = last_as s.
Proof.
  induction w as [|c w IH]; [reflexivity|]. intro H. simpl in H. apply andb_true_iff in H. destruct H as [Hc H].
  change ((c :: w) ++ s) with (c :: w ++ s). rewrite last_as_skip; [exact (IH H)| |].
  - unfold is_space in Hc. unfold not_comma, ch_comma.
    repeat (apply orb_true_iff in Hc; destruct Hc as [Hc|Hc]); apply N.eqb_eq in Hc; subst; reflexivity.
  - unfold is_space in Hc.
    repeat (apply orb_true_iff in Hc; destruct Hc as [Hc|Hc]); apply N.eqb_eq in Hc; subst; reflexivity.
Qed.

Lemma last_as_prefix x s r : forallb not_comma x = true -> last_as s = Some r -> last_as (x ++ s) = Some r.
Proof.
  induction x as [|c x IH]; [auto|]. intros H Hs. simpl in H. apply andb_true_iff in H. destruct H as [Hc H].
  change ((c :: x) ++ s) with (c :: x ++ s). cbn [last_as]. unfold not_comma in Hc. apply negb_true_iff in Hc.
  rewrite Hc, (IH H Hs). reflexivity.
Qed.

Lemma skip_spaces_tail w s : forallb is_space w = true -> (match s with c :: _ => is_space c = false | [] => True end) ->
  skip_while is_space (w ++ s) = s.
Proof.
  induction w as [|c w IH]; intros H Hs.
  - destruct s as [|c s]; [reflexivity|]. simpl. rewrite Hs. reflexivity.
  - simpl in H. apply andb_true_iff in H. destruct H as [Hc H]. simpl. rewrite Hc. exact (IH H Hs).
Qed.

Lemma tail_as_hit w z : forallb is_space w = true -> tail_as (K_AS ++ w ++ ch_lp :: z) = Some (ch_lp :: z).
Proof.
  intro Hw. unfold tail_as. rewrite lit_ci_self. rewrite skip_spaces_tail by (exact Hw || reflexivity). reflexivity.
Qed.

Lemma last_as_cons c s : N.eqb c ch_comma = false ->
  last_as (c :: s) = match last_as s with Some r => Some r | None => tail_as (c :: s) end.
Proof. intro H. cbn [last_as]. rewrite H. reflexivity. Qed.

(** the intended AS ( is the last one of its stretch *)
Lemma last_as_at x w e' y :
  forallb not_comma x = true -> forallb is_space w = true -> last_as (e' ++ y) = None ->
  last_as (x ++ K_AS ++ w ++ (ch_lp :: e') ++ y) = Some ((ch_lp :: e') ++ y).
Proof.
  intros Hx Hw Hy. apply last_as_prefix; [exact Hx|].
  change (K_AS ++ w ++ (ch_lp :: e') ++ y) with (65 :: 83 :: w ++ ch_lp :: e' ++ y).
  rewrite last_as_cons by reflexivity.
  assert (last_as (83 :: w ++ ch_lp :: e' ++ y) = None) as ->.
  { rewrite last_as_skip by reflexivity. rewrite last_as_spaces by exact Hw.
    rewrite last_as_skip by reflexivity. exact Hy. }
  change (65 :: 83 :: w ++ ch_lp :: e' ++ y) with (K_AS ++ w ++ ch_lp :: e' ++ y).
  rewrite tail_as_hit by exact Hw. reflexivity.
Qed.

Lemma skip_quotes_name n r : name_ok n -> skip_while is_quote (ch_bt :: n ++ r) = n ++ r.
Proof.
  intros [Hne Hw]. destruct n as [|c n]; [contradiction|]. simpl in Hw. apply andb_true_iff in Hw. destruct Hw as [Hc _].
  cbn [skip_while]. change (is_quote ch_bt) with true. cbn iota. cbn [app skip_while].
  assert (is_quote c = false) as ->; [|reflexivity].
  unfold is_quote. unfold is_word in Hc.
  destruct (N.eqb c 34) eqn:E1; [apply N.eqb_eq in E1; subst; discriminate|].
  destruct (N.eqb c 96) eqn:E2; [apply N.eqb_eq in E2; subst; discriminate|]. reflexivity.
Qed.

(** C03_regex_inverts_printer, generated columns: the column is written after an opening
    byte [c] ("(" for the first column, "," otherwise), spaces, `name`, any comma-free text
    [mid] (type, NULL / NOT NULL), AS, spaces, the wrapped expression [e]; if no match of the
    column's regexp starts before [c] and no further "AS (" follows in the same comma-free
    stretch, setGenExpr returns exactly [e]. *)
Lemma space_not_quote c : is_space c = true -> is_quote c = false.
Proof.
  unfold is_space, is_quote. intro H.
  repeat (apply orb_true_iff in H; destruct H as [H|H]); apply N.eqb_eq in H; subst; reflexivity.
Qed.
Lemma skip_quotes_bt_space s0 r : is_space s0 = true -> skip_while is_quote (ch_bt :: s0 :: r) = s0 :: r.
Proof.
  intro H. cbn [skip_while]. change (is_quote ch_bt) with true. cbn iota. rewrite (space_not_quote _ H). reflexivity.
Qed.

(** (since the fix of the regexp the text after the closing quote of the name starts with a white-space byte [s0]) *)
Theorem set_gen_expr_printed name pre c sp1 s0 mid w e rest :
  name_ok name -> open_ch c = true -> forallb is_space sp1 = true -> is_space s0 = true ->
  forallb not_comma mid = true -> forallb is_space w = true -> wrapped e ->
  last_as (tl e ++ rest) = None ->
  no_start_before _ (match_gen_at name)
    (pre ++ c :: sp1 ++ bt_ident name ++ (s0 :: mid) ++ K_AS ++ w ++ e ++ rest) (length pre) = true ->
  set_gen_expr name (pre ++ c :: sp1 ++ bt_ident name ++ (s0 :: mid) ++ K_AS ++ w ++ e ++ rest) = GenOk e.
Proof.
  intros Hn Hc Hs1 Hs0 Hmid Hw He Hlast Hpre.
  destruct He as (b & p & -> & Hb). set (e := ch_lp :: b ++ [ch_rp]) in *.
  assert (wrapped e) as He by (exists b, p; auto).
  unfold set_gen_expr. destruct Hn as [Hne Hwd]. rewrite Hwd. cbn [negb orb].
  destruct name as [|n0 name'] eqn:En; [contradiction|]. rewrite <- En in *. cbn iota.
  rewrite find_gen_first, (find_first_skip _ _ _ _ Hpre).
  assert (match_gen_at name (c :: sp1 ++ bt_ident name ++ (s0 :: mid) ++ K_AS ++ w ++ e ++ rest) = Some (e ++ rest)) as Hm.
  { unfold match_gen_at. rewrite Hc. unfold bt_ident.
    change (sp1 ++ (ch_bt :: name ++ [ch_bt]) ++ (s0 :: mid) ++ K_AS ++ w ++ e ++ rest)
      with (sp1 ++ ch_bt :: (name ++ [ch_bt]) ++ (s0 :: mid) ++ K_AS ++ w ++ e ++ rest).
    rewrite skip_spaces_tail by (exact Hs1 || reflexivity).
    rewrite <- app_assoc. rewrite skip_quotes_name by (split; [rewrite En; discriminate|exact Hwd]).
    rewrite lit_cs_self.
    change ([ch_bt] ++ (s0 :: mid) ++ K_AS ++ w ++ e ++ rest) with (ch_bt :: s0 :: mid ++ K_AS ++ w ++ (ch_lp :: b ++ [ch_rp]) ++ rest).
    rewrite (skip_quotes_bt_space s0 _ Hs0). rewrite Hs0.
    apply last_as_at; [exact Hmid|exact Hw|exact Hlast]. }
  destruct (c :: sp1 ++ bt_ident name ++ (s0 :: mid) ++ K_AS ++ w ++ e ++ rest) eqn:Efull; [discriminate|].
  cbn [find_first]. rewrite Hm. rewrite (scan_expr_wrapped e rest He).
  subst e. reflexivity.
Qed.

(** ** autoinc on a printed AUTOINCREMENT column *)
Definition t_integer : bytes := [105;110;116;101;103;101;114].          (* FormatType prints lower case *)
Definition PK_AUTOINC : bytes := K_PRIMARY ++ [ch_sp] ++ K_KEY ++ [ch_sp] ++ K_AUTOINCREMENT.

Lemma pk_autoinc_at_hit rest : pk_autoinc_at (PK_AUTOINC ++ rest) = true.
Proof.
  unfold pk_autoinc_at, PK_AUTOINC. repeat rewrite <- app_assoc. rewrite lit_ci_self.
  change ([ch_sp] ++ K_KEY ++ [ch_sp] ++ K_AUTOINCREMENT ++ rest) with (ch_sp :: K_KEY ++ ch_sp :: K_AUTOINCREMENT ++ rest).
  cbn [plus_space]. change (is_space ch_sp) with true. cbn iota.
  change (skip_while is_space (K_KEY ++ ch_sp :: K_AUTOINCREMENT ++ rest)) with (K_KEY ++ ch_sp :: K_AUTOINCREMENT ++ rest).
  rewrite lit_ci_self.
  assert (ends_autoinc (ch_sp :: K_AUTOINCREMENT ++ rest) = true) as He.
  { unfold ends_autoinc. cbn [plus_space]. change (is_space ch_sp) with true. cbn iota.
    change (skip_while is_space (K_AUTOINCREMENT ++ rest)) with (K_AUTOINCREMENT ++ rest).
    rewrite lit_ci_self. reflexivity. }
  unfold tail_from. rewrite He. reflexivity.
Qed.

Lemma has_pk_autoinc_prefix x s : forallb not_comma x = true -> pk_autoinc_at s = true -> has_pk_autoinc (x ++ s) = true.
Proof.
  induction x as [|c x IH]; intros H Hs.
  - destruct s; cbn [app has_pk_autoinc]; rewrite Hs; reflexivity.
  - simpl in H. apply andb_true_iff in H. destruct H as [Hc H].
    change ((c :: x) ++ s) with (c :: x ++ s). cbn [has_pk_autoinc].
    unfold not_comma in Hc. apply negb_true_iff in Hc. rewrite Hc, (IH H Hs). apply orb_true_r.
Qed.

Theorem find_autoinc_printed name pre c sp1 w1 mid rest :
  name_ok name -> open_ch c = true -> forallb is_space sp1 = true -> forallb is_space w1 = true ->
  forallb not_comma mid = true ->
  no_start_before _ match_autoinc_at
    (pre ++ c :: sp1 ++ bt_ident name ++ ch_sp :: w1 ++ t_integer ++ ch_sp :: mid ++ PK_AUTOINC ++ rest) (length pre) = true ->
  find_autoinc (pre ++ c :: sp1 ++ bt_ident name ++ ch_sp :: w1 ++ t_integer ++ ch_sp :: mid ++ PK_AUTOINC ++ rest) = Some name.
Proof.
  intros Hn Hc Hs1 Hw1 Hmid Hpre.
  rewrite find_autoinc_first, (find_first_skip _ _ _ _ Hpre).
  assert (match_autoinc_at (c :: sp1 ++ bt_ident name ++ ch_sp :: w1 ++ t_integer ++ ch_sp :: mid ++ PK_AUTOINC ++ rest) = Some name) as Hm.
  { unfold match_autoinc_at. rewrite Hc. unfold bt_ident.
    change (sp1 ++ (ch_bt :: name ++ [ch_bt]) ++ ch_sp :: w1 ++ t_integer ++ ch_sp :: mid ++ PK_AUTOINC ++ rest)
      with (sp1 ++ ch_bt :: (name ++ [ch_bt]) ++ ch_sp :: w1 ++ t_integer ++ ch_sp :: mid ++ PK_AUTOINC ++ rest).
    rewrite skip_spaces_tail by (exact Hs1 || reflexivity).
    cbn [opt_quote]. change (is_quote ch_bt) with true. cbn iota.
    rewrite <- app_assoc. cbn [app]. rewrite (word1_name name _ Hn).
    cbn [opt_quote]. change (is_quote ch_bt) with true. cbn iota.
    cbn [plus_space]. change (is_space ch_sp) with true. cbn iota.
    rewrite skip_spaces_tail by (exact Hw1 || reflexivity).
    change (lit_ci K_INTEGER (t_integer ++ ch_sp :: mid ++ PK_AUTOINC ++ rest)) with (Some (ch_sp :: mid ++ PK_AUTOINC ++ rest)).
    cbn iota. change (is_space ch_sp) with true. cbn [andb].
    rewrite (has_pk_autoinc_prefix mid _ Hmid (pk_autoinc_at_hit rest)). reflexivity. }
  destruct (c :: sp1 ++ bt_ident name ++ ch_sp :: w1 ++ t_integer ++ ch_sp :: mid ++ PK_AUTOINC ++ rest) eqn:E; [discriminate|].
  cbn [find_first]. rewrite Hm. reflexivity.
Qed.

(** autoinc(t) itself: the recognised column is the single primary-key column *)
Corollary autoinc_printed name pre c sp1 w1 mid rest cols :
  name_ok name -> open_ch c = true -> forallb is_space sp1 = true -> forallb is_space w1 = true ->
  forallb not_comma mid = true -> In name cols ->
  no_start_before _ match_autoinc_at
    (pre ++ c :: sp1 ++ bt_ident name ++ ch_sp :: w1 ++ t_integer ++ ch_sp :: mid ++ PK_AUTOINC ++ rest) (length pre) = true ->
  autoinc (pre ++ c :: sp1 ++ bt_ident name ++ ch_sp :: w1 ++ t_integer ++ ch_sp :: mid ++ PK_AUTOINC ++ rest) cols [name] = AutoOk name.
Proof.
  intros Hn Hc Hs1 Hw1 Hmid Hin Hpre. unfold autoinc.
  rewrite (find_autoinc_printed name pre c sp1 w1 mid rest Hn Hc Hs1 Hw1 Hmid Hpre).
  assert (existsb (bytes_eqb name) cols = true) as ->.
  { apply existsb_exists. exists name. split; [exact Hin|apply bytes_eqb_refl]. }
  rewrite bytes_eqb_refl. reflexivity.
Qed.

(** ** the partial-index predicate since the fix of addIndexes (reIdxWhere): the statement is [pre], the
    closing parenthesis of the parts, spaces, WHERE, a white-space byte and at least one more byte; if no
    match of the regexp starts inside [pre], the predicate read back is everything after the keyword, trimmed *)
Theorem index_predicate_printed pre w1 s0 c p :
  forallb is_space w1 = true -> is_space s0 = true ->
  no_start_before _ where_at (pre ++ ch_rp :: w1 ++ K_WHERE ++ s0 :: c :: p) (length pre) = true ->
  index_predicate (pre ++ ch_rp :: w1 ++ K_WHERE ++ s0 :: c :: p) = Some (trim_space (s0 :: c :: p)).
Proof.
  intros Hw Hs0 Hpre. unfold index_predicate. rewrite find_where_first, (find_first_skip _ _ _ _ Hpre).
  assert (where_at (ch_rp :: w1 ++ K_WHERE ++ s0 :: c :: p) = Some (s0 :: c :: p)) as Hm.
  { unfold where_at. rewrite N.eqb_refl. rewrite skip_spaces_tail by (exact Hw || reflexivity).
    rewrite lit_ci_self. rewrite Hs0. reflexivity. }
  cbn [find_first]. rewrite Hm. reflexivity.
Qed.
