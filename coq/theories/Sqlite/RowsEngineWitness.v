(** Concrete instances for the round-5 theorems of C05 (shared planner + engine + sqlite_sequence):
    non-vacuity and the two [_refuted] witnesses.  Everything by [vm_compute]. *)
From Coq Require Import List NArith ZArith Bool Arith.
From Atlas Require Import Base.Bytes Diff.Schema Diff.DiffModel Diff.DiffSqlite
  Sqlite.PlanModel Sqlite.EngineModel Sqlite.SeqModel Sqlite.RowsEngine.
Import ListNotations.

Definition nT : str := [116]%N.         (* t *)
Definition nP : str := [112]%N.         (* p *)
Definition nId : str := [105;100]%N.    (* id *)
Definition nV : str := [118]%N.         (* v *)
Definition nA : str := [97]%N.          (* a *)
Definition tyInteger : str := [105;110;116;101;103;101;114]%N.
Definition tyText : str := [116;101;120;116]%N.
Definition dq : str := [113]%N.         (* q *)

Definition cId : column := mkColumn nId 2 tyInteger false None None None.
Definition cV (null : bool) (d : option dflt) : column := mkColumn nV 3 tyText null d None None.
Definition pkId : index := mkIndex [] false [mkPart 0 false (Some nId) None] None None None.

(** t(id integer primary key autoincrement, v text) -> v text NOT NULL DEFAULT 'q' *)
Definition t_old : xtable := mkX (mkTable nT false false [cId; cV true None] (Some pkId) [] [] []) [nId].
Definition t_new : xtable := mkX (mkTable nT false false [cId; cV false (Some (DLit dq))] (Some pkId) [] [] []) [nId].
Definition t_sub : list change := [ModifyColumn nV (N.lor ChangeNull ChangeDefault)].

(** p(a text, v text) without primary key -> v NOT NULL DEFAULT 'q' *)
Definition cA : column := mkColumn nA 3 tyText true None None None.
Definition p_old : xtable := mkX (mkTable nP false false [cA; cV true None] None [] [] []) [].
Definition p_new : xtable := mkX (mkTable nP false false [cA; cV false (Some (DLit dq))] None [] [] []) [].

Definition ct_of (x : xtable) (rows : list row) : ctable := mkCT x [] rows.
Definition vt (c : N) : value := VText [c].

(** rows 1 and 2 survive of four ever inserted into t (seq = 4); rows 1 and 3 survive in p *)
Definition w_db : db :=
  mkDB [ct_of t_old [(1%Z, [(nId, VInt 1); (nV, vt 97)]); (2%Z, [(nId, VInt 2); (nV, VNull)])];
        ct_of p_old [(1%Z, [(nA, vt 120); (nV, vt 49)]); (3%Z, [(nA, vt 122); (nV, VNull)])]] false false.
Definition w_seq : seqtab := [(nT, 4%Z)].

Definition w_cs : list schange := [ModifyTable nT t_sub; ModifyTable nP t_sub].
Definition w_plan : option plan := PlanChanges [t_old; p_old] [t_new; p_new] w_cs.

Definition w_run : option (result sdb) :=
  match w_plan with Some p => Some (exec_seq_all (w_db, w_seq) (plan_stmts p)) | None => None end.

Definition w_after : option (option (list row) * option (list row) * option Z) :=
  match w_run with
  | Some (Ok (d', s')) => Some (rows_of nT d', rows_of nP d', seq_get nT s')
  | _ => None
  end.

Lemma w_after_eq :
  w_after = Some (Some [(1%Z, [(nId, VInt 1); (nV, vt 97)]); (2%Z, [(nId, VInt 2); (nV, vt 113)])],
                  Some [(1%Z, [(nA, vt 120); (nV, vt 49)]); (2%Z, [(nA, vt 122); (nV, vt 113)])],
                  Some 2%Z).
Proof. vm_compute. reflexivity. Qed.

(** the rebuild of t alone, as a segment *)
Definition w_seg : option (list pchange * bool) := modifyTable (x_t t_old) t_new t_sub.
Lemma w_seg_ok : exists r, w_seg = Some (r, true) /\ alterable (x_t t_new) t_sub = false /\
  exists d' s', exec_seq_all (w_db, w_seq) (map pc_cmd r) = Ok (d', s') /\ seq_get nT s' = Some 2%Z.
Proof. eexists. split; [vm_compute; reflexivity|]. split; [vm_compute; reflexivity|]. eexists. eexists. vm_compute. split; reflexivity. Qed.

(** rowids are not kept by a table without INTEGER PRIMARY KEY: 1, 3 -> 1, 2 *)
Lemma rowid_refuted :
  exists (to : table) tc ex src, rowid_alias to = None /\
    map fst src = [1%Z; 3%Z] /\ map fst (insert_rows to tc ex src []) = [1%Z; 2%Z].
Proof.
  exists (x_t p_new), [nA; nV], [XCol nA; XCol nV],
         [(1%Z, [(nA, vt 120); (nV, vt 49)]); (3%Z, [(nA, vt 122); (nV, vt 50)])].
  vm_compute. repeat split.
Qed.

(** the AUTOINCREMENT counter is not kept by a rebuild: 4 -> 2 (ids 3 and 4 will be handed out again) *)
Lemma sequence_refuted :
  exists from tox cs r d s d' s',
    modifyTable from tox cs = Some (r, true) /\ db_fk d = false /\ x_autoinc tox <> [] /\
    exec_seq_all (d, s) (map pc_cmd r) = Ok (d', s') /\
    seq_get (x_name tox) s = Some 4%Z /\ seq_get (x_name tox) s' = Some 2%Z.
Proof.
  exists (x_t t_old), t_new, t_sub. eexists. exists w_db, w_seq. eexists. eexists.
  split; [vm_compute; reflexivity|]. split; [reflexivity|]. split; [discriminate|].
  split; [vm_compute; reflexivity|]. split; vm_compute; reflexivity.
Qed.
