(** C01: the rebuild path of one table, planner side -- [copyRows] on a change list of the differ
    pairs every stored desired column that exists in the current table with itself, and nothing else. *)
From Coq Require Import List NArith ZArith Bool Arith Lia.
From Atlas Require Import Base.Bytes Diff.Schema Diff.DiffModel Diff.DiffSqlite Diff.DiffProofs Diff.DiffSqliteProofs
  Sqlite.PlanModel Sqlite.EngineModel Sqlite.InspectModel Sqlite.ConvergeDefs Sqlite.ConvergeTable Sqlite.ConvergeEngine
  Sqlite.ConvergePlan Sqlite.ConvergeAlter.
Import ListNotations.

Definition is_col_change (c : change) : bool :=
  match c with AddColumn _ | DropColumn _ | ModifyColumn _ _ => true | _ => false end.

Lemma attr_part_nocol a b c : In c (attr_part a b) -> is_col_change c = false.
Proof.
  unfold attr_part, checks_diff. intros H. repeat (apply in_app_or in H; destruct H as [H|H]).
  - destruct (t_without_rowid a && negb (t_without_rowid b)); [destruct H as [<-|[]]; reflexivity|].
    destruct (negb (t_without_rowid a) && t_without_rowid b); [destruct H as [<-|[]]; reflexivity|destruct H].
  - destruct (t_strict a && negb (t_strict b)); [destruct H as [<-|[]]; reflexivity|].
    destruct (negb (t_strict a) && t_strict b); [destruct H as [<-|[]]; reflexivity|destruct H].
  - apply in_flat_map in H. destruct H as [k [_ H]].
    destruct (find (check_compare_to (check_compare None) k) (t_checks b)).
    + destruct (negb (check_compare None k c0)); [destruct H as [<-|[]]; reflexivity|destruct H].
    + destruct H as [<-|[]]; reflexivity.
  - apply in_flat_map in H. destruct H as [k [_ H]].
    destruct (existsb (check_compare_to (check_compare None) k) (t_checks a)); [destruct H|].
    destruct H as [<-|[]]; reflexivity.
Qed.

Lemma pk_part_nocol p q c : In c (pk_part p q) -> is_col_change c = false.
Proof.
  unfold pk_part, pk_diff. cbn [t_pk]. rewrite !add_or_skip_no_skip.
  destruct p as [p|], q as [q|]; intros H; try (destruct H as [<-|[]]; reflexivity); try destruct H.
  destruct (negb (N.eqb (N.land (index_change sqlite_driver p q) (N.lxor 32767 ChangeUnique)) 0)).
  - destruct H as [<-|[]]; reflexivity.
  - cbn [dd_support_rename_constraint sqlite_driver] in H. simpl in H. destruct H.
Qed.

Lemma fk_part_nocol n afks bfks c : In c (fk_part n afks bfks) -> is_col_change c = false.
Proof.
  unfold fk_part, fk_diff. rewrite add_or_skip_no_skip. cbn [t_fks]. intros H.
  apply in_app_or in H. destruct H as [H|H]; apply in_flat_map in H; destruct H as [f [_ H]].
  - destruct (find_fk (f_symbol f) bfks).
    + destruct (N.eqb (fk_change sqlite_driver f f0) 0); [destruct H|destruct H as [<-|[]]; reflexivity].
    + destruct H as [<-|[]]; reflexivity.
  - destruct (find_fk (f_symbol f) _); [destruct H|destruct H as [<-|[]]; reflexivity].
Qed.

Lemma idx_simple_nocol aidx bidx c :
  In c (flat_map (idx_dm_of bidx) aidx ++ flat_map (idx_add_of aidx) bidx) -> is_col_change c = false.
Proof.
  intros H. apply in_app_or in H. destruct H as [H|H]; apply in_flat_map in H; destruct H as [i [_ H]].
  - unfold idx_dm_of in H. destruct (kfind i_name (i_name i) bidx).
    + cbv zeta in H. destruct (N.eqb (index_change sqlite_driver i i0) 0); [destruct H|destruct H as [<-|[]]; reflexivity].
    + destruct H as [<-|[]]; reflexivity.
  - unfold idx_add_of in H. destruct (kfind i_name (i_name i) aidx); [destruct H|destruct H as [<-|[]]; reflexivity].
Qed.

(** the Drop/Modify part of columnDiff, spelled out *)
Definition col_dm_of (bcols : list column) (c1 : column) : list change :=
  match find_col (c_name c1) bcols with
  | None => [DropColumn (c_name c1)]
  | Some c2 => match colchg c1 c2 with
               | Some k => if N.eqb k 0 then [] else [ModifyColumn (c_name c1) k]
               | None => []
               end
  end.

Lemma col_dm_spec acols bcols dm : col_dm acols bcols = Some dm -> dm = flat_map (col_dm_of bcols) acols.
Proof.
  unfold col_dm. revert dm. induction acols as [|c1 l IH]; cbn [column_diff_drop_modify flat_map]; intros dm H.
  - inversion H. reflexivity.
  - unfold col_dm_of at 1. cbn [t_cols tcols] in H. destruct (find_col (c_name c1) bcols) as [c2|].
    + cbn [dd_column_change sqlite_driver] in H. unfold colchg.
      destruct (sqlite_column_change tnil c1 c2) as [k|]; [|discriminate].
      destruct (column_diff_drop_modify sqlite_driver tnil (tcols bcols) l) as [r|]; [|discriminate].
      inversion H. rewrite (IH r eq_refl). destruct (N.eqb k 0); reflexivity.
    + destruct (column_diff_drop_modify sqlite_driver tnil (tcols bcols) l) as [r|]; [|discriminate].
      inversion H. rewrite (IH r eq_refl). reflexivity.
Qed.

(** the change list of a table, when no index of the current table has a generated name *)
Lemma tdiff_shape a b cs :
  tdiff a b = Some cs -> idx_norm_stable (t_idx b) ->
  (forall i, In i (t_idx a) -> sqlite_is_generated_index_name (set_t_name a (t_name b)) i = false) ->
  exists pre post,
    cs = pre ++ (flat_map (col_dm_of (t_cols b)) (t_cols a) ++ col_add (t_cols a) (t_cols b)) ++ post /\
    (forall c, In c pre -> is_col_change c = false) /\ (forall c, In c post -> is_col_change c = false).
Proof.
  intros HD NS HG. rewrite tdiff_parts in HD. rewrite (normalize_idxs_stable b _ NS) in HD.
  destruct (col_dm (t_cols a) (t_cols b)) as [dm|] eqn:DM; [|discriminate].
  inversion HD as [E]. rewrite (col_dm_spec _ _ _ DM).
  exists (attr_part a b), (pk_part (t_pk a) (t_pk b) ++ idx_part a b (t_idx b) ++ fk_part (t_name b) (t_fks a) (t_fks b)).
  split; [reflexivity|]. split; [apply attr_part_nocol|].
  intros c Hc. apply in_app_or in Hc. destruct Hc as [Hc|Hc]; [eapply pk_part_nocol; eauto|].
  apply in_app_or in Hc. destruct Hc as [Hc|Hc]; [|eapply fk_part_nocol; eauto].
  rewrite (idx_part_simple a b (t_idx b) HG) in Hc. eapply idx_simple_nocol; eauto.
Qed.

(** *** [changes_for_column] and [drops_column] on such a list *)
Lemma filter_nil_iff {A} (f : A -> bool) l : (forall x, In x l -> f x = false) -> filter f l = [].
Proof.
  induction l as [|a l IH]; simpl; intros H; [reflexivity|]. rewrite (H a (or_introl eq_refl)). apply IH.
  intros x Hx. apply H. right. exact Hx.
Qed.

Definition colf (n : str) (c : change) : bool :=
  match c with AddColumn m | ModifyColumn m _ => str_eqb m n | _ => false end.

Lemma changes_for_column_filter n cs : changes_for_column n cs = filter (colf n) cs.
Proof. reflexivity. Qed.

Lemma nocol_filter n l : (forall c, In c l -> is_col_change c = false) -> filter (colf n) l = [].
Proof.
  intros H. apply filter_nil_iff. intros c Hc. specialize (H c Hc). destruct c; simpl in *; try reflexivity; discriminate.
Qed.

Lemma nocol_drops n l : (forall c, In c l -> is_col_change c = false) -> drops_column n l = false.
Proof.
  intros H. unfold drops_column. destruct (existsb _ l) eqn:E; [|reflexivity].
  apply existsb_exists in E. destruct E as [c [Hc Ec]]. specialize (H c Hc). destruct c; simpl in *; discriminate.
Qed.

Lemma drops_column_app n l1 l2 : drops_column n (l1 ++ l2) = drops_column n l1 || drops_column n l2.
Proof. unfold drops_column. apply existsb_app. Qed.

Lemma find_col_cons n c l : find_col n (c :: l) = if str_eqb (c_name c) n then Some c else find_col n l.
Proof. reflexivity. Qed.

Lemma find_col_absent n l : ~ In n (map c_name l) -> find_col n l = None.
Proof.
  intros H. unfold find_col. destruct (find (fun c => str_eqb (c_name c) n) l) as [c|] eqn:F; [|reflexivity].
  apply find_some in F. destruct F as [F1 F2]. apply str_eqb_eq in F2. exfalso. apply H. rewrite <- F2. apply in_map. exact F1.
Qed.

(** the Drop/Modify part, for a name *)
Lemma dm_filter n acols bcols :
  NoDup (map c_name acols) ->
  filter (colf n) (flat_map (col_dm_of bcols) acols) =
  match find_col n acols with
  | Some c1 => match find_col n bcols with
               | Some c2 => match colchg c1 c2 with
                            | Some k => if N.eqb k 0 then [] else [ModifyColumn n k]
                            | None => []
                            end
               | None => []
               end
  | None => []
  end.
Proof.
  induction acols as [|c1 l IH]; intros ND; [reflexivity|].
  inversion ND as [|x xs Hx Hxs]; subst. cbn [flat_map]. rewrite filter_app, (IH Hxs). rewrite find_col_cons.
  destruct (str_eqb (c_name c1) n) eqn:E.
  - apply str_eqb_eq in E. subst n.
    rewrite (find_col_absent (c_name c1) l Hx), app_nil_r.
    unfold col_dm_of. destruct (find_col (c_name c1) bcols) as [c2|]; [|reflexivity].
    destruct (colchg c1 c2) as [k|]; [|reflexivity]. destruct (N.eqb k 0); [reflexivity|]. simpl. rewrite str_eqb_refl. reflexivity.
  - assert (Y : filter (colf n) (col_dm_of bcols c1) = []).
    { unfold col_dm_of. destruct (find_col (c_name c1) bcols) as [c2|]; [|reflexivity].
      destruct (colchg c1 c2) as [k|]; [|reflexivity]. destruct (N.eqb k 0); [reflexivity|]. simpl. rewrite E. reflexivity. }
    rewrite Y. reflexivity.
Qed.

Lemma dm_drops n acols bcols :
  find_col n bcols <> None -> drops_column n (flat_map (col_dm_of bcols) acols) = false.
Proof.
  intros H. unfold drops_column. destruct (existsb _ _) eqn:E; [|reflexivity].
  apply existsb_exists in E. destruct E as [c [Hc Ec]]. apply in_flat_map in Hc. destruct Hc as [c1 [_ Hc]].
  unfold col_dm_of in Hc. destruct (find_col (c_name c1) bcols) as [c2|] eqn:F.
  - destruct (colchg c1 c2) as [k|]; [|destruct Hc]. destruct (N.eqb k 0); [destruct Hc|]. destruct Hc as [<-|[]]. discriminate.
  - destruct Hc as [<-|[]]. simpl in Ec. apply str_eqb_eq in Ec. congruence.
Qed.

Lemma add_filter n acols bcols :
  NoDup (map c_name bcols) ->
  filter (colf n) (col_add acols bcols) =
  match find_col n bcols with
  | Some _ => match find_col n acols with None => [AddColumn n] | Some _ => [] end
  | None => []
  end.
Proof.
  unfold col_add. induction bcols as [|c1 l IH]; intros ND; [reflexivity|].
  inversion ND as [|x xs Hx Hxs]; subst. cbn [flat_map]. rewrite filter_app, (IH Hxs). rewrite find_col_cons.
  destruct (str_eqb (c_name c1) n) eqn:E.
  - apply str_eqb_eq in E. subst n.
    rewrite (find_col_absent (c_name c1) l Hx), app_nil_r.
    destruct (find_col (c_name c1) acols); [reflexivity|]. simpl. rewrite str_eqb_refl. reflexivity.
  - assert (Y : filter (colf n) (match find_col (c_name c1) acols with None => [AddColumn (c_name c1)] | Some _ => [] end) = []).
    { destruct (find_col (c_name c1) acols); [reflexivity|]. simpl. rewrite E. reflexivity. }
    rewrite Y. reflexivity.
Qed.

Lemma add_drops n acols bcols : drops_column n (col_add acols bcols) = false.
Proof.
  unfold drops_column, col_add. destruct (existsb _ _) eqn:E; [|reflexivity].
  apply existsb_exists in E. destruct E as [c [Hc Ec]]. apply in_flat_map in Hc. destruct Hc as [c1 [_ Hc]].
  destruct (find_col (c_name c1) acols); [destruct Hc|]. destruct Hc as [<-|[]]. discriminate.
Qed.

(** *** [copyRows] succeeds and selects existing columns only *)
Definition pair_ok (a b : table) (p : str * sexpr) : Prop :=
  sexpr_col (snd p) = fst p /\ find_col (fst p) (t_cols a) <> None /\
  exists cb, In cb (t_cols b) /\ c_name cb = fst p /\ c_gen cb = None.

Lemma copy_cols_ok bx a cs :
  let b := x_t bx in
  tdiff a b = Some cs -> idx_norm_stable (t_idx b) ->
  (forall i, In i (t_idx a) -> sqlite_is_generated_index_name (set_t_name a (t_name b)) i = false) ->
  NoDup (map c_name (t_cols a)) -> NoDup (map c_name (t_cols b)) ->
  forallb (column_ok bx) (t_cols b) = true ->
  forall l, incl l (t_cols b) ->
  exists prs, copy_cols l cs = Some prs /\ Forall (pair_ok a b) prs.
Proof.
  intros b HD NS HG NDA NDB COK.
  destruct (tdiff_shape a b cs HD NS HG) as [pre [post [ECS [HPRE HPOST]]]].
  induction l as [|cb l IH]; intros Hincl; [exists []; split; [reflexivity|constructor]|].
  assert (Hcb : In cb (t_cols b)) by (apply Hincl; left; reflexivity).
  destruct IH as [prs [EP FP]]; [intros x Hx; apply Hincl; right; exact Hx|].
  cbn [copy_cols]. destruct (c_gen cb) as [g|] eqn:EG; [exists prs; split; assumption|].
  assert (FB : find_col (c_name cb) (t_cols b) = Some cb) by (apply find_col_nodup; assumption).
  assert (DR : drops_column (c_name cb) cs = false).
  { rewrite ECS, !drops_column_app. rewrite (nocol_drops _ pre HPRE), (nocol_drops _ post HPOST).
    rewrite dm_drops; [|congruence]. rewrite add_drops. reflexivity. }
  rewrite DR.
  assert (CF : changes_for_column (c_name cb) cs =
               match find_col (c_name cb) (t_cols a) with
               | Some c1 => match colchg c1 cb with
                            | Some k => if N.eqb k 0 then [] else [ModifyColumn (c_name cb) k]
                            | None => []
                            end
               | None => [AddColumn (c_name cb)]
               end).
  { rewrite changes_for_column_filter, ECS, !filter_app.
    rewrite (nocol_filter _ pre HPRE), (nocol_filter _ post HPOST), app_nil_r. cbn [app].
    rewrite (dm_filter _ _ _ NDA), (add_filter _ _ _ NDB), FB.
    destruct (find_col (c_name cb) (t_cols a)) as [c1|]; [|reflexivity]. rewrite app_nil_r. reflexivity. }
  rewrite CF, EP.
  assert (OKP : pair_ok a b (c_name cb, XCol (c_name cb)) \/ True) by (right; exact I).
  destruct (find_col (c_name cb) (t_cols a)) as [c1|] eqn:FA.
  - assert (PO : forall e, sexpr_col e = c_name cb -> pair_ok a b (c_name cb, e)).
    { intros e He. split; [exact He|]. split; [simpl; rewrite FA; discriminate|]. exists cb. repeat split; assumption. }
    destruct (colchg c1 cb) as [k|].
    + destruct (N.eqb k 0).
      * eexists. split; [reflexivity|]. constructor; [apply PO; reflexivity|exact FP].
      * destruct (negb (c_null cb) && (match c_default cb with Some _ => true | None => false end)
                  && (N.eqb k (N.lor ChangeNull ChangeDefault) || negb (N.eqb (N.land k (N.lor ChangeNull ChangeDefault)) 0))) eqn:EC.
        -- assert (DV : exists x, defaultValue cb = Some x).
           { apply andb_true_iff in EC. destruct EC as [EC _]. apply andb_true_iff in EC. destruct EC as [_ EC].
             assert (CO := proj1 (forallb_forall _ _) COK cb Hcb). unfold column_ok in CO.
             apply andb_true_iff in CO. destruct CO as [CO _]. apply andb_true_iff in CO. destruct CO as [_ CO].
             destruct (c_default cb); [|discriminate]. destruct (defaultValue cb) as [x|]; [exists x; reflexivity|discriminate]. }
           destruct DV as [x DV]. rewrite DV. eexists. split; [reflexivity|]. constructor; [apply PO; reflexivity|exact FP].
        -- eexists. split; [reflexivity|]. constructor; [apply PO; reflexivity|exact FP].
    + eexists. split; [reflexivity|]. constructor; [apply PO; reflexivity|exact FP].
  - exists prs. split; [reflexivity|exact FP].
Qed.

(** ** the plan of the rebuild *)
Lemma rebuild_plan bx a cs :
  let b := x_t bx in
  let t := x_name bx in
  let new_n := NEW_ ++ t in
  tdiff a b = Some cs -> alterable b cs = false ->
  no_auto_names (t_idx b) ->
  (forall i, In i (t_idx a) -> sqlite_is_generated_index_name (set_t_name a (t_name b)) i = false) ->
  NoDup (map c_name (t_cols a)) -> NoDup (map c_name (t_cols b)) ->
  forallb (column_ok bx) (t_cols b) = true ->
  exists pcs ins,
    modifyTable a bx cs = Some (pcs, true) /\
    map pc_cmd pcs = [SCreateTable (renamed bx new_n) []] ++ ins_stmts new_n t ins
                     ++ [SDropTable t; SRenameTable new_n t] ++ map (SCreateIndex t) (t_idx b) /\
    match ins with
    | None => True
    | Some (tc, fe) => length tc = length fe /\ tc <> [] /\
        (forall c, In c tc -> exists cb, In cb (t_cols b) /\ c_name cb = c /\ c_gen cb = None) /\
        (forall e, In e fe -> find_col (sexpr_col e) (t_cols a) <> None)
    end.
Proof.
  intros b t new_n HD HAL NA HG NDA NDB COK.
  destruct (copy_cols_ok bx a cs HD (no_auto_norm_stable _ NA) HG NDA NDB COK (t_cols b) (incl_refl _)) as [prs [EP FP]].
  unfold modifyTable. fold b. rewrite HAL.
  set (newT := set_t_name (set_t_idx b []) (NEW_ ++ t_name b)).
  assert (AT : addTable (set_x_t bx newT) = Some [mkPC (SCreateTable (renamed bx new_n) []) [SDropTable new_n] CmCreateTable]).
  { unfold addTable. cbn [x_t set_x_t].
    assert (X : forallb (column_ok (set_x_t bx newT)) (t_cols newT) = true) by exact COK.
    rewrite X. reflexivity. }
  rewrite AT. unfold copyRows. cbn [t_cols newT set_t_name set_t_idx]. rewrite EP.
  rewrite (addIndexes_id b (t_idx b) NA).
  destruct prs as [|p prs].
  - exists ([mkPC (SCreateTable (renamed bx new_n) []) [SDropTable new_n] CmCreateTable] ++ [] ++
            [mkPC (SDropTable (t_name b)) [] (CmDropAfterCopy false);
             mkPC (SRenameTable (t_name newT) (t_name b)) [] CmRenameTemp] ++ map (create_idx_pc (t_name b)) (t_idx b)), None.
    split; [reflexivity|]. split; [|exact I].
    rewrite !map_app, map_map. reflexivity.
  - eexists. exists (Some (map fst (p :: prs), map snd (p :: prs))).
    split; [reflexivity|]. split.
    + rewrite !map_app, map_map. reflexivity.
    + split; [rewrite !map_length; reflexivity|]. split; [discriminate|]. split.
      * intros c Hc. apply in_map_iff in Hc. destruct Hc as [q [Eq Hq]]. subst c.
        apply (proj1 (Forall_forall _ _) FP) in Hq. destruct Hq as [_ [_ H]]. exact H.
      * intros e He. apply in_map_iff in He. destruct He as [q [Eq Hq]]. subst e.
        apply (proj1 (Forall_forall _ _) FP) in Hq. destruct Hq as [H1 [H2 _]]. rewrite H1. exact H2.
Qed.
