(** M-SQLITE, planner: sql/sqlite/migrate.go function by function (Go names kept), over the
    schema graph of Diff/Schema.v and the change projection of Diff/DiffModel.v.

    The planner's output is a list of planned changes, the shape of [migrate.Change]:
    [pc_cmd] (an abstract statement instead of SQL text), [pc_reverse] (the list
    [Change.ReverseStmts] returns; [] = no reverse) and [pc_comment] (the kind of the comment).
    [plan] = [migrate.Plan{Changes, Reversible, Transactional}].

    What is a model decision (everything else follows the Go text):
    - [schange]/[change] of DiffModel.v carry names only, so the planner receives the two schemas
      the differ was given and looks the objects up by name.  [ModifyTable.T], [AddIndex.I],
      [AddColumn.C] are objects of the *desired* table after [diff.Normalize] renamed its
      autoindex-named indexes (Normalize mutates them in place, sql/sqlite/diff.go), [DropIndex.I]
      is the object of the *current* table; the model re-applies [normalize_idxs].
    - [xtable] = a [table] of Schema.v plus the names of the columns carrying [sqlite.AutoIncrement]
      (the differ never looks at that attribute; the planner and inspect do).  Model domain: the
      primary-key index carries the attribute iff its single column does (what inspect produces).
    - [AutoIncrement.Seq] is 0 (so [tableSeq] plans nothing); no [IfNotExists]/[IfExists] extras;
      no views/triggers; no RenameTable/RenameColumn/RenameIndex changes (the community differ
      never produces them); column types print ([FormatType] succeeds) iff the class is not 0.
    - [None] = PlanChanges returns an error.

    No proofs in this file. *)
From Coq Require Import List NArith Bool Arith.
From Atlas Require Import Base.Bytes Diff.Schema Diff.DiffModel Diff.DiffSqlite.
Import ListNotations.

(** ** extended tables *)
Record xtable := mkX {
  x_t       : table;
  x_autoinc : list str     (* names of the columns with a [sqlite.AutoIncrement] attribute *)
}.
Definition xschema := list xtable.

Definition x_name (x : xtable) : str := t_name (x_t x).
Definition find_xtable (n : str) (l : xschema) : option xtable :=
  find (fun x => str_eqb (x_name x) n) l.
Definition has_autoinc (x : xtable) (c : str) : bool := existsb (str_eqb c) (x_autoinc x).
Definition set_x_t (x : xtable) (t : table) : xtable := mkX t (x_autoinc x).
Definition schema_of (name : str) (l : xschema) : schema := mkSchema name (map x_t l).

(** ** abstract statements *)
(** one item of the SELECT list of [copyRows]: a column, or
    [IFNULL(`c`, x) AS `c`] with [x] the text [defaultValue] printed *)
Inductive sexpr := XCol (c : str) | XIfNull (c : str) (x : str).

Inductive stmt :=
| SCreateTable (x : xtable) (uniques : list (list str))
    (* CREATE TABLE of [x_t x] without its [t_idx]; [uniques] = inline UNIQUE constraints, which the
       planner never writes (always []); they exist so that engine states created by foreign SQL
       are expressible *)
| SDropTable (n : str)
| SRenameTable (a b : str)
| SAddColumn (t : str) (c : column) (autoinc : bool)
| SDropColumn (t c : str)                      (* only as a reverse statement *)
| SRenameColumn (t a b : str)                  (* never planned (see header); the engine refuses it *)
| SCreateIndex (t : str) (i : index)
| SDropIndex (n : str)
| SCopyRows (to_t : str) (to_cols : list str) (from_t : str) (from_exprs : list sexpr)
| SPragmaFK (on : bool).

(** the [Comment] of a planned change, by kind *)
Inductive ckind :=
| CmCreateTable | CmDropTable | CmDropAfterCopy (copied : bool) | CmRenameTemp
| CmAddColumn | CmCreateIndex | CmDropIndex | CmCopyRows | CmFKOff | CmFKOn.

Record pchange := mkPC {
  pc_cmd     : stmt;
  pc_reverse : list stmt;     (* Change.ReverseStmts(); [] = irreversible *)
  pc_comment : ckind
}.

Record plan := mkPlan {
  p_changes       : list pchange;
  p_reversible    : bool;
  p_transactional : bool
}.

(** ** constants *)
Definition NEW_ : str := [110;101;119;95]%N.                                   (* "new_" *)
Definition STORED : str := [83;84;79;82;69;68]%N.
Definition CURRENT_TIME : str := [67;85;82;82;69;78;84;95;84;73;77;69]%N.
Definition CURRENT_DATE : str := [67;85;82;82;69;78;84;95;68;65;84;69]%N.
Definition CURRENT_TIMESTAMP : str := CURRENT_TIME ++ [83;84;65;77;80]%N.

(** type classes (numbering of harness/cmd/diff/obs.go: sqliteClass) whose literal defaults
    [defaultValue] prints unquoted: IntegerType 2, FloatType 4, DecimalType 6, BoolType 7 *)
Definition numeric_class (k : N) : bool :=
  N.eqb k 2 || N.eqb k 4 || N.eqb k 6 || N.eqb k 7.

(** strings.ReplaceAll(s, "'", "''") *)
Definition double_squotes (s : str) : str :=
  flat_map (fun c => if N.eqb c ch_squote then [ch_squote; ch_squote] else [c]) s.

(** [sqlx.SingleQuote]: None = error *)
Definition single_quote (s : str) : option str :=
  if is_quoted s ch_squote then Some s
  else if is_quoted s ch_dquote then
    match strconv_unquote_dq s with
    | None => None
    | Some v => Some (ch_squote :: double_squotes v ++ [ch_squote])
    end
  else Some (ch_squote :: double_squotes s ++ [ch_squote]).

(** [defaultValue] (migrate.go): the text after DEFAULT; None = error.  Called only when
    [c.Default != nil]. *)
Definition defaultValue (c : column) : option str :=
  match c_default c with
  | Some (DLit v) => if numeric_class (c_class c) then Some v else single_quote v
  | Some (DRaw x) => Some (may_wrap x)
  | None => None
  end.

(** [state.column]: succeeds iff the type formats, the default prints and the column is not both
    AUTOINCREMENT and generated.  (The text itself is not modelled; the statement carries the
    column.) *)
Definition column_ok (x : xtable) (c : column) : bool :=
  negb (N.eqb (c_class c) 0)
  && match c_default c with
     | None => true
     | Some _ => match defaultValue c with Some _ => true | None => false end
     end
  && negb (has_autoinc x (c_name c) && match c_gen c with Some _ => true | None => false end).

(** [autoincPK] *)
Definition autoincPK (x : xtable) (pk : index) : bool :=
  match i_parts pk with
  | [p] => match p_col p with Some c => has_autoinc x c | None => false end
  | _ => false
  end.

(** planner state: [state.Changes] (in order) and [skipFKs] *)
Record pstate := mkPS { ps_changes : list pchange; ps_skipFKs : bool }.
Definition ps_append (s : pstate) (cs : list pchange) : pstate :=
  mkPS (ps_changes s ++ cs) (ps_skipFKs s).
Definition ps_skip (s : pstate) : pstate := mkPS (ps_changes s) true.

(** [state.addIndexes(t, indexes...)]: the planned changes; None = normalizeIdxName failed *)
Fixpoint addIndexes (t : table) (l : list index) : option (list pchange) :=
  match l with
  | [] => Some []
  | idx :: l' =>
      match normalize_idx_name idx t with
      | None => None
      | Some idx' =>
          match addIndexes t l' with
          | None => None
          | Some r => Some (mkPC (SCreateIndex (t_name t) idx') [SDropIndex (i_name idx')] CmCreateIndex :: r)
          end
      end
  end.

(** [state.dropIndexes]: plans the additions on a scratch state and swaps Cmd and Reverse *)
Definition dropIndexes (t : table) (l : list index) : option (list pchange) :=
  match addIndexes t l with
  | None => None
  | Some rs =>
      Some (map (fun c => mkPC (match pc_reverse c with r :: _ => r | [] => pc_cmd c end)
                               [pc_cmd c] CmDropIndex) rs)
  end.

(** [state.addTable]: CREATE TABLE (columns, PRIMARY KEY unless inlined by AUTOINCREMENT, foreign
    keys, checks, options), then [addIndexes] of [T.Indexes]; None = an error of [column] or of
    [normalizeIdxName] *)
Definition addTable (x : xtable) : option (list pchange) :=
  let t := x_t x in
  if negb (forallb (column_ok x) (t_cols t)) then None
  else match addIndexes t (t_idx t) with
       | None => None
       | Some idxs =>
           Some (mkPC (SCreateTable (set_x_t x (set_t_idx t [])) []) [SDropTable (t_name t)] CmCreateTable :: idxs)
       end.

(** [state.dropTable]: the reverse is the list of the Cmds of [addTable] on a scratch state *)
Definition dropTable (x : xtable) : option (list pchange) :=
  match addTable x with
  | None => None
  | Some rs => Some [mkPC (SDropTable (x_name x)) (map pc_cmd rs) CmDropTable]
  end.

(** [storedOrVirtual(x.Type) == stored] *)
Definition is_stored (ty : str) : bool := str_eqb (stored_or_virtual ty) STORED.

(** [alterable]; [to] is [modify.T].  [change.C.Indexes]/[ForeignKeys] of an added column are the
    back-references of the desired graph ([Index.AddParts]/[AddColumns], [ForeignKey.AddColumns]
    of sql/schema/dsl.go set them): an index or primary-key part / a foreign key of the desired
    table naming the column. *)
Definition col_in_index (t : table) (c : str) : bool :=
  existsb (fun i => existsb (fun p => ostr_eqb (p_col p) (Some c)) (i_parts i))
          (match t_pk t with Some pk => pk :: t_idx t | None => t_idx t end).
Definition col_in_fk (t : table) (c : str) : bool :=
  existsb (fun f => existsb (str_eqb c) (f_cols f)) (t_fks t).

Definition alterable_add_column (to : table) (c : column) : bool :=
  if col_in_index to (c_name c) || col_in_fk to (c_name c) then false
  else match c_default c with
       | Some (DLit v) =>
           if str_eqb v CURRENT_TIME || str_eqb v CURRENT_DATE || str_eqb v CURRENT_TIMESTAMP then false
           else match c_gen c with Some (_, ty) => negb (is_stored ty) | None => true end
       | Some (DRaw _) => false
       | None => match c_gen c with Some (_, ty) => negb (is_stored ty) | None => true end
       end.

Definition alterable (to : table) (cs : list change) : bool :=
  forallb (fun c =>
    match c with
    | AddIndex _ => true
    | DropIndex n =>      (* the index behind an inline UNIQUE constraint cannot be dropped: rebuild
                             (fix "sqlite planner rebuilds the table when the dropped index backs an
                             inline UNIQUE constraint"; before it this arm was [true]) *)
        match has_prefix SQLITE_AUTOINDEX n with Some _ => false | None => true end
    | AddColumn n => match find_col n (t_cols to) with
                     | Some col => alterable_add_column to col
                     | None => false       (* cannot happen for a change list of the differ *)
                     end
    | _ => false
    end) cs.

(** [state.alterTable]; [from]/[to] = current / desired table ([modify.T] = [to]) *)
Fixpoint alterTable (from : table) (tox : xtable) (cs : list change) : option (list pchange) :=
  let to := x_t tox in
  match cs with
  | [] => Some []
  | c :: cs' =>
      let here :=
        match c with
        | AddIndex n =>
            match find_idx n (t_idx to) with
            | Some (_, i) => addIndexes to [i]
            | None => None
            end
        | DropIndex n =>
            match find_idx n (t_idx from) with
            | Some (_, i) => dropIndexes to [i]
            | None => None
            end
        | AddColumn n =>
            match find_col n (t_cols to) with
            | Some col =>
                if column_ok tox col
                then Some [mkPC (SAddColumn (t_name to) col (has_autoinc tox n))
                                [SDropColumn (t_name to) n] CmAddColumn]
                else None
            | None => None
            end
        | _ => None       (* "unexpected change in alter table" *)
        end in
      match here, alterTable from tox cs' with
      | Some a, Some b => Some (a ++ b)
      | _, _ => None
      end
  end.

(** [state.copyRows(from = modify.T, to = &newT, changes)]: the pairing of [toC]/[fromC];
    [Some None] = nothing to copy (no INSERT planned); None = error *)
Definition changes_for_column (n : str) (cs : list change) : list change :=
  filter (fun c => match c with
                   | AddColumn m | ModifyColumn m _ => str_eqb m n
                   | _ => false
                   end) cs.
Definition drops_column (n : str) (cs : list change) : bool :=
  existsb (fun c => match c with DropColumn m => str_eqb m n | _ => false end) cs.

(** the Go loop returns "duplicate changes" when a second Add/Modify of the column is met and
    "unexpected drop column" when a DropColumn of it is met, whichever comes first; both are
    errors, so the order does not matter for [None] *)
Fixpoint copy_cols (cols : list column) (cs : list change) : option (list (str * sexpr)) :=
  match cols with
  | [] => Some []
  | column :: cols' =>
      match c_gen column with
      | Some _ => copy_cols cols' cs            (* generated: skipped on both sides *)
      | None =>
          if drops_column (c_name column) cs then None
          else
            let here : option (list (str * sexpr)) :=
              match changes_for_column (c_name column) cs with
              | [] => Some [(c_name column, XCol (c_name column))]
              | [AddColumn _] => Some []
              | [ModifyColumn _ k] =>
                  if negb (c_null column)
                     && (match c_default column with Some _ => true | None => false end)
                     && (N.eqb k (N.lor ChangeNull ChangeDefault)
                         || negb (N.eqb (N.land k (N.lor ChangeNull ChangeDefault)) 0))
                  then match defaultValue column with
                       | Some x => Some [(c_name column, XIfNull (c_name column) x)]
                       | None => None
                       end
                  else Some [(c_name column, XCol (c_name column))]
              | _ => None                        (* duplicate changes for column *)
              end in
            match here, copy_cols cols' cs with
            | Some a, Some b => Some (a ++ b)
            | _, _ => None
            end
      end
  end.

Definition copyRows (from_name : str) (to : table) (cs : list change) : option (option pchange) :=
  match copy_cols (t_cols to) cs with
  | None => None
  | Some [] => Some None
  | Some prs =>
      Some (Some (mkPC (SCopyRows (t_name to) (map fst prs) from_name (map snd prs)) [] CmCopyRows))
  end.

(** [state.modifyTable]: returns the planned changes and whether [skipFKs] was set *)
Definition modifyTable (from : table) (tox : xtable) (cs : list change) : option (list pchange * bool) :=
  let to := x_t tox in
  if alterable to cs then
    match alterTable from tox cs with
    | Some r => Some (r, false)
    | None => None
    end
  else
    let newT := set_t_name (set_t_idx to []) (NEW_ ++ t_name to) in
    match addTable (set_x_t tox newT) with
    | None => None
    | Some created =>
        match copyRows (t_name to) newT cs with
        | None => None
        | Some ins =>
            match addIndexes to (t_idx to) with
            | None => None
            | Some idxs =>
                let copied := match ins with Some _ => true | None => false end in
                Some (created
                      ++ (match ins with Some i => [i] | None => [] end)
                      ++ [mkPC (SDropTable (t_name to)) [] (CmDropAfterCopy copied);
                          mkPC (SRenameTable (t_name newT) (t_name to)) [] CmRenameTemp]
                      ++ idxs, true)
            end
        end
    end.

(** the desired table as the planner sees it: [Normalize] renamed its indexes *)
Definition normalized_to (x : xtable) : option xtable :=
  match normalize_idxs (x_t x) (t_idx (x_t x)) with
  | Some l => Some (set_x_t x (set_t_idx (x_t x) l))
  | None => None
  end.

(** [state.plan] *)
Fixpoint plan_loop (from to : xschema) (cs : list schange) (s : pstate) : option pstate :=
  match cs with
  | [] => Some s
  | c :: cs' =>
      let next :=
        match c with
        | AddTable n =>
            match find_xtable n to with
            | Some x => match addTable x with Some r => Some (ps_append s r) | None => None end
            | None => None
            end
        | DropTable n =>
            match find_xtable n from with
            | Some x => match dropTable x with Some r => Some (ps_skip (ps_append s r)) | None => None end
            | None => None
            end
        | ModifyTable n sub =>
            match find_xtable n from, find_xtable n to with
            | Some xf, Some xt =>
                match normalized_to xt with
                | None => None
                | Some xt' =>
                    match modifyTable (x_t xf) xt' sub with
                    | Some (r, sk) => Some (if sk then ps_skip (ps_append s r) else ps_append s r)
                    | None => None
                    end
                end
            | _, _ => None
            end
        end in
      match next with
      | Some s' => plan_loop from to cs' s'
      | None => None
      end
  end.

(** [sqlx.SetReversible] *)
Definition set_reversible (cs : list pchange) : bool :=
  forallb (fun c => match pc_reverse c with [] => false | _ :: _ => true end) cs.

(** [planApply.PlanChanges]: the plan of a change list computed between [from] and [to];
    [Reversible] is computed before the PRAGMA bracket is added *)
Definition PlanChanges (from to : xschema) (cs : list schange) : option plan :=
  match plan_loop from to cs (mkPS [] false) with
  | None => None
  | Some s =>
      let rev := set_reversible (ps_changes s) in
      let changes :=
        if ps_skipFKs s
        then mkPC (SPragmaFK false) [] CmFKOff :: ps_changes s ++ [mkPC (SPragmaFK true) [] CmFKOn]
        else ps_changes s in
      Some (mkPlan changes rev true)
  end.

Definition plan_stmts (p : plan) : list stmt := map pc_cmd (p_changes p).

(** differ + planner: what [schema apply] / [Driver.ApplyChanges(SchemaDiff(..))] runs *)
Definition diff_and_plan (name : str) (from to : xschema) : option plan :=
  match sqlite_schema_diff no_skip (schema_of name from) (schema_of name to) with
  | None => None
  | Some cs => PlanChanges from to cs
  end.
