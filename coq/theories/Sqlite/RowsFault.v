(** C05, faults inside the transaction opener and closer of `schema apply --tx-mode file`
    (sql/sqlite/driver.go: OpenTx / CommitFunc / enableFK) and at plan statements. *)
From Coq Require Import List NArith Bool Arith Lia.
From Atlas Require Import Base.Bytes Diff.Schema Sqlite.RowsModel Sqlite.RowsProofs.
Import ListNotations.

Section Fault.
Variable conv : str -> str -> value -> value.
Variable genv : str -> rcol -> row -> value.

Notation exec_all := (exec_all conv genv).
Notation run := (run conv genv).
Notation run_f := (run_f conv genv).
Notation schema_apply := (schema_apply conv genv).
Notation schema_apply_f := (schema_apply_f conv genv).

Lemma run_f_none l : forall d, run_f d l None = run d l.
Proof. induction l as [|s l IH]; intros d; simpl; [reflexivity|]. destruct (RowsModel.exec conv genv d s); auto. Qed.

Lemma run_f_ok l : forall d k d1, run_f d l k = (d1, None) -> run d l = (d1, None).
Proof.
  induction l as [|s l IH]; intros d k d1 H; simpl in *; [exact H|].
  destruct k as [[|j]|]; [discriminate| |];
    (destruct (RowsModel.exec conv genv d s); [eapply IH; exact H|discriminate]).
Qed.

Lemma run_exec_all l : forall d,
  exec_all d l = match run d l with (d', None) => EOk d' | (_, Some e) => EErr e end.
Proof.
  induction l as [|s l IH]; intros d; simpl; [reflexivity|].
  destruct (RowsModel.exec conv genv d s); [apply IH|reflexivity].
Qed.

(** without a fault the faulty runner is the runner of C05_schema_apply *)
Lemma schema_apply_f_none mode d cs : schema_apply_f mode FNone d cs = schema_apply mode d cs.
Proof.
  unfold RowsModel.schema_apply_f, RowsModel.schema_apply. destruct (PlanChanges cs) as [p|e]; [|reflexivity].
  destruct mode.
  - cbn [stmt_fault]. now rewrite run_f_none.
  - assert (OpenTx_f FNone d = (OpenTx d, None)) as E by (unfold OpenTx_f, OpenTx; destruct (d_fk d); reflexivity).
    rewrite E. cbn [stmt_fault]. rewrite run_f_none, run_exec_all. destruct (run (OpenTx d) p) as [d1 [e|]]; reflexivity.
Qed.

(** the opener: either it refuses -- then the tables are those it found -- or the plan starts
    inside a transaction with enforcement off *)
Lemma OpenTx_f_spec f d :
  d_tables (fst (OpenTx_f f d)) = d_tables d /\
  (snd (OpenTx_f f d) = None -> d_fk (fst (OpenTx_f f d)) = false /\ d_intx (fst (OpenTx_f f d)) = true).
Proof.
  unfold OpenTx_f. destruct f; destruct (d_fk d); simpl; repeat split; auto; discriminate.
Qed.

(** enforcement is on and the pragma that switches it off fails: OpenTx reports the error and
    nothing else happens -- no BEGIN, no statement of the plan *)
Lemma set_off_fault_stops d cs p :
  d_fk d = true -> PlanChanges cs = POk p ->
  schema_apply_f TxFile FSetFKOff d cs = Some (d, Some ELocked).
Proof.
  intros F P. unfold RowsModel.schema_apply_f. rewrite P. unfold OpenTx_f. now rewrite F.
Qed.

(** any single fault in file mode: the tables afterwards are the tables before, or exactly those of
    the fault-free run (only possible when everything up to COMMIT went through) *)
Lemma C05_schema_apply_faults_lemma :
  forall f d cs d' r,
  schema_apply_f TxFile f d cs = Some (d', r) ->
  d_tables d' = d_tables d \/
  (exists d0, schema_apply TxFile d cs = Some (d0, None) /\ d_tables d' = d_tables d0).
Proof.
  intros f d cs d' r H. unfold RowsModel.schema_apply_f in H.
  destruct (PlanChanges cs) as [p|e] eqn:P; [|discriminate].
  destruct (OpenTx_f_spec f d) as [T0 _].
  destruct (OpenTx_f f d) as [d0 [e|]] eqn:O; simpl in T0.
  - inversion H; subst. left. exact T0.
  - assert (d0 = OpenTx d) as ->.
    { unfold OpenTx_f in O. unfold OpenTx. destruct f; destruct (d_fk d); inversion O; reflexivity. }
    destruct (run_f (OpenTx d) p (stmt_fault f)) as [d1 [e|]] eqn:R.
    + inversion H; subst. left. reflexivity.
    + apply run_f_ok in R.
      assert (schema_apply TxFile d cs = Some (close_tx (d_fk d) (d_tables d1), None)) as FF.
      { unfold RowsModel.schema_apply. rewrite P, run_exec_all, R. reflexivity. }
      destruct f; try (inversion H; subst; right; eexists; split; [exact FF|reflexivity]);
        destruct (d_fk d); inversion H; subst; simpl;
        first [left; reflexivity | right; eexists; split; [exact FF|reflexivity]].
Qed.

(** a fault at COMMIT, or at the foreign_key_check before it: reported, every table as it was *)
Lemma commit_faults_unchanged f d cs d' r :
  f = FCommit \/ (f = FCheckAfter /\ d_fk d = true) ->
  schema_apply_f TxFile f d cs = Some (d', r) ->
  r <> None /\ d_tables d' = d_tables d.
Proof.
  intros Hf H. unfold RowsModel.schema_apply_f in H.
  destruct (PlanChanges cs) as [p|e]; [|discriminate].
  destruct (OpenTx_f_spec f d) as [T0 _].
  destruct (OpenTx_f f d) as [d0 [e|]]; simpl in T0.
  - inversion H; subst. split; [discriminate|exact T0].
  - destruct (run_f d0 p (stmt_fault f)) as [d1 [e|]].
    + inversion H; subst. split; [discriminate|reflexivity].
    + destruct Hf as [->|[-> F]].
      * inversion H; subst. split; [discriminate|reflexivity].
      * rewrite F in H. inversion H; subst. split; [discriminate|reflexivity].
Qed.

End Fault.

(** ** generated columns changing kind, NOT NULL over existing NULLs: what the planner does *)

(** a ModifyColumn of any kind (ChangeGenerated included) is never done in place *)
Lemma modify_forces_rebuild cs n k : In (ModifyColumn n k) cs -> alterable cs = false.
Proof.
  intros H. destruct (alterable cs) eqn:A; [|reflexivity].
  exfalso. eapply alterable_no_modify; eauto.
Qed.

(** kind pairs, by the kind of the *new* column (copyRows never looks at the old one):
    new generated (VIRTUAL or STORED), old anything: not part of the INSERT -- computed;
    new regular with a ModifyColumn (old regular, VIRTUAL or STORED): copied from the old column
    of the same name, i.e. the values a generated column showed are materialised. *)
Lemma kept_new_generated cs c : rc_gen c = true -> kept cs c = None.
Proof. intros G. unfold kept. now rewrite G. Qed.

Lemma kept_new_regular_modified cs c k :
  rc_gen c = false ->
  find_change (rc_name c) cs None = POk (Some (ModifyColumn (rc_name c) k)) ->
  kept cs c = Some (if rc_notnull c && has_default c && change_is k ChangeNullOrDefault
                    then EIfNull (rc_name c) (rc_defval c) else ECol (rc_name c)).
Proof. intros G F. unfold kept. now rewrite G, F. Qed.

(** either bit is enough for the IFNULL wrap: ChangeNull alone (default unchanged), ChangeDefault
    alone, both, or together with ChangeType / ChangeGenerated *)
Lemma change_is_either_bit k :
  N.testbit k 4 = true \/ N.testbit k 6 = true -> change_is k ChangeNullOrDefault = true.
Proof.
  intros H. unfold change_is. destruct (N.eqb k ChangeNullOrDefault); [reflexivity|]. simpl.
  destruct (N.eqb (N.land k ChangeNullOrDefault) 0) eqn:E; [|reflexivity].
  exfalso. apply N.eqb_eq in E.
  assert (N.testbit (N.land k ChangeNullOrDefault) 4 = false /\ N.testbit (N.land k ChangeNullOrDefault) 6 = false) as [A B]
    by (rewrite E; split; reflexivity).
  rewrite N.land_spec in A, B.
  change (N.testbit ChangeNullOrDefault 4) with true in A. change (N.testbit ChangeNullOrDefault 6) with true in B.
  rewrite andb_true_r in A, B. destruct H; congruence.
Qed.

Lemma notnull_default_wrapped cs c k :
  rc_gen c = false -> rc_notnull c = true -> has_default c = true ->
  find_change (rc_name c) cs None = POk (Some (ModifyColumn (rc_name c) k)) ->
  N.testbit k 4 = true \/ N.testbit k 6 = true ->
  kept cs c = Some (EIfNull (rc_name c) (rc_defval c)) /\ ifnull_wrapped cs c = true.
Proof.
  intros G NN HD F B. pose proof (kept_new_regular_modified cs c k G F) as K.
  rewrite NN, HD, (change_is_either_bit k B) in K. simpl in K. split; [exact K|].
  unfold ifnull_wrapped. now rewrite K.
Qed.

(** ** table options: the CREATE TABLE of the rebuild carries the options of the desired table *)
Lemma alterTable_no_create n cs l x : alterTable n cs = POk l -> ~ In (SCreateTable x) l.
Proof.
  revert l; induction cs as [|c cs IH]; intros l A H; simpl in A.
  - inversion A; subst. exact H.
  - destruct c as [c0|y|y k|a b|i|i|a b|tg]; try discriminate;
      destruct (alterTable n cs) as [l'|e]; try discriminate; inversion A; subst l; clear A;
      simpl in H; repeat (destruct H as [H|H]; [discriminate|]); eapply IH; eauto.
Qed.

Lemma rebuild_keeps_options t m l b x :
  seg (ModifyTable t m) = POk (l, b) -> In (SCreateTable x) l ->
  td_name x = new_prefix ++ td_name t /\ td_cols x = td_cols t /\
  td_strict x = td_strict t /\ td_without_rowid x = td_without_rowid t /\
  table_options x = table_options t.
Proof.
  rewrite seg_modify. destruct (alterable m).
  - destruct (alterTable _ m) as [l0|e] eqn:E; [|discriminate]. intros H; inversion H; subst. intros Hin.
    exfalso. eapply alterTable_no_create; eauto.
  - destruct (copyRows _ _ m) as [cp|e] eqn:E; [|discriminate]. intros H; inversion H; subst. clear H.
    apply copyRows_spec in E. intros Hin. simpl in Hin.
    destruct Hin as [Hin|Hin].
    + inversion Hin; subst x. unfold table_options. simpl. repeat split.
    + exfalso. apply in_app_or in Hin. destruct Hin as [Hin|Hin].
      * subst cp. destruct (pairs m _); [contradiction|]. destruct Hin as [Hin|[]]; discriminate.
      * destruct Hin as [Hin|[Hin|Hin]]; try discriminate.
        unfold addIndexes in Hin. apply in_map_iff in Hin. destruct Hin as [i [Hi _]]. discriminate.
Qed.
